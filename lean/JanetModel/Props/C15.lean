import JanetModel.Spec.Model
import JanetModel.Spec.Template
import JanetModel.Spec.Fixed
import JanetModel.Bytecode.VMPasses
import JanetModel.Bytecode.VMMovopt
import JanetModel.Bytecode.VMCallPasses
import JanetModel.Spec.CallSite
import JanetModel.Spec.FixedEmit
import JanetModel.Spec.VariadicEmit
import JanetModel.Spec.Snapshot
import JanetModel.Spec.Emit
import JanetModel.Spec.NilGuard
import JanetModel.Spec.Operand

/-!
C15 - compiler specialisations of core functions preserve behaviour (theorems only).

* `inline_eq_generic_row`   for ANY pair (row of `optimizers[]`, template) that satisfies the checkable condition
                            `rowAgrees true`, inline evaluation = generic evaluation for all argument lists, all immediate /
                            non-immediate operand mixes, all worlds: same value, same error, same sequence of method calls.
* `rows_agree_partial`      the regenerated tables (Gen/Cfuns.lean) satisfy `rowAgrees false` for every variadic row, and
                            `rowAgrees true` for every variadic row except `-` (kernel `decide`, re-run on every check).
* `inline_eq_generic_partial`  the instance: every variadic core function except unary `-`.
* `unary_minus_differs`     the missing part is false on the unchanged tree: witness.
* `imm_agrees`              (Bytecode/VM.lean) immediates.
* `fixed_rows_consistent`   arity guards / single-instruction asm bodies of the fixed-arity rows.
* `remove_noops_*`, `movopt_tables_sound_partial`, `movopt_getindex`   clean-up passes (Bytecode/VMPasses.lean).
-/

namespace JanetModel.Props.C15
open JanetModel.Gen.Bytecode JanetModel.Gen.Cfuns JanetModel.Bytecode.VM JanetModel.Spec

variable (P : Prims)

/-- an accumulation step with an immediate operand is the step on the operand's value -/
theorem stepInline_eq (op : Op) (opim : Option Op) (h : immOk op opim = true) (acc : P.V) (a : Arg P) (ha : a.wf P) :
    stepInline P op opim acc a = binop P op acc a.v := by
  unfold stepInline
  cases opim with
  | none => rfl
  | some oi =>
    cases hi : a.imm with
    | none => rfl
    | some i =>
      have hb : immBase oi = some op := by simpa [immOk] using h
      have hv := (ha i hi).1
      simp only []
      rw [imm_agrees P oi op hb, hv]

theorem foldl_stepInline_eq (op : Op) (opim : Option Op) (h : immOk op opim = true) (rest : List (Arg P))
    (hw : ∀ a ∈ rest, a.wf P) (t : P.V) :
    M.foldl (stepInline P op opim) t rest = M.foldl (binop P op) t (rest.map (·.v)) := by
  induction rest generalizing t with
  | nil => rfl
  | cons a as ih =>
    simp only [M.foldl, List.map_cons]
    rw [stepInline_eq P op opim h t a (hw a List.mem_cons_self)]
    congr 1
    funext t'
    exact ih (fun a' ha' => hw a' (List.mem_cons_of_mem _ ha')) t'

/-- variadic arithmetic: `opreduce` with constants and opcodes that agree with the template computes what the template
    computes, for every argument list (left-to-right accumulation; immediates or not) -/
theorem opreduce_eq_varop_gen (special : Option (Op × Op × Int)) (op : Op) (opim : Option Op) (n u : Int)
    (h : immOk op opim = true) (hs : ∀ sop rop k, special = some (sop, rop, k) → op ≠ sop)
    (args : List (Arg P)) (hw : ∀ a ∈ args, a.wf P) :
    evalOpreduce P special op opim (.int n) (.int u) args = evalVarop P n u op (args.map (·.v)) := by
  match args, hw with
  | [], _ => rfl
  | [x], _ =>
    simp only [evalOpreduce, evalVarop, List.map_cons, List.map_nil, constVal]
    cases special with
    | none => rfl
    | some s =>
      obtain ⟨sop, rop, k⟩ := s
      have : op ≠ sop := hs sop rop k rfl
      simp [this]
  | x :: y :: rest, hw =>
    simp only [evalOpreduce, evalVarop, List.map_cons]
    rw [stepInline_eq P op opim h x.v y (hw y (by simp))]
    congr 1
    funext t
    exact foldl_stepInline_eq P op opim h rest (fun a ha => hw a (by simp [ha])) t

theorem opreduce_eq_varop (op : Op) (opim : Option Op) (n u : Int) (h : immOk op opim = true)
    (hs : isUnarySpecial op = false) (args : List (Arg P)) (hw : ∀ a ∈ args, a.wf P) :
    evalOpreduce P opreduceUnarySpecial op opim (.int n) (.int u) args = evalVarop P n u op (args.map (·.v)) :=
  opreduce_eq_varop_gen P opreduceUnarySpecial op opim n u h (isUnarySpecialOf_false _ op hs) args hw

/-- the same without the hypothesis on the unary special case, for every arity but one -/
theorem opreduce_eq_varop_not_unary (op : Op) (opim : Option Op) (n u : Int) (h : immOk op opim = true)
    (args : List (Arg P)) (hw : ∀ a ∈ args, a.wf P) (hlen : args.length ≠ 1) :
    evalOpreduce P opreduceUnarySpecial op opim (.int n) (.int u) args = evalVarop P n u op (args.map (·.v)) := by
  match args, hw, hlen with
  | [], _, _ => rfl
  | [x], _, hl => exact absurd rfl hl
  | x :: y :: rest, hw, _ =>
    simp only [evalOpreduce, evalVarop, List.map_cons]
    rw [stepInline_eq P op opim h x.v y (hw y (by simp))]
    congr 1
    funext t
    exact foldl_stepInline_eq P op opim h rest (fun a ha => hw a (by simp [ha])) t

/-- comparison opcodes produce janet booleans -/
def cmpVal (op : Op) (a b : P.V) : Bool :=
  match kindOf op with
  | .rel => if P.isNum a && P.isNum b then P.numRel op a b else P.cmpRel op a b
  | .eq => P.eqv a b
  | .neq => !P.eqv a b
  | _ => false

theorem binop_cmp (op : Op) (h : kindOf op = .rel ∨ kindOf op = .eq ∨ kindOf op = .neq) (a b : P.V) :
    binop P op a b = M.pure (ofBool P (cmpVal P op a b)) := by
  unfold binop cmpVal
  rcases h with h | h | h <;> rw [h] <;> rfl

/-- chain lemma: if the inline comparison is the generic comparison xor `invert`, the inline chain with its early
    exits computes what the generic loop computes -/
theorem goInline_eq_goGeneric (opI opG : Op) (opim : Option Op) (invert : Bool) (hi : immOk opI opim = true)
    (hI : kindOf opI = .rel ∨ kindOf opI = .eq ∨ kindOf opI = .neq)
    (hG : kindOf opG = .rel ∨ kindOf opG = .eq ∨ kindOf opG = .neq)
    (hx : ∀ a b, cmpVal P opI a b = (cmpVal P opG a b != invert))
    (rest : List (Arg P)) (a : P.V) (b : Arg P) (hb : b.wf P) (hw : ∀ c ∈ rest, c.wf P) :
    goInline P opI opim invert a b rest = goGeneric P invert opG a b.v (rest.map (·.v)) := by
  induction rest generalizing a b with
  | nil =>
    simp only [goInline, goGeneric, List.map_nil]
    rw [stepInline_eq P opI opim hi a b hb, binop_cmp P opI hI, binop_cmp P opG hG, M.pure_bind, hx]
    simp only [truthy_ofBool]
    cases cmpVal P opG a b.v <;> cases invert <;> rfl
  | cons c rest ih =>
    simp only [goInline, goGeneric, List.map_cons]
    rw [stepInline_eq P opI opim hi a b hb, binop_cmp P opI hI, binop_cmp P opG hG, M.pure_bind, M.pure_bind, hx]
    simp only [truthy_ofBool]
    have ihc := ih b.v c (hw c List.mem_cons_self) (fun c' hc' => hw c' (List.mem_cons_of_mem _ hc'))
    cases hv : cmpVal P opG a b.v <;> cases invert <;> simp [ihc]

theorem compreduce_eq_comparator (opI opG : Op) (opim : Option Op) (invert : Bool) (hi : immOk opI opim = true)
    (hc : (if invert then kindOf opI == .neq && kindOf opG == .eq else opI == opG && (kindOf opI == .rel || kindOf opI == .eq)) = true)
    (args : List (Arg P)) (hw : ∀ a ∈ args, a.wf P) :
    evalCompreduce P opI opim invert args = evalComparator P invert opG (args.map (·.v)) := by
  have key : (kindOf opI = .rel ∨ kindOf opI = .eq ∨ kindOf opI = .neq) ∧ (kindOf opG = .rel ∨ kindOf opG = .eq ∨ kindOf opG = .neq) ∧
      ∀ a b, cmpVal P opI a b = (cmpVal P opG a b != invert) := by
    cases invert with
    | true =>
      simp only [if_true, Bool.and_eq_true, beq_iff_eq] at hc
      refine ⟨Or.inr (Or.inr hc.1), Or.inr (Or.inl hc.2), ?_⟩
      intro a b
      simp [cmpVal, hc.1, hc.2]
    | false =>
      simp only [Bool.false_eq_true, if_false, Bool.and_eq_true, beq_iff_eq, Bool.or_eq_true] at hc
      obtain ⟨he, hk⟩ := hc
      subst he
      have hk' : kindOf opI = .rel ∨ kindOf opI = .eq ∨ kindOf opI = .neq := by
        rcases hk with h | h
        · exact Or.inl h
        · exact Or.inr (Or.inl h)
      exact ⟨hk', hk', by intro a b; simp⟩
  obtain ⟨hI, hG, hx⟩ := key
  match args, hw with
  | [], _ => rfl
  | [_], _ => rfl
  | x :: y :: rest, hw =>
    simp only [evalCompreduce, evalComparator, List.map_cons]
    exact goInline_eq_goGeneric P opI opG opim invert hi hI hG hx rest x.v y (hw y (by simp)) (fun c hc' => hw c (by simp [hc']))

/-- ★ generic row theorem: an arbitrary row / template pair that passes the checkable agreement condition is inline =
    generic on every argument list (argument values are evaluated before either side runs; both sides consume them
    left to right, so the order of method calls and the point of the first error coincide) -/
theorem inline_eq_generic_row (r : OptRow) (t : CoreFun) (h : rowAgrees true r t = true)
    (args : List (Arg P)) (hw : ∀ a ∈ args, a.wf P) :
    ∃ m, evalInline P r args = some m ∧ evalGeneric P t (args.map (·.v)) = some m := by
  unfold rowAgrees at h
  simp only [Bool.and_eq_true] at h
  obtain ⟨_, h⟩ := h
  unfold evalInline evalGeneric
  cases hh : r.handler with
  | opreduce op opim nullary unary =>
    cases hk : t.kind with
    | varop n u opG =>
      rw [hh, hk] at h
      simp only [Bool.and_eq_true, beq_iff_eq, Bool.or_eq_true, Bool.not_eq_true', Bool.not_eq_true, Bool.true_eq_false, false_or] at h
      obtain ⟨⟨⟨⟨⟨he, hn⟩, hu⟩, hi⟩, _⟩, hs⟩ := h
      subst he hn hu
      exact ⟨_, rfl, by rw [opreduce_eq_varop P op opim n u hi hs args hw]⟩
    | comparator _ _ => rw [hh, hk] at h; simp at h
    | asm => rw [hh, hk] at h; simp at h
    | apply => rw [hh, hk] at h; simp at h
  | compreduce op opim inv =>
    cases hk : t.kind with
    | comparator invG opG =>
      rw [hh, hk] at h
      simp only [Bool.and_eq_true, beq_iff_eq] at h
      obtain ⟨⟨⟨he, hi⟩, _⟩, hc⟩ := h
      subst he
      exact ⟨_, rfl, by rw [compreduce_eq_comparator P op opG opim inv hi hc args hw]⟩
    | varop _ _ _ => rw [hh, hk] at h; simp at h
    | asm => rw [hh, hk] at h; simp at h
    | apply => rw [hh, hk] at h; simp at h
  | opfunction _ _ => rw [hh] at h; simp at h
  | genericSS _ => rw [hh] at h; simp at h
  | special _ => rw [hh] at h; simp at h

/-- the rows of the variadic families paired with the template of the same tag -/
def variadicPairs : List (OptRow × CoreFun) :=
  (optimizers.filter isVariadic).filterMap fun r => (templateOf r.tag).map fun t => (r, t)

/-- ★ obligation on the REGENERATED tables (re-checked by the kernel on every run): every variadic row has a template;
    all of them agree in opcode, immediate opcode, nullary / unary constants, invert flag and (absent) arity guard; all
    but the row of `-` also pass the unary-special-case conjunct -/
theorem rows_agree_partial :
    variadicPairs.length = (optimizers.filter isVariadic).length ∧
    (∀ p ∈ variadicPairs, rowAgrees false p.1 p.2 = true) ∧
    (∀ p ∈ variadicPairs, p.1.tagName ≠ "SUBTRACT" → rowAgrees true p.1 p.2 = true) := by
  decide +kernel

/-- there are 19 of them: + - * / div mod % band bor bxor blshift brshift brushift < > <= >= = not= -/
theorem variadic_count : variadicPairs.length = 13 + 6 := by decide +kernel

/-- ★ instance: every variadic core function except `-` -/
theorem inline_eq_generic_partial (p : OptRow × CoreFun) (hp : p ∈ variadicPairs) (hne : p.1.tagName ≠ "SUBTRACT")
    (args : List (Arg P)) (hw : ∀ a ∈ args, a.wf P) :
    ∃ m, evalInline P p.1 args = some m ∧ evalGeneric P p.2 (args.map (·.v)) = some m :=
  inline_eq_generic_row P p.1 p.2 (rows_agree_partial.2.2 p hp hne) args hw

/-- `-` agrees with its template on every call that is not unary -/
theorem subtract_eq_generic_not_unary (args : List (Arg P)) (hw : ∀ a ∈ args, a.wf P) (hlen : args.length ≠ 1) :
    evalOpreduce P opreduceUnarySpecial .subtract (some .subtractImmediate) (.int 0) (.int 0) args =
      evalVarop P 0 0 .subtract (args.map (·.v)) :=
  opreduce_eq_varop_not_unary P .subtract (some .subtractImmediate) 0 0 (by decide) args hw hlen

/-- the row of `-` really is the row the previous theorem talks about -/
theorem subtract_row :
    ∃ r ∈ optimizers, ∃ t ∈ templates, r.tagName = "SUBTRACT" ∧ r.handler = .opreduce .subtract (some .subtractImmediate) (.int 0) (.int 0) ∧
      t.tag = r.tag ∧ t.kind = .varop 0 0 .subtract := by
  decide +kernel

/-! ### the generic side is the REAL bytecode of the templates -/

/-- ★ obligation on the regenerated words: every variadic template of corelib.c decodes to the modelled instruction list -/
theorem template_words_ok : templates.all templateWordsOk = true := by decide +kernel

/-- ★ inline code of a variadic core function (except unary `-`) computes what running the generic function's actual bytecode
    (words regenerated from corelib.c, decoded, executed by `VM.exec` from the vararg entry frame) computes -/
theorem inline_eq_generic_bytecode_partial (T : TupleLaws P) (p : OptRow × CoreFun) (hp : p ∈ variadicPairs) (hne : p.1.tagName ≠ "SUBTRACT")
    (args : List (Arg P)) (hw : ∀ a ∈ args, a.wf P) (w : P.W) :
    ∃ m code fuel, evalInline P p.1 args = some m ∧ p.2.words.map decode = code.map some ∧
      exec P code fuel (frame0 P T (args.map (·.v))) w = some (m w) := by
  obtain ⟨m, hi, hg⟩ := inline_eq_generic_partial P p hp hne args hw
  have hmem : p.2 ∈ templates := by
    simp only [variadicPairs, List.mem_filterMap] at hp
    obtain ⟨r, _, hr⟩ := hp
    simp only [templateOf, Option.map_eq_some_iff] at hr
    obtain ⟨t, ht, rfl⟩ := hr
    exact List.mem_of_find?_eq_some ht
  have hok := List.all_eq_true.mp template_words_ok p.2 hmem
  obtain ⟨code, fuel, hd, hf⟩ := generic_bytecode_correct P T p.2 hok (args.map (·.v)) m hg w
  exact ⟨m, code, fuel, hi, hd, hf⟩

/-! ### the missing part is false on the unchanged tree: unary minus -/

namespace Witness

/-- a tiny universe: integers, one table with a `:*` and a `:r-` method, the two method objects -/
inductive WV where
  | n (i : Int)
  | tab
  | mMul
  | mRSub
  deriving DecidableEq, Repr

def isNum : WV → Bool
  | .n _ => true
  | _ => false

def lookup : WV → String → Option WV
  | .tab, m => if m = "*" then some .mMul else if m = "r-" then some .mRSub else none
  | _, _ => none

/-- the world is the log of invoked methods -/
def invoke : WV → List WV → List String → Except String WV × List String
  | .mMul, _, w => (.ok (.n 1), w ++ ["*"])
  | .mRSub, _, w => (.ok (.n 2), w ++ ["r-"])
  | _, _, w => (.error "not callable", w)

def WP : Prims where
  V := WV
  E := String
  W := List String
  num := .n
  nil := .tab
  tru := .n 1
  fls := .n 0
  truthy := fun v => v != .n 0
  isNil := fun _ => false
  isNum := isNum
  num_isNum := fun _ => rfl
  truthy_tru := by decide
  truthy_fls := by decide
  arith := fun op a b =>
    match op, a, b with
    | .subtract, .n x, .n y => .ok (.n (x - y))
    | .multiply, .n x, .n y => .ok (.n (x * y))
    | _, _, _ => .error "unsupported"
  lookup := lookup
  lookup_num := by
    intro x m h
    cases x <;> simp_all [isNum, lookup]
  invoke := invoke
  noMethod := fun m _ => "nomethod " ++ m
  numRel := fun _ _ _ => false
  cmpRel := fun _ _ _ => false
  eqv := fun a b => a == b
  numEq := fun a b => a == b
  eqv_num := by
    intro a i
    cases a <;> simp [isNum]
  other := fun _ _ _ w => (.error "unsupported", w)
  unary := fun _ _ w => (.error "unsupported", w)
  getIndex := fun _ _ w => (.error "unsupported", w)
  put3 := fun _ _ _ w => (.error "unsupported", w)
  signal := fun _ _ w => (.error "unsupported", w)
  raise := fun _ => "raised"

def theArg : Arg WP := ⟨.tab, none⟩

end Witness

/-- ★ witness: as long as `opreduce` has its unary special case (`x * -1` for `-`), inline `(- t)` and generic `(- t)`
    differ for a table `t` with operator methods: inline runs `t * -1` (method `:*`), the template runs `0 - t`
    (method `:r-`).  Stated as an implication so that it is also a theorem on a tree where the special case is gone. -/
theorem unary_minus_differs_gen (sp : Option (Op × Op × Int)) (h : sp = some (.subtract, .multiplyImmediate, -1)) :
    (evalOpreduce Witness.WP sp .subtract (some .subtractImmediate) (.int 0) (.int 0) [Witness.theArg] []).2 = ["*"] ∧
    (evalVarop Witness.WP 0 0 .subtract [Witness.theArg.v] []).2 = ["r-"] := by
  subst h
  exact ⟨rfl, rfl⟩

theorem unary_minus_differs :
    opreduceUnarySpecial = some (.subtract, .multiplyImmediate, -1) →
    (evalOpreduce Witness.WP opreduceUnarySpecial .subtract (some .subtractImmediate) (.int 0) (.int 0) [Witness.theArg] []).2 = ["*"] ∧
    (evalVarop Witness.WP 0 0 .subtract [Witness.theArg.v] []).2 = ["r-"] :=
  fun h => unary_minus_differs_gen opreduceUnarySpecial h

/-- the full statement for all rows holds exactly when the unary special case is absent -/
theorem rows_agree_all_or_unary_special :
    (∀ p ∈ variadicPairs, rowAgrees true p.1 p.2 = true) ∨ opreduceUnarySpecial ≠ none := by
  decide +kernel


namespace Witness

def wxView (v : WV) : Option (List WV) := match v with | .tab => some [.n 7, .n 8] | _ => none
def wxCall (_ : WV) (args : List WV) (_ : Nat → Option WV) (w : List String) : Except String (WV × (Nat → Option WV)) × List String :=
  (.ok (.n args.length, fun _ => none), w ++ ["call"])
def wxMake (_ : Op) (_ : List WV) (w : List String) : Except String WV × List String := (.error "unsupported", w)
def wxPutIndex (_ : WV) (_ : Nat) (_ : WV) (w : List String) : Except String Unit × List String := (.error "unsupported", w)
def wxNotIndexed (_ : WV) : String := "not indexed"
def wxLoadUp (_ _ : Nat) (_ : List String) : WV := .n 0
def wxSetUp (_ _ : Nat) (_ : WV) (w : List String) : List String := w
def wxTypecheck (_ : WV) (_ : Nat) : Option String := none

/-- a call oracle that logs the call and returns the number of arguments; the witness table is the 2-element indexed value -/
def WX : CallPrims WP where
  indexedView := wxView
  notIndexed := wxNotIndexed
  call := wxCall
  make := wxMake
  closure := fun _ => WV.mMul
  constant := fun _ => WV.n 0
  self := WV.mMul
  loadUpvalue := wxLoadUp
  setUpvalue := wxSetUp
  typecheck := wxTypecheck
  putIndex := wxPutIndex

def runW (code : List Instr) (slots : List WV) : Option (Except String WV × List String) :=
  execX WX (fun _ => false) code 10 ⟨slots, [], 0⟩ ([] : List String)

def passCode : List Instr := [mkAI .loadInteger 3 9, mkAI .jumpIfNot 0 3, mkD .push 1, mkAE .call 2 0, mkD .return 2]
def passCode' : List Instr := [⟨.noop, 0⟩, mkAI .jumpIfNot 0 3, mkD .push 1, mkAE .call 2 0, mkD .return 2]

end Witness

/-- non-vacuity: `(apply f 1 2 3 4 t)` inline is `push3; push; pusha; tcall` and makes one call with 4 + 2 arguments -/
example : Witness.runW (emitApply 0 [1, 2, 3, 4] 5 none) [.mMul, .n 1, .n 2, .n 3, .n 4, .tab] = some (.ok (.n 6), ["call"]) := rfl

/-- non-vacuity: a last argument that is not indexed raises before any call (empty call log) -/
example : Witness.runW (emitApply 0 [1] 2 none) [.mMul, .n 1, .n 2] = some (.error "not indexed", []) := rfl

/-- non-vacuity: `(f 1 ;t 2)` goes through push / push-array / push and one call with 1 + 2 + 1 arguments -/
example : hasSpliced [⟨1, false⟩, ⟨2, true⟩, ⟨3, false⟩] = true ∧
    Witness.runW (emitGenericCall 0 [⟨1, false⟩, ⟨2, true⟩, ⟨3, false⟩] none) [.mMul, .n 1, .tab, .n 2] = some (.ok (.n 4), ["call"]) :=
  ⟨rfl, rfl⟩

/-- non-vacuity of the pass theorems over the full interpreter: a function with a push, a call, a dead load and a conditional jump
    (`ldi 3 9` is dead; movopt writes a noop over it; removing the noop retargets nothing here but shifts every pc) gives one result -/
example : Witness.runW Witness.passCode [.mMul, .n 1, .n 0, .n 0] = some (.ok (.n 1), ["call"]) ∧
    Witness.runW Witness.passCode' [.mMul, .n 1, .n 0, .n 0] = some (.ok (.n 1), ["call"]) ∧
    Witness.runW (JanetModel.Bytecode.VMPasses.removeNoopsFull Witness.passCode') [.mMul, .n 1, .n 0, .n 0] = some (.ok (.n 1), ["call"]) :=
  ⟨rfl, rfl, rfl⟩

/-- the witness argument is a legal argument -/
example : Witness.theArg.wf Witness.WP := by intro i h; cases h

/-- non-vacuity: the generic theorem applies to a non-trivial call, e.g. `(+ t 5 t)` with the immediate 5 -/
example : ∃ m, evalInline Witness.WP (optimizers.getD 8 default) [⟨.tab, none⟩, ⟨.n 5, some 5⟩, ⟨.tab, none⟩] = some m := ⟨_, rfl⟩

/-! ### fixed-arity rows -/

/-- ★ every row has a template of the same tag; whenever an arity guard admits a call the generic function accepts that
    arity; the single-instruction handlers (`genericSS`, `opfunction`) have exactly the one-instruction asm body -/
theorem fixed_rows_consistent :
    ∀ r ∈ optimizers, ∃ t ∈ templates, t.tag = r.tag ∧ guardWithinArity r t = true ∧ asmShapeOk r t = true := by
  decide +kernel

/-- ★ obligation on the regenerated tables: every fixed-arity row (all 33 rows minus the 19 variadic ones minus `apply`) has a
    template whose words decode to the asm shape its handler requires, with a large enough frame and compatible arities -/
theorem fixed_rows_ok :
    optimizers.all fixedRowOk = true ∧ (optimizers.filter (fun r => (shapeOf r).isSome)).length = 13 ∧
    (optimizers.filter (fun r => !(shapeOf r).isSome && !isVariadic r)).map (·.handlerName) = ["do_apply"] := by
  decide +kernel

/-- ★ instance: for every fixed-arity specialised function except `apply` (get in put length next cmp resume cancel yield debug
    error propagate bnot) the inline code computes what running the generic function's real bytecode computes -/
theorem fixed_inline_eq_generic (hnil1 : ∀ v, P.eqv v P.nil = P.isNil v) (hnil2 : ∀ v, P.isNil v = true → v = P.nil)
    (r : OptRow) (hr : r ∈ optimizers) (t : CoreFun) (ht : templateOf r.tag = some t)
    (args : List P.V) (m : M P P.V) (hm : evalInlineFixed P r args = some m) (w : P.W) :
    ∃ code fuel, t.words.map decode = code.map some ∧ exec P code fuel (frameOf P t.slots args) w = some (m w) :=
  fixed_inline_eq_generic_bytecode P hnil1 hnil2 r (List.all_eq_true.mp fixed_rows_ok.1 r hr) t ht args m hm w



/-! ### the hand-modelled C bodies: regenerated statement skeletons against the ones the model was written for

One theorem per C function, so that a changed body is NAMED by the obligation that fails.  The skeleton (tools/gen/cfuns_skel.py) is
independent of whitespace, comments, names of parameters / locals, pure helper variables, `(void)` casts; it keeps the control structure,
the conditions, every emit call (kind, opcode, operands, write flag) and every other effect, in order. -/

theorem skeleton_genericSS_ok : skeletonOf "genericSS" = Skeleton.genericSS := by decide +kernel
theorem skeleton_genericSSI_ok : skeletonOf "genericSSI" = Skeleton.genericSSI := by decide +kernel
theorem skeleton_opfunction_ok : skeletonOf "opfunction" = Skeleton.opfunction := by decide +kernel
theorem skeleton_can_be_imm_ok : skeletonOf "can_be_imm" = Skeleton.can_be_imm := by decide +kernel
theorem skeleton_can_slot_be_imm_ok : skeletonOf "can_slot_be_imm" = Skeleton.can_slot_be_imm := by decide +kernel
theorem skeleton_reduce_target_ok : skeletonOf "reduce_target" = Skeleton.reduce_target := by decide +kernel
/-- ONE validated body: the one with the snapshot loop (operands from the third on that are variables are first copied into fresh slots -
    `Spec.emitOpreduceSnap`, proved in `opreduce_snapshot_chain_computes`); the body without the loop is the known-defective one -/
theorem skeleton_opreduce_ok : skeletonOf "opreduce" = Skeleton.opreduce := by decide +kernel
theorem skeleton_compreduce_ok : skeletonOf "compreduce" = Skeleton.compreduce := by decide +kernel
theorem skeleton_janetc_funopt_ok : skeletonOf "janetc_funopt" = Skeleton.janetc_funopt := by decide +kernel
theorem skeleton_do_apply_ok : skeletonOf "do_apply" = Skeleton.do_apply := by decide +kernel
theorem skeleton_do_debug_ok : skeletonOf "do_debug" = Skeleton.do_debug := by decide +kernel
theorem skeleton_do_error_ok : skeletonOf "do_error" = Skeleton.do_error := by decide +kernel
theorem skeleton_do_get_ok : skeletonOf "do_get" = Skeleton.do_get := by decide +kernel
theorem skeleton_do_put_ok : skeletonOf "do_put" = Skeleton.do_put := by decide +kernel
theorem skeleton_do_yield_ok : skeletonOf "do_yield" = Skeleton.do_yield := by decide +kernel
theorem skeleton_janet_quick_asm_ok : skeletonOf "janet_quick_asm" = Skeleton.janet_quick_asm := by decide +kernel
theorem skeleton_janetc_check_nil_form_ok : skeletonOf "janetc_check_nil_form" = Skeleton.janetc_check_nil_form := by decide +kernel
/-- `set` refuses a slot without `JANET_SLOT_MUTABLE`: a `def` local / parameter / temporary is never the destination of an assignment, so
    an operator method cannot assign an operand `opreduce` did not snapshot (`himmune` of `variadic_snapshot_emitted_eq_generic`) -/
theorem skeleton_janetc_varset_ok : skeletonOf "janetc_varset" = Skeleton.janetc_varset := by decide +kernel
theorem skeleton_janetc_movenear_ok : skeletonOf "janetc_movenear" = Skeleton.janetc_movenear := by decide +kernel
theorem skeleton_janetc_regnear_ok : skeletonOf "janetc_regnear" = Skeleton.janetc_regnear := by decide +kernel
theorem skeleton_janetc_emit_sss_ok : skeletonOf "janetc_emit_sss" = Skeleton.janetc_emit_sss := by decide +kernel
theorem skeleton_emit2s_ok : skeletonOf "emit2s" = Skeleton.emit2s := by decide +kernel
theorem skeleton_janetc_call_selection_ok : skeletonOf "janetc_call.selection" = Skeleton.janetc_call_selection := by decide +kernel

/-- every C body that has an expected skeleton is present in the regenerated table, and nothing else is -/
theorem skeleton_names_ok : skeletons.map (·.1) =
    ["genericSS", "genericSSI", "opfunction", "can_be_imm", "can_slot_be_imm", "reduce_target", "opreduce", "compreduce", "janetc_funopt",
     "do_apply", "do_debug", "do_error", "do_get", "do_put", "do_yield", "janet_quick_asm", "janetc_check_nil_form", "janetc_varset", "janetc_movenear",
     "janetc_regnear", "janetc_emit_sss", "emit2s", "janetc_call.selection"] := by
  decide +kernel

/-! ### fixed-arity specialisations as EMITTERS: the emitted instructions, run on the caller's registers, against the generic bytecode -/

/-- ★ obligation on the regenerated skeletons: the opcodes the special handlers emit - in particular `do_get` keeps the looked-up value when
    it is NOT NIL (`JOP_JUMP_IF_NOT_NIL`), not when it is truthy -/
theorem special_ops_ok : specialOpsOk = true := by decide +kernel

/-- for a row, every admitted arity has emitted code in the model -/
def emitDefinedOk (r : OptRow) : Bool :=
  match shapeOf r with
  | none => true
  | some sh => [0, 1, 2, 3, 4].all fun n => !guardOk r.guard n || (emitShape sh 0 (List.replicate n 1) 2).isSome

/-- ★ obligation on the regenerated tables: the emitter model covers every (fixed-arity row, admitted arity) -/
theorem fixed_emit_defined : optimizers.all emitDefinedOk = true := by decide +kernel

/-- ★ the INSTRUCTIONS a fixed-arity specialisation emits (get in put length next cmp resume cancel yield debug error propagate bnot; model
    `Spec.emitShape` of `genericSS` / `genericSSI` / `opfunction` / fixed `opreduce` / `do_get` / `do_put` / `do_yield` / `do_debug` /
    `do_error`, opcodes of the special handlers read from the regenerated skeletons), placed anywhere in a function and run on the caller's
    slots with the operands in registers, compute `m` into the target register and leave every other register except the scratch one alone;
    and running the generic function's REAL bytecode (regenerated words) on the same argument values computes the same `m`: same value or
    error, same world. -/
theorem fixed_emitted_eq_generic (hnil1 : ∀ v, P.eqv v P.nil = P.isNil v) (hnil2 : ∀ v, P.isNil v = true → v = P.nil)
    (r : OptRow) (hr : r ∈ optimizers) (t : CoreFun) (ht : templateOf r.tag = some t)
    (tgt tmp : Nat) (regs : List Nat) (s : List P.V) (m : M P P.V) (hm : evalInlineFixed P r (regs.map (s.getD · P.nil)) = some m)
    (htgt : tgt < 256) (htmp : tmp < 256) (hregs : ∀ x ∈ regs, x < 256) (htt : tmp ≠ tgt) (htr : ∀ x ∈ regs, x ≠ tmp)
    (hlen : tgt < s.length) (hlent : tmp < s.length) (hput : r.handler = .special "do_put" → ∀ x ∈ regs.drop 1, x ≠ tgt) :
    ∃ sh, shapeOf r = some sh ∧
      (∀ seg, emitShape sh tgt regs tmp = some seg → ∀ code pc, HasAt code pc seg →
        ∃ upd, Computes P code s pc seg.length m upd (pc + seg.length) ∧ (∀ v, (upd v).getD tgt P.nil = v) ∧
          ∀ v k, k ≠ tgt → k ≠ tmp → (upd v).getD k P.nil = s.getD k P.nil) ∧
      ∀ w, ∃ gcode fuel, t.words.map decode = gcode.map some ∧
        exec P gcode fuel (frameOf P t.slots (regs.map (s.getD · P.nil))) w = some (m w) := by
  have hrow := List.all_eq_true.mp fixed_rows_ok.1 r hr
  obtain ⟨sh, hsh, hd, hops, hslots, hmeq⟩ := evalInlineFixed_shape P hnil1 hnil2 r hrow t ht _ m hm
  refine ⟨sh, hsh, ?_, ?_⟩
  · intro seg hem code pc hat
    have hput' : sh = .put → ∀ x ∈ regs.drop 1, x ≠ tgt := fun hp => hput (shapeOf_put r (hp ▸ hsh))
    rw [hmeq]
    exact shape_emit_computes P hnil1 hnil2 special_ops_ok sh hops tgt tmp regs seg hem t.slots hslots code s pc hat htgt htmp hregs htt htr
      hlen hlent hput'
  · exact fun w => fixed_inline_eq_generic P hnil1 hnil2 r hr t ht _ m hm w

/-- the row of `get` in the regenerated table -/
def getRow : OptRow := (optimizers.filter (·.handlerName == "do_get")).headD default

/-- non-vacuity: `(get ds k dflt)` with the operands in registers 1 2 3 and the target 5 is `get 5 1 2; jmpnn 5 +2; movn 5 3`, and with the
    target in the default's register the default is parked in the scratch register first -/
example : shapeOf getRow = some (.getlike .get) ∧
    emitShape (.getlike .get) 5 [1, 2, 3] 9 = some [mkABC .get 5 1 2, mkAI .jumpIfNotNil 5 2, mkAE .moveNear 5 3] ∧
    emitShape (.getlike .get) 3 [1, 2, 3] 9 = some [mkAE .moveNear 9 3, mkABC .get 3 1 2, mkAI .jumpIfNotNil 3 2, mkAE .moveNear 3 9] := by
  decide +kernel

/-- non-vacuity: the value-level model is defined on that call (hypothesis `hm` of `fixed_emitted_eq_generic`), and the emitted code really
    runs: on the witness universe `get` raises "unsupported", which is what the three instructions return from any frame -/
example : (∃ m, evalInlineFixed Witness.WP getRow ([1, 2, 3].map ([Witness.WV.tab, .tab, .n 1, .n 7, .n 0, .n 0].getD · Witness.WP.nil)) = some m) ∧
    exec Witness.WP [mkABC .get 5 1 2, mkAI .jumpIfNotNil 5 2, mkAE .moveNear 5 3, mkD .return 5] 9
      ⟨[Witness.WV.tab, .tab, .n 1, .n 7, .n 0, .n 0], 0⟩ [] = some (.error "unsupported", []) :=
  ⟨⟨_, rfl⟩, rfl⟩

/-! ### variadic arithmetic as an EMITTER: the instruction chain with its registers -/

/-- checkable on the regenerated table: a variadic `opreduce` row accumulates with an opcode of the generic three-register case of the
    interpreter, and its immediate opcode (if any) is the immediate form of that opcode -/
def opreduceRowOk (r : OptRow) : Bool :=
  match r.handler with
  | .opreduce op opim _ _ => !(r.guard == .always) || (templateOps.contains op && immOk op opim)
  | _ => true

theorem opreduce_rows_ok : optimizers.all opreduceRowOk = true := by decide +kernel

/-- the same for the comparison rows -/
def compreduceRowOk (r : OptRow) : Bool :=
  match r.handler with
  | .compreduce op opim _ => templateOps.contains op && immOk op opim
  | _ => true

theorem compreduce_rows_ok : optimizers.all compreduceRowOk = true := by decide +kernel

/-- the row named SUBTRACT is an `opreduce` row (so no comparison row is excluded by the unary-minus exception) -/
theorem subtract_is_opreduce : optimizers.all (fun r => r.tagName != "SUBTRACT" || (match r.handler with | .opreduce _ _ _ _ => true | _ => false)) = true := by
  decide +kernel

/-- ★ `(op a0 y r2 r3 ..)` for a variadic arithmetic / bitwise / shift row (`-` excepted as in `inline_eq_generic_partial`): the INSTRUCTIONS
    `opreduce` emits (`Spec.emitOpreduceCode`: registers and immediates as operands, accumulation in the target register), placed anywhere and
    run on the caller's slots, compute `m` into the target register - and the generic function's REAL bytecode run on the same argument
    values computes the same `m` (value or error, world, order of operator-method calls) - for every number of operands and every mix of
    register / immediate operands.  Side condition on registers = what `reduce_target(opts, args, 2)` provides: operands from the third on
    do not live in the target register. -/
theorem variadic_emitted_eq_generic (T : TupleLaws P) (p : OptRow × CoreFun) (hp : p ∈ variadicPairs) (hne : p.1.tagName ≠ "SUBTRACT")
    (op : Op) (opim : Option Op) (nullary unary : Const) (hh : p.1.handler = .opreduce op opim nullary unary)
    (code : List Instr) (s : List P.V) (pc t a0 : Nat) (y : RArg) (rest : List RArg)
    (ht : t < 256) (h0 : a0 < 256) (hy : y.ok opim) (hok : ∀ a ∈ rest, a.ok opim) (hav : ∀ a ∈ rest, a.avoids t) (hlen : t < s.length)
    (hat : HasAt code pc (emitOpreduceCode op opim t a0 y rest)) :
    ∃ m, evalInline P p.1 ((⟨s.getD a0 P.nil, none⟩ : Arg P) :: argOf P s y :: rest.map (argOf P s)) = some m ∧
      Computes P code s pc (rest.length + 1) m (fun v => s.set t v) (pc + (rest.length + 1)) ∧
      ∀ w, ∃ gcode fuel, p.2.words.map decode = gcode.map some ∧
        exec P gcode fuel (frame0 P T (((⟨s.getD a0 P.nil, none⟩ : Arg P) :: argOf P s y :: rest.map (argOf P s)).map (·.v))) w = some (m w) := by
  have hmem : p.1 ∈ optimizers ∧ isVariadic p.1 = true := by
    simp only [variadicPairs, List.mem_filterMap] at hp
    obtain ⟨r, hr, hr2⟩ := hp
    simp only [Option.map_eq_some_iff] at hr2
    obtain ⟨t', _, rfl⟩ := hr2
    exact ⟨(List.mem_filter.mp hr).1, (List.mem_filter.mp hr).2⟩
  have hrow := List.all_eq_true.mp opreduce_rows_ok p.1 hmem.1
  have hg : (p.1.guard == .always) = true := by
    have := hmem.2
    simpa [isVariadic, hh] using this
  simp only [opreduceRowOk, hh, hg, Bool.not_true, Bool.false_or, Bool.and_eq_true, List.contains_iff_mem] at hrow
  have hop : IsBinOp P op := isBinOp_of_mem P op (by simpa using hrow.1)
  have himm : ∀ oi, opim = some oi → IsImmOp P oi := by
    intro oi ho
    subst ho
    have : immBase oi = some op := by simpa [immOk] using hrow.2
    exact isImmOp_of_base P oi op this
  have hwf : ∀ a ∈ ((⟨s.getD a0 P.nil, none⟩ : Arg P) :: argOf P s y :: rest.map (argOf P s)), a.wf P := by
    have hone : ∀ b : RArg, b.ok opim → (argOf P s b).wf P := by
      intro b hb i hi
      cases b with
      | reg r => simp [argOf] at hi
      | imm j =>
        simp only [argOf, Option.some.injEq] at hi
        subst hi
        obtain ⟨_, h1, h2⟩ := hb
        exact ⟨rfl, by simp only [immMin]; omega, by simp only [immMax]; omega⟩
    intro a ha
    simp only [List.mem_cons, List.mem_map] at ha
    rcases ha with rfl | rfl | ⟨b, hb, rfl⟩
    · intro i hi; cases hi
    · exact hone y hy
    · exact hone b (hok b hb)
  refine ⟨evalOpreduce P opreduceUnarySpecial op opim nullary unary
    ((⟨s.getD a0 P.nil, none⟩ : Arg P) :: argOf P s y :: rest.map (argOf P s)), by simp only [evalInline, hh], ?_, ?_⟩
  · exact opreduce_chain_computes P opreduceUnarySpecial op opim nullary unary hop himm code s pc t a0 y rest ht h0 hy hok hav hlen hat
  · intro w
    obtain ⟨m', gcode, fuel, hi, hd, hf⟩ := inline_eq_generic_bytecode_partial P T p hp hne _ hwf w
    have : m' = evalOpreduce P opreduceUnarySpecial op opim nullary unary
        ((⟨s.getD a0 P.nil, none⟩ : Arg P) :: argOf P s y :: rest.map (argOf P s)) := by
      simp only [evalInline, hh, Option.some.injEq] at hi
      exact hi.symm
    subst this
    exact ⟨gcode, fuel, hd, hf⟩

/-- ★ `(op a0 y x2 x3 ..)` for a variadic arithmetic / bitwise / shift row, operands from the third on possibly `var`s, AS EMITTED SINCE THE
    SNAPSHOT FIX (`Spec.emitOpreduceSnap`: `movn fresh x` for every MUTABLE operand from the third on, then the chain), run on an interpreter
    in which EVERY operator-method call of the chain may assign any assignable slot of the running frame (`hv` limited only by `asg`):
    the instructions compute `m` - the inline model on the operand values AT ENTRY - into the target, and the generic function's REAL
    bytecode run on those entry values computes the same `m`.  So the inlined form and the call agree although methods assign the
    operands; no hypothesis restricts what the methods assign among the `var`s.  (`himmune`, `hfresh`: a slot without
    `JANET_SLOT_MUTABLE` and a fresh temporary are never the destination of an assignment; `hav`: `reduce_target(opts, args, 2)` run
    AFTER the replacement; `h0 hyb hbelow`: the fresh registers lie above the operands.) -/
theorem variadic_snapshot_emitted_eq_generic (T : TupleLaws P) (p : OptRow × CoreFun) (hp : p ∈ variadicPairs) (hne : p.1.tagName ≠ "SUBTRACT")
    (op : Op) (opim : Option Op) (nullary unary : Const) (hh : p.1.handler = .opreduce op opim nullary unary)
    (hv : P.W → List P.V → List P.V) (asg : Nat → Bool) (hresp : Respects P hv asg)
    (code : List Instr) (s : List P.V) (pc free t a0 : Nat) (y : RArg) (rest : List MArg)
    (ht : t < 256) (h0 : a0 < free) (hy : y.ok opim) (hyb : ∀ r, y = .reg r → r < free)
    (hok : ∀ a ∈ rest, a.plain.ok opim) (hbelow : ∀ r m, MArg.reg r m ∈ rest → r < free)
    (hav : ∀ r, MArg.reg r false ∈ rest → r ≠ t) (himmune : ∀ r, MArg.reg r false ∈ rest → asg r = false)
    (hfresh : ∀ k, free ≤ k → k < free + nmut rest → asg k = false ∧ k ≠ t)
    (h256 : free + nmut rest ≤ 256) (hslots : free + nmut rest ≤ s.length) (hlen : t < s.length)
    (hat : HasAt code pc (emitOpreduceSnap op opim free t a0 y rest)) :
    ∃ m, evalInline P p.1 ((⟨s.getD a0 P.nil, none⟩ : Arg P) :: argOf P s y :: rest.map (fun a => argOf P s a.plain)) = some m ∧
      ComputesH P hv code s pc (nmut rest + (rest.length + 1)) m
        (fun v s' => s'.length = s.length ∧ s'.getD t P.nil = v ∧
          ∀ k, asg k = false → k ≠ t → (k < free ∨ free + nmut rest ≤ k) → s'.getD k P.nil = s.getD k P.nil)
        (pc + (nmut rest + (rest.length + 1))) ∧
      ∀ w, ∃ gcode fuel, p.2.words.map decode = gcode.map some ∧
        exec P gcode fuel (frame0 P T (((⟨s.getD a0 P.nil, none⟩ : Arg P) :: argOf P s y ::
          rest.map (fun a => argOf P s a.plain)).map (·.v))) w = some (m w) := by
  have hmem : p.1 ∈ optimizers ∧ isVariadic p.1 = true := by
    simp only [variadicPairs, List.mem_filterMap] at hp
    obtain ⟨r, hr, hr2⟩ := hp
    simp only [Option.map_eq_some_iff] at hr2
    obtain ⟨t', _, rfl⟩ := hr2
    exact ⟨(List.mem_filter.mp hr).1, (List.mem_filter.mp hr).2⟩
  have hrow := List.all_eq_true.mp opreduce_rows_ok p.1 hmem.1
  have hg : (p.1.guard == .always) = true := by
    have := hmem.2
    simpa [isVariadic, hh] using this
  simp only [opreduceRowOk, hh, hg, Bool.not_true, Bool.false_or, Bool.and_eq_true, List.contains_iff_mem] at hrow
  have hop : IsCallOp op := isCallOp_of_mem op (by simpa using hrow.1)
  have himm : ∀ oi, opim = some oi → IsCallImm oi := by
    intro oi ho
    subst ho
    have : immBase oi = some op := by simpa [immOk] using hrow.2
    exact isCallImm_of_base oi op this
  have hwf : ∀ a ∈ ((⟨s.getD a0 P.nil, none⟩ : Arg P) :: argOf P s y :: rest.map (fun a => argOf P s a.plain)), a.wf P := by
    have hone : ∀ b : RArg, b.ok opim → (argOf P s b).wf P := by
      intro b hb i hi
      cases b with
      | reg r => simp [argOf] at hi
      | imm j =>
        simp only [argOf, Option.some.injEq] at hi
        subst hi
        obtain ⟨_, h1, h2⟩ := hb
        exact ⟨rfl, by simp only [immMin]; omega, by simp only [immMax]; omega⟩
    intro a ha
    simp only [List.mem_cons, List.mem_map] at ha
    rcases ha with rfl | rfl | ⟨b, hb, rfl⟩
    · intro i hi; cases hi
    · exact hone y hy
    · exact hone b.plain (hok b hb)
  refine ⟨evalOpreduce P opreduceUnarySpecial op opim nullary unary
    ((⟨s.getD a0 P.nil, none⟩ : Arg P) :: argOf P s y :: rest.map (fun a => argOf P s a.plain)), by simp only [evalInline, hh], ?_, ?_⟩
  · exact opreduce_snapshot_chain_computes P hv asg hresp opreduceUnarySpecial op opim nullary unary hop himm code s pc free t a0 y rest
      ht h0 hy hyb hok hbelow hav himmune hfresh h256 hslots hlen hat
  · intro w
    obtain ⟨m', gcode, fuel, hi, hd, hf⟩ := inline_eq_generic_bytecode_partial P T p hp hne _ hwf w
    have : m' = evalOpreduce P opreduceUnarySpecial op opim nullary unary
        ((⟨s.getD a0 P.nil, none⟩ : Arg P) :: argOf P s y :: rest.map (fun a => argOf P s a.plain)) := by
      simp only [evalInline, hh, Option.some.injEq] at hi
      exact hi.symm
    subst this
    exact ⟨gcode, fuel, hd, hf⟩

/-- an operator method that assigns the caller's variable in slot 3 (the witness `:*` method has run exactly when the log is `["*"]`) -/
def Witness.assign3 (w : List String) (s : List Witness.WV) : List Witness.WV := if w = ["*"] then s.set 3 (.n 100) else s

theorem Witness.assign3_respects : Respects Witness.WP Witness.assign3 (fun k => k == 3) := by
  intro (w : List String) (s : List Witness.WV)
  show (Witness.assign3 w s).length = s.length ∧
    ∀ k, (k == 3) = false → (Witness.assign3 w s).getD k Witness.WV.tab = s.getD k Witness.WV.tab
  unfold Witness.assign3
  by_cases h : w = ["*"]
  · rw [if_pos h]
    refine ⟨List.length_set .., fun k hk => ?_⟩
    have hk3 : k ≠ 3 := by simpa using hk
    simp [List.getD, List.getElem?_set_ne (Ne.symm hk3)]
  · rw [if_neg h]
    exact ⟨rfl, fun _ _ => rfl⟩

/-- non-vacuity, and the defect the snapshot repairs, inside the model: `(* a0 a1 m)` with `m` a `var` in slot 3, `a0` a table whose `:*`
    method assigns `m := 100`.  The emitted code is `movn 4 3; mul 5 0 1; mul 5 5 4` and computes `1 * 7` (the value `m` had at entry, as
    the call `(apply * [a0 a1 m])` would); the body WITHOUT the snapshot loop (`mul 5 0 1; mul 5 5 3`) computes `1 * 100` under the same
    method - and with the oracle that assigns nothing both give 7. -/
example : emitOpreduceSnap .multiply (some .multiplyImmediate) 4 5 0 (.reg 1) [.reg 3 true] =
      [mkAE .moveNear 4 3, mkABC .multiply 5 0 1, mkABC .multiply 5 5 4] ∧
    execH Witness.WP Witness.assign3 [mkAE .moveNear 4 3, mkABC .multiply 5 0 1, mkABC .multiply 5 5 4, mkD .return 5] 6
      ⟨[Witness.WV.tab, .n 2, .n 7, .n 7, .n 0, .n 0], 0⟩ [] = some (.ok (.n 7), ["*"]) ∧
    execH Witness.WP Witness.assign3 [mkABC .multiply 5 0 1, mkABC .multiply 5 5 3, mkD .return 5] 6
      ⟨[Witness.WV.tab, .n 2, .n 7, .n 7, .n 0, .n 0], 0⟩ [] = some (.ok (.n 100), ["*"]) ∧
    execH Witness.WP (fun _ s => s) [mkABC .multiply 5 0 1, mkABC .multiply 5 5 3, mkD .return 5] 6
      ⟨[Witness.WV.tab, .n 2, .n 7, .n 7, .n 0, .n 0], 0⟩ [] = some (.ok (.n 7), ["*"]) :=
  ⟨rfl, rfl, rfl, rfl⟩

/-- the hypotheses of `opreduce_snapshot_chain_computes` hold of that example (target 5, fresh register 4, assignable slot 3) -/
example : (∀ k, 4 ≤ k → k < 4 + nmut [MArg.reg 3 true] → ((fun k => k == 3) k = false ∧ k ≠ 5)) ∧
    (∀ r, MArg.reg r false ∈ [MArg.reg 3 true] → r ≠ 5) ∧ IsCallOp .multiply ∧ IsCallImm .multiplyImmediate := by
  refine ⟨fun k h1 h2 => ?_, fun r h => by simp at h, ⟨rfl, rfl, rfl⟩, ⟨rfl, .multiply, rfl⟩⟩
  simp only [nmut] at h2
  have : k = 4 := by omega
  subst this
  decide

/-- ★ `(cmp a r1 .. r(n-2) last)` for a variadic comparison row (< > <= >= = not=): the INSTRUCTIONS `compreduce` emits
    (`Spec.emitCompreduceCode`: a comparison into the target register per neighbouring pair, a conditional jump to the end after each but
    the last - `JOP_JUMP_IF_NOT`, or `JOP_JUMP_IF` for the inverted row), placed anywhere and run on the caller's slots, compute `m` into
    the target register; the generic comparator's REAL bytecode run on the same argument values computes the same `m`: same boolean or
    error, same world, same order of comparisons, nothing evaluated after the deciding comparison.  Registers: the first operand may
    live in the target, the others must not (`reduce_target(opts, args, 1)`); the operands between first and last are registers. -/
theorem comparison_emitted_eq_generic (T : TupleLaws P) (p : OptRow × CoreFun) (hp : p ∈ variadicPairs)
    (op : Op) (opim : Option Op) (invert : Bool) (hh : p.1.handler = .compreduce op opim invert)
    (code : List Instr) (s : List P.V) (pc t a : Nat) (m0 : Nat) (mids : List Nat) (last : RArg)
    (ht : t < 256) (ha : a < 256) (hm : ∀ r ∈ m0 :: mids, r < 256 ∧ r ≠ t) (hl : last.ok opim ∧ last.avoids t) (hsz : mids.length < 15999)
    (hlen : t < s.length) (hat : HasAt code pc (emitCompreduceCode op opim invert t a (m0 :: mids) last)) :
    ∃ m, evalInline P p.1 ((⟨s.getD a P.nil, none⟩ : Arg P) :: argOf P s (.reg m0) :: (mids.map (fun r => argOf P s (.reg r)) ++ [argOf P s last])) = some m ∧
      Computes P code s pc (2 * (mids.length + 1) + 1) m (fun v => s.set t v) (pc + (2 * (mids.length + 1) + 1)) ∧
      ∀ w, ∃ gcode fuel, p.2.words.map decode = gcode.map some ∧
        exec P gcode fuel (frame0 P T (((⟨s.getD a P.nil, none⟩ : Arg P) :: argOf P s (.reg m0) ::
          (mids.map (fun r => argOf P s (.reg r)) ++ [argOf P s last])).map (·.v))) w = some (m w) := by
  have hmem : p.1 ∈ optimizers := by
    simp only [variadicPairs, List.mem_filterMap] at hp
    obtain ⟨r, hr, hr2⟩ := hp
    simp only [Option.map_eq_some_iff] at hr2
    obtain ⟨t', _, rfl⟩ := hr2
    exact (List.mem_filter.mp hr).1
  have hrow := List.all_eq_true.mp compreduce_rows_ok p.1 hmem
  simp only [compreduceRowOk, hh, Bool.and_eq_true, List.contains_iff_mem] at hrow
  have hop : IsBinOp P op := isBinOp_of_mem P op (by simpa using hrow.1)
  have himm : ∀ oi, opim = some oi → IsImmOp P oi := by
    intro oi ho
    subst ho
    have : immBase oi = some op := by simpa [immOk] using hrow.2
    exact isImmOp_of_base P oi op this
  have hne : p.1.tagName ≠ "SUBTRACT" := by
    intro hsub
    have := List.all_eq_true.mp subtract_is_opreduce p.1 hmem
    simp [hsub, hh] at this
  have hwf : ∀ x ∈ ((⟨s.getD a P.nil, none⟩ : Arg P) :: argOf P s (.reg m0) :: (mids.map (fun r => argOf P s (.reg r)) ++ [argOf P s last])),
      x.wf P := by
    intro x hx
    simp only [List.mem_cons, List.mem_append, List.mem_map, List.mem_nil_iff, or_false] at hx
    rcases hx with rfl | rfl | ⟨r, _, rfl⟩ | rfl
    · intro i hi; cases hi
    · intro i hi; simp [argOf] at hi
    · intro i hi; simp [argOf] at hi
    · intro i hi
      cases last with
      | reg r => simp [argOf] at hi
      | imm j =>
        simp only [argOf, Option.some.injEq] at hi
        subst hi
        obtain ⟨⟨_, h1, h2⟩, _⟩ := hl
        exact ⟨rfl, by simp only [immMin]; omega, by simp only [immMax]; omega⟩
  refine ⟨evalCompreduce P op opim invert ((⟨s.getD a P.nil, none⟩ : Arg P) :: argOf P s (.reg m0) ::
    (mids.map (fun r => argOf P s (.reg r)) ++ [argOf P s last])), by simp only [evalInline, hh], ?_, ?_⟩
  · have := cmp_chain_computes P op opim invert hop himm code t ht (m0 :: mids) last hm hl (by simp only [List.length_cons]; omega)
      s hlen pc a ha hat
    simp only [List.length_cons] at this
    rw [cmpSem_eq_goInline] at this
    exact this
  · intro w
    obtain ⟨m', gcode, fuel, hi, hd, hf⟩ := inline_eq_generic_bytecode_partial P T p hp hne _ hwf w
    have : m' = evalCompreduce P op opim invert ((⟨s.getD a P.nil, none⟩ : Arg P) :: argOf P s (.reg m0) ::
        (mids.map (fun r => argOf P s (.reg r)) ++ [argOf P s last])) := by
      simp only [evalInline, hh, Option.some.injEq] at hi
      exact hi.symm
    subst this
    exact ⟨gcode, fuel, hd, hf⟩

/-- non-vacuity: `(< a0 a1 5)` with the target in register 3 is `lt 3 0 1; jmpno 3 +2; ltim 3 1 5`; on the witness universe (every
    comparison is false) the chain leaves after the first comparison -/
example : emitCompreduceCode .lessThan (some .lessThanImmediate) false 3 0 [1] (.imm 5) =
      [mkABC .lessThan 3 0 1, mkAI .jumpIfNot 3 2, mkABI .lessThanImmediate 3 1 5] ∧
    exec Witness.WP ([mkABC .lessThan 3 0 1, mkAI .jumpIfNot 3 2, mkABI .lessThanImmediate 3 1 5, mkD .return 3]) 5
      ⟨[Witness.WV.n 10, .n 0, .n 7, .n 9], 0⟩ [] = some (.ok (.n 0), []) :=
  ⟨rfl, rfl⟩

/-- non-vacuity: `(+ a0 5 a2)` with the target in register 3 is `addim 3 0 5; add 3 3 2`, and on the witness universe (integers) the chain
    run from `[10, _, 7, _]` leaves 22 in register 3 -/
example : emitOpreduceCode .add (some .addImmediate) 3 0 (.imm 5) [.reg 2] = [mkABI .addImmediate 3 0 5, mkABC .add 3 3 2] ∧
    exec Witness.WP ([mkABI .subtractImmediate 3 0 5, mkABC .subtract 3 3 2, mkD .return 3]) 5
      ⟨[Witness.WV.n 10, .n 0, .n 7, .n 0], 0⟩ [] = some (.ok (.n (-2)), []) :=
  ⟨rfl, rfl⟩

namespace Witness

/-- a universe in which `get` works: `tab` stores `false` (= `n 0`) under key 0 and nothing under key 1; `mMul` plays nil -/
def gOther (op : Op) (a b : WV) (w : List String) : Except String WV × List String :=
  match op, a, b with
  | .get, .tab, .n 0 => (.ok (.n 0), w ++ ["get 0"])
  | .get, .tab, .n 1 => (.ok .mMul, w ++ ["get 1"])
  | _, _, _ => (.error "unsupported", w)

def gIsNil (v : WV) : Bool := v == .mMul

def GP : Prims := { WP with nil := WV.mMul, isNil := gIsNil, other := gOther }

end Witness

/-- non-vacuity of `get3_computes` / `fixed_emitted_eq_generic` with a `get` that returns values: the emitted code keeps a stored `false`
    (`n 0`, falsy but not nil) and takes the default 7 only for the missing key - while the same code with `JOP_JUMP_IF` in place of
    `JOP_JUMP_IF_NOT_NIL` (what `special_ops_ok` excludes) would replace the stored `false` by the default -/
example :
    exec Witness.GP (emitGet3 .get .jumpIfNotNil 3 0 1 2 ++ [mkD .return 3]) 9 ⟨[Witness.WV.tab, .n 0, .n 7, .n 9], 0⟩ [] =
      some (.ok (.n 0), ["get 0"]) ∧
    exec Witness.GP (emitGet3 .get .jumpIfNotNil 3 0 1 2 ++ [mkD .return 3]) 9 ⟨[Witness.WV.tab, .n 1, .n 7, .n 9], 0⟩ [] =
      some (.ok (.n 7), ["get 1"]) ∧
    exec Witness.GP (emitGet3 .get .jumpIf 3 0 1 2 ++ [mkD .return 3]) 9 ⟨[Witness.WV.tab, .n 0, .n 7, .n 9], 0⟩ [] =
      some (.ok (.n 7), ["get 0"]) :=
  ⟨rfl, rfl, rfl⟩

/-! ### `apply`: `do_apply` against the bytecode `make_apply` assembles; calls with a splice -/

/-- the structure of `do_apply` the model `Spec.emitApply` / `Spec.pushLeading` mirrors -/
def applyShapeExpected : ApplyShape := ⟨1, 3, 3, .push3, 3, .push2, 2, .push, .pushArray, .tailcall, .call⟩

/-- checkable on the regenerated tables: every row handled by `do_apply` has the arity guard `>= 2` and a template of kind `apply`
    whose words decode to `Spec.applyCode`, a 6-slot vararg function of arity 1; and `do_apply` has the modelled structure -/
def applyRowsOk : Bool :=
  optimizers.all (fun r => r.handlerName != "do_apply" ||
    (r.guard == .ge 2 && r.handler == .special "do_apply" &&
      match templateOf r.tag with
      | none => false
      | some t => t.kind == .apply && decodesTo t.words applyCode && t.slots == 6 && t.vararg && t.arity == 1 && t.minArity == 1)) &&
  (optimizers.filter (fun r => r.handlerName == "do_apply")).length == 1 &&
  applyShape == applyShapeExpected

/-- ★ obligation on the regenerated tables -/
theorem apply_row_ok : applyRowsOk = true := by decide +kernel

/-- the interpreter of a nested activation: its calls see the outer caller's captured slots (lent for the duration of the call) -/
def lend {P : Prims} (X : CallPrims P) (vw : Nat → Option P.V) : CallPrims P := { X with call := fun g a _ => X.call g a vw }

theorem applySem_lend {P : Prims} (X : CallPrims P) (vw : Nat → Option P.V) (f : P.V) (lead : List P.V) (last : P.V) :
    applySem (lend X vw) f lead last (fun _ => none) = applySem X f lead last vw := by
  unfold applySem lend
  cases X.indexedView last <;> rfl

/-- ★ `apply` compiled inline (tail position) computes what running the generic function's REAL bytecode computes, for every function
    value, every list of leading arguments (none included), every last argument: one call of `f` on the leading values followed by the
    elements of the last one - or the not-indexed error, raised before any call - in the same world.  `s` are the caller's slots; the
    generic function runs in its own 6-slot frame on `(f ;lead last)`. -/
theorem apply_inline_eq_generic (X : CallPrims P) (T : TupleLaws P) (cap : Nat → Bool) (r : OptRow) (hr : r ∈ optimizers)
    (hh : r.handlerName = "do_apply") (t : CoreFun) (ht : templateOf r.tag = some t)
    (s : List P.V) (f : Nat) (lead : List Nat) (last : Nat) (hlead : ∀ x ∈ lead, x < 256) (hl : last < 16777216) (hf : f < 16777216) (w : P.W) :
    ∃ code fuel fuel', t.words.map decode = code.map some ∧
      execX (lend X (view P cap s)) noCap code fuel (applyFrame0 T (getS P s f) (lead.map (getS P s) ++ [getS P s last])) w =
        execX X cap (emitApply f lead last none) fuel' ⟨s, [], 0⟩ w ∧
      execX X cap (emitApply f lead last none) fuel' ⟨s, [], 0⟩ w =
        some (retOf (applySem X (getS P s f) (lead.map (getS P s)) (getS P s last) (view P cap s) w)) := by
  have hall := apply_row_ok
  unfold applyRowsOk at hall
  simp only [Bool.and_eq_true] at hall
  have hrow := List.all_eq_true.mp hall.1.1 r hr
  simp only [hh, bne_self_eq_false, Bool.false_or, ht, Bool.and_eq_true, beq_iff_eq, decodesTo] at hrow
  obtain ⟨_, ⟨⟨⟨⟨⟨_, hd⟩, _⟩, _⟩, _⟩, _⟩⟩ := hrow
  obtain ⟨fuel, hg⟩ := apply_template_correct (lend X (view P cap s)) T (getS P s f) (lead.map (getS P s) ++ [getS P s last]) w
  have hi := apply_inline_tail X cap (emitApply f lead last none) s 0 f lead last hlead hl hf (by simpa using HasAt.self _) w
  refine ⟨applyCode, fuel, _, hd, ?_, hi⟩
  rw [hg, hi]
  simp only [List.reverse_append, List.reverse_cons, List.reverse_nil, List.nil_append, List.singleton_append, List.reverse_reverse,
    applySem_lend]

/-- ★ obligation on the regenerated structure of `janetc_pushslots` / the generic route of `janetc_call`: the branches `Spec.pushSlots` mirrors -/
theorem pushslots_shape_ok :
    pushSlotsBranches = [
      ("slots[i].flags & JANET_SLOT_SPLICED", [.pushArray], 1),
      ("i + 1 == count", [.push], 1),
      ("slots[i + 1].flags & JANET_SLOT_SPLICED", [.push, .pushArray], 2),
      ("i + 2 == count", [.push2], 2),
      ("slots[i + 2].flags & JANET_SLOT_SPLICED", [.push2, .pushArray], 3),
      ("", [.push3], 3)] ∧ genericCallOps = (.tailcall, .call) := by
  decide +kernel

/-- ★ a call with a splice, `(f a ;xs b)`, of ANY function - specialised ones included - is compiled by the generic route and performs
    exactly one call of the function VALUE on the argument values with the spliced ones expanded in place (or raises the not-indexed
    error of the first bad splice, before any call) -/
theorem spliced_call_is_generic (X : CallPrims P) (cap : Nat → Bool) (head : Option Nat) (args : List SArg) (hsp : hasSpliced args = true)
    (s : List P.V) (f : Nat) (hr : ∀ x ∈ args, x.reg < 256) (hf : f < 16777216) (w : P.W) :
    selectSpecialised head args = none ∧
    execX X cap (emitGenericCall f args none) ((pushSlots args).length + 1) ⟨s, [], 0⟩ w =
      match argVals X s args with
      | .error e => some (.error e, w)
      | .ok vs => some (retOf (X.call (getS P s f) vs (view P cap s) w)) :=
  ⟨splice_selects_generic head args hsp,
   generic_call_tail X cap (emitGenericCall f args none) s 0 f args hr hf (by simpa using HasAt.self _) w⟩

theorem argVals_apply_shape (X : CallPrims P) (s : List P.V) (lead : List Nat) (last : Nat) :
    argVals X s (lead.map (fun r => (⟨r, false⟩ : SArg)) ++ [⟨last, true⟩]) =
      (match X.indexedView (getS P s last) with
        | none => (.error (X.notIndexed (getS P s last)) : Except P.E (List P.V))
        | some l => .ok (lead.map (getS P s) ++ l)) := by
  induction lead with
  | nil =>
    simp only [List.map_nil, List.nil_append, argVals, if_true]
    cases X.indexedView (getS P s last) <;> simp
  | cons x xs ih =>
    simp only [List.map_cons, List.cons_append, argVals, Bool.false_eq_true, if_false]
    rw [ih]
    cases X.indexedView (getS P s last) <;> rfl

/-- ★ `(apply f a.. xs)` compiled inline and the spliced call `(f a.. ;xs)` make the same call: same callee, same argument list, same
    not-indexed error -/
theorem apply_eq_splice (X : CallPrims P) (s : List P.V) (lead : List Nat) (last : Nat) (f : P.V) (vw : Nat → Option P.V) (w : P.W) :
    (match argVals X s (lead.map (fun r => (⟨r, false⟩ : SArg)) ++ [⟨last, true⟩]) with
      | .error e => (.error e, w)
      | .ok vs => X.call f vs vw w) = applySem X f (lead.map (getS P s)) (getS P s last) vw w := by
  rw [argVals_apply_shape]
  unfold applySem
  cases X.indexedView (getS P s last) <;> rfl

/-! ### call-site selection: nil fast paths of `if` / `while` -/

/-- ★ the four nil fast paths regenerated from specials.c name equality-family rows with the matching jump sense -/
theorem nil_fast_paths_consistent : nilFastPaths.length = 4 ∧ nilFastPaths.all nilPathOk = true := by
  decide +kernel

/-- does the fast-path jump of a nil test LEAVE the then-branch / the loop when the tested value is `x` (reading of `VM.step`) -/
def fastLeaves (jop : Op) (x : P.V) : Bool :=
  match jop with
  | .jumpIfNotNil => !P.isNil x
  | .jumpIfNil => P.isNil x
  | _ => false

/-- the one instruction the fast path emits (`janetc_emit_si(c, ifnjmp, cond, 0, 0)`, offset patched later) goes to the jump target exactly
    when `fastLeaves`, else falls through -/
theorem fast_jump_step (jop : Op) (h : jop = .jumpIfNotNil ∨ jop = .jumpIfNil) (i : Instr) (hi : i.op = jop) (f : Frame P) :
    step P i f = some (M.pure (.cont (if fastLeaves P jop (getSlot P f i.A) then jumpBy P f i.ES else next P f))) := by
  rcases h with rfl | rfl
  · simp only [step, hi, fastLeaves]
    by_cases hn : P.isNil (getSlot P f i.A) = true <;> simp [hn]
  · simp only [step, hi, fastLeaves]
    rfl

/-- ★ for each of the four nil fast paths regenerated from specials.c (`if` / `while` x `=` / `not=`): the head function's row is a
    comparison row, and the value the ordinary (inline or generic) comparison `(f nil x)` / `(f x nil)` would compute is truthy exactly when
    the fast-path jump does NOT leave - so `jmp<fast> x -> L` and `t := (f nil x); jmpno t -> L` take the same branch, for every `x`,
    without calling anything (pure, world unchanged) -/
theorem nil_fast_path_same_branch (hnil : ∀ x, P.eqv P.nil x = P.isNil x ∧ P.eqv x P.nil = P.isNil x) :
    ∀ p ∈ nilFastPaths, ∃ r ∈ optimizers, r.tagName = p.2.1 ∧ ∃ op opim inv, r.handler = .compreduce op opim inv ∧
      (p.2.2 = .jumpIfNotNil ∨ p.2.2 = .jumpIfNil) ∧
      ∀ x, binop P op P.nil x = M.pure (ofBool P (!fastLeaves P p.2.2 x)) ∧ binop P op x P.nil = M.pure (ofBool P (!fastLeaves P p.2.2 x)) := by
  intro p hp
  have hok := List.all_eq_true.mp nil_fast_paths_consistent.2 p hp
  unfold nilPathOk at hok
  split at hok
  · rename_i r hfind
    split at hok
    · rename_i op opim inv hh
      refine ⟨r, List.mem_of_find?_eq_some hfind, ?_, op, opim, inv, hh, ?_⟩
      · have := List.find?_some hfind
        simpa using this
      · simp only [Bool.or_eq_true, Bool.and_eq_true, beq_iff_eq] at hok
        rcases hok with ⟨⟨hk, _⟩, hj⟩ | ⟨⟨hk, _⟩, hj⟩
        · refine ⟨Or.inl hj, fun x => ?_⟩
          simp [binop, binopK, hk, hj, fastLeaves, (hnil x).1, (hnil x).2]
        · refine ⟨Or.inr hj, fun x => ?_⟩
          simp [binop, binopK, hk, hj, fastLeaves, (hnil x).1, (hnil x).2]
    · cases hok
  · cases hok

/-- non-vacuity: the hypothesis holds in the driver's concrete universe (integers, nil, booleans, tables), where `false` is not nil -/
example : (∀ x, DP.eqv DP.nil x = DP.isNil x ∧ DP.eqv x DP.nil = DP.isNil x) ∧ fastLeaves DP .jumpIfNotNil (DV.bool false) = true ∧
    fastLeaves DP .jumpIfNotNil DV.nil = false := by
  refine ⟨fun x => ?_, rfl, rfl⟩
  cases x <;> exact ⟨rfl, rfl⟩

/-- what the fast path relies on: `(= nil x)` / `(= x nil)` is true exactly when `x` is nil, `not=` the opposite, so testing the
    operand with jump-if-(not-)nil decides the condition the specialised (and the generic) comparison would compute -/
theorem nil_condition_value (hnil : ∀ x, P.eqv P.nil x = P.isNil x ∧ P.eqv x P.nil = P.isNil x) (x : P.V) :
    binop P .equals P.nil x = M.pure (ofBool P (P.isNil x)) ∧ binop P .equals x P.nil = M.pure (ofBool P (P.isNil x)) ∧
    binop P .notEquals P.nil x = M.pure (ofBool P (!P.isNil x)) ∧ binop P .notEquals x P.nil = M.pure (ofBool P (!P.isNil x)) := by
  refine ⟨?_, ?_, ?_, ?_⟩ <;> simp [binop, binopK, kindOf, (hnil x).1, (hnil x).2]

/-! ### operand loads of emit.c -/

/-- the opcodes `janetc_movenear` emits (read from its regenerated skeleton, in order: deref of a `var` reference, upvalue, far local) are
    the ones the model `Spec.loadInstr` uses for the upvalue and far-local operands -/
theorem movenear_ops_ok : ((skeletonOf "janetc_movenear").filterMap (·.op)) = [.getIndex, .loadUpvalue, .moveNear] ∧
    loadInstr 7 (.upv 1 2) = some (mkABC .loadUpvalue 7 1 2) ∧ loadInstr 7 (.far 300) = some (mkAE .moveNear 7 300) := by
  decide +kernel

/-- non-vacuity of `Spec.operands_loaded`: `(+ far300 upvalue)`-style operands give two load instructions and the registers 240 / 241 -/
example : regnear 240 (.far 300) = (240, [mkAE .moveNear 240 300]) ∧ regnear 241 (.upv 0 3) = (241, [mkABC .loadUpvalue 241 0 3]) ∧
    regnear 240 (.near 5) = (5, []) ∧ (Opd.far 300).ok ∧ ¬ (Opd.far 300).reads 241 := by
  refine ⟨rfl, rfl, rfl, ?_, ?_⟩
  · show 300 < 65536; omega
  · show ¬ (300 = 241); omega

/-! ### condition guards of `if` / `while`: EVERY emission site (also the while loop recompiled as a closure), constant folding -/

/-- ★ obligation on the rows regenerated from specials.c (symbolic execution of the skeletons of `janetc_if` / `janetc_while`, one row per
    emission site and per list of heads `janetc_check_nil_form` stripped): the rows are exactly the expected (form, heads, site) - at most
    ONE head is ever stripped, `while` has its guard at both sites - and each carries the opcode, offset argument and following
    `JOP_RETURN_NIL` of the model `guardSel` -/
theorem nil_guard_sites_ok :
    nilGuardSites.map (fun g => (g.form, g.path, g.site)) = guardSiteKeys ∧ nilGuardSites.all guardSiteOk = true := by
  decide +kernel

/-- ★ the same for the predicate applied to a constant condition -/
theorem nil_const_folds_ok : nilConstFolds.map (fun c => (c.form, c.path)) = constFoldKeys ∧ nilConstFolds.all constFoldOk = true := by
  decide +kernel

/-- the heads `EQ` / `NEQ` are the comparison rows of `optimizers[]` with the opcodes `condValue` uses -/
theorem nil_head_rows_ok : headRowOk .eq = true ∧ headRowOk .neq = true := by decide +kernel

/-- ★ every conditional jump `janetc_if` / `janetc_while` emit for a condition, at every site and for every stripped head, takes the branch
    the UNSPECIALISED condition would take: with `v` the (pure) value of `(f nil x)` = `(f x nil)` computed by the head's comparison row
    (`x` itself without a head), the `main` jump leaves exactly when `v` is falsy and the `iife` jump skips the `retn` exactly when `v` is
    truthy - for every `x`, `false` included -/
theorem guard_site_same_branch (hnil : ∀ x, P.eqv P.nil x = P.isNil x ∧ P.eqv x P.nil = P.isNil x) :
    ∀ g ∈ nilGuardSites, ∃ t, pathTag g.path = some t ∧ isCondJump g.op = true ∧
      (∀ h, t = some h → ∃ r ∈ optimizers, g.path = [r.tagName] ∧ ∃ op opim inv, r.handler = .compreduce op opim inv ∧
        ∀ a b, binop P op a b = binop P h.op a b) ∧
      ∀ x, ∃ v, condValue P t x = M.pure v ∧ condValueR P t x = M.pure v ∧
        jumpTaken P g.op x = (if g.site = "main" then !P.truthy v else P.truthy v) := by
  intro g hg
  have hok := List.all_eq_true.mp nil_guard_sites_ok.2 g hg
  have hrow : ∀ t, pathTag g.path = some t → ∀ h, t = some h → ∃ r ∈ optimizers, g.path = [r.tagName] ∧ ∃ op opim inv,
      r.handler = .compreduce op opim inv ∧ ∀ a b, binop P op a b = binop P h.op a b := by
    intro t ht h hth
    subst hth
    obtain ⟨r, hr, hn, rest⟩ := headRow_binop P h (by cases h; exact nil_head_rows_ok.1; exact nil_head_rows_ok.2)
    refine ⟨r, hr, ?_, rest⟩
    rcases pathTag_cases g.path (some h) ht with ⟨_, hc⟩ | ⟨n, k, hp, hof, hk⟩
    · cases hc
    · cases hk
      rw [hp, hn, ofName_name n h hof]
      cases h <;> rfl
  by_cases hm : g.site = "main"
  · obtain ⟨t, ht, hop, _⟩ := guardSiteOk_main g hok hm
    refine ⟨t, ht, ?_, hrow t ht, fun x => ?_⟩
    · rw [hop]; exact (guardSel_sound P t P.nil).2.2.1
    · obtain ⟨v, h1, h2, h3⟩ := condValue_truthy P hnil t x
      exact ⟨v, h1, h2, by rw [hop, (guardSel_sound P t x).1, h3, if_pos hm]⟩
  · obtain ⟨t, ht, _, _, hop, _, _⟩ := guardSiteOk_iife g hok hm
    refine ⟨t, ht, ?_, hrow t ht, fun x => ?_⟩
    · rw [hop]; exact (guardSel_sound P t P.nil).2.2.2
    · obtain ⟨v, h1, h2, h3⟩ := condValue_truthy P hnil t x
      exact ⟨v, h1, h2, by rw [hop, (guardSel_sound P t x).2.1, h3, if_neg hm]⟩

/-- ★ the guard of a while loop that was recompiled as a tail-recursive closure (the body creates a closure), as emitted: for every regenerated
    `iife` row, code `jmp<op> x +offset; <nextOp>` at `pc` returns nil when the unspecialised condition is false of `x` and enters the loop
    body at `pc + 2` with unchanged slots when it is true -/
theorem while_iife_guard_computes : ∀ g ∈ nilGuardSites, g.site = "iife" → ∃ t, pathTag g.path = some t ∧
    ∀ (code : List Instr) (pc : Nat) (i j : Instr), code[pc]? = some i → code[pc + 1]? = some j → i.op = g.op → i.ES = g.offset →
      some j.op = g.nextOp → ∀ (s : List P.V) (w : P.W) (fuel : Nat),
      exec P code (fuel + 2) ⟨s, pc⟩ w =
        if condHolds P t (s.getD i.A P.nil) then exec P code (fuel + 1) ⟨s, pc + 2⟩ w else some (.ok P.nil, w) := by
  intro g hg hsite
  have hok := List.all_eq_true.mp nil_guard_sites_ok.2 g hg
  obtain ⟨t, ht, _, _, hgop, hgoff, hgnx⟩ := guardSiteOk_iife g hok (by rw [hsite]; decide)
  refine ⟨t, ht, fun code pc i j hi hj hop hoff hnx s w fuel => ?_⟩
  refine iife_guard_exec P t code pc i j hi hj (hop.trans hgop) ?_ ?_ s w fuel
  · rw [hoff, hgoff]; rfl
  · rw [hgnx] at hnx
    exact Option.some.inj hnx

/-- ★ constant folding: for every regenerated row, the predicate of the constant condition `c` under which `janetc_if` compiles only the
    else-body / `janetc_while` compiles nothing holds exactly when the unspecialised condition value is falsy - the decision taken at compile
    time is the one the `main` jump of the same (form, heads) takes at run time -/
theorem const_fold_same_branch (hnil : ∀ x, P.eqv P.nil x = P.isNil x ∧ P.eqv x P.nil = P.isNil x) :
    ∀ c ∈ nilConstFolds, ∃ t, pathTag c.path = some t ∧ ∀ x, ∃ v, condValue P t x = M.pure v ∧ condValueR P t x = M.pure v ∧
      predHolds P c.pred x = some (!P.truthy v) ∧
      ∀ g ∈ nilGuardSites, g.form = c.form → g.path = c.path → g.site = "main" → predHolds P c.pred x = some (jumpTaken P g.op x) := by
  intro c hc
  have hok := List.all_eq_true.mp nil_const_folds_ok.2 c hc
  unfold constFoldOk at hok
  split at hok
  · cases hok
  · rename_i t ht
    simp only [Bool.and_eq_true, beq_iff_eq] at hok
    refine ⟨t, ht, fun x => ?_⟩
    obtain ⟨v, h1, h2, h3⟩ := condValue_truthy P hnil t x
    refine ⟨v, h1, h2, by rw [hok.1, (guardSel_fold_sound P t x).1, h3], fun g hg _ hp hs => ?_⟩
    obtain ⟨t', ht', hop', _⟩ := guardSiteOk_main g (List.all_eq_true.mp nil_guard_sites_ok.2 g hg) hs
    rw [hp, ht] at ht'
    cases ht'
    rw [hok.1, hop']
    exact (guardSel_fold_sound P t x).2

/-- non-vacuity: in the driver's universe `false` is not nil, so the `(not= nil x)` guard of the closure-recompiled loop must be
    `JOP_JUMP_IF_NOT_NIL` - with `JOP_JUMP_IF` (truthiness) the loop would end at a stored `false`; and the rows do contain that site -/
example : (⟨"while", ["NEQ"], "iife", .jumpIfNotNil, 2, some .returnNil⟩ : GuardSite) ∈ nilGuardSites ∧
    jumpTaken DP .jumpIfNotNil (DV.bool false) = true ∧ jumpTaken DP .jumpIf (DV.bool false) = false ∧
    condHolds DP (some .neq) (DV.bool false) = true ∧
    guardSiteOk ⟨"while", ["NEQ"], "iife", .jumpIf, 2, some .returnNil⟩ = false ∧
    guardSiteOk ⟨"while", ["EQ", "NEQ"], "main", .jumpIfNil, 0, none⟩ = false := by
  refine ⟨by decide, rfl, rfl, rfl, by decide, by decide⟩

/-- non-vacuity of `while_iife_guard_computes`: the emitted guard on a frame whose slot 0 holds `false` enters the body (here: returns
    slot 1), on nil it returns nil -/
example : exec DP [mkAI .jumpIfNotNil 0 2, mkD .returnNil 0, mkD .return 1] 3 ⟨[DV.bool false, DV.int 7], 0⟩ [] = some (Except.ok (DV.int 7), []) ∧
    exec DP [mkAI .jumpIfNotNil 0 2, mkD .returnNil 0, mkD .return 1] 3 ⟨[DV.nil, DV.int 7], 0⟩ [] = some (Except.ok DV.nil, []) := by
  exact ⟨rfl, rfl⟩

/-! ### clean-up passes (statements proved in Bytecode/VMPasses.lean) -/

open JanetModel.Bytecode.VMPasses in
/-- ★ instance of the movopt side conditions on the REGENERATED tables (reads ⊇ what the VM reads; a removable opcode
    writes the tested field and is pure or never actually removed) - for every opcode except `JOP_GET_INDEX` -/
theorem movopt_tables_sound_partial : ∀ op ∈ Op.all, op ≠ .getIndex → movoptOpOk op = true := by
  decide +kernel

open JanetModel.Bytecode.VMPasses in
/-- the missing part: `JOP_GET_INDEX` is either not removable, or it is removable although it is not pure (it raises on a
    non-indexed operand) - the second disjunct is what holds on the unchanged tree -/
theorem movopt_getindex : movoptRemovable .getIndex = none ∨ (movoptRemovable .getIndex = some .a ∧ ¬ (Op.getIndex ∈ pureOps)) := by
  decide +kernel

open JanetModel.Bytecode.VMPasses in
/-- the full table condition holds exactly when `JOP_GET_INDEX` is not removable -/
theorem movopt_tables_sound_or_getindex : movoptTablesOk = true ∨ movoptRemovable .getIndex = some .a := by
  decide +kernel

open JanetModel.Bytecode.VMPasses in
/-- ★ `movopt_preserves` instantiated with the regenerated tables, for code without `JOP_GET_INDEX` (all code, once that opcode is
    no longer in the removable set - then `movoptTablesOk` holds outright, see `movopt_tables_sound_or_getindex`) -/
theorem movopt_preserves_instance (D : Nat → Bool) (code code' : List Instr)
    (hnogeti : ∀ x ∈ code, x.op ≠ .getIndex)
    (hreadsC : ∀ x ∈ code, ∀ g ∈ movoptReads x.op, D (fieldVal x g) = false)
    (hchg : ∀ (i : Nat) (x : Instr), code[i]? = some x →
      code'[i]? = some x ∨ (code'[i]? = some ⟨.noop, 0⟩ ∧ ∃ f, movoptRemovable x.op = some f ∧ D (fieldVal x f) = true))
    (fuel : Nat) (s : List P.V) (pc : Nat) (w : P.W) (r : Except P.E P.V × P.W)
    (h : exec P code fuel ⟨s, pc⟩ w = some r) : exec P code' fuel ⟨s, pc⟩ w = some r :=
  movopt_preserves_tables P D code code' hreadsC
    (fun x hx => movopt_tables_sound_partial x.op (by cases x.op <;> decide) (hnogeti x hx)) hchg fuel s pc w r h

/-! ### clean-up passes over the full interpreter -/

open JanetModel.Bytecode.VMPasses in
/-- ★ obligation on the REGENERATED retarget table of `janet_bytecode_remove_noops`: the opcodes whose operand the pass rewrites are
    exactly the opcodes that jump in the VM model (`isJumpD` / `isJumpE`), in the right field - and those are exactly the opcodes
    bytecode.c types as label operands (`JINT_L`, `JINT_SL`) -/
theorem remove_noops_retargets_ok :
    (∀ op ∈ Op.all, isJumpD op = removeNoopsRetargets.contains (op, Field.d)) ∧
    (∀ op ∈ Op.all, isJumpE op = removeNoopsRetargets.contains (op, Field.e)) ∧
    (∀ op ∈ Op.all, isJumpD op = (Op.itype op == .l) ∧ isJumpE op = (Op.itype op == .sl)) ∧
    removeNoopsRetargets.length = 5 := by
  decide +kernel

open JanetModel.Bytecode.VMPasses in
/-- ★ `movopt_preserves_x` instantiated with the regenerated tables over the full interpreter (calls, closures, upvalues, pushes,
    constructors): code without `JOP_GET_INDEX` (all code once that opcode is no longer removable), `D` disjoint from the closure bitset -/
theorem movopt_preserves_instance_x (X : CallPrims P) (D cap : Nat → Bool) (hcap : ∀ k, cap k = true → D k = false) (code code' : List Instr)
    (hnogeti : ∀ x ∈ code, x.op ≠ .getIndex)
    (hreadsC : ∀ x ∈ code, ∀ g ∈ movoptReads x.op, D (fieldVal x g) = false)
    (hchg : ∀ (i : Nat) (x : Instr), code[i]? = some x →
      code'[i]? = some x ∨ (code'[i]? = some ⟨.noop, 0⟩ ∧ ∃ f, movoptRemovable x.op = some f ∧ D (fieldVal x f) = true))
    (fuel : Nat) (s a : List P.V) (pc : Nat) (w : P.W) (r : Except P.E P.V × P.W)
    (h : execX X cap code fuel ⟨s, a, pc⟩ w = some r) : execX X cap code' fuel ⟨s, a, pc⟩ w = some r :=
  movopt_preserves_tables_x X D cap hcap code code' hreadsC
    (fun x hx => movopt_tables_sound_partial x.op (by cases x.op <;> decide) (hnogeti x hx)) hchg fuel s a pc w r h

end JanetModel.Props.C15
