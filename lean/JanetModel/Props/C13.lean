-- property theorems for C13 (number <-> text); see Strtod/Model.lean
import JanetModel.Strtod.Model
