/-
C13 — number ⇄ text conversion.  Property theorems only (model: Strtod/Model.lean; lemmas: Strtod/Lemmas.lean,
Strtod/ScanLemmas.lean, Strtod/Extract.lean).
-/
import JanetModel.Strtod.ScanLemmas
import JanetModel.Strtod.Extract
import JanetModel.Strtod.Ldexp
import JanetModel.Strtod.Approx
import JanetModel.Strtod.EndToEnd
import JanetModel.Strtod.RoundTrip
import JanetModel.Strtod.WrapFree
import JanetModel.Strtod.Log2Cert
import JanetModel.Strtod.Rational
import JanetModel.Strtod.Accept
import JanetModel.Strtod.Int32

namespace JanetModel.Props.C13
open JanetModel.Strtod JanetModel.Gen.Strtod

/-! ### scaling by the radix power is exact -/

/-- ★ positive exponent `e`: the chain of `bignat_muladd`s (by base⁴, base², base) yields exactly `mant * base^e`,
    for every literal the scanner accepts. -/
theorem mul_chain_exact (str : List Nat) (base0 : Nat) (hb : base0 ≤ 36) (p : Parsed)
    (h : parseNumber str base0 = some p) (e : Nat) :
    (scale p.mant p.base (e : Int)).1.val = p.mant.val * p.base ^ e := by
  obtain ⟨hi, h1, h36⟩ := parseNumber_inv str base0 hb p h
  rw [scale_pos_eq]
  exact (scalePos_facts p.mant p.base e h1 h36 hi).2

/-- ★ negative exponent `-a`: after the pre-shift by `shamt = 5 + a/4` digits, the whole sequence of truncating
    `bignat_div`s (by base⁴, base², base) equals ONE floor division by `base^a` — on the part of the digit array above
    `digits[0]` (`upper` = value / 2^62).  `digits[0]` and `first_digit` are excluded because the C loop leaves the
    *remainder* in `digits[0]` (see `bignat_div` in the model); `bignat_extract` never reads them on this branch
    (`neg_branch_at_least_4_digits`). -/
theorem div_chain_exact (str : List Nat) (base0 : Nat) (hb : base0 ≤ 36) (p : Parsed)
    (h : parseNumber str base0 = some p) (hnz : ¬ (p.mant.digits.length = 0 ∧ p.mant.first = 0)) (a : Nat) (ha : 0 < a) :
    upper (scale p.mant p.base (-(a : Int))).1 =
      p.mant.val * bigBase ^ (shamtBase + a / shamtDiv - 2) / p.base ^ a := by
  obtain ⟨hi, h1, h36⟩ := parseNumber_inv str base0 hb p h
  rw [scale_neg_eq _ _ _ ha]
  refine (scaleNeg_facts p.mant p.base a h1 h36 hi ?_).2.2
  intro hd hf; exact hnz ⟨by simp [hd], hf⟩

/-- the scaled mantissa on the negative branch keeps at least 93 + 31·(a/4) − log2(base^a) ≥ 62 bits above `digits[0]`,
    hence occupies at least four array digits: `bignat_extract` reads `digits[n-1], digits[n-2], digits[n-3]`, all
    above the unreliable `digits[0]`. -/
theorem neg_branch_at_least_4_digits (str : List Nat) (base0 : Nat) (hb : base0 ≤ 36) (p : Parsed)
    (h : parseNumber str base0 = some p) (hnz : ¬ (p.mant.digits.length = 0 ∧ p.mant.first = 0)) (a : Nat) (ha : 0 < a) :
    4 ≤ (scale p.mant p.base (-(a : Int))).1.digits.length ∧
    bigBase ^ 2 ≤ upper (scale p.mant p.base (-(a : Int))).1 := by
  obtain ⟨hi, h1, h36⟩ := parseNumber_inv str base0 hb p h
  rw [scale_neg_eq _ _ _ ha]
  have hnz' : p.mant.digits = [] → p.mant.first ≠ 0 := by intro hd hf; exact hnz ⟨by simp [hd], hf⟩
  have hv := val_pos_of_nonzero p.mant hi hnz
  exact ⟨scaleNeg_length _ _ _ h1 h36 hi hnz' hv, scaleNeg_upper_ge _ _ _ h1 h36 hi hnz' hv⟩

/-! ### `clz` is never applied to 0 -/

/-- ★ for every accepted literal whose mantissa is not zero (zero returns before scaling), the BigNat handed to
    `bignat_extract` has a non-zero most significant digit — for every exponent. -/
theorem msd_nonzero (str : List Nat) (base0 : Nat) (hb : base0 ≤ 36) (p : Parsed)
    (h : parseNumber str base0 = some p) (hnz : ¬ (p.mant.digits.length = 0 ∧ p.mant.first = 0)) (ex : Int)
    (d1 : Nat) (below : List Nat) (hd : (scale p.mant p.base ex).1.digits.reverse = d1 :: below) : d1 ≠ 0 := by
  obtain ⟨hi, h1, h36⟩ := parseNumber_inv str base0 hb p h
  have ht : TopNZ (scale p.mant p.base ex).1.digits := by
    by_cases hneg : ex < 0
    · obtain ⟨a, rfl⟩ : ∃ a : Nat, ex = -(a : Int) := ⟨(-ex).toNat, by omega⟩
      have ha : 0 < a := by omega
      rw [scale_neg_eq _ _ _ ha]
      have hnz' : p.mant.digits = [] → p.mant.first ≠ 0 := by intro hd hf; exact hnz ⟨by simp [hd], hf⟩
      exact scaleNeg_topnz _ _ _ h1 h36 hi hnz' (val_pos_of_nonzero p.mant hi hnz)
    · obtain ⟨e, rfl⟩ : ∃ e : Nat, ex = (e : Int) := ⟨ex.toNat, by omega⟩
      rw [scale_pos_eq]
      exact (scalePos_facts p.mant p.base e h1 h36 hi).1.topnz
  have hrev : (scale p.mant p.base ex).1.digits = below.reverse ++ [d1] := by
    have := congrArg List.reverse hd
    simpa using this
  rw [hrev, TopNZ_append_singleton] at ht
  exact ht

/-! ### `bignat_extract` rounds faithfully -/

/-- ★ `extract_faithful`, integers (exponent e ≥ 0), for every accepted literal with non-zero mantissa: with
    (t, e2) = what `bignat_extract` passes to `ldexp`, either the value fits one digit and is passed exactly, or
    2^52 ≤ t < 2^53 and `t·2^e2` is the floor or — only if the value is not on that grid — the ceiling of the exact value
    `mant·base^e` on the grid 2^e2: one of its two grid neighbours, the value itself when it is on the grid
    (`FaithfulN t N D`: t = ⌊N/D⌋ ∨ (t = ⌊N/D⌋+1 ∧ D ∤ N); both sides are scaled by 2^31 so that G = e2+31 ∈ ℕ). -/
theorem extract_faithful_int (str : List Nat) (base0 : Nat) (hb : base0 ≤ 36) (p : Parsed)
    (h : parseNumber str base0 = some p) (e : Nat) :
    let s := scale p.mant p.base (e : Int)
    let r := extractParts s.1 s.2
    (s.1.digits = [] ∧ r = (p.mant.val * p.base ^ e, 0)) ∨
    (∃ G : Nat, r.2 + 31 = (G : Int) ∧ FaithfulN r.1 (p.mant.val * p.base ^ e * 2 ^ 31) (2 ^ G) ∧
      NearestUpN r.1 (p.mant.val * p.base ^ e * 2 ^ 31) (2 ^ G) ∧
      (2 ^ 54 - 1) * 2 ^ G ≤ 4 * (p.mant.val * p.base ^ e * 2 ^ 31) ∧ 2 ^ 52 ≤ r.1 ∧ r.1 < 2 ^ 53) := by
  obtain ⟨hi, h1, h36⟩ := parseNumber_inv str base0 hb p h
  simp only
  rw [scale_pos_eq]
  obtain ⟨hi', hv⟩ := scalePos_facts p.mant p.base e h1 h36 hi
  by_cases hd : (scalePos p.mant p.base e).digits = []
  · left
    refine ⟨hd, ?_⟩
    simp only [extractParts, hd, List.reverse_nil]
    rw [← hv, BigNat.val, hd]; simp [digitsVal]
  · right
    rw [← hv]
    exact extract_faithful_pos_core _ hi' hd

/-- ★ `extract_faithful`, fractions (exponent −a < 0), for every accepted literal with non-zero mantissa: with
    (t, e2) = what `bignat_extract` passes to `ldexp`, 2^52 ≤ t < 2^53 and `t·2^e2` is the floor or — only if the value is
    not on that grid — the ceiling of the exact value `mant / base^a` on the grid 2^e2
    (both scaled by 2^(31·(shamt−2)) so that G = e2 + 31·(shamt−2) ∈ ℕ; shamt = 5 + a/4). -/
theorem extract_faithful_frac (str : List Nat) (base0 : Nat) (hb : base0 ≤ 36) (p : Parsed)
    (h : parseNumber str base0 = some p) (hnz : ¬ (p.mant.digits.length = 0 ∧ p.mant.first = 0)) (a : Nat) (ha : 0 < a) :
    let s := scale p.mant p.base (-(a : Int))
    let r := extractParts s.1 s.2
    ∃ G : Nat, r.2 + 31 * ((shamtBase + a / shamtDiv - 2 : Nat) : Int) = (G : Int) ∧
      FaithfulN r.1 (p.mant.val * bigBase ^ (shamtBase + a / shamtDiv - 2)) (p.base ^ a * 2 ^ G) ∧
      NearestUpN r.1 (p.mant.val * bigBase ^ (shamtBase + a / shamtDiv - 2)) (p.base ^ a * 2 ^ G) ∧
      (2 ^ 54 - 1) * (p.base ^ a * 2 ^ G) ≤ 4 * (p.mant.val * bigBase ^ (shamtBase + a / shamtDiv - 2)) ∧
      2 ^ 52 ≤ r.1 ∧ r.1 < 2 ^ 53 := by
  obtain ⟨hi, h1, h36⟩ := parseNumber_inv str base0 hb p h
  have hnz' : p.mant.digits = [] → p.mant.first ≠ 0 := by intro hd hf; exact hnz ⟨by simp [hd], hf⟩
  have hv := val_pos_of_nonzero p.mant hi hnz
  simp only
  rw [scale_neg_eq _ _ _ ha]
  obtain ⟨hl, hn, hu⟩ := scaleNeg_facts p.mant p.base a h1 h36 hi hnz'
  have hlen := scaleNeg_length p.mant p.base a h1 h36 hi hnz' hv
  have htop := scaleNeg_topnz p.mant p.base a h1 h36 hi hnz' hv
  have hfirst : (scaleNeg p.mant p.base a).first < bigBase := scaleNeg_first_lt p.mant p.base a h1 h36 hi
  obtain ⟨G, he, hF, hN, hM, hlo, hhi⟩ := extract_faithful_neg_core (scaleNeg p.mant p.base a)
    (-(((shamtBase + a / shamtDiv) * nbit : Nat) : Int)) _ _ (Nat.pow_pos h1) hfirst hl htop hlen hu
  refine ⟨G, ?_, hF, hN, hM, hlo, hhi⟩
  rw [he]
  have h2 : 2 ≤ shamtBase + a / shamtDiv := le_trans (by decide : 2 ≤ shamtBase) (Nat.le_add_right _ _)
  generalize shamtBase + a / shamtDiv = S at *
  obtain ⟨S', rfl⟩ : ∃ S', S = S' + 2 := ⟨S - 2, by omega⟩
  have hk : (((S' + 2) * nbit : Nat) : Int) = 31 * (S' : Int) + 62 := by
    have : nbit = 31 := rfl
    rw [this]; push_cast; ring
  rw [hk]
  simp only [Nat.add_sub_cancel]
  omega

/-- ★ `exact_when_representable`: whenever the exact value lies on the 53-bit grid chosen by `bignat_extract`
    (i.e. is representable with the exponent of its binade), the significand handed to `ldexp` is exactly the value. -/
theorem exact_when_representable (t N D : Nat) (h : FaithfulN t N D) (hrep : N % D = 0) : t * D = N :=
  h.exact hrep

/-- ★ the reader is in fact *correctly rounded* before `ldexp` (`NearestUpN` in `extract_faithful_*`: nearest, exact ties
    away from zero — not IEEE ties-to-even, still one of the two adjacent doubles): whenever the exact value is strictly
    within half a grid step of a grid point `T`, the significand handed to `ldexp` is `T`.  This is the reading half of the
    17-digit round trip. -/
theorem nearest_unique (t N D T : Nat) (hD : 0 < D) (h : NearestUpN t N D)
    (hlo : 2 * T * D < 2 * N + D) (hhi : 2 * N < 2 * T * D + D) : t = T :=
  h.unique hD hlo hhi

/-- never off by one grid step (one ulp): |t·D − N| < D -/
theorem within_one_ulp (t N D : Nat) (hD : 0 < D) (h : FaithfulN t N D) : t * D < N + D ∧ N < t * D + D :=
  h.within hD

/-- ★ the last step `ldexp((double) t, e2)` adds no error in the normal range: for the normalised significands produced
    above (2^52 ≤ t < 2^53) and −1074 ≤ e2 ≤ 971 the returned double is exactly `t·2^e2`.  (Subnormal results and
    overflow: `ldexp_faithful_subnormal`, `ldexp_overflow_faithful` below.) -/
theorem ldexp_exact_normal (t : Nat) (e : Int) (hlo : 2 ^ 52 ≤ t) (hhi : t < 2 ^ 53) (he1 : -1074 ≤ e) (he2 : e ≤ 971) :
    decodeBits (ldexpBits t e) = (t, e) :=
  JanetModel.Strtod.ldexp_exact_normal t e hlo hhi he1 he2

/-! ### the second rounding inside `ldexp` (subnormal results, overflow) keeps the result adjacent

`convert` returns `±ldexp((double) t, e2)` with (t, e2) from `extract_faithful_*` (2^52 ≤ t < 2^53, or the exact one-digit
integer).  Three regimes cover every e2:  −1074 ≤ e2 ≤ 971 → `ldexp_exact_normal` (no second rounding);
e2 < −1074 → `ldexp_faithful_subnormal`;  e2 ≥ 972 → `ldexp_overflow_faithful`;  one-digit integers → `ldexp_exact_int`. -/

/-- ★ subnormal results: if `t` is a faithful rounding of the exact value `N/D` (units 2^e, e < −1074), the pattern
    returned by the correctly rounded `ldexp` — a count ≤ 2^52 of 2^−1074 units — is the floor or, only when inexact,
    the ceiling of the exact value in those units: one of the two adjacent doubles, the value itself when representable.
    (Double rounding: the result need not be the nearest one any more; the property does not ask that.) -/
theorem ldexp_faithful_subnormal (t N D : Nat) (e : Int) (hD : 0 < D) (ht0 : t ≠ 0) (ht : t < 2 ^ 53) (he : e < -1074)
    (hF : FaithfulN t N D) :
    FaithfulN (ldexpBits t e) N (D * 2 ^ (-1074 - e).toNat) ∧ ldexpBits t e ≤ 2 ^ 52 :=
  JanetModel.Strtod.ldexp_faithful_subnormal t N D e hD ht0 ht he hF

/-- ★ overflow: for e ≥ 972 `ldexp` returns +inf, and with the magnitude fact supplied by `extract_faithful_*` the exact
    value `N/D·2^e` is above DBL_MAX = (2^53−1)·2^971, whose two neighbours are DBL_MAX and +inf. -/
theorem ldexp_overflow_faithful (t N D : Nat) (e : Nat) (hD : 0 < D) (hlo : 2 ^ 52 ≤ t) (hhi : t < 2 ^ 53) (he : 972 ≤ e)
    (hmag : (2 ^ 54 - 1) * D ≤ 4 * N) :
    ldexpBits t (e : Int) = infBits ∧ (2 ^ 53 - 1) * 2 ^ 971 * D < N * 2 ^ e :=
  ⟨ldexp_overflow_bits t e hlo hhi (by omega), overflow_value_gt_dblmax N D e hD hmag he⟩

/-- ★ integers below 2^53 (in particular the one-digit case of `bignat_extract`) pass through `ldexp(·, 0)` exactly -/
theorem ldexp_exact_int (t : Nat) (ht0 : t ≠ 0) (ht : t < 2 ^ 53) :
    decodeBits (ldexpBits t 0) = (t * 2 ^ (53 - bitLen t), -((53 - bitLen t : Nat) : Int)) :=
  JanetModel.Strtod.ldexp_exact_int t ht0 ht

/-! ### the size estimate used by the short-circuits of `convert` -/

/-- ★ the mantissa part of `exp2_approx` (`n * approxPerDigit + 16`, multiplier read from the source) is within
    (−15, +16] of log2 of the mantissa:  2^(est−16) ≤ mant < 2^(est+15).
    This is the obligation that fails for the multiplier 32 (digits hold 31 bits): the estimate then overshoots by `n`
    and long finite literals are returned as infinity. -/
theorem mant_estimate_sound (x : BigNat) (hi : MantInv x) (hnz : ¬ (x.digits.length = 0 ∧ x.first = 0)) :
    2 ^ (x.digits.length * approxPerDigit + approxBias) ≤ x.val * 2 ^ 16 ∧
    x.val * 2 ^ 16 < 2 ^ (x.digits.length * approxPerDigit + approxBias + 31) :=
  mant_estimate x hi hnz

/-- `convert` takes its short-circuits exactly on `exp2Approx` (the quantity the next theorems are about) -/
theorem convert_shortcircuits (neg : Bool) (mant : BigNat) (base : Nat) (ex : Int)
    (hnz : ¬ (mant.digits.length = 0 ∧ mant.first = 0)) :
    (exp2Approx mant base ex > hugeThresh → convert neg mant base ex = withSign neg infBits) ∧
    (¬ exp2Approx mant base ex > hugeThresh → exp2Approx mant base ex < tinyThresh →
      convert neg mant base ex = withSign neg 0) := by
  constructor
  · intro h
    unfold exp2Approx at h
    unfold convert
    simp only
    rw [if_neg hnz, if_pos h]
  · intro h1 h2
    unfold exp2Approx at h1 h2
    unfold convert
    simp only
    rw [if_neg hnz, if_neg h1, if_pos h2]

/-- ★ `huge_shortcircuit_sound`: whenever `convert` returns ±inf early (`exp2_approx > 1176`, including the double-precision
    term `floor(log2(base)·exponent)` with its two roundings), the exact value `mant·base^ex` is ≥ 2^1024 > DBL_MAX, so ±inf
    is one of its two adjacent doubles.  For all mantissas and all |exponent| < 2^31 (the scanner cannot produce larger
    ones), radix 2..36.  Uses the named assumption `Log2Within1Ulp base` (libm's log2 within one ulp; the table itself is
    regenerated and its shape kernel-checked: `log2Table_shape`). -/
theorem huge_shortcircuit_sound (mant : BigNat) (base a : Nat) (hi : MantInv mant)
    (hnz : ¬ (mant.digits.length = 0 ∧ mant.first = 0)) (hb2 : 2 ≤ base) (hb : base ≤ 36) (ha : a < 2 ^ 31)
    (hL : Log2Within1Ulp base) :
    (exp2Approx mant base (a : Int) > hugeThresh → 2 ^ 1024 ≤ mant.val * base ^ a) ∧
    (0 < a → exp2Approx mant base (-(a : Int)) > hugeThresh → 2 ^ 1024 * base ^ a ≤ mant.val) :=
  ⟨huge_sound_pos mant base a hi hnz hb2 hb ha hL, fun ha0 => huge_sound_neg mant base a hi hnz hb2 hb ha0 ha hL⟩

/-- kernel-checked part of the libm assumption: every regenerated table entry L_b satisfies
    ⌊65536·L_b⌋ − 1 ≤ 65536·log2(b) ≤ ⌊65536·L_b⌋ + 2, i.e. |L_b − log2 b| < 2^−14 (checked with b^65536 against powers of two).
    The remaining, unchecked part of `Log2Within1Ulp` is the step from 2^−14 to one ulp (2^−52..2^−50). -/
theorem log2_table_coarse_check : ∀ b : Fin 37, 2 ≤ b.val →
    2 ^ ((log2Entry b.val).1 * 65536 / 2 ^ (-(log2Entry b.val).2).toNat - 1) ≤ b.val ^ 65536 ∧
    b.val ^ 65536 ≤ 2 ^ ((log2Entry b.val).1 * 65536 / 2 ^ (-(log2Entry b.val).2).toNat + 2) := by decide +kernel

/-- ★ `tiny_shortcircuit_sound`: `convert` returns ±0 early (`exp2_approx < −1175`) only for negative exponents, and then
    0 < mant / base^a < 2^−1074: the exact value lies strictly below the smallest subnormal, whose neighbours are 0 and 2^−1074. -/
theorem tiny_shortcircuit_sound (mant : BigNat) (base a : Nat) (hi : MantInv mant)
    (hnz : ¬ (mant.digits.length = 0 ∧ mant.first = 0)) (hb2 : 2 ≤ base) (hb : base ≤ 36) (ha : a < 2 ^ 31)
    (hL : Log2Within1Ulp base) :
    ¬ (exp2Approx mant base (a : Int) < tinyThresh) ∧
    (0 < a → exp2Approx mant base (-(a : Int)) < tinyThresh → mant.val * 2 ^ 1074 < base ^ a) :=
  ⟨tiny_needs_negative mant base a, fun ha0 => tiny_sound_neg mant base a hi hnz hb2 hb ha0 ha hL⟩

/-! ### the digit table -/

/-- ★ `digit_lookup[128]` (regenerated from the source) is the intended digit valuation: '0'..'9' ↦ 0..9,
    'A'..'Z' and 'a'..'z' ↦ 10..35, everything else invalid (0xff). -/
theorem digit_table_correct : ∀ c : Fin 128,
    digitLookup.getD c.val 255 =
      (if 48 ≤ c.val ∧ c.val ≤ 57 then c.val - 48
       else if 65 ≤ c.val ∧ c.val ≤ 90 then c.val - 55
       else if 97 ≤ c.val ∧ c.val ≤ 122 then c.val - 87
       else 255) := by decide +kernel

/-! ### 64-bit integer text -/

/-- ★ `janet_scan_uint64` accepts exactly the syntactically valid, non-negative-signed literals whose denoted integer
    (`intSpec`: the same scan with unbounded accumulation) is ≤ 2^64−1, and returns that integer. -/
theorem scan_uint64_exact_or_rejected (str : List Nat) :
    scanUint64 str =
      match intSpec str with
      | some (v, false) => if v ≤ 18446744073709551615 then some v else none
      | _ => none := by
  unfold scanUint64
  rw [scanUint64Core_eq]
  cases hs : intSpec str with
  | none => rfl
  | some q =>
    obtain ⟨v, neg⟩ := q
    by_cases hv : v ≤ u64Max
    · cases neg <;> simp [hv]
    · cases neg <;> simp [hv]

/-- ★ `janet_scan_int64` accepts exactly the valid literals whose signed value lies in [−2^63, 2^63−1], and returns it. -/
theorem scan_int64_exact_or_rejected (str : List Nat) :
    scanInt64 str =
      match intSpec str with
      | some (v, neg) =>
        let x : Int := if neg then -(v : Int) else (v : Int)
        if -9223372036854775808 ≤ x ∧ x ≤ 9223372036854775807 then some x else none
      | none => none := by
  unfold scanInt64
  rw [scanUint64Core_eq]
  cases hs : intSpec str with
  | none => rfl
  | some q =>
    obtain ⟨v, neg⟩ := q
    simp only [u64Max, i64Max]
    by_cases hv : v ≤ 18446744073709551615
    · rw [if_pos hv]
      cases neg
      · simp only [Bool.false_eq_true, false_and, if_false, Bool.not_false, true_and]
        by_cases h2 : v ≤ 9223372036854775807
        · rw [if_pos h2, if_pos (by omega)]
        · rw [if_neg h2, if_neg (by omega)]
      · simp only [true_and, if_true]
        by_cases h2 : v ≤ 18446744073709551615 / 2 + 1
        · rw [if_pos h2]
          by_cases h3 : v > 9223372036854775807
          · rw [if_pos h3, if_pos (by omega)]; congr 1; omega
          · rw [if_neg h3, if_pos (by omega)]
        · rw [if_neg h2]
          simp only [Bool.not_true, Bool.false_eq_true, false_and, if_false]
          rw [if_neg (by omega)]
    · rw [if_neg hv]
      cases neg
      · simp only [Bool.false_eq_true, if_false]; rw [if_neg (by omega)]
      · simp only [if_true]; rw [if_neg (by omega)]

/-! ### printing integers -/

/-- ★ `int_print_exact_to_2p53`: for EVERY finite double (64-bit pattern) whose value is a non-zero integer of magnitude
    ≤ 2^53, `number_to_string_b` (used by `string`, `describe`, `%v`, `%q`, `%p`, `print`, `pp`) takes the `%.0f` branch, so
    the text is the exact decimal expansion of that integer with its sign — never the lossy `%.15g` branch.
    The window test and the formats are read from pp.c / janet.h on every run (`intMaxDouble`, `intMinDoubleAbs`,
    `fixedPrec`, `dblDig`).  Named assumption `libc_fixed0_exact`: libc's `%.0f` of an integer-valued double is its exact
    decimal expansion (`printFixed0`; compared with the implementation on every run). -/
theorem int_print_exact_to_2p53 (bits : Nat)
    (hint : isIntValued (decodeBits (bits % 0x8000000000000000)).1 (decodeBits (bits % 0x8000000000000000)).2 = true)
    (hnz : (decodeBits (bits % 0x8000000000000000)).1 ≠ 0)
    (hle : intValue (decodeBits (bits % 0x8000000000000000)).1 (decodeBits (bits % 0x8000000000000000)).2 ≤ 2 ^ 53) :
    fixedPrec = 0 ∧
    numberToString bits =
      printFixed0 (decide (bits ≥ 0x8000000000000000))
        (intValue (decodeBits (bits % 0x8000000000000000)).1 (decodeBits (bits % 0x8000000000000000)).2) := by
  refine ⟨by decide, ?_⟩
  have hmax : intMaxDouble = 2 ^ 53 := by decide
  have hmin : intMinDoubleAbs = 2 ^ 53 := by decide
  unfold numberToString
  generalize decodeBits (bits % 0x8000000000000000) = me at *
  obtain ⟨m, e⟩ := me
  simp only at hint hnz hle ⊢
  rw [if_neg hnz]
  have hwin : (if bits ≥ 0x8000000000000000 then intValue m e ≤ intMinDoubleAbs else intValue m e ≤ intMaxDouble) := by
    split
    · rw [hmin]; exact hle
    · rw [hmax]; exact hle
  rw [if_pos ⟨hint, hwin⟩]

/-- the window is tight: 2^53 + 2 (an integer-valued double) is printed through `%.15g` and loses digits -/
example : String.ofList (numberToString 0x4340000000000001) = "9.00719925474099e+15" := by decide +kernel
example : String.ofList (numberToString 0x4340000000000000) = "9007199254740992" := by decide +kernel
example : String.ofList (numberToString 0xC340000000000000) = "-9007199254740992" := by decide +kernel
example : String.ofList (numberToString 0x433FFFFFFFFFFFFF) = "9007199254740991" := by decide +kernel
example : String.ofList (numberToString 0x8000000000000000) = "0" := by decide +kernel

/-! ### 17 significant digits read back as the same double (reduction) -/

/-- ★ "17 digits suffice" (2^53 < 10^16): if a decimal `N` approximates `X = T·D` (T < 2^53 grid steps of size D) with
    relative error at most 10^−16/2 — which a correctly rounded 17-significant-digit rendering guarantees, since its
    absolute error is ≤ 10^(k−16)/2 with 10^k ≤ X — then `N` is strictly within half a grid step of `X`. -/
theorem seventeen_digits_suffice (N D T : Nat) (hD : 0 < D) (hT : T < 2 ^ 53)
    (hclose_hi : 2 * 10 ^ 16 * N ≤ (2 * 10 ^ 16 + 1) * (T * D))
    (hclose_lo : (2 * 10 ^ 16 - 1) * (T * D) ≤ 2 * 10 ^ 16 * N) :
    2 * T * D < 2 * N + D ∧ 2 * N < 2 * T * D + D := by
  have p53 : (2 : Nat) ^ 53 = 9007199254740992 := by norm_num
  have p16 : (10 : Nat) ^ 16 = 10000000000000000 := by norm_num
  rw [p53] at hT; rw [p16] at hclose_hi hclose_lo
  have hTD : T * D < 9007199254740992 * D := Nat.mul_lt_mul_of_pos_right hT hD
  constructor <;> nlinarith

/-- `print17_roundtrip_partial` (session 2; kept): the arithmetic core of the reading half ON ONE GRID — a value that is a
    17-digit-accurate approximation of the grid point `T < 2^53` of the reader's grid is read as `T`.
    Its three named gaps are now CLOSED by `print17_roundtrip` below (session 4): (i) the printing side is the explicit
    hypothesis `LibcPrinted17`; (ii) the placement of the double on the reader's final grid incl. the binade lower edge,
    subnormals (second rounding in `ldexp`) and overflow is `finish_roundtrip`; (iii) the scanner plumbing is
    `scan_roundtrip`. -/
theorem print17_roundtrip_partial (t N D T : Nat) (hD : 0 < D) (hT : T < 2 ^ 53)
    (hread : NearestUpN t N D)
    (hclose_hi : 2 * 10 ^ 16 * N ≤ (2 * 10 ^ 16 + 1) * (T * D))
    (hclose_lo : (2 * 10 ^ 16 - 1) * (T * D) ≤ 2 * 10 ^ 16 * N) : t = T := by
  obtain ⟨h1, h2⟩ := seventeen_digits_suffice N D T hD hT hclose_hi hclose_lo
  exact hread.unique hD h1 h2

/-! ### END TO END: `janet_scan_number_base` against the denoted value -/

/-- ★★ `scan_number_faithful` — the whole reader in one statement.  For EVERY byte string `str` and radix parameter
    `base0 ≤ 36` that the scanner accepts (`scanNumberBase str base0 = some bits`), with `l = denote str base0` the value
    `± M·b^E` denoted by the text (Strtod/Denote.lean: sign, `_` separators, radix prefix `0x`/`Dr`/`DDr`, point,
    exponent marker `e E & p P`, exponent sign and digits — defined from the grammar, no scanner state, no clamp):

    * the sign bit of `bits` is the literal's sign and the magnitude pattern `mag` is `Adjacent` to the exact value
      (in units of 2^−1074: numerator `M·b^max(E,0)·2^1074`, denominator `b^max(−E,0)`): every double strictly below the
      result is strictly below the exact value and every double strictly above it is strictly above the exact value —
      i.e. the result IS the exact value whenever a double has it (`scan_exact_when_representable`), otherwise it is one
      of the two doubles adjacent to it; ±inf only when the value exceeds DBL_MAX, signed zero / smallest subnormal for
      values below 2^−1074, subnormals on their own grid;
    * the exponent handed to `convert` fits `int32_t` (no wrap in `ex -= ee` / `ex += ee` / `ex *= 4`).

    Assembled from the scanner plumbing (`parseBody_spec`: digit accumulation, `ex` bookkeeping, `seenpoint`, leading
    zeros, separators, marker, exponent digits with the clamp) and `convert_adjacent` (short-circuits, both scaling
    chains, 54-bit extraction, all three `ldexp` regimes).
    Hypotheses: `Log2Within1Ulp` (libm `log2`, named assumption) and `ClampSafe str.length` — discharged for every
    length by `clamp_safe` on a tree whose exponent clamp saturates; on the pinned tree (digits dropped) it holds only
    for literals up to (eeLimit − 1100)/4 ≈ 12.8 MiB and the statement is FALSE beyond (see `notes/C13.md`, finding
    "exponent clamp": ".000…(53 687 000 zeros)…1e536870915" read as 1e90). -/
theorem scan_number_faithful (str : List Nat) (base0 : Nat) (hb : base0 ≤ 36)
    (hL : ∀ b, 2 ≤ b → b ≤ 36 → Log2Within1Ulp b) (hsafe : ClampSafe str.length)
    (bits : Nat) (h : scanNumberBase str base0 = some bits) :
    ∃ mag, bits = withSign (denote str base0).neg mag ∧
      Adjacent mag ((denote str base0).M * (denote str base0).b ^ (denote str base0).E.toNat * 2 ^ 1074)
        ((denote str base0).b ^ (-(denote str base0).E).toNat) ∧
      ∃ p, parseNumber str base0 = some p ∧ p.ex.natAbs < 2 ^ 31 :=
  scan_number_adjacent str base0 hb hL hsafe bits h

/-- ★ the clamp side condition holds for EVERY length on the current tree: the regenerated constants say that the
    exponent accumulator saturates (`eeSat ≠ 0`) at a value that dominates 4·lenLimit + 1100 and cannot overflow
    `int32_t` when combined with the mantissa exponent.  (On the pinned tree `eeSat = 0` and this does not build.) -/
theorem clamp_safe (n : Nat) : ClampSafe n := Or.inr (by decide)

/-- ★ exact when representable: if some double (pattern `k`, or the overflow threshold) has exactly the denoted value,
    the scanner returns that value -/
theorem scan_exact_when_representable (mag N D k : Nat) (h : Adjacent mag N D) (hk : k ≤ infBits)
    (hv : ulps k * D = N) : ulps mag = ulps k :=
  h.exact k hk hv

/-- ★ `convert` alone, for every mantissa the scanner can build, radix 2..36, |exponent| < 2^31 -/
theorem convert_faithful (neg : Bool) (mant : BigNat) (base : Nat) (ex : Int) (hi : MantInv mant)
    (hb2 : 2 ≤ base) (hb : base ≤ 36) (hex : ex.natAbs < 2 ^ 31) (hL : Log2Within1Ulp base) :
    ∃ mag, convert neg mant base ex = withSign neg mag ∧
      Adjacent mag (mant.val * base ^ ex.toNat * 2 ^ 1074) (base ^ (-ex).toNat) :=
  convert_adjacent neg mant base ex hi hb2 hb hex hL

/-- ★ the scanner plumbing against `denote`: same sign, radix, mantissa; exponents equal unless the clamp was reached -/
theorem scanner_plumbing_correct (neg : Bool) (b : Nat) (s2 : List Nat) (p : Parsed) (hb1 : 1 ≤ b) (hb36 : b ≤ 36)
    (hlen : s2.length ≤ lenLimit) (hsat : SatOK) (h : parseBody neg b s2 = some p) :
    p.neg = (denoteBody neg b s2).neg ∧ p.base = (denoteBody neg b s2).b ∧ p.mant.val = (denoteBody neg b s2).M ∧
    MantInv p.mant ∧ 1 ≤ p.base ∧ p.base ≤ 36 ∧ ExpOK s2.length p (denoteBody neg b s2) :=
  parseBody_spec neg b s2 p hb1 hb36 hlen hsat h

/-- non-vacuity: "-16r1f.8&-3" denotes −(0x1f8)·16^−4; "0x1.8p3" denotes 0x18·2^(3−4); "1_0.5e+2" denotes 105·10^1 -/
example : denote [45, 49, 54, 114, 49, 102, 46, 56, 38, 45, 51] 0 = ⟨true, 504, 16, -4⟩ := by decide +kernel
example : denote [48, 120, 49, 46, 56, 112, 51] 0 = ⟨false, 24, 2, -1⟩ := by decide +kernel
example : denote [49, 95, 48, 46, 53, 101, 43, 50] 0 = ⟨false, 105, 10, 1⟩ := by decide +kernel
/-- … and the scanner returns exactly 12.0 for "0x1.8p3" (0x4028000000000000), whose value is 24·2^−1 -/
example : scanNumberBase [48, 120, 49, 46, 56, 112, 51] 0 = some 0x4028000000000000 := by decide +kernel
example : ulps 0x4028000000000000 * 2 = 24 * 2 ^ 1074 := by decide +kernel
example : ClampSafe 1000000 := clamp_safe _

/-! ### END TO END in rationals, every side condition discharged -/

/-- ★ the libm values `log2((double) b)` recorded for this run (Gen/Strtod.lean, regenerated) are within one unit in the
    last place of the true logarithms, b = 2..36: the former named assumption `Log2Within1Ulp` is a THEOREM about the
    current table.  Certificate: 50–52 interval squarings on 192-bit fixed point (`certStep_inv`), evaluated by the kernel
    (`certOK_all`); 2^⌊K·log2 b⌋ ≤ b^K < 2^(⌊K·log2 b⌋+1) with K = 2^50..2^52 is never formed explicitly. -/
theorem log2_table_within_1ulp (b : Nat) (h2 : 2 ≤ b) (h36 : b ≤ 36) : Log2Within1Ulp b :=
  JanetModel.Strtod.log2_table_within_1ulp b h2 h36

/-- ★★★ `scan_end_to_end` — ONE statement, in rational numbers, with no hypothesis left but the API's radix bound.
    For EVERY byte string `str` and radix parameter `base0 ≤ 36` on which the C-TYPED model of `janet_scan_number_base`
    (`scanNumberBaseW`: the model the harness diffs against the real function, `uint64_t`/`uint32_t` intermediates
    reduced modulo 2^width) returns `bits`:  `bits = sign(text) | mag`, `mag ≤ +inf`, and with `v = M·b^E ∈ ℚ` the
    magnitude DENOTED by the text (`denote`: sign, `_`, radix prefix `0x`/`Dr`/`DDr`, point, marker `& e E p P`, exponent
    sign/digits — grammar only) and `dval` the rational value of a pattern (+inf ≙ 2^1024):
      (1) if some double has exactly the value `v`, the result has the value `v`  (exact when representable);
      (2) every double below the result is `< v` and every double above it is `> v`  (otherwise one of the two doubles
          adjacent to `v` — subnormals on their grid, ±0 / 2^−1074 below the smallest subnormal, DBL_MAX / ±inf above
          DBL_MAX).
    Glue discharged inside: wrap-freedom (`wrap_free`), the int32 exponent and its clamp (`clamp_safe`), the libm table
    (`log2_table_within_1ulp`), plumbing (`scanner_plumbing_correct`), `convert_faithful`.  Nothing is `_partial` here. -/
theorem scan_end_to_end (str : List Nat) (base0 : Nat) (hb : base0 ≤ 36) (bits : Nat)
    (h : scanNumberBaseW str base0 = some bits) :
    ∃ mag, mag ≤ infBits ∧ bits = withSign (denote str base0).neg mag ∧
      (∀ k, k ≤ infBits → dval k = (denote str base0).absVal → dval mag = (denote str base0).absVal) ∧
      (∀ k, k ≤ infBits → dval k < dval mag → dval k < (denote str base0).absVal) ∧
      (∀ k, k ≤ infBits → dval mag < dval k → (denote str base0).absVal < dval k) :=
  scan_end_to_end_q str base0 hb bits h

/-- ★ `integer_read_exact`: every accepted text that denotes an INTEGER `M·b^E` (E ≥ 0, any radix) with 0 < value ≤ 2^53
    is read as exactly that integer (consequence of `scan_end_to_end` (1) and `int_representable`: all such integers are
    doubles) — the reading counterpart of `int_print_exact_to_2p53`. -/
theorem integer_read_exact (str : List Nat) (base0 : Nat) (hb : base0 ≤ 36) (bits : Nat)
    (h : scanNumberBaseW str base0 = some bits) (hE : 0 ≤ (denote str base0).E)
    (h0 : 0 < (denote str base0).M * (denote str base0).b ^ (denote str base0).E.toNat)
    (h53 : (denote str base0).M * (denote str base0).b ^ (denote str base0).E.toNat ≤ 2 ^ 53) :
    ∃ mag, bits = withSign (denote str base0).neg mag ∧
      dval mag = (((denote str base0).M * (denote str base0).b ^ (denote str base0).E.toNat : Nat) : ℚ) :=
  integer_read_exact_q str base0 hb bits h hE h0 h53

/-- non-vacuity / sanity of the rational reading: "0x1.8p3" is accepted, denotes 24·2^−1 = 12 and the result 0x4028… has
    rational value 12; "1e400" denotes 10^400 and reads as +inf (value 2^1024 in `dval`) -/
example : scanNumberBaseW [48, 120, 49, 46, 56, 112, 51] 0 = some 0x4028000000000000 := by decide +kernel
example : (denote [48, 120, 49, 46, 56, 112, 51] 0).absVal = 12 := by
  have : denote [48, 120, 49, 46, 56, 112, 51] 0 = ⟨false, 24, 2, -1⟩ := by decide +kernel
  rw [this]; norm_num [Lit.absVal]
example : dval 0x4028000000000000 = 12 := by
  have : ulps 0x4028000000000000 = 12 * 2 ^ 1074 := by decide +kernel
  unfold dval; rw [this]; push_cast; field_simp
example : scanNumberBaseW [49, 101, 52, 48, 48] 0 = some infBits := by decide +kernel

/-! ### `janet_scan_number`: radix prefixes and exponent markers of the SPEC value, covered by theorems

The scanner side of these is inside `scan_end_to_end` (via `numHeader_spec` / `scanner_plumbing_correct`: whatever
`scanPrefix` / `scanDigits` / `parseExponent` do is proved equal to `denote`).  The theorems below make the SPEC side
readable: what `denote` says about `0x`, `Dr`, `DDr`, a radix parameter, and the markers `&`, `e`/`E`, `p`/`P`. -/

/-- "0x…" is radix 16 (also after a sign) -/
theorem prefix_hex (s : List Nat) :
    denote (48 :: 120 :: s) 0 = denoteBody false 16 s ∧ denote (45 :: 48 :: 120 :: s) 0 = denoteBody true 16 s ∧
    denote (43 :: 48 :: 120 :: s) 0 = denoteBody false 16 s := by
  refine ⟨?_, ?_, ?_⟩ <;> simp [denote, splitSign, splitRadix]

/-- "Dr…" (one decimal digit D, then `r`) is radix D; the degenerate "0r…" is radix 10 (as in the C code) -/
theorem prefix_radix1 (d : Nat) (s : List Nat) (h1 : 48 ≤ d) (h2 : d ≤ 57) :
    denote (d :: 114 :: s) 0 = denoteBody false (if d = 48 then 10 else d - 48) s := by
  have n1 : d ≠ 45 := by omega
  have n2 : d ≠ 43 := by omega
  have e0 : (d - 48 = 0) = (d = 48) := by apply propext; omega
  simp [denote, splitSign, splitRadix, isDec, n1, n2, h1, h2, e0]

/-- "DDr…" (two decimal digits) is radix DD ("00r" again radix 10; the scanner rejects DD outside 2..36) -/
theorem prefix_radix2 (d1 d2 : Nat) (s : List Nat) (h1 : 48 ≤ d1) (h2 : d1 ≤ 57) (h3 : 48 ≤ d2) (h4 : d2 ≤ 57) :
    denote (d1 :: d2 :: 114 :: s) 0 =
      denoteBody false (if 10 * (d1 - 48) + (d2 - 48) = 0 then 10 else 10 * (d1 - 48) + (d2 - 48)) s := by
  have n1 : d1 ≠ 45 := by omega
  have n2 : d1 ≠ 43 := by omega
  have n3 : d2 ≠ 114 := by omega
  have n4 : d2 ≠ 120 := by omega
  simp [denote, splitSign, splitRadix, isDec, n1, n2, n3, n4, h1, h2, h3, h4]

/-- with a radix parameter (`scan-number` with a base, PEG `number` captures) no prefix is read -/
theorem radix_parameter (str : List Nat) (b : Nat) (hb : b ≠ 0) :
    denote str b = denoteBody (splitSign str).1 b (splitSign str).2 := by
  simp [denote, hb]

/-- ★ exponent markers: a mantissa text `ms` without marker characters followed by a marker `mk` (`&` in every radix,
    `e`/`E` in radix 10, `p`/`P` in radix 16) and the exponent text `es` denotes `M·b^(±X − F)` — for `p`/`P`:
    `M·2^(±X − 4F)` with X read in DECIMAL — where M = all mantissa digits read as one integer, F = digits after the
    point, X = the exponent digits read in the radix, sign from a leading `-`/`+`. -/
theorem exponent_marker_spec (neg : Bool) (b : Nat) (ms : List Nat) (mk : Nat) (es : List Nat)
    (hms : ∀ c ∈ ms, isExpMarker b c = false) (hmk : isExpMarker b mk = true) :
    denoteBody neg b (ms ++ mk :: es) =
      (let hexp := (mk == 80 || mk == 112) && b == 16
       let X := ofDigits (if hexp then 10 else b) (splitSign es).2
       let Xs : Int := if (splitSign es).1 then -(X : Int) else (X : Int)
       if hexp then ⟨neg, ofDigits b (mantChars ms), 2, Xs - 4 * ((fracChars ms).length : Int)⟩
       else ⟨neg, ofDigits b (mantChars ms), b, Xs - ((fracChars ms).length : Int)⟩) := by
  have ht : (ms ++ mk :: es).takeWhile (fun c => !isExpMarker b c) = ms := by
    rw [List.takeWhile_append_of_pos (by intro c hc; simp [hms c hc])]
    simp [List.takeWhile_cons, hmk]
  have hd : (ms ++ mk :: es).dropWhile (fun c => !isExpMarker b c) = mk :: es := by
    rw [List.dropWhile_append_of_pos (by intro c hc; simp [hms c hc])]
    simp [List.dropWhile_cons, hmk]
  unfold denoteBody
  simp only [ht, hd]

/-- ★ `janet_scan_number` (radix read from the text) end to end -/
theorem scan_number_end_to_end (str : List Nat) (bits : Nat) (h : scanNumber str = some bits) :
    ∃ mag, mag ≤ infBits ∧ bits = withSign (denote str 0).neg mag ∧
      (∀ k, k ≤ infBits → dval k = (denote str 0).absVal → dval mag = (denote str 0).absVal) ∧
      (∀ k, k ≤ infBits → dval k < dval mag → dval k < (denote str 0).absVal) ∧
      (∀ k, k ≤ infBits → dval mag < dval k → (denote str 0).absVal < dval k) :=
  scan_end_to_end_q str 0 (by decide) bits h

/-- the format whose output `LibcPrinted17` is about has 17 significant digits (read from `janet_buffer_dtostr`) -/
theorem print_digits_17 : printDigits = 17 := by decide

/-- non-vacuity: "36rZ&2" = 35·36², "1e3", "0x1p-2" = 2^−2 -/
example : denote [51, 54, 114, 90, 38, 50] 0 = ⟨false, 35, 36, 2⟩ := by decide +kernel
example : scanNumber [51, 54, 114, 90, 38, 50] = some 0x40E6260000000000 := by decide +kernel
example : scanNumber [48, 120, 49, 112, 45, 50] = some 0x3FD0000000000000 := by decide +kernel

/-! ### the 17-digit round trip: READING side closed, printing side = one explicit libc hypothesis -/

/-- EXPLICIT LIBC HYPOTHESIS — the only thing assumed about `snprintf("%.17g", x)` (janet_buffer_dtostr, `%j`): the text
    denotes (via the grammar-level `denote`) a radix-10 value that is a decimal `d·10^(jp−jn)` with 17 significant digits
    (`d ≥ 10^16`, `d` = the digits read as an integer) lying within HALF A UNIT `10^(jp−jn)` of its 17th digit of `|x|`.
    Everything is in units of 2^−1074: `ulps k` = |x|, the text's value is `M·10^E⁺·2^1074 / 10^E⁻`.
    (Correct rounding of `%.17g` gives this; so does any libc that is merely accurate to half a unit in the 17th digit.) -/
def LibcPrinted17 (l : Lit) (k : Nat) : Prop :=
  l.b = 10 ∧ ∃ d jp jn : Nat, 10 ^ 16 ≤ d ∧
    l.M * 10 ^ l.E.toNat * 2 ^ 1074 * 10 ^ jn = d * (10 ^ jp * 2 ^ 1074) * 10 ^ (-l.E).toNat ∧
    2 * (l.M * 10 ^ l.E.toNat * 2 ^ 1074) * 10 ^ jn ≤
      2 * (ulps k * 10 ^ (-l.E).toNat) * 10 ^ jn + 10 ^ jp * 2 ^ 1074 * 10 ^ (-l.E).toNat ∧
    2 * (ulps k * 10 ^ (-l.E).toNat) * 10 ^ jn ≤
      2 * (l.M * 10 ^ l.E.toNat * 2 ^ 1074) * 10 ^ jn + 10 ^ jp * 2 ^ 1074 * 10 ^ (-l.E).toNat

/-- ★★ `print17_roundtrip`: for EVERY finite non-zero double (sign-less pattern `0 < k < +inf`; all binades, both binade
    edges, every subnormal, DBL_MAX) and EVERY text the scanner accepts whose denoted value satisfies `LibcPrinted17 · k`,
    `janet_scan_number_base` returns exactly `k` with the text's sign: the identical double.
    Proof chain: `close17_of_half_unit` (half a unit in the 17th digit ⇒ relative error ≤ 1/(2·10^16)) → `scan_roundtrip`
    (plumbing against `denote`; a clamped exponent cannot occur) → `convert_roundtrip` (the huge / tiny short-circuits cannot
    fire: the tiny one has 85 bits of slack, `tiny_sound_neg_strong`; both scaling chains; one-digit integers) →
    `finish_roundtrip` (nearest-ness of `bignat_extract` on the reader's own grid, which may be FINER than the double's
    when the text lies just below a power of two — then the reader rounds up to 2^53 and renormalises; the magnitude
    conjunct excludes a coarser grid; for subnormal `k` the second rounding inside `ldexp` sees a value strictly within
    half an ulp of `k`, so double rounding is harmless; overflow impossible).
    Stated about the C-TYPED model (`wrap_free`); the libm `log2` table is certified (`log2_table_within_1ulp`), the clamp
    condition discharged.  What remains outside (hypotheses, stated explicitly): (1) `LibcPrinted17` — libc; (2) that the
    printed text is ACCEPTED by the scanner (`h`) — discharged for every text of the `%.17g` shape `[-]d[.ddd][e±dd]` by
    `printed_text_accepted`; `print17_roundtrip_text` below is the combined statement. -/
theorem print17_roundtrip (str : List Nat) (base0 : Nat) (hb : base0 ≤ 36)
    (bits : Nat) (h : scanNumberBaseW str base0 = some bits) (k : Nat) (hk0 : 0 < k) (hk : k < infBits)
    (hlibc : LibcPrinted17 (denote str base0) k) :
    bits = withSign (denote str base0).neg k := by
  rw [scanNumberBaseW_eq str base0 hb] at h
  obtain ⟨hb10, d, jp, jn, hd, hval, h1, h2⟩ := hlibc
  apply scan_roundtrip str base0 hb (fun b h2 h36 => log2_table_within_1ulp b h2 h36) (Or.inr (by decide)) bits h k hk0 hk
  rw [hb10]
  exact close17_of_half_unit _ _ _ d (10 ^ jp * 2 ^ 1074) (10 ^ jn) hd (Nat.pow_pos (by decide)) hval h1 h2

/-- ★ `printed_text_accepted`: every text of the shape `[-] D (D|.)* [e [+|-] D+]` (body: decimal digits with at most one
    point, starting with a digit) of at most INT32_MAX/40 bytes is accepted by `janet_scan_number` — the shape of libc's
    `%.17g` output for every finite double.  Closes the syntactic side condition of `print17_roundtrip`. -/
theorem printed_text_accepted (neg : Bool) (d0 : Nat) (ds es ed : List Nat) (hasExp : Bool)
    (hd0 : IsDecCh d0) (hds : MantShape false ds)
    (hes : es = [] ∨ es = [43] ∨ es = [45]) (hed : ed ≠ []) (hd : ∀ c ∈ ed, IsDecCh c)
    (hlen : ((if neg then [45] else []) ++ d0 :: ds ++ (if hasExp then 101 :: (es ++ ed) else [])).length ≤ lenLimit) :
    (scanNumber ((if neg then [45] else []) ++ d0 :: ds ++ (if hasExp then 101 :: (es ++ ed) else []))).isSome = true := by
  have h := decimal_text_accepted neg d0 ds es ed hasExp hd0 hds hes hed hd hlen
  unfold scanNumber
  rw [scanNumberBaseW_eq _ 0 (by decide)]
  unfold scanNumberBase
  rw [Option.isSome_map]
  exact h

/-- ★★ `print17_roundtrip_text`: the round trip with acceptance discharged — for every text of the `%.17g` shape whose denoted
    value satisfies the libc hypothesis `LibcPrinted17` for the finite non-zero double `k`, `janet_scan_number` SUCCEEDS and
    returns exactly `k` with the text's sign.  The only hypothesis about the outside world left is `LibcPrinted17`. -/
theorem print17_roundtrip_text (neg : Bool) (d0 : Nat) (ds es ed : List Nat) (hasExp : Bool)
    (hd0 : IsDecCh d0) (hds : MantShape false ds)
    (hes : es = [] ∨ es = [43] ∨ es = [45]) (hed : ed ≠ []) (hd : ∀ c ∈ ed, IsDecCh c)
    (hlen : ((if neg then [45] else []) ++ d0 :: ds ++ (if hasExp then 101 :: (es ++ ed) else [])).length ≤ lenLimit)
    (k : Nat) (hk0 : 0 < k) (hk : k < infBits)
    (hlibc : LibcPrinted17 (denote ((if neg then [45] else []) ++ d0 :: ds ++ (if hasExp then 101 :: (es ++ ed) else [])) 0) k) :
    scanNumber ((if neg then [45] else []) ++ d0 :: ds ++ (if hasExp then 101 :: (es ++ ed) else [])) =
      some (withSign (denote ((if neg then [45] else []) ++ d0 :: ds ++ (if hasExp then 101 :: (es ++ ed) else [])) 0).neg k) := by
  have hacc := printed_text_accepted neg d0 ds es ed hasExp hd0 hds hes hed hd hlen
  generalize (if neg then [45] else []) ++ d0 :: ds ++ (if hasExp then 101 :: (es ++ ed) else []) = str at *
  cases hs : scanNumber str with
  | none => rw [hs] at hacc; simp at hacc
  | some bits =>
    unfold scanNumber at hs
    rw [print17_roundtrip str 0 (by decide) bits hs k hk0 hk hlibc]

/-- non-vacuity: "-4.9406564584124654e-324" has the accepted shape (d0 = '4', body ".9406…", exponent "-324") -/
example : (scanNumber ([45] ++ 52 :: [46, 57, 52, 48, 54, 53, 54, 52, 53, 56, 52, 49, 50, 52, 54, 53, 52] ++ 101 :: ([45] ++ [51, 50, 52]))).isSome = true :=
  printed_text_accepted true 52 [46, 57, 52, 48, 54, 53, 54, 52, 53, 56, 52, 49, 50, 52, 54, 53, 52] [45] [51, 50, 52] true
    (by unfold IsDecCh; decide) (by simp [MantShape, IsDecCh]) (by simp) (by simp) (by simp [IsDecCh]) (by decide)

/-- ★ `convert` reads back: any mantissa the scanner can build, radix 2..36, |ex| < 2^31, value `Close17` to the finite
    non-zero double `k` ⇒ `convert` returns exactly `k` (signed) -/
theorem convert_reads_back (neg : Bool) (mant : BigNat) (base : Nat) (ex : Int) (hi : MantInv mant)
    (hb2 : 2 ≤ base) (hb : base ≤ 36) (hex : ex.natAbs < 2 ^ 31) (hL : Log2Within1Ulp base)
    (k : Nat) (hk0 : 0 < k) (hk : k < infBits)
    (hc : Close17 (mant.val * base ^ ex.toNat * 2 ^ 1074) (base ^ (-ex).toNat) (ulps k)) :
    convert neg mant base ex = withSign neg k :=
  convert_roundtrip neg mant base ex hi hb2 hb hex hL k hk0 hk hc

/-- ★ `bignat_extract`'s (t, e2) + `ldexp` read back (binade edges, subnormals, no overflow) -/
theorem extract_ldexp_reads_back (t : Nat) (e2 : Int) (N D k : Nat) (hD : 0 < D) (hlo : 2 ^ 52 ≤ t) (hhi : t < 2 ^ 53)
    (hN : NearestUpN t N D) (hmag : (2 ^ 54 - 1) * D ≤ 4 * N) (hk0 : 0 < k) (hk : k < infBits)
    (hc : Close17 (N * 2 ^ (e2 + 1074).toNat) (D * 2 ^ (-1074 - e2).toNat) (ulps k)) :
    ldexpBits t e2 = k :=
  finish_roundtrip t e2 N D k hD hlo hhi hN hmag hk0 hk hc

/-- ★ the tiny short-circuit fires only below 2^−1159 (85 bits of slack under the smallest subnormal) -/
theorem tiny_shortcircuit_slack (mant : BigNat) (base a : Nat) (hi : MantInv mant)
    (hnz : ¬ (mant.digits.length = 0 ∧ mant.first = 0)) (hb2 : 2 ≤ base) (hb : base ≤ 36) (ha0 : 0 < a) (ha : a < 2 ^ 31)
    (hL : Log2Within1Ulp base) (happ : exp2Approx mant base (-(a : Int)) < tinyThresh) :
    mant.val * 2 ^ 1159 < base ^ a :=
  tiny_sound_neg_strong mant base a hi hnz hb2 hb ha0 ha hL happ

/-- ★ texts denoting zero ("0", "-0", "0.000e5", …) read as ±0 exactly -/
theorem read_zero_exact (str : List Nat) (base0 : Nat) (hb : base0 ≤ 36)
    (hL : ∀ b, 2 ≤ b → b ≤ 36 → Log2Within1Ulp b) (bits : Nat) (h : scanNumberBase str base0 = some bits)
    (hz : (denote str base0).M = 0) : bits = withSign (denote str base0).neg 0 := by
  obtain ⟨mag, hbits, hadj, _⟩ := scan_number_adjacent str base0 hb hL (Or.inr (by decide)) bits h
  rw [hz] at hadj
  simp only [Nat.zero_mul] at hadj
  rw [hbits, adjacent_zero_value mag _ hadj]

/-- non-vacuity of `print17_roundtrip`: `%.17g` of 0.1 is "0.10000000000000001" (d = 10000000000000001, unit 10^−17); it
    satisfies the libc hypothesis for k = 0x3FB999999999999A and the scanner returns exactly that pattern.  Likewise the
    smallest subnormal "4.9406564584124654e-324" (k = 1) and a value just below a power of two,
    "0.99999999999999989" = 1 − 2^−53 (k = 0x3FEFFFFFFFFFFFFF, reader on the finer grid). -/
example : LibcPrinted17 (denote [48, 46, 49, 48, 48, 48, 48, 48, 48, 48, 48, 48, 48, 48, 48, 48, 48, 48, 49] 0) 0x3FB999999999999A :=
  ⟨by decide +kernel, 10000000000000001, 0, 17, by decide +kernel, by decide +kernel, by decide +kernel, by decide +kernel⟩
example : scanNumberBase [48, 46, 49, 48, 48, 48, 48, 48, 48, 48, 48, 48, 48, 48, 48, 48, 48, 48, 49] 0 = some 0x3FB999999999999A := by
  decide +kernel
example : LibcPrinted17 (denote [52, 46, 57, 52, 48, 54, 53, 54, 52, 53, 56, 52, 49, 50, 52, 54, 53, 52, 101, 45, 51, 50, 52] 0) 1 :=
  ⟨by decide +kernel, 49406564584124654, 0, 340, by decide +kernel, by decide +kernel, by decide +kernel, by decide +kernel⟩
example : scanNumberBase [52, 46, 57, 52, 48, 54, 53, 54, 52, 53, 56, 52, 49, 50, 52, 54, 53, 52, 101, 45, 51, 50, 52] 0 = some 1 := by
  decide +kernel
example : LibcPrinted17 (denote [48, 46, 57, 57, 57, 57, 57, 57, 57, 57, 57, 57, 57, 57, 57, 57, 57, 56, 57] 0) 0x3FEFFFFFFFFFFFFF :=
  ⟨by decide +kernel, 99999999999999989, 0, 17, by decide +kernel, by decide +kernel, by decide +kernel, by decide +kernel⟩
example : scanNumberBase [48, 46, 57, 57, 57, 57, 57, 57, 57, 57, 57, 57, 57, 57, 57, 57, 57, 56, 57] 0 = some 0x3FEFFFFFFFFFFFFF := by
  decide +kernel

/-! ### wrap-freedom of the C intermediates (the C-typed model `ModelW` = the unbounded model) -/

/-- ★★ `wrap_free`: the C-TYPED model of `janet_scan_number_base` (Strtod/ModelW.lean — the one the correspondence
    harness runs against the real code: every `uint64_t carry / dividend / top53`, every `uint32_t` digit, `first_digit`,
    `quotient`, `remainder`, `factor`, `term`, `divisor` and every `(uint32_t)` cast reduced modulo 2^width, the widths
    REGENERATED from the declarations in strtod.c) returns on EVERY byte string and radix parameter ≤ 36 exactly what the
    unbounded model returns.  I.e. along every accepted literal no unsigned intermediate of `bignat_muladd`, `bignat_div`,
    `bignat_extract` ever reaches 2^64 resp. 2^32 — exactness is never lost to wrap-around — and every theorem of this
    file about `scanNumberBase` is a theorem about `scanNumberBaseW`. -/
theorem wrap_free (str : List Nat) (base0 : Nat) (hb : base0 ≤ 36) :
    scanNumberBaseW str base0 = scanNumberBase str base0 :=
  scanNumberBaseW_eq str base0 hb

/-- ★ `bignat_muladd`: digits < 2^31, factor ≤ 2^31 (≥ 36^4), term < factor ⇒ `carry + (uint64_t) digit * factor` stays
    below 2^62 + 2^31, stored digits below 2^31, appended carry below 2^31 -/
theorem bignat_muladd_wrap_free (x : BigNat) (f term : Nat) (hf : f ≤ bigBase) (ht : term < f) (hi : MantInv x) :
    bignat_muladdW x f term = bignat_muladd x f term :=
  bignat_muladdW_eq x f term hf ht hi

/-- ★ `bignat_div`: remainder < divisor ≤ 2^31 ⇒ `(uint64_t) remainder * BASE + digit` < 2^62 and the `(uint32_t)`
    casts of quotient and remainder lose nothing (both < 2^31) -/
theorem bignat_div_wrap_free (x : BigNat) (dv : Nat) (hdv : 0 < dv) (hle : dv ≤ bigBase) (hf : x.first < bigBase)
    (hl : AllLt x.digits) : bignat_divW x dv = bignat_div x dv :=
  bignat_divW_eq x dv hdv hle hf hl

/-- ★ `bignat_extract`: with 31-bit digits `top53` stays below 2^55 through the shifts, the OR and the rounding `++` -/
theorem bignat_extract_wrap_free (x : BigNat) (e2 : Int) (hf : x.first < bigBase) (hl : AllLt x.digits) :
    extractPartsW x e2 = extractParts x e2 :=
  extractPartsW_eq x e2 ⟨hf, hl⟩

/-- ★ `convert` on everything the scanner hands over (both scaling chains keep the invariants) -/
theorem convert_wrap_free (neg : Bool) (mant : BigNat) (base : Nat) (ex : Int) (hb1 : 1 ≤ base) (hb : base ≤ 36)
    (hi : MantInv mant) : convertW neg mant base ex = convert neg mant base ex :=
  convertW_eq neg mant base ex hb1 hb hi

/-- ★★ `convert_int32_in_range` (full; was `_partial`): every signed `int32_t` product in `convert` and in what it calls
    stays below 2^31 for EVERY accepted literal (`parseNumber str base0 = some p`, radix parameter ≤ 36):
      * `mant->n * BIGNAT_NBIT + 16` (needs the length limit n ≤ len ≤ INT32_MAX/40) and the radix powers
        `base*base*base*base`, `base*base`;
      * on the negative-exponent branch (`exponent = -a`, a > 0), whenever `convert` gets there — neither the zero
        short-circuit nor the tiny short-circuit `exp2_approx < -1175` returned first —
        `shamt * BIGNAT_NBIT` (`exponent2 -= …`, shamt = 5 + a/4), `2 * newn` in `bignat_extra` (reached through
        `bignat_lshift_n(mant, shamt)`, newn = mant->n + shamt) and `BIGNAT_NBIT * n` in `bignat_extract` on the scaled
        mantissa.
    The exponent alone does NOT bound them (see the example below: "1e-2000000000" hands over a = 536870911, for which
    shamt·31 ≥ 2^31); what does is the tiny short-circuit: when it does not fire, 2^52·a < (31·n + 1193)·2^(−le) with
    (lm, le) the libm `log2(base)` entry (`not_tiny_exp_bound`), and the scanned mantissa is below B^len, B ≤ 2^c the radix
    the digits were read in, so 31·n < c·len (`parseNumber_mant_bound`, `digits_lt_of_val_lt`; c = 4 for the hex-float form
    where `convert` runs in radix 2).  Hence a ≤ 4·len + 1192 and 31·n < 6·len (`convert_neg_branch_bounds`), and
    len ≤ 53687091 closes all three.  The clamp constants enter through `clamp_safe` (|exponent| < 2^31). -/
theorem convert_int32_in_range (str : List Nat) (base0 : Nat) (hb : base0 ≤ 36) (p : Parsed)
    (h : parseNumber str base0 = some p) :
    (p.mant.digits.length * approxPerDigit + approxBias < 2 ^ 31 ∧ p.base * p.base * p.base * p.base < 2 ^ 31 ∧
      p.base * p.base < 2 ^ 31) ∧
    ∀ a : Nat, p.ex = -(a : Int) → 0 < a → ¬ (p.mant.digits.length = 0 ∧ p.mant.first = 0) →
      ¬ (exp2Approx p.mant p.base p.ex < tinyThresh) →
      (shamtBase + a / shamtDiv) * nbit < 2 ^ 31 ∧
      capFactor * (p.mant.digits.length + (shamtBase + a / shamtDiv)) < 2 ^ 31 ∧
      nbit * (scale p.mant p.base p.ex).1.digits.length < 2 ^ 31 := by
  have hsat : SatOK := by
    rcases clamp_safe str.length with ⟨h0, _⟩ | ⟨h1, _, h3⟩
    · exact Or.inl h0
    · exact Or.inr ⟨h1, h3⟩
  exact convert_int32_in_range_full str base0 hb hsat p h

/-- the bounds behind it, for every accepted literal that reaches the negative branch -/
theorem convert_neg_branch_exponent_bound (str : List Nat) (base0 : Nat) (hb : base0 ≤ 36) (p : Parsed)
    (h : parseNumber str base0 = some p) (a : Nat) (hex : p.ex = -(a : Int)) (ha0 : 0 < a)
    (hnz : ¬ (p.mant.digits.length = 0 ∧ p.mant.first = 0))
    (hnt : ¬ (exp2Approx p.mant p.base p.ex < tinyThresh)) :
    a ≤ 4 * str.length + 1192 ∧ p.mant.digits.length * 31 < 6 * str.length := by
  have hsat : SatOK := by
    rcases clamp_safe str.length with ⟨h0, _⟩ | ⟨h1, _, h3⟩
    · exact Or.inl h0
    · exact Or.inr ⟨h1, h3⟩
  exact convert_neg_branch_bounds str base0 hb hsat p h a hex ha0 hnz hnt

/-- non-vacuity: "-1.25e-7" reaches the negative branch (a = 9, mantissa 125, tiny short-circuit not taken) … -/
example : (parseNumber [45, 49, 46, 50, 53, 101, 45, 55] 0).map (fun p => (p.mant.val, p.base, p.ex)) = some (125, 10, -9) ∧
    ¬ (exp2Approx ⟨125, []⟩ 10 (-9) < tinyThresh) := by decide +kernel
/-- … and the short-circuit hypothesis is NECESSARY: "1e-2000000000" is accepted and hands `convert` the clamped exponent
    −536870911, for which `shamt * BIGNAT_NBIT` would be 4160749561 ≥ 2^31 — the tiny short-circuit returns before it. -/
example : (parseNumber [49, 101, 45, 50, 48, 48, 48, 48, 48, 48, 48, 48, 48] 0).map (fun p => (p.mant.val, p.base, p.ex))
      = some (1, 10, -536870911) ∧
    2 ^ 31 ≤ (shamtBase + 536870911 / shamtDiv) * nbit ∧ exp2Approx ⟨1, []⟩ 10 (-536870911) < tinyThresh := by
  decide +kernel

/-- non-vacuity: the C-typed model does reduce (a 64-bit carry WOULD wrap for a 33-bit factor), and on a real literal
    it runs through the same digits as the unbounded one -/
example : bignat_muladdW ⟨2147483647, [2147483647]⟩ 8589934591 0 ≠ bignat_muladd ⟨2147483647, [2147483647]⟩ 8589934591 0 := by
  decide +kernel
example : scanNumberBaseW [49, 54, 114, 49, 102, 46, 56, 38, 45, 51] 0 = scanNumberBase [49, 54, 114, 49, 102, 46, 56, 38, 45, 51] 0 :=
  wrap_free _ _ (by decide)

/-! ### non-vacuity -/

/-- the hypotheses are satisfiable by non-trivial literals: "16r1f.8&-3", "-1.25e-7", "9223372036854775808" -/
example : (parseNumber [49, 54, 114, 49, 102, 46, 56, 38, 45, 51] 0).isSome = true := by decide +kernel
example : (parseNumber [45, 49, 46, 50, 53, 101, 45, 55] 0).map (fun p => (p.mant.val, p.base, p.ex)) = some (125, 10, -9) := by decide +kernel
example : scanInt64 [45, 57, 50, 50, 51, 51, 55, 50, 48, 51, 54, 56, 53, 52, 55, 55, 53, 56, 48, 56] = some (-9223372036854775808) := by decide +kernel
example : scanInt64 [57, 50, 50, 51, 51, 55, 50, 48, 51, 54, 56, 53, 52, 55, 55, 53, 56, 48, 56] = none := by decide +kernel
example : scanUint64 [49, 56, 52, 52, 54, 55, 52, 52, 48, 55, 51, 55, 48, 57, 53, 53, 49, 54, 49, 54] = none := by decide +kernel

end JanetModel.Props.C13
