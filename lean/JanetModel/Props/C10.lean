/- Property C10: loading untrusted bytes or bytecode cannot corrupt memory.  Theorems only. -/
import JanetModel.Bytecode.VerifySound
import JanetModel.Gen.VmAccess
import JanetModel.Unmarsh.ImageWf
import JanetModel.PegVerify.Sound
import JanetModel.Unmarsh.BytesSound
import JanetModel.Unmarsh.BytesMono
import JanetModel.Unmarsh.BytesWf
import JanetModel.Unmarsh.NanBoxSound
import JanetModel.Unmarsh.EnvValidSound
namespace JanetModel.Props.C10
open JanetModel.Bytecode JanetModel.Gen.VmAccess

/-- REGENERATED OBLIGATION.  The opcode-type table of bytecode.c, the operand uses of every `VM_OP` block of vm.c, the
    computed-goto table and the masks of the current source are mutually consistent.  A changed `JINT_*` row, a handler
    that reads a wider / different field, a missing `vm_assert` bound check or a changed mask makes this fail
    (`Tables.badRows tables` names the opcode). -/
theorem tables_consistent : tables.consistent = true := by decide +kernel

theorem no_bad_rows : tables.badRows = [] := by decide +kernel

/-- **verify_sound** for the tables of the current source -/
theorem verify_sound (d : FuncDef) (hw : ∀ w ∈ d.bytecode, w < 4294967296) (hv : verify tables d = 0)
    (pc : Nat) (hpc : pc < d.bytecode.length) :
    ∀ idx, (idx = d.bytecode[pc] % tables.dispatchMod ∨ idx = d.bytecode[pc] % tables.breakMod) →
      ∃ h, tables.lookup[idx]? = some h ∧ HandlerSafe tables d pc d.bytecode[pc] h :=
  verify_sound_generic tables tables_consistent d hw hv pc hpc

/-- the entry point of an accepted funcdef exists (`pc = func->def->bytecode` on call) -/
theorem verify_entry (d : FuncDef) (hv : verify tables d = 0) : 0 < d.bytecode.length :=
  (verify_facts tables d hv).1

/-- non-vacuity: a two-instruction function `ldi 0 7; ret 0` with one slot is accepted, and a wide slot operand is not -/
example : verify tables { slotcount := 1, arity := 0, vararg := false, nconsts := 0, ndefs := 0, nenvs := 0,
                          bytecode := [43 + 0 * 256 + 7 * 65536, 3 + 0 * 256] } = 0 := by decide
example : verify tables { slotcount := 1, arity := 0, vararg := false, nconsts := 0, ndefs := 0, nenvs := 0,
                          bytecode := [43 + 255 * 256 + 7 * 65536, 3 + 0 * 256] } = 4 := by decide

/-! ### image well-formedness

The full-strength statements (`fiber_image_wf`, `function_image_wf`, `env_untrusted_checked` over the checks of the CURRENT
source) live in `JanetModel.Unmarsh.Obligations`, which checks/C10.py builds on every run; they hold exactly when
`Gen.ImageChecks.checks.allOn = true`.  On the pinned tree six of the checks are absent, hence here: the generic theorems
(any `Checks` with everything present), the `_partial` statement for the baseline, and the three witnesses. -/
open JanetModel.Unmarsh

theorem fiber_image_wf_of_all_checks (C : Checks) (hC : C.allOn = true) (h : FiberHdr) (frames : List FrameRec)
    (hacc : acceptFiber C h frames = true) : FiberWf h frames := fiber_image_wf_generic C hC h frames hacc

/-- missing from the baseline: `FiberWf.chain` (entrance / call-pc conjuncts), `FiberWf.resumableHasFrame`,
    `FiberWf.resumePoint` -/
theorem fiber_image_wf_partial (h : FiberHdr) (frames : List FrameRec)
    (hacc : acceptFiber Checks.baseline h frames = true) : FiberWfPartial h frames :=
  JanetModel.Unmarsh.fiber_image_wf_partial Checks.baseline rfl rfl h frames hacc

theorem function_image_wf_of_all_checks (C : Checks) (hC : C.allOn = true) (len defEnvLen : Nat) (envs : List Int)
    (hacc : acceptFunction C len defEnvLen envs = true) : len = defEnvLen ∧ ∀ e ∈ envs, -1 ≤ e :=
  function_image_wf_generic C hC len defEnvLen envs hacc

/-- missing from the baseline: both conjuncts (nothing is checked) -/
theorem function_image_wf_partial (len defEnvLen : Nat) (envs : List Int) :
    acceptFunction Checks.baseline len defEnvLen envs = true := by
  simp [acceptFunction, Checks.baseline]

theorem env_untrusted_checked_of_all_checks (C : Checks) (hC : C.allOn = true) (offset : Nat) (hpos : 0 < offset) :
    envOffsetStored C offset < 0 ∧ validatedFirst C (envOffsetStored C offset) = true ∧
    derefsUnvalidated C (envOffsetStored C offset) = false := env_untrusted_checked_generic C hC offset hpos

/-- the baseline accepts images that break the invariant: replayed on the implementation by checks/C10.py -/
theorem witness_fiber_frame0 : acceptFiber Checks.baseline witnessFrame0 [] = true ∧ ¬ FiberWf witnessFrame0 [] :=
  fiber_frame0_witness
theorem witness_function_env_count : acceptFunction Checks.baseline 0 1 [-1] = true ∧ ¬ (0 = 1) :=
  function_env_count_witness
theorem witness_def_env_index :
    acceptFunction Checks.baseline 0 0 [-256] = true ∧ ¬ (∀ e ∈ [(-256 : Int)], -1 ≤ e) := def_env_index_witness

/-- non-vacuity: a one-frame pending fiber suspended at a `signal` instruction is accepted with every check present -/
example : acceptFiber { stackSetup := true, frameSize := true, pcRange := true, prevAlign := true, statusRange := true,
                        frame0 := true, entrance := true, callPc := true, resumeOperand := true, fnEnvCount := true,
                        defEnvIndex := true, envNegOffset := true, envValidBeforeDeref := true }
    { status := 3, noUseval := false, noSkip := false, frame := 4, stackstart := 10, stacktop := 10, maxstack := 100 }
    [{ entrance := true, prevframe := 0, pcdiff := 1, slotcount := 2, bclen := 4, atCall := false, aIsSlot := true }] = true := by
  decide

/-! ### PEG bytecode verifier

`peg_verify_sound` over the tables of the CURRENT peg.c is `JanetModel.PegVerify.Obligations.peg_verify_sound` (built by the
check on every run; on the pinned tree it does not hold: an image with zero-length bytecode is accepted and `peg/match`
reads `bytecode[0]`). -/
open JanetModel.PegVerify in
theorem peg_verify_sound_of_consistent (T : PegTables) (hT : T.consistent = true) (bc : List Nat) (nc : Nat)
    (hv : pegVerify T bc nc = true) :
    ∃ starts : List Nat, ∀ i, Reach T bc i → i ∈ starts ∧ i < bc.length ∧ InstrSafe T bc nc starts i :=
  reach_safe T hT bc nc hv

/-! ### byte-level totality of unmarshal

`unmarshal_total_inbounds` / `unmarshal_terminates` over the read sites of the CURRENT marsh.c are
`JanetModel.Unmarsh.BytesObligations.{sites_ok, unmarshal_total_inbounds, unmarshal_terminates}` (built by the check on every
run).  Here: the generic theorems, for ANY configuration whose extracted `MARSH_EOS` offsets dominate the reads, any
`janet_verify` / PEG verifier, any abstract type table. -/
open JanetModel.Unmarsh.Bytes in
theorem unmarshal_total_inbounds_of_sites_ok (C : Cfg) (hS : C.sites.ok = true) (hR : C.refsChecked = true) (b : Array Nat)
    (fuel : Nat) :
    match unmarshal C b fuel with
    | .oob _ => False
    | .ok _ c => 0 < c.pos ∧ c.pos ≤ b.size
    | _ => True := unmarshal_total_inbounds_generic C hS hR b fuel

open JanetModel.Unmarsh.Bytes in
/-- `hI`: every call path from one `MARSH_STACKCHECK` to the next adds ≥ 1 to the depth counter (the `flags + k` arguments of
    the 28 recursive call sites are REGENERATED from marsh.c into `C.inc`; obligation `BytesObligations.depths_ok`) -/
theorem unmarshal_terminates_of_sites_ok (C : Cfg) (hS : C.sites.ok = true) (hR : C.refsChecked = true) (hI : C.inc.ok = true)
    (b : Array Nat) (fuel : Nat)
    (hf : fuelBound C ≤ fuel) : ∀ a, unmarshal C b fuel ≠ .fuel ∧ unmarshal C b fuel ≠ .oob a :=
  unmarshal_terminates_generic C hS hR hI b fuel hf

open JanetModel.Unmarsh.Bytes in
/-- the recursion depth is bounded, stated without the fuel: any amount of fuel ≥ `fuelBound C` (= 2·(guard+2)+2 nested
    activations of `unmarshal_one` / `unmarshal_one_def` / `unmarshal_one_env`) gives the same answer as `fuelBound C` — on no
    byte string does the unmarshaller nest deeper -/
theorem unmarshal_depth_bounded_of_sites_ok (C : Cfg) (hS : C.sites.ok = true) (hR : C.refsChecked = true) (hI : C.inc.ok = true)
    (b : Array Nat) (fuel : Nat) (hf : fuelBound C ≤ fuel) : unmarshal C b fuel = unmarshal C b (fuelBound C) :=
  unmarshal_depth_bounded_generic C hS hR hI b fuel hf

namespace BytesExamples
open JanetModel.Unmarsh.Bytes

def goodSites : Sites :=
  { intLead := ⟨some 0, 0⟩, int2 := ⟨some 1, 1⟩, int5 := ⟨some 4, 4⟩, r64Lead := ⟨some 0, 0⟩, r64Multi := ⟨some 0, 0⟩,
    envLead := ⟨some 0, 0⟩, u32 := ⟨some 3, 3⟩, defLead := ⟨some 0, 0⟩, oneLead := ⟨some 0, 0⟩, oneInt := ⟨some 4, 4⟩,
    oneReal := ⟨some 8, 8⟩, oneBytes := ⟨some (-1), -1⟩, oneDos := ⟨some (-1), -1⟩, unsafePtr := ⟨some 8, -1⟩,
    ptrBuf := ⟨some 8, -1⟩, unsafeCfun := ⟨some 8, -1⟩, thrAbs := ⟨some 8, -1⟩, ubyte := ⟨some 0, 0⟩,
    ubytes := ⟨some (-1), -1⟩, ensure := ⟨some 0, -1⟩ }

/-- the increments of the current marsh.c: `unmarshal_one_env` passes `flags` on, its two callers pass `flags + 1` -/
def goodIncs : Incs :=
  { envFiber := 0, envValue := 0, defName := 1, defSource := 1, defConst := 1, defSym := 1, defSub := 1, fbFrameFn := 1,
    fbFrameEnv := 1, fbSlot := 1, fbEnv := 1, fbChild := 1, fbLast := 1, hookJanet := 1, absKey := 1, oneFiber := 1,
    oneDef := 1, oneEnv := 1, oneAbstract := 0, arrElem := 1, tupElem := 1, structProto := 1, structKey := 1, structVal := 1,
    tabProto := 1, tabKey := 1, tabVal := 1, absCtx := 1 }

def mk (S : Sites) : Cfg :=
  { sites := S, inc := goodIncs, verify := fun _ => true, pegVerify := fun _ _ => true, pegSizeChecked := true, abstracts := [], jopCall := 53, threads := false,
    refChecked := true, envRefChecked := true, defRefChecked := true }

/-- non-vacuity: the hypothesis is satisfiable, and the model accepts / rejects / consumes as the C does on small images -/
example : (mk goodSites).sites.ok = true ∧ (mk goodSites).refsChecked = true ∧ (mk goodSites).inc.ok = true := by decide
/-- a source without the `len >= janet_v_count(st->lookup)` test: the model reads past the reference table on `da 00` -/
example : (match unmarshal { mk goodSites with refChecked := false } #[218, 0] 20 with | .oob 100 => true | _ => false) = true := by decide
example : (match unmarshal (mk goodSites) #[209, 3, 1, 129, 0, 201] 20 with | .ok .arr c => c.pos == 6 | _ => false) = true := by decide
example : (match unmarshal (mk goodSites) #[209, 3, 1, 129] 20 with | .err .eos => true | _ => false) = true := by decide
example : (match unmarshal (mk goodSites) #[206, 2, 104, 105, 7] 20 with | .ok .str c => c.pos == 4 | _ => false) = true := by decide

/-- non-vacuity of `unmarshal_depth_bounded_of_sites_ok`: the hypotheses hold of a concrete configuration -/
example : unmarshal (mk goodSites) #[209, 3, 1, 129, 0, 201] 100000 =
    unmarshal (mk goodSites) #[209, 3, 1, 129, 0, 201] (fuelBound (mk goodSites)) :=
  unmarshal_depth_bounded_of_sites_ok _ (by decide) (by decide) (by decide) _ _ (by decide)

/-- `readint` without `MARSH_EOS(st, data + 1)` in its two-byte branch -/
def noInt2 : Sites := { goodSites with int2 := ⟨none, 1⟩ }

/-- a source in which both callers of `unmarshal_one_env` pass `flags` instead of `flags + 1`: the cycle
    function → environment → value → function no longer counts -/
def uncountedIncs : Incs := { goodIncs with oneEnv := 0, fbFrameEnv := 0 }
def mkInc (I : Incs) : Cfg :=
  { sites := goodSites, inc := I, verify := fun r => decide (0 < r.bytecode.length), pegVerify := fun _ _ => true, pegSizeChecked := true,
    abstracts := [], guardDepth := 3, jopCall := 53, threads := false, refChecked := true, envRefChecked := true, defRefChecked := true }
def envUncounted : Cfg := mkInc uncountedIncs

/-- `n` nested functions, each with one off-stack environment of one value = the next function (the first carries the
    funcdef `flags=HASENVS slots=1 arity=0 min=0 max=0 consts=0 bclen=1 nenvs=1 | word | env -1`, the others refer to it) -/
def nestedFns : Nat → List Nat
  | 0 => [201]
  | n + 1 => [215, 1, 220, 0, 0, 1] ++ nestedFns n
def nestedImage (n : Nat) : Array Nat :=
  ([215, 1, 205, 0, 64, 0, 0, 1, 0, 0, 0, 0, 1, 1, 4, 0, 0, 0, 191, 255, 0, 1] ++ nestedFns n).toArray
end BytesExamples

/-- a source that lacks one test: the obligation `Sites.ok` is false and the model itself exhibits the over-read input
    (`0x81` = first byte of a two-byte integer, input ends there); checks/C10.py finds such inputs by running the model
    with the extracted sites on every truncation of the base images and replays them under ASan -/
theorem witness_missing_check_over_reads :
    (BytesExamples.mk BytesExamples.noInt2).sites.ok = false ∧
    (match JanetModel.Unmarsh.Bytes.unmarshal (BytesExamples.mk BytesExamples.noInt2) #[129] 20 with
      | .oob 1 => true | _ => false) = true := by decide

/-- a source whose two `unmarshal_one_env` call sites pass `flags` on: `Incs.ok` is false (`Incs.bad` names the paths), and
    the model — here with a recursion guard of 3 and `fuelBound` = 12 levels — runs out of fuel on an image nested 12
    functions deep, where the model with the increments of the current source stops with "stack overflow" at depth 4.
    checks/C10.py feeds the same image shape (nested 10^5 deep) to the real unmarshaller. -/
theorem witness_uncounted_env_recursion :
    BytesExamples.envUncounted.inc.ok = false ∧
    (match JanetModel.Unmarsh.Bytes.unmarshal BytesExamples.envUncounted (BytesExamples.nestedImage 12)
        (JanetModel.Unmarsh.Bytes.fuelBound BytesExamples.envUncounted) with | .fuel => true | _ => false) = true ∧
    (match JanetModel.Unmarsh.Bytes.unmarshal (BytesExamples.mkInc BytesExamples.goodIncs) (BytesExamples.nestedImage 12)
        (JanetModel.Unmarsh.Bytes.fuelBound BytesExamples.envUncounted) with | .err .stack => true | _ => false) = true ∧
    (match JanetModel.Unmarsh.Bytes.unmarshal (BytesExamples.mkInc BytesExamples.goodIncs) (BytesExamples.nestedImage 2)
        (JanetModel.Unmarsh.Bytes.fuelBound BytesExamples.envUncounted) with | .ok (.func _) c => c.pos == 35 | _ => false) = true := by decide +kernel

/-! ### accepted bytes ⇒ well-formed function objects (link byte-level model → `function_image_wf`)

`hF`, `hE`: the tests `def->environments_length != len` (LB_FUNCTION) and `environments[i] < -1` (`unmarshal_one_def`) are
present — REGENERATED through `Gen/ImageChecks` into `BytesCfg.cfg` (obligation `BytesObligations.fn_checks_on`). -/
open JanetModel.Unmarsh.Bytes in
/-- for EVERY byte array and fuel: after an accepted `unmarshal`, every function object whose `def` is set points to a
    completed funcdef, was allocated with exactly `def->environments_length` environment slots (`fnEnvs`), and
    `def->environments` has that many entries, each ≥ -1: (`len`, `environments_length`, `environments`) pass
    `acceptFunction K` of Unmarsh/Image.lean for every `K`, so `function_image_wf_of_all_checks` applies to it -/
theorem unmarshal_functions_wf_of_checks (C : Cfg) (hF : C.fnEnvCountChecked = true) (hE : C.defEnvIndexChecked = true)
    (b : Array Nat) (fuel : Nat) :
    match unmarshal C b fuel with
    | .ok _ c => ∀ (id di : Nat), c.st.funcs[id]? = some (some di) →
        ∃ info len, c.st.defs[di]? = some info ∧ info.done = true ∧ c.st.fnEnvs[id]? = some len ∧
          info.envs.length = info.envLen ∧
          (∀ K : JanetModel.Unmarsh.Checks, JanetModel.Unmarsh.acceptFunction K len info.envLen info.envs = true) ∧
          len = info.envLen ∧ ∀ e ∈ info.envs, -1 ≤ e
    | _ => True := unmarshal_functions_wf_generic C hF hE b fuel

open JanetModel.Unmarsh.Bytes in
/-- the FUNCTION case itself, at any nesting level (`f` levels of fuel below, depth counter `d`), from any state that
    satisfies the invariant `Inv` (`fns_pres`: every state the model reaches does): when `case LB_FUNCTION` accepts, the
    value IS a function object with its `def` set, and that object is well formed -/
theorem function_case_wf_of_checks (C : Cfg) (hF : C.fnEnvCountChecked = true) (hE : C.defEnvIndexChecked = true)
    (b : Array Nat) (f d : Nat) (c : Cur) (hI : Inv c.st) :
    match functionBody C b (fns C b f) d c with
    | .ok v c' => ∃ id di info len, v = .func id ∧ c'.st.funcs[id]? = some (some di) ∧ c'.st.defs[di]? = some info ∧
        info.done = true ∧ c'.st.fnEnvs[id]? = some len ∧ info.envs.length = info.envLen ∧
        (∀ K : JanetModel.Unmarsh.Checks, JanetModel.Unmarsh.acceptFunction K len info.envLen info.envs = true) ∧
        len = info.envLen ∧ ∀ e ∈ info.envs, -1 ≤ e
    | _ => True := function_case_wf_generic C hF hE b f d c hI

/-- non-vacuity: the hypotheses hold of a concrete configuration, and it accepts an image of three nested functions
    (one environment slot each, `environments = [-1]`) -/
example : (BytesExamples.mkInc BytesExamples.goodIncs).fnEnvCountChecked = true ∧
    (BytesExamples.mkInc BytesExamples.goodIncs).defEnvIndexChecked = true ∧
    (match JanetModel.Unmarsh.Bytes.unmarshal (BytesExamples.mkInc BytesExamples.goodIncs) (BytesExamples.nestedImage 2) 12 with
      | .ok (.func 0) c => c.st.funcs == #[some 0, some 0, some 0] && c.st.fnEnvs == #[1, 1, 1] &&
          (c.st.defs.toList.map fun i => (i.done, i.envLen, i.envs)) == [(true, 1, [-1])]
      | _ => false) = true := by decide +kernel

/-- the count test is needed: a source without `def->environments_length != len` accepts `d7 01 <def without environments>
    <one environment>` — a function allocated with 1 environment slot whose def says 0 (DESIGN §4 item 10 at the byte level);
    with the test the same bytes are rejected -/
theorem witness_env_count_unchecked_bytes :
    (match JanetModel.Unmarsh.Bytes.unmarshal { BytesExamples.mkInc BytesExamples.goodIncs with fnEnvCountChecked := false }
        #[215, 1, 0, 0, 0, 0, 0, 0, 1, 0, 0, 0, 0, 0, 1, 201] 12 with
      | .ok (.func 0) c => c.st.funcs == #[some 0] && c.st.fnEnvs == #[1] && (c.st.defs.toList.map fun i => i.envLen) == [0]
      | _ => false) = true ∧
    (match JanetModel.Unmarsh.Bytes.unmarshal (BytesExamples.mkInc BytesExamples.goodIncs)
        #[215, 1, 0, 0, 0, 0, 0, 0, 1, 0, 0, 0, 0, 0, 1, 201] 12 with
      | .err .fnEnvCount => true | _ => false) = true := by decide +kernel

/-! ### reals are re-boxed: a NaN payload cannot forge a pointer

`real_is_number` / `real_never_a_pointer` over the constants of the CURRENT janet.h / wrap.c / marsh.c are
`JanetModel.Unmarsh.NanBoxObligations.{nanbox_ok, real_is_number, real_never_a_pointer}` (built by the check on every run).
Here: for ANY configuration with the 47-bit tag layout in which `case LB_REAL` re-boxes through `isnan(d) ? NAN : d` with a
NAN whose type field is JANET_NUMBER, and for EVERY 64-bit payload. -/
open JanetModel.Unmarsh.NanBox in
theorem real_is_number_of_ok (N : NB) (hN : N.ok = true) (w : Nat) : janetType N (unmarshalReal N w) = N.numberTag :=
  real_is_number N hN w

open JanetModel.Unmarsh.NanBox in
theorem real_never_a_pointer_of_ok (N : NB) (hN : N.ok = true) (w t : Nat) (ht : t < 16) (hne : t ≠ N.numberTag) :
    checktype N (unmarshalReal N w) t = false := real_never_a_pointer N hN w t ht hne

namespace NanExamples
open JanetModel.Unmarsh.NanBox
def good : NB := { tagShift := 47, typeMod := 16, lowtagOr := 131056, numberTag := 0, nanBits := 9221120237041090560, safe := true }
/-- non-vacuity; 1.5 stays 1.5; a signalling NaN carrying a "string" tag and the payload 0x41414141 becomes the plain NAN -/
example : good.ok = true := by decide
example : unmarshalReal good 4609434218613702656 = 4609434218613702656 := by decide
example : unmarshalReal good 18445055224944083265 = 9221120237041090560 := by decide
end NanExamples

/-- `case LB_REAL` wrapping with plain `janet_wrap_number` (no re-boxing): the payload `0xFFFA000041414141` IS a string whose
    pointer is `0x41414141` — `NB.ok` is false and the forged value passes `janet_checktype(x, JANET_STRING)` -/
theorem witness_unsafe_real_forges_pointer :
    ({ NanExamples.good with safe := false } : JanetModel.Unmarsh.NanBox.NB).ok = false ∧
    JanetModel.Unmarsh.NanBox.janetType { NanExamples.good with safe := false }
      (JanetModel.Unmarsh.NanBox.unmarshalReal { NanExamples.good with safe := false } 18445055224944083265) = 4 ∧
    JanetModel.Unmarsh.NanBox.checktype { NanExamples.good with safe := false }
      (JanetModel.Unmarsh.NanBox.unmarshalReal { NanExamples.good with safe := false } 18445055224944083265) 4 = true ∧
    JanetModel.Unmarsh.NanBox.toPointer NanExamples.good 18445055224944083265 = 1094795585 := by decide

/-! ### run-time validation of untrusted on-stack environments (`janet_env_valid`, fiber.c)

`env_valid_sound` over the tests of the CURRENT fiber.c is `JanetModel.Unmarsh.EnvValidObligations.env_valid_sound`.  Here: for ANY
source whose `janet_env_valid` makes all four tests and resets the environment on failure, ANY fiber whose image passed
validation (`FiberWf`), ANY claimed offset and length. -/
open JanetModel.Unmarsh JanetModel.Unmarsh.EnvValid in
theorem env_valid_sound_of_shape (S : Shape) (hS : S.allOn = true) (h : FiberHdr) (frames : List EFrame)
    (hwf : FiberWf h (frames.map (·.hdr))) (offset : Int) (hneg : offset < 0) (len : Nat) :
    ((envValid S offset len frames h.frame).1 = true →
        0 < (envValid S offset len frames h.frame).2.1 ∧ (envValid S offset len frames h.frame).2.2 = len ∧
        ∀ vindex : Nat, vindex < len →
          (envValid S offset len frames h.frame).2.1 + vindex < (h.stackstart : Int) - frameSizeWords ∧
          (envValid S offset len frames h.frame).2.1 + vindex < (h.stacktop : Int) + 10) ∧
    ((envValid S offset len frames h.frame).1 = false →
        (envValid S offset len frames h.frame).2.1 = 0 ∧ (envValid S offset len frames h.frame).2.2 = 0) :=
  env_valid_sound S hS h frames hwf offset hneg len

namespace EnvExamples
open JanetModel.Unmarsh JanetModel.Unmarsh.EnvValid
def allS : Shape := { onlyNegative := true, startsAtFrame := true, offsetEq := true, envPtrEq := true, funcNonNull := true,
                      slotcountEq := true, resetsOnFailure := true }
/-- one entrance frame at index 4 with 2 slots, pointing back at the environment -/
def fr : EFrame := { hdr := { entrance := true, prevframe := 0, pcdiff := 0, slotcount := 2, bclen := 2, atCall := true, aIsSlot := true },
                     envIsThis := true, hasFunc := true }
/-- non-vacuity: the claimed (offset 4, length 2) is accepted, (offset 4, length 2^24) and (offset 5, length 2) are not -/
example : envValid allS (-4) 2 [fr] 4 = (true, 4, 2) := by decide
example : envValid allS (-4) 16777216 [fr] 4 = (false, 0, 0) := by decide
example : envValid allS (-5) 2 [fr] 4 = (false, 0, 0) := by decide
end EnvExamples

/-- a `janet_env_valid` without the slot-count test: an environment claiming 2^24 values over a 2-slot frame is accepted,
    `data[4 + vindex]` then reaches far beyond the fiber's stack -/
theorem witness_env_valid_without_slotcount :
    ({ EnvExamples.allS with slotcountEq := false } : JanetModel.Unmarsh.EnvValid.Shape).allOn = false ∧
    JanetModel.Unmarsh.EnvValid.envValid { EnvExamples.allS with slotcountEq := false } (-4) 16777216 [EnvExamples.fr] 4 = (true, 4, 16777216) := by
  decide

end JanetModel.Props.C10
