/- C11 property theorems (parser output depends only on the bytes; data prints and parses back).
   Models: JanetModel.Parse.Model (parse.c), JanetModel.PP.Jdn (pp.c %j); tables from Gen/Parse.lean (regenerated). -/
import JanetModel.Parse.Model
import JanetModel.Parse.Lemmas
import JanetModel.PP.Jdn
import JanetModel.Parse.Escape
import JanetModel.Parse.Pos
import JanetModel.Parse.Pure
import JanetModel.Parse.Roundtrip
import JanetModel.Parse.ReadAll
import JanetModel.Parse.Insert
import JanetModel.Parse.Latch
import JanetModel.Parse.InsertPure
import JanetModel.Parse.CapLemmas
import JanetModel.Parse.EofClean
import JanetModel.Parse.PhysRun
import JanetModel.Parse.PhysInsert
import JanetModel.Parse.ErrOwn
import JanetModel.Parse.StrIdxLemmas

namespace JanetModel.Props.C11
open JanetModel.Parse JanetModel.PP JanetModel.Gen.Parse

/-! ## termination of the inner loop of `janet_parser_consume` -/

/-- ★ The `while (!consumed && !parser->error)` loop terminates from EVERY parser state (well-formed or not) on every
    byte: the fuel `2 * statecount + 3` the model gives it is never exhausted.  Each non-consuming step pops a frame
    (tokenchar, longstring end), replaces the top frame (atsign -> tokenchar) or pushes a tokenchar frame that
    consumes next (root). -/
theorem consume_total (scan : List B → Option String) (p : Parser) (c : B) :
    (consumeLoop scan (loopFuel p) p c).isSome = true :=
  consumeLoop_total scan p c

/-- the position update of `consume` does not change the stack, so the bound also holds inside `consumeRaw` -/
theorem consumeRaw_never_out_of_fuel (scan : List B → Option String) (p : Parser) (c : B) :
    (consumeLoop scan (loopFuel (advancePos p c)) (advancePos p c) c).isSome = true :=
  consume_total scan (advancePos p c) c

/-! ## chunking, cloning -/

/-- ★ Feeding a byte string in two chunks is the same as feeding it whole -- for every split, from every parser state
    (including a parser with a latched error or a dead parser, where `consume` panics and leaves the state alone). -/
theorem chunk_independent (scan : List B → Option String) (r : Run) (a b : List B) :
    feed scan r (a ++ b) = feed scan (feed scan r a) b := by
  simp [feed, List.foldl_append]

/-- the event stream of a whole text equals the one obtained through any two-chunk split (and, by induction, any chunking) -/
theorem chunk_independent_events (scan : List B → Option String) (a b : List B) :
    parseAll scan (a ++ b) = (finish scan (feed scan (feed scan Run.init a) b)).out := by
  simp [parseAll, chunk_independent]

theorem chunk_independent_many (scan : List B → Option String) (r : Run) (chunks : List (List B)) :
    feed scan r chunks.flatten = chunks.foldl (feed scan) r := by
  induction chunks generalizing r with
  | nil => simp [feed]
  | cons c cs ih => simp [chunk_independent, ih]

/-- ★ Continuing on a clone gives what continuing on the original gives, and (values being immutable in the model)
    feeding the clone cannot affect the original.  The content is in the next theorem and in the harness. -/
theorem clone_independent (scan : List B → Option String) (r : Run) (bs : List B) :
    feed scan { r with p := clone r.p } bs = feed scan r bs := rfl

/-- regenerated obligation: `janet_parser_clone` copies every field of `struct JanetParser` (janet.h) -/
theorem clone_copies_every_field : ∀ f ∈ parserFields, f ∈ cloneFields := by decide

/-- the model's `Frame` has exactly the fields of `struct JanetParseState` -/
theorem frame_fields_modelled : frameFields = ["counter", "argn", "flags", "line", "column", "consumer"] := by decide

/-! ## queries are pure; flush / error restore the frame invariant -/

/-- `parser/status`, `parser/has-more`, `parser/where`, `parser/state` are functions of the parser in the model (they return
    no new parser); `parser/error` without a latched error and `parser/produce` on an empty queue return the parser unchanged. -/
theorem status_produce_pure_partial (p : Parser) :
    (p.error = none → (takeError p).2 = p) ∧ (p.pending = 0 → (produce p).2 = p ∧ (produceWrapped p).2 = p) := by
  constructor
  · intro h; simp [takeError, h]
  · intro h; simp [produce, produceWrapped, h]

/-- ★ For EVERY interleaving of bytes, `parser/produce` calls and pure queries (status / has-more / where / state), starting from
    a fresh parser, the values and errors the client ends up with are exactly those of feeding the bytes alone: queries and
    dequeuing do not change what later bytes produce.  (`Op.query` is the identity because in the model those calls return
    no parser; `produce` is the real dequeue: bottom of the argument stack removed, `pending` and `states[0].argn` decremented.)
    Rests on the lock-step lemma `step_dropQ` (every consumer commutes with removing the oldest queued value) and on the
    invariant `WF` (frame shape, Σ container argn + pending = argcount, root argn = pending), which needs the flush fix. -/
theorem status_produce_pure (scan : List B → Option String) (ops : List Op) :
    (ops.foldl (runOp scan) Run.init).events = (feed scan Run.init (bytesOf ops)).events :=
  schedule_pure scan ops Run.init WF_init

/-- the same from any well-formed run, e.g. any state reached by `feed` / `produce` from a fresh parser -/
theorem status_produce_pure_from (scan : List B → Option String) (r : Run) (h : WF r.p) (ops : List Op) :
    (ops.foldl (runOp scan) r).events = (feed scan r (bytesOf ops)).events :=
  schedule_pure scan ops r h

/-- the invariant holds in every state reachable by bytes and dequeues -/
theorem wf_reachable (scan : List B → Option String) (ops : List Op) : WF (ops.foldl (runOp scan) Run.init).p := by
  have : ∀ (ops : List Op) (r : Run), WF r.p → WF (ops.foldl (runOp scan) r).p := by
    intro ops
    induction ops with
    | nil => intro r h; exact h
    | cons op ops ih =>
      intro r h
      cases op with
      | byte c => exact ih _ (WF_feedByte scan c h)
      | produce => exact ih _ (WF_produceRun h)
      | query => exact ih _ h
  exact this ops Run.init WF_init

/-- in every reachable state the frame walk of `parser/state` stays inside the argument array -/
theorem frames_in_bounds_reachable (scan : List B → Option String) (ops : List Op) :
    inner (ops.foldl (runOp scan) Run.init).p.states ≤ (ops.foldl (runOp scan) Run.init).p.args.length := by
  have := (wf_reachable scan ops).sum
  omega

example : (([Op.byte 49, .byte 32, .produce, .byte 50, .query, .byte 32].foldl (runOp (fun _ => some "n")) Run.init).events).length = 2 := by
  decide

/-- `parser/produce` changes only the value queue: position, buffer, error latch, flag and the kind / position of every
    frame are untouched (only the root frame's count is decremented). -/
theorem produce_touches_only_queue (p : Parser) :
    (produce p).2.line = p.line ∧ (produce p).2.column = p.column ∧ (produce p).2.lookback = p.lookback ∧
    (produce p).2.buf = p.buf ∧ (produce p).2.error = p.error ∧ (produce p).2.flag = p.flag ∧
    (produce p).2.states.length = p.states.length := by
  unfold produce produceWrapped
  by_cases h : (p.pending == 0) = true
  · simp [h]
  · simp only [h]
    cases hr : p.args.reverse with
    | nil => simp
    | cons v rest =>
      simp [decRootArgn]
      cases hs : p.states.reverse with
      | nil => simp at hs; simp [hs]
      | cons r rs =>
        have : p.states.length = (r :: rs).length := by rw [← hs]; simp
        simp [this]

/-- ★ (regenerated obligation, needs `janet_parser_flush` to reset `states[0].argn`): after `parser/flush` -- hence after
    `parser/error` -- the frame walk of `parser/state` stays inside the (now empty) argument array. -/
theorem flush_frames_in_bounds (p : Parser) : framesInBounds (flush p) = true := by
  have h : flushResetsRootArgn = true := by decide
  unfold framesInBounds flush
  simp only [h, if_true]
  have : ∀ l : List Frame, ((List.filter (fun s => hasFlag s.flags PFLAG_CONTAINER) (l.map fun s => { s with argn := 0 })).map (·.argn)).sum = 0 := by
    intro l
    induction l with
    | nil => simp
    | cons x xs ih =>
      simp only [List.map_cons, List.filter_cons]
      split <;> simp_all
  have h2 := this (List.drop (p.states.length - 1) p.states)
  simpa [List.map_drop] using h2

theorem takeError_frames_in_bounds (p : Parser) (h : p.error.isSome = true) : framesInBounds (takeError p).2 = true := by
  unfold takeError
  cases he : p.error with
  | none => simp [he] at h
  | some e => simp only; exact flush_frames_in_bounds _

/-- regenerated obligation: the end-of-line strip of `stringend` reads `bufstart[1]` / `bufstart[buflen-2]` only when the current
    length is at least 2, and `bufstart[0]` / `bufstart[buflen-1]` only when it is at least 1 -- so the value of a long string
    never depends on stale bytes of the reused scratch buffer (the model's `stripLeadingEol` / `stripTrailingEol` pattern-match
    on the logical buffer, which is exactly these guards). -/
theorem stringend_reads_in_bounds :
    stripLeadCRLFGuard = 1 ∧ stripLeadLFGuard = 0 ∧ stripTrailCRLFGuard = 1 ∧ stripTrailLFGuard = 0 := by decide

/-! ## positions -/

theorem feed_pos (scan : List B → Option String) (bs : List B) : ∀ r : Run, Live r →
    Live (feed scan r bs) ∧ posOf (feed scan r bs).p = bs.foldl posStep (posOf r.p) := by
  induction bs with
  | nil => intro r h; exact ⟨h, rfl⟩
  | cons c cs ih =>
    intro r h
    have h1 := feedByte_pos scan r c h (consumeRaw_never_out_of_fuel scan r.p c)
    have h2 := ih (feedByte scan r c) h1.1
    simp only [feed, List.foldl_cons] at h2 ⊢
    rw [← h1.2]
    exact h2

/-- ★ Line, column and lookback after feeding ANY byte string to a fresh parser (client follows the error protocol) are
    the left fold of the CR/LF rule `posStep` over the bytes -- independent of what the bytes parse to, of errors met
    on the way, of the number scanner, and (with `chunk_independent`) of the chunking.  Rests on `quiet_step`: no
    consumer writes line / column / lookback. -/
theorem position_function_of_bytes (scan : List B → Option String) (bs : List B) :
    posOf (feed scan Run.init bs).p = bs.foldl posStep (1, 0, -1) ∧ (feed scan Run.init bs).p.error = none ∧ (feed scan Run.init bs).p.flag = 0 := by
  have h := feed_pos scan bs Run.init ⟨rfl, rfl⟩
  exact ⟨h.2, h.1.1, h.1.2⟩

/-- positions do not depend on the number scanner either -/
theorem position_independent_of_scan (scan1 scan2 : List B → Option String) (bs : List B) :
    posOf (feed scan1 Run.init bs).p = posOf (feed scan2 Run.init bs).p := by
  rw [(position_function_of_bytes scan1 bs).1, (position_function_of_bytes scan2 bs).1]

example : [13, 10, 40, 10].foldl posStep (1, 0, -1) = (3, 0, 10) := by decide

/-! ## print / parse round trip of string escapes -/

/-- ★ For EVERY byte string `bs` (all 256 byte values, any length): wherever a value may start (top frame is a root consumer:
    top level, inside any container, after a reader macro), with no error latched, the text that `%j` prints for the string --
    `"` ++ escapes ++ `"` (`janet_escape_string_impl`) -- is consumed byte by byte without error and ends with the parser
    handing exactly `Value.str bs` to `popstate`.  The escape tables on both sides come from the current source (Gen). -/
theorem escape_roundtrip (scan : List B → Option String) (args : List Value) (rest : List Frame) (line column pending : Nat)
    (lookback : Int) (flag : Nat) (top : Frame) (htop : top.consumer = .root) (bs : List B) :
    ∃ cnt an, steps scan ⟨args, none, top :: rest, [], line, column, pending, lookback, flag⟩ (escapeString bs) =
      some (popstate ⟨args, none, strFrame ⟨0, 0, PFLAG_STRING, line, column, .stringchar⟩ cnt an .stringchar :: top :: rest, [],
              line, column, pending, lookback, flag⟩ (Value.str bs)) ∧
      (popstate ⟨args, none, strFrame ⟨0, 0, PFLAG_STRING, line, column, .stringchar⟩ cnt an .stringchar :: top :: rest, [],
              line, column, pending, lookback, flag⟩ (Value.str bs)).error = none := by
  have h0 : step scan ⟨args, none, top :: rest, [], line, column, pending, lookback, flag⟩ 34 =
      (⟨args, none, strFrame ⟨0, 0, PFLAG_STRING, line, column, .stringchar⟩ 0 0 .stringchar :: top :: rest, [], line, column, pending, lookback, flag⟩, true) := by
    simp [step, htop, root, pushstate, strFrame]
  obtain ⟨c1, a1, h1⟩ := escape_body_steps scan args (top :: rest) line column pending lookback flag
    ⟨0, 0, PFLAG_STRING, line, column, .stringchar⟩ bs [] 0 0
  have h2 : step scan ⟨args, none, strFrame ⟨0, 0, PFLAG_STRING, line, column, .stringchar⟩ c1 a1 .stringchar :: top :: rest, [] ++ bs,
        line, column, pending, lookback, flag⟩ 34 =
      (popstate ⟨args, none, strFrame ⟨0, 0, PFLAG_STRING, line, column, .stringchar⟩ c1 a1 .stringchar :: top :: rest, [],
              line, column, pending, lookback, flag⟩ (Value.str bs), true) := by
    have f1 : hasFlag PFLAG_STRING PFLAG_LONGSTRING = false := by decide
    have f2 : hasFlag PFLAG_STRING PFLAG_BUFFER = false := by decide
    simp [step, strFrame, stringchar, stringend, f1, f2]
  have herr : (popstate ⟨args, none, strFrame ⟨0, 0, PFLAG_STRING, line, column, .stringchar⟩ c1 a1 .stringchar :: top :: rest, [],
              line, column, pending, lookback, flag⟩ (Value.str bs)).error = none := by
    simp [popstate]
  refine ⟨c1, a1, ?_, herr⟩
  have e : escapeString bs = 34 :: (escapeBody bs ++ [34]) := by simp [escapeString]
  rw [e, steps_cons_ok scan _ _ _ _ h0 rfl, steps_append, h1]
  simp only [Option.bind_some]
  rw [steps_cons_ok scan _ _ _ _ h2 herr]
  simp [steps]

/-- the same for buffers: `@"` ... `"` yields `Value.buf bs` -/
theorem escape_roundtrip_buffer (scan : List B → Option String) (args : List Value) (rest : List Frame) (line column pending : Nat)
    (lookback : Int) (flag : Nat) (top : Frame) (htop : top.consumer = .root) (bs : List B) :
    ∃ cnt an, steps scan ⟨args, none, top :: rest, [], line, column, pending, lookback, flag⟩ (64 :: escapeString bs) =
      some (popstate ⟨args, none, strFrame ⟨0, 0, PFLAG_BUFFER ||| PFLAG_STRING, line, column, .stringchar⟩ cnt an .stringchar :: top :: rest, [],
              line, column, pending, lookback, flag⟩ (Value.buf bs)) ∧
      (popstate ⟨args, none, strFrame ⟨0, 0, PFLAG_BUFFER ||| PFLAG_STRING, line, column, .stringchar⟩ cnt an .stringchar :: top :: rest, [],
              line, column, pending, lookback, flag⟩ (Value.buf bs)).error = none := by
  have ha : step scan ⟨args, none, top :: rest, [], line, column, pending, lookback, flag⟩ 64 =
      (⟨args, none, ⟨0, 0, PFLAG_ATSYM, line, column, .atsign⟩ :: top :: rest, [], line, column, pending, lookback, flag⟩, true) := by
    simp [step, htop, root, pushstate]
  have h0 : step scan ⟨args, none, ⟨0, 0, PFLAG_ATSYM, line, column, .atsign⟩ :: top :: rest, [], line, column, pending, lookback, flag⟩ 34 =
      (⟨args, none, strFrame ⟨0, 0, PFLAG_BUFFER ||| PFLAG_STRING, line, column, .stringchar⟩ 0 0 .stringchar :: top :: rest, [], line, column, pending, lookback, flag⟩, true) := by
    simp [step, atsign, pushstate, strFrame]
  obtain ⟨c1, a1, h1⟩ := escape_body_steps scan args (top :: rest) line column pending lookback flag
    ⟨0, 0, PFLAG_BUFFER ||| PFLAG_STRING, line, column, .stringchar⟩ bs [] 0 0
  have h2 : step scan ⟨args, none, strFrame ⟨0, 0, PFLAG_BUFFER ||| PFLAG_STRING, line, column, .stringchar⟩ c1 a1 .stringchar :: top :: rest, [] ++ bs,
        line, column, pending, lookback, flag⟩ 34 =
      (popstate ⟨args, none, strFrame ⟨0, 0, PFLAG_BUFFER ||| PFLAG_STRING, line, column, .stringchar⟩ c1 a1 .stringchar :: top :: rest, [],
              line, column, pending, lookback, flag⟩ (Value.buf bs), true) := by
    have f1 : hasFlag (PFLAG_BUFFER ||| PFLAG_STRING) PFLAG_LONGSTRING = false := by decide
    have f2 : hasFlag (PFLAG_BUFFER ||| PFLAG_STRING) PFLAG_BUFFER = true := by decide
    simp [step, strFrame, stringchar, stringend, f1, f2]
  have herr : (popstate ⟨args, none, strFrame ⟨0, 0, PFLAG_BUFFER ||| PFLAG_STRING, line, column, .stringchar⟩ c1 a1 .stringchar :: top :: rest, [],
              line, column, pending, lookback, flag⟩ (Value.buf bs)).error = none := by
    simp [popstate]
  refine ⟨c1, a1, ?_, herr⟩
  have e : escapeString bs = 34 :: (escapeBody bs ++ [34]) := by simp [escapeString]
  rw [e, steps_cons_ok scan _ _ _ _ ha rfl, steps_cons_ok scan _ _ _ _ h0 rfl, steps_append, h1]
  simp only [Option.bind_some]
  rw [steps_cons_ok scan _ _ _ _ h2 herr]
  simp [steps]

/-! ## `%j` round trip, atoms and strings (`jdn_roundtrip_partial`)

The statements below are about the consume loop itself (`eats` = the `while (!consumed)` loop byte after byte, failing on any
latched error), in ANY context where a value may start: `top` is a frame handled by `root` (top level, any container, after a
reader macro), arbitrary argument stack and frames below.  `popstate` is where the parser delivers a finished value
(it pushes it on the enclosing container / wraps it for the root queue / applies pending reader macros).

The full statement `jdn_roundtrip` (induction over tuples / arrays / structs / tables, `@`-symbols, lift to `parseAll`) is at the
end of this file; these atom theorems are kept as its base cases at the position-free `eats` level. -/

/-- strings: `jdn` prints `escapeString`, which reads back as the string -/
theorem jdn_roundtrip_string (scan : List B → Option String) (fmt : String → Option (List B)) (depth : Nat) (bs : List B)
    (args : List Value) (top : Frame) (rest : List Frame) (line column pending : Nat) (lb : Int) (flag : Nat) (htop : top.consumer = .root) :
    ∃ T, jdn scan fmt (depth + 1) (.str bs) = some T ∧ ∃ cnt an,
      eats scan ⟨args, none, top :: rest, [], line, column, pending, lb, flag⟩ T =
        some (popstate ⟨args, none, strFrame ⟨0, 0, PFLAG_STRING, line, column, .stringchar⟩ cnt an .stringchar :: top :: rest, [],
          line, column, pending, lb, flag⟩ (Value.str bs)) := by
  refine ⟨escapeString bs, by simp [jdn], ?_⟩
  obtain ⟨c, a, h, _⟩ := escape_roundtrip scan args rest line column pending lb flag top htop bs
  exact ⟨c, a, eats_of_steps scan _ _ _ rfl h⟩

theorem jdn_roundtrip_buffer (scan : List B → Option String) (fmt : String → Option (List B)) (depth : Nat) (bs : List B)
    (args : List Value) (top : Frame) (rest : List Frame) (line column pending : Nat) (lb : Int) (flag : Nat) (htop : top.consumer = .root) :
    ∃ T, jdn scan fmt (depth + 1) (.buf bs) = some T ∧ ∃ cnt an,
      eats scan ⟨args, none, top :: rest, [], line, column, pending, lb, flag⟩ T =
        some (popstate ⟨args, none, strFrame ⟨0, 0, PFLAG_BUFFER ||| PFLAG_STRING, line, column, .stringchar⟩ cnt an .stringchar :: top :: rest, [],
          line, column, pending, lb, flag⟩ (Value.buf bs)) := by
  refine ⟨64 :: escapeString bs, by simp [jdn], ?_⟩
  obtain ⟨c, a, h, _⟩ := escape_roundtrip_buffer scan args rest line column pending lb flag top htop bs
  exact ⟨c, a, eats_of_steps scan _ _ _ rfl h⟩

/-- keywords: if `%j` prints the keyword (it refuses bad ones), then text + any delimiter delivers that keyword -/
theorem jdn_roundtrip_keyword (scan : List B → Option String) (fmt : String → Option (List B)) (depth : Nat) (ks T : List B)
    (hj : jdn scan fmt (depth + 1) (.kw ks) = some T)
    (args : List Value) (top : Frame) (rest : List Frame) (line column pending : Nat) (lb : Int) (flag : Nat) (htop : top.consumer = .root)
    (d : B) (hd : isSymbolChar d = false) :
    eats scan ⟨args, none, top :: rest, [], line, column, pending, lb, flag⟩ (T ++ [d]) =
      eat scan (popstate ⟨args, none, tokFrame line column (naAcc 0 ks) :: top :: rest, [], line, column, pending, lb, flag⟩ (.kw ks)) d := by
  have hbad : containsBadChars scan ks false = false := by
    cases h : containsBadChars scan ks false with
    | false => rfl
    | true => simp [jdn, h] at hj
  have hT : T = 58 :: ks := by simp [jdn, hbad] at hj; exact hj.symm
  have hall : ks.all isSymbolChar = true := by
    unfold containsBadChars at hbad
    simp only [Bool.or_eq_false_iff] at hbad
    simpa using hbad.2
  subst hT
  have h58 : rootStartsToken 58 = true := by decide
  have := token_roundtrip scan args top rest line column pending lb flag 58 ks d (.kw ks) htop h58 hall hd
    (classify_keyword scan ks _ hbad)
  simpa using this

/-- symbols (not starting with `@`): if the fixed `%j` prints the symbol, then text + any delimiter delivers that symbol -/
theorem jdn_roundtrip_symbol (scan : List B → Option String) (fmt : String → Option (List B)) (depth : Nat) (b : B) (bs T : List B)
    (hj : jdn scan fmt (depth + 1) (.sym (b :: bs)) = some T) (hat : b ≠ 64)
    (args : List Value) (top : Frame) (rest : List Frame) (line column pending : Nat) (lb : Int) (flag : Nat) (htop : top.consumer = .root)
    (d : B) (hd : isSymbolChar d = false) :
    eats scan ⟨args, none, top :: rest, [], line, column, pending, lb, flag⟩ (T ++ [d]) =
      eat scan (popstate ⟨args, none, tokFrame line column (naAcc (if b > 127 then 1 else 0) bs) :: top :: rest, [],
        line, column, pending, lb, flag⟩ (.sym (b :: bs))) d := by
  have hbad : containsBadChars scan (b :: bs) true = false := by
    cases h : containsBadChars scan (b :: bs) true with
    | false => rfl
    | true => simp [jdn, h] at hj
  have hT : T = b :: bs := by simp [jdn, hbad] at hj; exact hj.symm
  have hall : (b :: bs).all isSymbolChar = true := by
    unfold containsBadChars at hbad
    simp only [Bool.or_eq_false_iff] at hbad
    simpa using hbad.2
  subst hT
  simp only [List.all_cons, Bool.and_eq_true] at hall
  have hb : rootStartsToken b = true := by simp [rootStartsToken, hall.1, hat]
  exact token_roundtrip scan args top rest line column pending lb flag b bs d (.sym (b :: bs)) htop hb hall.2 hd
    (classify_symbol scan (b :: bs) _ hbad)

/-- nil / true / false -/
theorem jdn_roundtrip_const (scan : List B → Option String) (fmt : String → Option (List B)) (depth : Nat) (v : Value)
    (hv : v = .nil ∨ v = .bool true ∨ v = .bool false)
    (args : List Value) (top : Frame) (rest : List Frame) (line column pending : Nat) (lb : Int) (flag : Nat) (htop : top.consumer = .root)
    (d : B) (hd : isSymbolChar d = false) :
    ∃ T, jdn scan fmt (depth + 1) v = some T ∧
      eats scan ⟨args, none, top :: rest, [], line, column, pending, lb, flag⟩ (T ++ [d]) =
        eat scan (popstate ⟨args, none, tokFrame line column 0 :: top :: rest, [], line, column, pending, lb, flag⟩ v) d := by
  rcases hv with h | h | h <;> subst h
  · refine ⟨nilBytes, by simp [jdn], ?_⟩
    exact token_roundtrip scan args top rest line column pending lb flag 110 [105, 108] d .nil htop (by decide) (by decide) hd
      (classify_nil scan _)
  · refine ⟨trueBytes, by simp [jdn], ?_⟩
    exact token_roundtrip scan args top rest line column pending lb flag 116 [114, 117, 101] d (.bool true) htop (by decide) (by decide) hd
      (classify_true scan _)
  · refine ⟨falseBytes, by simp [jdn], ?_⟩
    exact token_roundtrip scan args top rest line column pending lb flag 102 [97, 108, 115, 101] d (.bool false) htop (by decide) (by decide) hd
      (classify_false scan _)

/-- numbers, abstractly: whenever the formatter's text `c :: cs` for `tag` is a number-looking token on which the scanner
    returns `tag` again -- C13's `scan (print17 x) = x` is exactly the hypothesis `hscan` -- text + any delimiter delivers `num tag` -/
theorem jdn_roundtrip_number (scan : List B → Option String) (fmt : String → Option (List B)) (depth : Nat) (tag : String) (c : B) (cs : List B)
    (hj : jdn scan fmt (depth + 1) (.num tag) = some (c :: cs))
    (hscan : scan (c :: cs) = some tag)
    (hstart : (48 ≤ c.toNat && c.toNat ≤ 57 || c == 45 || c == 43 || c == 46) = true)
    (hsym : rootStartsToken c = true ∧ cs.all isSymbolChar = true)
    (args : List Value) (top : Frame) (rest : List Frame) (line column pending : Nat) (lb : Int) (flag : Nat) (htop : top.consumer = .root)
    (d : B) (hd : isSymbolChar d = false) :
    eats scan ⟨args, none, top :: rest, [], line, column, pending, lb, flag⟩ (c :: cs ++ [d]) =
      eat scan (popstate ⟨args, none, tokFrame line column (naAcc (if c > 127 then 1 else 0) cs) :: top :: rest, [],
        line, column, pending, lb, flag⟩ (.num tag)) d := by
  have hcolon : ((c :: cs).headD 0 == 58) = false := by
    simp only [List.headD_cons]
    rcases Bool.or_eq_true _ _ |>.mp hstart with h | h
    · rcases Bool.or_eq_true _ _ |>.mp h with h | h
      · rcases Bool.or_eq_true _ _ |>.mp h with h | h
        · simp only [Bool.and_eq_true, decide_eq_true_eq] at h
          cases hc : (c == 58) with
          | false => rfl
          | true => have : c = 58 := by simpa using hc
                    subst this; simp at h
        · have : c = 45 := by simpa using h
          subst this; decide
      · have : c = 43 := by simpa using h
        subst this; decide
    · have : c = 46 := by simpa using h
      subst this; decide
  exact token_roundtrip scan args top rest line column pending lb flag c cs d (.num tag) htop hsym.1 hsym.2 hd
    (classify_number scan (c :: cs) tag _ hscan (by simpa using hstart) hcolon)

/-- non-vacuity: the hypotheses are met by the initial parser, and the conclusion computes on a string with NUL, quote,
    backslash, newline, DEL and a high byte -/
example : (Parser.init.states.head?.map (·.consumer)) = some Consumer.root := by decide

/-! ## ★★ `jdn_roundtrip`: every value `%j` prints parses back to a deep-equal value

Hypotheses, all explicit and decidable except the number one:
* `hprint : jdn scan fmt depth v = some T` -- `%j` with recursion budget `depth` (pp.c `print_jdn_one`: `depth == 0` refuses; the
  default budget is `Gen.jdnDefaultDepth` = JANET_RECURSION_GUARD) prints `v` as `T`.  This already says: every symbol / keyword in
  `v` passes `contains_bad_chars`, no number is NaN / infinite (`fmt` refuses), `v` is not nested deeper than the budget (pp.c
  panics "could not print to jdn format" otherwise -- it never prints `...`).
* `hdict : v.dictOK = true` -- every struct / table inside `v` is a possible one: as many values as keys, no nil key / value,
  keys pairwise different under `janet_equals` (`keq`).
* `hnum : NumOK scan fmt` -- C13's `scan (print17 x) = x`, plus: the printed number is a token (digits / sign / `.` / `e`).
Conclusion: feeding `T` to a FRESH parser (any chunking) and finishing with `janet_parser_eof` yields exactly ONE event, a value
`w` with `w.erase = v.erase` (equal up to tuple source-map line/column, which `deep=` does not see) -- and no error.  Dictionaries
are printed in the order of the model's association list; the resulting association list is that same list (so the map is equal
whatever order the C prints its hash slots in: any order of distinct keys is covered by instantiating `v`'s list order). -/

theorem jdn_roundtrip (scan : List B → Option String) (fmt : String → Option (List B)) (hnum : NumOK scan fmt)
    (depth : Nat) (v : Value) (T : List B) (hprint : jdn scan fmt depth v = some T) (hdict : v.dictOK = true) :
    ∃ w, parseAll scan T = [Event.value w] ∧ SmEq w v :=
  jdn_parseAll scan fmt hnum depth v T hprint hdict

/-- the same through ANY chunking of the text (`parser/consume` on pieces, `parser/byte` per byte, ...) -/
theorem jdn_roundtrip_chunked (scan : List B → Option String) (fmt : String → Option (List B)) (hnum : NumOK scan fmt)
    (depth : Nat) (v : Value) (chunks : List (List B)) (hprint : jdn scan fmt depth v = some chunks.flatten) (hdict : v.dictOK = true) :
    ∃ w, (finish scan (chunks.foldl (feed scan) Run.init)).out = [Event.value w] ∧ SmEq w v := by
  rw [← chunk_independent_many]
  exact jdn_parseAll scan fmt hnum depth v _ hprint hdict

/-- ... and in ANY context where a value may start (`top` handled by `root`: top level, inside any container at any depth, after a
    reader macro), with anything on the argument stack, followed by any delimiter `%j` can put there: through
    `janet_parser_consume` with its position updates (`eatsP` / `eatP`), a value equal to `v` up to source maps is handed to
    `popstate` over untouched lower frames, and the delimiter is then processed by the uncovered frame -/
theorem jdn_roundtrip_nested (scan : List B → Option String) (fmt : String → Option (List B)) (hnum : NumOK scan fmt)
    (depth : Nat) (v : Value) (T : List B) (hprint : jdn scan fmt depth v = some T) (hdict : v.dictOK = true)
    (p : Parser) (A : List Value) (top : Frame) (rest : List Frame) (pd fl : Nat) (d : B)
    (hp : Shape p A (top :: rest) [] pd fl) (htop : top.consumer = .root) (hd : isDelim d = true) :
    ∃ v' q0 f, SmEq v' v ∧ Shape q0 A (f :: top :: rest) [] pd fl ∧ eatsP scan p (T ++ [d]) = eatP scan (popstate q0 v') d :=
  reads_pop scan fmt hnum depth v T hprint hdict p A top rest pd fl d hp htop hd

/-- `eatP` is `janet_parser_consume` (the model's `consumeRaw`) whenever it is defined: the statements above are about the real
    per-byte entry point, not about a simplified loop -/
theorem eatP_is_consume (scan : List B → Option String) (p q : Parser) (c : B) (h : eatP scan p c = some q) :
    consumeRaw scan p c = q ∧ q.error = none := consumeRaw_of_eatP scan p q c h

/-- `janet_equals` on parsed values cannot see source-map positions (so `SmEq` is the right notion of "deep-equal") -/
theorem keq_ignores_source_maps (a a' b b' : Value) (ha : SmEq a a') (hb : SmEq b b') : keq a b = keq a' b' := keq_smEq ha hb

/-! non-vacuity: a nested value with every kind of node -- number, struct with keyword and `@x` symbol keys, array, string with NUL
    and quote, buffer with a high byte, table, bracket tuple, the symbol `@`, nil -- printed at budget 5, refused at budget 3 -/
def scanEx (bs : List B) : Option String := if bs = [49] then some "one" else none
def fmtEx (t : String) : Option (List B) := if t = "one" then some [49] else none
def vEx : Value :=
  .tuple false 7 7 [.num "one", .struct [.kw [97], .sym [64, 120]] [.array [.str [0, 34], .buf [255]], .table [.bool true] [.tuple true 3 3 []]],
    .sym [64], .nil]
/-- `(1 {:a @["\0\"" @"\xFF"] @x @{true []}} @ nil)` -/
def textEx : List B := [40, 49, 32, 123, 58, 97, 32, 64, 91, 34, 92, 48, 92, 34, 34, 32, 64, 34, 92, 120, 70, 70, 34, 93, 32, 64, 120, 32,
  64, 123, 116, 114, 117, 101, 32, 91, 93, 125, 125, 32, 64, 32, 110, 105, 108, 41]

theorem numOK_ex : NumOK scanEx fmtEx := by
  intro tag T h
  unfold fmtEx at h
  split at h
  · simp only [Option.some.injEq] at h; subst h; subst_vars; exact ⟨by decide, by decide⟩
  · cases h

example : jdn scanEx fmtEx 5 vEx = some textEx ∧ vEx.dictOK = true ∧ jdn scanEx fmtEx 3 vEx = none := by decide
example : ∃ w, parseAll scanEx textEx = [Event.value w] ∧ SmEq w vEx :=
  jdn_roundtrip scanEx fmtEx numOK_ex 5 vEx textEx (by decide) (by decide)

/-- regenerated obligation: the delimiters, separators and depth discipline the printer model `jdn` hard-codes are those of the
    current `print_jdn_one` (pp.c), as transcribed into `Gen/Parse.lean` on every run (`ppTupleParen` ... `ppKvSep`): `(`/`[` ... `)`/`]`
    for tuples, `@[` ... `]`, `{` / `@{` ... `}`, one space between items, between key and value and between pairs; every recursive
    call spends one unit of depth and depth 0 refuses (the translator also checks: all six recursive calls pass `depth - 1`, the
    default case refuses, a refusal panics, `%j`'s default budget is JANET_RECURSION_GUARD = `jdnDefaultDepth`) -/
theorem jdn_printer_shape (scan : List B → Option String) (fmt : String → Option (List B)) (d : Nat) :
    (∀ br l c items, jdn scan fmt (d + 1) (.tuple br l c items) =
      ((allSome (items.map (jdn scan fmt d))).map (sepBy [ppItemSep.toUInt8])).map (fun s =>
        [(if br then ppTupleBracket.1 else ppTupleParen.1).toUInt8] ++ s ++ [(if br then ppTupleBracket.2 else ppTupleParen.2).toUInt8])) ∧
    (∀ items, jdn scan fmt (d + 1) (.array items) =
      ((allSome (items.map (jdn scan fmt d))).map (sepBy [ppItemSep.toUInt8])).map (fun s =>
        ppArrayOpen.map Nat.toUInt8 ++ s ++ [ppArrayClose.toUInt8])) ∧
    (∀ ks vs, jdn scan fmt (d + 1) (.struct ks vs) =
      ((allSome ((ks.zip vs).map (fun kv => match jdn scan fmt d kv.1, jdn scan fmt d kv.2 with
        | some a, some b => some (a ++ [ppKvSep.toUInt8] ++ b)
        | _, _ => none))).map (sepBy [ppItemSep.toUInt8])).map (fun s => ppStructOpen.map Nat.toUInt8 ++ s ++ [ppDictClose.toUInt8])) ∧
    (∀ ks vs, jdn scan fmt (d + 1) (.table ks vs) =
      ((allSome ((ks.zip vs).map (fun kv => match jdn scan fmt d kv.1, jdn scan fmt d kv.2 with
        | some a, some b => some (a ++ [ppKvSep.toUInt8] ++ b)
        | _, _ => none))).map (sepBy [ppItemSep.toUInt8])).map (fun s => ppTableOpen.map Nat.toUInt8 ++ s ++ [ppDictClose.toUInt8])) ∧
    (∀ v, jdn scan fmt 0 v = none) := by
  refine ⟨?_, ?_, ?_, ?_, ?_⟩
  · intro br l c items; cases br <;> rfl
  · intro items; rfl
  · intro ks vs; rfl
  · intro ks vs; rfl
  · intro v; rfl

/-- the example value is printable with `%j`'s default budget -/
example : jdn scanEx fmtEx jdnDefaultDepth vEx = some textEx := by decide

/-! ## `parser/insert` keeps the parser well formed -/

/-- ★ (regenerated obligation: needs `cfun_parse_insert` to recognise the root frame by `s == p->states`, `Gen.insertRootTestByFrame`)
    `parser/insert` from ANY well-formed state -- inside a container, a comment, a string, with a pending token (which it finishes
    by feeding a space), whether it succeeds or panics -- leaves a well-formed parser, so the frame walk of `parser/state` stays
    inside the argument array -/
theorem insert_preserves_wf (scan : List B → Option String) (p : Parser) (v : Value) (vstr : List B) (h : WF p) :
    WF (insert scan p v vstr).1 ∧ framesInBounds (insert scan p v vstr).1 = true :=
  ⟨WF_insert scan v vstr h, insert_frames_in_bounds scan v vstr h⟩

/-- ★ the invariant holds in every state reachable from a fresh parser by ANY history of bytes (with the error protocol),
    `parser/produce`, queries, `parser/insert`, raw `parser/flush` and raw `parser/error` -/
theorem wf_reachable_with_insert (scan : List B → Option String) (ops : List OpI) :
    WF (ops.foldl (runOpI scan) Run.init).p ∧ framesInBounds (ops.foldl (runOpI scan) Run.init).p = true :=
  ⟨WF_runOpsI scan ops Run.init WF_init, framesInBounds_of_WF (WF_runOpsI scan ops Run.init WF_init)⟩

example : ((insert (fun _ => none) Parser.init (.kw [97]) []).1.pending, (insert (fun _ => none) Parser.init (.kw [97]) []).1.args.length) = (1, 1) := by
  decide

/-! ## the error latch; `janet_parser_eof` -/

/-- ★ once `error` is set, `janet_parser_consume` refuses every further byte and `janet_parser_eof` too: the whole state -- queue,
    frames, positions -- is frozen, `parser/status` says `:error`; the same for a dead parser -/
theorem error_latch (scan : List B → Option String) (p : Parser) (h : p.error.isSome = true) (bs : List B) :
    bs.foldl (consume scan) p = p ∧ eof scan p = p ∧ status p = .error :=
  ⟨consume_latched scan h bs, eof_refused scan (checkDead_of_error h), (status_error_iff p).mpr h⟩

theorem dead_latch (scan : List B → Option String) (p : Parser) (h : p.flag ≠ 0) (bs : List B) :
    bs.foldl (consume scan) p = p ∧ eof scan p = p :=
  ⟨consume_dead scan h bs, eof_refused scan (checkDead_of_flag h)⟩

/-- `parser/flush` does not release the latch; `parser/error` does (and flushes) -/
theorem latch_release (p : Parser) (e : String) (h : p.error = some e) :
    (flush p).error = some e ∧ (takeError p).1 = some e ∧ (takeError p).2.error = none ∧ (takeError p).2.pending = 0 ∧
    (takeError p).2.args = [] ∧ (takeError p).2.states.length = min p.states.length 1 := by
  have := takeError_clears h
  exact ⟨by rw [(flush_keeps_error p).1, h], this.1, this.2.1, this.2.2.1, this.2.2.2.1, this.2.2.2.2.2.1⟩

/-- ★ `janet_parser_eof` after ANY byte string fed to a fresh parser (client follows the error protocol): the parser ends dead
    (`:dead` or `:error`, accepts nothing more), line / column are those before the call, and EITHER at most the root frame is left
    and error / queue are exactly what the final newline produced, OR the error is "unexpected end of source, D opened at line L,
    column C" for the innermost open frame (delimiter D, position L:C) -/
theorem eof_after_any_bytes (scan : List B → Option String) (bs : List B) :
    let p := (feed scan Run.init bs).p
    (eof scan p).flag ≠ 0 ∧ (eof scan p).line = p.line ∧ (eof scan p).column = p.column ∧
    (status (eof scan p) = .dead ∨ status (eof scan p) = .error) ∧
    (∀ more : List B, more.foldl (consume scan) (eof scan p) = eof scan p) ∧
    (((consumeRaw scan p 10).states.length ≤ 1 ∧ (eof scan p).error = (consumeRaw scan p 10).error ∧
        (eof scan p).states = (consumeRaw scan p 10).states) ∨
     (∃ f R, (consumeRaw scan p 10).states = f :: R ∧ R ≠ [] ∧ (eof scan p).error = some (eofMessage f))) := by
  intro p
  have hlive := position_function_of_bytes scan bs
  have hcd : checkDead p = none := by simp [checkDead, p, hlive.2.1, hlive.2.2]
  have ho := eof_outcome scan p hcd
  have hs := eof_status scan p hcd
  refine ⟨ho.2.1, ho.2.2.1, ho.2.2.2.1, hs.1, hs.2, ?_⟩
  rcases ho.2.2.2.2.2.2.2 with h | h
  · exact Or.inl ⟨h.1, h.2, ho.2.2.2.2.1⟩
  · exact Or.inr h

/-- the same characterisation from any state that accepts `eof` (no latched error, not dead) -/
theorem eof_outcome_any (scan : List B → Option String) (p : Parser) (h : checkDead p = none) :
    (eof scan p).flag ≠ 0 ∧
    (((consumeRaw scan p 10).states.length ≤ 1 ∧ (eof scan p).error = (consumeRaw scan p 10).error) ∨
     (∃ f R, (consumeRaw scan p 10).states = f :: R ∧ R ≠ [] ∧ (eof scan p).error = some (eofMessage f))) :=
  ⟨(eof_outcome scan p h).2.1, (eof_outcome scan p h).2.2.2.2.2.2.2⟩

/-- after `finish` the queue is empty: every value was handed to the client -/
theorem finish_drains (scan : List B → Option String) (bs : List B) : (finish scan (feed scan Run.init bs)).p.pending = 0 :=
  finish_pending scan (WF_feed scan bs WF_init)

example : (eof (fun _ => none) (feed (fun _ => none) Run.init [40, 91]).p).error =
    some "unexpected end of source, [ opened at line 1, column 2" := by decide
example : (eof (fun _ => some "n") (feed (fun _ => some "n") Run.init [49, 32]).p).error = none := by decide

/-- ★ `status_produce_pure` extended to histories that contain `parser/insert`: for EVERY interleaving of bytes, inserts (any value,
    anywhere: inside containers, comments, strings, behind a pending token), `parser/produce` calls and pure queries from a fresh parser,
    the values and errors the client ends up with are those of the same history with the dequeues and queries left out.  Rests on
    the lock-step lemma `insert_dropQ` (`parser/insert` commutes with removing the oldest queued value; needs the fixed root-frame test) -/
theorem status_produce_pure_with_insert (scan : List B → Option String) (ops : List OpP) :
    (ops.foldl (runOpP scan) Run.init).events = ((inputsOf ops).foldl (runOpP scan) Run.init).events :=
  schedule_pure_insert scan ops Run.init WF_init

example : (([OpP.byte 40, .insert (.kw [97]) [97], .byte 35, .produce, .insert .nil [], .byte 10, .query, .byte 41, .insert (.bool true) [], .produce].foldl
    (runOpP (fun _ => none)) Run.init).events).length = 2 := by decide

/-! ## capacities of the three parser stacks (`buf`/`bufcap`, `states`/`statecap`, `args`/`argcap`)

`Parse/Cap.lean` is an executable overlay on the parser model: the capacities after every operation, following `DEF_PARSER_STACK`
(growth test and factor regenerated: `Gen.stackGrowFactor`; the translator also pins the macro body, its three instances and the
complete list of capacity assignments in parse.c), the one-jump growth of `parser/insert` into a string (`Gen.insertGrowFactor`),
`janet_parser_clone` (capacity := count) and the temporary pushes of `parser/state :delimiters`.  The correspondence compares the
real `bufcap` / `statecap` / `argcap` with it after every dump. -/

/-- ★ one push (`push_buf` / `push_arg` / `_pushstate`) on a stack with `count ≤ cap`: the slot written, `STACK[oldcount]`, is inside
    the (re)allocated block, the new count fits, the capacity does not shrink -/
theorem stack_push_in_bounds (cap count : Nat) (h : count ≤ cap) :
    count < growCap cap count ∧ count + 1 ≤ growCap cap count ∧ cap ≤ growCap cap count := growCap_ok cap count h

/-- ★ `count ≤ capacity` for all three stacks in EVERY state reachable from `janet_parser_init` by any history of bytes (incl. on a
    latched / dead parser), `eof`, `produce`, `parser/insert`, `flush`, `parser/error`, clone-and-continue and `parser/state` -/
theorem capacity_invariant (scan : List B → Option String) (ops : List OpK) :
    CapOK (ops.foldl (runOpK scan) ⟨Caps.init, Parser.init⟩).k (ops.foldl (runOpK scan) ⟨Caps.init, Parser.init⟩).p :=
  runOpsK_ok scan ops ⟨Caps.init, Parser.init⟩ CapOK_init

/-- `janet_parser_consume` from ANY state within capacity stays within capacity, and capacities only grow -/
theorem consume_capacity (scan : List B → Option String) (k : Caps) (p : Parser) (c : B) (h : CapOK k p) :
    CapOK (consumeK scan k p c) (consume scan p c) ∧ k.le (consumeK scan k p c) := consumeK_ok scan c h

/-- `parser/state :delimiters` writes the delimiters BEHIND the scratch buffer's contents (indices `bufcount ..`), inside the grown
    capacity, and restores the count: the parser value is unchanged (only `bufcap` and dead scratch bytes differ) -/
theorem state_query_scratch_in_bounds (k : Caps) (p : Parser) (h : CapOK k p) :
    CapOK (stateK k p) p ∧ p.buf.length + (delimiters p).length ≤ (stateK k p).buf ∧ k.le (stateK k p) := stateK_ok h

example : ([OpK.byte 40, .byte 34, .byte 97, .state, .byte 98, .clone, .byte 99, .insert .nil [120, 121, 122], .eof].foldl
    (runOpK (fun _ => none)) ⟨Caps.init, Parser.init⟩).k = ⟨6, 3, 0⟩ := by decide

/-- ★ the clean dichotomy: `janet_parser_eof` after ANY byte string fed to a fresh parser ends EITHER with no error and exactly the
    root frame left (no pending form), OR with the error "unexpected end of source, D opened at line L, column C" naming the innermost
    open frame.  (The newline `eof` feeds can latch an error only from a token or escape frame, and then at least two frames are
    left: `loop_newline_error`, which runs `WF` along the inner loop via `WF_step`.) -/
theorem eof_clean_or_innermost (scan : List B → Option String) (bs : List B) :
    let p := (feed scan Run.init bs).p
    ((eof scan p).error = none ∧ (eof scan p).states.length = 1 ∧ status (eof scan p) = .dead) ∨
    (∃ f R, (consumeRaw scan p 10).states = f :: R ∧ R ≠ [] ∧ (eof scan p).error = some (eofMessage f) ∧ status (eof scan p) = .error) := by
  intro p
  have hlive := position_function_of_bytes scan bs
  have hwf : WF p := WF_feed scan bs WF_init
  have hcd : checkDead p = none := by simp [checkDead, p, hlive.2.1, hlive.2.2]
  have hfl := (eof_outcome scan p hcd).2.1
  rcases eof_clean scan p hwf hlive.2.1 hlive.2.2 with ⟨h1, h2⟩ | ⟨f, R, h1, h2, h3⟩
  · left
    refine ⟨h1, h2, ?_⟩
    unfold status
    simp [h1, hfl]
  · right
    exact ⟨f, R, h1, h2, h3, (status_error_iff _).mpr (by simp [h3])⟩

/-! ## memory discipline of parse.c: the physical machine (`Parse/Phys.lean`)

`Parse/Phys.lean` re-writes every function on the path of `janet_parser_consume`, `janet_parser_eof`, `janet_parser_produce(_wrapped)`,
`janet_parser_flush`, `janet_parser_error` statement by statement over memory primitives that CHECK the access the C statement
performs (push inside the grown block; no `size_t` underflow of a count; `*state` / `newtop` point into the current `states` block
and at a live frame; `buf[0]`, `args[0]`, `states[0]`, `states[stack_index]` live).  A failed check sets the sticky `fault` flag.
`jm_c11` runs THIS machine in the correspondence (events, internal state and the three capacities come from it). -/

/-- ★ the write of `push_buf` / `push_arg` / `_pushstate` (`STACK[oldcount] = x` after the growth test) is inside the block for EVERY
    machine state, and the machine type carries `count ≤ capacity` (each primitive discharges it where the C grows the block) -/
theorem phys_push_in_block (m : MP) (c : B) (v : Value) (cn : Consumer) (fl : Nat) :
    (pushBufM m c).fault = m.fault ∧ (pushArgM m v).fault = m.fault ∧ (pushstateM m cn fl).fault = m.fault ∧
    CapOK (pushBufM m c).k (pushBufM m c).p ∧ CapOK (pushArgM m v).k (pushArgM m v).p ∧ CapOK (pushstateM m cn fl).k (pushstateM m cn fl).p :=
  ⟨pushBufM_fault m c, pushArgM_fault m v, pushstateM_fault m cn fl, (pushBufM m c).capok, (pushArgM m v).capok, (pushstateM m cn fl).capok⟩

/-- ★ one consumer call (`state->consumer(parser, state, c)`) of the physical machine computes `Model.step`; needs only a frame -/
theorem phys_step_refines (scan : List B → Option String) (m : MP) (c : B) (hne : m.p.states ≠ []) :
    (stepM scan m c).1.p = (step scan m.p c).1 ∧ (stepM scan m c).2 = (step scan m.p c).2 := stepM_p scan m c hne

/-- ★ ... and NONE of its checked accesses fails when the parser is well formed (`WF`: frame shape and argument counts) and a
    token frame on top has a non-empty scratch buffer unless `c` is a symbol character: pops never underflow, `close_*` never takes
    more arguments than the stack holds, `popstate` never reaches below the root frame, `state` is never stale -/
theorem phys_step_safe (scan : List B → Option String) (m : MP) (c : B) (hwf : WF m.p) (ht : TokB m.p c) :
    (stepM scan m c).1.fault = m.fault := stepM_safe scan m c hwf ht

/-- ★ EVERY byte string, fed through the client protocol (consume; on error dequeue, take the error, go on) from `janet_parser_init`:
    no checked memory access of the physical machine fails, and it computes exactly the logical run (parser and events) -/
theorem phys_feed_safe (scan : List B → Option String) (bs : List B) :
    (feedM scan MRun.init bs).m.fault = false ∧ (feedM scan MRun.init bs).m.p = (feed scan Run.init bs).p ∧
    (feedM scan MRun.init bs).out = (feed scan Run.init bs).out := by
  obtain ⟨h1, h2⟩ := feedM_spec scan bs MRun.init mok_init
  have : (feedM scan MRun.init bs).abs = feed scan Run.init bs := h1
  exact ⟨h2.safe, congrArg Run.p this, congrArg Run.out this⟩

/-- ★ the same for a whole text (`parse-all`: feed, eof, drain): no fault, the events are `parseAll`'s -/
theorem phys_parseAll_safe (scan : List B → Option String) (bs : List B) :
    (finishM scan (feedM scan MRun.init bs)).m.fault = false ∧ (finishM scan (feedM scan MRun.init bs)).out = parseAll scan bs := by
  obtain ⟨h1, h2⟩ := feedM_spec scan bs MRun.init mok_init
  obtain ⟨f1, f2⟩ := finishM_spec scan _ h2
  refine ⟨f2.safe, ?_⟩
  have : (finishM scan (feedM scan MRun.init bs)).abs = finish scan (feed scan Run.init bs) := by rw [f1, h1]; rfl
  exact congrArg Run.out this

/-- ★ ANY history of raw API calls (bytes -- also on a latched or dead parser --, eof, produce, produce-wrapped, flush, error; no client
    discipline) from `janet_parser_init`: no fault, the machine's parser is the logical model's, `count ≤ capacity` throughout -/
theorem phys_history_safe (scan : List B → Option String) (ops : List OpM) :
    (ops.foldl (runOpM scan) MP.init).fault = false ∧ (ops.foldl (runOpM scan) MP.init).p = ops.foldl (runOpL scan) Parser.init ∧
    CapOK (ops.foldl (runOpM scan) MP.init).k (ops.foldl (runOpM scan) MP.init).p := by
  obtain ⟨h1, h2, _⟩ := runOpsM_spec scan ops MP.init pinv_init
  exact ⟨h2, h1, (ops.foldl (runOpM scan) MP.init).capok⟩

/-- regenerated: the memory events (stack-primitive calls, count updates, indexed accesses) of every parse.c function that
    `Parse/Phys.lean` mirrors, in source order up to swapping adjacent statements that touch different stacks
    (`commute_normal_form` in tools/gen/parse.py; loop bounds over the argument stack are part of the event), are the ones the machine was written from -- `popstateM` (pop one frame, `newtop`,
    one `push_arg`), `stringendM` (top frame, `bufcount = 0`, popstate), `tokencharM` (`push_buf` | `buf[0]`, `bufcount = 0`, popstate),
    `commentM`, `popArgsM` (the four `close_*`), `longstringM`, `atsignM` (`statecount--`, then one `pushstate`, `push_buf '@'`), `rootM`,
    `consumeLoopM` (`states + statecount - 1`), `eofM`, `flushM`, `takeErrorM`, `produce(Wrapped)M`; the translator also checks that NO other
    function of parse.c touches a count, a block or a stack primitive.  An added / removed / reordered push, pop or indexed access
    changes this list and the obligation stops checking. -/
theorem phys_machine_source_ops : memOps = [
  ("popstate", ["push_arg", "states[--statecount]", "states+statecount-1"]),
  ("delim_error", ["states+stack_index"]),
  ("write_codepoint", ["push_buf", "push_buf", "push_buf", "push_buf", "push_buf", "push_buf", "push_buf", "push_buf", "push_buf", "push_buf"]),
  ("escapeh", ["push_buf"]),
  ("escapeu", ["write_codepoint"]),
  ("escape1", ["push_buf"]),
  ("stringend", ["bufcount=0", "states[statecount-1]", "popstate"]),
  ("stringchar", ["stringend", "push_buf"]),
  ("tokenchar", ["push_buf", "buf[0]", "bufcount=0", "popstate"]),
  ("comment", ["bufcount=0", "push_buf", "statecount--"]),
  ("close_tuple", ["for(i=argn-1;i>=0;i--)args[--argcount]"]),
  ("close_array", ["for(i=argn-1;i>=0;i--)args[--argcount]"]),
  ("close_struct", ["for(i=argcount-argn;i<argcount;i+=2)", "args[i]", "args[i+1]", "argcount-=argn"]),
  ("close_table", ["for(i=argcount-argn;i<argcount;i+=2)", "args[i]", "args[i+1]", "argcount-=argn"]),
  ("longstring", ["push_buf", "stringend", "push_buf", "push_buf", "push_buf"]),
  ("atsign", ["push_buf", "statecount--", "pushstate", "pushstate", "pushstate", "pushstate", "pushstate", "pushstate"]),
  ("root", ["pushstate", "pushstate", "pushstate", "pushstate", "pushstate", "pushstate", "delim_error", "close_array", "close_tuple", "close_table", "close_struct", "delim_error", "popstate", "pushstate", "pushstate", "pushstate"]),
  ("janet_parser_consume", ["states+statecount-1"]),
  ("janet_parser_eof", ["consume", "delim_error"]),
  ("janet_parser_flush", ["argcount=0", "bufcount=0", "statecount=1", "states[0]"]),
  ("janet_parser_error", ["status", "flush"]),
  ("janet_parser_produce", ["args[0]", "for(i=1;i<argcount;i++)args[i-1]=args[i]", "argcount--", "states[0]"]),
  ("janet_parser_produce_wrapped", ["args[0]", "for(i=1;i<argcount;i++)args[i-1]=args[i]", "argcount--", "states[0]"]),
  ("parser_state_delimiters", ["push_buf", "push_buf", "push_buf", "push_buf", "push_buf", "bufcount=saved", "states+stack_index"])] := by decide

/-- the shape facts behind `p->buf[0]`: along any such history every frame below the top is a `root` frame and a token frame on top
    has a non-empty scratch buffer -/
theorem token_scratch_nonempty (scan : List B → Option String) (ops : List OpM) :
    TokInv (ops.foldl (runOpL scan) Parser.init) := (runOpsM_spec scan ops MP.init pinv_init).2.2.tok

/-- `parser/state :delimiters` on the physical machine: the delimiters are pushed BEHIND the scratch contents inside the grown block, read
    back and the count restored -- the parser is unchanged and no check fails, from EVERY machine state -/
theorem phys_state_query_safe (m : MP) :
    (stateDelimsM m).1 = delimiters m.p ∧ (stateDelimsM m).2.p = m.p ∧ (stateDelimsM m).2.fault = m.fault := stateDelimsM_spec m

/-- `janet_parser_clone` on the physical machine: the `memcpy`s read `count ≤ capacity` elements of the source blocks; the clone has
    exactly-fitting fresh blocks (so every older `JanetParseState *` is foreign to it: new generation) -/
theorem phys_clone_safe (m : MP) : (cloneM m).p = clone m.p ∧ (cloneM m).fault = m.fault ∧ (cloneM m).k = cloneK m.p ∧
    (cloneM m).sgen ≠ m.sgen := ⟨(cloneM_spec m).1, (cloneM_spec m).2.1, (cloneM_spec m).2.2, Nat.succ_ne_self _⟩

/-- ★ `parser/insert` on the physical machine (finish a pending token through `janet_parser_consume`, recompute `s`, `s--` past a comment
    frame, `s->argn++`, `push_arg` / one-jump growth of the scratch buffer + `memcpy`): computes `Model.insert`, keeps the invariants, and
    no check fails.  `if (s->flags & PFLAG_COMMENT) s--;` stays inside the block because a frame handled by `root` (so the bottom frame)
    never carries PFLAG_COMMENT: `NoCF`, an invariant of every operation (`Parse/NoCF.lean`). -/
theorem phys_insert_safe (scan : List B → Option String) (m : MP) (v : Value) (vstr : List B) (h : PInv m.p) (hn : NoCF m.p) :
    (insertM scan m v vstr).1.p = (insert scan m.p v vstr).1 ∧ (insertM scan m v vstr).2 = (insert scan m.p v vstr).2 ∧
    (insertM scan m v vstr).1.fault = m.fault ∧ PInv (insert scan m.p v vstr).1 := insertM_safe scan m v vstr h hn

/-- ★ the COMPLETE parser API on the physical machine: ANY history of bytes (also on a latched / dead parser), eof, produce,
    produce-wrapped, flush, error, `parser/insert` of any value anywhere, clone-and-continue and `parser/state` from
    `janet_parser_init`: no checked memory access fails, the machine's parser is the logical model's after the same history, and
    `count ≤ capacity` for the three blocks -/
theorem phys_api_history_safe (scan : List B → Option String) (ops : List OpF) :
    (ops.foldl (runOpF scan) MP.init).fault = false ∧ (ops.foldl (runOpF scan) MP.init).p = ops.foldl (runOpFL scan) Parser.init ∧
    CapOK (ops.foldl (runOpF scan) MP.init).k (ops.foldl (runOpF scan) MP.init).p := by
  obtain ⟨h1, h2⟩ := runOpsF_spec scan ops MP.init pinv_init NoCF_init
  exact ⟨h2, h1, (ops.foldl (runOpF scan) MP.init).capok⟩

example : ([OpF.byte 40, .byte 35, .insert (.kw [97]) [97], .byte 10, .byte 34, .byte 120, .state, .insert .nil [110, 105, 108], .clone,
    .byte 34, .byte 41, .produce, .eof].foldl (runOpF (fun _ => none)) MP.init).k = ⟨4, 3, 4⟩ := by decide +kernel

example : (insertM (fun _ => none) (feedM (fun _ => none) MRun.init [40, 35, 32]).m (.kw [97]) [97]).1.fault = false := by decide +kernel
example : (insertM (fun _ => none) (feedM (fun _ => none) MRun.init [40, 34, 97]).m .nil [110, 105, 108]).1.k = ⟨8, 6, 0⟩ := by decide +kernel

/-- `stringend`'s in-place rewrite: the second pass (`*w++ = *r++`, indentation skipped on the read side only) never produces more bytes than
    it has read -- `w ≤ r`, every write lands on a byte already read inside `[bufstart, end)` -- and the text finally handed to
    `janet_string` / `janet_buffer_push_bytes` (after the EOL strips) is no longer than the scratch contents -/
theorem stringend_rewrite_fits (fuel ind col : Nat) (buf : List B) :
    (reindent fuel ind buf).length ≤ buf.length ∧ (dedent col buf).length ≤ buf.length :=
  ⟨reindent_length_le fuel ind buf, dedent_length_le col buf⟩

example : dedent 2 [10, 32, 32, 97, 10, 32, 32, 13, 10, 32, 32, 98, 10] = [97, 10, 13, 10, 98] := by decide

-- non-vacuity: a run that grows all three blocks, pops containers, dedents a long string and reports an error; and the checks are live
example : (finishM (fun _ => none) (feedM (fun _ => none) MRun.init
    [40, 64, 91, 34, 97, 92, 120, 52, 49, 34, 32, 96, 96, 10, 32, 120, 96, 96, 93, 32, 39, 98, 41, 32, 41])).m.fault = false := by decide +kernel
example : ((finishM (fun _ => none) (feedM (fun _ => none) MRun.init [40, 64, 91, 34, 97, 34, 93, 32, 39, 98, 41, 32, 41])).out).length = 2 := by
  decide +kernel
example : (feedM (fun _ => none) MRun.init [40, 40, 40, 34, 97, 98, 99, 100, 101]).m.k = ⟨6, 6, 0⟩ := by decide +kernel
example : (popArgsM MP.init 1).2.fault = true := by decide
example : (decStateM (decStateM MP.init)).fault = true := by decide
example : (tokencharM (fun _ => none) (pushstateM MP.init .tokenchar PFLAG_TOKEN) (topPtr (pushstateM MP.init .tokenchar PFLAG_TOKEN)) 32).1.fault
    = true := by decide
example : (writeState (pushstateM (pushstateM MP.init .root PFLAG_CONTAINER) .root PFLAG_CONTAINER) (topPtr MP.init) id).fault = true := by
  decide

/-! ### ownership of the pending error message (session 4b; seed C11-7)

`parser->error` is either a string literal or the GC heap string `delim_error` makes; nothing but the parser references that string, and
`parsermark` keeps it alive iff `flag & JANET_PARSER_GENERATED_ERROR`.  If the bit is lost while such a message is pending, the next
collection frees it and `parser/error` returns whatever occupies the block: the error a client sees for the same bytes depends on heap
activity. -/

/-- ★ after ANY history of the complete parser API from `janet_parser_init`: `JANET_PARSER_GENERATED_ERROR` is set iff the pending error is a
    message made by `delim_error` (one of the source's `delim_error` message arguments followed by the generated part), and clear iff
    there is no pending error or it is one of the string literals the source assigns to `->error` -/
theorem generated_error_flag_iff (scan : List B → Option String) (ops : List OpF) :
    let p := ops.foldl (runOpFL scan) Parser.init
    (genBit p = true ↔ ∃ m, p.error = some m ∧ IsGenerated m) ∧
    (genBit p = false ↔ p.error = none ∨ ∃ m, p.error = some m ∧ IsStatic m) :=
  genBit_iff_generated (genInv_api_history scan ops)

/-- the invariant in its marking form: the bit is set only on a generated message, a literal or no message leaves it clear (what
    `parsermark` relies on in both directions) -/
theorem generated_error_marked (scan : List B → Option String) (ops : List OpF) : GenInv (ops.foldl (runOpFL scan) Parser.init) :=
  genInv_api_history scan ops

/-- one consumer call (`state->consumer(parser, state, c)`) leaves `error` and `flag` alone, or latches one of the source's literals
    without touching `flag`, or latches a `delim_error` message together with the bit -/
theorem consumer_error_flag_discipline (scan : List B → Option String) (p : Parser) (c : B) : ErrQuiet p (step scan p c).1 :=
  errq_step scan p c

/-- a generated message is never one of the literals (both lists regenerated from the source) -/
theorem generated_message_not_static (m : String) (hs : IsStatic m) : ¬ IsGenerated m := static_not_generated m hs

/-- ★ regenerated from the current parse.c on every run: EVERY write to `->error` / `->flag` in the file, per function in source order.
    (writes to the two different fields of one function are listed `error` first: independent statements).  These are the writes the model makes -- `delimError` (`error := generated`, `flag ||| GENERATED_ERROR`), the consumers' literals,
    `eof` (`flag ||| DEAD`: OR, the bit set three lines earlier survives), `takeError` (`error := none`, `flag &&& ~GENERATED_ERROR`),
    `init`, `clone` (both copied).  Any other write (e.g. `flag = JANET_PARSER_DEAD`) changes this table and the obligation stops checking. -/
theorem err_flag_source_sites : errFlagWrites = [
  ("delim_error", ["error=heap", "flag|=GENERATED_ERROR"]),
  ("escapeh", ["error=static"]),
  ("escapeu", ["error=static"]),
  ("escape1", ["error=static"]),
  ("tokenchar", ["error=static"]),
  ("root", ["error=static"]),
  ("janet_parser_eof", ["flag|=DEAD"]),
  ("janet_parser_error", ["error=NULL", "flag&=~GENERATED_ERROR"]),
  ("janet_parser_init", ["error=NULL", "flag=0"]),
  ("janet_parser_clone", ["error=src->error", "flag=src->flag"])] := by decide

-- non-vacuity: `(` then eof: the generated message is pending WITH the bit (flag = DEAD | GENERATED_ERROR); a bad escape: literal, bit clear;
-- and the invariant is not trivially true: the state seed C11-7 produces (same message, flag = DEAD only) violates it
example : (eof (fun _ => none) (consume (fun _ => none) Parser.init 40)).error = some "unexpected end of source, ( opened at line 1, column 1" ∧
    (eof (fun _ => none) (consume (fun _ => none) Parser.init 40)).flag = 3 := by decide
example : (consume (fun _ => none) (consume (fun _ => none) (consume (fun _ => none) Parser.init 34) 92) 113).error = some "invalid string escape sequence" ∧
    genBit (consume (fun _ => none) (consume (fun _ => none) (consume (fun _ => none) Parser.init 34) 92) 113) = false := by decide
example : ¬ GenInv { eof (fun _ => none) (consume (fun _ => none) Parser.init 40) with flag := JANET_PARSER_DEAD } := by
  intro h
  have h2 := (genBit_iff_generated h).2.1 (by decide)
  rcases h2 with h2 | ⟨m, h2, h3⟩
  · exact absurd h2 (by decide)
  · have hm : m = "unexpected end of source, ( opened at line 1, column 1" := by
      have : ({ eof (fun _ => none) (consume (fun _ => none) Parser.init 40) with flag := JANET_PARSER_DEAD } : Parser).error =
          some "unexpected end of source, ( opened at line 1, column 1" := by decide
      rw [this] at h2; exact (Option.some.inj h2).symm
    subst hm
    exact absurd h3 (by unfold IsStatic; decide)

/-! ### `stringend`'s re-indent loops at index level (session 4b)

`Parse/StrIdx.lean` mirrors the two loops of `stringend` on a block of cells with the C's cursors `r`, `w`, `end`: first pass
(`*r++`, the inner `for` with its `*r` reads, the `*r` / `*(r + 1)` CR-LF test), second pass rewriting IN PLACE (`*w++ = *r++`,
the skipping `for`, the CR-LF copy).  Every read and write is a checked access inside `[0, bufcount)`.  `stringendM` (the physical
machine's `stringend`) runs them, so `phys_api_history_safe` now covers them too. -/

/-- ★ for every scratch contents and indent column: no checked access of the two loops fails (writes land on cells already read,
    `w ≤ r < end`; the text still to be read is never overwritten) and the result is the list-level `dedent` of the logical model -/
theorem stringend_loops_index_safe (col : Nat) (buf : List B) :
    reindentI col buf = (if reindentCheck (buf.length + 1) col buf then reindent (buf.length + 1) col buf else buf, true) ∧
    dedentI col buf = (dedent col buf, true) :=
  ⟨reindentI_spec col buf, dedentI_spec col buf⟩

/-- the in-place rewrite from any cursor position: `w ≤ r ≤ end`, enough fuel -- the block keeps its size, `w` stays inside, no check fails,
    and the first `w'` cells are what was written before followed by the re-indented rest -/
theorem stringend_rewrite_in_place (e ind fuel : Nat) (b : List B) (r w : Nat) (ok : Bool) (hl : b.length = e) (hw : w ≤ r) (hr : r ≤ e)
    (hf : e - r < fuel) :
    ∃ b' w', rewriteI e ind fuel b r w ok = (b', w', ok) ∧ b'.length = e ∧ w' ≤ e ∧ b'.take w' = b.take w ++ reindent fuel ind (b.drop r) :=
  rewriteI_spec e ind fuel b r w ok hl hw hr hf

/-- regenerated: the cursor dereferences / assignments of `stringend`'s long-string block in source order -- first pass `*r++`, the `for`
    (`*r` in the condition, `*r` in the body), the CR-LF test (`*r`, `*(r + 1)`); second pass from `w = r = bufstart`: `*r`, `*w++ = *r++`,
    the skipping `for` (`*r`), the CR-LF test and copy, the plain copy; `buflen = w - bufstart`: what `checkI` / `forCheckI` / `crlfAtI` /
    `rewriteI` / `skipI` were written from (the translator refuses indexed accesses or other cursor arithmetic inside the block) -/
theorem stringend_loop_source_ops : stringendLoopOps =
    ["r=bufstart", "*r++", "*r", "*r", "*r", "*(r+1)", "w=bufstart", "r=bufstart", "*r", "*w++=*r++", "*r", "*r", "*(r+1)", "*w++=*r++",
     "*w++=*r++", "buflen=(int32_t)(w-bufstart)"] := by decide

-- non-vacuity: a text that is re-indented, CR-LF line ends kept; and the checks are live (a loop bound beyond the contents trips them)
example : dedentI 2 [10, 32, 32, 97, 10, 32, 32, 13, 10, 32, 32, 98, 10] = ([97, 10, 13, 10, 98], true) := by decide
example : (rewriteI 13 2 14 [10, 32, 32, 97, 10, 32, 32, 13, 10, 32, 32, 98, 10] 0 0 true).2.1 = 7 := by decide
example : (checkI [10, 32] 3 2 4 0 true).2 = false := by decide
example : (rewriteI 3 0 4 [97, 98] 0 0 true).2.2 = false := by decide

end JanetModel.Props.C11
