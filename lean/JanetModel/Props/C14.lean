/- C14 — arithmetic on numbers and 64-bit integers is exact and consistently defined.

   Property theorems about the model `JanetModel.Int64` (mirror of src/core/inttypes.c, the operator opcodes of vm.c and
   boot.janet's `compare`).  The theorems in the section "current tree" mention `cfgGen` / the generated tables of
   `Gen/Int64.lean`, which the translator rewrites from the source on every run: they are proof obligations on the
   current tree (they do not check on a tree where a signed `/` or `%` lacks the INT64_MIN / -1 test, where the edge
   comparison of the compare functions is exclusive, or where a method table row / the dispatch order changed).
   IEEE arithmetic on two plain numbers: the model's executable instance `Ieee.ieee` (exact rational result rounded once), proved
   against the mathematical rounding `rneQ`; on integer-valued doubles the handlers are exact without any representability
   hypothesis (`IeeeInt.lean`); math.c's gcd / lcm / floor / ceil / trunc / round / abs (`MathFns.lean`, `MathQ.lean`); boot.janet's
   zero? pos? neg? one? even? odd? (`Preds.lean`, `PredsQ.lean`). -/
import JanetModel.Int64.Lemmas
import JanetModel.Int64.LemmasN
import JanetModel.Int64.LemmasQ
import JanetModel.Int64.LemmasC
import JanetModel.Int64.IeeeQ
import JanetModel.Int64.IeeeInt
import JanetModel.Int64.MathQ
import JanetModel.Int64.PredsQ
import JanetModel.Int64.MixQ
namespace JanetModel.Props.C14
open JanetModel.Int64 JanetModel.Gen.Int64

/-! ## wrap-around operators are the 64-bit two's-complement (BitVec 64) operators, for both kinds, all operands -/

theorem wrap_ops_eq_bitvec (k : Kind) (a b : Int) :
    (∃ r, opMethod k "+" a b = .ok r ∧ BitVec.ofInt 64 r = BitVec.ofInt 64 a + BitVec.ofInt 64 b) ∧
    (∃ r, opMethod k "-" a b = .ok r ∧ BitVec.ofInt 64 r = BitVec.ofInt 64 a - BitVec.ofInt 64 b) ∧
    (∃ r, opMethod k "*" a b = .ok r ∧ BitVec.ofInt 64 r = BitVec.ofInt 64 a * BitVec.ofInt 64 b) ∧
    (∃ r, opMethod k "&" a b = .ok r ∧ BitVec.ofInt 64 r = BitVec.ofInt 64 a &&& BitVec.ofInt 64 b) ∧
    (∃ r, opMethod k "|" a b = .ok r ∧ BitVec.ofInt 64 r = BitVec.ofInt 64 a ||| BitVec.ofInt 64 b) ∧
    (∃ r, opMethod k "^" a b = .ok r ∧ BitVec.ofInt 64 r = BitVec.ofInt 64 a ^^^ BitVec.ofInt 64 b) ∧
    BitVec.ofInt 64 (notMethod k a) = ~~~ BitVec.ofInt 64 a := by
  obtain ⟨r1, h1, _, e1⟩ := opMethod_add k a b
  obtain ⟨r2, h2, _, e2⟩ := opMethod_sub k a b
  obtain ⟨r3, h3, _, e3⟩ := opMethod_mul k a b
  obtain ⟨r4, h4, _, e4⟩ := opMethod_and k a b
  obtain ⟨r5, h5, _, e5⟩ := opMethod_or k a b
  obtain ⟨r6, h6, _, e6⟩ := opMethod_xor k a b
  exact ⟨⟨r1, h1, e1⟩, ⟨r2, h2, e2⟩, ⟨r3, h3, e3⟩, ⟨r4, h4, e4⟩, ⟨r5, h5, e5⟩, ⟨r6, h6, e6⟩, (notMethod_bitvec k a).2⟩

/-- ... and every result is a value of the type (so, with the previous theorem, *the* two's-complement result) -/
theorem wrap_ops_in_range (k : Kind) (oper : String) (a b : Int) (r : Int) (h : opMethod k oper a b = .ok r) :
    k.inRange r := by
  unfold opMethod at h
  split at h <;> first | (injection h with h; subst h; exact wrap_inRange _ _) | exact absurd h (by simp)

/-- shifts with a count inside the width (0 ≤ count < 64; anything else is undefined in C and outside the property) -/
theorem shift_ops_eq_bitvec (a b : Int) (h : shiftDefined b) :
    (∀ k, ∃ r, opMethod k "<<" a b = .ok r ∧ k.inRange r ∧ BitVec.ofInt 64 r = BitVec.ofInt 64 a <<< (wrapU b).toNat) ∧
    (Kind.s64.inRange a → opMethod .s64 ">>" a b = .ok ((BitVec.ofInt 64 a).sshiftRight (wrapU b).toNat).toInt) :=
  ⟨fun k => opMethod_shl k a b h, fun ha => opMethod_sar a b ha h⟩

/-! ## division -/

/-- `div` on s64 is floor division, for every pair except INT64_MIN / -1 (whose quotient is not an int64) -/
theorem divf_eq_floor_div (g : Bool) (a b : Int) (ha : Kind.s64.inRange a) (hb0 : b ≠ 0)
    (hmin : ¬ (a = int64Min ∧ b = -1)) : divfMethod g a b = .ok (Int.fdiv a b) :=
  JanetModel.Int64.divf_eq_floor_div g a b ha hb0 hmin

/-- `mod` on s64 is the floor modulus (sign of the divisor); with the guard also for INT64_MIN mod -1 (= 0) -/
theorem mod_eq_floor_mod (g : Bool) (a b : Int) (ha : Kind.s64.inRange a) (hb : Kind.s64.inRange b) (hb0 : b ≠ 0)
    (hmin : g = true ∨ ¬ (a = int64Min ∧ b = -1)) : modMethod g a b = .ok (Int.fmod a b) :=
  JanetModel.Int64.mod_eq_floor_mod g a b ha hb hb0 hmin

/-- `/` and `%` truncate (C semantics), INT64_MIN / -1 is an error; unsigned `/`, `%`, `mod` are the natural ones -/
theorem trunc_div_rem_correct (a b : Int) (hb0 : b ≠ 0) :
    (¬ (a = int64Min ∧ b = -1) → divMethodS true "div" "/" a b = .ok (Int.tdiv a b) ∧ divMethodS true "rem" "%" a b = .ok (Int.tmod a b))
    ∧ ((a = int64Min ∧ b = -1) → divMethodS true "div" "/" a b = .err .minneg ∧ divMethodS true "rem" "%" a b = .err .minneg)
    ∧ divMethodU "div" "/" a b = .ok (a / b) ∧ divMethodU "rem" "%" a b = .ok (a % b) ∧ divMethodU "mod" "%" a b = .ok (a % b) :=
  JanetModel.Int64.trunc_div_rem_correct a b hb0

theorem mod_zero_is_dividend (g : Bool) (a : Int) : modMethod g a 0 = .ok a ∧ divMethodU "mod" "%" a 0 = .ok a :=
  ⟨JanetModel.Int64.mod_zero_is_dividend g a, (JanetModel.Int64.div_zero_errors g a).2.2.2.2.2⟩

theorem div_zero_errors (g : Bool) (a : Int) :
    divfMethod g a 0 = .err .divzero ∧ divMethodS g "div" "/" a 0 = .err .divzero ∧ divMethodS g "rem" "%" a 0 = .err .divzero
    ∧ divMethodU "div" "/" a 0 = .err .divzero ∧ divMethodU "rem" "%" a 0 = .err .divzero :=
  let h := JanetModel.Int64.div_zero_errors g a
  ⟨h.1, h.2.1, h.2.2.1, h.2.2.2.1, h.2.2.2.2.1⟩

/-! ## no undefined C operation -/

/-- the method bodies never perform an undefined operation iff every signed `/`, `%` is guarded — for any configuration -/
theorem no_ub_iff_guarded (c : Cfg) : ArithNoUb c ↔ c.allGuarded = true := JanetModel.Int64.no_ub_iff_guarded c

/-- what holds on every tree (the pinned one included): only INT64_MIN / -1 can be undefined -/
theorem no_ub_partial (c : Cfg) (name oper : String) (a b : Int) (h : ¬ (a = int64Min ∧ b = -1)) :
    divMethodS c.guardDiv name oper a b ≠ .ub ∧ divMethodS c.guardDivi name oper a b ≠ .ub ∧
    divfMethod c.guardDivf a b ≠ .ub ∧ divfMethod c.guardDivfi a b ≠ .ub ∧
    modMethod c.guardMod a b ≠ .ub ∧ modMethod c.guardModi a b ≠ .ub :=
  JanetModel.Int64.no_ub_partial c name oper a b h

/-- the missing part on the pinned tree e691f18: `(div (int/s64 "-9223372036854775808") -1)` and `(mod ... -1)` execute
    the C expression INT64_MIN / -1 resp. INT64_MIN % -1 (SIGFPE on x86-64) -/
theorem ub_reachable_on_pinned :
    divfMethod cfgPinned.guardDivf int64Min (-1) = .ub ∧ modMethod cfgPinned.guardMod int64Min (-1) = .ub ∧
    callCfun2 cfgPinned .s64 "s64_divf" (.s64 int64Min) (.num 0xbff0000000000000) = .ub :=
  JanetModel.Int64.ub_reachable_on_pinned

example : ¬ ArithNoUb cfgPinned := fun h => by
  have := (no_ub_iff_guarded cfgPinned).1 h
  exact absurd this (by decide)

/-! ## ordering of 64-bit integers against doubles and against each other

`cmpIntDbl x y` is the exact three-way comparison of the integer `x` with the double `y = ± m * 2^e`, computed in
integers after clearing the power of two (`cmpIntDbl_is_exact`); `rnd53` is the int -> double rounding the C performs. -/

theorem cmpIntDbl_is_exact (n : Int) (neg : Bool) (m : Nat) (e : Int) :
    cmpIntDbl n (.fin neg m e) =
      if 0 ≤ e then cmp3 n (smant neg m * 2 ^ e.toNat) else cmp3 (n * 2 ^ (-e).toNat) (smant neg m) :=
  cmpIntDbl_fin n neg m e

/-- int -> double rounding: exact below 2^53 in magnitude, never crosses ±2^53 above (all the proof needs) -/
theorem rnd53_exact_small_monotone_edge (x : Int) :
    (-two53 < x ∧ x < two53 → rnd53 x = x) ∧ (two53 ≤ x → two53 ≤ rnd53 x) ∧ (x ≤ -two53 → rnd53 x ≤ -two53) :=
  ⟨rnd53_small x, (rnd53_big x).1, (rnd53_big x).2⟩

/-- for every configuration with an inclusive upper and an exclusive lower edge test, compare_int64_double is the exact
    comparison for all int64 x and all non-NaN doubles; likewise unsigned -/
theorem compare_mixed_correct_of_inclusive (c : Cfg) (x : Int) (b : Nat) (hy : decode b ≠ .nan) :
    (c.cmpSUpperIncl = true → c.cmpSLowerIncl = false → Kind.s64.inRange x →
        compareInt64Double c x (decode b) = .ok (cmpIntDbl x (decode b))) ∧
    (c.cmpUUpperIncl = true → Kind.u64.inRange x → compareUint64Double c x (decode b) = .ok (cmpIntDbl x (decode b))) :=
  ⟨fun hu hl hx => compareInt64Double_correct c hu hl x hx _ hy (decode_wf b),
   fun hu hx => compareUint64Double_partial c x hx _ hy (decode_wf b) (Or.inl hu)⟩

/-- `cmpIntDbl` is the comparison in ℚ (so the theorems above and below read: "= cmp (x:ℚ) (y:ℚ)") -/
theorem cmpIntDbl_eq_rat (n : Int) (neg : Bool) (m : Nat) (e : Int) :
    cmpIntDbl n (.fin neg m e) = cmpQ (n : ℚ) (Dbl.toRat (.fin neg m e)) := cmpIntDbl_eq_cmpQ n neg m e

/-- what holds on every tree (the pinned one included): exact for every double other than 2^63 (signed) / 2^64 (unsigned) -/
theorem compare_mixed_partial (c : Cfg) (x : Int) (b : Nat) (hy : decode b ≠ .nan) :
    (c.cmpSLowerIncl = false → Kind.s64.inRange x → cmpIntDbl two63 (decode b) ≠ 0 →
        compareInt64Double c x (decode b) = .ok (cmpIntDbl x (decode b))) ∧
    (Kind.u64.inRange x → cmpIntDbl two64 (decode b) ≠ 0 → compareUint64Double c x (decode b) = .ok (cmpIntDbl x (decode b))) :=
  ⟨fun hl hx h => compareInt64Double_partial c hl x hx _ hy (decode_wf b) (Or.inr h),
   fun hx h => compareUint64Double_partial c x hx _ hy (decode_wf b) (Or.inr h)⟩

/-- the missing part on the pinned tree: `(compare (int/s64 5) 9223372036854775808)` casts 2^63 to int64_t (undefined;
    x86-64 yields INT64_MIN, so the answer is 1 instead of -1); same for u64 and 2^64 -/
theorem compare_wrong_on_pinned :
    compareInt64Double cfgPinned 5 (decode 0x43e0000000000000) = .ub ∧ cmpIntDbl 5 (decode 0x43e0000000000000) = -1 ∧
    compareUint64Double cfgPinned 5 (decode 0x43f0000000000000) = .ub ∧ cmpIntDbl 5 (decode 0x43f0000000000000) = -1 :=
  compare_ub_on_pinned

/-- s64 against u64, and same-kind pairs: ordered by mathematical value -/
theorem compare_ints_correct (c : Cfg) (x y : Int) (hx : Kind.s64.inRange x) (hy : Kind.u64.inRange y) :
    compareMethod c .s64 x (.u64 y) = .ok (some (cmp3 x y)) ∧ compareMethod c .u64 y (.s64 x) = .ok (some (cmp3 y x)) ∧
    compareMethod c .s64 x (.s64 y) = .ok (some (cmp3 x y)) ∧ compareMethod c .u64 x (.u64 y) = .ok (some (cmp3 x y)) :=
  compareMethod_ints c x y hx hy

/-- **a number operand is converted exactly or refused** — for every double d (every 64-bit pattern b), the number branch of
    `janet_unwrap_s64` / `janet_unwrap_u64` (reached from int/s64, int/u64 and every operator method, direct or reversed) either
    raises "can not convert", or returns exactly the integer that d denotes, and that integer fits the type: the cast `(int64_t) d` /
    `(uint64_t) d` never leaves the range, nothing wraps.  The accepted window `unwrapS64Lo..unwrapS64Hi` / `unwrapU64Lo..unwrapU64Hi`
    is regenerated from the range test in inttypes.c / janet.h with the bounds evaluated as the C compiler does; the obligation on it
    (`by decide` below) is that it lies inside the type.  It does not check for a test such as `d <= (double) INT64_MAX`:
    that bound is 2^63 (see `unwrap_number_wraps_with_rounded_up_bound`). -/
theorem unwrap_number_exact_or_rejected (d : Dbl) (b : Nat) :
    (numToS64 d = none ∨ ∃ n, d.toInt? = some n ∧ Kind.s64.inRange n ∧ numToS64 d = some n) ∧
    (numToU64 d = none ∨ ∃ n, d.toInt? = some n ∧ Kind.u64.inRange n ∧ numToU64 d = some n) ∧
    (unwrapS (.num b) = .err .cvts ∨ ∃ n, (decode b).toInt? = some n ∧ Kind.s64.inRange n ∧ unwrapS (.num b) = .ok n) ∧
    (unwrapU (.num b) = .err .cvtu ∨ ∃ n, (decode b).toInt? = some n ∧ Kind.u64.inRange n ∧ unwrapU (.num b) = .ok n) := by
  have hS := fun d => numToS64W_exact unwrapS64Lo unwrapS64Hi (by decide) (by decide) d
  have hU := fun d => numToU64W_exact unwrapU64Lo unwrapU64Hi (by decide) (by decide) d
  refine ⟨hS d, hU d, ?_, ?_⟩
  · rcases hS (decode b) with h | ⟨n, h1, h2, h3⟩
    · left; simp only [unwrapS, numToS64, h]
    · right; exact ⟨n, h1, h2, by simp only [unwrapS, numToS64, h3]⟩
  · rcases hU (decode b) with h | ⟨n, h1, h2, h3⟩
    · left; simp only [unwrapU, numToU64, h]
    · right; exact ⟨n, h1, h2, by simp only [unwrapU, numToU64, h3]⟩

/-- the statement above is about the bound, not a tautology of the model: with the window that "every integral double from
    `(double) INT64_MIN` to `(double) INT64_MAX`" describes, the double 2^63 is accepted and `(int/s64 9223372036854775808)` is
    INT64_MIN; with `0 .. (double) UINT64_MAX`, 2^64 is accepted and becomes 0 -/
theorem unwrap_number_wraps_with_rounded_up_bound :
    (decode 0x43e0000000000000).toInt? = some two63 ∧
    numToS64W (-two63) two63 (decode 0x43e0000000000000) = some int64Min ∧
    (decode 0x43f0000000000000).toInt? = some two64 ∧
    numToU64W 0 two64 (decode 0x43f0000000000000) = some 0 := unwrap_window_rounded_up_wraps

/-- non-vacuity: 2^53 is accepted at its value, -2^53 by s64 only, 2^53+2 and 2^63 are refused, 0.5 is refused -/
example : unwrapS (.num 0x4340000000000000) = .ok two53 ∧ unwrapU (.num 0x4340000000000000) = .ok two53 ∧
    unwrapS (.num 0xc340000000000000) = .ok (-two53) ∧ unwrapU (.num 0xc340000000000000) = .err .cvtu ∧
    unwrapS (.num 0x4340000000000001) = .err .cvts ∧ unwrapS (.num 0x43e0000000000000) = .err .cvts ∧
    unwrapU (.num 0x43f0000000000000) = .err .cvtu ∧ unwrapS (.num 0x3fe0000000000000) = .err .cvts := by
  refine ⟨by decide, by decide, by decide, by decide, by decide, by decide, by decide, by decide⟩

/-- number operands: accepted exactly when the double is an integer inside the regenerated window (magnitude ≤ 2^53, and ≥ 0 for
    u64, on the current tree), and then taken at its exact value -/
theorem unwrap_range (d : Dbl) (n : Int) :
    (numToS64 d = some n ↔ d.toInt? = some n ∧ unwrapS64Lo ≤ n ∧ n ≤ unwrapS64Hi) ∧
    (numToU64 d = some n ↔ d.toInt? = some n ∧ unwrapU64Lo ≤ n ∧ n ≤ unwrapU64Hi) ∧
    unwrapS64Lo = -two53 ∧ unwrapS64Hi = two53 ∧ unwrapU64Lo = 0 ∧ unwrapU64Hi = two53 := by
  have hi := numToW_some_iff
  refine ⟨?_, ?_, by decide, by decide, by decide, by decide⟩
  · rw [numToS64, (hi unwrapS64Lo unwrapS64Hi d n).1]
    constructor
    · rintro ⟨m, h1, h2, h3, h4⟩
      have hm : castS64 m = m := castS64_of_fits m (by simp only [unwrapS64Lo, unwrapS64Hi] at h2 h3; simp only [int64Min, int64Max]; omega)
      rw [hm] at h4; subst h4; exact ⟨h1, h2, h3⟩
    · rintro ⟨h1, h2, h3⟩
      have hm : castS64 n = n := castS64_of_fits n (by simp only [unwrapS64Lo, unwrapS64Hi] at h2 h3; simp only [int64Min, int64Max]; omega)
      exact ⟨n, h1, h2, h3, hm.symm⟩
  · rw [numToU64, (hi unwrapU64Lo unwrapU64Hi d n).2]
    constructor
    · rintro ⟨m, h1, h2, h3, h4⟩
      have hm : castU64 m = m := castU64_of_fits m (by simp only [unwrapU64Lo, unwrapU64Hi] at h2 h3; simp only [two64]; omega)
      rw [hm] at h4; subst h4; exact ⟨h1, h2, h3⟩
    · rintro ⟨h1, h2, h3⟩
      have hm : castU64 n = n := castU64_of_fits n (by simp only [unwrapU64Lo, unwrapU64Hi] at h2 h3; simp only [two64]; omega)
      exact ⟨n, h1, h2, h3, hm.symm⟩

/-! ## numeric strings as operands -/

/-- `janet_unwrap_s64` / `janet_unwrap_u64` of a string: `janet_scan_int64` / `janet_scan_uint64`, "can not convert" when the
    scan rejects; an accepted string is a value of the type (never wraps) -/
theorem string_operand_scanned (k : Kind) (s : List Nat) :
    unwrap k (.str s) =
      (match k with
       | .s64 => (match scanInt64 s with | some n => .ok n | none => .err .cvts)
       | .u64 => (match scanU64 s with | some n => .ok n | none => .err .cvtu)) ∧
    (∀ n, unwrap k (.str s) = .ok n → k.inRange n) := by
  refine ⟨unwrap_str k s, fun n h => ?_⟩
  rw [unwrap_str] at h
  cases k with
  | s64 =>
    simp only [] at h
    cases hs : scanInt64 s with
    | none => rw [hs] at h; exact absurd h (by simp)
    | some m => rw [hs] at h; injection h with h; subst h; exact (scan_results_in_range s).1 m hs
  | u64 =>
    simp only [] at h
    cases hs : scanU64 s with
    | none => rw [hs] at h; exact absurd h (by simp)
    | some m => rw [hs] at h; injection h with h; subst h; exact (scan_results_in_range s).2 m hs

/-- the digit loop of `scan_uint64`: an accepted digit string yields exactly the number it denotes (Horner in the base, `_`
    skipped) and that number fits 64 bits; a digit string denoting more than 2^64-1 is rejected ("does not fit ⇒ error") -/
theorem string_digits_exact_or_rejected (base : Nat) (ds : List Nat) (seen : Bool) :
    (∀ v, scanDigits base ds 0 seen = some v → v = digitsValue base ds 0 ∧ v ≤ uint64Max) ∧
    (uint64Max < digitsValue base ds 0 → scanDigits base ds 0 seen = none) :=
  ⟨fun v h => scanDigits_some base ds 0 seen v (by decide) h, fun h => scanDigits_overflow_none base ds 0 seen (by decide) h⟩

/-- **every operator entry coerces a string the same way**: in either argument position of every two-argument method of
    both types (the 6 macros incl. the reversed `r-`, `r/`, `r%`, `rmod` forms, and the hand-written `div`/`rdiv`/`mod`/`rmod` of
    s64) a string that scans to `n` behaves exactly as the box holding `n`, and a string that does not scan / does not fit makes
    the call fail with the conversion error.  (The VM opcodes reach these methods through `binopCall` —
    `dispatch_left_then_reversed_right`; the n-ary methods are folds of them — `nary_methods_are_left_folds`.) -/
theorem string_operands_every_entry (c : Cfg) (k : Kind) (f mac name oper : String)
    (hrow : lookupInstance f = some (mac, kindName k, name, oper)) (hmac : IsBinaryMacro mac) (s : List Nat) :
    (∀ n other, unwrap k (.str s) = .ok n →
      callCfun2 c k f other (.str s) = callCfun2 c k f other (Val.box k n) ∧
      callCfun2 c k f (.str s) other = callCfun2 c k f (Val.box k n) other) ∧
    (∀ e a, unwrap k (.str s) = .err e →
      callCfun2 c k f (Val.box k a) (.str s) = .err e ∧ callCfun2 c k f (.str s) (Val.box k a) = .err e) :=
  ⟨fun n other h => callCfun2_str_ok c k f mac name oper hrow hmac s n h other,
   fun e a h => callCfun2_str_err c k f mac name oper hrow hmac s e h a⟩

theorem string_operands_handwritten (c : Cfg) (f : String) (hf : f = "s64_divf" ∨ f = "s64_divfi" ∨ f = "s64_mod" ∨ f = "s64_modi")
    (s : List Nat) (other : Val) :
    (∀ n, unwrapS (.str s) = .ok n →
      callCfun2 c .s64 f other (.str s) = callCfun2 c .s64 f other (.s64 n) ∧
      callCfun2 c .s64 f (.str s) other = callCfun2 c .s64 f (.s64 n) other) ∧
    (∀ e a, unwrapS (.str s) = .err e →
      callCfun2 c .s64 f (.s64 a) (.str s) = .err e ∧ callCfun2 c .s64 f (.str s) (.s64 a) = .err e) :=
  callCfun2_str_hand c f hf s other

/-- every two-argument method of the current tree is covered by the two theorems above (macro rows are all of the six
    two-argument macros or `UNARYMETHOD`; the remaining table entries are the four hand-written ones and `compare`) -/
theorem string_entries_complete :
    (instances.all (fun r => r.2.1 == "UNARYMETHOD" || r.2.1 == "OPMETHOD" || r.2.1 == "OPMETHODINVERT" || r.2.1 == "DIVMETHOD" ||
        r.2.1 == "DIVMETHODINVERT" || r.2.1 == "DIVMETHOD_SIGNED" || r.2.1 == "DIVMETHODINVERT_SIGNED")) = true ∧
    ((s64Methods ++ u64Methods).all (fun m => (instances.any (fun r => r.1 == m.2)) ||
        m.2 == "s64_divf" || m.2 == "s64_divfi" || m.2 == "s64_mod" || m.2 == "s64_modi" || m.2 == "s64_compare" || m.2 == "u64_compare")) = true := by
  refine ⟨by decide, by decide⟩

example : unwrap .s64 (.str [45, 49]) = .ok (-1) ∧ unwrap .u64 (.str [45, 49]) = .err .cvtu := by decide

/-! ## calls with more than two arguments -/

/-- `(+ a b c ...)`, `(div a b c ...)`, ... with any mix of numbers / boxed integers / strings: the core function is the
    left fold of the VM's binary opcode (number fast path or method dispatch at *every* step) over the arguments;
    an error or undefined operation at one step is the result -/
theorem varops_are_left_folds (c : Cfg) (N : NumOps) (x y : Val) (rest : List Val) :
    ∀ p ∈ [("+", "binop", "+"), ("-", "binop", "-"), ("*", "binop", "*"), ("/", "binop", "/"), ("div", "divfloor", "div"),
           ("mod", "modulo", "mod"), ("%", "remainder", "%"), ("band", "bitop", "&"), ("bor", "bitop", "|"), ("bxor", "bitop", "^"),
           ("blshift", "bitop", "<<"), ("brshift", "bitop", ">>"), ("brushift", "bitopu", ">>")],
      evalFn c N p.1 (x :: y :: rest) =
        rest.foldl (fun acc z => acc.bind (fun a => vmOp c N p.2.1 p.2.2 a z)) (vmOp c N p.2.1 p.2.2 x y) :=
  JanetModel.Int64.varops_are_left_folds c N x y rest

/-- the looping methods called directly with n operands (`(:+ x b1 ... bn)`): the sum / product of all operands, reduced
    mod 2^64 (stated for operands boxed in the receiver's kind) -/
theorem nary_methods_wrap (k : Kind) (a : Int) (bs : List Int) :
    (∃ r, methodLoop k (opMethod k "+") none a (bs.map (Val.box k)) = .ok r ∧ (bs = [] ∨ k.inRange r) ∧
      BitVec.ofInt 64 r = BitVec.ofInt 64 (a + bs.sum)) ∧
    (∃ r, methodLoop k (opMethod k "*") none a (bs.map (Val.box k)) = .ok r ∧
      BitVec.ofInt 64 r = BitVec.ofInt 64 (bs.foldl (· * ·) a)) :=
  ⟨methodLoop_add k a bs, methodLoop_mul k a bs⟩

/-- every looping method (`OPMETHOD`, `DIVMETHOD`, `DIVMETHOD_SIGNED`: `janet_arity(argc, 2, -1)`) called with n ≥ 3
    operands of any mix (numbers, strings, boxed integers of either kind) is the **left fold of the two-argument method
    call**: `(:op a0 a1 a2 ...)` = `(:op (:op (:op a0 a1) a2) ...)`, with the same error at the same place (an operand
    that does not convert, a zero divisor, INT64_MIN / -1) and the same undefined operation if a guard is missing — for
    any configuration, provided the zero test inside the loop agrees with the two-argument form (`ZeroConsistent`:
    an early `return` on a zero divisor does not). -/
theorem nary_methods_are_left_folds (c : Cfg) (k : Kind) (f mac name oper : String)
    (hrow : lookupInstance f = some (mac, kindName k, name, oper)) (hmac : IsLoopMacro mac)
    (hz : mac = "OPMETHOD" ∨ ZeroConsistent (loopStep c k mac name oper) (loopZero c name))
    (a0 a1 a2 : Val) (rest : List Val) :
    callCfunN c k f (a0 :: a1 :: a2 :: rest) =
      (a2 :: rest).foldl (fun acc z => acc.bind (fun v => callCfun2 c k f v z)) (callCfun2 c k f a0 a1) :=
  callCfunN_eq_fold c k f mac name oper hrow hmac hz a0 a1 a2 rest

/-- the missing part on a tree whose loop `return`s at a zero divisor (janet before 2a2188c): `(:mod (int/u64 7) 0 3)` is 7,
    the fold `(:mod (:mod (int/u64 7) 0) 3)` is 1; and a later operand that does not convert is not even looked at -/
theorem nary_mod_not_fold_on_pinned :
    callCfunN cfgPinned .u64 "u64_mod" [.u64 7, .s64 0, .u64 3] = .ok (.u64 7) ∧
    ([Val.u64 3].foldl (fun acc z => acc.bind (fun v => callCfun2 cfgPinned .u64 "u64_mod" v z))
        (callCfun2 cfgPinned .u64 "u64_mod" (.u64 7) (.s64 0))) = .ok (.u64 1) ∧
    callCfunN cfgPinned .u64 "u64_mod" [.u64 7, .s64 0, .str [97]] = .ok (.u64 7) := by
  refine ⟨by decide, by decide, by decide⟩

/-! ## chained comparators -/

/-- `(< x y z ...)`, `(<= ...)`, `(> ...)`, `(>= ...)`, `(= ...)`, `(not= ...)` on any values: the **conjunction of the
    adjacent comparisons** (`vm_compop` resp. `janet_equals` on each adjacent pair; `not=` is its negation) -/
theorem chained_comparators_are_conjunctions (c : Cfg) (N : NumOps) (x : Val) (rest : List Val) :
    (∀ op ∈ ["<", "<=", ">", ">="],
      evalFn c N op (x :: rest) = .ok (.bool ((adjacentPairs x rest).all (fun p => primCmp c op p.1 p.2)))) ∧
    evalFn c N "=" (x :: rest) = .ok (.bool ((adjacentPairs x rest).all (fun p => janetEquals p.1 p.2))) ∧
    evalFn c N "not=" (x :: rest) = .ok (.bool (!(adjacentPairs x rest).all (fun p => janetEquals p.1 p.2))) := by
  refine ⟨fun op hop => ?_, ?_, ?_⟩
  · simp only [List.mem_cons, List.mem_nil_iff, or_false] at hop
    rcases hop with rfl | rfl | rfl | rfl
    all_goals
      refine Eq.trans (b := comparatorLoop (fun a b => .ok (.bool (primCmp c _ a b))) false x rest) rfl ?_
      rw [comparatorLoop_conj]; simp
  · refine Eq.trans (b := comparatorLoop (fun a b => .ok (.bool (janetEquals a b))) false x rest) rfl ?_
    rw [comparatorLoop_conj]; simp
  · refine Eq.trans (b := comparatorLoop (fun a b => .ok (.bool (janetEquals a b))) true x rest) rfl ?_
    rw [comparatorLoop_conj]; simp

/-- evaluated left to right, **first failure decides**: if the adjacent comparisons of `x :: pre` all hold and the next one
    (`a` = last of `x :: pre`, against `b`) does not answer true, the loop answers right there — `false` for a comparator
    (`true` for `not=`), or the error of that step — whatever operands `suf` follow -/
theorem chained_comparison_short_circuits (step : Val → Val → Res Val) (invert : Bool) (x : Val) (pre : List Val) (a b : Val)
    (suf : List Val) (hlast : (x :: pre).getLast? = some a)
    (hpre : ∀ p ∈ adjacentPairs x pre, step p.1 p.2 = .ok (.bool true)) (hstop : step a b ≠ .ok (.bool true)) :
    comparatorLoop step invert x (pre ++ b :: suf) = chainStop invert (step a b) :=
  comparatorLoop_first_failure step invert x pre a b suf hlast hpre hstop

/-- boot.janet's polymorphic chains `compare<`, `compare<=`, `compare=`, `compare>`, `compare>=` are the same loop with
    the step `(op (compare x y) 0)` (so the two theorems above apply to them as well, errors of `compare` included) -/
theorem poly_comparators_are_chains (c : Cfg) (N : NumOps) (x : Val) (rest : List Val) :
    ∀ p ∈ [("compare<", "JOP_LESS_THAN"), ("compare<=", "JOP_LESS_THAN_EQUAL"), ("compare=", "JOP_EQUALS"),
           ("compare>", "JOP_GREATER_THAN"), ("compare>=", "JOP_GREATER_THAN_EQUAL")],
      evalFn c N p.1 (x :: rest) = comparatorLoop (polyStep c N p.2) false x rest := by
  intro p hp
  rw [← compareReduce_eq_loop]
  simp only [List.mem_cons, List.mem_nil_iff, or_false] at hp
  rcases hp with rfl | rfl | rfl | rfl | rfl <;> rfl

example : evalFn cfgGen ⟨fun _ _ => 0, fun _ _ => 0, fun _ _ => 0, fun _ _ => 0, fun _ => 0, fun _ _ => 0⟩ "<"
    [.s64 1, .s64 2, .s64 2, .str [120]] = .ok (.bool false) := by decide

/-! ## the VM's 32-bit bitwise opcodes on plain numbers

`bitop32` is `_vm_bitop`: left operand must pass `janet_checkintrange` (`janet_checkuintrange` for `brushift`), right operand
`janet_checkintrange` (`checkIntRange_iff`: integer-valued double inside the 32-bit range; macro shapes asserted by the
translator), then `bitop32Value`, then back to a double. -/

theorem bitwise32_range_checks (d : Dbl) (n : Int) :
    (checkIntRange d = some n ↔ d.toInt? = some n ∧ -two31 ≤ n ∧ n < two31) ∧
    (checkUintRange d = some n ↔ d.toInt? = some n ∧ 0 ≤ n ∧ n < two32) := checkIntRange_iff d n

/-- for in-range operands the result is the two's-complement `BitVec 32` operation (signed opcodes and `brushift` alike),
    shifts for counts 0..31 -/
theorem bitwise32_eq_bitvec (u : Bool) (x1 x2 : Int) :
    (∃ r, bitop32Value u "&" x1 x2 = some r ∧ inRange32 u r ∧ BitVec.ofInt 32 r = BitVec.ofInt 32 x1 &&& BitVec.ofInt 32 x2) ∧
    (∃ r, bitop32Value u "|" x1 x2 = some r ∧ inRange32 u r ∧ BitVec.ofInt 32 r = BitVec.ofInt 32 x1 ||| BitVec.ofInt 32 x2) ∧
    (∃ r, bitop32Value u "^" x1 x2 = some r ∧ inRange32 u r ∧ BitVec.ofInt 32 r = BitVec.ofInt 32 x1 ^^^ BitVec.ofInt 32 x2) ∧
    (0 ≤ x2 ∧ x2 < 32 →
      (∃ r, bitop32Value u "<<" x1 x2 = some r ∧ inRange32 u r ∧ BitVec.ofInt 32 r = BitVec.ofInt 32 x1 <<< x2.toNat) ∧
      (-two31 ≤ x1 ∧ x1 < two31 → bitop32Value false ">>" x1 x2 = some ((BitVec.ofInt 32 x1).sshiftRight x2.toNat).toInt) ∧
      (0 ≤ x1 ∧ x1 < two32 → ∃ r, bitop32Value true ">>" x1 x2 = some r ∧ r = (((BitVec.ofInt 32 x1) >>> x2.toNat).toNat : Int))) :=
  ⟨bitop32_and u x1 x2, bitop32_or u x1 x2, bitop32_xor u x1 x2,
   fun h => ⟨bitop32_shl u x1 x2 h, fun h1 => bitop32_sar x1 x2 h1 h, fun h1 => bitop32_shr x1 x2 h1 h⟩⟩

/-! ## plain numbers: `div`, `mod`, `%` (handlers `JOP_DIVIDE_FLOOR`, `JOP_MODULO`, `JOP_REMAINDER`; shapes asserted by the translator)

IEEE arithmetic itself is abstract (`NumOps`); the assumptions are named: `FloorExact N` (libm `floor` returns the
mathematical floor of a finite double) and `ExactAt f op a b` (operation `f` does not round at this input). -/

theorem num_div_is_floor_of_quotient (N : NumOps) (hf : FloorExact N) (a b : Nat) :
    numDivFloor N a b = N.floor (N.div a b) ∧
    (FinBits (N.div a b) → valQ (numDivFloor N a b) = (⌊valQ (N.div a b)⌋ : ℚ)) ∧
    (ExactAt N.div (· / ·) a b → valQ (numDivFloor N a b) = (⌊valQ a / valQ b⌋ : ℚ)) :=
  ⟨rfl, (num_div_value N hf a b).1, (num_div_value N hf a b).2⟩

theorem num_mod_zero_is_dividend (N : NumOps) (a b : Nat) (hz : isZeroBits b = true) : numModulo N a b = a :=
  JanetModel.Int64.num_mod_zero_is_dividend N a b hz

/-- `(mod a b)` = a - b⌊a/b⌋, in [0, b) for b > 0 and in (b, 0] for b < 0 (sign of the divisor) -/
theorem num_mod_floor_convention (N : NumOps) (hf : FloorExact N) (a b : Nat) (hb : FinBits b) (hz : isZeroBits b = false)
    (hd : ExactAt N.div (· / ·) a b) (hm : ExactAt N.mul (· * ·) b (N.floor (N.div a b)))
    (hs : ExactAt N.sub (· - ·) a (N.mul b (N.floor (N.div a b)))) :
    valQ (numModulo N a b) = valQ a - valQ b * (⌊valQ a / valQ b⌋ : ℚ) ∧
    (0 < valQ b → 0 ≤ valQ (numModulo N a b) ∧ valQ (numModulo N a b) < valQ b) ∧
    (valQ b < 0 → valQ b < valQ (numModulo N a b) ∧ valQ (numModulo N a b) ≤ 0) :=
  num_mod_value N hf a b hb hz hd hm hs

theorem num_rem_is_fmod (N : NumOps) (a b : Nat) : numRemainder N a b = N.fmod a b := rfl

/-! ### the IEEE-754 primitives themselves: the executable instance `Ieee.ieee` (what `jm_c14` runs, compared bit for bit with
the hardware on ≥ 10^5 operand pairs per run)

`Ieee.rneQ : ℚ → ℚ` is the mathematical round-to-nearest-even of binary64 (53 significant bits, quantum never below 2^-1074,
exponent unbounded above; Flocq's `round radix2 (FLT_exp (-1074) 53) ZnearestE`).  Each operation on finite operands is `rneQ`
of the exact rational result, ±infinity when that is ≥ 2^1024 in magnitude. -/

open JanetModel.Int64.Ieee in
/-- the specification is a nearest-even rounding: within half a unit in the last place, ties to the even significand,
    integers are fixed points of the integer rounding, binary64 values are fixed points of `rneQ` -/
theorem ieee_rounding_is_nearest_even (x : ℚ) (r : ℚ) (n : ℤ) (a : Nat) (ha : FinBits a) :
    |rneQ x - x| ≤ 2 ^ cexp x / 2 ∧ |(rneInt r : ℚ) - r| ≤ 1 / 2 ∧ (r - ⌊r⌋ = 1 / 2 → rneInt r % 2 = 0) ∧ rneInt (n : ℚ) = n ∧
    (rneQ (valQ a) = valQ a ∧ |valQ a| < 2 ^ (1024 : ℤ)) :=
  ⟨rneQ_half_ulp x, rneInt_half r, rneInt_tie_even r, rneInt_intCast n, repr64_of_finBits a ha⟩

open JanetModel.Int64.Ieee in
/-- ★ the specification `rneQ` is IEEE-754 roundTiesToEven: `rneQ x` is a closest value of the format to `x` — no finite double,
    indeed no `± m · 2^e` with m < 2^53, e ≥ -1074 (exponent unbounded above), is closer (ties: the even significand,
    `ieee_rounding_is_nearest_even`) -/
theorem ieee_rounding_nearest_among_doubles (x : ℚ) :
    (∀ c, FinBits c → |rneQ x - x| ≤ |valQ c - x|) ∧
    (∀ (n : Bool) (m : Nat) (e : ℤ), m < 9007199254740992 → -1074 ≤ e → |rneQ x - x| ≤ |sgnQ n * ((m : ℚ) * 2 ^ e) - x|) :=
  ⟨fun c hc => rneQ_nearest_binary64 x c hc, fun n m e hm he => rneQ_nearest x n m e hm he⟩

open JanetModel.Int64.Ieee in
/-- ★ "operators on ordinary numbers equal IEEE-754 double arithmetic": `+ - * /` of the instance on two finite doubles
    (b ≠ 0 for `/`) give the correctly rounded exact result — a finite double whose value is `rneQ` of the exact rational
    when that is below 2^1024 in magnitude, otherwise the infinity with the sign of the exact result -/
theorem ieee_ops_correctly_rounded (a b : Nat) (n1 n2 : Bool) (m1 m2 : Nat) (e1 e2 : ℤ)
    (ha : decode a = .fin n1 m1 e1) (hb : decode b = .fin n2 m2 e2) :
    ((|rneQ (valQ a + valQ b)| < 2 ^ (1024 : ℤ) → FinBits (ieee.add a b) ∧ valQ (ieee.add a b) = rneQ (valQ a + valQ b)) ∧
     ((2 : ℚ) ^ (1024 : ℤ) ≤ |rneQ (valQ a + valQ b)| → decode (ieee.add a b) = .inf (decide (valQ a + valQ b < 0)))) ∧
    ((|rneQ (valQ a - valQ b)| < 2 ^ (1024 : ℤ) → FinBits (ieee.sub a b) ∧ valQ (ieee.sub a b) = rneQ (valQ a - valQ b)) ∧
     ((2 : ℚ) ^ (1024 : ℤ) ≤ |rneQ (valQ a - valQ b)| → decode (ieee.sub a b) = .inf (decide (valQ a - valQ b < 0)))) ∧
    ((|rneQ (valQ a * valQ b)| < 2 ^ (1024 : ℤ) → FinBits (ieee.mul a b) ∧ valQ (ieee.mul a b) = rneQ (valQ a * valQ b)) ∧
     ((2 : ℚ) ^ (1024 : ℤ) ≤ |rneQ (valQ a * valQ b)| → decode (ieee.mul a b) = .inf (n1 != n2))) ∧
    (m2 ≠ 0 →
     (|rneQ (valQ a / valQ b)| < 2 ^ (1024 : ℤ) → FinBits (ieee.div a b) ∧ valQ (ieee.div a b) = rneQ (valQ a / valQ b)) ∧
     ((2 : ℚ) ^ (1024 : ℤ) ≤ |rneQ (valQ a / valQ b)| → decode (ieee.div a b) = .inf (n1 != n2))) :=
  ⟨add_correct a b n1 n2 m1 m2 e1 e2 ha hb, sub_correct a b n1 n2 m1 m2 e1 e2 ha hb, mul_correct a b n1 n2 m1 m2 e1 e2 ha hb,
   fun h => div_correct a b n1 n2 m1 m2 e1 e2 ha hb h⟩

open JanetModel.Int64.Ieee in
/-- the IEEE-754 rules for the special values, as the instance has them (and as the hardware answers, bit for bit, on every run):
    NaN operands give NaN; ∞+∞ = ∞, ∞−∞ = NaN, ∞·∞ = ±∞, ∞/∞ = NaN, 0·∞ = NaN, x/∞ = ±0, fmod(x, ∞) = x; x/±0 = ±∞, 0/0 = NaN,
    fmod(x, 0) = NaN; an exact zero sum is +0 unless both operands are −0; zero products / quotients carry the xor of the signs -/
theorem ieee_special_values (a b : Nat) :
    ((decode a = .nan ∨ decode b = .nan) →
      decode (ieee.add a b) = .nan ∧ decode (ieee.mul a b) = .nan ∧ decode (ieee.div a b) = .nan ∧ decode (ieee.fmod a b) = .nan) ∧
    (∀ n1 n2, decode a = .inf n1 → decode b = .inf n2 →
      decode (ieee.add a b) = (if n1 = n2 then .inf n1 else .nan) ∧ decode (ieee.mul a b) = .inf (n1 != n2) ∧ decode (ieee.div a b) = .nan) ∧
    (∀ n1 n2 m e, decode a = .inf n1 → decode b = .fin n2 m e →
      decode (ieee.add a b) = .inf n1 ∧ decode (ieee.mul a b) = (if m = 0 then .nan else .inf (n1 != n2)) ∧ decode (ieee.div a b) = .inf (n1 != n2)) ∧
    (∀ n1 m e n2, decode a = .fin n1 m e → decode b = .inf n2 →
      decode (ieee.add a b) = .inf n2 ∧ decode (ieee.mul a b) = (if m = 0 then .nan else .inf (n1 != n2)) ∧
      decode (ieee.div a b) = .fin (n1 != n2) 0 (-1074) ∧ ieee.fmod a b = a) ∧
    (∀ n1 n2 m1 m2 e1 e2, decode a = .fin n1 m1 e1 → decode b = .fin n2 m2 e2 →
      (m2 = 0 → decode (ieee.div a b) = (if m1 = 0 then .nan else .inf (n1 != n2)) ∧ decode (ieee.fmod a b) = .nan) ∧
      (valQ a + valQ b = 0 → decode (ieee.add a b) = .fin (n1 && n2) 0 (-1074)) ∧
      (m1 = 0 ∨ m2 = 0 → decode (ieee.mul a b) = .fin (n1 != n2) 0 (-1074)) ∧
      (m1 = 0 → m2 ≠ 0 → decode (ieee.div a b) = .fin (n1 != n2) 0 (-1074))) :=
  ⟨nan_propagates a b, (infinity_rules a b).1, (infinity_rules a b).2.1, (infinity_rules a b).2.2,
   fun n1 n2 m1 m2 e1 e2 ha hb => zero_rules a b n1 n2 m1 m2 e1 e2 ha hb⟩

open JanetModel.Int64.Ieee in
/-- ★ libm `floor` of the instance is the mathematical floor (the former hypothesis `FloorExact`), and every operation is
    exact when the exact result is a double (the former per-input hypothesis `ExactAt`) -/
theorem ieee_floor_exact_and_ops_exact_when_representable :
    FloorExact ieee ∧
    (∀ a b c, FinBits a → FinBits b → FinBits c →
      (valQ a + valQ b = valQ c → valQ (ieee.add a b) = valQ c) ∧ (valQ a - valQ b = valQ c → valQ (ieee.sub a b) = valQ c) ∧
      (valQ a * valQ b = valQ c → valQ (ieee.mul a b) = valQ c) ∧
      (isZeroBits b = false → valQ a / valQ b = valQ c → valQ (ieee.div a b) = valQ c)) :=
  ⟨floor_exact, fun a b c ha hb hc => ops_exact_when_representable a b c ha hb hc⟩

open JanetModel.Int64.Ieee in
/-- ★ what the janet VM computes for `(div a b)` on two finite doubles, b ≠ 0, in terms of the exact rationals:
    **⌊RN(a / b)⌋** (RN = `rneQ`); no hypothesis about the primitives (only: the quotient does not overflow) -/
theorem num_div_is_floor_of_rounded_quotient (a b : Nat) (ha : FinBits a) (hb : FinBits b) (hz : isZeroBits b = false)
    (hfin : |rneQ (valQ a / valQ b)| < 2 ^ (1024 : ℤ)) :
    FinBits (numDivFloor ieee a b) ∧ valQ (numDivFloor ieee a b) = ((⌊rneQ (valQ a / valQ b)⌋ : ℤ) : ℚ) :=
  (ieee_num_div a b ha hb hz hfin).2.2

open JanetModel.Int64.Ieee in
/-- ★ `(mod a b)`, b ≠ 0: **RN(a − RN(b · ⌊RN(a / b)⌋))**; and when the three exact intermediate results are doubles
    (`Repr64`: fixed by the rounding, in range — true e.g. of integers of moderate size) it is a − b⌊a/b⌋ exactly, with the
    sign of the divisor: in [0, b) for b > 0, in (b, 0] for b < 0.  `(mod a ±0)` = a: `num_mod_zero_is_dividend`.
    `(% a b)` is C `fmod`, computed exactly by the instance (`num_rem_is_fmod`). -/
theorem num_mod_over_ieee (a b : Nat) (ha : FinBits a) (hb : FinBits b) (hz : isZeroBits b = false) :
    (|rneQ (valQ a / valQ b)| < 2 ^ (1024 : ℤ) →
     |rneQ (valQ b * ((⌊rneQ (valQ a / valQ b)⌋ : ℤ) : ℚ))| < 2 ^ (1024 : ℤ) →
     |rneQ (valQ a - rneQ (valQ b * ((⌊rneQ (valQ a / valQ b)⌋ : ℤ) : ℚ)))| < 2 ^ (1024 : ℤ) →
     valQ (numModulo ieee a b) = rneQ (valQ a - rneQ (valQ b * ((⌊rneQ (valQ a / valQ b)⌋ : ℤ) : ℚ)))) ∧
    (Repr64 (valQ a / valQ b) → Repr64 (valQ b * ((⌊valQ a / valQ b⌋ : ℤ) : ℚ)) →
     Repr64 (valQ a - valQ b * ((⌊valQ a / valQ b⌋ : ℤ) : ℚ)) →
     valQ (numModulo ieee a b) = valQ a - valQ b * ((⌊valQ a / valQ b⌋ : ℤ) : ℚ) ∧
     (0 < valQ b → 0 ≤ valQ (numModulo ieee a b) ∧ valQ (numModulo ieee a b) < valQ b) ∧
     (valQ b < 0 → valQ b < valQ (numModulo ieee a b) ∧ valQ (numModulo ieee a b) ≤ 0)) :=
  ⟨fun h1 h2 h3 => (ieee_num_mod a b ha hb hz h1 h2 h3).2, fun r1 r2 r3 => ieee_num_mod_exact a b ha hb hz r1 r2 r3⟩

open JanetModel.Int64.Ieee in
/-- ★ `(% a b)` on two finite doubles, b ≠ 0, is C `fmod`: **exactly** a − b·trunc(a / b) (a double; nothing is rounded) -/
theorem num_rem_is_exact_fmod (a b : Nat) (nx ny : Bool) (mx my : Nat) (ex ey : ℤ)
    (ha : decode a = .fin nx mx ex) (hb : decode b = .fin ny my ey) (hmy : my ≠ 0) :
    numRemainder ieee a b = ieee.fmod a b ∧ FinBits (numRemainder ieee a b) ∧
    valQ (numRemainder ieee a b) = valQ a - valQ b * ((truncQ (valQ a / valQ b) : ℤ) : ℚ) :=
  ⟨rfl, fmod_exact a b nx ny mx my ex ey ha hb hmy⟩

open JanetModel.Int64.Ieee in
/-- non-vacuity: `(mod 7 2)` — all hypotheses of the exact case hold, the result is 1 -/
example : valQ (numModulo ieee 0x401c000000000000 0x4000000000000000) = 1 := by
  have d7 : decode 0x401c000000000000 = .fin false 7881299347898368 (-50) := by decide
  have d2 : decode 0x4000000000000000 = .fin false 4503599627370496 (-51) := by decide
  have d35 : decode 0x400c000000000000 = .fin false 7881299347898368 (-51) := by decide
  have d6 : decode 0x4018000000000000 = .fin false 6755399441055744 (-50) := by decide
  have d1 : decode 0x3ff0000000000000 = .fin false 4503599627370496 (-52) := by decide
  have v7 : valQ 0x401c000000000000 = 7 := by rw [valQ_of_decode _ _ _ _ d7]; norm_num [sgnQ, zpow_neg]
  have v2 : valQ 0x4000000000000000 = 2 := by rw [valQ_of_decode _ _ _ _ d2]; norm_num [sgnQ, zpow_neg]
  have v35 : valQ 0x400c000000000000 = 7 / 2 := by rw [valQ_of_decode _ _ _ _ d35]; norm_num [sgnQ, zpow_neg]
  have v6 : valQ 0x4018000000000000 = 6 := by rw [valQ_of_decode _ _ _ _ d6]; norm_num [sgnQ, zpow_neg]
  have v1 : valQ 0x3ff0000000000000 = 1 := by rw [valQ_of_decode _ _ _ _ d1]; norm_num [sgnQ, zpow_neg]
  have hfl : ⌊(7 : ℚ) / 2⌋ = 3 := by rw [Int.floor_eq_iff]; norm_num
  have r1 : Repr64 (valQ 0x401c000000000000 / valQ 0x4000000000000000) := by
    rw [v7, v2, ← v35]; exact repr64_of_finBits _ ⟨_, _, _, d35⟩
  have r2 : Repr64 (valQ 0x4000000000000000 * ((⌊valQ 0x401c000000000000 / valQ 0x4000000000000000⌋ : ℤ) : ℚ)) := by
    rw [v7, v2, hfl]
    have : (2 : ℚ) * ((3 : ℤ) : ℚ) = valQ 0x4018000000000000 := by rw [v6]; norm_num
    rw [this]; exact repr64_of_finBits _ ⟨_, _, _, d6⟩
  have r3 : Repr64 (valQ 0x401c000000000000 - valQ 0x4000000000000000 * ((⌊valQ 0x401c000000000000 / valQ 0x4000000000000000⌋ : ℤ) : ℚ)) := by
    rw [v7, v2, hfl]
    have : (7 : ℚ) - 2 * ((3 : ℤ) : ℚ) = valQ 0x3ff0000000000000 := by rw [v1]; norm_num
    rw [this]; exact repr64_of_finBits _ ⟨_, _, _, d1⟩
  have hz : isZeroBits 0x4000000000000000 = false := by unfold isZeroBits; rw [d2]; rfl
  have := ((num_mod_over_ieee _ _ ⟨_, _, _, d7⟩ ⟨_, _, _, d2⟩ hz).2 r1 r2 r3).1
  rw [this, v7, v2, hfl]; norm_num

/-! ### integer-valued numbers: the handlers are exact, and agree with the int/s64 and int/u64 operators

`IntVal a x`: the bit pattern `a` is a finite double whose value is the integer `x` (`intVal_of_toInt`: what `Dbl.toInt?`, i.e. the
range checks of the C, report).  No `ExactAt` / `Repr64` hypothesis is left below: representability of every intermediate result is
*proved* from |x|, |y| ≤ 2^53. -/

open JanetModel.Int64.Ieee in
/-- ★ the quotient of two integers of magnitude ≤ 2^53 is never rounded up to the next integer: **⌊RN(p/q)⌋ = ⌊p/q⌋** -/
theorem rounded_integer_quotient_has_same_floor (p q : ℤ) (hp : |p| ≤ 9007199254740992) (hq0 : q ≠ 0) (hq : |q| ≤ 9007199254740992) :
    ⌊rneQ ((p : ℚ) / q)⌋ = ⌊(p : ℚ) / q⌋ ∧ ⌊(p : ℚ) / q⌋ = Int.fdiv p q :=
  ⟨floor_rneQ_ratio p q hp hq0 hq, floor_int_div p q hq0⟩

open JanetModel.Int64.Ieee in
/-- ★ `+ - * div mod %` on integer-valued doubles x, y with |x|, |y| ≤ 2^53 (the range `int/to-number` produces):
    `+ - *` give the exact integer whenever it does not exceed 2^53 in magnitude; **`(div x y)` = `Int.fdiv x y` always**;
    `(mod x y)` = `Int.fmod x y` when y·⌊x/y⌋ does not exceed 2^53 (`mod_side_condition`: same signs, or |x| + |y| ≤ 2^53);
    `(% x y)` = `Int.tmod x y` always (and for integer-valued doubles of any magnitude) -/
theorem num_ops_exact_on_integers (a b : Nat) (x y : ℤ) (ha : IntVal a x) (hb : IntVal b y)
    (hx : |x| ≤ 9007199254740992) (hy : |y| ≤ 9007199254740992) :
    (|x + y| ≤ 9007199254740992 → IntVal (ieee.add a b) (x + y)) ∧
    (|x - y| ≤ 9007199254740992 → IntVal (ieee.sub a b) (x - y)) ∧
    (|x * y| ≤ 9007199254740992 → IntVal (ieee.mul a b) (x * y)) ∧
    (y ≠ 0 → IntVal (numDivFloor ieee a b) (Int.fdiv x y)) ∧
    (y ≠ 0 → |y * Int.fdiv x y| ≤ 9007199254740992 → IntVal (numModulo ieee a b) (Int.fmod x y)) ∧
    (y ≠ 0 → IntVal (numRemainder ieee a b) (Int.tmod x y)) :=
  ⟨(num_arith_int a b x y ha hb).1, (num_arith_int a b x y ha hb).2.1, (num_arith_int a b x y ha hb).2.2,
   fun h => num_div_int a b x y ha hb hx hy h, fun h hp => num_mod_int a b x y ha hb hx hy h hp, fun h => num_rem_int a b x y ha hb h⟩

open JanetModel.Int64.Ieee in
/-- when the side condition of `mod` holds: operands of the same sign, or |x| + |y| ≤ 2^53 -/
theorem mod_side_condition (x y : ℤ) (hx : |x| ≤ 9007199254740992) (hy0 : y ≠ 0)
    (h : (0 ≤ x ∧ 0 < y) ∨ (x ≤ 0 ∧ y < 0) ∨ |x| + |y| ≤ 9007199254740992) : |y * Int.fdiv x y| ≤ 9007199254740992 :=
  mod_product_bound x y hx hy0 h

open JanetModel.Int64.Ieee in
/-- what is *not* true (and therefore not claimed) without the side condition: `(mod 9007199254740991 -3)` on numbers is -1, the
    integer modulus is -2 — the product of -3 and the floor of x / (-3), 2^53 + 1, is not a double and rounds to 2^53.  (The implementation answers -1
    as well; `(mod (int/s64 9007199254740991) -3)` is -2.  Corpus line `mod n:433fffffffffffff n:c008000000000000`.) -/
theorem num_mod_int_rounds_witness :
    numModulo ieee 0x433fffffffffffff 0xc008000000000000 = 0xbff0000000000000 ∧
    (decode 0x433fffffffffffff).toInt? = some 9007199254740991 ∧ (decode 0xc008000000000000).toInt? = some (-3) ∧
    (decode 0xbff0000000000000).toInt? = some (-1) ∧ Int.fmod 9007199254740991 (-3) = -2 ∧
    ¬ (|(-3 : ℤ) * Int.fdiv 9007199254740991 (-3)| ≤ 9007199254740992) := by
  refine ⟨by decide +kernel, by decide +kernel, by decide +kernel, by decide +kernel, by decide +kernel, by decide +kernel⟩

open JanetModel.Int64.Ieee in
/-- ★ **consistently defined**: for integers x, y of magnitude ≤ 2^53 the operator on two *numbers* (opcode fast path, IEEE
    instance) and the method on two *int/s64* compute the same integer — `+ - *` when the exact result stays within ±2^53,
    `div` always, `mod` under `mod_side_condition`, `%` always (y ≠ 0 for the last three; the s64 methods at the guard
    configuration of the current tree) -/
theorem number_ops_agree_with_s64_ops (c : Cfg) (x y : ℤ) (hx : |x| ≤ 9007199254740992) (hy : |y| ≤ 9007199254740992) :
    (∀ p ∈ [("+", x + y), ("-", x - y), ("*", x * y)], |p.2| ≤ 9007199254740992 →
      opMethod .s64 p.1 x y = .ok p.2 ∧
      ∃ r, vmOp c ieee "binop" p.1 (Val.ofInt x) (Val.ofInt y) = .ok (.num r) ∧ IntVal r p.2) ∧
    (y ≠ 0 →
      (divfMethod c.guardDivf x y = .ok (Int.fdiv x y) ∧
        ∃ r, vmOp c ieee "divfloor" "div" (Val.ofInt x) (Val.ofInt y) = .ok (.num r) ∧ IntVal r (Int.fdiv x y)) ∧
      (|y * Int.fdiv x y| ≤ 9007199254740992 →
        modMethod c.guardMod x y = .ok (Int.fmod x y) ∧
        ∃ r, vmOp c ieee "modulo" "mod" (Val.ofInt x) (Val.ofInt y) = .ok (.num r) ∧ IntVal r (Int.fmod x y)) ∧
      (divMethodS true "rem" "%" x y = .ok (Int.tmod x y) ∧
        ∃ r, vmOp c ieee "remainder" "%" (Val.ofInt x) (Val.ofInt y) = .ok (.num r) ∧ IntVal r (Int.tmod x y))) := by
  have ia := intVal_encodeInt x hx
  have ib := intVal_encodeInt y hy
  have hxs : Kind.s64.inRange x := by have := abs_le.1 hx; simp only [Kind.inRange, int64Min, int64Max]; omega
  have hys : Kind.s64.inRange y := by have := abs_le.1 hy; simp only [Kind.inRange, int64Min, int64Max]; omega
  have hmin : ¬ (x = int64Min ∧ y = -1) := by have := abs_le.1 hx; simp only [int64Min]; omega
  have E := num_ops_exact_on_integers _ _ x y ia ib hx hy
  refine ⟨fun p hp hb => ?_, fun hy0 => ⟨⟨?_, _, rfl, E.2.2.2.1 hy0⟩, fun hp => ⟨?_, _, rfl, E.2.2.2.2.1 hy0 hp⟩, ?_, _, rfl, E.2.2.2.2.2 hy0⟩⟩
  · simp only [List.mem_cons, List.mem_nil_iff, or_false] at hp
    have hr : ∀ z : ℤ, |z| ≤ 9007199254740992 → Kind.s64.inRange z := fun z hz => by
      have := abs_le.1 hz; simp only [Kind.inRange, int64Min, int64Max]; omega
    rcases hp with rfl | rfl | rfl
    · exact ⟨s64_op_exact_of_inRange x y |>.1 (hr _ hb), _, rfl, E.1 hb⟩
    · exact ⟨s64_op_exact_of_inRange x y |>.2.1 (hr _ hb), _, rfl, E.2.1 hb⟩
    · exact ⟨s64_op_exact_of_inRange x y |>.2.2 (hr _ hb), _, rfl, E.2.2.1 hb⟩
  · exact divf_eq_floor_div _ x y hxs hy0 hmin
  · exact mod_eq_floor_mod _ x y hxs hys hy0 (Or.inr hmin)
  · exact ((trunc_div_rem_correct x y hy0).1 hmin).2

/-- ★ **every type mix, both operand orders** (current tree): for integers x, y of magnitude ≤ 2^53 and each of `+ - * / % div mod`, the three
    calls *int/s64 ⊕ number* (left operand's method), *number ⊕ int/s64* (the right operand's reversed method with swapped arguments —
    `r-`, `r/`, `r%`, `rdiv`, `rmod` compute lhs ⊕ rhs) and *int/s64 ⊕ int/s64* all return the int/s64 box holding the same integer: the exact
    sum / difference / product when it is an int64, `Int.tdiv` / `Int.tmod` for `/` `%`, `Int.fdiv` / `Int.fmod` for `div` `mod` (y ≠ 0) — the
    integers `number_ops_agree_with_s64_ops` gives for number ⊕ number -/
theorem s64_type_mixes_agree (N : NumOps) (x y : ℤ) (hx : |x| ≤ 9007199254740992) (hy : |y| ≤ 9007199254740992) :
    (∀ p ∈ [("binop", "+", x + y), ("binop", "-", x - y), ("binop", "*", x * y)], Kind.s64.inRange p.2.2 →
      vmOp cfgGen N p.1 p.2.1 (.s64 x) (Val.ofInt y) = .ok (.s64 p.2.2) ∧ vmOp cfgGen N p.1 p.2.1 (Val.ofInt x) (.s64 y) = .ok (.s64 p.2.2) ∧
      vmOp cfgGen N p.1 p.2.1 (.s64 x) (.s64 y) = .ok (.s64 p.2.2)) ∧
    (y ≠ 0 → ∀ p ∈ [("binop", "/", Int.tdiv x y), ("remainder", "%", Int.tmod x y), ("divfloor", "div", Int.fdiv x y), ("modulo", "mod", Int.fmod x y)],
      vmOp cfgGen N p.1 p.2.1 (.s64 x) (Val.ofInt y) = .ok (.s64 p.2.2) ∧ vmOp cfgGen N p.1 p.2.1 (Val.ofInt x) (.s64 y) = .ok (.s64 p.2.2) ∧
      vmOp cfgGen N p.1 p.2.1 (.s64 x) (.s64 y) = .ok (.s64 p.2.2)) := by
  refine ⟨fun p hp hz => ?_, fun hy0 p hp => ?_⟩
  · simp only [List.mem_cons, List.mem_nil_iff, or_false] at hp
    rcases hp with rfl | rfl | rfl
    · exact mix_add N x y hx hy hz
    · exact mix_sub N x y hx hy hz
    · exact mix_mul N x y hx hy hz
  · simp only [List.mem_cons, List.mem_nil_iff, or_false] at hp
    rcases hp with rfl | rfl | rfl | rfl
    · exact mix_quot N x y hx hy hy0
    · exact mix_rem N x y hx hy hy0
    · exact mix_div N x y hx hy hy0
    · exact mix_mod N x y hx hy hy0

/-- ★ the same for int/u64 and non-negative x, y ≤ 2^53: *u64 ⊕ number*, *number ⊕ u64*, *u64 ⊕ u64* return the int/u64 box of the same integer
    (`x / y`, `x % y` for all four division-like operators: on non-negative operands floor and truncation coincide, `u64_ops_agree_on_nonneg`) -/
theorem u64_type_mixes_agree (N : NumOps) (x y : ℤ) (hx0 : 0 ≤ x) (hy0 : 0 ≤ y) (hx : |x| ≤ 9007199254740992) (hy : |y| ≤ 9007199254740992) :
    (∀ p ∈ [("binop", "+", x + y), ("binop", "-", x - y), ("binop", "*", x * y)], Kind.u64.inRange p.2.2 →
      vmOp cfgGen N p.1 p.2.1 (.u64 x) (Val.ofInt y) = .ok (.u64 p.2.2) ∧ vmOp cfgGen N p.1 p.2.1 (Val.ofInt x) (.u64 y) = .ok (.u64 p.2.2) ∧
      vmOp cfgGen N p.1 p.2.1 (.u64 x) (.u64 y) = .ok (.u64 p.2.2)) ∧
    (y ≠ 0 → ∀ p ∈ [("binop", "/", x / y), ("remainder", "%", x % y), ("divfloor", "div", x / y), ("modulo", "mod", x % y)],
      vmOp cfgGen N p.1 p.2.1 (.u64 x) (Val.ofInt y) = .ok (.u64 p.2.2) ∧ vmOp cfgGen N p.1 p.2.1 (Val.ofInt x) (.u64 y) = .ok (.u64 p.2.2) ∧
      vmOp cfgGen N p.1 p.2.1 (.u64 x) (.u64 y) = .ok (.u64 p.2.2)) := by
  refine ⟨fun p hp hz => ?_, fun hyn p hp => ?_⟩
  · simp only [List.mem_cons, List.mem_nil_iff, or_false] at hp
    rcases hp with rfl | rfl | rfl
    · exact mixu_add N x y hx0 hy0 hx hy hz
    · exact mixu_sub N x y hx0 hy0 hx hy hz
    · exact mixu_mul N x y hx0 hy0 hx hy hz
  · simp only [List.mem_cons, List.mem_nil_iff, or_false] at hp
    rcases hp with rfl | rfl | rfl | rfl
    · exact mixu_quot N x y hx0 hy0 hx hy hyn
    · exact mixu_rem N x y hx0 hy0 hx hy hyn
    · exact mixu_div N x y hx0 hy0 hx hy hyn
    · exact mixu_mod N x y hx0 hy0 hx hy hyn

/-- ★ the remaining two mixes: *int/s64 ⊕ int/u64* is the int/s64 box of x ⊕ y and *int/u64 ⊕ int/s64* the int/u64 box of y ⊕ x (the left operand's
    method decides the kind; the other box is reinterpreted, the identity on 0 … 2^53) — with `s64_type_mixes_agree`, `u64_type_mixes_agree` and
    `number_ops_agree_with_s64_ops` all nine type pairs of `+ - * / % div mod` are covered, both operand orders -/
theorem s64_u64_cross_mixes_agree (N : NumOps) (x y : ℤ) (hx : |x| ≤ 9007199254740992) (hy : |y| ≤ 9007199254740992) (hyn : 0 ≤ y) :
    (Kind.s64.inRange (x + y) → vmOp cfgGen N "binop" "+" (.s64 x) (.u64 y) = .ok (.s64 (x + y))) ∧
    (Kind.s64.inRange (x - y) → vmOp cfgGen N "binop" "-" (.s64 x) (.u64 y) = .ok (.s64 (x - y))) ∧
    (Kind.s64.inRange (x * y) → vmOp cfgGen N "binop" "*" (.s64 x) (.u64 y) = .ok (.s64 (x * y))) ∧
    (y ≠ 0 → vmOp cfgGen N "binop" "/" (.s64 x) (.u64 y) = .ok (.s64 (Int.tdiv x y)) ∧ vmOp cfgGen N "remainder" "%" (.s64 x) (.u64 y) = .ok (.s64 (Int.tmod x y)) ∧
             vmOp cfgGen N "divfloor" "div" (.s64 x) (.u64 y) = .ok (.s64 (Int.fdiv x y)) ∧ vmOp cfgGen N "modulo" "mod" (.s64 x) (.u64 y) = .ok (.s64 (Int.fmod x y))) ∧
    (0 ≤ x →
      (Kind.u64.inRange (y + x) → vmOp cfgGen N "binop" "+" (.u64 y) (.s64 x) = .ok (.u64 (y + x))) ∧
      (Kind.u64.inRange (y - x) → vmOp cfgGen N "binop" "-" (.u64 y) (.s64 x) = .ok (.u64 (y - x))) ∧
      (Kind.u64.inRange (y * x) → vmOp cfgGen N "binop" "*" (.u64 y) (.s64 x) = .ok (.u64 (y * x))) ∧
      (x ≠ 0 → vmOp cfgGen N "binop" "/" (.u64 y) (.s64 x) = .ok (.u64 (y / x)) ∧ vmOp cfgGen N "remainder" "%" (.u64 y) (.s64 x) = .ok (.u64 (y % x)) ∧
               vmOp cfgGen N "divfloor" "div" (.u64 y) (.s64 x) = .ok (.u64 (y / x)) ∧ vmOp cfgGen N "modulo" "mod" (.u64 y) (.s64 x) = .ok (.u64 (y % x)))) :=
  ⟨(mixsu_add N x y hx hy hyn).1, (mixsu_sub N x y hx hy hyn).1, (mixsu_mul N x y hx hy hyn).1,
   fun h => ⟨(mixsu_quot N x y hx hy hyn).1 h, (mixsu_rem N x y hx hy hyn).1 h, (mixsu_div N x y hx hy hyn).1 h, (mixsu_mod N x y hx hy hyn).1 h⟩,
   fun hx0 => ⟨(mixsu_add N x y hx hy hyn).2 hx0, (mixsu_sub N x y hx hy hyn).2 hx0, (mixsu_mul N x y hx hy hyn).2 hx0,
     fun h => ⟨(mixsu_quot N x y hx hy hyn).2 hx0 h, (mixsu_rem N x y hx hy hyn).2 hx0 h, (mixsu_div N x y hx hy hyn).2 hx0 h, (mixsu_mod N x y hx hy hyn).2 hx0 h⟩⟩⟩

example : vmOp cfgGen Ieee.ieee "divfloor" "div" (Val.ofInt (-7)) (.s64 2) = .ok (.s64 (-4)) ∧
    vmOp cfgGen Ieee.ieee "modulo" "mod" (.s64 (-7)) (Val.ofInt 2) = .ok (.s64 1) := by
  have h := (s64_type_mixes_agree Ieee.ieee (-7) 2 (by decide) (by decide)).2 (by decide)
  have h1 := (h ("divfloor", "div", Int.fdiv (-7) 2) (by simp)).2.1
  have h2 := (h ("modulo", "mod", Int.fmod (-7) 2) (by simp)).1
  have e1 : Int.fdiv (-7) 2 = -4 := by decide
  have e2 : Int.fmod (-7) 2 = 1 := by decide
  simp only [e1] at h1
  simp only [e2] at h2
  exact ⟨h1, h2⟩

/-- … and int/u64 on non-negative operands: floor and truncating division (modulus, remainder) coincide there, and are what
    the u64 methods compute -/
theorem u64_ops_agree_on_nonneg (x y : ℤ) (hx : 0 ≤ x) (hy : 0 < y) :
    divMethodU "div" "/" x y = .ok (Int.fdiv x y) ∧ divMethodU "div" "/" x y = .ok (Int.tdiv x y) ∧
    divMethodU "mod" "%" x y = .ok (Int.fmod x y) ∧ divMethodU "rem" "%" x y = .ok (Int.tmod x y) := by
  have h := trunc_div_rem_correct x y (by omega)
  rw [Int.fdiv_eq_ediv_of_nonneg _ (by omega), Int.tdiv_eq_ediv_of_nonneg hx, Int.fmod_eq_emod_of_nonneg _ (by omega),
    Int.tmod_eq_emod_of_nonneg hx]
  exact ⟨h.2.2.1, h.2.2.1, h.2.2.2.2, h.2.2.2.1⟩

open JanetModel.Int64.Ieee in
/-- non-vacuity: `(div -7 2)` = -4, `(mod -7 2)` = 1, `(% -7 2)` = -1 on numbers, through the theorem -/
example : IntVal (numDivFloor ieee (encodeInt (-7)) (encodeInt 2)) (-4) ∧ IntVal (numModulo ieee (encodeInt (-7)) (encodeInt 2)) 1 ∧
    IntVal (numRemainder ieee (encodeInt (-7)) (encodeInt 2)) (-1) := by
  have E := num_ops_exact_on_integers _ _ (-7) 2 (intVal_encodeInt _ (by decide)) (intVal_encodeInt _ (by decide)) (by decide) (by decide)
  exact ⟨E.2.2.2.1 (by decide), E.2.2.2.2.1 (by decide) (by decide), E.2.2.2.2.2 (by decide)⟩

/-- the handlers are what the opcodes run on two numbers -/
theorem vm_number_handlers (c : Cfg) (N : NumOps) (a b : Nat) :
    vmOp c N "divfloor" "div" (.num a) (.num b) = .ok (.num (numDivFloor N a b)) ∧
    vmOp c N "modulo" "mod" (.num a) (.num b) = .ok (.num (numModulo N a b)) ∧
    vmOp c N "remainder" "%" (.num a) (.num b) = .ok (.num (numRemainder N a b)) ∧
    vmOp c N "binop" "+" (.num a) (.num b) = .ok (.num (N.add a b)) ∧ vmOp c N "binop" "/" (.num a) (.num b) = .ok (.num (N.div a b)) ∧
    vmOp c N "bitop" "&" (.num a) (.num b) = bitop32 false "&" a b ∧ vmOp c N "bitopu" ">>" (.num a) (.num b) = bitop32 true ">>" a b :=
  ⟨rfl, rfl, rfl, rfl, rfl, rfl, rfl⟩

/-! ## math.c: `math/gcd`, `math/lcm`, `math/floor` `ceil` `trunc` `abs` on plain numbers (model `Int64/MathFns.lean`; the bodies of
`janet_gcd` / `janet_lcm` / the cfuns / the MATHOP macros are matched structurally by the translator, registrations regenerated: `math_registrations_ok`) -/

open JanetModel.Int64.Ieee in
/-- ★ Euclid's loop of `janet_gcd` (`while (y != 0) { t = y; y = fmod(x, y); x = t; }`) on two finite doubles **terminates**
    (the model's fuel `scaledMag y + 1` is never exhausted) and returns a finite double; counted in units of 2^-1074 (every finite
    binary64 is an integer multiple of it) its magnitude is `Nat.gcd` of the operands' magnitudes — for *all* finite doubles,
    because C `fmod` is exact (`num_rem_is_exact_fmod`) -/
theorem math_gcd_terminates_and_is_gcd (a b : Nat) (ha : FinBits a) (hb : FinBits b) :
    (∃ r, gcdLoop (scaledMag b + 1) a b = some r ∧ janetGcd a b = r) ∧
    FinBits (janetGcd a b) ∧ scaledMag (janetGcd a b) = Nat.gcd (scaledMag a) (scaledMag b) := by
  obtain ⟨r, hr, _, _⟩ := gcdLoop_spec (scaledMag b + 1) a b ha hb (by omega)
  refine ⟨⟨r, hr, ?_⟩, janetGcd_finite a b ha hb⟩
  obtain ⟨n1, m1, e1, h1⟩ := ha
  obtain ⟨n2, m2, e2, h2⟩ := hb
  unfold janetGcd; rw [h1, h2]; simp only []; rw [hr]; rfl

open JanetModel.Int64.Ieee in
/-- ★ `(math/gcd x y)` on integer-valued doubles of any magnitude: an integer-valued double of magnitude `Int.gcd x y`;
    `(math/lcm x y)` for |x| ≤ 2^53, not both zero, lcm ≤ 2^53: an integer-valued double of magnitude `Int.lcm x y`;
    NaN operands give NaN, an infinite operand gives +infinity -/
theorem math_gcd_lcm_on_integers (a b : Nat) (x y : ℤ) (ha : IntVal a x) (hb : IntVal b y) :
    (∃ g : ℤ, IntVal (janetGcd a b) g ∧ g.natAbs = Int.gcd x y) ∧
    (|x| ≤ 9007199254740992 → (x ≠ 0 ∨ y ≠ 0) → Int.lcm x y ≤ 9007199254740992 →
      ∃ l : ℤ, IntVal (janetLcm a b) l ∧ l.natAbs = Int.lcm x y) ∧
    (∀ c d, ((decode c = .nan ∨ decode d = .nan) → janetGcd c d = nanBits) ∧
      (decode c ≠ .nan → decode d ≠ .nan → ((∃ s, decode c = .inf s) ∨ (∃ s, decode d = .inf s)) → janetGcd c d = infBits)) :=
  ⟨janetGcd_int a b x y ha hb, fun hx hne hl => janetLcm_int a b x y ha hb hx hne hl, fun c d => janetGcd_special c d⟩

open JanetModel.Int64.Ieee in
/-- ★ `math/floor`, `math/ceil`, `math/trunc`, `math/round`, `math/abs` of a finite double: finite doubles with the mathematical
    value ⌊x⌋, ⌈x⌉, x rounded toward zero, x rounded to nearest with halfway cases away from zero (`roundHalfAway`), |x|
    (nothing is rounded: these are exact functions of a binary64) -/
theorem math_integer_valued_functions (a : Nat) (ha : FinBits a) :
    (FinBits (Ieee.floor a) ∧ valQ (Ieee.floor a) = ((⌊valQ a⌋ : ℤ) : ℚ)) ∧
    (FinBits (Ieee.ceil a) ∧ valQ (Ieee.ceil a) = ((⌈valQ a⌉ : ℤ) : ℚ)) ∧
    (FinBits (Ieee.trunc a) ∧ valQ (Ieee.trunc a) = ((truncQ (valQ a) : ℤ) : ℚ)) ∧
    (FinBits (Ieee.round a) ∧ valQ (Ieee.round a) = ((roundHalfAway (valQ a) : ℤ) : ℚ)) ∧
    (a < 18446744073709551616 → FinBits (fabs a) ∧ valQ (fabs a) = |valQ a|) :=
  ⟨floor_exact a ha, ceil_exact a ha, trunc_exact a ha, round_exact a ha, fun h => fabs_exact a ha h⟩

open JanetModel.Int64.Ieee in
/-- non-vacuity / the halfway convention: `(math/round 2.5)` = 3, `(math/round -2.5)` = -3, `(math/round 0.49999999999999994)` = 0 (bit for bit) -/
example : Ieee.round 0x4004000000000000 = 0x4008000000000000 ∧ Ieee.round 0xc004000000000000 = 0xc008000000000000 ∧
    Ieee.round 0x3fdfffffffffffff = 0 ∧ roundHalfAway (5 / 2) = 3 ∧ roundHalfAway (-5 / 2) = -3 := by
  refine ⟨by decide +kernel, by decide +kernel, by decide +kernel, ?_, ?_⟩
  · unfold roundHalfAway; rw [if_pos (by norm_num), Int.floor_eq_iff]; norm_num
  · unfold roundHalfAway; rw [if_neg (by norm_num), neg_eq_iff_eq_neg, Int.floor_eq_iff]; norm_num

open JanetModel.Int64.Ieee in
/-- the cfuns: one (two) number argument(s), anything else is `janet_getnumber`'s "bad slot" / the arity error -/
theorem math_cfuns (a b : Nat) (v : Val) (hv : isNum v = none) :
    mathFn "math/gcd" [.num a, .num b] = some (.ok (.num (janetGcd a b))) ∧ mathFn "math/lcm" [.num a, .num b] = some (.ok (.num (janetLcm a b))) ∧
    mathFn "math/floor" [.num a] = some (.ok (.num (Ieee.floor a))) ∧ mathFn "math/ceil" [.num a] = some (.ok (.num (Ieee.ceil a))) ∧
    mathFn "math/trunc" [.num a] = some (.ok (.num (Ieee.trunc a))) ∧ mathFn "math/round" [.num a] = some (.ok (.num (Ieee.round a))) ∧
    mathFn "math/abs" [.num a] = some (.ok (.num (fabs a))) ∧
    mathFn "math/gcd" [v, .num b] = some (.err .badslot) ∧ mathFn "math/gcd" [.num a] = some (.err .arity) := by
  refine ⟨rfl, rfl, rfl, rfl, rfl, rfl, rfl, ?_, rfl⟩
  cases v <;> first | rfl | (simp [isNum] at hv)

open JanetModel.Int64.Ieee in
/-- non-vacuity: `(math/gcd 12 -18)`: magnitude 6; `(math/lcm 4 6)`: magnitude 12 -/
example : (∃ g : ℤ, IntVal (janetGcd (encodeInt 12) (encodeInt (-18))) g ∧ g.natAbs = 6) ∧
    (∃ l : ℤ, IntVal (janetLcm (encodeInt 4) (encodeInt 6)) l ∧ l.natAbs = 12) := by
  have h := math_gcd_lcm_on_integers _ _ 12 (-18) (intVal_encodeInt _ (by decide)) (intVal_encodeInt _ (by decide))
  have h2 := math_gcd_lcm_on_integers _ _ 4 6 (intVal_encodeInt _ (by decide)) (intVal_encodeInt _ (by decide))
  exact ⟨h.1, h2.2.1 (by decide) (by decide) (by decide)⟩

/-! ## conversions back: int/to-number, int/to-bytes -/

/-- `(double) n` is exact for |n| ≤ 2^53: decoding the produced bit pattern gives n back -/
theorem int_to_double_exact (n : Int) (h : -two53 ≤ n ∧ n ≤ two53) : (decode (encodeInt n)).toInt? = some n :=
  decode_encodeInt n h

/-- `int/to-number` succeeds exactly on [-2^53, 2^53] (bound regenerated from janet.h), and then `(int/s64 (int/to-number x))`
    (resp. `int/u64`) is x again -/
theorem to_number_round_trip (c : Cfg) (N : NumOps) (v : Int) :
    (-two53 ≤ v ∧ v ≤ two53 → evalFn c N "int/to-number" [.s64 v] = .ok (Val.ofInt v) ∧ unwrapS (Val.ofInt v) = .ok v) ∧
    (v < -two53 ∨ two53 < v → evalFn c N "int/to-number" [.s64 v] = .err .tonum) ∧
    (0 ≤ v ∧ v ≤ two53 → evalFn c N "int/to-number" [.u64 v] = .ok (Val.ofInt v) ∧ unwrapU (Val.ofInt v) = .ok v) ∧
    (two53 < v → evalFn c N "int/to-number" [.u64 v] = .err .tonum) := by
  have h := toNumber_eval c N v
  refine ⟨fun hv => ⟨h.1 hv, (unwrap_ofInt v hv).1⟩, h.2.1, fun hv => ⟨h.2.2.1 hv.2, (unwrap_ofInt v ⟨?_, hv.2⟩).2 hv.1⟩, h.2.2.2⟩
  have := hv.1
  simp only [two53] at *
  omega

/-- `int/to-bytes`: eight bytes, each < 256, whose little-endian value is the 64-bit pattern of the integer -/
theorem to_bytes_round_trip (v : Int) :
    (toBytesLE v).length = 8 ∧ (∀ b ∈ toBytesLE v, b < 256) ∧ (ofBytesLE (toBytesLE v) : Int) = wrapU v :=
  toBytes_round_trip v

/-! ## current tree (obligations over the regenerated `Gen/Int64.lean`) -/

/-- ★ on the current source no 64-bit integer method performs an undefined C operation.
    Does not check on a tree where `div`, `rdiv`, `mod`, `rmod`, `/`, `r/`, `%` or `r%` lacks the INT64_MIN / -1 test. -/
theorem no_ub : ArithNoUb cfgGen := (no_ub_iff_guarded cfgGen).2 (by decide)

/-- ★ on the current source `compare_int64_double x y` is the exact comparison of x with y, for every int64 x and every
    non-NaN double y (given by its bit pattern).  Does not check on a tree whose edge tests let 2^63 reach the cast. -/
theorem compare_mixed_correct (x : Int) (hx : Kind.s64.inRange x) (b : Nat) (hy : decode b ≠ .nan) :
    compareInt64Double cfgGen x (decode b) = .ok (cmpIntDbl x (decode b)) :=
  (compare_mixed_correct_of_inclusive cfgGen x b hy).1 (by decide) (by decide) hx

/-- ★ same for `compare_uint64_double`, every uint64 x -/
theorem compare_mixed_correct_unsigned (x : Int) (hx : Kind.u64.inRange x) (b : Nat) (hy : decode b ≠ .nan) :
    compareUint64Double cfgGen x (decode b) = .ok (cmpIntDbl x (decode b)) :=
  (compare_mixed_correct_of_inclusive cfgGen x b hy).2 (by decide) hx

/-- ★ the property as stated: on the current source, for every int64 `x` and every double `y` (bit pattern `b`) that is
    not a NaN, `compare_int64_double x y` is the three-way comparison of the *rational numbers* x and y (`Dbl.toRat`: the
    IEEE-754 value (-1)^s * m * 2^e, see `decode_value`), +inf is above and -inf below every integer; likewise for every
    uint64 and `compare_uint64_double`. -/
theorem compare_mixed_correct_rat (x : Int) (b : Nat) :
    (Kind.s64.inRange x →
      (∀ neg m e, decode b = .fin neg m e → compareInt64Double cfgGen x (decode b) = .ok (cmpQ (x : ℚ) (decode b).toRat)) ∧
      (∀ neg, decode b = .inf neg → compareInt64Double cfgGen x (decode b) = .ok (if neg then 1 else -1))) ∧
    (Kind.u64.inRange x →
      (∀ neg m e, decode b = .fin neg m e → compareUint64Double cfgGen x (decode b) = .ok (cmpQ (x : ℚ) (decode b).toRat)) ∧
      (∀ neg, decode b = .inf neg → compareUint64Double cfgGen x (decode b) = .ok (if neg then 1 else -1))) := by
  refine ⟨fun hx => ⟨fun neg m e h => ?_, fun neg h => ?_⟩, fun hx => ⟨fun neg m e h => ?_, fun neg h => ?_⟩⟩
  · rw [compare_mixed_correct x hx b (by rw [h]; simp), h, cmpIntDbl_eq_cmpQ]
  · rw [compare_mixed_correct x hx b (by rw [h]; simp), h]; rfl
  · rw [compare_mixed_correct_unsigned x hx b (by rw [h]; simp), h, cmpIntDbl_eq_cmpQ]
  · rw [compare_mixed_correct_unsigned x hx b (by rw [h]; simp), h]; rfl

/-! the zero test inside each division loop of the current tree agrees with the two-argument form -/
theorem zc_u_div : ZeroConsistent (loopStep cfgGen .u64 "DIVMETHOD" "div" "/") (loopZero cfgGen "div") :=
  fun a => (JanetModel.Int64.div_zero_errors true a).2.2.2.1
theorem zc_u_rem : ZeroConsistent (loopStep cfgGen .u64 "DIVMETHOD" "rem" "%") (loopZero cfgGen "rem") :=
  fun a => (JanetModel.Int64.div_zero_errors true a).2.2.2.2.1
theorem zc_s_div : ZeroConsistent (loopStep cfgGen .s64 "DIVMETHOD_SIGNED" "div" "/") (loopZero cfgGen "div") :=
  fun a => (JanetModel.Int64.div_zero_errors cfgGen.guardDiv a).2.1
theorem zc_s_rem : ZeroConsistent (loopStep cfgGen .s64 "DIVMETHOD_SIGNED" "rem" "%") (loopZero cfgGen "rem") :=
  fun a => (JanetModel.Int64.div_zero_errors cfgGen.guardDiv a).2.2.1
/-- ★ does not check on a tree where the loop `return`s at a zero divisor (DIVZERO_mod inside the `for`) -/
theorem zc_u_mod : ZeroConsistent (loopStep cfgGen .u64 "DIVMETHOD" "mod" "%") (loopZero cfgGen "mod") :=
  fun a => (JanetModel.Int64.div_zero_errors true a).2.2.2.2.2

/-- ★ on the current source every looping method of both types — 10 on int/s64, 11 on int/u64, `mod` included — is the
    left fold of its two-argument call, for every argument list of length ≥ 3.  Does not check on a tree where the loop
    ends the call at a zero divisor of `mod` (the defect fixed by 2a2188c: `(:mod (int/u64 7) 0 3)` was 7). -/
theorem nary_mod_is_left_fold (a0 a1 a2 : Val) (rest : List Val) :
    ∀ p ∈ [(Kind.s64, "s64_add"), (.s64, "s64_sub"), (.s64, "s64_mul"), (.s64, "s64_div"), (.s64, "s64_rem"), (.s64, "s64_and"),
           (.s64, "s64_or"), (.s64, "s64_xor"), (.s64, "s64_lshift"), (.s64, "s64_rshift"),
           (.u64, "u64_add"), (.u64, "u64_sub"), (.u64, "u64_mul"), (.u64, "u64_div"), (.u64, "u64_rem"), (.u64, "u64_mod"),
           (.u64, "u64_and"), (.u64, "u64_or"), (.u64, "u64_xor"), (.u64, "u64_lshift"), (.u64, "u64_rshift")],
      callCfunN cfgGen p.1 p.2 (a0 :: a1 :: a2 :: rest) =
        (a2 :: rest).foldl (fun acc z => acc.bind (fun v => callCfun2 cfgGen p.1 p.2 v z)) (callCfun2 cfgGen p.1 p.2 a0 a1) := by
  intro p hp
  simp only [List.mem_cons, List.mem_nil_iff, or_false] at hp
  rcases hp with rfl | rfl | rfl | rfl | rfl | rfl | rfl | rfl | rfl | rfl | rfl | rfl | rfl | rfl | rfl | rfl | rfl | rfl | rfl | rfl | rfl
  all_goals first
    | exact callCfunN_eq_fold cfgGen _ _ "OPMETHOD" _ _ rfl (Or.inl rfl) (Or.inl rfl) a0 a1 a2 rest
    | exact callCfunN_eq_fold cfgGen _ _ "DIVMETHOD_SIGNED" "div" _ rfl (Or.inr (Or.inr rfl)) (Or.inr zc_s_div) a0 a1 a2 rest
    | exact callCfunN_eq_fold cfgGen _ _ "DIVMETHOD_SIGNED" "rem" _ rfl (Or.inr (Or.inr rfl)) (Or.inr zc_s_rem) a0 a1 a2 rest
    | exact callCfunN_eq_fold cfgGen _ _ "DIVMETHOD" "div" _ rfl (Or.inr (Or.inl rfl)) (Or.inr zc_u_div) a0 a1 a2 rest
    | exact callCfunN_eq_fold cfgGen _ _ "DIVMETHOD" "rem" _ rfl (Or.inr (Or.inl rfl)) (Or.inr zc_u_rem) a0 a1 a2 rest
    | exact callCfunN_eq_fold cfgGen _ _ "DIVMETHOD" "mod" _ rfl (Or.inr (Or.inl rfl)) (Or.inr zc_u_mod) a0 a1 a2 rest

/-- the list above is the set of looping instantiations of the current source (nothing loops that is not covered) -/
theorem nary_rows_complete :
    (instances.filter (fun r => r.2.1 == "OPMETHOD" || r.2.1 == "DIVMETHOD" || r.2.1 == "DIVMETHOD_SIGNED")).map (fun r => (r.2.2.1, r.1)) =
      [("s64", "s64_add"), ("s64", "s64_sub"), ("s64", "s64_mul"), ("s64", "s64_div"), ("s64", "s64_rem"), ("s64", "s64_and"),
       ("s64", "s64_or"), ("s64", "s64_xor"), ("s64", "s64_lshift"), ("s64", "s64_rshift"),
       ("u64", "u64_add"), ("u64", "u64_sub"), ("u64", "u64_mul"), ("u64", "u64_div"), ("u64", "u64_rem"), ("u64", "u64_mod"),
       ("u64", "u64_and"), ("u64", "u64_or"), ("u64", "u64_xor"), ("u64", "u64_lshift"), ("u64", "u64_rshift")] := by decide

/-- ★ "order values correctly against each other and against doubles over the whole range": on the current source boot.janet's
    polymorphic `compare` of any two numeric values — a number other than NaN (±inf included), an int/s64, an int/u64, in
    all nine type combinations and both operand orders (left method, or the right operand's method negated) — is the
    three-way comparison of their **mathematical values** (`Val.ext?`: rationals extended by ±inf); the result is one of
    the numbers -1, 0, 1 (or -0.0 for "equal" when the right operand's method answered). -/
theorem poly_compare_correct (x y : Val) (vx vy : ExtQ) (hx : x.ext? = some vx) (hy : y.ext? = some vy) (wx : x.wf) (wy : y.wf) :
    ∃ r, polyCompare cfgGen x y = .ok r ∧ resInt r = some (cmpExt vx vy) ∧
      (r = Val.ofInt (cmpExt vx vy) ∨ (cmpExt vx vy = 0 ∧ r = .num 0x8000000000000000)) :=
  polyCompare_correct cfgGen (by decide) (by decide) (by decide) x y vx vy hx hy wx wy

/-- ★ `(compare< x1 ... xn)`, `compare<=`, `compare=`, `compare>`, `compare>=` on numeric values of any type mix: true iff
    every adjacent pair is in that relation **as mathematical values** (for any `NumOps`: no floating-point arithmetic is
    involved) -/
theorem compare_chain_correct (N : NumOps) (x : Val) (rest : List Val) (hall : ∀ v ∈ x :: rest, v.numeric) :
    evalFn cfgGen N "compare<" (x :: rest) = .ok (.bool ((adjacentPairs x rest).all (fun p => decide (cmpExt p.1.extD p.2.extD < 0)))) ∧
    evalFn cfgGen N "compare<=" (x :: rest) = .ok (.bool ((adjacentPairs x rest).all (fun p => decide (cmpExt p.1.extD p.2.extD ≤ 0)))) ∧
    evalFn cfgGen N "compare=" (x :: rest) = .ok (.bool ((adjacentPairs x rest).all (fun p => decide (cmpExt p.1.extD p.2.extD = 0)))) ∧
    evalFn cfgGen N "compare>" (x :: rest) = .ok (.bool ((adjacentPairs x rest).all (fun p => decide (cmpExt p.1.extD p.2.extD > 0)))) ∧
    evalFn cfgGen N "compare>=" (x :: rest) = .ok (.bool ((adjacentPairs x rest).all (fun p => decide (cmpExt p.1.extD p.2.extD ≥ 0)))) := by
  have h := fun op hop => compareReduce_numeric cfgGen (by decide) (by decide) (by decide) N op hop x rest hall
  refine ⟨?_, ?_, ?_, ?_, ?_⟩
  · exact Eq.trans (b := compareReduce cfgGen N "JOP_LESS_THAN" x rest) rfl (h _ (Or.inl rfl))
  · exact Eq.trans (b := compareReduce cfgGen N "JOP_LESS_THAN_EQUAL" x rest) rfl (h _ (Or.inr (Or.inl rfl)))
  · exact Eq.trans (b := compareReduce cfgGen N "JOP_EQUALS" x rest) rfl (h _ (Or.inr (Or.inr (Or.inr (Or.inr rfl)))))
  · exact Eq.trans (b := compareReduce cfgGen N "JOP_GREATER_THAN" x rest) rfl (h _ (Or.inr (Or.inr (Or.inl rfl))))
  · exact Eq.trans (b := compareReduce cfgGen N "JOP_GREATER_THAN_EQUAL" x rest) rfl (h _ (Or.inr (Or.inr (Or.inr (Or.inl rfl)))))

example : (Val.s64 (-3)).numeric ∧ (Val.u64 18446744073709551615).numeric ∧ (Val.num 0x7ff0000000000000).numeric ∧ ¬ (Val.num 0x7ff8000000000000).numeric := by
  have hi : decode 0x7ff0000000000000 = .inf false := by decide
  have hn : decode 0x7ff8000000000000 = .nan := by decide
  refine ⟨⟨⟨_, rfl⟩, ?_⟩, ⟨⟨_, rfl⟩, ?_⟩, ⟨⟨.pinf, ?_⟩, trivial⟩, ?_⟩
  · show Kind.s64.inRange (-3); decide
  · show Kind.u64.inRange 18446744073709551615; decide
  · simp [Val.ext?, hi, Dbl.ext?]
  · rintro ⟨⟨q, h⟩, _⟩
    simp [Val.ext?, hn, Dbl.ext?] at h

/-- ★ boot.janet's `zero?`, `pos?`, `neg?`, `one?` (`(= (compare x 0) 0)`, ... — table `polyPreds` regenerated from the current
    boot.janet) on any numeric value — a number other than NaN (±inf included), an int/s64, an int/u64: true iff the **mathematical
    value** is = 0, > 0, < 0, = 1 (for any `NumOps`: no floating-point arithmetic is involved) -/
theorem poly_predicates_correct (N : NumOps) (x : Val) (vx : ExtQ) (hx : x.ext? = some vx) (wx : x.wf) :
    polyPred cfgGen N "zero?" x = .ok (.bool (decide (cmpExt vx (.fin 0) = 0))) ∧
    polyPred cfgGen N "pos?" x = .ok (.bool (decide (cmpExt vx (.fin 0) = 1))) ∧
    polyPred cfgGen N "neg?" x = .ok (.bool (decide (cmpExt vx (.fin 0) = -1))) ∧
    polyPred cfgGen N "one?" x = .ok (.bool (decide (cmpExt vx (.fin 1) = 0))) := by
  have h := fun name k R hrow hk hR =>
    polyPred_cmp cfgGen (by decide) (by decide) (by decide) N name k R hrow hk hR x vx hx wx
  refine ⟨?_, ?_, ?_, ?_⟩
  · simpa using h "zero?" 0 0 (by decide) (by decide) (by decide)
  · simpa using h "pos?" 0 1 (by decide) (by decide) (by decide)
  · simpa using h "neg?" 0 (-1) (by decide) (by decide) (by decide)
  · simpa using h "one?" 1 0 (by decide) (by decide) (by decide)

open JanetModel.Int64.Ieee in
/-- ★ `even?` / `odd?` (`(= 0 (compare 0 (mod x 2)))`, `(= 0 (compare 1 (mod x 2)))`) on the current tree: for **every** int/s64 and
    int/u64, and for every integer-valued number of magnitude ≤ 2^53 (IEEE instance): true iff x is even / odd.
    (A non-integer number goes through the IEEE formula of `mod`: `(odd? -0.9999999999999999)` is true — 2 + x rounds to 1.) -/
theorem parity_predicates_correct :
    (∀ N v, Kind.s64.inRange v → polyPred cfgGen N "even?" (.s64 v) = .ok (.bool (decide (v % 2 = 0))) ∧
                                  polyPred cfgGen N "odd?" (.s64 v) = .ok (.bool (decide (v % 2 = 1)))) ∧
    (∀ N v, Kind.u64.inRange v → polyPred cfgGen N "even?" (.u64 v) = .ok (.bool (decide (v % 2 = 0))) ∧
                                  polyPred cfgGen N "odd?" (.u64 v) = .ok (.bool (decide (v % 2 = 1)))) ∧
    (∀ a z, IntVal a z → |z| ≤ 9007199254740992 →
      polyPred cfgGen ieee "even?" (.num a) = .ok (.bool (decide (z % 2 = 0))) ∧
      polyPred cfgGen ieee "odd?" (.num a) = .ok (.bool (decide (z % 2 = 1)))) := by
  have e := polyPred_parity "even?" 0 (by decide) (Or.inl rfl)
  have o := polyPred_parity "odd?" 1 (by decide) (Or.inr rfl)
  exact ⟨fun N v hv => ⟨e.1 N v hv, o.1 N v hv⟩, fun N v hv => ⟨e.2.1 N v hv, o.2.1 N v hv⟩, fun a z ha hz => ⟨e.2.2 a z ha hz, o.2.2 a z ha hz⟩⟩

/-- the six predicates of the current boot.janet are the ones the two theorems cover -/
theorem poly_predicates_table :
    polyPreds = [("zero?", "cmp", 0, 0), ("pos?", "cmp", 0, 1), ("neg?", "cmp", 0, -1), ("one?", "cmp", 1, 0),
                 ("even?", "parity", 0, 2), ("odd?", "parity", 1, 2)] := by decide

example : polyPred cfgGen Ieee.ieee "neg?" (.s64 (-5)) = .ok (.bool true) ∧ polyPred cfgGen Ieee.ieee "odd?" (.u64 18446744073709551615) = .ok (.bool true) ∧
    polyPred cfgGen Ieee.ieee "pos?" (.num 0x7ff0000000000000) = .ok (.bool true) := by
  refine ⟨by decide +kernel, by decide +kernel, by decide +kernel⟩

/-- the primitive comparators do NOT order an int/s64 against an int/u64 (or against a number) by value: `janet_compare`
    orders values of different types by type, two abstract types by the address of their descriptors — every s64 is on
    the same side of every u64, whatever the values (this is janet's documented primitive order; value order is `compare`) -/
theorem primitive_order_s64_u64_is_by_type (c : Cfg) (a b : Int) :
    janetCompare c (.s64 a) (.u64 b) = (if c.s64BelowU64 then -1 else 1) ∧
    janetCompare c (.u64 b) (.s64 a) = (if c.s64BelowU64 then 1 else -1) ∧
    (∀ n, janetCompare c (.num n) (.s64 a) = -1 ∧ janetCompare c (.s64 a) (.num n) = 1) := by
  refine ⟨rfl, rfl, fun n => ⟨rfl, rfl⟩⟩

/-- ★ math.c of the current source registers each modelled name to the function the model implements: `math/floor` → libm `floor`,
    `math/ceil` → `ceil`, `math/trunc` → `trunc`, `math/round` → `round`, `math/abs` → `fabs` (through the MATHOP macros),
    `math/gcd` → `janet_gcd`, `math/lcm` → `janet_lcm` (list regenerated from the source on every run) -/
theorem math_registrations_ok :
    mathReg = [("math/abs", "fabs"), ("math/ceil", "ceil"), ("math/floor", "floor"), ("math/gcd", "janet_gcd"), ("math/lcm", "janet_lcm"),
               ("math/round", "round"), ("math/trunc", "trunc")] := by decide

/-- the method tables of the current source: every binary operator has its reversed variant bound to the function with
    swapped operands (non-commutative operators) or to the same function (commutative ones); no reversed shift methods;
    the kinds agree -/
theorem method_tables_ok :
    (∀ k : Kind, ∀ p ∈ [("+", "add", "add"), ("*", "mul", "mul"), ("&", "and", "and"), ("|", "or", "or"), ("^", "xor", "xor"),
                         ("-", "sub", "subi"), ("/", "div", "divi"), ("%", "rem", "remi"), ("mod", "mod", "modi")],
        (methodTable k).lookup p.1 = some (kindName k ++ "_" ++ p.2.1) ∧
        (methodTable k).lookup ("r" ++ p.1) = some (kindName k ++ "_" ++ p.2.2)) ∧
    s64Methods.lookup "div" = some "s64_divf" ∧ s64Methods.lookup "rdiv" = some "s64_divfi" ∧
    u64Methods.lookup "div" = some "u64_div" ∧ u64Methods.lookup "rdiv" = some "u64_divi" ∧
    (∀ k : Kind, (methodTable k).lookup "<<" = some (kindName k ++ "_lshift") ∧ (methodTable k).lookup ">>" = some (kindName k ++ "_rshift") ∧
                 (methodTable k).lookup "r<<" = none ∧ (methodTable k).lookup "r>>" = none ∧
                 (methodTable k).lookup "~" = some (kindName k ++ "_not") ∧ (methodTable k).lookup "compare" = some (kindName k ++ "_compare")) ∧
    (divfArgs, divfiArgs, modArgs, modiArgs) = ((0, 1), (1, 0), (0, 1), (1, 0)) := by
  refine ⟨?_, by decide, by decide, by decide, by decide, ?_, by decide⟩
  · intro k; cases k <;> decide
  · intro k; cases k <;> decide

/-- dispatch order of the current source: the left operand's method first, then the *reversed* method of the right
    operand with the operands swapped (so that `r-` computes lhs - rhs) -/
theorem dispatch_left_then_reversed_right (c : Cfg) (lm rm : String) (lhs rhs : Val) :
    (∀ k f, methodOf lhs lm = some (k, f) → binopCall c lm rm lhs rhs = callCfun2 c k f lhs rhs) ∧
    (methodOf lhs lm = none → ∀ k f, methodOf rhs rm = some (k, f) → binopCall c lm rm lhs rhs = callCfun2 c k f rhs lhs) ∧
    (methodOf lhs lm = none → methodOf rhs rm = none → binopCall c lm rm lhs rhs = .err .nomethod) := by
  refine ⟨fun k f h => ?_, fun h k f h' => ?_, fun h h' => ?_⟩ <;> simp [binopCall, binopFirstIsLhs, binopSecondIsRhs, binopLArgsInOrder, binopRArgsSwapped, *]

end JanetModel.Props.C14
