-- property theorems for C03 (in progress)
import JanetModel.Value.Struct
