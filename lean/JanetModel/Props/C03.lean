/- C03 — equality, hashing and ordering agree with each other: property theorems.

   All statements are about the model `JanetModel.Value` (Value/Model.lean, Value/Struct.lean), for every number type
   `N` satisfying `LawfulNum` (the laws of IEEE doubles other than NaN); the non-NaN patterns of `F64` (all 64-bit
   patterns, IEEE `==` / `<`) are such a type, and the section "NaN" carries the laws over to the NaN-free values of a
   model type that CONTAINS NaN.
   The model is tied to /repo/src/core/{value,util,struct,string}.c by Gen/Value.lean (regenerated constants and shape
   checks) and by the correspondence harness (checks/C03.py). -/
import JanetModel.Value.Order
import JanetModel.Value.F64
import JanetModel.Value.Struct
import JanetModel.Value.StructLemmas
import JanetModel.Value.SymCacheLemmas
import JanetModel.Value.SymGenLemmas
import JanetModel.Value.SymGenTerm
import JanetModel.Value.TraverseLemmas
import JanetModel.Value.RobinPerm
import JanetModel.Value.RobinDup
import JanetModel.Value.LayoutTests
import JanetModel.Value.NaN
import JanetModel.Value.StringLoop
import JanetModel.Value.AbstractInt
import JanetModel.Value.PtrShortcut
import JanetModel.Value.MapLookup
import JanetModel.Gen.ValueTrav

namespace JanetModel.Props.C03
open JanetModel.Value

variable {N : Type} [NumLike N] [LawfulNum N]

/-! ### `=` is an equivalence relation -/

theorem equals_refl (a : JVal N) : equals a a = true := by
  rw [equals_eq_contentEq_both.1]; exact contentEq_refl_both.1 a

theorem equals_symm (a b : JVal N) : equals a b = equals b a := by
  rw [equals_eq_contentEq_both.1, equals_eq_contentEq_both.1]; exact contentEq_symm_both.1 a b

theorem equals_trans (a b c : JVal N) (h1 : equals a b = true) (h2 : equals b c = true) : equals a c = true := by
  rw [equals_eq_contentEq_both.1] at *; exact contentEq_trans_both.1 a b c h1 h2

/-- `janet_equals` with its hash / length short-cuts decides exactly content equality (`contentEq`: same type, same
    number up to −0 = +0, same bytes, same bracket kind and element-wise equal, same slots and prototype, same address) -/
theorem equals_iff_content (a b : JVal N) : equals a b = contentEq a b := equals_eq_contentEq_both.1 a b

/-! ### equal values hash alike (needs the −0 normalisation, the bracket-flag offset, the prototype term) -/

theorem equals_hash (a b : JVal N) (h : equals a b = true) : hash a = hash b := by
  rw [equals_eq_contentEq_both.1] at h; exact contentEq_hash_both.1 a b h

/-! ### `compare` is one total order and its equality is `=` -/

theorem compare_antisymm (a b : JVal N) : jcompare b a = (jcompare a b).swap :=
  (swap_all (sizeOf a + sizeOf b)).1 a b (Nat.le_refl _)

theorem compare_triple (a b c : JVal N) : Tri (jcompare a b) (jcompare b c) (jcompare a c) :=
  (tri_all (sizeOf a + sizeOf b + sizeOf c)).1 a b c (Nat.le_refl _)

/-- `≤` is transitive -/
theorem compare_trans (a b c : JVal N) (h1 : jcompare a b ≠ .gt) (h2 : jcompare b c ≠ .gt) : jcompare a c ≠ .gt :=
  (compare_triple a b c).1 h1 h2

/-- `<` is transitive, also when one side is only `≤` -/
theorem compare_lt_of_lt_of_le (a b c : JVal N) (h1 : jcompare a b = .lt) (h2 : jcompare b c ≠ .gt) : jcompare a c = .lt :=
  (compare_triple a b c).2.1 h1 h2

theorem compare_lt_of_le_of_lt (a b c : JVal N) (h1 : jcompare a b ≠ .gt) (h2 : jcompare b c = .lt) : jcompare a c = .lt :=
  (compare_triple a b c).2.2.1 h1 h2

/-- any two values are comparable -/
theorem compare_total (a b : JVal N) : jle a b = true ∨ jle b a = true := by
  unfold jle; rw [compare_antisymm a b]; cases jcompare a b <;> simp

theorem compare_eq_zero_iff_equals (a b : JVal N) : jcompare a b = .eq ↔ equals a b = true := by
  rw [equals_eq_contentEq_both.1]; exact (eqiff_all (sizeOf a + sizeOf b)).1 a b (Nat.le_refl _)

/-- the order is total: antisymmetric (up to `=`), transitive, total -/
theorem compare_total_order :
    (∀ a b : JVal N, jcompare b a = (jcompare a b).swap) ∧
    (∀ a b : JVal N, jle a b = true → jle b a = true → equals a b = true) ∧
    (∀ a b c : JVal N, jle a b = true → jle b c = true → jle a c = true) ∧
    (∀ a b : JVal N, jle a b = true ∨ jle b a = true) := by
  refine ⟨compare_antisymm, ?_, ?_, compare_total⟩
  · intro a b h1 h2
    rw [← compare_eq_zero_iff_equals]
    unfold jle at h1 h2; rw [compare_antisymm a b] at h2
    cases h : jcompare a b <;> simp_all
  · intro a b c h1 h2
    unfold jle at *
    have := compare_trans a b c (by simpa using h1) (by simpa using h2)
    simpa using this

/-- equal values are interchangeable on either side of a comparison -/
theorem compare_congr (a b c : JVal N) (h : equals a b = true) : jcompare a c = jcompare b c ∧ jcompare c a = jcompare c b := by
  have hab := (compare_eq_zero_iff_equals a b).mpr h
  have hba : jcompare b a = .eq := by rw [compare_antisymm a b, hab]; rfl
  have t1 := compare_triple a b c
  have t2 := compare_triple b a c
  have key : jcompare a c = jcompare b c := by
    cases h1 : jcompare b c
    · exact t1.2.2.1 (by simp [hab]) h1
    · exact t1.2.2.2 hab h1
    · cases h2 : jcompare a c
      · have := t2.2.2.1 (by simp [hba]) h2; simp_all
      · have := t2.2.2.2 hba h2; simp_all
      · rfl
  refine ⟨key, ?_⟩
  rw [compare_antisymm a c, compare_antisymm b c, key]

/-! ### `<`, `<=`, `>`, `>=` are that same order -/

theorem lt_le_gt_ge_agree (a b : JVal N) :
    jlt a b = (jcompare a b == .lt) ∧ jgt a b = jlt b a ∧ jge a b = jle b a ∧ jle a b = (jlt a b || equals a b) ∧
    jlt a b = !jge a b := by
  have he := compare_eq_zero_iff_equals a b
  unfold jlt jgt jge jle
  rw [compare_antisymm a b]
  cases h : jcompare a b <;> cases h2 : equals a b <;> simp_all <;> decide

/-! ### tuples by content, reference types by identity, symbols by bytes -/

/-- two tuples are equal exactly when they have the same bracket kind and element-wise equal contents -/
theorem tuple_by_content (br1 br2 : Bool) (xs ys : List (JVal N)) :
    equals (.tuple br1 xs) (.tuple br2 ys) = (br1 == br2 && contentEqList xs ys) := by
  rw [equals_eq_contentEq_both.1]; simp [contentEq]

/-- structs are equal exactly when their slot arrays and prototypes are element-wise equal
    (that the slot array is a function of the contents alone is `struct_layout_canonical`) -/
theorem struct_by_slots (f1 p1 f2 p2 : List (JVal N)) :
    equals (.struct f1 p1) (.struct f2 p2) = (contentEqList f1 f2 && contentEqList p1 p2) := by
  rw [equals_eq_contentEq_both.1]; simp [contentEq]

/-- arrays, tables, buffers, functions, fibers, …: equal iff same kind and same address; ordered by address -/
theorem ref_by_identity (k1 k2 : RefKind) (b1 b2 : UInt64) :
    (equals (.ref k1 b1 : JVal N) (.ref k2 b2) = true ↔ k1 = k2 ∧ b1 = b2) ∧
    (jcompare (.ref k1 b1 : JVal N) (.ref k2 b2) = .eq ↔ k1 = k2 ∧ b1 = b2) := by
  have h : equals (.ref k1 b1 : JVal N) (.ref k2 b2) = true ↔ k1 = k2 ∧ b1 = b2 := by simp [equals]
  exact ⟨h, by rw [compare_eq_zero_iff_equals]; exact h⟩

/-- symbols (keywords) are equal iff they have the same bytes, and never equal to a string or keyword (symbol) with
    those bytes.  In C the comparison is by pointer; that interning makes pointer identity coincide with byte equality
    is the invariant checked directly on `janet_vm.cache` by the harness (symbol-cache scenario). -/
theorem symbol_identity_iff_bytes (a b : List UInt8) :
    (equals (.sym a : JVal N) (.sym b) = true ↔ a = b) ∧ (equals (.kw a : JVal N) (.kw b) = true ↔ a = b) ∧
    equals (.sym a : JVal N) (.kw b) = false ∧ equals (.sym a : JVal N) (.str b) = false ∧
    equals (.kw a : JVal N) (.str b) = false ∧
    (jcompare (.sym a : JVal N) (.sym b) = .eq ↔ a = b) ∧ (jcompare (.kw a : JVal N) (.kw b) = .eq ↔ a = b) := by
  refine ⟨by simp [equals], by simp [equals], by simp [equals], by simp [equals], by simp [equals], ?_, ?_⟩ <;>
    simp [jcompare, bytesCompare_eq_iff]

/-! ### the explicit traversal stack of value.c (session 4; model `Value/Traverse.lean`, proof `Value/TraverseLemmas.lean`)

`janet_equals` and `janet_compare` do not recurse: they keep a stack of `JanetTraversalNode`s (`push_traversal_node`,
`traversal_next`) and loop.  `Traverse.compareIter` / `Traverse.equalsIter` mirror those loops statement by statement (frames
with `index` / `index2`, the statuses 0–3 of `traversal_next`, `return status - 2`, `return 1` after any non-zero status).
They compute exactly the recursive `jcompare` / `equals` every other theorem of this file is about — for all values whose
structs have the shape `janet_struct_begin` gives them (`WFv`: `janet_tablen(2·length)` slots, at most one prototype), nested
to any depth and of any width.  So every law above holds of the iterative algorithm. -/

section traversal
open JanetModel.Value.Traverse
omit [LawfulNum N]

theorem compare_traversal_stack_is_recursive (x y : JVal N) (hx : WFv x) (hy : WFv y) :
    compareIter x y = some (jcompare x y) := compareIter_eq x y hx hy

theorem equals_traversal_stack_is_recursive (x y : JVal N) (hx : WFv x) (hy : WFv y) :
    equalsIter x y = some (equals x y) := equalsIter_eq x y hx hy

/-- the loop invariant itself, from ANY reachable state (stack of frames left by earlier iterations): the loop returns the
    recursive comparison of the current pair, then lexicographically what the frames still hold, top frame first -/
theorem compare_traversal_loop_invariant (fuel : Nat) (x y : JVal N) (st : List (Frame N)) (hst : StackOK true st)
    (hx : WFv x) (hy : WFv y) (hf : weight x + stackW st < fuel) :
    compareLoop fuel x y st = some ((jcompare x y).then (restCmp st)) := compareLoop_spec fuel x y st hst hx hy hf

/-- non-vacuity: a struct with a prototype inside a bracketed tuple inside a tuple is well-formed, and the iterative
    algorithms run on it (against a copy that differs in the prototype's value) -/
example :
    let p : JVal F64 := .struct [.kw [112], .num ⟨0x3FF0000000000000⟩, .nil, .nil, .nil, .nil, .nil, .nil] []
    let q : JVal F64 := .struct [.kw [112], .num ⟨0x4000000000000000⟩, .nil, .nil, .nil, .nil, .nil, .nil] []
    let a : JVal F64 := .tuple false [.str [97], .tuple true [.struct [.nil, .nil, .kw [107], .bool true, .nil, .nil, .nil, .nil] [p]], .nil]
    let b : JVal F64 := .tuple false [.str [97], .tuple true [.struct [.nil, .nil, .kw [107], .bool true, .nil, .nil, .nil, .nil] [q]], .nil]
    compareIter a a = some .eq ∧ equalsIter a a = some true ∧ compareIter a b = some (jcompare a b) ∧ equalsIter a b = some false ∧
      compareIter a b ≠ some .eq := by
  decide +kernel

example : WFv (.tuple false [.str [97], .tuple true [.struct [.nil, .nil, .kw [107], .bool true, .nil, .nil, .nil, .nil]
    [.struct [.kw [112], .num (⟨0x3FF0000000000000⟩ : F64), .nil, .nil, .nil, .nil, .nil, .nil] []]], .nil] : JVal F64) := by
  simp only [WFv, WFl, and_true, true_and, List.length_cons, List.length_nil]
  decide

end traversal

/-! ### symbol interning (src/core/symcache.c, model `Value/SymCache.lean`)

The model works on histories of `intern bytes` / `sweep bytes` from `janet_symcache_init`, with tombstones, the move of a
found symbol into the first tombstone on its probe path, `janet_cache_resize`.  What the C writes into a vacated slot
(`JANET_SYMCACHE_DELETED`, not `NULL`) is regenerated from the source: with `NULL` the probe-chain part of the invariant
(`Inv.chain`, lemma `vacatedByMove_ne`) no longer checks. -/

section symcache
open JanetModel.Value.SymCache

/-- after ANY history: no two cached symbols with the same bytes, one address names one symbol, a cached symbol is found by
    a lookup of its bytes (which returns its address), and the cache holds exactly the byte strings interned and not swept
    since (no symbol is lost, e.g. by a resize) -/
theorem symcache_unique (ops : List Op) (c : Cache) (h : run init ops = some c) :
    (∀ p q b, Live c.slots p b → Live c.slots q b → p = q) ∧
    (∀ p b b', Live c.slots p b → Live c.slots p b' → b = b') ∧
    (∀ p b, Live c.slots p b → ∃ c', intern c b = some (c', p)) ∧
    (∀ b, (∃ p, Live c.slots p b) ↔ b ∈ aliveAfter [] ops) := by
  have hs := run_spec ops init [] c init_invC
    (fun b => ⟨fun ⟨p, hp⟩ => absurd hp (not_live_replicate _ _ _), fun hb => by simp at hb⟩) h
  refine ⟨fun p q b ⟨i, hi⟩ ⟨j, hj⟩ => ?_, hs.1.ptrInj, fun p b hl => ?_, hs.2⟩
  · have := hs.1.inv.nodup i j p q b hi hj
    subst this; rw [hi] at hj; cases hj; rfl
  · obtain ⟨c', hc', _⟩ := intern_liveC hs.1 hl
    exact ⟨c', hc'⟩

/-- equal byte strings intern to the same address for as long as the symbol is not swept, whatever happens in between
    (other interns, sweeps of other symbols, tombstone reuse, resizes); different byte strings get different addresses -/
theorem symcache_same_symbol (ops1 ops2 : List Op) (c c1 c2 c3 : Cache) (b b' : List UInt8) (p1 p3 : Nat)
    (h0 : run init ops1 = some c) (h1 : intern c b = some (c1, p1)) (h2 : run c1 ops2 = some c2)
    (hns : ∀ o ∈ ops2, o ≠ Op.sweep b) (h3 : intern c2 b' = some (c3, p3)) :
    (b' = b → p3 = p1) ∧ (b' ≠ b → p3 ≠ p1) := by
  have hc := run_inv ops1 init c init_invC h0
  obtain ⟨hc1, hl1, _, _⟩ := intern_post hc h1
  have hc2 := run_inv ops2 c1 c2 hc1 h2
  have hl2 : Live c2.slots p1 b := live_stable ops2 c1 c2 p1 b hc1 hl1 h2 hns
  obtain ⟨hc3, hl3, hnew, hold⟩ := intern_post hc2 h3
  refine ⟨fun e => ?_, fun hne e => ?_⟩
  · subst e; exact (hold p1 hl2).symm
  · subst e
    by_cases hex : ∃ q, Live c2.slots q b'
    · obtain ⟨q, hq⟩ := hex
      have := hold q hq; subst this
      exact hne (hc2.ptrInj _ _ _ hq hl2)
    · have := hnew (fun q hq => hex ⟨q, hq⟩)
      have := hc2.fresh _ _ hl2
      omega

/-- non-vacuity: a history with a tombstone on the probe path of a later lookup runs without hitting the assertion -/
example : (run init [.intern [97], .intern [98], .intern [99], .sweep [98], .intern [99], .intern [98], .sweep [97]]).isSome = true := by
  decide +kernel

/-! #### `janet_symbol_gen` (session 4; model `Value/SymGen.lean`)

`gensym` probes the cache for the counter name and advances the counter for as long as the probe finds a symbol.  The fact
that the probe is REPEATED (not done once or twice) is what makes the new symbol's bytes different from those of every live
symbol; it is regenerated from the source (`Gen.Value.gensymProbeLoop`, structure of the loops of `janet_symbol_gen`). -/

/-- tie: in the source the probe of the gensym counter sits in a loop that repeats while the name is found -/
theorem gensym_probe_loop_tie : JanetModel.Gen.Value.gensymProbeLoop = true := by decide

/-- **the probe loop of `janet_symbol_gen` terminates** (session 4d; `Value/SymGenTerm.lean`): in every state reached from
    `janet_symcache_init` by interns, sweeps and gensyms, the loop `do { probe } while (found && (inc_gensym(), 1))` finishes
    within `cache_count + 1` probes, and its result — hence that of the whole call — is the same for EVERY larger probe bound:
    `gensymT` (the model without a bound) is the result of the C's unbounded loop.  Reason: `inc_gensym` is +1 on a 6-digit
    base-62 number (proved on the REGENERATED digit transitions), so the first 62^6 counter names are pairwise distinct, each
    hit shows one more of them to be live, and the cache holds exactly `cache_count` symbols.  `hsmall` holds in the C
    whatever the history: `cache_count` is a uint32_t, 2^32 < 62^6. -/
theorem gensym_terminates (ops : List OpG) (s : GState) (h : runGT ginit ops = some s) (hsmall : s.cache.count < 62 ^ 6) :
    (∃ r, ∀ fuel, s.cache.count < fuel → genLoop fuel s.cache s.counter = some r) ∧
    (∀ fuel, s.cache.count < fuel → gensym fuel s.cache s.counter = gensymT s.cache s.counter) := by
  obtain ⟨hinv, hw, hlen, _⟩ := runGT_inv ops ginit s init_invC gensymCounterInit_ok.1 h
  have hlen7 : s.counter.length = 7 := by rw [hlen]; exact gensymCounterInit_ok.2
  obtain ⟨r, hr⟩ := genLoop_terminates hinv hw (by rw [hlen7]; exact hsmall)
  refine ⟨⟨r, hr⟩, fun fuel hf => ?_⟩
  simp only [gensymT, gensym, hr fuel hf, hr (s.cache.count + 1) (by omega)]

/-- **gensym returns a symbol that is `=` to no live symbol**: after ANY history of interns, sweeps and gensyms from
    `janet_symcache_init`, a `janet_symbol_gen` call (whatever number of counter names it has to skip — no probe bound:
    `gensym_terminates`) settles on bytes that no cached symbol has, puts the new symbol at a fresh address, and leaves every
    other symbol at its address -/
theorem gensym_fresh (ops : List OpG) (s : GState) (c' : Cache) (ctr' : List UInt8) (p : Nat)
    (h : runGT ginit ops = some s) (hg : gensymT s.cache s.counter = some (c', ctr', p)) :
    (∀ q, ¬ Live s.cache.slots q ctr') ∧ Live c'.slots p ctr' ∧ (∀ q b, Live s.cache.slots q b → q ≠ p) ∧
    (∀ q x, Live c'.slots q x ↔ (Live s.cache.slots q x ∨ (q = p ∧ x = ctr'))) := by
  have hinv := (runGT_inv ops ginit s init_invC gensymCounterInit_ok.1 h).1
  obtain ⟨_, _, _, hfresh, hp, _, hl⟩ := gensym_spec _ s.cache s.counter c' ctr' p hinv hg
  refine ⟨hfresh, (hl p ctr').mpr (Or.inr ⟨rfl, rfl⟩), fun q b hq e => ?_, hl⟩
  have := hinv.fresh q b hq
  omega

/-- **`symcache_unique` for histories with gensym**: no two cached symbols with the same bytes, one address names one
    symbol, a cached symbol is found by a lookup of its bytes — after any history of `janet_symbol`, sweeps and
    `janet_symbol_gen` (every such history is realised by a plain one: `runGT_inv`) -/
theorem symcache_unique_gensym (ops : List OpG) (s : GState) (h : runGT ginit ops = some s) :
    (∀ p q b, Live s.cache.slots p b → Live s.cache.slots q b → p = q) ∧
    (∀ p b b', Live s.cache.slots p b → Live s.cache.slots p b' → b = b') ∧
    (∀ p b, Live s.cache.slots p b → ∃ c', intern s.cache b = some (c', p)) := by
  obtain ⟨_, _, _, ops', ho⟩ := runGT_inv ops ginit s init_invC gensymCounterInit_ok.1 h
  have := symcache_unique ops' s.cache ho
  exact ⟨this.1, this.2.1, this.2.2.1⟩

/-- non-vacuity: gensym, the next counter name interned by other means, two more gensyms (the second skips TWO live names:
    its own previous result and the pre-interned one), a sweep and another gensym -/
example : ((runGT ginit [.gensym, .intern [95, 48, 48, 48, 48, 48, 50], .gensym, .gensym, .sweep [95, 48, 48, 48, 48, 48, 49], .gensym]).map
    (·.counter)) = some [95, 48, 48, 48, 48, 48, 52] := by
  decide +kernel

/-- non-vacuity of `gensym_terminates`, and the bound `cache_count + 1` is TIGHT: after a gensym (`_000000`) and an intern of
    `_000001` the cache counts 2 symbols, the next `janet_symbol_gen` is still probing after 2 probes and finishes with the 3rd -/
example : ((runGT ginit [.gensym, .intern [95, 48, 48, 48, 48, 48, 49]]).map fun s =>
    (s.cache.count == 2 && decide (s.cache.count < 62 ^ 6) && (genLoop 2 s.cache s.counter).isNone &&
      (genLoop 3 s.cache s.counter).map (·.2.1) == some [95, 48, 48, 48, 48, 48, 50] &&
      (gensymT s.cache s.counter).map (·.2.1) == some [95, 48, 48, 48, 48, 48, 50])) = some true := by
  decide +kernel

/-- `inc_gensym` carries: `_00000Z` → `_000010`, `_000009` → `_00000a`, `_00000z` → `_00000A`, `_ZZZZZZ` wraps to `_000000` -/
example : incGensym [95, 48, 48, 48, 48, 48, 90] = [95, 48, 48, 48, 48, 49, 48] ∧ incGensym [95, 48, 48, 48, 48, 48, 57] = [95, 48, 48, 48, 48, 48, 97] ∧
    incGensym [95, 48, 48, 48, 48, 48, 122] = [95, 48, 48, 48, 48, 48, 65] ∧ incGensym [95, 90, 90, 90, 90, 90, 90] = [95, 48, 48, 48, 48, 48, 48] := by
  decide

end symcache

/-! ### struct layout

PROVED in general (Value/Robin.lean, RobinUnique.lean, RobinPerm.lean): `struct_layout_canonical`,
`struct_layout_canonical_general`, `struct_put_existing_key` below — the slot array built by `janet_struct_put` /
`janet_struct_end` is a function of the set of accepted pairs alone, whatever the insertion order and collision pattern, any
capacity, including runs that wrap around, ignored nil pairs, over-announced counts (rebuild).  Insertion sequences
that contain the SAME key several times are covered by `struct_by_final_map` … `struct_flatten_first_value_wins` further down
(session 3).
Also established:
  * `struct_by_slots` above: equality of structs is element-wise equality of slot arrays (proved, all inputs);
  * `struct_put_capacity`: puts never change the capacity (proved, all inputs);
  * `struct_layout_canonical_partial`: a kernel-checked exhaustive TEST — for the six key sets of
    `layoutFamilies` (full-hash collisions, equal-hash doubles with −0, runs wrapping around the array end, adjacent
    runs with robin-hood displacement, nested keys) EVERY insertion order gives an `=` struct, and so does an insertion
    sequence with a duplicate key, a nil value, a nil key and an over-announced count (rebuild in `janet_struct_end`);
  * on the implementation: the harness checks on every run that values with the same content have identical slot
    arrays, and the model's `structOf` reproduces the implementation's slot array from several insertion orders. -/

/-- **PROVED, all inputs**: structs built by `janet_struct_begin(n)` / n × `janet_struct_put` / `janet_struct_end` from the
    same n pairs (non-nil keys and values, keys pairwise different) in ANY insertion order are the same value: identical
    slot arrays (hence `=`, same hash, compare 0), for every capacity and every collision pattern, runs wrapping around
    the end of the array included.  Proof: `putLoop` keeps the robin-hood invariant `RH` (the displaced pair travels on
    with its own hash and distance), fills the first empty slot after the home slot (`putLoop_spec`); the layout with a
    given set of entries and occupied slots is unique (`RH.unique`); two insertions commute (`ins_comm`). -/
theorem struct_layout_canonical (kvs₁ kvs₂ : List (Slot N)) (proto : List (JVal N)) (hperm : kvs₁.Perm kvs₂)
    (hvalid : ∀ kv ∈ kvs₁, kv.1.isNil = false ∧ kv.2.isNil = false) (hdist : DistinctKeys kvs₁) :
    structOf kvs₁ proto = structOf kvs₂ proto := structOf_perm proto hperm hvalid hdist

/-- **PROVED, all inputs** — general form: whatever count is announced to `janet_struct_begin` (at least the number of
    accepted pairs; a larger one makes `janet_struct_end` rebuild), whatever ignored pairs (nil key or nil value) are
    interspersed, and in whatever order the accepted pairs (keys pairwise different) are put: same struct. -/
theorem struct_layout_canonical_general (raw₁ raw₂ : List (Slot N)) (proto : List (JVal N)) (c₁ c₂ : Nat)
    (hperm : (raw₁.filter validPair).Perm (raw₂.filter validPair)) (hdist : DistinctKeys (raw₁.filter validPair))
    (hc₁ : (raw₁.filter validPair).length ≤ c₁) (hc₂ : (raw₂.filter validPair).length ≤ c₂) :
    structOfCount c₁ raw₁ proto = structOfCount c₂ raw₂ proto := structOfCount_canonical proto hperm hdist hc₁ hc₂

/-- **PROVED, all inputs** — duplicate keys: putting a key that is already in the struct never changes the layout; the
    probe reaches the slot of the equal key without displacing anything and (with `replace`) only its value is overwritten
    (struct.c `status == 0`).  Lifted to whole insertion sequences with duplicate keys in `struct_by_final_map` below. -/
theorem struct_put_existing_key (sl : List (Slot N)) (hrh : RH sl) (z : Nat) (hz : z < sl.length) (hez : ¬ Occ sl z)
    (key value : JVal N) (p : Nat) (hp : p < sl.length) (hop : Occ sl p) (heq : contentEq key (sg sl p).1 = true)
    (replace : Bool) :
    putLoop sl.length replace sl.length (hm sl.length key) 0 key value (hash key) sl =
      ((if replace then sl.set p ((sg sl p).1, value) else sl), false) := by
  have hcap : 0 < sl.length := by omega
  have hh := hm_lt hcap key
  have := putLoop_dup hrh hz hez hp hop heq (value := value) replace sl.length (hm sl.length key) hh
    (by rw [dst_self hh]; omega) (by rw [dst_self hh]; omega)
  rw [dst_self hh] at this
  exact this

/-- … and therefore equal, with equal hashes, comparing as 0 -/
theorem struct_by_content (kvs₁ kvs₂ : List (Slot N)) (proto : List (JVal N)) (hperm : kvs₁.Perm kvs₂)
    (hvalid : ∀ kv ∈ kvs₁, kv.1.isNil = false ∧ kv.2.isNil = false) (hdist : DistinctKeys kvs₁) :
    equals (structOf kvs₁ proto) (structOf kvs₂ proto) = true ∧ hash (structOf kvs₁ proto) = hash (structOf kvs₂ proto) ∧
    jcompare (structOf kvs₁ proto) (structOf kvs₂ proto) = .eq := by
  rw [struct_layout_canonical kvs₁ kvs₂ proto hperm hvalid hdist]
  exact ⟨equals_refl _, rfl, (compare_eq_zero_iff_equals _ _).mpr (equals_refl _)⟩

theorem struct_put_capacity (st : StructBuild N) (key value : JVal N) (replace : Bool) :
    (structPutExt st key value replace).slots.length = st.slots.length := structPutExt_capacity st key value replace

/- `struct_layout_canonical_partial` and `struct_layout_canonical_partial_cluster` (kernel-checked exhaustive tests of the
   model, `decide +kernel`, ≈1 min of kernel time) live in Value/LayoutTests.lean under this namespace. -/

/-! ### insertion sequences with duplicate keys: the struct is a function of the final key→value map (session 3)

`finalMap raw` (Value/RobinDup.lean) is the association list obtained by reading the accepted puts of `raw` in order: a new
key is appended, a key `=` to an earlier one keeps the EARLIER key object and takes the LATER value (`janet_struct_put`,
`replace = 1`); `finalMapR false` keeps the earlier value (`janet_struct_put_ext(…, 0)`, struct/proto-flatten). -/

/-- **PROVED, all inputs**: whatever the insertion sequence — the same key any number of times, nil keys / nil values
    interspersed — and whatever count ≥ the number of accepted puts is announced (every caller in src/core announces the
    number of pairs it is going to put), `janet_struct_begin(c)` / puts / `janet_struct_end` builds the struct of the
    final key→value map.  Needs "the layout does not depend on the values" (`foldl_ins_map` via the lock-step lemma
    `putLoop_rel`) and `putLoop_dup`. -/
theorem struct_by_final_map (c : Nat) (raw : List (Slot N)) (proto : List (JVal N))
    (hc : (raw.filter validPair).length ≤ c) : structOfCount c raw proto = structOf (finalMap raw) proto :=
  structOfCount_finalMap c raw proto hc

/-- … hence two insertion sequences with the same final map (as a set of pairs: any order) give the SAME slot array,
    `struct_layout_canonical` generalised to sequences with duplicates -/
theorem struct_layout_canonical_dups (c₁ c₂ : Nat) (raw₁ raw₂ : List (Slot N)) (proto : List (JVal N))
    (hc₁ : (raw₁.filter validPair).length ≤ c₁) (hc₂ : (raw₂.filter validPair).length ≤ c₂)
    (hperm : (finalMap raw₁).Perm (finalMap raw₂)) :
    structOfCount c₁ raw₁ proto = structOfCount c₂ raw₂ proto := by
  obtain ⟨hd, hv, _⟩ := finalMapR_spec true raw₁
  rw [struct_by_final_map c₁ raw₁ proto hc₁, struct_by_final_map c₂ raw₂ proto hc₂]
  exact structOf_perm proto hperm hv hd

/-- **which value wins**: the final map has pairwise different keys, and a key maps to the value of the LAST accepted put
    under an `=` key (nil: no such put) -/
theorem struct_last_value_wins (raw : List (Slot N)) (k : JVal N) :
    DistinctKeys (finalMap raw) ∧ mapGet (finalMap raw) k = lastPut (raw.filter validPair) k :=
  ⟨(finalMapR_spec true raw).1, mapGet_finalMap raw k⟩

/-- **up to `=`**: two insertion sequences whose final maps agree up to `=` of keys and values (so also when one says −0
    where the other says +0, or uses a different but equal tuple as key) give structs that are `=`, hash alike and
    compare as 0 -/
theorem struct_by_map_content (c₁ c₂ : Nat) (raw₁ raw₂ : List (Slot N)) (proto : List (JVal N))
    (hc₁ : (raw₁.filter validPair).length ≤ c₁) (hc₂ : (raw₂.filter validPair).length ≤ c₂)
    (h : MapEquiv (finalMap raw₁) (finalMap raw₂)) :
    equals (structOfCount c₁ raw₁ proto) (structOfCount c₂ raw₂ proto) = true ∧
    hash (structOfCount c₁ raw₁ proto) = hash (structOfCount c₂ raw₂ proto) ∧
    jcompare (structOfCount c₁ raw₁ proto) (structOfCount c₂ raw₂ proto) = .eq := by
  have he : equals (structOfCount c₁ raw₁ proto) (structOfCount c₂ raw₂ proto) = true := by
    rw [equals_iff_content]; exact structOfCount_mapEquiv c₁ c₂ raw₁ raw₂ proto hc₁ hc₂ h
  exact ⟨he, equals_hash _ _ he, (compare_eq_zero_iff_equals _ _).mpr he⟩

/-- `struct/proto-flatten` (`replace = 0`): the struct of the keep-first map; a key maps to the value of the FIRST
    accepted put under an `=` key -/
theorem struct_flatten_first_value_wins (c : Nat) (raw : List (Slot N)) (hc : (raw.filter validPair).length ≤ c) (k : JVal N) :
    structOfCountKeep c raw = structOf (finalMapR false raw) [] ∧
    mapGet (finalMapR false raw) k = mapGet (raw.filter validPair) k :=
  ⟨structOfCountKeep_finalMap c raw hc, mapGet_finalMapKeep raw k⟩

/-- **the hypothesis on the announced count is necessary** (what the C does NOT guarantee): with `janet_struct_begin(2)`
    and three puts the "avoid extra items" test drops the third put even when it only replaces a value, so two sequences
    with the same final map {a→3, b→2} give different structs.  No caller in src/core announces fewer pairs than it puts;
    the harness replays this through the C API (`pool dups`, under-announced cases) and sees the same two structs. -/
theorem struct_put_extra_dropped_witness :
    let a : JVal F64 := .kw [97]; let b : JVal F64 := .kw [98]
    let one : JVal F64 := .num ⟨0x3FF0000000000000⟩; let two : JVal F64 := .num ⟨0x4000000000000000⟩
    let three : JVal F64 := .num ⟨0x4008000000000000⟩
    finalMap [(a, one), (b, two), (a, three)] = [(a, three), (b, two)] ∧
    finalMap [(a, one), (a, three), (b, two)] = [(a, three), (b, two)] ∧
    structOfCount 2 [(a, one), (a, three), (b, two)] [] = structOf [(a, three), (b, two)] ∧
    structOfCount 2 [(a, one), (b, two), (a, three)] [] = structOf [(a, one), (b, two)] ∧
    equals (structOfCount 2 [(a, one), (b, two), (a, three)] []) (structOfCount 2 [(a, one), (a, three), (b, two)] []) = false := by
  refine ⟨rfl, rfl, rfl, rfl, ?_⟩
  decide +kernel

/-- non-vacuity: a sequence with a key put three times (once as −0 after +0), a nil value and a nil key; the first key
    object (+0) stays, the last value wins -/
example : finalMap [((.num ⟨0⟩ : JVal F64), .kw [1]), (.kw [2], .nil), (.num ⟨0x8000000000000000⟩, .kw [3]), (.nil, .kw [4]),
    (.kw [5], .kw [6]), (.num ⟨0⟩, .kw [7])] = [(.num ⟨0⟩, .kw [7]), (.kw [5], .kw [6])] := rfl
example : MapEquiv [((.num ⟨0⟩ : JVal F64), (.kw [7] : JVal F64))] [(.num ⟨0x8000000000000000⟩, .kw [7])] :=
  ⟨_, List.Perm.refl _, rfl, fun i => by
    cases i with
    | zero => exact ⟨by decide, by decide⟩
    | succ i => exact ⟨rfl, rfl⟩⟩

/-! ### string.c loops (session 3)

`janet_string_compare` (lengths, `memcmp` over the common prefix, sign, length tiebreak) and `janet_string_equal`
(= `janet_string_equalconst`: hash and length pre-check, pointer short-cut, `memcmp`) are mirrored statement by statement in
Value/StringLoop.lean; what `janet_compare` / `janet_equals` of the model do on strings, symbols, keywords is exactly that. -/

omit [LawfulNum N] in
theorem string_compare_loop_is_lex (a b : List UInt8) :
    stringCompareC a b = ordInt (bytesCompare a b) ∧
    stringCompareC a b = ordInt (jcompare (.str a : JVal N) (.str b)) ∧
    stringCompareC a b = ordInt (jcompare (.sym a : JVal N) (.sym b)) ∧
    stringCompareC a b = ordInt (jcompare (.kw a : JVal N) (.kw b)) :=
  ⟨stringCompareC_eq a b, stringCompareC_eq a b, stringCompareC_eq a b, stringCompareC_eq a b⟩

omit [LawfulNum N] in
theorem string_equal_loop_is_byte_equality (a b : List UInt8) (samePtr : Bool) (hptr : samePtr = true → a = b) :
    stringEqualC a b samePtr = (a == b) ∧ stringEqualC a b samePtr = equals (.str a : JVal N) (.str b) :=
  stringEqualC_eq a b samePtr hptr

/-- non-vacuity: a proper prefix sorts first; equal hash and length do not make two strings equal ("aa" / "b@" collide) -/
example : stringCompareC [97, 98] [97, 98, 0] = -1 ∧ stringCompareC [255] [1, 2] = 1 := by decide
example : stringHash [97, 97] = stringHash [98, 64] ∧ stringEqualC [97, 97] [98, 64] false = false := by decide

/-! ### NaN (session 3)

The property excludes NaN from the laws; the model type does not.  For ANY number type `M` with the laws of all IEEE doubles
(`LawfulNaNNum`: a NaN is `==` / `<` nothing; `F64` is one), the values of `JVal M` without a NaN at any depth (`nanFree`)
satisfy every law above — they are the image of `JVal (NonNaN M)` under an embedding that commutes with `janet_hash`,
`janet_equals`, `janet_compare` (Value/NaN.lean).  On NaN itself the laws fail, and struct construction refuses NaN keys. -/

section nan
variable {M : Type} [NumLike M] [LawfulNaNNum M]

/-- **the laws hold on the NaN-free values of a model type that contains NaN**: `=` reflexive, symmetric, transitive; equal ⇒
    same hash; `compare` antisymmetric, transitive (also strictly), total; `compare = 0 ⇔ =`; `< <= > >=` are that order -/
theorem laws_on_nan_free_values (a b c : JVal M) (ha : nanFree a = true) (hb : nanFree b = true) (hc : nanFree c = true) :
    equals a a = true ∧ equals a b = equals b a ∧ (equals a b = true → equals b c = true → equals a c = true) ∧
    (equals a b = true → hash a = hash b) ∧
    jcompare b a = (jcompare a b).swap ∧ (jcompare a b ≠ .gt → jcompare b c ≠ .gt → jcompare a c ≠ .gt) ∧
    (jcompare a b = .lt → jcompare b c ≠ .gt → jcompare a c = .lt) ∧ (jcompare a b ≠ .gt → jcompare b c = .lt → jcompare a c = .lt) ∧
    (jle a b = true ∨ jle b a = true) ∧ (jcompare a b = .eq ↔ equals a b = true) ∧
    (jlt a b = (jcompare a b == .lt) ∧ jgt a b = jlt b a ∧ jge a b = jle b a ∧ jle a b = (jlt a b || equals a b) ∧ jlt a b = !jge a b) := by
  obtain ⟨a', rfl⟩ := lift_surj a ha
  obtain ⟨b', rfl⟩ := lift_surj b hb
  obtain ⟨c', rfl⟩ := lift_surj c hc
  unfold jle jlt jgt jge
  simp only [equals_lift, hash_lift, jcompare_lift]
  have hl := lt_le_gt_ge_agree a' b'
  unfold jle jlt jgt jge at hl
  have ht := compare_total a' b'
  unfold jle at ht
  exact ⟨equals_refl a', equals_symm a' b', equals_trans a' b' c', equals_hash a' b', compare_antisymm a' b',
    compare_trans a' b' c', compare_lt_of_lt_of_le a' b' c', compare_lt_of_le_of_lt a' b' c', ht,
    compare_eq_zero_iff_equals a' b', trivial, hl.2⟩

/-- **why NaN is excluded**: a NaN is not `=` to itself, compares as "greater" in BOTH directions with every number, and a
    tuple holding it is not `=` to itself by content (the C returns true only through its pointer short-cut `t1 == t2`) -/
theorem nan_breaks_the_laws (n m : M) (h : NumLike.isNaN n = true) :
    equals (.num n : JVal M) (.num n) = false ∧ jcompare (.num n : JVal M) (.num m) = .gt ∧ jcompare (.num m : JVal M) (.num n) = .gt ∧
    equals (.tuple false [.num n] : JVal M) (.tuple false [.num n]) = false :=
  ⟨nan_not_equal_self n h, (nan_compare n m h).1, (nan_compare n m h).2.1, (nan_compare n m h).2.2⟩

omit [LawfulNaNNum M] in
/-- **`janet_struct_put_ext` ignores a NaN key** — any value, any flag, any state of the build (struct.c: the
    `janet_checktype(key, JANET_NUMBER) && isnan(…)` guard, regenerated: `struct_put_guards_tie`) -/
theorem struct_put_ignores_nan_key (st : StructBuild M) (n : M) (h : NumLike.isNaN n = true) (v : JVal M) (r : Bool) :
    structPutExt st (.num n) v r = st := structPutExt_nan_key st n h v r

/-- **struct layout with NaN in the model**: an insertion sequence over `JVal M` whose pairs are either NaN-keyed (ignored)
    or NaN-free — duplicates, nil keys / values, any announced count covering the accepted puts — builds the (embedded)
    struct of the final key→value map of its NaN-free pairs; so all of `struct_layout_canonical…` / `struct_by_map_content`
    hold for it -/
theorem struct_by_final_map_nan (c : Nat) (raw : List (Slot M)) (proto : List (JVal M))
    (rawNN : List (Slot (NonNaN M))) (protoNN : List (JVal (NonNaN M)))
    (hraw : raw.filter (fun kv => !isNaNKey kv.1) = rawNN.map liftSlot) (hproto : proto = liftList protoNN)
    (hc : (rawNN.filter validPair).length ≤ c) :
    structOfCount c raw proto = lift (structOf (finalMap rawNN) protoNN) := by
  rw [structOfCount_drop_nan_keys, hraw, hproto, structOfCount_lift, struct_by_final_map c rawNN protoNN hc]

end nan

/-- the model's early-return guards of `janet_struct_put_ext` (nil key or value, NaN key, struct full — in this order) and
    what its duplicate-key branch writes (the value only: the first key object stays) are what the translator reads off
    struct.c on this run; `janet_table_put` refuses nil and NaN keys too -/
theorem struct_put_guards_tie :
    JanetModel.Gen.Value.structPutGuards = structPutExt.guards ∧ JanetModel.Gen.Value.structDupWrites = structPutExt.dupWrites ∧
    "nilKey" ∈ JanetModel.Gen.Value.tablePutGuards ∧ "nanKey" ∈ JanetModel.Gen.Value.tablePutGuards := by decide

/-- non-vacuity: the quiet NaN pattern is a NaN of `F64`, it is refused as a key, and `F64` has the laws of all doubles -/
example : LawfulNaNNum F64 := inferInstance
example : NumLike.isNaN (⟨0x7FF8000000000000⟩ : F64) = true := by decide
example : NumLike.isNaN (⟨0x7FF0000000000000⟩ : F64) = false := by decide   -- +inf is not
example : nanFree (.tuple true [.num ⟨0x7FF0000000000000⟩, .struct [.kw [1], .num ⟨0⟩] []] : JVal F64) = true := by decide
example : nanFree (.tuple true [.num ⟨0xFFF8000000000001⟩] : JVal F64) = false := by decide
/-- a tuple HOLDING NaN is accepted as a struct key (only a top-level NaN is refused) -/
example : isNaNKey (.tuple false [.num ⟨0x7FF8000000000000⟩] : JVal F64) = false := by decide

/-! ### non-vacuity: the executable doubles are lawful, and the statements speak about non-trivial values -/

example : LawfulNum (NonNaN F64) := inferInstance

/-- −0 and +0 are equal, hash alike, also inside tuples and as struct keys -/
example : equals (.num ⟨0⟩ : JVal F64) (.num ⟨0x8000000000000000⟩) = true := by decide
example : Value.hash (JVal.tuple false [.num ⟨0⟩] : JVal F64) = Value.hash (JVal.tuple false [.num ⟨0x8000000000000000⟩] : JVal F64) := by
  decide
/-- bracketed and parenthesised tuples with the same elements differ -/
example : equals (.tuple true [.nil] : JVal F64) (.tuple false [.nil]) = false := by decide
example : jcompare (.tuple true [.nil] : JVal F64) (.tuple false [.nil]) = .gt := by decide

/-! ### abstract values with compare / hash hooks (session 4b; model `Value/Abstract.lean`)

`AVal N` = the values of `JVal N` plus abstract values (an address; `janet_abstract_type`, the payload and the hooks of a
type are reads of memory: class `AbsHeap`).  `compareAbstract` = value.c `janet_compare_abstract` statement by statement; the
JANET_ABSTRACT cases of janet_equals / janet_compare / janet_hash dispatch to it / to the hash hook.  The hooks are parameters.
GIVEN LAWFUL HOOKS (`LawfulAbstract`: the sign of every compare hook is a total preorder on payloads, and a type with a
compare hook has a hash hook respecting it) every law of the property holds of ALL values, abstracts inside tuples, struct
keys, struct values and prototypes included.  The hooks of inttypes.c are lawful. -/

section abstracts
variable [AbsHeap] [LawfulAbstract]

/-- `=` is an equivalence on values containing abstracts, and equal values hash alike -/
theorem abstract_equals_equivalence_and_hash :
    (∀ a : AVal N, equalsL a a = true) ∧ (∀ a b : AVal N, equalsL a b = equalsL b a) ∧
    (∀ a b c : AVal N, equalsL a b = true → equalsL b c = true → equalsL a c = true) ∧
    (∀ a b : AVal N, equalsL a b = true → hashL a = hashL b) := by
  refine ⟨fun a => ?_, fun a b => ?_, fun a b c h1 h2 => ?_, fun a b h => ?_⟩
  · rw [equalsL_eq_contentEqL_both.1]; exact contentEqL_refl_both.1 a
  · rw [equalsL_eq_contentEqL_both.1, equalsL_eq_contentEqL_both.1]; exact contentEqL_symm_both.1 a b
  · rw [equalsL_eq_contentEqL_both.1] at *; exact contentEqL_trans_both.1 a b c h1 h2
  · rw [equalsL_eq_contentEqL_both.1] at h; exact contentEqL_hash_both.1 a b h

theorem abstract_compare_antisymm (a b : AVal N) : jcompareL b a = (jcompareL a b).swap :=
  (swapL_all _).1 a b (Nat.le_refl _)

theorem abstract_compare_triple (a b c : AVal N) : Tri (jcompareL a b) (jcompareL b c) (jcompareL a c) :=
  (triL_all _).1 a b c (Nat.le_refl _)

/-- compare = 0 ⇔ `=` on values containing abstracts -/
theorem abstract_compare_eq_zero_iff_equals (a b : AVal N) : jcompareL a b = .eq ↔ equalsL a b = true := by
  rw [equalsL_eq_contentEqL_both.1]; exact (eqiffL_all _).1 a b (Nat.le_refl _)

/-- `compare` (hence `<`, `<=`, `>`, `>=`) is ONE total order on values containing abstracts: antisymmetric as a three-way
    comparison, `≤` both ways ⇒ `=`, transitive (`≤`, and `<` through `≤` on either side), total -/
theorem abstract_compare_total_order :
    (∀ a b : AVal N, jcompareL b a = (jcompareL a b).swap) ∧
    (∀ a b : AVal N, jleL a b = true → jleL b a = true → equalsL a b = true) ∧
    (∀ a b c : AVal N, jleL a b = true → jleL b c = true → jleL a c = true) ∧
    (∀ a b c : AVal N, jcompareL a b = .lt → jcompareL b c ≠ .gt → jcompareL a c = .lt) ∧
    (∀ a b c : AVal N, jcompareL a b ≠ .gt → jcompareL b c = .lt → jcompareL a c = .lt) ∧
    (∀ a b : AVal N, jleL a b = true ∨ jleL b a = true) := by
  refine ⟨abstract_compare_antisymm, ?_, ?_, fun a b c => (abstract_compare_triple a b c).2.1,
    fun a b c => (abstract_compare_triple a b c).2.2.1, ?_⟩
  · intro a b h1 h2
    rw [← abstract_compare_eq_zero_iff_equals]
    unfold jleL at h1 h2; rw [abstract_compare_antisymm a b] at h2
    cases h : jcompareL a b <;> simp_all
  · intro a b c h1 h2
    unfold jleL at *
    have := (abstract_compare_triple a b c).1 (by simpa using h1) (by simpa using h2)
    simpa using this
  · intro a b
    unfold jleL; rw [abstract_compare_antisymm a b]; cases jcompareL a b <;> simp

/-- `<`, `<=`, `>`, `>=` on values containing abstracts are that same order -/
theorem abstract_lt_le_gt_ge_agree (a b : AVal N) :
    jltL a b = (jcompareL a b == .lt) ∧ jgtL a b = jltL b a ∧ jgeL a b = jleL b a ∧ jleL a b = (jltL a b || equalsL a b) ∧
    jltL a b = !jgeL a b := by
  have he := abstract_compare_eq_zero_iff_equals a b
  unfold jltL jgtL jgeL jleL
  rw [abstract_compare_antisymm a b]
  cases h : jcompareL a b <;> cases h2 : equalsL a b <;> simp_all <;> decide

/-- equal values (e.g. two different s64 objects with one payload) are interchangeable on either side of a comparison -/
theorem abstract_compare_congr (a b c : AVal N) (h : equalsL a b = true) :
    jcompareL a c = jcompareL b c ∧ jcompareL c a = jcompareL c b := by
  have hab := (abstract_compare_eq_zero_iff_equals a b).mpr h
  have hba : jcompareL b a = .eq := by rw [abstract_compare_antisymm a b, hab]; rfl
  have t1 := abstract_compare_triple a b c
  have t2 := abstract_compare_triple b a c
  have key : jcompareL a c = jcompareL b c := by
    cases h1 : jcompareL b c
    · exact t1.2.2.1 (by simp [hab]) h1
    · exact t1.2.2.2 hab h1
    · cases h2 : jcompareL a c
      · have := t2.2.2.1 (by simp [hba]) h2; simp_all
      · have := t2.2.2.2 hba h2; simp_all
      · rfl
  refine ⟨key, ?_⟩
  rw [abstract_compare_antisymm a c, abstract_compare_antisymm b c, key]

omit [LawfulNum N] [LawfulAbstract] in
/-- the abstract-free model `JVal N` (every other theorem of this file) is the fragment of `AVal N` without abstracts:
    hash, `=` and compare commute with the embedding -/
theorem abstract_model_extends_value_model (a b : JVal N) :
    hashL (ofJVal a) = hash a ∧ equalsL (ofJVal a) (ofJVal b) = equals a b ∧ jcompareL (ofJVal a) (ofJVal b) = jcompare a b :=
  ⟨ofJVal_hash_both.1 a, ofJVal_equals_both.1 a b, ofJVal_compare_both.1 a b⟩

omit [LawfulNum N] in
/-- what `janet_compare_abstract` computes: type pointer first, then the compare hook (or the address when there is none).
    Its first statement `if (xx == yy) return 0` is a pure short-cut (the hook of a lawful type is reflexive); two abstracts of
    DIFFERENT types — an s64 and a u64 with whatever payloads — are ordered by the addresses of their JanetAbstractType
    records and are never `=`. -/
theorem compare_abstract_is_type_then_hook (a b : UInt64) :
    ordOfInt (compareAbstract a b) = (natCmp (AbsHeap.tyOf a) (AbsHeap.tyOf b)).then (absRest a b) ∧
    (AbsHeap.tyOf a ≠ AbsHeap.tyOf b →
      jcompareL (.leaf (.abs a) : AVal N) (.leaf (.abs b)) = natCmp (AbsHeap.tyOf a) (AbsHeap.tyOf b) ∧
      equalsL (.leaf (.abs a) : AVal N) (.leaf (.abs b)) = false) := by
  refine ⟨cmpAbs_then a b, fun h => ?_⟩
  have := compareAbstract_of_type_ne a b h
  exact ⟨this.1, by simp only [equalsL, LeafOps.eq, Leaf.eq]; simpa using this.2⟩

end abstracts

/-- THE HOOKS OF src/core/inttypes.c ARE LAWFUL: `janet_int64_compare` is the order of `int64_t`, `janet_uint64_compare` the
    order of `uint64_t` (both return only −1, 0, 1, and 0 exactly on identical payloads), `janet_int64_hash` is a function of
    the payload; so in any memory whose hooked types are `janet_s64_type` / `janet_u64_type` all the laws above hold -/
theorem inttypes_hooks_lawful :
    (∀ p q, ordOfInt (int64Compare p q) = intCmp (s64 p) (s64 q)) ∧ (∀ p q, ordOfInt (uint64Compare p q) = natCmp p.toNat q.toNat) ∧
    (∀ p q, int64Compare p q = 0 ↔ p = q) ∧ (∀ p q, uint64Compare p q = 0 ↔ p = q) ∧
    (∀ p q, int64Compare p q = -1 ∨ int64Compare p q = 0 ∨ int64Compare p q = 1) ∧
    (∀ p q, uint64Compare p q = -1 ∨ uint64Compare p q = 0 ∨ uint64Compare p q = 1) ∧
    (∀ (tyOf : UInt64 → Nat) (payload : UInt64 → UInt64) (hooks : Nat → AbsType UInt64),
      (∀ t, (hooks t).compare = none ∨ hooks t = s64Type ∨ hooks t = u64Type) → @LawfulAbstract (intHeap tyOf payload hooks)) :=
  ⟨int64Compare_ord, uint64Compare_ord, int64Compare_eq_zero, uint64Compare_eq_zero, int64Compare_range, uint64Compare_range,
   intHeap_lawful⟩

/-- tie: the decisions of janet_compare_abstract in source order, the JANET_ABSTRACT cases of janet_hash / janet_equals /
    janet_compare, and the table of hooked abstract types with the SHAPES of their hook bodies, all regenerated from
    value.c / inttypes.c (Gen/ValueAbs.lean), are what the model implements -/
theorem abstract_dispatch_tie :
    JanetModel.Gen.ValueAbs.compareAbstractSteps = compareAbstract.steps ∧
    JanetModel.Gen.ValueAbs.hashAbstractHookElsePointer = true ∧ JanetModel.Gen.ValueAbs.equalsAbstractViaCompare = true ∧
    JanetModel.Gen.ValueAbs.compareAbstractDiffReturned = true ∧
    JanetModel.Gen.ValueAbs.hookedTypes =
      [("core/s64", "threeWay:int64_t", "xorWords:int32_t"), ("core/u64", "threeWay:uint64_t", "xorWords:int32_t")] ∧
    coreHooks "core/s64" = some s64Type ∧ coreHooks "core/u64" = some u64Type :=
  ⟨by decide, by decide, by decide, by decide, by decide, coreHooks_s64, coreHooks_u64⟩

section abstract_example
/-- a memory with an s64 at address 16 (payload −1), a u64 at 32 (payload 2^64−1: the same bits), a second s64 at 48
    (payload −1) and an unhooked abstract at 64; the s64 type record (1000) lies below the u64 one (2000) -/
@[reducible] def exHeap : AbsHeap := intHeap (fun a => if a = 32 then 2000 else if a = 64 then 3000 else 1000)
  (fun a => if a = 64 then 0 else 0xFFFFFFFFFFFFFFFF) (fun t => if t = 1000 then s64Type else if t = 2000 then u64Type else ⟨none, none⟩)

attribute [local instance] exHeap in
/-- non-vacuity: that memory is lawful, and: the two s64 are `=` with one hash although different objects; s64 −1 and u64
    2^64−1 are not `=` and ordered by type, inside a tuple too; an unhooked abstract is only `=` to itself -/
example :
    LawfulAbstract ∧
    equalsL (.leaf (.abs 16) : AVal F64) (.leaf (.abs 48)) = true ∧
    hashL (.leaf (.abs 16) : AVal F64) = hashL (.leaf (.abs 48) : AVal F64) ∧
    equalsL (.leaf (.abs 16) : AVal F64) (.leaf (.abs 32)) = false ∧
    jcompareL (.tuple false [.leaf (.abs 16)] : AVal F64) (.tuple false [.leaf (.abs 32)]) = .lt ∧
    jcompareL (.leaf (.abs 64) : AVal F64) (.leaf (.abs 16)) = .gt ∧
    equalsL (.leaf (.abs 64) : AVal F64) (.leaf (.abs 64)) = true := by
  refine ⟨intHeap_lawful _ _ _ (fun t => ?_), by decide, by decide, by decide, by decide, by decide, by decide⟩
  by_cases h1 : t = 1000
  · simp [h1]
  · by_cases h2 : t = 2000
    · simp [h1, h2]
    · simp [h1, h2]
end abstract_example

/-! ### the pointer short-cuts of janet_equals (model `Value/PtrShortcut.lean`)

`if (t1 == t2) break;` / `if (s1 == s2) break;` in front of the flag / hash / length tests: `equalsP` on values that carry the
addresses of their tuples and structs.  For two values read from ONE memory the short-cuts never change the answer — they are
reflexivity of `=` on the content.  (janet_compare has no such test for tuples and structs; the `xx == yy` test of
janet_compare_abstract is in `compareAbstract` and redundant by `compare_abstract_is_type_then_hook`.) -/

section ptr_shortcut

/-- for every lawful leaf type (lawful numbers, lawful abstract hooks), any memory, any two values consistent with it -/
theorem equals_pointer_shortcuts_are_reflexivity [AbsHeap] [LawfulAbstract] (mem : Nat → Option (AVal N)) (x y : PVal (Leaf N))
    (hx : Consistent mem x) (hy : Consistent mem y) : equalsP x y = equalsL (erase x) (erase y) :=
  equalsP_eq_equalsL mem x y hx hy

/-- tie: where the C has (and has not) a pointer test, regenerated from janet_equals / janet_compare -/
theorem pointer_shortcut_tie :
    JanetModel.Gen.ValueAbs.equalsTuplePtrShortcut = equalsP.tupleShortcut ∧
    JanetModel.Gen.ValueAbs.equalsStructPtrShortcut = equalsP.structShortcut ∧
    JanetModel.Gen.ValueAbs.compareTuplePtrShortcut = false ∧ JanetModel.Gen.ValueAbs.compareStructPtrShortcut = false := by decide

attribute [local instance] exHeap in
/-- non-vacuity, and why reflexivity is the hypothesis: a shared tuple `t = [1 :a]` inside two different outer tuples in a
    consistent memory compares equal with and without the short-cut; a tuple holding NaN compared WITH ITSELF is `=` through
    the short-cut although its content is not (`nan_breaks_the_laws`) — the one place where the short-cut is observable -/
example :
    let one : PVal (Leaf F64) := .leaf (.num ⟨0x3FF0000000000000⟩)
    let t : PVal (Leaf F64) := .tuple 100 false [one, .leaf (.kw [97])]
    let x : PVal (Leaf F64) := .tuple 200 false [t, t]
    let y : PVal (Leaf F64) := .tuple 300 false [t, .tuple 400 false [one, .leaf (.kw [97])]]
    let mem : Nat → Option (AVal F64) := fun a =>
      if a = 100 then some (erase t) else if a = 200 then some (erase x) else if a = 300 then some (erase y)
      else if a = 400 then some (erase t) else none
    let nanT : PVal (Leaf F64) := .tuple 500 false [.leaf (.num ⟨0x7FF8000000000000⟩)]
    (Consistent mem x ∧ Consistent mem y) ∧ equalsP x y = true ∧ equalsL (erase x) (erase y) = true ∧
    equalsP nanT nanT = true ∧ equalsL (erase nanT) (erase nanT) = false := by
  refine ⟨⟨?_, ?_⟩, by decide, by decide, by decide, by decide⟩ <;> simp [Consistent, ConsistentL, erase, erases]

end ptr_shortcut

/-! ### structs by lookups (session 4b; `Value/MapLookup.lean`): the step from equal lookups to `MapEquiv` -/

/-- **two insertion sequences whose final maps answer EVERY LOOKUP alike (values up to `=`) build `=` structs** — whatever the
    duplicates, ignored pairs, orders, announced counts, choice among equal key objects.  By `struct_last_value_wins` the lookup
    `mapGet (finalMap raw) k` is the value of the last accepted put under a key `=` to `k`, so: same last value under every key
    ⇒ `=`, same hash, compare 0.  (Closes the gap left by `struct_by_map_content`, which asked for `MapEquiv`.) -/
theorem struct_by_lookups (c₁ c₂ : Nat) (raw₁ raw₂ : List (Slot N)) (proto : List (JVal N))
    (hc₁ : (raw₁.filter validPair).length ≤ c₁) (hc₂ : (raw₂.filter validPair).length ≤ c₂)
    (h : ∀ k, contentEq (mapGet (finalMap raw₁) k) (mapGet (finalMap raw₂) k) = true) :
    MapEquiv (finalMap raw₁) (finalMap raw₂) ∧
    equals (structOfCount c₁ raw₁ proto) (structOfCount c₂ raw₂ proto) = true ∧
    hash (structOfCount c₁ raw₁ proto) = hash (structOfCount c₂ raw₂ proto) ∧
    jcompare (structOfCount c₁ raw₁ proto) (structOfCount c₂ raw₂ proto) = .eq := by
  obtain ⟨hd₁, hv₁, _⟩ := finalMapR_spec true raw₁
  obtain ⟨hd₂, hv₂, _⟩ := finalMapR_spec true raw₂
  have hm : MapEquiv (finalMap raw₁) (finalMap raw₂) :=
    mapEquiv_of_sameLookups _ _ hd₁ hd₂ (fun kv hkv => (hv₁ kv hkv).2) (fun kv hkv => (hv₂ kv hkv).2) h
  exact ⟨hm, struct_by_map_content c₁ c₂ raw₁ raw₂ proto hc₁ hc₂ hm⟩

/-- equal lookups ⇒ `MapEquiv`, for any two maps with pairwise different keys and non-nil values -/
theorem map_equiv_of_equal_lookups (m₁ m₂ : List (Slot N)) (hd₁ : DistinctKeys m₁) (hd₂ : DistinctKeys m₂)
    (hv₁ : ∀ kv ∈ m₁, kv.2.isNil = false) (hv₂ : ∀ kv ∈ m₂, kv.2.isNil = false)
    (h : ∀ k, contentEq (mapGet m₁ k) (mapGet m₂ k) = true) : MapEquiv m₁ m₂ :=
  mapEquiv_of_sameLookups m₁ m₂ hd₁ hd₂ hv₁ hv₂ h

/-- non-vacuity: `{:a true 0 :x}` listed in two orders, −0 for +0 as key: pairwise different keys, and the lookups agree up to
    `=` (checked under both keys, under the other zero, and under a missing key) -/
example :
    let m₁ : List (Slot F64) := [(.kw [97], .bool true), (.num ⟨0⟩, .kw [120])]
    let m₂ : List (Slot F64) := [(.num ⟨0x8000000000000000⟩, .kw [120]), (.kw [97], .bool true)]
    DistinctKeys m₁ ∧ DistinctKeys m₂ ∧ contentEq (mapGet m₁ (.kw [97])) (mapGet m₂ (.kw [97])) = true ∧
    contentEq (mapGet m₁ (.num ⟨0⟩)) (mapGet m₂ (.num ⟨0⟩)) = true ∧
    contentEq (mapGet m₁ (.num ⟨0x8000000000000000⟩)) (mapGet m₂ (.num ⟨0x8000000000000000⟩)) = true ∧
    contentEq (mapGet m₁ .nil) (mapGet m₂ .nil) = true ∧ contentEq (mapGet m₁ (.num ⟨0x8000000000000000⟩)) (.kw [120]) = true := by
  refine ⟨?_, ?_, by decide, by decide, by decide, by decide, by decide⟩ <;> (unfold DistinctKeys; decide)

/-! ### tie of `traversal_next` (session 4b): status numbers and branch structure regenerated from value.c -/

section traversal_tie
open JanetModel.Value.Traverse JanetModel.Gen.ValueTrav

/-- the status of a `traversal_next` result (`none`: a next pair was found, status 0) -/
def nextStatus : Next F64 → Option Nat
  | .stop s => some s
  | .found _ _ _ => none

/-- the statuses the model's `traversalNext` returns are the ones read off the C on this run: a tuple frame of janet_compare
    (index2 set) whose common prefix is exhausted compares the lengths (self longer / shorter), one of janet_equals (index2
    clear) does not; a struct frame past its last slot compares the presence of prototypes; an empty stack ends the traversal;
    janet_compare turns the status into its result by `status - travCompareBias` (`statusOrd`) -/
theorem traversal_next_tie :
    nextStatus (traversalNext [.tup [.nil] [] 0 true]) = some travTupleLonger ∧
    nextStatus (traversalNext [.tup [] [.nil] 0 true]) = some travTupleShorter ∧
    nextStatus (traversalNext [.tup [.nil] [] 0 false]) = some travExhausted ∧
    nextStatus (traversalNext [.str [] [.struct [] []] [] [] 0 false]) = some travProtoSelfOnly ∧
    nextStatus (traversalNext [.str [] [] [] [.struct [] []] 0 false]) = some travProtoOtherOnly ∧
    nextStatus (traversalNext [.str [] [.struct [] []] [] [.struct [] []] 0 false]) = none ∧
    nextStatus (traversalNext []) = some travExhausted ∧
    statusOrd travTupleLonger = .gt ∧ statusOrd travTupleShorter = .lt ∧ statusOrd travExhausted = .eq ∧
    travCompareBias = 2 ∧ travExhausted = travCompareBias := by decide

end traversal_tie

end JanetModel.Props.C03
