/- C03 — equality, hashing and ordering agree with each other: property theorems.

   All statements are about the model `JanetModel.Value` (Value/Model.lean, Value/Struct.lean), for every number type
   `N` satisfying `LawfulNum` (the laws of IEEE doubles other than NaN); `F64` (64-bit patterns) is such a type.
   The model is tied to /repo/src/core/{value,util,struct,string}.c by Gen/Value.lean (regenerated constants and shape
   checks) and by the correspondence harness (checks/C03.py). -/
import JanetModel.Value.Order
import JanetModel.Value.F64
import JanetModel.Value.Struct
import JanetModel.Value.StructLemmas
import JanetModel.Value.SymCacheLemmas
import JanetModel.Value.RobinPerm

namespace JanetModel.Props.C03
open JanetModel.Value

variable {N : Type} [NumLike N] [LawfulNum N]

/-! ### `=` is an equivalence relation -/

theorem equals_refl (a : JVal N) : equals a a = true := by
  rw [equals_eq_contentEq_both.1]; exact contentEq_refl_both.1 a

theorem equals_symm (a b : JVal N) : equals a b = equals b a := by
  rw [equals_eq_contentEq_both.1, equals_eq_contentEq_both.1]; exact contentEq_symm_both.1 a b

theorem equals_trans (a b c : JVal N) (h1 : equals a b = true) (h2 : equals b c = true) : equals a c = true := by
  rw [equals_eq_contentEq_both.1] at *; exact contentEq_trans_both.1 a b c h1 h2

/-- `janet_equals` with its hash / length short-cuts decides exactly content equality (`contentEq`: same type, same
    number up to −0 = +0, same bytes, same bracket kind and element-wise equal, same slots and prototype, same address) -/
theorem equals_iff_content (a b : JVal N) : equals a b = contentEq a b := equals_eq_contentEq_both.1 a b

/-! ### equal values hash alike (needs the −0 normalisation, the bracket-flag offset, the prototype term) -/

theorem equals_hash (a b : JVal N) (h : equals a b = true) : hash a = hash b := by
  rw [equals_eq_contentEq_both.1] at h; exact contentEq_hash_both.1 a b h

/-! ### `compare` is one total order and its equality is `=` -/

theorem compare_antisymm (a b : JVal N) : jcompare b a = (jcompare a b).swap :=
  (swap_all (sizeOf a + sizeOf b)).1 a b (Nat.le_refl _)

theorem compare_triple (a b c : JVal N) : Tri (jcompare a b) (jcompare b c) (jcompare a c) :=
  (tri_all (sizeOf a + sizeOf b + sizeOf c)).1 a b c (Nat.le_refl _)

/-- `≤` is transitive -/
theorem compare_trans (a b c : JVal N) (h1 : jcompare a b ≠ .gt) (h2 : jcompare b c ≠ .gt) : jcompare a c ≠ .gt :=
  (compare_triple a b c).1 h1 h2

/-- `<` is transitive, also when one side is only `≤` -/
theorem compare_lt_of_lt_of_le (a b c : JVal N) (h1 : jcompare a b = .lt) (h2 : jcompare b c ≠ .gt) : jcompare a c = .lt :=
  (compare_triple a b c).2.1 h1 h2

theorem compare_lt_of_le_of_lt (a b c : JVal N) (h1 : jcompare a b ≠ .gt) (h2 : jcompare b c = .lt) : jcompare a c = .lt :=
  (compare_triple a b c).2.2.1 h1 h2

/-- any two values are comparable -/
theorem compare_total (a b : JVal N) : jle a b = true ∨ jle b a = true := by
  unfold jle; rw [compare_antisymm a b]; cases jcompare a b <;> simp

theorem compare_eq_zero_iff_equals (a b : JVal N) : jcompare a b = .eq ↔ equals a b = true := by
  rw [equals_eq_contentEq_both.1]; exact (eqiff_all (sizeOf a + sizeOf b)).1 a b (Nat.le_refl _)

/-- the order is total: antisymmetric (up to `=`), transitive, total -/
theorem compare_total_order :
    (∀ a b : JVal N, jcompare b a = (jcompare a b).swap) ∧
    (∀ a b : JVal N, jle a b = true → jle b a = true → equals a b = true) ∧
    (∀ a b c : JVal N, jle a b = true → jle b c = true → jle a c = true) ∧
    (∀ a b : JVal N, jle a b = true ∨ jle b a = true) := by
  refine ⟨compare_antisymm, ?_, ?_, compare_total⟩
  · intro a b h1 h2
    rw [← compare_eq_zero_iff_equals]
    unfold jle at h1 h2; rw [compare_antisymm a b] at h2
    cases h : jcompare a b <;> simp_all
  · intro a b c h1 h2
    unfold jle at *
    have := compare_trans a b c (by simpa using h1) (by simpa using h2)
    simpa using this

/-- equal values are interchangeable on either side of a comparison -/
theorem compare_congr (a b c : JVal N) (h : equals a b = true) : jcompare a c = jcompare b c ∧ jcompare c a = jcompare c b := by
  have hab := (compare_eq_zero_iff_equals a b).mpr h
  have hba : jcompare b a = .eq := by rw [compare_antisymm a b, hab]; rfl
  have t1 := compare_triple a b c
  have t2 := compare_triple b a c
  have key : jcompare a c = jcompare b c := by
    cases h1 : jcompare b c
    · exact t1.2.2.1 (by simp [hab]) h1
    · exact t1.2.2.2 hab h1
    · cases h2 : jcompare a c
      · have := t2.2.2.1 (by simp [hba]) h2; simp_all
      · have := t2.2.2.2 hba h2; simp_all
      · rfl
  refine ⟨key, ?_⟩
  rw [compare_antisymm a c, compare_antisymm b c, key]

/-! ### `<`, `<=`, `>`, `>=` are that same order -/

theorem lt_le_gt_ge_agree (a b : JVal N) :
    jlt a b = (jcompare a b == .lt) ∧ jgt a b = jlt b a ∧ jge a b = jle b a ∧ jle a b = (jlt a b || equals a b) ∧
    jlt a b = !jge a b := by
  have he := compare_eq_zero_iff_equals a b
  unfold jlt jgt jge jle
  rw [compare_antisymm a b]
  cases h : jcompare a b <;> cases h2 : equals a b <;> simp_all <;> decide

/-! ### tuples by content, reference types by identity, symbols by bytes -/

/-- two tuples are equal exactly when they have the same bracket kind and element-wise equal contents -/
theorem tuple_by_content (br1 br2 : Bool) (xs ys : List (JVal N)) :
    equals (.tuple br1 xs) (.tuple br2 ys) = (br1 == br2 && contentEqList xs ys) := by
  rw [equals_eq_contentEq_both.1]; simp [contentEq]

/-- structs are equal exactly when their slot arrays and prototypes are element-wise equal
    (that the slot array is a function of the contents alone is `struct_layout_canonical`) -/
theorem struct_by_slots (f1 p1 f2 p2 : List (JVal N)) :
    equals (.struct f1 p1) (.struct f2 p2) = (contentEqList f1 f2 && contentEqList p1 p2) := by
  rw [equals_eq_contentEq_both.1]; simp [contentEq]

/-- arrays, tables, buffers, functions, fibers, …: equal iff same kind and same address; ordered by address -/
theorem ref_by_identity (k1 k2 : RefKind) (b1 b2 : UInt64) :
    (equals (.ref k1 b1 : JVal N) (.ref k2 b2) = true ↔ k1 = k2 ∧ b1 = b2) ∧
    (jcompare (.ref k1 b1 : JVal N) (.ref k2 b2) = .eq ↔ k1 = k2 ∧ b1 = b2) := by
  have h : equals (.ref k1 b1 : JVal N) (.ref k2 b2) = true ↔ k1 = k2 ∧ b1 = b2 := by simp [equals]
  exact ⟨h, by rw [compare_eq_zero_iff_equals]; exact h⟩

/-- symbols (keywords) are equal iff they have the same bytes, and never equal to a string or keyword (symbol) with
    those bytes.  In C the comparison is by pointer; that interning makes pointer identity coincide with byte equality
    is the invariant checked directly on `janet_vm.cache` by the harness (symbol-cache scenario). -/
theorem symbol_identity_iff_bytes (a b : List UInt8) :
    (equals (.sym a : JVal N) (.sym b) = true ↔ a = b) ∧ (equals (.kw a : JVal N) (.kw b) = true ↔ a = b) ∧
    equals (.sym a : JVal N) (.kw b) = false ∧ equals (.sym a : JVal N) (.str b) = false ∧
    equals (.kw a : JVal N) (.str b) = false ∧
    (jcompare (.sym a : JVal N) (.sym b) = .eq ↔ a = b) ∧ (jcompare (.kw a : JVal N) (.kw b) = .eq ↔ a = b) := by
  refine ⟨by simp [equals], by simp [equals], by simp [equals], by simp [equals], by simp [equals], ?_, ?_⟩ <;>
    simp [jcompare, bytesCompare_eq_iff]

/-! ### symbol interning (src/core/symcache.c, model `Value/SymCache.lean`)

The model works on histories of `intern bytes` / `sweep bytes` from `janet_symcache_init`, with tombstones, the move of a
found symbol into the first tombstone on its probe path, `janet_cache_resize`.  What the C writes into a vacated slot
(`JANET_SYMCACHE_DELETED`, not `NULL`) is regenerated from the source: with `NULL` the probe-chain part of the invariant
(`Inv.chain`, lemma `vacatedByMove_ne`) no longer checks. -/

section symcache
open JanetModel.Value.SymCache

/-- after ANY history: no two cached symbols with the same bytes, one address names one symbol, a cached symbol is found by
    a lookup of its bytes (which returns its address), and the cache holds exactly the byte strings interned and not swept
    since (no symbol is lost, e.g. by a resize) -/
theorem symcache_unique (ops : List Op) (c : Cache) (h : run init ops = some c) :
    (∀ p q b, Live c.slots p b → Live c.slots q b → p = q) ∧
    (∀ p b b', Live c.slots p b → Live c.slots p b' → b = b') ∧
    (∀ p b, Live c.slots p b → ∃ c', intern c b = some (c', p)) ∧
    (∀ b, (∃ p, Live c.slots p b) ↔ b ∈ aliveAfter [] ops) := by
  have hs := run_spec ops init [] c init_invC
    (fun b => ⟨fun ⟨p, hp⟩ => absurd hp (not_live_replicate _ _ _), fun hb => by simp at hb⟩) h
  refine ⟨fun p q b ⟨i, hi⟩ ⟨j, hj⟩ => ?_, hs.1.ptrInj, fun p b hl => ?_, hs.2⟩
  · have := hs.1.inv.nodup i j p q b hi hj
    subst this; rw [hi] at hj; cases hj; rfl
  · obtain ⟨c', hc', _⟩ := intern_liveC hs.1 hl
    exact ⟨c', hc'⟩

/-- equal byte strings intern to the same address for as long as the symbol is not swept, whatever happens in between
    (other interns, sweeps of other symbols, tombstone reuse, resizes); different byte strings get different addresses -/
theorem symcache_same_symbol (ops1 ops2 : List Op) (c c1 c2 c3 : Cache) (b b' : List UInt8) (p1 p3 : Nat)
    (h0 : run init ops1 = some c) (h1 : intern c b = some (c1, p1)) (h2 : run c1 ops2 = some c2)
    (hns : ∀ o ∈ ops2, o ≠ Op.sweep b) (h3 : intern c2 b' = some (c3, p3)) :
    (b' = b → p3 = p1) ∧ (b' ≠ b → p3 ≠ p1) := by
  have hc := run_inv ops1 init c init_invC h0
  obtain ⟨hc1, hl1, _, _⟩ := intern_post hc h1
  have hc2 := run_inv ops2 c1 c2 hc1 h2
  have hl2 : Live c2.slots p1 b := live_stable ops2 c1 c2 p1 b hc1 hl1 h2 hns
  obtain ⟨hc3, hl3, hnew, hold⟩ := intern_post hc2 h3
  refine ⟨fun e => ?_, fun hne e => ?_⟩
  · subst e; exact (hold p1 hl2).symm
  · subst e
    by_cases hex : ∃ q, Live c2.slots q b'
    · obtain ⟨q, hq⟩ := hex
      have := hold q hq; subst this
      exact hne (hc2.ptrInj _ _ _ hq hl2)
    · have := hnew (fun q hq => hex ⟨q, hq⟩)
      have := hc2.fresh _ _ hl2
      omega

/-- non-vacuity: a history with a tombstone on the probe path of a later lookup runs without hitting the assertion -/
example : (run init [.intern [97], .intern [98], .intern [99], .sweep [98], .intern [99], .intern [98], .sweep [97]]).isSome = true := by
  decide +kernel

end symcache

/-! ### struct layout

PROVED in general (Value/Robin.lean, RobinUnique.lean, RobinPerm.lean): `struct_layout_canonical`,
`struct_layout_canonical_general`, `struct_put_existing_key` below — the slot array built by `janet_struct_put` /
`janet_struct_end` is a function of the set of accepted pairs alone, whatever the insertion order and collision pattern, any
capacity, including runs that wrap around, ignored nil pairs, over-announced counts (rebuild).  Only insertion sequences
that contain the SAME key twice are not covered by the general statement (see `struct_put_existing_key`).
Also established:
  * `struct_by_slots` above: equality of structs is element-wise equality of slot arrays (proved, all inputs);
  * `struct_put_capacity`: puts never change the capacity (proved, all inputs);
  * `struct_layout_canonical_partial`: a kernel-checked exhaustive TEST — for the six key sets of
    `layoutFamilies` (full-hash collisions, equal-hash doubles with −0, runs wrapping around the array end, adjacent
    runs with robin-hood displacement, nested keys) EVERY insertion order gives an `=` struct, and so does an insertion
    sequence with a duplicate key, a nil value, a nil key and an over-announced count (rebuild in `janet_struct_end`);
  * on the implementation: the harness checks on every run that values with the same content have identical slot
    arrays, and the model's `structOf` reproduces the implementation's slot array from several insertion orders. -/

/-- **PROVED, all inputs**: structs built by `janet_struct_begin(n)` / n × `janet_struct_put` / `janet_struct_end` from the
    same n pairs (non-nil keys and values, keys pairwise different) in ANY insertion order are the same value: identical
    slot arrays (hence `=`, same hash, compare 0), for every capacity and every collision pattern, runs wrapping around
    the end of the array included.  Proof: `putLoop` keeps the robin-hood invariant `RH` (the displaced pair travels on
    with its own hash and distance), fills the first empty slot after the home slot (`putLoop_spec`); the layout with a
    given set of entries and occupied slots is unique (`RH.unique`); two insertions commute (`ins_comm`). -/
theorem struct_layout_canonical (kvs₁ kvs₂ : List (Slot N)) (proto : List (JVal N)) (hperm : kvs₁.Perm kvs₂)
    (hvalid : ∀ kv ∈ kvs₁, kv.1.isNil = false ∧ kv.2.isNil = false) (hdist : DistinctKeys kvs₁) :
    structOf kvs₁ proto = structOf kvs₂ proto := structOf_perm proto hperm hvalid hdist

/-- **PROVED, all inputs** — general form: whatever count is announced to `janet_struct_begin` (at least the number of
    accepted pairs; a larger one makes `janet_struct_end` rebuild), whatever ignored pairs (nil key or nil value) are
    interspersed, and in whatever order the accepted pairs (keys pairwise different) are put: same struct. -/
theorem struct_layout_canonical_general (raw₁ raw₂ : List (Slot N)) (proto : List (JVal N)) (c₁ c₂ : Nat)
    (hperm : (raw₁.filter validPair).Perm (raw₂.filter validPair)) (hdist : DistinctKeys (raw₁.filter validPair))
    (hc₁ : (raw₁.filter validPair).length ≤ c₁) (hc₂ : (raw₂.filter validPair).length ≤ c₂) :
    structOfCount c₁ raw₁ proto = structOfCount c₂ raw₂ proto := structOfCount_canonical proto hperm hdist hc₁ hc₂

/-- **PROVED, all inputs** — duplicate keys: putting a key that is already in the struct never changes the layout; the
    probe reaches the slot of the equal key without displacing anything and (with `replace`) only its value is overwritten
    (struct.c `status == 0`).  What is NOT proved: lifting this to "the struct is a function of the final key→value map"
    for insertion sequences WITH duplicate keys (it needs that the layout does not depend on the values, i.e. that
    `(build l).set p (k, v')` is the build of `l` with that value changed); sequences with duplicates are covered by the
    kernel-checked tests below and by the correspondence. -/
theorem struct_put_existing_key (sl : List (Slot N)) (hrh : RH sl) (z : Nat) (hz : z < sl.length) (hez : ¬ Occ sl z)
    (key value : JVal N) (p : Nat) (hp : p < sl.length) (hop : Occ sl p) (heq : contentEq key (sg sl p).1 = true)
    (replace : Bool) :
    putLoop sl.length replace sl.length (hm sl.length key) 0 key value (hash key) sl =
      ((if replace then sl.set p ((sg sl p).1, value) else sl), false) := by
  have hcap : 0 < sl.length := by omega
  have hh := hm_lt hcap key
  have := putLoop_dup hrh hz hez hp hop heq (value := value) replace sl.length (hm sl.length key) hh
    (by rw [dst_self hh]; omega) (by rw [dst_self hh]; omega)
  rw [dst_self hh] at this
  exact this

/-- … and therefore equal, with equal hashes, comparing as 0 -/
theorem struct_by_content (kvs₁ kvs₂ : List (Slot N)) (proto : List (JVal N)) (hperm : kvs₁.Perm kvs₂)
    (hvalid : ∀ kv ∈ kvs₁, kv.1.isNil = false ∧ kv.2.isNil = false) (hdist : DistinctKeys kvs₁) :
    equals (structOf kvs₁ proto) (structOf kvs₂ proto) = true ∧ hash (structOf kvs₁ proto) = hash (structOf kvs₂ proto) ∧
    jcompare (structOf kvs₁ proto) (structOf kvs₂ proto) = .eq := by
  rw [struct_layout_canonical kvs₁ kvs₂ proto hperm hvalid hdist]
  exact ⟨equals_refl _, rfl, (compare_eq_zero_iff_equals _ _).mpr (equals_refl _)⟩

theorem struct_put_capacity (st : StructBuild N) (key value : JVal N) (replace : Bool) :
    (structPutExt st key value replace).slots.length = st.slots.length := structPutExt_capacity st key value replace

/-- with a duplicate of the first key (overwritten later), a nil value, a nil key; announced count = sequence length -/
def noisy (kvs : List (Slot F64)) : List (Slot F64) :=
  match kvs with
  | [] => []
  | (k, _) :: _ => (k, .kw [1]) :: kvs ++ [(.kw [2], .nil), (.nil, .bool true)]

theorem struct_layout_canonical_partial :
    (layoutFamilies.all fun kvs =>
      (permsOf kvs).all fun p =>
        equals (structOf p) (structOf kvs) && equals (structOf (noisy p)) (structOf kvs) &&
        equals (structOf p [structOf kvs]) (structOf kvs [structOf kvs.reverse])) = true := by
  decide +kernel

/-- same kind of kernel-checked test on a six-key probe cluster with eviction (all 720 insertion orders) -/
theorem struct_layout_canonical_partial_cluster :
    ((permsOf clusterFamily).all fun p => equals (structOf p) (structOf clusterFamily)) = true := by
  decide +kernel

/-! ### non-vacuity: the executable doubles are lawful, and the statements speak about non-trivial values -/

example : LawfulNum F64 := inferInstance

/-- −0 and +0 are equal, hash alike, also inside tuples and as struct keys -/
example : equals (.num ⟨0⟩ : JVal F64) (.num ⟨0x8000000000000000⟩) = true := by decide
example : Value.hash (JVal.tuple false [.num ⟨0⟩] : JVal F64) = Value.hash (JVal.tuple false [.num ⟨0x8000000000000000⟩] : JVal F64) :=
  equals_hash _ _ (by decide)
/-- bracketed and parenthesised tuples with the same elements differ -/
example : equals (.tuple true [.nil] : JVal F64) (.tuple false [.nil]) = false := by decide
example : jcompare (.tuple true [.nil] : JVal F64) (.tuple false [.nil]) = .gt := by decide

end JanetModel.Props.C03
