/-
C12 — PEG matching conforms to the PEG semantics.  Property theorems only (proofs of the per-opcode lemmas are in
JanetModel/Peg/Lemmas.lean).

Model:  Peg/Op.lean   `Op.run`  = peg_rule, opcode by opcode, threading the mutable PegState
        Peg/Den.lean  `Den.run` = denotation: a rule yields `none` or `some (next position, Delta)`; a failure yields nothing
        Peg/Spec.lean source grammars read through `Spec.fetch` into the same denotation (the documented meaning)
        Peg/Entry.lean peg/match, find, find-all, replace, replace-all as loops over one match attempt
-/
import JanetModel.Peg.Lemmas
import JanetModel.Peg.Bounds
import JanetModel.Peg.Entry
import JanetModel.Peg.ReplaceLemmas
import JanetModel.Peg.ValidateLemmas
import JanetModel.Peg.CompileCorrect
import JanetModel.Peg.BackrefLemmas
import JanetModel.Peg.CompileEntry
import JanetModel.Peg.CompileFlag
import JanetModel.Peg.Skel
import JanetModel.Peg.FuelMono
import JanetModel.Peg.FuelMonoDen
import JanetModel.Peg.FuelMonoEntry

namespace JanetModel.Props.C12
open JanetModel.Peg

/-- The decoder reads, for every fixed-size opcode, exactly as many words as the bytecode verifier in
    `peg_unmarshal` advances by (regenerated from the current peg.c). -/
theorem decode_sizes_agree : JanetModel.Gen.Peg.opSizes = decodeSizes := by decide

/-- **op_eq_den.**  For every program (any `fetch`: compiled bytecode through `decode`, or a source grammar through
    `Spec.fetch`), text, arguments, start position, state and fuel, the operational run equals the denotation:
    * the denotation raises `e`            ⇒ the run raises `e`;
    * the denotation matches with `Δ`      ⇒ the run ends in exactly `s` extended by `Δ` (captures, tagged captures and
                                             accumulation buffer), with mode, window end and depth as before;
    * the denotation fails                 ⇒ the run fails in a state that differs from `s` at most by extra entries ABOVE
                                             the old stack heights (mode, window, depth restored) — and `capLoad_restores`
                                             shows every combinator that continues after a failure truncates back to `s`.
    Hypothesis `E.lenprefixLeak = false` is the generated fact `Tie.lenprefix_mode_restored` about the current peg.c. -/
theorem op_eq_den {ρ : Type} (E : Env) (hE : E.lenprefixLeak = false) (fetch : ρ → Option (Instr ρ))
    (fuel : Nat) (r : ρ) (s : St) (pos : Nat) :
    match Den.run E fetch fuel r s pos with
    | .error e => Op.run E fetch fuel r s pos = .error e
    | .ok none => ∃ s', Op.run E fetch fuel r s pos = .ok (none, s') ∧ s.le s'
    | .ok (some (p, d)) => Op.run E fetch fuel r s pos = .ok (some p, s.extend d) :=
  run_agree E hE fetch fuel r s pos

/-- **depth_balanced.**  `down1` / `up1` are balanced on every path of every opcode: whenever `peg_rule` returns (match or
    no match) the recursion budget `s->depth` is what it was on entry; the only other way out is a raised error
    (`janet_panic`, state discarded).  So the budget bounds the NESTING depth, never the amount of work, and a failing
    branch cannot leak or release budget.  (The syntactic counterpart on the current peg.c is `Tie.depth_exits_balanced`.) -/
theorem depth_balanced {ρ : Type} (E : Env) (hE : E.lenprefixLeak = false) (fetch : ρ → Option (Instr ρ))
    (fuel : Nat) (r : ρ) (s : St) (pos : Nat) :
    (∃ e, Op.run E fetch fuel r s pos = .error e) ∨
    (∃ res s', Op.run E fetch fuel r s pos = .ok (res, s') ∧ s'.depth = s.depth) := by
  have h := op_eq_den E hE fetch fuel r s pos
  revert h
  cases Den.run E fetch fuel r s pos with
  | error e => intro h; exact Or.inl ⟨e, h⟩
  | ok v =>
    cases v with
    | none => intro h; obtain ⟨s', h1, hle⟩ := h; exact Or.inr ⟨none, s', h1, hle.depth⟩
    | some pd => obtain ⟨p, d⟩ := pd; intro h; exact Or.inr ⟨some p, _, h, rfl⟩

/-- the budget is really consumed by nesting: a sub-rule called below `down1` runs with one unit less, and with one unit
    left the call raises "recursed too deeply" instead of recursing -/
theorem depth_exhaustion (s : St) (h : s.depth ≤ 1) : down1 s = .error .depth := by
  simp [down1, h]

/-- what `cap_load` does after a failed sub-rule: the state is exactly the one saved before it -/
theorem capLoad_restores {s s' : St} (h : s.le s') : capLoad s' (capSave s) = s := capLoad_of_le h

/-- a single match attempt (`peg_call_reset` + `peg_rule` from the start rule) gives the same captures and end position in both -/
theorem opMatcher_eq_denMatcher {ρ : Type} (E : Env) (hE : E.lenprefixLeak = false) (fetch : ρ → Option (Instr ρ)) (main : ρ)
    (fuel guard : Nat) : opMatcher E fetch main fuel guard = denMatcher E fetch main fuel guard := by
  funext start
  have h := op_eq_den E hE fetch fuel main (initSt E guard) start
  simp only [opMatcher, denMatcher]
  revert h
  cases Den.run E fetch fuel main (initSt E guard) start with
  | error e => intro h; simp [h]
  | ok v =>
    cases v with
    | none => intro h; obtain ⟨s', h1, _⟩ := h; simp [h1]
    | some pd =>
      obtain ⟨p, d⟩ := pd
      intro h
      simp only at h
      rw [h]
      simp [St.extend, initSt]

/-- all five entry points computed operationally equal the ones computed from the denotation -/
theorem entry_points_op_eq_den {ρ : Type} (E : Env) (hE : E.lenprefixLeak = false) (fetch : ρ → Option (Instr ρ)) (main : ρ)
    (fuel guard : Nat) (start : Nat) (subst : Val) (one : Bool) :
    pegMatch (opMatcher E fetch main fuel guard) start = pegMatch (denMatcher E fetch main fuel guard) start ∧
    pegFind (opMatcher E fetch main fuel guard) E.text.length start = pegFind (denMatcher E fetch main fuel guard) E.text.length start ∧
    pegFindAll (opMatcher E fetch main fuel guard) E.text.length start = pegFindAll (denMatcher E fetch main fuel guard) E.text.length start ∧
    pegReplace (opMatcher E fetch main fuel guard) E.text subst one start = pegReplace (denMatcher E fetch main fuel guard) E.text subst one start := by
  rw [opMatcher_eq_denMatcher E hE]
  exact ⟨rfl, rfl, rfl, rfl⟩

/-! ### never reads outside the text

Every text access of the model (`memcmp` of a literal / back-match, the byte tested by range / set, the bytes of an integer
reader, the bytes copied by capture / number) goes through `Env.byte` / `Env.slice`, which return `Err.oob` unless the
indices lie inside the CURRENT window `[0, text_end)` (narrowed by sub / til / split) and inside the text. -/

/-- A rule entered at `pos ≤ text_end ≤ |text|` never performs an out-of-window read, and when it matches it ends in
    `[pos, text_end]` (so that every rule it calls is entered inside the window again). -/
theorem den_never_reads_outside {ρ : Type} (E : Env) (fetch : ρ → Option (Instr ρ)) (fuel : Nat) (r : ρ) (s : St) (pos : Nat)
    (hte : s.textEnd ≤ E.text.length) (hpos : pos ≤ s.textEnd) :
    Den.run E fetch fuel r s pos ≠ .error .oob ∧
    ∀ p d, Den.run E fetch fuel r s pos = .ok (some (p, d)) → pos ≤ p ∧ p ≤ s.textEnd := by
  have h := run_good E fetch fuel r s pos hte hpos
  constructor
  · intro he; rw [he] at h; exact h rfl
  · intro p d he; rw [he] at h; exact h

/-- **never_reads_outside** for the operational model of `peg_rule` (all opcodes, sub-windows included). -/
theorem never_reads_outside {ρ : Type} (E : Env) (hE : E.lenprefixLeak = false) (fetch : ρ → Option (Instr ρ)) (fuel : Nat)
    (r : ρ) (s : St) (pos : Nat) (hte : s.textEnd ≤ E.text.length) (hpos : pos ≤ s.textEnd) :
    Op.run E fetch fuel r s pos ≠ .error .oob ∧
    ∀ p s', Op.run E fetch fuel r s pos = .ok (some p, s') → pos ≤ p ∧ p ≤ s.textEnd := by
  have hd := den_never_reads_outside E fetch fuel r s pos hte hpos
  have ho := op_eq_den E hE fetch fuel r s pos
  revert ho hd
  cases Den.run E fetch fuel r s pos with
  | error e =>
    intro hd ho
    simp only at ho
    refine ⟨?_, ?_⟩
    · rw [ho]; intro h; injection h with h; exact hd.1 (by rw [h])
    · intro p s' h; rw [ho] at h; cases h
  | ok v =>
    cases v with
    | none =>
      intro hd ho
      obtain ⟨s1, h1, _⟩ := ho
      refine ⟨(by rw [h1]; intro h; cases h), ?_⟩
      intro p s' h; rw [h1] at h; cases h
    | some pd =>
      obtain ⟨p0, d⟩ := pd
      intro hd ho
      simp only at ho
      refine ⟨(by rw [ho]; intro h; cases h), ?_⟩
      intro p s' h
      rw [ho] at h
      injection h with h
      injection h with h1 h2
      injection h1 with h1
      rw [← h1]
      exact hd.2 p0 d rfl

/-- for the entry points: a match attempt from any start offset inside the text never reads outside it -/
theorem match_attempt_never_reads_outside {ρ : Type} (E : Env) (hE : E.lenprefixLeak = false) (fetch : ρ → Option (Instr ρ))
    (main : ρ) (fuel guard start : Nat) (hstart : start ≤ E.text.length) :
    opMatcher E fetch main fuel guard start ≠ .error .oob := by
  have h := (never_reads_outside E hE fetch fuel main (initSt E guard) start (Nat.le_refl _) hstart).1
  simp only [opMatcher]
  revert h
  cases Op.run E fetch fuel main (initSt E guard) start with
  | error e => intro h; simpa using h
  | ok v =>
    obtain ⟨res, s'⟩ := v
    cases res <;> intro _ h <;> cases h

/-! ### find / find-all agree with repeated matching -/

/-- `peg/find-all` returns exactly the positions `i ∈ [start, len)` at which a single match attempt succeeds, in order
    (for a matcher `m` that raises no error on that range, described by the pure function `f`). -/
theorem find_all_agrees_with_repeated_match (m : Matcher) (f : Nat → Option (Nat × List Val)) (len start : Nat)
    (hm : ∀ i, start ≤ i → i < len → m i = .ok (f i)) :
    pegFindAll m len start = .ok ((List.range' start (len - start)).filter (fun i => (f i).isSome)) := by
  unfold pegFindAll
  generalize hn : len - start = n
  induction n generalizing start with
  | zero => simp [findAllLoop]
  | succ n ih =>
    have h0 : m start = .ok (f start) := hm start (Nat.le_refl _) (by omega)
    have ih' := ih (start + 1) (fun i h1 h2 => hm i (by omega) h2) (by omega)
    simp only [findAllLoop, h0, bind, Except.bind, List.range'_succ, List.filter_cons]
    cases hf : f start with
    | none => simp [ih']
    | some v => simp [ih']

/-- `peg/find` returns the first such position, or nil -/
theorem find_agrees_with_repeated_match (m : Matcher) (f : Nat → Option (Nat × List Val)) (len start : Nat)
    (hm : ∀ i, start ≤ i → i < len → m i = .ok (f i)) :
    pegFind m len start = .ok ((List.range' start (len - start)).find? (fun i => (f i).isSome)) := by
  unfold pegFind
  generalize hn : len - start = n
  induction n generalizing start with
  | zero => simp [findLoop]
  | succ n ih =>
    have h0 : m start = .ok (f start) := hm start (Nat.le_refl _) (by omega)
    have ih' := ih (start + 1) (fun i h1 h2 => hm i (by omega) h2) (by omega)
    simp only [findLoop, h0, bind, Except.bind, List.range'_succ, List.find?_cons]
    cases hf : f start with
    | none => simp [ih']
    | some v => simp

/-- an error raised by a match attempt (e.g. `(error ...)`, recursion depth) at the first position where one is raised,
    before any hit, is the result of `peg/find` -/
theorem find_first_error (m : Matcher) (len start : Nat) (e : Err) (i : Nat) (hi : start ≤ i) (hlen : i < len)
    (hbefore : ∀ j, start ≤ j → j < i → m j = .ok none) (herr : m i = .error e) :
    pegFind m len start = .error e := by
  unfold pegFind
  generalize hn : i - start = k
  induction k generalizing start with
  | zero =>
    have : i = start := by omega
    subst this
    obtain ⟨n, hn⟩ : ∃ n, len - i = n + 1 := ⟨len - i - 1, by omega⟩
    simp [hn, findLoop, herr, bind, Except.bind]
  | succ k ih =>
    obtain ⟨n, hn'⟩ : ∃ n, len - start = n + 1 := ⟨len - start - 1, by omega⟩
    have h0 := hbefore start (Nat.le_refl _) (by omega)
    have := ih (start + 1) (by omega) (fun j h1 h2 => hbefore j (by omega) h2) (by omega)
    have hl : len - (start + 1) = n := by omega
    rw [hl] at this
    simp [hn', findLoop, h0, bind, Except.bind, this]

/-! ### compiled grammar = source grammar (translation validation of peg/compile's output)

`validate (decode P) (Spec.fetch dflt) k a c` (Peg/Validate.lean) is executable: the driver runs it on the bytecode and
constants dumped from the REAL `peg/compile` for every generated grammar.  It is sound: -/

/-- **compile_validated_correct**: if the compiled program `P` validates against the source form `c` (same opcodes, same
    immediate operands, sub-rules pairwise validated - sharing through the compiler's rule cache included), then for every
    text, arguments, fuel, state and position the OPERATIONAL run of the bytecode agrees with the DOCUMENTED meaning of the
    source form (errors equal; match ⇒ state extended by exactly the source's captures; no match ⇒ nothing kept). -/
theorem compile_validated_correct (E : Env) (hE : E.lenprefixLeak = false) (P : Program) (dflt : Spec.Scope) (k : Nat)
    (a : Nat) (c : Spec.Closure) (hv : validate (decode P) (Spec.fetch dflt) k a c = true)
    (fuel : Nat) (s : St) (pos : Nat) :
    match Den.run E (Spec.fetch dflt) fuel c s pos with
    | .error e => Op.run E (decode P) fuel a s pos = .error e
    | .ok none => ∃ s', Op.run E (decode P) fuel a s pos = .ok (none, s') ∧ s.le s'
    | .ok (some (p, d)) => Op.run E (decode P) fuel a s pos = .ok (some p, s.extend d) := by
  have h := op_eq_den E hE (decode P) fuel a s pos
  rw [validate_sound E (decode P) (Spec.fetch dflt) k a c hv fuel] at h
  exact h

/-- and so all five entry points on the compiled program are those of the source grammar -/
theorem compiled_entry_points_eq_source (E : Env) (hE : E.lenprefixLeak = false) (P : Program) (dflt : Spec.Scope) (k : Nat)
    (c : Spec.Closure) (hv : validate (decode P) (Spec.fetch dflt) k 0 c = true) (fuel guard : Nat) :
    opMatcher E (decode P) 0 fuel guard = denMatcher E (Spec.fetch dflt) c fuel guard := by
  rw [opMatcher_eq_denMatcher E hE]
  funext start
  simp only [denMatcher, validate_sound E (decode P) (Spec.fetch dflt) k 0 c hv fuel]

/-- non-vacuity: a hand-assembled program for `(* "a" (<- (any "b")))` validates against that source form -/
example : validate (decode { bytecode := #[7, 2, 5, 8, 0, 0, 1, 97, 13, 11, 0, 11, 0, 4294967295, 15, 0, 1, 98], constants := #[] })
    (Spec.fetch []) 8 0 ⟨[], .seq [.str [97], .capture (.any (.str [98])) 0]⟩ = true := by decide

/-! ### the compiler itself: `peg_compile1` (Peg/Compile.lean) is correct for EVERY source grammar it accepts

`Compile.compile dflt p` is the executable model of `compile_peg` / `peg_compile1` / `peg_specials[]`: rule cache, keyword
references, nested and RECURSIVE grammar tables with lexically scoped rule names, default grammar, constants table,
reserve-then-patch emission (the check compares its bytecode, constants and `has_backref` word for word with the real
`peg/compile` on every generated grammar).  The proof (Peg/CompileCorrect.lean) is an induction over the compiler run with the
invariant "every cache entry and every returned rule address is either a finished header that decodes to the instruction
`Spec.fetch` reads at the source form, with sub-rules paired again, or belongs to a rule still being compiled"; the pairs
(address, source closure) form a simulation, which may be cyclic, and `bisim_run_eq` turns it into equality of denotations by
induction on the fuel. -/

/-- **compile_correct**: for every default grammar, every source grammar `p` the compile model accepts, every text, arguments,
    fuel, state and position, the OPERATIONAL run of the emitted bytecode from the returned entry rule agrees with the
    DOCUMENTED meaning of the source grammar (errors equal; match ⇒ state extended by exactly the source's captures;
    no match ⇒ nothing kept). -/
theorem compile_correct (E : Env) (hE : E.lenprefixLeak = false) (dflt : Spec.Scope) (p : Spec.Patt) (o : Compile.Output)
    (hc : Compile.compile dflt p = some o) (fuel : Nat) (s : St) (pos : Nat) :
    match Den.run E (Spec.fetch dflt) fuel ⟨[], p⟩ s pos with
    | .error e => Op.run E (decode o.program) fuel o.entry s pos = .error e
    | .ok none => ∃ s', Op.run E (decode o.program) fuel o.entry s pos = .ok (none, s') ∧ s.le s'
    | .ok (some (p', d)) => Op.run E (decode o.program) fuel o.entry s pos = .ok (some p', s.extend d) := by
  have h := op_eq_den E hE (decode o.program) fuel o.entry s pos
  rw [compile_den_eq E dflt p o hc fuel] at h
  exact h

/-- and so all five entry points on the compile model's output are those of the source grammar -/
theorem compile_entry_points_eq_source (E : Env) (hE : E.lenprefixLeak = false) (dflt : Spec.Scope) (p : Spec.Patt)
    (o : Compile.Output) (hc : Compile.compile dflt p = some o) (fuel guard : Nat) :
    opMatcher E (decode o.program) o.entry fuel guard = denMatcher E (Spec.fetch dflt) ⟨[], p⟩ fuel guard := by
  rw [opMatcher_eq_denMatcher E hE]
  funext start
  simp only [denMatcher, compile_den_eq E dflt p o hc fuel]

/-- the simulation behind it: every (rule address, source closure) pair logged by the compiler fetches the same instruction
    on both sides, with the sub-rules paired again -/
theorem compile_simulation (dflt : Spec.Scope) (p : Spec.Patt) (o : Compile.Output) (hc : Compile.compile dflt p = some o) :
    (o.entry, (⟨[], p⟩ : Spec.Closure)) ∈ o.log ∧
    ∀ a c, (a, c) ∈ o.log → ∃ (i : Instr Spec.Patt) (as : List Nat) (bs : List Spec.Closure),
      decode o.program a = some (i.rebuild as) ∧ Spec.fetch dflt c = some (i.rebuild bs) ∧
      as.length = i.kids.length ∧ bs.length = i.kids.length ∧ ∀ pr ∈ as.zip bs, (pr.1, pr.2) ∈ o.log :=
  compile_sim dflt p o hc

/-- **compile_entry_zero.**  `compile_peg` ignores the rule address returned by the outermost `peg_compile1`; `peg_rule` is
    started at `s->bytecode` (address 0).  The compile model's outermost call always returns 0 - through keyword references,
    default-grammar entries and nested grammar tables alike - so the theorems above are about the rule peg.c really starts at. -/
theorem compile_entry_zero (dflt : Spec.Scope) (p : Spec.Patt) (o : Compile.Output) (hc : Compile.compile dflt p = some o) :
    o.entry = 0 :=
  Compile.compile_entry_zero dflt p o hc

/-- all five entry points, started at bytecode address 0 as peg.c does, are those of the source grammar -/
theorem compile_entry_points_from_zero (E : Env) (hE : E.lenprefixLeak = false) (dflt : Spec.Scope) (p : Spec.Patt)
    (o : Compile.Output) (hc : Compile.compile dflt p = some o) (fuel guard : Nat) :
    opMatcher E (decode o.program) 0 fuel guard = denMatcher E (Spec.fetch dflt) ⟨[], p⟩ fuel guard := by
  have h := compile_entry_points_eq_source E hE dflt p o hc fuel guard
  rwa [compile_entry_zero dflt p o hc] at h

/-- non-vacuity: the RECURSIVE grammar `{:main (+ (* "a" :main) "b")}` is accepted; the reference compiles to the address of
    the rule being compiled (0), the sequence is at 4, the literal "a" at 8 -/
example : (Compile.compile [] (.grammar [("main", .choice [.seq [.str [97], .ref "main"], .str [98]])])).map
    (fun o => (o.entry, o.code)) = some (0, [6, 2, 4, 11, 7, 2, 8, 0, 0, 1, 97, 0, 1, 98]) := by decide +kernel

/-! ### replace / replace-all agree with repeated matching (closed form `replSpec`, Peg/Entry.lean) -/

/-- `peg/replace-all` (`one = false`) and `peg/replace` (`one = true`): the output is the bytes before `start`, then, walking
    the positions, unmatched bytes copied and `g (matched text) captures` at every position where a single match attempt
    succeeds, continuing at the end of the match, or one byte further (copying that byte) after an empty match; `replace`
    stops after the first hit and copies the rest.  `f` describes the single attempts on `[start, len)` (no error raised
    there), `hmono` is what `never_reads_outside` gives for the PEG matcher (a match never ends before it starts). -/
theorem replace_agrees_with_repeated_match_gen (m : Matcher) (f : Nat → Option (Nat × List Val))
    (g : List Nat → List Val → List Nat) (text : List Nat) (subst : Val) (one : Bool) (start : Nat)
    (hm : ∀ i, start ≤ i → i < text.length → m i = .ok (f i))
    (hmono : ∀ i e caps, f i = some (e, caps) → i ≤ e)
    (hsub : ∀ mt caps, substitute subst mt caps = .ok (g mt caps)) :
    pegReplace m text subst one start = .ok (replSpec f g text one start) := by
  obtain ⟨o, t', h1, h2⟩ := replaceLoop_spec m f g text subst one hmono hsub (text.length + 1 - start) start 0 []
    (Nat.zero_le _) (Nat.le_refl _) hm
  simp only [pegReplace, h1, bind, Except.bind, replSpec]
  have h3 : o ++ text.drop t' = text.take start ++ replSpecGo f g text one (text.length + 1 - start) start := by
    rw [h2]; simp [sl]
  by_cases ht : t' < text.length
  · rw [if_pos ht, h3]
  · rw [if_neg ht]
    have : text.drop t' = [] := List.drop_eq_nil_of_le (by omega)
    rw [this, List.append_nil] at h3
    rw [h3]

theorem replace_all_agrees_with_repeated_match (m : Matcher) (f : Nat → Option (Nat × List Val))
    (g : List Nat → List Val → List Nat) (text : List Nat) (subst : Val) (start : Nat)
    (hm : ∀ i, start ≤ i → i < text.length → m i = .ok (f i))
    (hmono : ∀ i e caps, f i = some (e, caps) → i ≤ e)
    (hsub : ∀ mt caps, substitute subst mt caps = .ok (g mt caps)) :
    pegReplace m text subst false start = .ok (replSpec f g text false start) :=
  replace_agrees_with_repeated_match_gen m f g text subst false start hm hmono hsub

theorem replace_agrees_with_repeated_match (m : Matcher) (f : Nat → Option (Nat × List Val))
    (g : List Nat → List Val → List Nat) (text : List Nat) (subst : Val) (start : Nat)
    (hm : ∀ i, start ≤ i → i < text.length → m i = .ok (f i))
    (hmono : ∀ i e caps, f i = some (e, caps) → i ≤ e)
    (hsub : ∀ mt caps, substitute subst mt caps = .ok (g mt caps)) :
    pegReplace m text subst true start = .ok (replSpec f g text true start) :=
  replace_agrees_with_repeated_match_gen m f g text subst true start hm hmono hsub

/-- the side condition `hmono` holds for the PEG matcher itself: a successful attempt at `i ≤ |text|` ends in `[i, |text|]` -/
theorem match_attempt_end_in_range {ρ : Type} (E : Env) (fetch : ρ → Option (Instr ρ)) (main : ρ) (fuel guard i e : Nat)
    (caps : List Val) (hi : i ≤ E.text.length) (h : denMatcher E fetch main fuel guard i = .ok (some (e, caps))) :
    i ≤ e ∧ e ≤ E.text.length := by
  have hb := (den_never_reads_outside E fetch fuel main (initSt E guard) i (Nat.le_refl _) hi).2
  simp only [denMatcher] at h
  revert h hb
  cases Den.run E fetch fuel main (initSt E guard) i with
  | error e' => intro h; simp at h
  | ok v =>
    cases v with
    | none => intro h; simp at h
    | some pd =>
      obtain ⟨p, d⟩ := pd
      intro h hb
      simp only [Except.ok.injEq, Option.some.injEq, Prod.mk.injEq] at h
      have := hb p d rfl
      rw [← h.1]; exact this

/-- examples: "" replaced by "X" in "ab" gives "XaXb" (empty matches: byte copied, advance by one, nothing tried at the end);
    every (any "b") in "abbc" bracketed -/
example : replSpec (fun i => some (i, [])) (fun _ _ => [88]) [97, 98] false 0 = [88, 97, 88, 98] := by decide
example : replSpec (fun i => if i == 1 then some (3, []) else some (i, [])) (fun mt _ => [91] ++ mt ++ [93]) [97, 98, 98, 99] false 0
    = [91, 93, 97, 91, 98, 98, 93, 91, 93, 99] := by decide

/-! ### non-vacuity and the witness for the defect on the pinned tree -/

section Witness
open JanetModel.Peg.Spec

/-- `(accumulate (* (at-most 2 (lenprefix 1 1)) (position)))` on the empty text -/
def leakGrammar : Patt := .accumulate (.seq [.atmost 2 (.lenprefix (.int 1) (.int 1)), .position 0]) 0

def accumulated (r : MRes) : List Nat :=
  match r with
  | .ok (some (_, [Val.str b])) => b
  | _ => [0]

/-- the documented meaning: the position `0` is accumulated: "0" -/
example : accumulated (denMatcher { text := [], args := [], hasBackref := false } (Spec.fetch []) ⟨[], leakGrammar⟩ 20 1024 0) = [48] := by
  decide

/-- correct `lenprefix` (mode restored): the operational model gives the same (an instance of `op_eq_den`, hypotheses satisfiable) -/
example : accumulated (opMatcher { text := [], args := [], hasBackref := false } (Spec.fetch []) ⟨[], leakGrammar⟩ 20 1024 0) = [48] := by
  decide

/-- **witness**: with the `lenprefix` of the pinned tree (returns before `s->mode = oldmode`) the position capture is lost:
    `op_eq_den` is false for `lenprefixLeak = true`; the same input is replayed on the implementation by checks/C12.py
    (corpus/C12/targeted.json). -/
theorem lenprefix_leak_breaks_op_eq_den :
    accumulated (opMatcher { text := [], args := [], hasBackref := false, lenprefixLeak := true } (Spec.fetch []) ⟨[], leakGrammar⟩ 20 1024 0) = []
    ∧ accumulated (denMatcher { text := [], args := [], hasBackref := false, lenprefixLeak := true } (Spec.fetch []) ⟨[], leakGrammar⟩ 20 1024 0) = [48] := by
  decide

end Witness

/-- the sub-rule runner of the model never leaves the text window changed (hypothesis `KeepsWindow` of the structural-tie
    theorems for scanning loops, Peg/TieSkel.lean `rule_to_thru`) -/
theorem op_run_keeps_window {ρ : Type} (E : Env) (hE : E.lenprefixLeak = false) (fetch : ρ → Option (Instr ρ)) (fuel : Nat) :
    Skel.KeepsWindow (Op.run E fetch fuel) := by
  intro r s p res s' h
  have hd := op_eq_den E hE fetch fuel r s p
  revert hd
  cases Den.run E fetch fuel r s p with
  | error e => intro hd; rw [hd] at h; cases h
  | ok v =>
    cases v with
    | none => intro hd; obtain ⟨s1, h1, hle⟩ := hd; rw [h1] at h; cases h; exact hle.textEnd
    | some pd => obtain ⟨p', d⟩ := pd; intro hd; simp only at hd; rw [hd] at h; cases h; rfl

/-- ... nor the depth budget (hypothesis `KeepsDepth` of `rule_replace` / `rule_matchtime`, where peg.c reads `s->depth` after
    the sub-rule returned) -/
theorem op_run_keeps_depth {ρ : Type} (E : Env) (hE : E.lenprefixLeak = false) (fetch : ρ → Option (Instr ρ)) (fuel : Nat) :
    Skel.KeepsDepth (Op.run E fetch fuel) := by
  intro r s p res s' h
  rcases depth_balanced E hE fetch fuel r s p with ⟨e, he⟩ | ⟨res', s'', h', hd⟩
  · rw [he] at h; cases h
  · rw [h'] at h; cases h; exact hd

/-! ### `has_backref` -/

/-- **backref_flag_unobservable.**  peg.c records tagged captures only when the compiled grammar contains a back-reference
    (`has_backref`); the documented meaning (Spec) always records them.  For ANY program (`fetch`: bytecode or source), any set
    `R` of its rules that is closed under sub-rule operands and contains no RULE_GETTAG / RULE_BACKMATCH, any start rule in `R`:
    a match attempt gives the same outcome - same error, same failure, same end position, same captures - whatever the flag is.
    Hypothesis `numRaw = false` is the generated fact `Tie.number_capture_not_raw` about the current peg.c (on the pinned tree
    `(number ...)` inside `%` made the flag observable - defect 2 of notes/C12.md). -/
theorem backref_flag_unobservable {ρ : Type} (E : Env) (hraw : E.numRaw = false) (b b' : Bool) (fetch : ρ → Option (Instr ρ))
    (R : ρ → Prop) (hR : Backref.Closed fetch R) (main : ρ) (hmain : R main) (fuel guard : Nat) :
    denMatcher { E with hasBackref := b } fetch main fuel guard = denMatcher { E with hasBackref := b' } fetch main fuel guard :=
  Backref.denMatcher_eq (E := { E with hasBackref := b' }) (E' := { E with hasBackref := b }) ⟨rfl, rfl, rfl, hraw, hraw⟩
    fetch hR hmain fuel guard

/-- the same for the operational model of `peg_rule` and all five entry points -/
theorem backref_flag_unobservable_op {ρ : Type} (E : Env) (hraw : E.numRaw = false) (hE : E.lenprefixLeak = false) (b b' : Bool)
    (fetch : ρ → Option (Instr ρ)) (R : ρ → Prop) (hR : Backref.Closed fetch R) (main : ρ) (hmain : R main) (fuel guard : Nat)
    (start : Nat) (subst : Val) (one : Bool) :
    let m := opMatcher { E with hasBackref := b } fetch main fuel guard
    let m' := opMatcher { E with hasBackref := b' } fetch main fuel guard
    m = m' ∧ pegMatch m start = pegMatch m' start ∧ pegFind m E.text.length start = pegFind m' E.text.length start ∧
      pegFindAll m E.text.length start = pegFindAll m' E.text.length start ∧
      pegReplace m E.text subst one start = pegReplace m' E.text subst one start := by
  have h : opMatcher { E with hasBackref := b } fetch main fuel guard = opMatcher { E with hasBackref := b' } fetch main fuel guard := by
    rw [opMatcher_eq_denMatcher _ (by exact hE), opMatcher_eq_denMatcher _ (by exact hE)]
    exact backref_flag_unobservable E hraw b b' fetch R hR main hmain fuel guard
  simp only [h, and_self]

/-- **compiled_backref_flag_certified.**  Certificate for compiled bytecode: if every address of a list `S` decodes to an
    instruction that does not read tags and whose rule operands are in `S` again (`closedNoTag`, a decidable check that the driver
    runs on the REAL peg/compile dump whenever it says `has_backref = 0`), then running the program from any address in `S`
    without tag recording (what peg.c does) gives what running it with tag recording (what Spec prescribes) gives. -/
theorem compiled_backref_flag_certified (P : Program) (S : List Nat) (hS : Backref.closedNoTag (decode P) S = true)
    (entry : Nat) (hentry : entry ∈ S) (E : Env) (hraw : E.numRaw = false) (hE : E.lenprefixLeak = false) (fuel guard : Nat) :
    opMatcher { E with hasBackref := false } (decode P) entry fuel guard = opMatcher { E with hasBackref := true } (decode P) entry fuel guard :=
  (backref_flag_unobservable_op E hraw hE false true (decode P) (· ∈ S) (Backref.closedNoTag_sound _ _ hS) entry hentry fuel guard
    0 .nil false).1

/-- **compile_flag_sound.**  When the compile model leaves `has_backref` clear, the rule addresses it logged are closed under
    sub-rule operands and none of them holds RULE_GETTAG / RULE_BACKMATCH (the flag clause is part of the compiler invariant:
    `Fin` / `Frame` in Peg/CompileCorrect.lean). -/
theorem compile_flag_sound (dflt : Spec.Scope) (p : Spec.Patt) (o : Compile.Output) (hc : Compile.compile dflt p = some o)
    (hf : o.hasBackref = false) : Backref.Closed (decode o.program) (fun a => ∃ c, (a, c) ∈ o.log) :=
  compile_closed dflt p o hc hf

/-- **compile_correct_real_flag.**  What peg.c executes for a compiled grammar - the emitted bytecode, started at address 0,
    recording tagged captures only if the compiler set `has_backref` - gives, for every text, arguments, fuel and depth budget,
    exactly what the documented meaning of the SOURCE grammar gives (`Spec.fetch`, tags always recorded): same error, same
    failure, same end position, same captures; hence also the same find / find-all / replace / replace-all.
    Hypotheses: the two generated facts about the current peg.c (`Tie.lenprefix_mode_restored`, `Tie.number_capture_not_raw`). -/
theorem compile_correct_real_flag (E : Env) (hE : E.lenprefixLeak = false) (hraw : E.numRaw = false) (dflt : Spec.Scope)
    (p : Spec.Patt) (o : Compile.Output) (hc : Compile.compile dflt p = some o) (fuel guard : Nat) :
    opMatcher { E with hasBackref := o.hasBackref } (decode o.program) 0 fuel guard =
      denMatcher { E with hasBackref := true } (Spec.fetch dflt) ⟨[], p⟩ fuel guard := by
  have hsrc := compile_entry_points_from_zero { E with hasBackref := true } hE dflt p o hc fuel guard
  cases hf : o.hasBackref with
  | true => exact hsrc
  | false =>
    have h0 : (0, (⟨[], p⟩ : Spec.Closure)) ∈ o.log := by
      have := (compile_simulation dflt p o hc).1
      rwa [compile_entry_zero dflt p o hc] at this
    have := (backref_flag_unobservable_op E hraw hE false true (decode o.program) (fun a => ∃ c, (a, c) ∈ o.log)
      (compile_flag_sound dflt p o hc hf) 0 ⟨_, h0⟩ fuel guard 0 .nil false).1
    rw [this]; exact hsrc

/-- non-vacuity: both values of the flag occur: `(% (<- "a" :t))` compiles with the flag clear although it TAGS a capture (nothing
    reads it), `(* (<- 1 :t) (backmatch :t))` sets it -/
example : (Compile.compile [] (.accumulate (.capture (.str [97]) 1) 0)).map (·.hasBackref) = some false := by decide +kernel
example : (Compile.compile [] (.seq [.capture (.int 1) 1, .backmatch 1])).map (·.hasBackref) = some true := by decide +kernel

/-- non-vacuity: `(% (<- "a"))` = [ACCUMULATE 3 0; CAPTURE 6 0; LITERAL 1 'a'] has the certificate {0, 3, 6} (found by `reach`);
    `(backmatch)` has none -/
example : Backref.closedNoTag (decode ⟨#[17, 3, 0, 13, 6, 0, 0, 1, 97], #[]⟩) [0, 3, 6] = true := by decide
example : Backref.reach (decode ⟨#[17, 3, 0, 13, 6, 0, 0, 1, 97], #[]⟩) 100 [0] [] = [6, 3, 0] := by decide
example : Backref.closedNoTag (decode ⟨#[23, 0], #[]⟩) [0] = false := by decide
/-- and the flag IS observable when a tag is read: `(* (<- 1 :t) (backmatch :t))` on "aa" matches (end position 2) only with
    tag recording -/
def matchedEnd (r : MRes) : Option Nat :=
  match r with
  | .ok (some (p, _)) => some p
  | _ => none

example :
    matchedEnd (opMatcher { text := [97, 97], args := [], hasBackref := true } (decode ⟨#[7, 2, 4, 9, 13, 7, 1, 1, 1, 23, 1], #[]⟩) 0 50 1024 0) = some 2
    ∧ matchedEnd (opMatcher { text := [97, 97], args := [], hasBackref := false } (decode ⟨#[7, 2, 4, 9, 13, 7, 1, 1, 1, 23, 1], #[]⟩) 0 50 1024 0) = none := by
  decide

/-! ### fuel is a model artefact -/

/-- **op_run_fuel_mono.**  The C `peg_rule` has no fuel; the model's `Op.run` has.  For EVERY program (`fetch`: bytecode or
    source), environment, rule, state, position and fuels `f ≤ g`: an answer of `Op.run` at fuel `f` other than `Err.fuel` is the
    answer at fuel `g` - "the model's fuel sufficed" is a property of the answer alone, and the correspondence harness (which
    runs the model at one generous fuel) observes THE answer of the model, not an artefact of the fuel it chose.
    Proof: `Except.bind` and all eight loops of `Op` are monotone for the flat order with `Err.fuel` as bottom (`Op.FLe`), hence
    all 37 cases of `Op.step` (`Op.step_mono`), hence `Op.run` by induction on the fuel (Peg/FuelMono.lean). -/
theorem op_run_fuel_mono {ρ : Type} (E : Env) (fetch : ρ → Option (Instr ρ)) (f g : Nat) (hfg : f ≤ g) (r : ρ) (s : St)
    (pos : Nat) (hne : Op.run E fetch f r s pos ≠ .error .fuel) : Op.run E fetch g r s pos = Op.run E fetch f r s pos :=
  Op.run_fuel_mono E fetch f g hfg r s pos hne

/-- **op_run_fuel_unique.**  Any two fuels that suffice give the same answer: the fuel-free meaning of a PEG program under the
    operational model is unique. -/
theorem op_run_fuel_unique {ρ : Type} (E : Env) (fetch : ρ → Option (Instr ρ)) (f g : Nat) (r : ρ) (s : St) (pos : Nat)
    (hf : Op.run E fetch f r s pos ≠ .error .fuel) (hg : Op.run E fetch g r s pos ≠ .error .fuel) :
    Op.run E fetch f r s pos = Op.run E fetch g r s pos :=
  Op.run_fuel_unique E fetch f g r s pos hf hg

/-- one opcode: a better child runner and one more unit of loop fuel keep every answer other than `Err.fuel` (all 37 cases) -/
theorem op_step_mono {ρ : Type} (E : Env) {k k' : OK ρ} (h : Op.KLe k k') (n : Nat) (i : Instr ρ) (s : St) (pos : Nat) :
    Op.FLe (Op.step E k n i s pos) (Op.step E k' (n + 1) i s pos) :=
  Op.step_mono E h n i s pos


/-- **den_run_fuel_mono.**  The same for the denotational model `Den.run` (Peg/FuelMonoDen.lean). -/
theorem den_run_fuel_mono {ρ : Type} (E : Env) (fetch : ρ → Option (Instr ρ)) (f g : Nat) (hfg : f ≤ g) (r : ρ) (s : St)
    (pos : Nat) (hne : Den.run E fetch f r s pos ≠ .error .fuel) : Den.run E fetch g r s pos = Den.run E fetch f r s pos :=
  Den.run_fuel_mono E fetch f g hfg r s pos hne

/-- **op_eq_den_any_fuel.**  `op_eq_den` without a shared fuel: once the denotation at SOME fuel `f` yields a match `(p, Δ)`,
    the operational run at EVERY fuel `g ≥ f` ends in exactly `s` extended by `Δ` at position `p`; once it yields a failure,
    every such run fails; once it raises `e ≠ Err.fuel`, every such run raises `e`. -/
theorem op_eq_den_any_fuel {ρ : Type} (E : Env) (hE : E.lenprefixLeak = false) (fetch : ρ → Option (Instr ρ))
    (f g : Nat) (hfg : f ≤ g) (r : ρ) (s : St) (pos : Nat) :
    (∀ p d, Den.run E fetch f r s pos = .ok (some (p, d)) → Op.run E fetch g r s pos = .ok (some p, s.extend d))
    ∧ (Den.run E fetch f r s pos = .ok none → ∃ s', Op.run E fetch g r s pos = .ok (none, s') ∧ s.le s')
    ∧ (∀ e, e ≠ Err.fuel → Den.run E fetch f r s pos = .error e → Op.run E fetch g r s pos = .error e) := by
  have h2 := op_eq_den E hE fetch g r s pos
  refine ⟨fun p d hd => ?_, fun hd => ?_, fun e he hd => ?_⟩
  · have h1 := Den.run_fuel_mono E fetch f g hfg r s pos (by rw [hd]; intro h; cases h)
    rw [h1, hd] at h2; exact h2
  · have h1 := Den.run_fuel_mono E fetch f g hfg r s pos (by rw [hd]; intro h; cases h)
    rw [h1, hd] at h2; exact h2
  · have h1 := Den.run_fuel_mono E fetch f g hfg r s pos (by rw [hd]; intro h; cases h; exact he rfl)
    rw [h1, hd] at h2; exact h2


/-- **op_run_returns.**  The model's own run in the fuel-free form used for the extracted C cases (`Skel.Returns`: "run with ANY
    sufficiently large fuel, the answer is `res`"): an answer other than `Err.fuel` at one fuel is THE fuel-free meaning of the
    program at that rule, state and position - and by `Skel.Returns.unique` there is no other. -/
theorem op_run_returns {ρ : Type} (E : Env) (fetch : ρ → Option (Instr ρ)) (f : Nat) (r : ρ) (s : St) (pos : Nat)
    (hne : Op.run E fetch f r s pos ≠ .error .fuel) :
    Skel.Returns (fun fuel => Op.run E fetch fuel r s pos) (Op.run E fetch f r s pos) :=
  ⟨f, fun g hfg => Op.run_fuel_mono E fetch f g hfg r s pos hne⟩

/-- **op_returns_of_den.**  ... and the denotation determines it: if the denotation at some fuel yields a match `(p, Δ)`, the
    fuel-free meaning of the operational run is "match at `p` in the state `s` extended by `Δ`". -/
theorem op_returns_of_den {ρ : Type} (E : Env) (hE : E.lenprefixLeak = false) (fetch : ρ → Option (Instr ρ)) (f : Nat) (r : ρ)
    (s : St) (pos p : Nat) (d : Delta) (hd : Den.run E fetch f r s pos = .ok (some (p, d))) :
    Skel.Returns (fun fuel => Op.run E fetch fuel r s pos) (.ok (some p, s.extend d)) :=
  ⟨f, fun g hfg => (op_eq_den_any_fuel E hE fetch f g hfg r s pos).1 p d hd⟩

/-- non-vacuity: `(% (<- "a"))` = [ACCUMULATE 3 0; CAPTURE 6 0; LITERAL 1 'a'] on "a": fuel 2 is too little (the answer IS
    `Err.fuel`), fuel 3 suffices (the answer is a match ending at 1), so the hypothesis of `op_run_fuel_mono` holds at f = 3 -/
def fuelTag (r : ORes) : Nat :=
  match r with
  | .error .fuel => 0
  | .error _ => 1
  | .ok (none, _) => 2
  | .ok (some p, _) => 3 + p

example :
    fuelTag (Op.run { text := [97], args := [] , hasBackref := false } (decode ⟨#[17, 3, 0, 13, 6, 0, 0, 1, 97], #[]⟩) 2 0
      (initSt { text := [97], args := [], hasBackref := false } 1024) 0) = 0
    ∧ fuelTag (Op.run { text := [97], args := [], hasBackref := false } (decode ⟨#[17, 3, 0, 13, 6, 0, 0, 1, 97], #[]⟩) 3 0
      (initSt { text := [97], args := [], hasBackref := false } 1024) 0) = 4 := by
  decide


/-- **entry_points_fuel_mono.**  Fuel monotonicity at the API: for every program, main rule, recursion guard, text, start,
    substitute and fuels `f ≤ g`, whatever `peg/match`, `peg/find`, `peg/find-all`, `peg/replace`, `peg/replace-all` answer over
    the operational model at fuel `f` - other than `Err.fuel` - they answer at fuel `g`. -/
theorem entry_points_fuel_mono {ρ : Type} (E : Env) (fetch : ρ → Option (Instr ρ)) (main : ρ) (f g : Nat) (hfg : f ≤ g)
    (guard start : Nat) (subst : Val) (one : Bool) :
    let m := opMatcher E fetch main f guard
    let m' := opMatcher E fetch main g guard
    (pegMatch m start ≠ .error .fuel → pegMatch m' start = pegMatch m start)
    ∧ (pegFind m E.text.length start ≠ .error .fuel → pegFind m' E.text.length start = pegFind m E.text.length start)
    ∧ (pegFindAll m E.text.length start ≠ .error .fuel → pegFindAll m' E.text.length start = pegFindAll m E.text.length start)
    ∧ (pegReplace m E.text subst one start ≠ .error .fuel → pegReplace m' E.text subst one start = pegReplace m E.text subst one start) := by
  intro m m'
  have h : Entry.MLe m m' := Entry.opMatcher_mono E fetch main f g hfg guard
  exact ⟨Entry.FLe.eq_of_ne (Entry.pegMatch_mono h start), Entry.FLe.eq_of_ne (Entry.pegFind_mono h _ start),
    Entry.FLe.eq_of_ne (Entry.pegFindAll_mono h _ start), Entry.FLe.eq_of_ne (Entry.pegReplace_mono h _ subst one start)⟩

/-- the same over the denotation -/
theorem entry_points_fuel_mono_den {ρ : Type} (E : Env) (fetch : ρ → Option (Instr ρ)) (main : ρ) (f g : Nat) (hfg : f ≤ g)
    (guard start : Nat) (subst : Val) (one : Bool) :
    let m := denMatcher E fetch main f guard
    let m' := denMatcher E fetch main g guard
    (pegMatch m start ≠ .error .fuel → pegMatch m' start = pegMatch m start)
    ∧ (pegFind m E.text.length start ≠ .error .fuel → pegFind m' E.text.length start = pegFind m E.text.length start)
    ∧ (pegFindAll m E.text.length start ≠ .error .fuel → pegFindAll m' E.text.length start = pegFindAll m E.text.length start)
    ∧ (pegReplace m E.text subst one start ≠ .error .fuel → pegReplace m' E.text subst one start = pegReplace m E.text subst one start) := by
  intro m m'
  have h : Entry.MLe m m' := Entry.denMatcher_mono E fetch main f g hfg guard
  exact ⟨Entry.FLe.eq_of_ne (Entry.pegMatch_mono h start), Entry.FLe.eq_of_ne (Entry.pegFind_mono h _ start),
    Entry.FLe.eq_of_ne (Entry.pegFindAll_mono h _ start), Entry.FLe.eq_of_ne (Entry.pegReplace_mono h _ subst one start)⟩

/-- non-vacuity: `peg/find-all` of `(% (<- "a"))` over "aba" with fuel 3 answers [0, 2] (not `Err.fuel`), with fuel 2 `Err.fuel` -/
example :
    (match pegFindAll (opMatcher { text := [97, 98, 97], args := [], hasBackref := false }
        (decode ⟨#[17, 3, 0, 13, 6, 0, 0, 1, 97], #[]⟩) 0 3 1024) 3 0 with | .ok l => some l | .error _ => none) = some [0, 2]
    ∧ (match pegFindAll (opMatcher { text := [97, 98, 97], args := [], hasBackref := false }
        (decode ⟨#[17, 3, 0, 13, 6, 0, 0, 1, 97], #[]⟩) 0 2 1024) 3 0 with | .error .fuel => true | _ => false) = true := by
  decide

/-! ### `Err.fuel` is not only an artefact: real divergence

`{:main (+ "a" :main)}` on "b": RULE_CHOICE reaches its last alternative by `goto tail` after `up1`, so the recursion guard never
trips; the REAL peg.c loops forever on it (`janet -e '(peg/match (quote {:main (+ "a" :main)}) "b")'` does not return; PEG
semantics gives the left-recursive-in-tail-position grammar no meaning either).  In the model the run answers `Err.fuel` at EVERY
fuel - so the hypothesis `≠ Err.fuel` of the fuel-monotonicity theorems cannot be dropped, and it is exactly "the C returns". -/
def divE : Env := { text := [98], args := [], hasBackref := false }
def divFetch : Nat → Option (Instr Nat)
  | 0 => some (.choice [1, 0])
  | 1 => some (.literal [97])
  | _ => none
def divS : St := initSt divE 1024

theorem div_step (f : Nat) : Op.run divE divFetch (f + 2) 0 divS 0 = Op.run divE divFetch (f + 1) 0 divS 0 := by
  conv => lhs; rw [Op.run]
  simp only [divFetch, Op.step]
  have hd : down1 divS = .ok { divS with depth := 1023 } := rfl
  have hl : Op.run divE divFetch (f + 1) 1 { divS with depth := 1023 } 0 = .ok (none, { divS with depth := 1023 }) := rfl
  simp only [List.isEmpty_cons, Bool.false_eq_true, if_false, hd, bind, Except.bind, Op.choiceLoop, hl]
  rfl

theorem tail_choice_diverges : ∀ f, Op.run divE divFetch f 0 divS 0 = .error .fuel
  | 0 => rfl
  | 1 => rfl
  | f + 2 => by rw [div_step]; exact tail_choice_diverges (f + 1)


/-- non-vacuity for the denotational side: same program, fuel 2 answers `Err.fuel`, fuel 3 a match ending at 1 - so the first
    premise of `op_eq_den_any_fuel` is met at f = 3 -/
def denFuelTag (r : DRes) : Nat :=
  match r with
  | .error .fuel => 0
  | .error _ => 1
  | .ok none => 2
  | .ok (some (p, _)) => 3 + p

example :
    denFuelTag (Den.run { text := [97], args := [] , hasBackref := false } (decode ⟨#[17, 3, 0, 13, 6, 0, 0, 1, 97], #[]⟩) 2 0
      (initSt { text := [97], args := [], hasBackref := false } 1024) 0) = 0
    ∧ denFuelTag (Den.run { text := [97], args := [], hasBackref := false } (decode ⟨#[17, 3, 0, 13, 6, 0, 0, 1, 97], #[]⟩) 3 0
      (initSt { text := [97], args := [], hasBackref := false } 1024) 0) = 4 := by
  decide

end JanetModel.Props.C12
