/-
C12 — PEG matching conforms to the PEG semantics.  Property theorems only.
-/
import JanetModel.Peg.Entry

namespace JanetModel.Props.C12
open JanetModel.Peg

/-- The decoder reads, for every fixed-size opcode, exactly as many words as the bytecode verifier in
    `peg_unmarshal` advances by (regenerated from the current peg.c). -/
theorem decode_sizes_agree : JanetModel.Gen.Peg.opSizes = decodeSizes := by decide

end JanetModel.Props.C12
