/-
C04 — tables, structs, arrays and buffers behave as maps and sequences.  Property theorems only
(models: Table/Model.lean, Seq/Model.lean; lemmas: Table/Lemmas.lean; generated data: Gen/Table.lean, Gen/Seq.lean).

Tables.  `Inv h t` = the structural invariant of the bucket array (no duplicate keys; probe-path property: no empty
bucket between a key's home bucket and its bucket, cyclically; stored values are non-nil) + "no NULL bucket was
dereferenced".  The abstraction of a table is the function `k ↦ rawget t k` (nil = absent), so "putting nil removes"
is part of the map update itself.  All theorems are for every hash function `h`, every table satisfying the
invariant and every operation list.

`Inv` also carries the counting part (`count` = number of keys, `deleted` = number of tombstones, at least half of the
buckets empty), from which `no_null_deref` follows: `janet_dict_find` never returns NULL where table.c dereferences
its result, so none of the theorems needs a side condition on the run.
-/
import JanetModel.Table.Pow2
import JanetModel.Seq.Lemmas

namespace JanetModel.Props.C04
open JanetModel.Table JanetModel.Gen.Table

/-! ## tables -/

/-- invariant of a table -/
structure Inv (h : Nat → Nat) (t : Table) : Prop where
  /-- no duplicate keys, probe-path property, stored values non-nil -/
  d : DInv h t.data
  /-- no NULL bucket was dereferenced -/
  ok : t.bad = false
  /-- count = #keys, deleted = #tombstones, 0 < capacity, 2 * (count + deleted) ≤ capacity -/
  c : CInv t

/-- the finite map a table stands for: key ↦ value, nil = absent -/
def abs (h : Nat → Nat) (t : Table) : Nat → Val := fun k => t.rawget h k

/-- operations of a history (clone is the identity on the value level; get / in / rawget / next / length do not
change the table) -/
inductive Op where
  | put (k : KArg) (v : Val)
  | remove (k : Nat)
  | clear
  | merge (kvs : List Slot)
  | setproto (p : Option Nat)

def step (h : Nat → Nat) (t : Table) : Op → Table
  | .put k v => t.put h k v
  | .remove k => (t.remove h k).1
  | .clear => t.clear
  | .merge kvs => t.mergekv h kvs
  | .setproto p => { t with proto := p }

def run (h : Nat → Nat) (t : Table) (ops : List Op) : Table := ops.foldl (step h) t

/-- reference semantics on finite maps -/
def upd (m : Nat → Val) (k : Nat) (v : Val) : Nat → Val := fun k' => if k' = k then v else m k'

def specStep (m : Nat → Val) : Op → (Nat → Val)
  | .put (.key k) v => upd m k v            -- a nil value erases
  | .put _ _ => m                            -- nil and NaN keys are ignored
  | .remove k => upd m k vNil
  | .clear => fun _ => vNil
  | .merge kvs => kvs.foldl (fun m kv => match kv.key with | some k => upd m k kv.val | none => m) m
  | .setproto _ => m

theorem inv_init (h : Nat → Nat) (n : Nat) : Inv h (Table.init n) :=
  ⟨DInv.replicate h _, rfl, CInv.init n⟩

theorem abs_init (h : Nat → Nat) (n : Nat) (k : Nat) : abs h (Table.init n) k = vNil :=
  rawget_miss (fun i => by
    show ¬ (slotAt (Array.replicate _ Slot.empty) i).key = some k
    rw [slotAt_replicate]; simp [Slot.empty])

theorem inv_clear (h : Nat → Nat) (t : Table) (inv : Inv h t) : Inv h t.clear :=
  ⟨DInv.replicate h _, inv.ok, inv.c.clear⟩

theorem abs_clear (h : Nat → Nat) (t : Table) (k : Nat) : abs h t.clear k = vNil :=
  rawget_miss (fun i => by
    show ¬ (slotAt (Array.replicate _ Slot.empty) i).key = some k
    rw [slotAt_replicate]; simp [Slot.empty])

theorem inv_clone (h : Nat → Nat) (t : Table) (inv : Inv h t) : Inv h t.clone :=
  ⟨inv.d, inv.ok, ⟨inv.c.cnt, inv.c.del, inv.c.shape, inv.c.pos, inv.c.room⟩⟩

theorem abs_clone (h : Nat → Nat) (t : Table) (k : Nat) : abs h t.clone k = abs h t k := rfl

theorem inv_remove (h : Nat → Nat) (t : Table) (inv : Inv h t) (k : Nat) : Inv h (t.remove h k).1 :=
  ⟨(remove_spec inv.d k).1, by rw [(remove_spec inv.d k).2.1]; exact inv.ok, remove_counts inv.d inv.c k⟩

theorem abs_remove (h : Nat → Nat) (t : Table) (inv : Inv h t) (k : Nat) :
    abs h (t.remove h k).1 = upd (abs h t) k vNil ∧ (t.remove h k).2 = abs h t k := by
  refine ⟨funext (fun k' => ?_), (remove_spec inv.d k).2.2.1⟩
  exact (remove_spec inv.d k).2.2.2 k'

/-- `janet_table_rehash` to any size with at least half of the buckets free keeps the invariant and the abstraction -/
theorem inv_rehash (h : Nat → Nat) (t : Table) (inv : Inv h t) (n : Nat) (hn : 2 * t.count ≤ n) (hpos : t.count < n) :
    Inv h (t.rehash h n) ∧ abs h (t.rehash h n) = abs h t := by
  have hc := rehash_counts (h := h) inv.d n (by rw [← inv.c.cnt]; exact hpos)
  have hs := rehash_spec (h := h) inv.d n
  have hb : (t.rehash h n).bad = false := by rw [hc.1]; exact inv.ok
  refine ⟨⟨hs.1, hb, ⟨?_, ?_, shape_of_nTomb_zero hc.2.2.1, ?_, ?_⟩⟩, funext (fun k => (hs.2.2 hb).2 k)⟩
  · rw [hc.2.2.2.1, hc.2.1]; exact inv.c.cnt
  · rw [hc.2.2.2.2, hc.2.2.1]
  · rw [hs.2.1]; omega
  · rw [hs.2.1, hc.2.2.2.1, hc.2.2.2.2]; omega

/-- **no NULL dereference**: from a state satisfying the invariant, `janet_table_put` never meets a NULL bucket -/
theorem no_null_deref (h : Nat → Nat) (t : Table) (inv : Inv h t) (k : KArg) (v : Val) : (t.put h k v).bad = false := by
  cases k with
  | nil => exact inv.ok
  | nan => exact inv.ok
  | key k =>
    show (t.putKey h k v).bad = false
    rw [(putKey_counts inv.d inv.c inv.ok k v).2]; exact inv.ok

theorem inv_put (h : Nat → Nat) (t : Table) (inv : Inv h t) (k : KArg) (v : Val) : Inv h (t.put h k v) := by
  have hb := no_null_deref h t inv k v
  cases k with
  | nil => exact inv
  | nan => exact inv
  | key k => exact ⟨(putKey_spec inv.d k v hb).1, hb, (putKey_counts inv.d inv.c inv.ok k v).1⟩

/-- `put` is the finite-map update; putting nil removes; nil / NaN keys are ignored -/
theorem abs_put (h : Nat → Nat) (t : Table) (inv : Inv h t) (k : KArg) (v : Val) :
    abs h (t.put h k v) = specStep (abs h t) (.put k v) := by
  have hb := no_null_deref h t inv k v
  cases k with
  | nil => rfl
  | nan => rfl
  | key k => exact funext (fun k' => (putKey_spec inv.d k v hb).2.2 k')

theorem inv_putKey (h : Nat → Nat) (t : Table) (inv : Inv h t) (k : Nat) (v : Val) :
    Inv h (t.putKey h k v) ∧ abs h (t.putKey h k v) = upd (abs h t) k v :=
  ⟨inv_put h t inv (.key k) v, abs_put h t inv (.key k) v⟩

theorem inv_merge (h : Nat → Nat) (kvs : List Slot) (t : Table) (inv : Inv h t) :
    Inv h (t.mergekv h kvs) ∧ abs h (t.mergekv h kvs) = specStep (abs h t) (.merge kvs) := by
  induction kvs generalizing t with
  | nil => exact ⟨inv, rfl⟩
  | cons kv rest ih =>
    have e : t.mergekv h (kv :: rest) = (match kv.key with | some k => t.putKey h k kv.val | none => t).mergekv h rest := rfl
    have e2 : specStep (abs h t) (.merge (kv :: rest)) =
        specStep (match kv.key with | some k => upd (abs h t) k kv.val | none => abs h t) (.merge rest) := rfl
    rw [e, e2]
    cases hk : kv.key with
    | none => simp only []; exact ih t inv
    | some k =>
      simp only []
      have hp := inv_putKey h t inv k kv.val
      have := ih (t.putKey h k kv.val) hp.1
      rw [← hp.2]
      exact this

theorem abs_merge (h : Nat → Nat) (kvs : List Slot) (t : Table) (inv : Inv h t) :
    abs h (t.mergekv h kvs) = specStep (abs h t) (.merge kvs) := (inv_merge h kvs t inv).2

/-- one step refines the reference step -/
theorem step_refines (h : Nat → Nat) (t : Table) (inv : Inv h t) (op : Op) :
    Inv h (step h t op) ∧ abs h (step h t op) = specStep (abs h t) op := by
  cases op with
  | put k v => exact ⟨inv_put h t inv k v, abs_put h t inv k v⟩
  | remove k => exact ⟨inv_remove h t inv k, (abs_remove h t inv k).1⟩
  | clear => exact ⟨inv_clear h t inv, funext (fun k => abs_clear h t k)⟩
  | merge kvs => exact inv_merge h kvs t inv
  | setproto p => exact ⟨⟨inv.d, inv.ok, ⟨inv.c.cnt, inv.c.del, inv.c.shape, inv.c.pos, inv.c.room⟩⟩, rfl⟩

/-- **Refinement, for all operation sequences**: from any table satisfying the invariant (in particular a fresh
one), after any list of operations the table satisfies the invariant — so no NULL bucket was dereferenced, `count` is
the number of keys, `deleted` the number of tombstones — and equals, as a map, the finite map obtained by replaying the
same puts and removals. -/
theorem inv_reachable (h : Nat → Nat) (ops : List Op) (t : Table) (inv : Inv h t) :
    Inv h (run h t ops) ∧ abs h (run h t ops) = ops.foldl specStep (abs h t) := by
  induction ops generalizing t with
  | nil => exact ⟨inv, rfl⟩
  | cons op rest ih =>
    have hs := step_refines h t inv op
    have := ih (step h t op) hs.1
    simp only [run, List.foldl_cons] at this ⊢
    rw [← hs.2]
    exact this

theorem abs_run (h : Nat → Nat) (ops : List Op) (n : Nat) (k : Nat) :
    (run h (Table.init n) ops).rawget h k = ops.foldl specStep (fun _ => vNil) k := by
  have := (inv_reachable h ops (Table.init n) (inv_init h n)).2
  have e : abs h (Table.init n) = fun _ => vNil := funext (fun k => abs_init h n k)
  rw [e] at this
  exact congrFun this k

/-- `length` (the `count` field) is the number of entries; `deleted` is the number of tombstones -/
theorem length_eq_card (h : Nat → Nat) (t : Table) (inv : Inv h t) :
    t.count = (keysOf t.data).length ∧ t.deleted = nTomb t.data ∧
      (keysOf t.data).Nodup ∧ ∀ k, k ∈ keysOf t.data ↔ abs h t k ≠ vNil := by
  refine ⟨?_, inv.c.del, (iterNext_all inv.d).2.1, (iterNext_all inv.d).2.2⟩
  rw [inv.c.cnt]
  unfold nLive keysOf
  rw [← Array.countP_toList, List.length_filterMap_eq_countP]
  rfl

/-- after any history from a fresh table: `length` = number of keys of the replayed map's support -/
theorem length_reachable (h : Nat → Nat) (ops : List Op) (n : Nat) :
    (run h (Table.init n) ops).count = (keysOf (run h (Table.init n) ops).data).length ∧
      (run h (Table.init n) ops).bad = false :=
  ⟨(length_eq_card h _ (inv_reachable h ops _ (inv_init h n)).1).1, (inv_reachable h ops _ (inv_init h n)).1.ok⟩

/-! ### constructors return a table without a prototype -/

theorem proto_remove (h : Nat → Nat) (t : Table) (k : Nat) : (t.remove h k).1.proto = t.proto := by
  unfold Table.remove
  cases hit t.data (dictFind h t.data k) <;> rfl

theorem proto_putKey (h : Nat → Nat) (t : Table) (k : Nat) (v : Val) : (t.putKey h k v).proto = t.proto := by
  unfold Table.putKey
  by_cases hv : v = vNil
  · simp only [hv, if_true]; exact proto_remove h t k
  · simp only [hv, if_false]
    cases hit t.data (dictFind h t.data k) with
    | some i => rfl
    | none =>
      simp only []
      unfold Table.insertNew Table.insertAt
      have h1 : (t.maybeRehash h (dictFind h t.data k)).proto = t.proto := by
        unfold Table.maybeRehash
        by_cases c : ((dictFind h t.data k).isNone || rehashNeeded t.count t.deleted t.capacity) = true
        · rw [if_pos c]; rfl
        · rw [if_neg c]
      cases dictFind h (t.maybeRehash h (dictFind h t.data k)).data k <;> simp [h1]

theorem proto_put (h : Nat → Nat) (t : Table) (k : KArg) (v : Val) : (t.put h k v).proto = t.proto := by
  cases k with
  | nil => rfl
  | nan => rfl
  | key k => exact proto_putKey h t k v

theorem proto_mergekv (h : Nat → Nat) (kvs : List Slot) (t : Table) : (t.mergekv h kvs).proto = t.proto := by
  induction kvs generalizing t with
  | nil => rfl
  | cons kv rest ih =>
    have e : t.mergekv h (kv :: rest) = (match kv.key with | some k => t.putKey h k kv.val | none => t).mergekv h rest := rfl
    rw [e, ih]
    cases kv.key with
    | none => rfl
    | some k => exact proto_putKey h t k kv.val

/-- only `table/setproto` changes the prototype link: `put`, `remove`, `clear`, `merge-into` keep it -/
theorem proto_step (h : Nat → Nat) (t : Table) (op : Op) (hs : ∀ p, op ≠ .setproto p) : (step h t op).proto = t.proto := by
  cases op with
  | put k v => exact proto_put h t k v
  | remove k => exact proto_remove h t k
  | clear => rfl
  | merge kvs => exact proto_mergekv h kvs t
  | setproto p => exact absurd rfl (hs p)

theorem mergeNew_eq_run (h : Nat → Nat) (colls : List (List Slot)) :
    mergeNew h colls = run h (Table.init 0) (colls.map Op.merge) := by
  unfold mergeNew run
  rw [List.foldl_map]
  rfl

/-- **boot.janet `merge` returns a table without a prototype**, whatever prototypes its arguments carry (the model
of `merge` is the shape the translator asserts on boot.janet: a fresh `@{}` filled by `put`) ... -/
theorem merge_proto_none (h : Nat → Nat) (colls : List (List Slot)) : (mergeNew h colls).proto = none := by
  have : ∀ (l : List (List Slot)) (t : Table), (l.foldl (fun t kvs => t.mergekv h kvs) t).proto = t.proto := by
    intro l
    induction l with
    | nil => intro t; rfl
    | cons kvs rest ih => intro t; simp only [List.foldl_cons]; rw [ih, proto_mergekv]
  unfold mergeNew
  rw [this]; rfl

/-- ... and is, as a map, the replay of its arguments' entries from the empty map (invariant included) -/
theorem merge_new_spec (h : Nat → Nat) (colls : List (List Slot)) :
    Inv h (mergeNew h colls) ∧ abs h (mergeNew h colls) = (colls.map Op.merge).foldl specStep (fun _ => vNil) := by
  rw [mergeNew_eq_run]
  have := inv_reachable h (colls.map Op.merge) (Table.init 0) (inv_init h 0)
  have e : abs h (Table.init 0) = fun _ => vNil := funext (fun k => abs_init h 0 k)
  rw [e] at this
  exact this

/-- `zipcoll`, `from-pairs`, `tabseq`: likewise a fresh table filled by `put`, hence no prototype -/
theorem fromPuts_proto_none (h : Nat → Nat) (kvs : List (KArg × Val)) : (fromPuts h kvs).proto = none := by
  have : ∀ (l : List (KArg × Val)) (t : Table), (l.foldl (fun t kv => t.put h kv.1 kv.2) t).proto = t.proto := by
    intro l
    induction l with
    | nil => intro t; rfl
    | cons kv rest ih => intro t; simp only [List.foldl_cons]; rw [ih, proto_put]
  unfold fromPuts
  rw [this]; rfl

/-- `table/proto-flatten` walks a bounded number of prototypes (the generated shape of its loop): it terminates on a
cyclic prototype chain -/
theorem flatten_terminates : flattenBounded = true := by decide

/-! ### capacity is a power of two -/

def IsPow2 (n : Nat) : Prop := ∃ e, n = 2 ^ e

/-- a fresh table (`janet_table(n)`, `n` an `int32_t`) has a power-of-two capacity -/
theorem capacity_pow2_init (n : Nat) (hn : n < 2 ^ 32) : IsPow2 (Table.init n).data.size := by
  obtain ⟨e, he⟩ := tablen_pow2 n hn
  exact ⟨e, by simp [Table.init, he]⟩

/-- every operation keeps the capacity a power of two, as long as the current capacity fits an `int32_t` (beyond that
the C overflows `2 * count + 2` anyway) -/
theorem capacity_pow2_step (h : Nat → Nat) (t : Table) (inv : Inv h t) (hp : IsPow2 t.data.size)
    (hs : t.data.size < 2 ^ 31) (op : Op) (hm : ∀ kvs, op ≠ .merge kvs) : IsPow2 (step h t op).data.size := by
  have hput : ∀ k v, IsPow2 (t.putKey h k v).data.size := by
    intro k v
    rcases size_putKey h t k v with e | e
    · rw [e]; exact hp
    · rw [e]
      have := inv.c.room
      obtain ⟨e', he'⟩ := tablen_pow2 (2 * t.count + 2) (by omega)
      exact ⟨e', by unfold rehashSize; exact he'⟩
  cases op with
  | put k v =>
    cases k with
    | nil => exact hp
    | nan => exact hp
    | key k => exact hput k v
  | remove k => show IsPow2 (t.remove h k).1.data.size; rw [size_remove]; exact hp
  | clear => show IsPow2 (Array.replicate t.data.size Slot.empty).size; simpa using hp
  | merge kvs => exact absurd rfl (hm kvs)
  | setproto p => exact hp

/-- `merge` is the corresponding sequence of puts, so the previous theorem covers it entry by entry -/
theorem merge_eq_puts (h : Nat → Nat) (kvs : List Slot) (t : Table) :
    step h t (.merge kvs) = run h t (kvs.filterMap (fun kv => kv.key.map (fun k => Op.put (.key k) kv.val))) := by
  induction kvs generalizing t with
  | nil => rfl
  | cons kv rest ih =>
    have e : step h t (.merge (kv :: rest)) = step h (match kv.key with | some k => t.putKey h k kv.val | none => t) (.merge rest) := rfl
    rw [e, ih]
    cases hk : kv.key with
    | none => simp [hk]
    | some k => simp [hk, run, step, Table.put]

/-- `rawget` reads exactly the bucket array: present key ↦ its value, absent key ↦ nil -/
theorem rawget_spec (h : Nat → Nat) (t : Table) (inv : Inv h t) (k : Nat) :
    (∀ i, (slotAt t.data i).key = some k → t.rawget h k = (slotAt t.data i).val ∧ t.rawget h k ≠ vNil) ∧
    ((∀ i, (slotAt t.data i).key ≠ some k) → t.rawget h k = vNil) :=
  ⟨fun i hi => ⟨rawget_hit inv.d hi, by rw [rawget_hit inv.d hi]; exact inv.d.live i k hi⟩, fun hno => rawget_miss hno⟩

/-- `get` / `in`: first hit along at most `JANET_MAX_PROTO_DEPTH` prototypes -/
theorem get_spec (h : Nat → Nat) (heap : Nat → Option Table) (hinv : ∀ r t, heap r = some t → Inv h t)
    (k : Nat) (fuel : Nat) (r : Nat) :
    getChain h heap k (fuel + 1) (some r) =
      match heap r with
      | none => vNil
      | some t => if t.rawget h k ≠ vNil then t.rawget h k else getChain h heap k fuel t.proto := by
  conv => lhs; unfold getChain
  cases hr : heap r with
  | none => rfl
  | some t =>
    simp only []
    have inv := hinv r t hr
    unfold Table.rawget
    cases hh : hit t.data (dictFind h t.data k) with
    | none => simp
    | some i =>
      simp only []
      have : (slotAt t.data i).key.isSome = true := by
        unfold hit at hh
        cases hf : dictFind h t.data k with
        | none => rw [hf] at hh; cases hh
        | some j =>
          rw [hf] at hh
          simp only [] at hh
          by_cases c : (slotAt t.data j).key.isSome = true
          · rw [if_pos c] at hh; cases hh; exact c
          · rw [if_neg c] at hh; cases hh
      obtain ⟨k', hk'⟩ := Option.isSome_iff_exists.mp this
      have := inv.d.live i k' hk'
      simp [this]

/-- the depth limit is the generated `JANET_MAX_PROTO_DEPTH` and the walk stops there -/
theorem get_depth_cutoff (h : Nat → Nat) (heap : Nat → Option Table) (k : Nat) (r : Option Nat) :
    getChain h heap k 0 r = vNil := by
  cases r <;> rfl

/-- only lookups consult the prototype: `rawget`, `next`, `length` do not depend on it (and `put` / `remove`
never read the field: it does not occur in their definitions) -/
theorem proto_irrelevant (h : Nat → Nat) (t : Table) (p : Option Nat) (k : Nat) :
    ({ t with proto := p }).rawget h k = t.rawget h k ∧
    dictNext h ({ t with proto := p }).data (some k) = dictNext h t.data (some k) ∧
    dictNext h ({ t with proto := p }).data none = dictNext h t.data none ∧
    ({ t with proto := p }).count = t.count :=
  ⟨rfl, rfl, rfl, rfl⟩

/-- **iteration visits every key exactly once**: `next` from nil, repeated until it answers nil, enumerates the keys
in bucket order; that list has no duplicates and contains exactly the keys present in the map -/
theorem next_visits_each_key_once (h : Nat → Nat) (t : Table) (inv : Inv h t) :
    iterNext h t.data (t.data.size + 1) none = keysOf t.data ∧ (keysOf t.data).Nodup ∧
      ∀ k, k ∈ keysOf t.data ↔ abs h t k ≠ vNil :=
  iterNext_all inv.d

/-- the capacity a rehash chooses (generated `rehashSize`) exceeds twice the live count plus two: after a rehash at
least half of the buckets are empty -/
theorem rehash_has_room (count : Nat) : 2 * count + 2 < rehashSize count := by
  unfold rehashSize
  exact tablen_gt _

/-- non-vacuity: a table with two colliding keys, a tombstone and a rehash behind it satisfies the hypotheses -/
example : (run (fun _ => 7) (Table.init 0)
    [.put (.key 1) 5, .put (.key 2) 6, .put (.key 3) 7, .remove 2, .put (.key 4) 1, .put (.key 1) 0]).deleted = 2 := by decide

end JanetModel.Props.C04

namespace JanetModel.Props.C04
/-! ## sequences: index and range decoding never yields an out-of-range position -/
open JanetModel.Seq JanetModel.Gen.Seq

/-- `getter_checkint`: an accepted index is within `[0, max)` -/
theorem no_oob_in (key : Arg) (max : Int) (i : Int) (hi : getterCheckint key max = some i) : 0 ≤ i ∧ i < max := by
  unfold getterCheckint at hi
  cases key with
  | int n =>
    simp only [] at hi
    by_cases c1 : n < 0
    · rw [if_pos c1] at hi; cases hi
    · rw [if_neg c1] at hi
      by_cases c2 : n ≥ max
      · rw [if_pos c2] at hi; cases hi
      · rw [if_neg c2] at hi; cases hi; omega
  | nil => cases hi
  | bad => cases hi

/-- `janet_in` on an array: an error or an in-range read -/
theorem no_oob_get (a : Arr) (key : Arg) : a.in key = .err ∨ ∃ i : Int, 0 ≤ i ∧ i < a.count ∧ a.in key = .val (a.cells.getD i.toNat none) := by
  unfold Arr.in
  cases hc : getterCheckint key a.count with
  | none => left; rfl
  | some i => right; exact ⟨i, (no_oob_in key _ i hc).1, (no_oob_in key _ i hc).2, rfl⟩

/-- `janet_gethalfrange`: an accepted position is within `[0, length]` -/
theorem no_oob_halfrange (a : Arg) (length r : Int) (hr : getHalfRange a length = some r) : 0 ≤ r ∧ r ≤ length := by
  unfold getHalfRange at hr
  cases hg : getInteger a with
  | none => rw [hg] at hr; cases hr
  | some raw =>
    rw [hg] at hr
    simp only [] at hr
    by_cases c : (if raw < 0 then raw + (length + 1) else raw) < 0 ∨ (if raw < 0 then raw + (length + 1) else raw) > length
    · rw [if_pos c] at hr; cases hr
    · rw [if_neg c] at hr; cases hr; omega

/-- `janet_getslice`: `0 ≤ start ≤ end ≤ length` -/
theorem no_oob_slice (length : Int) (hl : 0 ≤ length) (s e : Option Arg) (st en : Int)
    (h : getSlice length s e = some (st, en)) : 0 ≤ st ∧ st ≤ en ∧ en ≤ length := by
  unfold getSlice at h
  cases hs : getStartRange s length with
  | none => rw [hs] at h; cases h
  | some st' =>
    rw [hs] at h
    simp only [] at h
    cases he : getEndRange e length with
    | none => rw [he] at h; cases h
    | some en' =>
      rw [he] at h
      simp only [Option.some.injEq, Prod.mk.injEq] at h
      have hst : 0 ≤ st' ∧ st' ≤ length := by
        unfold getStartRange at hs
        cases s with
        | none => cases hs; exact ⟨Int.le_refl 0, hl⟩
        | some x =>
          cases x with
          | nil => cases hs; exact ⟨Int.le_refl 0, hl⟩
          | int n => exact no_oob_halfrange _ _ _ hs
          | bad => exact no_oob_halfrange _ _ _ hs
      have hen : 0 ≤ en' ∧ en' ≤ length := by
        unfold getEndRange at he
        cases e with
        | none => cases he; exact ⟨hl, Int.le_refl _⟩
        | some x =>
          cases x with
          | nil => cases he; exact ⟨hl, Int.le_refl _⟩
          | int n => exact no_oob_halfrange _ _ _ he
          | bad => exact no_oob_halfrange _ _ _ he
      obtain ⟨h1, h2⟩ := h
      by_cases c : en' < st'
      · rw [if_pos c] at h2; omega
      · rw [if_neg c] at h2; omega

/-! ## arrays and buffers are resizable sequences

`a.Abs xs` (Seq/Lemmas.lean): the first `count` cells are initialised and hold exactly the list `xs`, the storage has
the size the `capacity` field says, and both fields fit `int32_t`.  Each theorem says: from a state representing `xs`
the operation either returns the error constructor (leaving the state alone) or succeeds in a state representing the
list-level result.  Growth factors, guards and gap fills are the generated ones (Gen/Seq.lean). -/

/-- **count ≤ capacity** (arrays: `max capacity 0`, array/new stores a negative capacity as given) -/
theorem arr_count_le_capacity (a : Arr) (xs : List Val) (h : a.Abs xs) : (a.count : Int) ≤ max a.capacity 0 := h.count_le
theorem buf_count_le_capacity (b : Buf) (xs : List Nat) (h : b.Abs xs) : (b.count : Int) ≤ b.capacity := h.count_le

/-- **no_overflow**: in every represented state count and capacity fit `int32_t`; since every operation below ends in
such a state or in the error constructor, no size computation leaves the type -/
theorem no_overflow (a : Arr) (xs : List Val) (h : a.Abs xs) : (a.count : Int) ≤ i32max ∧ a.capacity ≤ i32max :=
  ⟨h.count_fits, h.fits⟩

theorem abs_new (c : Int) (hc : c ≤ i32max) : (Arr.new c).Abs [] := Arr.new_abs c hc

theorem abs_push (a : Arr) (xs : List Val) (h : a.Abs xs) (x : Val) :
    ((a.count : Int) = i32max ∧ a.push x = (a, .err)) ∨
    ((a.count : Int) < i32max ∧ (a.push x).2 = .ok ∧ (a.push x).1.Abs (xs ++ [x])) := Arr.push_abs h x

theorem abs_cfun_push (a : Arr) (xs : List Val) (h : a.Abs xs) (ys : List Val) :
    ((a.cfunPush ys) = (a, .err) ∧ (xs.length + ys.length : Int) ≥ i32max) ∨
    ((a.cfunPush ys).2 = .ok ∧ (a.cfunPush ys).1.Abs (xs ++ ys)) := Arr.cfunPush_abs h ys

theorem abs_pop (a : Arr) (xs : List Val) (h : a.Abs xs) :
    (a.pop).1.Abs xs.dropLast ∧ (a.pop).2 = .val (some (xs.getLast?.getD vNil)) := Arr.pop_abs h

theorem abs_setcount (a : Arr) (xs : List Val) (h : a.Abs xs) (c : Int) (hc : c ≤ i32max) :
    (a.setcount c).2 = .ok ∧
    (a.setcount c).1.Abs (if c < 0 then xs else if c > xs.length then xs ++ List.replicate (c.toNat - xs.length) vNil else xs.take c.toNat) :=
  Arr.setcount_abs h c hc

theorem abs_insert (a : Arr) (xs : List Val) (h : a.Abs xs) (pos : Arg) (ys : List Val) :
    (a.insert pos ys = (a, .err)) ∨
    ∃ n p : Int, pos = .int n ∧ p = (if n < 0 then (xs.length : Int) + n + 1 else n) ∧ 0 ≤ p ∧ p ≤ xs.length ∧
      (a.insert pos ys).2 = .ok ∧ (a.insert pos ys).1.Abs (xs.take p.toNat ++ ys ++ xs.drop p.toNat) := Arr.insert_abs h pos ys

theorem abs_remove_seq (a : Arr) (xs : List Val) (h : a.Abs xs) (pos : Arg) (n : Option Arg) :
    (a.remove pos n = (a, .err)) ∨
    ∃ p m : Int, 0 ≤ p ∧ p ≤ xs.length ∧ 0 ≤ m ∧ p + m ≤ xs.length ∧
      (a.remove pos n).2 = .ok ∧ (a.remove pos n).1.Abs (xs.take p.toNat ++ xs.drop (p + m).toNat) := Arr.remove_abs h pos n

theorem abs_slice (xs : List Val) (hx : (xs.length : Int) ≤ i32max) (s e : Option Arg) :
    (sliceOf (xs.map some) s e = none ∧ getSlice xs.length s e = none) ∨
    ∃ st en r, getSlice xs.length s e = some (st, en) ∧ 0 ≤ st ∧ st ≤ en ∧ en ≤ xs.length ∧
      sliceOf (xs.map some) s e = some r ∧ r.Abs ((xs.drop st.toNat).take (en - st).toNat) := sliceOf_abs xs hx s e

theorem abs_fill (a : Arr) (xs : List Val) (h : a.Abs xs) (v : Val) :
    (a.fill v).2 = .ok ∧ (a.fill v).1.Abs (List.replicate xs.length v) := Arr.fill_abs h v

theorem abs_concat (ps : List SPart) (a : Arr) (xs : List Val) (h : a.Abs xs)
    (hb : ((specConcat xs ps).length : Int) ≤ i32max) :
    (a.concat (ps.map SPart.toPart)).2 = .ok ∧ (a.concat (ps.map SPart.toPart)).1.Abs (specConcat xs ps) :=
  Arr.concat_abs ps h hb

theorem abs_put_seq (a : Arr) (xs : List Val) (h : a.Abs xs) (key : Arg) (v : Val) :
    (a.put key v = (a, .err)) ∨
    ∃ i : Int, key = .int i ∧ 0 ≤ i ∧ i < i32max - 1 ∧ (a.put key v).2 = .ok ∧
      (a.put key v).1.Abs ((if i ≥ xs.length then xs ++ List.replicate (i.toNat + 1 - xs.length) vNil else xs).set i.toNat v) :=
  Arr.put_abs h key v

/-- `janet_putindex` (goes through only for the source shape that fills the gap) -/
theorem abs_putindex (a : Arr) (xs : List Val) (h : a.Abs xs) (index : Int) (v : Val) (h0 : 0 ≤ index) (h1 : index < i32max) :
    (a.putindex index v).2 = .ok ∧
    (a.putindex index v).1.Abs (if index ≥ xs.length then xs ++ List.replicate (index.toNat - xs.length) vNil ++ [v]
                                 else xs.set index.toNat v) := Arr.putindex_abs h index v h0 h1

theorem abs_trim (a : Arr) (xs : List Val) (h : a.Abs xs) : (a.trim).2 = .ok ∧ (a.trim).1.Abs xs := Arr.trim_abs h

/-- buffers: `janet_buffer_extra`'s overflow guard, push, setcount, popn, fill, blit -/
theorem buf_extra_guard (b : Buf) (xs : List Nat) (h : b.Abs xs) (n : Int) (hn : 0 ≤ n) :
    (n + b.count > i32max ∧ b.extra n = (b, .err)) ∨
    (n + b.count ≤ i32max ∧ (b.extra n).2 = .ok ∧ (b.extra n).1.Abs xs ∧ (b.count : Int) + n ≤ (b.extra n).1.capacity ∧
      (b.extra n).1.count = b.count) := Buf.extra_abs h n hn

theorem abs_buf_push (b : Buf) (xs : List Nat) (h : b.Abs xs) (ys : List Nat) :
    ((xs.length : Int) + ys.length > i32max ∧ b.pushBytes (ys.map some) = (b, .err)) ∨
    ((b.pushBytes (ys.map some)).2 = .ok ∧ (b.pushBytes (ys.map some)).1.Abs (xs ++ ys)) := Buf.pushBytes_abs h ys

theorem abs_buf_setcount (b : Buf) (xs : List Nat) (h : b.Abs xs) (c : Int) (hc : c ≤ i32max) :
    (b.setcount c).2 = .ok ∧
    (b.setcount c).1.Abs (if c < 0 then xs else if c > xs.length then xs ++ List.replicate (c.toNat - xs.length) 0 else xs.take c.toNat) :=
  Buf.setcount_abs h c hc

theorem abs_buf_popn (b : Buf) (xs : List Nat) (h : b.Abs xs) (n : Arg) :
    (b.popn n = (b, .err)) ∨
    ∃ m : Int, n = .int m ∧ 0 ≤ m ∧ (b.popn n).2 = .ok ∧ (b.popn n).1.Abs (xs.take (xs.length - m.toNat)) := Buf.popn_abs h n

theorem abs_buf_fill (b : Buf) (xs : List Nat) (h : b.Abs xs) (v : Int) :
    (b.fill (some (.int v))).2 = .ok ∧ (b.fill (some (.int v))).1.Abs (List.replicate xs.length (lowByte v)) := Buf.fill_abs h v

theorem abs_buf_blit (d : Buf) (xs : List Nat) (h : d.Abs xs) (ys : List Nat) (od os ls : Int)
    (hod : 0 ≤ od ∧ od ≤ xs.length) (hos : 0 ≤ os) (hls : 0 ≤ ls) (hsrc : os + ls ≤ ys.length) :
    (od + ls > i32max ∧ d.blitCore (some (ys.map some)) ys.length od os ls = (d, .err)) ∨
    ((d.blitCore (some (ys.map some)) ys.length od os ls).2 = .ok ∧
     (d.blitCore (some (ys.map some)) ys.length od os ls).1.Abs
       (xs.take od.toNat ++ (ys.drop os.toNat).take ls.toNat ++
        xs.drop (od.toNat + ((ys.drop os.toNat).take ls.toNat).length))) := Buf.blitCore_abs h ys od os ls hod hos hls hsrc

theorem abs_buf_blit_self (d : Buf) (xs : List Nat) (h : d.Abs xs) (od os ls : Int)
    (hod : 0 ≤ od ∧ od ≤ xs.length) (hos : 0 ≤ os) (hls : 0 ≤ ls) (hsrc : os + ls ≤ xs.length) :
    (od + ls > i32max ∧ d.blitCore none xs.length od os ls = (d, .err)) ∨
    ((d.blitCore none xs.length od os ls).2 = .ok ∧
     (d.blitCore none xs.length od os ls).1.Abs
       (xs.take od.toNat ++ (xs.drop os.toNat).take ls.toNat ++
        xs.drop (od.toNat + ((xs.drop os.toNat).take ls.toNat).length))) := Buf.blitCore_self_abs h od os ls hod hos hls hsrc

/-- array operations of a history (the cfuns and `put`; arguments are arbitrary, possibly ill-typed or out of range) -/
inductive AOp where
  | push (x : Val) | pop | insert (pos : Arg) (ys : List Val) | remove (pos : Arg) (n : Option Arg)
  | fill (v : Val) | put (key : Arg) (v : Val) | trim | clear

def astep (a : Arr) : AOp → Arr
  | .push x => (a.push x).1
  | .pop => a.pop.1
  | .insert pos ys => (a.insert pos ys).1
  | .remove pos n => (a.remove pos n).1
  | .fill v => (a.fill v).1
  | .put key v => (a.put key v).1
  | .trim => a.trim.1
  | .clear => a.clear.1

theorem step_push (a : Arr) (xs : List Val) (h : a.Abs xs) (x : Val) : ∃ zs, (a.push x).1.Abs zs := by
  rcases Arr.push_abs h x with ⟨_, e⟩ | ⟨_, _, hA⟩
  · exact ⟨xs, by rw [e]; exact h⟩
  · exact ⟨_, hA⟩
theorem step_insert (a : Arr) (xs : List Val) (h : a.Abs xs) (pos) (ys : List Val) : ∃ zs, (a.insert pos ys).1.Abs zs := by
  rcases Arr.insert_abs h pos ys with e | ⟨_, _, _, _, _, _, _, hA⟩
  · exact ⟨xs, by rw [e]; exact h⟩
  · exact ⟨_, hA⟩
theorem step_put (a : Arr) (xs : List Val) (h : a.Abs xs) (key) (v : Val) : ∃ zs, (a.put key v).1.Abs zs := by
  rcases Arr.put_abs h key v with e | ⟨_, _, _, _, _, hA⟩
  · exact ⟨xs, by rw [e]; exact h⟩
  · exact ⟨_, hA⟩
theorem step_remove (a : Arr) (xs : List Val) (h : a.Abs xs) (pos n) : ∃ zs, (a.remove pos n).1.Abs zs := by
  rcases Arr.remove_abs h pos n with e | ⟨_, _, _, _, _, _, _, hA⟩
  · exact ⟨xs, by rw [e]; exact h⟩
  · exact ⟨_, hA⟩

theorem astep_abs (a : Arr) (xs : List Val) (h : a.Abs xs) : (op : AOp) → ∃ zs, (astep a op).Abs zs
  | .push x => step_push a xs h x
  | .pop => ⟨_, (Arr.pop_abs h).1⟩
  | .insert pos ys => step_insert a xs h pos ys
  | .remove pos n => step_remove a xs h pos n
  | .fill v => ⟨_, (Arr.fill_abs h v).2⟩
  | .put key v => step_put a xs h key v
  | .trim => ⟨_, (Arr.trim_abs h).2⟩
  | .clear => ⟨_, Arr.clear_abs h⟩

/-- **for all operation sequences** on an array — whatever the arguments, ill-typed and out of range included — the
state stays a well-formed sequence: every cell below `count` is initialised, `count ≤ capacity`, both fit `int32_t`
(so no operation, successful or failing, leaves a state from which memory outside the storage could be reached) -/
theorem arr_inv_reachable (ops : List AOp) (a : Arr) (xs : List Val) (h : a.Abs xs) :
    ∃ ys, (ops.foldl astep a).Abs ys := by
  induction ops generalizing a xs with
  | nil => exact ⟨xs, h⟩
  | cons op rest ih =>
    obtain ⟨zs, hz⟩ := astep_abs a xs h op
    exact ih _ zs hz

/-- `array/ensure` with well-typed 32-bit arguments raises an error or succeeds — it never ends the process with
"janet out of memory" (goes through only for sources that validate `growth ≥ 1`) -/
theorem aensure_never_exits (a : Arr) (xs : List Val) (h : a.Abs xs) (c g : Arg)
    (hc : ∀ n, c = .int n → n ≤ i32max) : (a.cfunEnsure c g).2 ≠ .oom := by
  unfold Arr.cfunEnsure
  cases hcg : getInteger c with
  | none => simp
  | some cn =>
    cases hgg : getInteger g with
    | none => simp
    | some gn =>
      simp only []
      have hcn : cn ≤ i32max := by
        cases c with
        | int m => simp [getInteger] at hcg; rw [← hcg]; exact hc m rfl
        | nil => cases hcg
        | bad => cases hcg
      by_cases c1 : cn < 1
      · rw [if_pos c1]; simp
      · rw [if_neg c1]
        simp only [ensureChecksGrowth, Bool.true_and]
        by_cases c2 : gn < 1
        · simp [c2]
        · have hd : decide (gn < 1) = false := by simp [c2]
          rw [hd]
          simp only [Bool.false_eq_true, if_false]
          obtain ⟨a', he, _⟩ := Arr.ensure_abs h cn gn (by omega) (by omega) hcn
          rw [he]; simp

/-- non-vacuity: a concrete array state is represented -/
example : (Arr.new 2).Abs [] := Arr.new_abs 2 (by decide)

/-- `array/remove` (shape of the clamp read off the current source, Gen/Seq.lean): never undefined behaviour.
Goes through only for the overflow-safe clamp `n > array->count - at`. -/
theorem aremove_no_ub (a : Arr) (pos : Arg) (n : Option Arg) : (a.remove pos n).2 ≠ .ub := by
  unfold Arr.remove Arr.removeWith
  simp only [removeClampNoOverflow]
  cases getInteger pos with
  | none => simp
  | some p =>
    simp only []
    by_cases c1 : (if p < 0 then (a.count : Int) + p else p) < 0 ∨ (if p < 0 then (a.count : Int) + p else p) > a.count
    · rw [if_pos c1]; simp
    · rw [if_neg c1]
      cases removeCount n with
      | none => simp
      | some m => simp

/-- the other recognised shape `at + n > array->count` overflows: witness -/
theorem aremove_overflow_ub :
    (Arr.removeWith false { count := 3, capacity := 3, cells := #[some 1, some 2, some 3] } (.int 1) (some (.int 2147483647))).2 = .ub := by decide

/-- `janet_putindex` (shape read off the current source): the gap between the old count and the index is filled -/
theorem putindex_fills_gap : putindexFillsArrayGap = true ∧ putindexFillsBufferGap = true := by decide

/-- without the fill, cells below `count` are never written: witness -/
theorem putindex_gap_uninit : (Arr.putindexWith false (Arr.new 0) 2 5).1.items = [none, none, some 5] := by decide

example : (Arr.putindexWith true (Arr.new 0) 2 5).1.items = [some 0, some 0, some 5] := by decide

end JanetModel.Props.C04
