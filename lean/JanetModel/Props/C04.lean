/-
C04 — tables, structs, arrays and buffers behave as maps and sequences.  Property theorems only
(models: Table/Model.lean, Seq/Model.lean; lemmas: Table/Lemmas.lean; generated data: Gen/Table.lean, Gen/Seq.lean).

Tables.  `Inv h t` = the structural invariant of the bucket array (no duplicate keys; probe-path property: no empty
bucket between a key's home bucket and its bucket, cyclically; stored values are non-nil) + "no NULL bucket was
dereferenced".  The abstraction of a table is the function `k ↦ rawget t k` (nil = absent), so "putting nil removes"
is part of the map update itself.  All theorems are for every hash function `h`, every table satisfying the
invariant and every operation list.

What is *not* proved here (see notes/C04.md): that the NULL dereference flag `bad` never goes up (it needs the
counting argument count + deleted < capacity; the theorems below are stated for runs on which the flag stayed down,
and the correspondence harness compares the flag on every op), `count` = number of keys, capacity a power of two,
and the refinement theorems for arrays / buffers other than index decoding.
-/
import JanetModel.Table.Lemmas
import JanetModel.Seq.Model

namespace JanetModel.Props.C04
open JanetModel.Table JanetModel.Gen.Table

/-! ## tables -/

/-- invariant of a table -/
structure Inv (h : Nat → Nat) (t : Table) : Prop where
  d : DInv h t.data
  ok : t.bad = false

/-- the finite map a table stands for: key ↦ value, nil = absent -/
def abs (h : Nat → Nat) (t : Table) : Nat → Val := fun k => t.rawget h k

/-- operations of a history (clone is the identity on the value level; get / in / rawget / next / length do not
change the table) -/
inductive Op where
  | put (k : KArg) (v : Val)
  | remove (k : Nat)
  | clear
  | merge (kvs : List Slot)
  | setproto (p : Option Nat)

def step (h : Nat → Nat) (t : Table) : Op → Table
  | .put k v => t.put h k v
  | .remove k => (t.remove h k).1
  | .clear => t.clear
  | .merge kvs => t.mergekv h kvs
  | .setproto p => { t with proto := p }

def run (h : Nat → Nat) (t : Table) (ops : List Op) : Table := ops.foldl (step h) t

/-- reference semantics on finite maps -/
def upd (m : Nat → Val) (k : Nat) (v : Val) : Nat → Val := fun k' => if k' = k then v else m k'

def specStep (m : Nat → Val) : Op → (Nat → Val)
  | .put (.key k) v => upd m k v            -- a nil value erases
  | .put _ _ => m                            -- nil and NaN keys are ignored
  | .remove k => upd m k vNil
  | .clear => fun _ => vNil
  | .merge kvs => kvs.foldl (fun m kv => match kv.key with | some k => upd m k kv.val | none => m) m
  | .setproto _ => m

theorem inv_init (h : Nat → Nat) (n : Nat) : Inv h (Table.init n) :=
  ⟨DInv.replicate h _, rfl⟩

theorem abs_init (h : Nat → Nat) (n : Nat) (k : Nat) : abs h (Table.init n) k = vNil :=
  rawget_miss (fun i => by
    show ¬ (slotAt (Array.replicate _ Slot.empty) i).key = some k
    rw [slotAt_replicate]; simp [Slot.empty])

theorem inv_clear (h : Nat → Nat) (t : Table) (inv : Inv h t) : Inv h t.clear :=
  ⟨DInv.replicate h _, inv.ok⟩

theorem abs_clear (h : Nat → Nat) (t : Table) (k : Nat) : abs h t.clear k = vNil :=
  rawget_miss (fun i => by
    show ¬ (slotAt (Array.replicate _ Slot.empty) i).key = some k
    rw [slotAt_replicate]; simp [Slot.empty])

theorem inv_clone (h : Nat → Nat) (t : Table) (inv : Inv h t) : Inv h t.clone := ⟨inv.d, inv.ok⟩

theorem abs_clone (h : Nat → Nat) (t : Table) (k : Nat) : abs h t.clone k = abs h t k := rfl

theorem inv_remove (h : Nat → Nat) (t : Table) (inv : Inv h t) (k : Nat) : Inv h (t.remove h k).1 :=
  ⟨(remove_spec inv.d k).1, by rw [(remove_spec inv.d k).2.1]; exact inv.ok⟩

theorem abs_remove (h : Nat → Nat) (t : Table) (inv : Inv h t) (k : Nat) :
    abs h (t.remove h k).1 = upd (abs h t) k vNil ∧ (t.remove h k).2 = abs h t k := by
  refine ⟨funext (fun k' => ?_), (remove_spec inv.d k).2.2.1⟩
  exact (remove_spec inv.d k).2.2.2 k'

/-- `janet_table_rehash` keeps the invariant and the abstraction -/
theorem inv_rehash (h : Nat → Nat) (t : Table) (inv : Inv h t) (n : Nat) (hb : (t.rehash h n).bad = false) :
    Inv h (t.rehash h n) ∧ abs h (t.rehash h n) = abs h t :=
  ⟨⟨(rehash_spec inv.d n).1, hb⟩, funext (fun k => ((rehash_spec inv.d n).2.2 hb).2 k)⟩

theorem inv_put (h : Nat → Nat) (t : Table) (inv : Inv h t) (k : KArg) (v : Val)
    (hb : (t.put h k v).bad = false) : Inv h (t.put h k v) := by
  cases k with
  | nil => exact inv
  | nan => exact inv
  | key k => exact ⟨(putKey_spec inv.d k v hb).1, hb⟩

/-- `put` is the finite-map update; putting nil removes; nil / NaN keys are ignored -/
theorem abs_put (h : Nat → Nat) (t : Table) (inv : Inv h t) (k : KArg) (v : Val)
    (hb : (t.put h k v).bad = false) : abs h (t.put h k v) = specStep (abs h t) (.put k v) := by
  cases k with
  | nil => rfl
  | nan => rfl
  | key k => exact funext (fun k' => (putKey_spec inv.d k v hb).2.2 k')

/-- once a NULL dereference has been recorded it stays recorded -/
theorem bad_sticky_putKey (h : Nat → Nat) (t : Table) (k : Nat) (v : Val) (hb : t.bad = true) :
    (t.putKey h k v).bad = true := by
  unfold Table.putKey
  by_cases hv : v = vNil
  · simp only [hv, if_true]
    unfold Table.remove
    cases hit t.data (dictFind h t.data k) <;> simp [hb]
  · simp only [hv, if_false]
    cases hit t.data (dictFind h t.data k) with
    | some i => simp [hb]
    | none =>
      simp only []
      unfold Table.insertNew Table.insertAt
      have h1 : (t.maybeRehash h (dictFind h t.data k)).bad = true := by
        unfold Table.maybeRehash
        by_cases c : ((dictFind h t.data k).isNone || rehashNeeded t.count t.deleted t.capacity) = true
        · rw [if_pos c]; unfold Table.rehash; simp only []; rw [hb]; exact rehashLoop_bad _ _ _
        · rw [if_neg c]; exact hb
      cases dictFind h (t.maybeRehash h (dictFind h t.data k)).data k <;> simp [h1]

theorem bad_sticky_mergekv (h : Nat → Nat) (l : List Slot) (t : Table) (hb : t.bad = true) :
    (t.mergekv h l).bad = true := by
  induction l generalizing t with
  | nil => exact hb
  | cons a l ihl =>
    have e : t.mergekv h (a :: l) = (match a.key with | some k => t.putKey h k a.val | none => t).mergekv h l := rfl
    rw [e]
    cases a.key with
    | none => exact ihl t hb
    | some ka => exact ihl _ (bad_sticky_putKey h t ka a.val hb)

theorem inv_merge (h : Nat → Nat) (kvs : List Slot) (t : Table) (inv : Inv h t)
    (hb : (t.mergekv h kvs).bad = false) :
    Inv h (t.mergekv h kvs) ∧ abs h (t.mergekv h kvs) = specStep (abs h t) (.merge kvs) := by
  induction kvs generalizing t with
  | nil => exact ⟨inv, rfl⟩
  | cons kv rest ih =>
    have e : t.mergekv h (kv :: rest) = (match kv.key with | some k => t.putKey h k kv.val | none => t).mergekv h rest := rfl
    have e2 : specStep (abs h t) (.merge (kv :: rest)) =
        specStep (match kv.key with | some k => upd (abs h t) k kv.val | none => abs h t) (.merge rest) := rfl
    rw [e] at hb ⊢
    rw [e2]
    cases hk : kv.key with
    | none =>
      simp only [hk] at hb ⊢
      exact ih t inv hb
    | some k =>
      simp only [hk] at hb ⊢
      have hb1 : (t.putKey h k kv.val).bad = false := by
        cases hbb : (t.putKey h k kv.val).bad with
        | false => rfl
        | true =>
          have := bad_sticky_mergekv h rest _ hbb
          rw [this] at hb; cases hb
      have hp := putKey_spec inv.d k kv.val hb1
      have := ih (t.putKey h k kv.val) ⟨hp.1, hb1⟩ hb
      refine ⟨this.1, ?_⟩
      have e3 : abs h (t.putKey h k kv.val) = upd (abs h t) k kv.val := funext (fun k' => hp.2.2 k')
      rw [← e3]
      exact this.2

theorem abs_merge (h : Nat → Nat) (kvs : List Slot) (t : Table) (inv : Inv h t)
    (hb : (t.mergekv h kvs).bad = false) :
    abs h (t.mergekv h kvs) = specStep (abs h t) (.merge kvs) := (inv_merge h kvs t inv hb).2

theorem bad_sticky_step (h : Nat → Nat) (t : Table) (op : Op) (hb : t.bad = true) : (step h t op).bad = true := by
  cases op with
  | put k v =>
    cases k with
    | nil => exact hb
    | nan => exact hb
    | key k => exact bad_sticky_putKey h t k v hb
  | remove k =>
    simp only [step]; unfold Table.remove
    cases hit t.data (dictFind h t.data k) <;> simp [hb]
  | clear => exact hb
  | merge kvs => exact bad_sticky_mergekv h kvs t hb
  | setproto p => exact hb

theorem bad_sticky_run (h : Nat → Nat) (ops : List Op) (t : Table) (hb : t.bad = true) : (run h t ops).bad = true := by
  induction ops generalizing t with
  | nil => exact hb
  | cons op rest ih => exact ih _ (bad_sticky_step h t op hb)

/-- one step refines the reference step -/
theorem step_refines (h : Nat → Nat) (t : Table) (inv : Inv h t) (op : Op) (hb : (step h t op).bad = false) :
    Inv h (step h t op) ∧ abs h (step h t op) = specStep (abs h t) op := by
  cases op with
  | put k v => exact ⟨inv_put h t inv k v hb, abs_put h t inv k v hb⟩
  | remove k => exact ⟨inv_remove h t inv k, (abs_remove h t inv k).1⟩
  | clear => exact ⟨inv_clear h t inv, funext (fun k => abs_clear h t k)⟩
  | merge kvs => exact inv_merge h kvs t inv hb
  | setproto p => exact ⟨⟨inv.d, inv.ok⟩, rfl⟩

/-- **Refinement, for all operation sequences**: from any table satisfying the invariant (in particular a fresh
one), after any list of operations the table satisfies the invariant and equals — as a map — the finite map obtained
by replaying the same puts and removals. -/
theorem inv_reachable (h : Nat → Nat) (ops : List Op) (t : Table) (inv : Inv h t)
    (hb : (run h t ops).bad = false) :
    Inv h (run h t ops) ∧ abs h (run h t ops) = ops.foldl specStep (abs h t) := by
  induction ops generalizing t with
  | nil => exact ⟨inv, rfl⟩
  | cons op rest ih =>
    have hb1 : (step h t op).bad = false := by
      cases hbb : (step h t op).bad with
      | false => rfl
      | true =>
        have := bad_sticky_run h rest _ hbb
        simp only [run, List.foldl_cons] at hb
        simp only [run] at this
        rw [this] at hb; cases hb
    have hs := step_refines h t inv op hb1
    have := ih (step h t op) hs.1 (by simpa [run] using hb)
    simp only [run, List.foldl_cons] at this ⊢
    rw [← hs.2]
    exact this

theorem abs_run (h : Nat → Nat) (ops : List Op) (n : Nat) (hb : (run h (Table.init n) ops).bad = false) (k : Nat) :
    (run h (Table.init n) ops).rawget h k = ops.foldl specStep (fun _ => vNil) k := by
  have := (inv_reachable h ops (Table.init n) (inv_init h n) hb).2
  have e : abs h (Table.init n) = fun _ => vNil := funext (fun k => abs_init h n k)
  rw [e] at this
  exact congrFun this k

/-- `rawget` reads exactly the bucket array: present key ↦ its value, absent key ↦ nil -/
theorem rawget_spec (h : Nat → Nat) (t : Table) (inv : Inv h t) (k : Nat) :
    (∀ i, (slotAt t.data i).key = some k → t.rawget h k = (slotAt t.data i).val ∧ t.rawget h k ≠ vNil) ∧
    ((∀ i, (slotAt t.data i).key ≠ some k) → t.rawget h k = vNil) :=
  ⟨fun i hi => ⟨rawget_hit inv.d hi, by rw [rawget_hit inv.d hi]; exact inv.d.live i k hi⟩, fun hno => rawget_miss hno⟩

/-- `get` / `in`: first hit along at most `JANET_MAX_PROTO_DEPTH` prototypes -/
theorem get_spec (h : Nat → Nat) (heap : Nat → Option Table) (hinv : ∀ r t, heap r = some t → Inv h t)
    (k : Nat) (fuel : Nat) (r : Nat) :
    getChain h heap k (fuel + 1) (some r) =
      match heap r with
      | none => vNil
      | some t => if t.rawget h k ≠ vNil then t.rawget h k else getChain h heap k fuel t.proto := by
  conv => lhs; unfold getChain
  cases hr : heap r with
  | none => rfl
  | some t =>
    simp only []
    have inv := hinv r t hr
    unfold Table.rawget
    cases hh : hit t.data (dictFind h t.data k) with
    | none => simp
    | some i =>
      simp only []
      have : (slotAt t.data i).key.isSome = true := by
        unfold hit at hh
        cases hf : dictFind h t.data k with
        | none => rw [hf] at hh; cases hh
        | some j =>
          rw [hf] at hh
          simp only [] at hh
          by_cases c : (slotAt t.data j).key.isSome = true
          · rw [if_pos c] at hh; cases hh; exact c
          · rw [if_neg c] at hh; cases hh
      obtain ⟨k', hk'⟩ := Option.isSome_iff_exists.mp this
      have := inv.d.live i k' hk'
      simp [this]

/-- the depth limit is the generated `JANET_MAX_PROTO_DEPTH` and the walk stops there -/
theorem get_depth_cutoff (h : Nat → Nat) (heap : Nat → Option Table) (k : Nat) (r : Option Nat) :
    getChain h heap k 0 r = vNil := by
  cases r <;> rfl

/-- only lookups consult the prototype: `rawget`, `next`, `length` do not depend on it (and `put` / `remove`
never read the field: it does not occur in their definitions) -/
theorem proto_irrelevant (h : Nat → Nat) (t : Table) (p : Option Nat) (k : Nat) :
    ({ t with proto := p }).rawget h k = t.rawget h k ∧
    dictNext h ({ t with proto := p }).data (some k) = dictNext h t.data (some k) ∧
    dictNext h ({ t with proto := p }).data none = dictNext h t.data none ∧
    ({ t with proto := p }).count = t.count :=
  ⟨rfl, rfl, rfl, rfl⟩

/-- **iteration visits every key exactly once**: `next` from nil, repeated until it answers nil, enumerates the keys
in bucket order; that list has no duplicates and contains exactly the keys present in the map -/
theorem next_visits_each_key_once (h : Nat → Nat) (t : Table) (inv : Inv h t) :
    iterNext h t.data (t.data.size + 1) none = keysOf t.data ∧ (keysOf t.data).Nodup ∧
      ∀ k, k ∈ keysOf t.data ↔ abs h t k ≠ vNil :=
  iterNext_all inv.d

/-- the capacity a rehash chooses (generated `rehashSize`) exceeds twice the live count plus two: after a rehash at
least half of the buckets are empty -/
theorem rehash_has_room (count : Nat) : 2 * count + 2 < rehashSize count := by
  unfold rehashSize
  exact tablen_gt _

/-- non-vacuity: a table with two colliding keys, a tombstone and a rehash behind it satisfies the hypotheses -/
example : (run (fun _ => 7) (Table.init 0)
    [.put (.key 1) 5, .put (.key 2) 6, .put (.key 3) 7, .remove 2, .put (.key 4) 1, .put (.key 1) 0]).bad = false := by decide

/-! ## sequences: index and range decoding never yields an out-of-range position -/
open JanetModel.Seq JanetModel.Gen.Seq

/-- `getter_checkint`: an accepted index is within `[0, max)` -/
theorem no_oob_in (key : Arg) (max : Int) (i : Int) (hi : getterCheckint key max = some i) : 0 ≤ i ∧ i < max := by
  unfold getterCheckint at hi
  cases key with
  | int n =>
    simp only [] at hi
    by_cases c1 : n < 0
    · rw [if_pos c1] at hi; cases hi
    · rw [if_neg c1] at hi
      by_cases c2 : n ≥ max
      · rw [if_pos c2] at hi; cases hi
      · rw [if_neg c2] at hi; cases hi; omega
  | nil => cases hi
  | bad => cases hi

/-- `janet_in` on an array: an error or an in-range read -/
theorem no_oob_get (a : Arr) (key : Arg) : a.in key = .err ∨ ∃ i : Int, 0 ≤ i ∧ i < a.count ∧ a.in key = .val (a.cells.getD i.toNat none) := by
  unfold Arr.in
  cases hc : getterCheckint key a.count with
  | none => left; rfl
  | some i => right; exact ⟨i, (no_oob_in key _ i hc).1, (no_oob_in key _ i hc).2, rfl⟩

/-- `janet_gethalfrange`: an accepted position is within `[0, length]` -/
theorem no_oob_halfrange (a : Arg) (length r : Int) (hr : getHalfRange a length = some r) : 0 ≤ r ∧ r ≤ length := by
  unfold getHalfRange at hr
  cases hg : getInteger a with
  | none => rw [hg] at hr; cases hr
  | some raw =>
    rw [hg] at hr
    simp only [] at hr
    by_cases c : (if raw < 0 then raw + (length + 1) else raw) < 0 ∨ (if raw < 0 then raw + (length + 1) else raw) > length
    · rw [if_pos c] at hr; cases hr
    · rw [if_neg c] at hr; cases hr; omega

/-- `janet_getslice`: `0 ≤ start ≤ end ≤ length` -/
theorem no_oob_slice (length : Int) (hl : 0 ≤ length) (s e : Option Arg) (st en : Int)
    (h : getSlice length s e = some (st, en)) : 0 ≤ st ∧ st ≤ en ∧ en ≤ length := by
  unfold getSlice at h
  cases hs : getStartRange s length with
  | none => rw [hs] at h; cases h
  | some st' =>
    rw [hs] at h
    simp only [] at h
    cases he : getEndRange e length with
    | none => rw [he] at h; cases h
    | some en' =>
      rw [he] at h
      simp only [Option.some.injEq, Prod.mk.injEq] at h
      have hst : 0 ≤ st' ∧ st' ≤ length := by
        unfold getStartRange at hs
        cases s with
        | none => cases hs; exact ⟨Int.le_refl 0, hl⟩
        | some x =>
          cases x with
          | nil => cases hs; exact ⟨Int.le_refl 0, hl⟩
          | int n => exact no_oob_halfrange _ _ _ hs
          | bad => exact no_oob_halfrange _ _ _ hs
      have hen : 0 ≤ en' ∧ en' ≤ length := by
        unfold getEndRange at he
        cases e with
        | none => cases he; exact ⟨hl, Int.le_refl _⟩
        | some x =>
          cases x with
          | nil => cases he; exact ⟨hl, Int.le_refl _⟩
          | int n => exact no_oob_halfrange _ _ _ he
          | bad => exact no_oob_halfrange _ _ _ he
      obtain ⟨h1, h2⟩ := h
      by_cases c : en' < st'
      · rw [if_pos c] at h2; omega
      · rw [if_neg c] at h2; omega

/-- `array/remove` (shape of the clamp read off the current source, Gen/Seq.lean): never undefined behaviour.
Goes through only for the overflow-safe clamp `n > array->count - at`. -/
theorem aremove_no_ub (a : Arr) (pos : Arg) (n : Option Arg) : (a.remove pos n).2 ≠ .ub := by
  unfold Arr.remove Arr.removeWith
  simp only [removeClampNoOverflow]
  cases getInteger pos with
  | none => simp
  | some p =>
    simp only []
    by_cases c1 : (if p < 0 then (a.count : Int) + p else p) < 0 ∨ (if p < 0 then (a.count : Int) + p else p) > a.count
    · rw [if_pos c1]; simp
    · rw [if_neg c1]
      cases removeCount n with
      | none => simp
      | some m => simp

/-- the other recognised shape `at + n > array->count` overflows: witness -/
theorem aremove_overflow_ub :
    (Arr.removeWith false ⟨3, 3, #[some 1, some 2, some 3]⟩ (.int 1) (some (.int 2147483647))).2 = .ub := by decide

/-- `janet_putindex` (shape read off the current source): the gap between the old count and the index is filled -/
theorem putindex_fills_gap : putindexFillsArrayGap = true ∧ putindexFillsBufferGap = true := by decide

/-- without the fill, cells below `count` are never written: witness -/
theorem putindex_gap_uninit : (Arr.putindexWith false (Arr.new 0) 2 5).1.items = [none, none, some 5] := by decide

example : (Arr.putindexWith true (Arr.new 0) 2 5).1.items = [some 0, some 0, some 5] := by decide

end JanetModel.Props.C04
