/-
C04 — tables, structs, arrays and buffers behave as maps and sequences.  Property theorems only
(models: Table/Model.lean, Seq/Model.lean; lemmas: Table/Lemmas.lean; generated data: Gen/Table.lean, Gen/Seq.lean).

Tables.  `Inv h t` = the structural invariant of the bucket array (no duplicate keys; probe-path property: no empty
bucket between a key's home bucket and its bucket, cyclically; stored values are non-nil) + "no NULL bucket was
dereferenced".  The abstraction of a table is the function `k ↦ rawget t k` (nil = absent), so "putting nil removes"
is part of the map update itself.  All theorems are for every hash function `h`, every table satisfying the
invariant and every operation list.

`Inv` also carries the counting part (`count` = number of keys, `deleted` = number of tombstones, at least half of the
buckets empty), from which `no_null_deref` follows: `janet_dict_find` never returns NULL where table.c dereferences
its result, so none of the theorems needs a side condition on the run.
-/
import JanetModel.Table.Pow2
import JanetModel.Table.StructLemmas
import JanetModel.Table.StructBuild
import JanetModel.Table.StructDup
import JanetModel.Seq.BufOps

namespace JanetModel.Props.C04
open JanetModel.Table JanetModel.Gen.Table

/-! ## tables -/

/-- invariant of a table -/
structure Inv (h : Nat → Nat) (t : Table) : Prop where
  /-- no duplicate keys, probe-path property, stored values non-nil -/
  d : DInv h t.data
  /-- no NULL bucket was dereferenced -/
  ok : t.bad = false
  /-- count = #keys, deleted = #tombstones, 0 < capacity, 2 * (count + deleted) ≤ capacity -/
  c : CInv t

/-- the finite map a table stands for: key ↦ value, nil = absent -/
def abs (h : Nat → Nat) (t : Table) : Nat → Val := fun k => t.rawget h k

/-- operations of a history (clone is the identity on the value level; get / in / rawget / next / length do not
change the table) -/
inductive Op where
  | put (k : KArg) (v : Val)
  | remove (k : Nat)
  | clear
  | merge (kvs : List Slot)
  | setproto (p : Option Nat)

def step (h : Nat → Nat) (t : Table) : Op → Table
  | .put k v => t.put h k v
  | .remove k => (t.remove h k).1
  | .clear => t.clear
  | .merge kvs => t.mergekv h kvs
  | .setproto p => { t with proto := p }

def run (h : Nat → Nat) (t : Table) (ops : List Op) : Table := ops.foldl (step h) t

/-- reference semantics on finite maps -/
def upd (m : Nat → Val) (k : Nat) (v : Val) : Nat → Val := fun k' => if k' = k then v else m k'

def specStep (m : Nat → Val) : Op → (Nat → Val)
  | .put (.key k) v => upd m k v            -- a nil value erases
  | .put _ _ => m                            -- nil and NaN keys are ignored
  | .remove k => upd m k vNil
  | .clear => fun _ => vNil
  | .merge kvs => kvs.foldl (fun m kv => match kv.key with | some k => upd m k kv.val | none => m) m
  | .setproto _ => m

theorem inv_init (h : Nat → Nat) (n : Nat) : Inv h (Table.init n) :=
  ⟨DInv.replicate h _, rfl, CInv.init n⟩

theorem abs_init (h : Nat → Nat) (n : Nat) (k : Nat) : abs h (Table.init n) k = vNil :=
  rawget_miss (fun i => by
    show ¬ (slotAt (Array.replicate _ Slot.empty) i).key = some k
    rw [slotAt_replicate]; simp [Slot.empty])

theorem inv_clear (h : Nat → Nat) (t : Table) (inv : Inv h t) : Inv h t.clear :=
  ⟨DInv.replicate h _, inv.ok, inv.c.clear⟩

theorem abs_clear (h : Nat → Nat) (t : Table) (k : Nat) : abs h t.clear k = vNil :=
  rawget_miss (fun i => by
    show ¬ (slotAt (Array.replicate _ Slot.empty) i).key = some k
    rw [slotAt_replicate]; simp [Slot.empty])

theorem inv_clone (h : Nat → Nat) (t : Table) (inv : Inv h t) : Inv h t.clone :=
  ⟨inv.d, inv.ok, ⟨inv.c.cnt, inv.c.del, inv.c.shape, inv.c.pos, inv.c.room⟩⟩

theorem abs_clone (h : Nat → Nat) (t : Table) (k : Nat) : abs h t.clone k = abs h t k := rfl

theorem inv_remove (h : Nat → Nat) (t : Table) (inv : Inv h t) (k : Nat) : Inv h (t.remove h k).1 :=
  ⟨(remove_spec inv.d k).1, by rw [(remove_spec inv.d k).2.1]; exact inv.ok, remove_counts inv.d inv.c k⟩

theorem abs_remove (h : Nat → Nat) (t : Table) (inv : Inv h t) (k : Nat) :
    abs h (t.remove h k).1 = upd (abs h t) k vNil ∧ (t.remove h k).2 = abs h t k := by
  refine ⟨funext (fun k' => ?_), (remove_spec inv.d k).2.2.1⟩
  exact (remove_spec inv.d k).2.2.2 k'

/-- `janet_table_rehash` to any size with at least half of the buckets free keeps the invariant and the abstraction -/
theorem inv_rehash (h : Nat → Nat) (t : Table) (inv : Inv h t) (n : Nat) (hn : 2 * t.count ≤ n) (hpos : t.count < n) :
    Inv h (t.rehash h n) ∧ abs h (t.rehash h n) = abs h t := by
  have hc := rehash_counts (h := h) inv.d n (by rw [← inv.c.cnt]; exact hpos)
  have hs := rehash_spec (h := h) inv.d n
  have hb : (t.rehash h n).bad = false := by rw [hc.1]; exact inv.ok
  refine ⟨⟨hs.1, hb, ⟨?_, ?_, shape_of_nTomb_zero hc.2.2.1, ?_, ?_⟩⟩, funext (fun k => (hs.2.2 hb).2 k)⟩
  · rw [hc.2.2.2.1, hc.2.1]; exact inv.c.cnt
  · rw [hc.2.2.2.2, hc.2.2.1]
  · rw [hs.2.1]; omega
  · rw [hs.2.1, hc.2.2.2.1, hc.2.2.2.2]; omega

/-- **no NULL dereference**: from a state satisfying the invariant, `janet_table_put` never meets a NULL bucket -/
theorem no_null_deref (h : Nat → Nat) (t : Table) (inv : Inv h t) (k : KArg) (v : Val) : (t.put h k v).bad = false := by
  cases k with
  | nil => exact inv.ok
  | nan => exact inv.ok
  | key k =>
    show (t.putKey h k v).bad = false
    rw [(putKey_counts inv.d inv.c inv.ok k v).2]; exact inv.ok

theorem inv_put (h : Nat → Nat) (t : Table) (inv : Inv h t) (k : KArg) (v : Val) : Inv h (t.put h k v) := by
  have hb := no_null_deref h t inv k v
  cases k with
  | nil => exact inv
  | nan => exact inv
  | key k => exact ⟨(putKey_spec inv.d k v hb).1, hb, (putKey_counts inv.d inv.c inv.ok k v).1⟩

/-- `put` is the finite-map update; putting nil removes; nil / NaN keys are ignored -/
theorem abs_put (h : Nat → Nat) (t : Table) (inv : Inv h t) (k : KArg) (v : Val) :
    abs h (t.put h k v) = specStep (abs h t) (.put k v) := by
  have hb := no_null_deref h t inv k v
  cases k with
  | nil => rfl
  | nan => rfl
  | key k => exact funext (fun k' => (putKey_spec inv.d k v hb).2.2 k')

theorem inv_putKey (h : Nat → Nat) (t : Table) (inv : Inv h t) (k : Nat) (v : Val) :
    Inv h (t.putKey h k v) ∧ abs h (t.putKey h k v) = upd (abs h t) k v :=
  ⟨inv_put h t inv (.key k) v, abs_put h t inv (.key k) v⟩

theorem inv_merge (h : Nat → Nat) (kvs : List Slot) (t : Table) (inv : Inv h t) :
    Inv h (t.mergekv h kvs) ∧ abs h (t.mergekv h kvs) = specStep (abs h t) (.merge kvs) := by
  induction kvs generalizing t with
  | nil => exact ⟨inv, rfl⟩
  | cons kv rest ih =>
    have e : t.mergekv h (kv :: rest) = (match kv.key with | some k => t.putKey h k kv.val | none => t).mergekv h rest := rfl
    have e2 : specStep (abs h t) (.merge (kv :: rest)) =
        specStep (match kv.key with | some k => upd (abs h t) k kv.val | none => abs h t) (.merge rest) := rfl
    rw [e, e2]
    cases hk : kv.key with
    | none => simp only []; exact ih t inv
    | some k =>
      simp only []
      have hp := inv_putKey h t inv k kv.val
      have := ih (t.putKey h k kv.val) hp.1
      rw [← hp.2]
      exact this

theorem abs_merge (h : Nat → Nat) (kvs : List Slot) (t : Table) (inv : Inv h t) :
    abs h (t.mergekv h kvs) = specStep (abs h t) (.merge kvs) := (inv_merge h kvs t inv).2

/-- one step refines the reference step -/
theorem step_refines (h : Nat → Nat) (t : Table) (inv : Inv h t) (op : Op) :
    Inv h (step h t op) ∧ abs h (step h t op) = specStep (abs h t) op := by
  cases op with
  | put k v => exact ⟨inv_put h t inv k v, abs_put h t inv k v⟩
  | remove k => exact ⟨inv_remove h t inv k, (abs_remove h t inv k).1⟩
  | clear => exact ⟨inv_clear h t inv, funext (fun k => abs_clear h t k)⟩
  | merge kvs => exact inv_merge h kvs t inv
  | setproto p => exact ⟨⟨inv.d, inv.ok, ⟨inv.c.cnt, inv.c.del, inv.c.shape, inv.c.pos, inv.c.room⟩⟩, rfl⟩

/-- **Refinement, for all operation sequences**: from any table satisfying the invariant (in particular a fresh
one), after any list of operations the table satisfies the invariant — so no NULL bucket was dereferenced, `count` is
the number of keys, `deleted` the number of tombstones — and equals, as a map, the finite map obtained by replaying the
same puts and removals. -/
theorem inv_reachable (h : Nat → Nat) (ops : List Op) (t : Table) (inv : Inv h t) :
    Inv h (run h t ops) ∧ abs h (run h t ops) = ops.foldl specStep (abs h t) := by
  induction ops generalizing t with
  | nil => exact ⟨inv, rfl⟩
  | cons op rest ih =>
    have hs := step_refines h t inv op
    have := ih (step h t op) hs.1
    simp only [run, List.foldl_cons] at this ⊢
    rw [← hs.2]
    exact this

theorem abs_run (h : Nat → Nat) (ops : List Op) (n : Nat) (k : Nat) :
    (run h (Table.init n) ops).rawget h k = ops.foldl specStep (fun _ => vNil) k := by
  have := (inv_reachable h ops (Table.init n) (inv_init h n)).2
  have e : abs h (Table.init n) = fun _ => vNil := funext (fun k => abs_init h n k)
  rw [e] at this
  exact congrFun this k

/-- `length` (the `count` field) is the number of entries; `deleted` is the number of tombstones -/
theorem length_eq_card (h : Nat → Nat) (t : Table) (inv : Inv h t) :
    t.count = (keysOf t.data).length ∧ t.deleted = nTomb t.data ∧
      (keysOf t.data).Nodup ∧ ∀ k, k ∈ keysOf t.data ↔ abs h t k ≠ vNil := by
  refine ⟨?_, inv.c.del, (iterNext_all inv.d).2.1, (iterNext_all inv.d).2.2⟩
  rw [inv.c.cnt]
  unfold nLive keysOf
  rw [← Array.countP_toList, List.length_filterMap_eq_countP]
  rfl

/-- after any history from a fresh table: `length` = number of keys of the replayed map's support -/
theorem length_reachable (h : Nat → Nat) (ops : List Op) (n : Nat) :
    (run h (Table.init n) ops).count = (keysOf (run h (Table.init n) ops).data).length ∧
      (run h (Table.init n) ops).bad = false :=
  ⟨(length_eq_card h _ (inv_reachable h ops _ (inv_init h n)).1).1, (inv_reachable h ops _ (inv_init h n)).1.ok⟩

/-! ### constructors return a table without a prototype -/

theorem proto_remove (h : Nat → Nat) (t : Table) (k : Nat) : (t.remove h k).1.proto = t.proto := by
  unfold Table.remove
  cases hit t.data (dictFind h t.data k) <;> rfl

theorem proto_putKey (h : Nat → Nat) (t : Table) (k : Nat) (v : Val) : (t.putKey h k v).proto = t.proto := by
  unfold Table.putKey
  by_cases hv : v = vNil
  · simp only [hv, if_true]; exact proto_remove h t k
  · simp only [hv, if_false]
    cases hit t.data (dictFind h t.data k) with
    | some i => rfl
    | none =>
      simp only []
      unfold Table.insertNew Table.insertAt
      have h1 : (t.maybeRehash h (dictFind h t.data k)).proto = t.proto := by
        unfold Table.maybeRehash
        by_cases c : ((dictFind h t.data k).isNone || rehashNeeded t.count t.deleted t.capacity) = true
        · rw [if_pos c]; rfl
        · rw [if_neg c]
      cases dictFind h (t.maybeRehash h (dictFind h t.data k)).data k <;> simp [h1]

theorem proto_put (h : Nat → Nat) (t : Table) (k : KArg) (v : Val) : (t.put h k v).proto = t.proto := by
  cases k with
  | nil => rfl
  | nan => rfl
  | key k => exact proto_putKey h t k v

theorem proto_mergekv (h : Nat → Nat) (kvs : List Slot) (t : Table) : (t.mergekv h kvs).proto = t.proto := by
  induction kvs generalizing t with
  | nil => rfl
  | cons kv rest ih =>
    have e : t.mergekv h (kv :: rest) = (match kv.key with | some k => t.putKey h k kv.val | none => t).mergekv h rest := rfl
    rw [e, ih]
    cases kv.key with
    | none => rfl
    | some k => exact proto_putKey h t k kv.val

/-- only `table/setproto` changes the prototype link: `put`, `remove`, `clear`, `merge-into` keep it -/
theorem proto_step (h : Nat → Nat) (t : Table) (op : Op) (hs : ∀ p, op ≠ .setproto p) : (step h t op).proto = t.proto := by
  cases op with
  | put k v => exact proto_put h t k v
  | remove k => exact proto_remove h t k
  | clear => rfl
  | merge kvs => exact proto_mergekv h kvs t
  | setproto p => exact absurd rfl (hs p)

theorem mergeNew_eq_run (h : Nat → Nat) (colls : List (List Slot)) :
    mergeNew h colls = run h (Table.init 0) (colls.map Op.merge) := by
  unfold mergeNew run
  rw [List.foldl_map]
  rfl

/-- **boot.janet `merge` returns a table without a prototype**, whatever prototypes its arguments carry (the model
of `merge` is the shape the translator asserts on boot.janet: a fresh `@{}` filled by `put`) ... -/
theorem merge_proto_none (h : Nat → Nat) (colls : List (List Slot)) : (mergeNew h colls).proto = none := by
  have : ∀ (l : List (List Slot)) (t : Table), (l.foldl (fun t kvs => t.mergekv h kvs) t).proto = t.proto := by
    intro l
    induction l with
    | nil => intro t; rfl
    | cons kvs rest ih => intro t; simp only [List.foldl_cons]; rw [ih, proto_mergekv]
  unfold mergeNew
  rw [this]; rfl

/-- ... and is, as a map, the replay of its arguments' entries from the empty map (invariant included) -/
theorem merge_new_spec (h : Nat → Nat) (colls : List (List Slot)) :
    Inv h (mergeNew h colls) ∧ abs h (mergeNew h colls) = (colls.map Op.merge).foldl specStep (fun _ => vNil) := by
  rw [mergeNew_eq_run]
  have := inv_reachable h (colls.map Op.merge) (Table.init 0) (inv_init h 0)
  have e : abs h (Table.init 0) = fun _ => vNil := funext (fun k => abs_init h 0 k)
  rw [e] at this
  exact this

/-- `zipcoll`, `from-pairs`, `tabseq`: likewise a fresh table filled by `put`, hence no prototype -/
theorem fromPuts_proto_none (h : Nat → Nat) (kvs : List (KArg × Val)) : (fromPuts h kvs).proto = none := by
  have : ∀ (l : List (KArg × Val)) (t : Table), (l.foldl (fun t kv => t.put h kv.1 kv.2) t).proto = t.proto := by
    intro l
    induction l with
    | nil => intro t; rfl
    | cons kv rest ih => intro t; simp only [List.foldl_cons]; rw [ih, proto_put]
  unfold fromPuts
  rw [this]; rfl

/-- `table/proto-flatten` walks a bounded number of prototypes (the generated shape of its loop): it terminates on a
cyclic prototype chain -/
theorem flatten_terminates : flattenBounded = true := by decide

/-! ### capacity is a power of two -/

def IsPow2 (n : Nat) : Prop := ∃ e, n = 2 ^ e

/-- a fresh table (`janet_table(n)`, `n` an `int32_t`) has a power-of-two capacity -/
theorem capacity_pow2_init (n : Nat) (hn : n < 2 ^ 32) : IsPow2 (Table.init n).data.size := by
  obtain ⟨e, he⟩ := tablen_pow2 n hn
  exact ⟨e, by simp [Table.init, he]⟩

/-- every operation keeps the capacity a power of two, as long as the current capacity fits an `int32_t` (beyond that
the C overflows `2 * count + 2` anyway) -/
theorem capacity_pow2_step (h : Nat → Nat) (t : Table) (inv : Inv h t) (hp : IsPow2 t.data.size)
    (hs : t.data.size < 2 ^ 31) (op : Op) (hm : ∀ kvs, op ≠ .merge kvs) : IsPow2 (step h t op).data.size := by
  have hput : ∀ k v, IsPow2 (t.putKey h k v).data.size := by
    intro k v
    rcases size_putKey h t k v with e | e
    · rw [e]; exact hp
    · rw [e]
      have := inv.c.room
      obtain ⟨e', he'⟩ := tablen_pow2 (2 * t.count + 2) (by omega)
      exact ⟨e', by unfold rehashSize; exact he'⟩
  cases op with
  | put k v =>
    cases k with
    | nil => exact hp
    | nan => exact hp
    | key k => exact hput k v
  | remove k => show IsPow2 (t.remove h k).1.data.size; rw [size_remove]; exact hp
  | clear => show IsPow2 (Array.replicate t.data.size Slot.empty).size; simpa using hp
  | merge kvs => exact absurd rfl (hm kvs)
  | setproto p => exact hp

/-- `merge` is the corresponding sequence of puts, so the previous theorem covers it entry by entry -/
theorem merge_eq_puts (h : Nat → Nat) (kvs : List Slot) (t : Table) :
    step h t (.merge kvs) = run h t (kvs.filterMap (fun kv => kv.key.map (fun k => Op.put (.key k) kv.val))) := by
  induction kvs generalizing t with
  | nil => rfl
  | cons kv rest ih =>
    have e : step h t (.merge (kv :: rest)) = step h (match kv.key with | some k => t.putKey h k kv.val | none => t) (.merge rest) := rfl
    rw [e, ih]
    cases hk : kv.key with
    | none => simp [hk]
    | some k => simp [hk, run, step, Table.put]

/-! ### capacity is a power of two in every reachable state (session 3)

`count` grows by at most one per stored entry, so a bound on the number of entries a history can store bounds every
intermediate `2 * count + 2` below 2^32 — the only place the per-step theorem needed a size hypothesis.  The bound
2^30 is the C's own limit: beyond it `2 * count + 2` overflows `int32_t` in `janet_table_put`. -/

theorem count_remove_le (h : Nat → Nat) (t : Table) (k : Nat) : (t.remove h k).1.count ≤ t.count := by
  unfold Table.remove
  cases hit t.data (dictFind h t.data k) with
  | some i => simp only []; omega
  | none => exact Nat.le_refl _

theorem count_putKey_le (h : Nat → Nat) (t : Table) (k : Nat) (v : Val) : (t.putKey h k v).count ≤ t.count + 1 := by
  unfold Table.putKey
  by_cases hv : v = vNil
  · simp only [hv, if_true]; have := count_remove_le h t k; omega
  · simp only [hv, if_false]
    cases hit t.data (dictFind h t.data k) with
    | some i => simp only []; omega
    | none =>
      simp only []
      unfold Table.insertNew Table.insertAt
      have h1 : (t.maybeRehash h (dictFind h t.data k)).count = t.count := by
        unfold Table.maybeRehash
        by_cases c : ((dictFind h t.data k).isNone || rehashNeeded t.count t.deleted t.capacity) = true
        · rw [if_pos c]; rfl
        · rw [if_neg c]
      cases dictFind h (t.maybeRehash h (dictFind h t.data k)).data k with
      | none => simp only []; omega
      | some j => simp only []; omega

/-- `put` with a count bound instead of a size bound -/
theorem pow2_putKey (h : Nat → Nat) (t : Table) (hp : IsPow2 t.data.size) (hc : t.count < 2 ^ 31 - 1) (k : Nat) (v : Val) :
    IsPow2 (t.putKey h k v).data.size := by
  rcases size_putKey h t k v with e | e
  · rw [e]; exact hp
  · rw [e]
    obtain ⟨e', he'⟩ := tablen_pow2 (2 * t.count + 2) (by omega)
    exact ⟨e', by unfold rehashSize; exact he'⟩

theorem pow2_mergekv (h : Nat → Nat) (kvs : List Slot) : ∀ (t : Table), IsPow2 t.data.size →
    t.count + kvs.length < 2 ^ 31 - 1 →
    IsPow2 (t.mergekv h kvs).data.size ∧ (t.mergekv h kvs).count ≤ t.count + kvs.length := by
  induction kvs with
  | nil => intro t hp _; exact ⟨hp, Nat.le_refl _⟩
  | cons kv rest ih =>
    intro t hp hb
    have e : t.mergekv h (kv :: rest) = (match kv.key with | some k => t.putKey h k kv.val | none => t).mergekv h rest := rfl
    rw [e]
    simp only [List.length_cons] at hb ⊢
    cases hk : kv.key with
    | none =>
      simp only []
      have := ih t hp (by omega)
      exact ⟨this.1, by omega⟩
    | some k =>
      simp only []
      have hc := count_putKey_le h t k kv.val
      have := ih (t.putKey h k kv.val) (pow2_putKey h t hp (by omega) k kv.val) (by omega)
      exact ⟨this.1, by omega⟩

/-- number of entries an operation can add -/
def Op.weight : Op → Nat
  | .put _ _ => 1
  | .merge kvs => kvs.length
  | _ => 0

theorem pow2_step_bounded (h : Nat → Nat) (t : Table) (hp : IsPow2 t.data.size) (op : Op)
    (hb : t.count + op.weight < 2 ^ 31 - 1) :
    IsPow2 (step h t op).data.size ∧ (step h t op).count ≤ t.count + op.weight := by
  cases op with
  | put k v =>
    cases k with
    | nil => exact ⟨hp, by simp [step, Table.put]⟩
    | nan => exact ⟨hp, by simp [step, Table.put]⟩
    | key k =>
      simp only [Op.weight] at hb ⊢
      exact ⟨pow2_putKey h t hp (by omega) k v, count_putKey_le h t k v⟩
  | remove k =>
    refine ⟨?_, ?_⟩
    · show IsPow2 (t.remove h k).1.data.size; rw [size_remove]; exact hp
    · have := count_remove_le h t k; simp only [Op.weight]; exact this
  | clear =>
    refine ⟨?_, ?_⟩
    · show IsPow2 (Array.replicate t.data.size Slot.empty).size; simpa using hp
    · show (0 : Nat) ≤ _; omega
  | merge kvs => exact pow2_mergekv h kvs t hp hb
  | setproto p => exact ⟨hp, Nat.le_refl _⟩

/-- **capacity_pow2 for all reachable states**: from any table whose capacity is a power of two, after any list of
operations that can store fewer than 2^30 entries in total, the capacity is a power of two -/
theorem capacity_pow2_reachable (h : Nat → Nat) (ops : List Op) : ∀ (t : Table), IsPow2 t.data.size →
    t.count + (ops.map Op.weight).sum < 2 ^ 30 → IsPow2 (run h t ops).data.size := by
  induction ops with
  | nil => intro t hp _; exact hp
  | cons op rest ih =>
    intro t hp hb
    simp only [List.map_cons, List.sum_cons] at hb
    have hs := pow2_step_bounded h t hp op (by omega)
    have := ih (step h t op) hs.1 (by omega)
    simpa [run] using this

/-- ... in particular from a fresh table -/
theorem capacity_pow2_run (h : Nat → Nat) (ops : List Op) (n : Nat) (hn : n < 2 ^ 32)
    (hb : (ops.map Op.weight).sum < 2 ^ 30) : IsPow2 (run h (Table.init n) ops).data.size :=
  capacity_pow2_reachable h ops (Table.init n) (capacity_pow2_init n hn) (by simpa [Table.init] using hb)

/-- `rawget` reads exactly the bucket array: present key ↦ its value, absent key ↦ nil -/
theorem rawget_spec (h : Nat → Nat) (t : Table) (inv : Inv h t) (k : Nat) :
    (∀ i, (slotAt t.data i).key = some k → t.rawget h k = (slotAt t.data i).val ∧ t.rawget h k ≠ vNil) ∧
    ((∀ i, (slotAt t.data i).key ≠ some k) → t.rawget h k = vNil) :=
  ⟨fun i hi => ⟨rawget_hit inv.d hi, by rw [rawget_hit inv.d hi]; exact inv.d.live i k hi⟩, fun hno => rawget_miss hno⟩

/-- `get` / `in`: first hit along at most `JANET_MAX_PROTO_DEPTH` prototypes -/
theorem get_spec (h : Nat → Nat) (heap : Nat → Option Table) (hinv : ∀ r t, heap r = some t → Inv h t)
    (k : Nat) (fuel : Nat) (r : Nat) :
    getChain h heap k (fuel + 1) (some r) =
      match heap r with
      | none => vNil
      | some t => if t.rawget h k ≠ vNil then t.rawget h k else getChain h heap k fuel t.proto := by
  conv => lhs; unfold getChain
  cases hr : heap r with
  | none => rfl
  | some t =>
    simp only []
    have inv := hinv r t hr
    unfold Table.rawget
    cases hh : hit t.data (dictFind h t.data k) with
    | none => simp
    | some i =>
      simp only []
      have : (slotAt t.data i).key.isSome = true := by
        unfold hit at hh
        cases hf : dictFind h t.data k with
        | none => rw [hf] at hh; cases hh
        | some j =>
          rw [hf] at hh
          simp only [] at hh
          by_cases c : (slotAt t.data j).key.isSome = true
          · rw [if_pos c] at hh; cases hh; exact c
          · rw [if_neg c] at hh; cases hh
      obtain ⟨k', hk'⟩ := Option.isSome_iff_exists.mp this
      have := inv.d.live i k' hk'
      simp [this]

/-- the depth limit is the generated `JANET_MAX_PROTO_DEPTH` and the walk stops there -/
theorem get_depth_cutoff (h : Nat → Nat) (heap : Nat → Option Table) (k : Nat) (r : Option Nat) :
    getChain h heap k 0 r = vNil := by
  cases r <;> rfl

/-- only lookups consult the prototype: `rawget`, `next`, `length` do not depend on it (and `put` / `remove`
never read the field: it does not occur in their definitions) -/
theorem proto_irrelevant (h : Nat → Nat) (t : Table) (p : Option Nat) (k : Nat) :
    ({ t with proto := p }).rawget h k = t.rawget h k ∧
    dictNext h ({ t with proto := p }).data (some k) = dictNext h t.data (some k) ∧
    dictNext h ({ t with proto := p }).data none = dictNext h t.data none ∧
    ({ t with proto := p }).count = t.count :=
  ⟨rfl, rfl, rfl, rfl⟩

/-- **iteration visits every key exactly once**: `next` from nil, repeated until it answers nil, enumerates the keys
in bucket order; that list has no duplicates and contains exactly the keys present in the map -/
theorem next_visits_each_key_once (h : Nat → Nat) (t : Table) (inv : Inv h t) :
    iterNext h t.data (t.data.size + 1) none = keysOf t.data ∧ (keysOf t.data).Nodup ∧
      ∀ k, k ∈ keysOf t.data ↔ abs h t k ≠ vNil :=
  iterNext_all inv.d

/-- the capacity a rehash chooses (generated `rehashSize`) exceeds twice the live count plus two: after a rehash at
least half of the buckets are empty -/
theorem rehash_has_room (count : Nat) : 2 * count + 2 < rehashSize count := by
  unfold rehashSize
  exact tablen_gt _

/-- non-vacuity: a table with two colliding keys, a tombstone and a rehash behind it satisfies the hypotheses -/
example : (run (fun _ => 7) (Table.init 0)
    [.put (.key 1) 5, .put (.key 2) 6, .put (.key 3) 7, .remove 2, .put (.key 4) 1, .put (.key 1) 0]).deleted = 2 := by decide

/-! ## Session 3 — structs are finite maps; conversions between tables and structs

`SInv h s` (Table/StructLemmas.lean) = the bucket array of the struct satisfies the same structural invariant as a
table's (`DInv`) and has no tombstone.  Under it `janet_struct_find` reads the array exactly as `janet_dict_find`
does.  That the robin-hood insertion `janet_struct_put_ext` establishes `SInv` is NOT proved in this model (C03 has the
layout theorem in its own model of struct.c): it is a **checked certificate** — `checkSInv` / `certToStruct` are
executable, proved sound below, and `jm_c04` evaluates them on every struct a history builds (`mkstruct`, `withproto`,
`tostruct`, `freeze`), the very struct whose slot array is compared with the implementation's. -/

theorem struct_inv_of_check (h : Nat → Nat) (s : Struct) (hc : checkSInv h s.data = true) : SInv h s :=
  ⟨(checkSInv_sound h s.data hc).1, (checkSInv_sound h s.data hc).2⟩

/-- `struct/rawget` reads exactly the bucket array: present key ↦ its non-nil value, absent key ↦ nil -/
theorem struct_rawget_spec (h : Nat → Nat) (s : Struct) (inv : SInv h s) (k : Nat) :
    (∀ i, (slotAt s.data i).key = some k → s.rawget h k = (slotAt s.data i).val ∧ s.rawget h k ≠ vNil) ∧
    ((∀ i, (slotAt s.data i).key ≠ some k) → s.rawget h k = vNil) :=
  ⟨fun _ hi => struct_rawget_hit inv hi, fun hno => struct_rawget_miss inv hno⟩

/-- **struct lookups fall back along the struct prototype chain** (`janet_struct_get_ex`): the struct's own entry if
it has one, else the prototype's answer, for at most `JANET_MAX_PROTO_DEPTH` levels -/
theorem struct_get_spec (h : Nat → Nat) (heap : Nat → Option Struct) (hinv : ∀ r s, heap r = some s → SInv h s)
    (k : Nat) (fuel : Nat) (r : Nat) :
    structGetChain h heap k (fuel + 1) (some r) =
      match heap r with
      | none => vNil
      | some s => if s.rawget h k ≠ vNil then s.rawget h k else structGetChain h heap k fuel s.proto :=
  JanetModel.Table.struct_get_spec h heap hinv k fuel r

theorem struct_get_depth_cutoff (h : Nat → Nat) (heap : Nat → Option Struct) (k : Nat) (r : Option Nat) :
    structGetChain h heap k 0 r = vNil := JanetModel.Table.struct_get_depth_cutoff h heap k r

/-- **only lookups consult the struct prototype**: `struct/rawget`, `next`, `length` do not depend on it
(`struct/with-proto` = same entries, another link; `struct/getproto` = the link) -/
theorem struct_proto_irrelevant (h : Nat → Nat) (s : Struct) (p : Option Nat) (k : Nat) :
    ({ s with proto := p }).rawget h k = s.rawget h k ∧
    dictNext h ({ s with proto := p }).data (some k) = dictNext h s.data (some k) ∧
    dictNext h ({ s with proto := p }).data none = dictNext h s.data none ∧
    ({ s with proto := p }).length = s.length ∧ ({ s with proto := p }).proto = p :=
  ⟨rfl, rfl, rfl, rfl, rfl⟩

/-- iteration over a struct visits every key exactly once -/
theorem struct_next_visits_each_key_once (h : Nat → Nat) (s : Struct) (inv : SInv h s) :
    iterNext h s.data (s.data.size + 1) none = keysOf s.data ∧ (keysOf s.data).Nodup ∧
      ∀ k, k ∈ keysOf s.data ↔ s.rawget h k ≠ vNil := by
  have := iterNext_all inv.d
  refine ⟨this.1, this.2.1, ?_⟩
  intro k
  rw [struct_rawget_eq_dict inv k]
  exact this.2.2 k

theorem updKV_eq : (fun (m : Nat → Val) (kv : Slot) => match kv.key with | some k => upd m k kv.val | none => m) = updKV := by
  funext m kv
  unfold updKV upd
  cases kv.key <;> rfl

/-- **`struct/to-table`**: a table without prototype, satisfying the table invariant, with exactly the struct's map -/
theorem struct_to_table_spec (h : Nat → Nat) (s : Struct) (inv : SInv h s) (c : Nat) :
    Inv h (s.toTable h c) ∧ (s.toTable h c).proto = none ∧ ∀ k, abs h (s.toTable h c) k = s.rawget h k := by
  have hm := inv_merge h s.data.toList (Table.init c) (inv_init h c)
  refine ⟨hm.1, ?_, ?_⟩
  · show ((Table.init c).mergekv h s.data.toList).proto = none
    rw [proto_mergekv]; rfl
  · intro k
    show abs h ((Table.init c).mergekv h s.data.toList) k = _
    rw [hm.2]
    show (s.data.toList.foldl (fun m kv => match kv.key with | some k => upd m k kv.val | none => m) (abs h (Table.init c))) k = _
    rw [updKV_eq]
    by_cases ck : ∃ i, (slotAt s.data i).key = some k
    · obtain ⟨i, hi⟩ := ck
      rw [fold_buckets_hit inv.d _ hi, (struct_rawget_hit inv hi).1]
    · have hno : ∀ i, (slotAt s.data i).key ≠ some k := fun i hi => ck ⟨i, hi⟩
      rw [fold_buckets_miss _ hno, struct_rawget_miss inv hno]
      exact abs_init h c k

/-- **`table/to-struct`, certified**: when the certificate of a conversion checks (`certToStruct`, evaluated by the
model driver on every conversion of every history), the struct satisfies the struct invariant and is the same map -/
theorem to_struct_certified (h : Nat → Nat) (t : Table) (inv : Inv h t) (s : Struct) (hc : certToStruct h t s = true) :
    SInv h s ∧ ∀ k, s.rawget h k = abs h t k := by
  unfold certToStruct at hc
  rw [Bool.and_eq_true] at hc
  have si := struct_inv_of_check h s hc.1
  refine ⟨si, ?_⟩
  intro k
  rw [struct_rawget_eq_dict si k]
  exact (checkSameMap_sound inv.d si.d hc.2 k).symm

/-- **`thaw (freeze t)` / `struct/to-table (table/to-struct t)` has the same finite map** (and no prototype), for
every certified conversion -/
theorem thaw_freeze_same_map (h : Nat → Nat) (rank : Nat → Nat) (t : Table) (inv : Inv h t)
    (hc : certToStruct h t (t.toStruct h rank) = true) (c : Nat) :
    Inv h ((t.toStruct h rank).toTable h c) ∧ ((t.toStruct h rank).toTable h c).proto = none ∧
      abs h ((t.toStruct h rank).toTable h c) = abs h t := by
  have hs := to_struct_certified h t inv _ hc
  have ht := struct_to_table_spec h _ hs.1 c
  exact ⟨ht.1, ht.2.1, funext (fun k => by rw [ht.2.2 k, hs.2 k])⟩

/-- `table/rawget` / `table/getproto` / `table/setproto`: `rawget` ignores the link, `getproto` returns it -/
theorem table_rawget_ignores_proto (h : Nat → Nat) (t : Table) (p : Option Nat) (k : Nat) :
    (step h t (.setproto p)).rawget h k = t.rawget h k ∧ (step h t (.setproto p)).proto = p := ⟨rfl, rfl⟩

/-- non-vacuity: the certificate checks on a concrete conversion with colliding keys and a tombstone behind it -/
example : certToStruct (fun k => 7 * k) (run (fun k => 7 * k) (Table.init 0)
    [.put (.key 1) 5, .put (.key 9) 6, .put (.key 17) 7, .remove 9, .put (.key 4) 3])
    ((run (fun k => 7 * k) (Table.init 0)
    [.put (.key 1) 5, .put (.key 9) 6, .put (.key 17) 7, .remove 9, .put (.key 4) 3]).toStruct (fun k => 7 * k) id) = true := by decide

/-! ## Session 4 — `janet_struct_put_ext` establishes the struct invariant; conversions for all inputs

The certificate of session 3 is no longer needed for conversions: the robin-hood insertion loop keeps `DInv` / no
tombstone whatever its comparisons decide, provided the inserted key is not yet stored and `janet_compare` separates
distinct keys (`RankInj`; then the `status == 0` branch cannot fire).  `table/to-struct`, `struct/with-proto`, every
level of `freeze`, `thaw` and the round trips are finite-map identities for every table / struct satisfying its
invariant.  (Struct literals with a repeated key — the `status == 0` replace path — are covered by the ordering
invariant of session 4d below: `struct_last_value_wins`.) -/

/-- `janet_compare` separates distinct keys (C03's subject; the harness supplies the real ranks) -/
def RankInj (rank : Nat → Nat) : Prop := ∀ a b, rank a = rank b → a = b

/-- **`janet_struct_put_ext`**, new key: the struct under construction keeps its invariant (`BInv`: `DInv`, no
tombstone, running count = number of live buckets) and gains exactly that entry -/
theorem struct_put_establishes_inv (h : Nat → Nat) (rank : Nat → Nat) (hr : RankInj rank) (replace : Bool)
    (st : StructB) (key : Nat) (v : Val) (inv : BInv h st) (hno : ∀ x, (slotAt st.data x).key ≠ some key)
    (hv : v ≠ vNil) (hroom : st.filled < st.length) :
    BInv h (structPut h rank replace st key v) ∧ (structPut h rank replace st key v).filled = st.filled + 1 ∧
    (structPut h rank replace st key v).length = st.length ∧
    ∀ k v', Ent (structPut h rank replace st key v).data k v' ↔ ((k = key ∧ v' = v) ∨ Ent st.data k v') :=
  structPut_spec h rank hr replace st key v inv hno hv hroom

/-- a fresh `janet_struct_begin(count)` satisfies the construction invariant -/
theorem struct_begin_inv (h : Nat → Nat) (count : Nat) : BInv h (structBegin count) := BInv.begin h count

/-- **`table/to-struct`, for every table satisfying the invariant**: the struct satisfies the struct invariant, has
`length` = the table's count, no prototype, and is the same finite map -/
theorem to_struct_spec (h : Nat → Nat) (rank : Nat → Nat) (hr : RankInj rank) (t : Table) (inv : Inv h t) :
    SInv h (t.toStruct h rank) ∧ (t.toStruct h rank).length = t.count ∧ (t.toStruct h rank).proto = none ∧
    (∀ k, (t.toStruct h rank).rawget h k = abs h t k) ∧
    nLive (t.toStruct h rank).data = (t.toStruct h rank).length :=
  let r := toStruct_spec h rank hr t inv.d inv.c.cnt
  ⟨r.1, r.2.1, r.2.2.1, r.2.2.2.2.1, r.2.2.2.2.2⟩

/-- **`struct/to-table (table/to-struct t)`**: same finite map, no prototype, table invariant — no certificate -/
theorem struct_roundtrip_same_map (h : Nat → Nat) (rank : Nat → Nat) (hr : RankInj rank) (t : Table) (inv : Inv h t) (c : Nat) :
    Inv h ((t.toStruct h rank).toTable h c) ∧ ((t.toStruct h rank).toTable h c).proto = none ∧
      abs h ((t.toStruct h rank).toTable h c) = abs h t := by
  have hs := to_struct_spec h rank hr t inv
  have ht := struct_to_table_spec h _ hs.1 c
  exact ⟨ht.1, ht.2.1, funext (fun k => by rw [ht.2.2 k, hs.2.2.2.1 k])⟩

/-- **`struct/with-proto`** over the entries of a struct: same map, same length, the given prototype link -/
theorem with_proto_spec (h : Nat → Nat) (rank : Nat → Nat) (hr : RankInj rank) (s : Struct) (inv : SInv h s)
    (hl : s.length = nLive s.data) (p : Option Nat) :
    SInv h (s.withProto h rank p) ∧ (s.withProto h rank p).proto = p ∧ (s.withProto h rank p).length = s.length ∧
    (∀ k, (s.withProto h rank p).rawget h k = s.rawget h k) ∧
    (s.withProto h rank p).length = nLive (s.withProto h rank p).data := by
  have r := toStruct_spec h rank hr { count := s.length, deleted := 0, data := s.data } inv.d hl
  rw [withProto_eq]
  refine ⟨⟨r.1.d, r.1.nt⟩, rfl, r.2.1, ?_, r.2.2.2.2.2.symm⟩
  intro k
  have := r.2.2.2.2.1 k
  rw [struct_rawget_eq_dict inv k]
  exact this

theorem fromPuts_eq_run (h : Nat → Nat) (kvs : List (KArg × Val)) :
    fromPuts h kvs = run h (Table.init 0) (kvs.map (fun kv => Op.put kv.1 kv.2)) := by
  unfold fromPuts run
  rw [List.foldl_map]
  rfl

theorem specStep_puts (t : Table) (m : Nat → Val) :
    ((putsOf t).map (fun kv => Op.put kv.1 kv.2)).foldl specStep m = (liveOf t.data).foldl updKV m := by
  unfold putsOf
  generalize liveOf t.data = l
  induction l generalizing m with
  | nil => rfl
  | cons a rest ih =>
    simp only [List.map_cons, List.foldl_cons]
    rw [ih]
    congr 1
    unfold updKV
    cases a.key with
    | none => rfl
    | some k => rfl

/-- a fresh `@{}` filled by `put` with the entries of `t` in iteration order (boot.janet `walk-dict`, the `temp-tab` of
`freeze`, `tabseq [[k v] :pairs t] k v`): table invariant, no prototype, the same finite map -/
theorem fromPuts_putsOf_spec (h : Nat → Nat) (t : Table) (inv : Inv h t) :
    Inv h (fromPuts h (putsOf t)) ∧ (fromPuts h (putsOf t)).proto = none ∧ abs h (fromPuts h (putsOf t)) = abs h t := by
  refine ⟨?_, fromPuts_proto_none h _, ?_⟩
  · rw [fromPuts_eq_run]; exact (inv_reachable h _ _ (inv_init h 0)).1
  · rw [fromPuts_eq_run, (inv_reachable h _ _ (inv_init h 0)).2]
    rw [specStep_puts]
    unfold liveOf
    rw [foldl_updKV_filter]
    funext k
    by_cases ck : ∃ i, (slotAt t.data i).key = some k
    · obtain ⟨i, hi⟩ := ck
      rw [fold_buckets_hit inv.d _ hi]
      exact (rawget_hit inv.d hi).symm
    · have hno : ∀ i, (slotAt t.data i).key ≠ some k := fun i hi => ck ⟨i, hi⟩
      rw [fold_buckets_miss _ hno, abs_init]
      exact (rawget_miss hno).symm

/-- **`thaw`** of a (flattened) table with keys / values that thaw to themselves: a new table, no prototype, same map -/
theorem thaw_flat_spec (h : Nat → Nat) (t : Table) (inv : Inv h t) :
    Inv h (thawFlat h t) ∧ (thawFlat h t).proto = none ∧ abs h (thawFlat h t) = abs h t :=
  fromPuts_putsOf_spec h t inv

/-- **one level of `freeze`**: an immutable struct satisfying the struct invariant with the same finite map -/
theorem freeze_level_spec (h : Nat → Nat) (rank : Nat → Nat) (hr : RankInj rank) (t : Table) (inv : Inv h t) :
    SInv h (freezeLevel h rank t) ∧ (∀ k, (freezeLevel h rank t).rawget h k = abs h t k) ∧
    (freezeLevel h rank t).length = t.count := by
  have hp := fromPuts_putsOf_spec h t inv
  have hs := to_struct_spec h rank hr (fromPuts h (putsOf t)) hp.1
  refine ⟨hs.1, fun k => by rw [← hp.2.2]; exact hs.2.2.2.1 k, ?_⟩
  show ((fromPuts h (putsOf t)).toStruct h rank).length = t.count
  rw [hs.2.1, (length_eq_card h _ hp.1).1, (length_eq_card h t inv).1]
  have h1 := length_eq_card h _ hp.1
  have h2 := length_eq_card h t inv
  apply List.Perm.length_eq
  rw [List.perm_ext_iff_of_nodup h1.2.2.1 h2.2.2.1]
  intro k
  rw [h1.2.2.2 k, h2.2.2.2 k, hp.2.2]

/-- **`thaw (freeze t)`**: a mutable table again, with the same finite map and no prototype -/
theorem thaw_freeze_level_same_map (h : Nat → Nat) (rank : Nat → Nat) (hr : RankInj rank) (t : Table) (inv : Inv h t) (c : Nat) :
    Inv h (thawFlat h ((freezeLevel h rank t).toTable h c)) ∧ (thawFlat h ((freezeLevel h rank t).toTable h c)).proto = none ∧
    abs h (thawFlat h ((freezeLevel h rank t).toTable h c)) = abs h t := by
  have hf := freeze_level_spec h rank hr t inv
  have ht := struct_to_table_spec h _ hf.1 c
  have hw := thaw_flat_spec h _ ht.1
  exact ⟨hw.1, hw.2.1, by rw [hw.2.2]; exact funext (fun k => by rw [ht.2.2 k, hf.2.1 k])⟩

/-- **`janet_struct_end`** (including the rebuild when fewer entries arrived than announced): struct invariant, the
entries of the builder, `length` = number of live buckets, no prototype -/
theorem struct_end_spec (h : Nat → Nat) (rank : Nat → Nat) (hr : RankInj rank) (b : StructB) (inv : BInv h b) :
    SInv h (structEnd h rank b) ∧ (∀ k v, Ent (structEnd h rank b).data k v ↔ Ent b.data k v) ∧
    (structEnd h rank b).length = b.filled ∧ nLive (structEnd h rank b).data = (structEnd h rank b).length ∧
    (structEnd h rank b).proto = none :=
  structEnd_spec h rank hr b inv

/-- **struct literals / `struct` / `struct/with-proto` with pairwise distinct keys**: the struct invariant holds and
the entries are exactly the arguments whose value is not nil (a nil value drops the pair) -/
theorem struct_literal_spec (h : Nat → Nat) (rank : Nat → Nat) (hr : RankInj rank) (kvs : List (Nat × Val))
    (hd : kvs.Pairwise (fun s s' => s.1 ≠ s'.1)) (n : Nat) (hn : kvs.length ≤ n) :
    SInv h (structEnd h rank (putArgs h rank (structBegin n) kvs)) ∧
    (∀ k v, Ent (structEnd h rank (putArgs h rank (structBegin n) kvs)).data k v ↔ ((k, v) ∈ kvs ∧ v ≠ vNil)) ∧
    nLive (structEnd h rank (putArgs h rank (structBegin n) kvs)).data =
      (structEnd h rank (putArgs h rank (structBegin n) kvs)).length :=
  structLiteral_spec h rank hr kvs hd n hn

/-- non-vacuity: a literal with colliding keys and a nil value: two entries survive, the struct is rebuilt -/
example : (structEnd (fun k => 7 * k) id (putArgs (fun k => 7 * k) id (structBegin 3) [(1, 5), (9, 0), (17, 7)])).length = 2 := by decide

/-- non-vacuity: the hypotheses hold for a concrete table with colliding keys and a tombstone; the struct built from
it has the three entries -/
example : ((run (fun k => 7 * k) (Table.init 0)
    [.put (.key 1) 5, .put (.key 9) 6, .put (.key 17) 7, .remove 9, .put (.key 4) 3]).toStruct (fun k => 7 * k) id).length = 3 := by decide
example : RankInj id := fun _ _ e => e
example : (freezeLevel (fun k => 7 * k) id (run (fun k => 7 * k) (Table.init 0)
    [.put (.key 1) 5, .put (.key 9) 6, .put (.key 17) 7, .remove 9])).rawget (fun k => 7 * k) 17 = 7 := by decide

/-! ## Session 4d — the ordering invariant of the robin-hood layout; repeated keys (`status == 0`)

`OInv` (Table/StructDup.lean): every stored key, carried again from its home bucket, would pass over (`status == -1`)
every occupant it meets before its own bucket.  `janet_struct_put_ext` keeps it, and under it a stored key is met with
`status == 0` before any swap or empty bucket.  So a struct literal / `struct` / `struct/with-proto` argument list
that REPEATS keys needs no certificate either: it is the finite map in which the last non-nil value of a key wins. -/

/-- **`janet_struct_put_ext`, the `status == 0` path**: putting a key that is already stored (in bucket `p`) into a
struct under construction changes nothing but that bucket's value -/
theorem struct_put_existing_key (h : Nat → Nat) (rank : Nat → Nat) (st : StructB) (key : Nat) (v : Val) (p : Nat)
    (inv : OBInv h rank st) (hp : (slotAt st.data p).key = some key) (hv : v ≠ vNil) (hroom : st.filled < st.length) :
    structPut h rank true st key v = { st with data := st.data.setIfInBounds p ⟨some key, v⟩ } :=
  structPut_dup h rank st key v p inv hp hv hroom

/-- **`janet_struct_put_ext`, any key**: the construction invariant WITH the ordering of the layout (`OBInv`) is kept;
a new key is added, a stored key gets the new value, every other entry stays -/
theorem struct_put_any_key (h : Nat → Nat) (rank : Nat → Nat) (hr : RankInj rank)
    (st : StructB) (key : Nat) (v : Val) (inv : OBInv h rank st) (hv : v ≠ vNil) (hroom : st.filled < st.length) :
    OBInv h rank (structPut h rank true st key v) ∧
    (structPut h rank true st key v).filled ≤ st.filled + 1 ∧
    (structPut h rank true st key v).length = st.length ∧
    ∀ k v', Ent (structPut h rank true st key v).data k v' ↔ ((k = key ∧ v' = v) ∨ (k ≠ key ∧ Ent st.data k v')) :=
  structPut_any h rank hr st key v inv hv hroom

/-- a fresh `janet_struct_begin(count)` satisfies the construction invariant with ordering (`2 * count` fits the
`int32_t` capacity computation, as everywhere in struct.c) -/
theorem struct_begin_ordered (h : Nat → Nat) (rank : Nat → Nat) (count : Nat) (hc : 2 * count < 2 ^ 32) :
    OBInv h rank (structBegin count) := OBInv.begin h rank count hc

/-- **struct literals / `struct` / `struct/with-proto` with ANY arguments, repeated keys included**: the struct
invariant holds, `length` = number of live buckets, no prototype, and lookup gives the LAST non-nil value that the
argument list holds for the key (nil when there is none) -/
theorem struct_last_value_wins (h : Nat → Nat) (rank : Nat → Nat) (hr : RankInj rank)
    (kvs : List (Nat × Val)) (n : Nat) (hn : kvs.length ≤ n) (hc : 2 * n < 2 ^ 32) :
    SInv h (structEnd h rank (putArgs h rank (structBegin n) kvs)) ∧
    (∀ k, (structEnd h rank (putArgs h rank (structBegin n) kvs)).rawget h k = (litMap kvs (fun _ => none) k).getD vNil) ∧
    (∀ k v, Ent (structEnd h rank (putArgs h rank (structBegin n) kvs)).data k v ↔ litMap kvs (fun _ => none) k = some v) ∧
    nLive (structEnd h rank (putArgs h rank (structBegin n) kvs)).data =
      (structEnd h rank (putArgs h rank (structBegin n) kvs)).length ∧
    (structEnd h rank (putArgs h rank (structBegin n) kvs)).proto = none := by
  obtain ⟨r1, r2, r3, r4⟩ := structLiteral_any h rank hr kvs n hn hc
  refine ⟨r1, ?_, r2, r3, r4⟩
  intro k
  cases hm : litMap kvs (fun _ => none) k with
  | none =>
    rw [Option.getD_none]
    apply struct_rawget_miss r1
    intro i hi
    have := (r2 k _).mp ⟨i, hi, rfl⟩
    rw [hm] at this; cases this
  | some v =>
    rw [Option.getD_some]
    obtain ⟨i, hi, hv⟩ := (r2 k v).mpr hm
    rw [(struct_rawget_hit r1 hi).1, hv]

/-- non-vacuity: keys 1, 9, 17 collide (capacity 16, `h k = 7 * k`, all home bucket 7); key 1 and key 9 are repeated,
one repeat has a nil value (dropped): the last non-nil values win, three entries, the struct is rebuilt -/
example : let s := structEnd (fun k => 7 * k) id (putArgs (fun k => 7 * k) id (structBegin 6) [(1, 5), (9, 6), (1, 7), (17, 3), (9, 8), (1, 0)])
    (s.rawget (fun k => 7 * k) 1, s.rawget (fun k => 7 * k) 9, s.rawget (fun k => 7 * k) 17, s.length) = (7, 8, 3, 3) := by decide
example : litMap [(1, 5), (9, 6), (1, 7), (17, 3), (9, 8), (1, 0)] (fun _ => none) 1 = some 7 := by decide
/-- non-vacuity: `OBInv` (with the ordering invariant) holds for a builder holding colliding keys -/
example : OBInv (fun k => 7 * k) id (putArgs (fun k => 7 * k) id (structBegin 6) [(1, 5), (9, 6), (17, 3)]) :=
  (putArgs_any (fun k => 7 * k) id (fun _ _ e => e) [(1, 5), (9, 6), (17, 3)] (structBegin 6) (fun _ => none)
    (OBInv.begin _ _ 6 (by decide))
    (fun k v => ⟨fun hb => absurd hb (ent_replicate _ k v), fun hb => by cases hb⟩) (by decide)).1
example : nLive (putArgs (fun k => 7 * k) id (structBegin 6) [(1, 5), (9, 6), (17, 3)]).data = 3 := by decide

end JanetModel.Props.C04

namespace JanetModel.Props.C04
/-! ## sequences: index and range decoding never yields an out-of-range position -/
open JanetModel.Seq JanetModel.Gen.Seq

/-- `getter_checkint`: an accepted index is within `[0, max)` -/
theorem no_oob_in (key : Arg) (max : Int) (i : Int) (hi : getterCheckint key max = some i) : 0 ≤ i ∧ i < max := by
  unfold getterCheckint at hi
  cases key with
  | int n =>
    simp only [] at hi
    by_cases c1 : n < 0
    · rw [if_pos c1] at hi; cases hi
    · rw [if_neg c1] at hi
      by_cases c2 : n ≥ max
      · rw [if_pos c2] at hi; cases hi
      · rw [if_neg c2] at hi; cases hi; omega
  | nil => cases hi
  | bad => cases hi

/-- `janet_in` on an array: an error or an in-range read -/
theorem no_oob_get (a : Arr) (key : Arg) : a.in key = .err ∨ ∃ i : Int, 0 ≤ i ∧ i < a.count ∧ a.in key = .val (a.cells.getD i.toNat none) := by
  unfold Arr.in
  cases hc : getterCheckint key a.count with
  | none => left; rfl
  | some i => right; exact ⟨i, (no_oob_in key _ i hc).1, (no_oob_in key _ i hc).2, rfl⟩

/-- `janet_gethalfrange`: an accepted position is within `[0, length]` -/
theorem no_oob_halfrange (a : Arg) (length r : Int) (hr : getHalfRange a length = some r) : 0 ≤ r ∧ r ≤ length := by
  unfold getHalfRange at hr
  cases hg : getInteger a with
  | none => rw [hg] at hr; cases hr
  | some raw =>
    rw [hg] at hr
    simp only [] at hr
    by_cases c : (if raw < 0 then raw + (length + 1) else raw) < 0 ∨ (if raw < 0 then raw + (length + 1) else raw) > length
    · rw [if_pos c] at hr; cases hr
    · rw [if_neg c] at hr; cases hr; omega

/-- `janet_getslice`: `0 ≤ start ≤ end ≤ length` -/
theorem no_oob_slice (length : Int) (hl : 0 ≤ length) (s e : Option Arg) (st en : Int)
    (h : getSlice length s e = some (st, en)) : 0 ≤ st ∧ st ≤ en ∧ en ≤ length := by
  unfold getSlice at h
  cases hs : getStartRange s length with
  | none => rw [hs] at h; cases h
  | some st' =>
    rw [hs] at h
    simp only [] at h
    cases he : getEndRange e length with
    | none => rw [he] at h; cases h
    | some en' =>
      rw [he] at h
      simp only [Option.some.injEq, Prod.mk.injEq] at h
      have hst : 0 ≤ st' ∧ st' ≤ length := by
        unfold getStartRange at hs
        cases s with
        | none => cases hs; exact ⟨Int.le_refl 0, hl⟩
        | some x =>
          cases x with
          | nil => cases hs; exact ⟨Int.le_refl 0, hl⟩
          | int n => exact no_oob_halfrange _ _ _ hs
          | bad => exact no_oob_halfrange _ _ _ hs
      have hen : 0 ≤ en' ∧ en' ≤ length := by
        unfold getEndRange at he
        cases e with
        | none => cases he; exact ⟨hl, Int.le_refl _⟩
        | some x =>
          cases x with
          | nil => cases he; exact ⟨hl, Int.le_refl _⟩
          | int n => exact no_oob_halfrange _ _ _ he
          | bad => exact no_oob_halfrange _ _ _ he
      obtain ⟨h1, h2⟩ := h
      by_cases c : en' < st'
      · rw [if_pos c] at h2; omega
      · rw [if_neg c] at h2; omega

/-! ## arrays and buffers are resizable sequences

`a.Abs xs` (Seq/Lemmas.lean): the first `count` cells are initialised and hold exactly the list `xs`, the storage has
the size the `capacity` field says, and both fields fit `int32_t`.  Each theorem says: from a state representing `xs`
the operation either returns the error constructor (leaving the state alone) or succeeds in a state representing the
list-level result.  Growth factors, guards and gap fills are the generated ones (Gen/Seq.lean). -/

/-- **count ≤ capacity** (arrays: `max capacity 0`, array/new stores a negative capacity as given) -/
theorem arr_count_le_capacity (a : Arr) (xs : List Val) (h : a.Abs xs) : (a.count : Int) ≤ max a.capacity 0 := h.count_le
theorem buf_count_le_capacity (b : Buf) (xs : List Nat) (h : b.Abs xs) : (b.count : Int) ≤ b.capacity := h.count_le

/-- **no_overflow**: in every represented state count and capacity fit `int32_t`; since every operation below ends in
such a state or in the error constructor, no size computation leaves the type -/
theorem no_overflow (a : Arr) (xs : List Val) (h : a.Abs xs) : (a.count : Int) ≤ i32max ∧ a.capacity ≤ i32max :=
  ⟨h.count_fits, h.fits⟩

theorem abs_new (c : Int) (hc : c ≤ i32max) : (Arr.new c).Abs [] := Arr.new_abs c hc

theorem abs_push (a : Arr) (xs : List Val) (h : a.Abs xs) (x : Val) :
    ((a.count : Int) = i32max ∧ a.push x = (a, .err)) ∨
    ((a.count : Int) < i32max ∧ (a.push x).2 = .ok ∧ (a.push x).1.Abs (xs ++ [x])) := Arr.push_abs h x

theorem abs_cfun_push (a : Arr) (xs : List Val) (h : a.Abs xs) (ys : List Val) :
    ((a.cfunPush ys) = (a, .err) ∧ (xs.length + ys.length : Int) ≥ i32max) ∨
    ((a.cfunPush ys).2 = .ok ∧ (a.cfunPush ys).1.Abs (xs ++ ys)) := Arr.cfunPush_abs h ys

theorem abs_pop (a : Arr) (xs : List Val) (h : a.Abs xs) :
    (a.pop).1.Abs xs.dropLast ∧ (a.pop).2 = .val (some (xs.getLast?.getD vNil)) := Arr.pop_abs h

theorem abs_setcount (a : Arr) (xs : List Val) (h : a.Abs xs) (c : Int) (hc : c ≤ i32max) :
    (a.setcount c).2 = .ok ∧
    (a.setcount c).1.Abs (if c < 0 then xs else if c > xs.length then xs ++ List.replicate (c.toNat - xs.length) vNil else xs.take c.toNat) :=
  Arr.setcount_abs h c hc

theorem abs_insert (a : Arr) (xs : List Val) (h : a.Abs xs) (pos : Arg) (ys : List Val) :
    (a.insert pos ys = (a, .err)) ∨
    ∃ n p : Int, pos = .int n ∧ p = (if n < 0 then (xs.length : Int) + n + 1 else n) ∧ 0 ≤ p ∧ p ≤ xs.length ∧
      (a.insert pos ys).2 = .ok ∧ (a.insert pos ys).1.Abs (xs.take p.toNat ++ ys ++ xs.drop p.toNat) := Arr.insert_abs h pos ys

theorem abs_remove_seq (a : Arr) (xs : List Val) (h : a.Abs xs) (pos : Arg) (n : Option Arg) :
    (a.remove pos n = (a, .err)) ∨
    ∃ p m : Int, 0 ≤ p ∧ p ≤ xs.length ∧ 0 ≤ m ∧ p + m ≤ xs.length ∧
      (a.remove pos n).2 = .ok ∧ (a.remove pos n).1.Abs (xs.take p.toNat ++ xs.drop (p + m).toNat) := Arr.remove_abs h pos n

theorem abs_slice (xs : List Val) (hx : (xs.length : Int) ≤ i32max) (s e : Option Arg) :
    (sliceOf (xs.map some) s e = none ∧ getSlice xs.length s e = none) ∨
    ∃ st en r, getSlice xs.length s e = some (st, en) ∧ 0 ≤ st ∧ st ≤ en ∧ en ≤ xs.length ∧
      sliceOf (xs.map some) s e = some r ∧ r.Abs ((xs.drop st.toNat).take (en - st).toNat) := sliceOf_abs xs hx s e

theorem abs_fill (a : Arr) (xs : List Val) (h : a.Abs xs) (v : Val) :
    (a.fill v).2 = .ok ∧ (a.fill v).1.Abs (List.replicate xs.length v) := Arr.fill_abs h v

theorem abs_concat (ps : List SPart) (a : Arr) (xs : List Val) (h : a.Abs xs)
    (hb : ((specConcat xs ps).length : Int) ≤ i32max) :
    (a.concat (ps.map SPart.toPart)).2 = .ok ∧ (a.concat (ps.map SPart.toPart)).1.Abs (specConcat xs ps) :=
  Arr.concat_abs ps h hb

theorem abs_put_seq (a : Arr) (xs : List Val) (h : a.Abs xs) (key : Arg) (v : Val) :
    (a.put key v = (a, .err)) ∨
    ∃ i : Int, key = .int i ∧ 0 ≤ i ∧ i < i32max - 1 ∧ (a.put key v).2 = .ok ∧
      (a.put key v).1.Abs ((if i ≥ xs.length then xs ++ List.replicate (i.toNat + 1 - xs.length) vNil else xs).set i.toNat v) :=
  Arr.put_abs h key v

/-- `janet_putindex` (goes through only for the source shape that fills the gap) -/
theorem abs_putindex (a : Arr) (xs : List Val) (h : a.Abs xs) (index : Int) (v : Val) (h0 : 0 ≤ index) (h1 : index < i32max) :
    (a.putindex index v).2 = .ok ∧
    (a.putindex index v).1.Abs (if index ≥ xs.length then xs ++ List.replicate (index.toNat - xs.length) vNil ++ [v]
                                 else xs.set index.toNat v) := Arr.putindex_abs h index v h0 h1

theorem abs_trim (a : Arr) (xs : List Val) (h : a.Abs xs) : (a.trim).2 = .ok ∧ (a.trim).1.Abs xs := Arr.trim_abs h

/-- buffers: `janet_buffer_extra`'s overflow guard, push, setcount, popn, fill, blit -/
theorem buf_extra_guard (b : Buf) (xs : List Nat) (h : b.Abs xs) (n : Int) (hn : 0 ≤ n) :
    (n + b.count > i32max ∧ b.extra n = (b, .err)) ∨
    (n + b.count ≤ i32max ∧ (b.extra n).2 = .ok ∧ (b.extra n).1.Abs xs ∧ (b.count : Int) + n ≤ (b.extra n).1.capacity ∧
      (b.extra n).1.count = b.count) := Buf.extra_abs h n hn

theorem abs_buf_push (b : Buf) (xs : List Nat) (h : b.Abs xs) (ys : List Nat) :
    ((xs.length : Int) + ys.length > i32max ∧ b.pushBytes (ys.map some) = (b, .err)) ∨
    ((b.pushBytes (ys.map some)).2 = .ok ∧ (b.pushBytes (ys.map some)).1.Abs (xs ++ ys)) := Buf.pushBytes_abs h ys

theorem abs_buf_setcount (b : Buf) (xs : List Nat) (h : b.Abs xs) (c : Int) (hc : c ≤ i32max) :
    (b.setcount c).2 = .ok ∧
    (b.setcount c).1.Abs (if c < 0 then xs else if c > xs.length then xs ++ List.replicate (c.toNat - xs.length) 0 else xs.take c.toNat) :=
  Buf.setcount_abs h c hc

theorem abs_buf_popn (b : Buf) (xs : List Nat) (h : b.Abs xs) (n : Arg) :
    (b.popn n = (b, .err)) ∨
    ∃ m : Int, n = .int m ∧ 0 ≤ m ∧ (b.popn n).2 = .ok ∧ (b.popn n).1.Abs (xs.take (xs.length - m.toNat)) := Buf.popn_abs h n

theorem abs_buf_fill (b : Buf) (xs : List Nat) (h : b.Abs xs) (v : Int) :
    (b.fill (some (.int v))).2 = .ok ∧ (b.fill (some (.int v))).1.Abs (List.replicate xs.length (lowByte v)) := Buf.fill_abs h v

theorem abs_buf_blit (d : Buf) (xs : List Nat) (h : d.Abs xs) (ys : List Nat) (od os ls : Int)
    (hod : 0 ≤ od ∧ od ≤ xs.length) (hos : 0 ≤ os) (hls : 0 ≤ ls) (hsrc : os + ls ≤ ys.length) :
    (od + ls > i32max ∧ d.blitCore (some (ys.map some)) ys.length od os ls = (d, .err)) ∨
    ((d.blitCore (some (ys.map some)) ys.length od os ls).2 = .ok ∧
     (d.blitCore (some (ys.map some)) ys.length od os ls).1.Abs
       (xs.take od.toNat ++ (ys.drop os.toNat).take ls.toNat ++
        xs.drop (od.toNat + ((ys.drop os.toNat).take ls.toNat).length))) := Buf.blitCore_abs h ys od os ls hod hos hls hsrc

theorem abs_buf_blit_self (d : Buf) (xs : List Nat) (h : d.Abs xs) (od os ls : Int)
    (hod : 0 ≤ od ∧ od ≤ xs.length) (hos : 0 ≤ os) (hls : 0 ≤ ls) (hsrc : os + ls ≤ xs.length) :
    (od + ls > i32max ∧ d.blitCore none xs.length od os ls = (d, .err)) ∨
    ((d.blitCore none xs.length od os ls).2 = .ok ∧
     (d.blitCore none xs.length od os ls).1.Abs
       (xs.take od.toNat ++ (xs.drop os.toNat).take ls.toNat ++
        xs.drop (od.toNat + ((xs.drop os.toNat).take ls.toNat).length))) := Buf.blitCore_self_abs h od os ls hod hos hls hsrc

/-- array operations of a history (the cfuns and `put`; arguments are arbitrary, possibly ill-typed or out of range) -/
inductive AOp where
  | push (x : Val) | pop | insert (pos : Arg) (ys : List Val) | remove (pos : Arg) (n : Option Arg)
  | fill (v : Val) | put (key : Arg) (v : Val) | trim | clear
  -- session 3: array/push with several values, array/peek, and the two C-API entries with what their C types guarantee
  | cfunPush (ys : List Val) | peek | setcount (c : Int) (hc : c ≤ i32max)
  | putindex (i : Int) (v : Val) (h0 : 0 ≤ i) (h1 : i < i32max)

/-- one operation: new state and outcome -/
def astepR (a : Arr) : AOp → Arr × Outcome Val
  | .push x => a.push x
  | .pop => a.pop
  | .insert pos ys => a.insert pos ys
  | .remove pos n => a.remove pos n
  | .fill v => a.fill v
  | .put key v => a.put key v
  | .trim => a.trim
  | .clear => a.clear
  | .cfunPush ys => a.cfunPush ys
  | .peek => a.peek
  | .setcount c _ => a.setcount c
  | .putindex i v _ _ => a.putindex i v

def astep (a : Arr) (op : AOp) : Arr := (astepR a op).1

theorem step_push (a : Arr) (xs : List Val) (h : a.Abs xs) (x : Val) : ∃ zs, (a.push x).1.Abs zs := by
  rcases Arr.push_abs h x with ⟨_, e⟩ | ⟨_, _, hA⟩
  · exact ⟨xs, by rw [e]; exact h⟩
  · exact ⟨_, hA⟩
theorem step_insert (a : Arr) (xs : List Val) (h : a.Abs xs) (pos) (ys : List Val) : ∃ zs, (a.insert pos ys).1.Abs zs := by
  rcases Arr.insert_abs h pos ys with e | ⟨_, _, _, _, _, _, _, hA⟩
  · exact ⟨xs, by rw [e]; exact h⟩
  · exact ⟨_, hA⟩
theorem step_put (a : Arr) (xs : List Val) (h : a.Abs xs) (key) (v : Val) : ∃ zs, (a.put key v).1.Abs zs := by
  rcases Arr.put_abs h key v with e | ⟨_, _, _, _, _, hA⟩
  · exact ⟨xs, by rw [e]; exact h⟩
  · exact ⟨_, hA⟩
theorem step_remove (a : Arr) (xs : List Val) (h : a.Abs xs) (pos n) : ∃ zs, (a.remove pos n).1.Abs zs := by
  rcases Arr.remove_abs h pos n with e | ⟨_, _, _, _, _, _, _, hA⟩
  · exact ⟨xs, by rw [e]; exact h⟩
  · exact ⟨_, hA⟩

theorem step_cfunPush (a : Arr) (xs : List Val) (h : a.Abs xs) (ys : List Val) : ∃ zs, (a.cfunPush ys).1.Abs zs := by
  rcases Arr.cfunPush_abs h ys with ⟨e, _⟩ | ⟨_, hA⟩
  · exact ⟨xs, by rw [e]; exact h⟩
  · exact ⟨_, hA⟩

theorem step_peek (a : Arr) (xs : List Val) (h : a.Abs xs) : ∃ zs, (a.peek).1.Abs zs := by
  refine ⟨xs, ?_⟩
  unfold Arr.peek
  by_cases c : a.count ≠ 0
  · rw [if_pos c]; exact h
  · rw [if_neg c]; exact h

theorem step_setcount (a : Arr) (xs : List Val) (h : a.Abs xs) (c : Int) (hc : c ≤ i32max) : ∃ zs, (a.setcount c).1.Abs zs :=
  ⟨_, (Arr.setcount_abs h c hc).2⟩

theorem step_putindex (a : Arr) (xs : List Val) (h : a.Abs xs) (i : Int) (v : Val) (h0 : 0 ≤ i) (h1 : i < i32max) :
    ∃ zs, (a.putindex i v).1.Abs zs := ⟨_, (Arr.putindex_abs h i v h0 h1).2⟩

theorem astep_abs (a : Arr) (xs : List Val) (h : a.Abs xs) (op : AOp) : ∃ zs, (astep a op).Abs zs := by
  show ∃ zs, (astepR a op).1.Abs zs
  cases op with
  | push x => exact step_push a xs h x
  | pop => exact ⟨_, (Arr.pop_abs h).1⟩
  | insert pos ys => exact step_insert a xs h pos ys
  | remove pos n => exact step_remove a xs h pos n
  | fill v => exact ⟨_, (Arr.fill_abs h v).2⟩
  | put key v => exact step_put a xs h key v
  | trim => exact ⟨_, (Arr.trim_abs h).2⟩
  | clear => exact ⟨_, Arr.clear_abs h⟩
  | cfunPush ys => exact step_cfunPush a xs h ys
  | peek => exact step_peek a xs h
  | setcount c hc => exact step_setcount a xs h c hc
  | putindex i v h0 h1 => exact step_putindex a xs h i v h0 h1

/-- **for all operation sequences** on an array — whatever the arguments, ill-typed and out of range included — the
state stays a well-formed sequence: every cell below `count` is initialised, `count ≤ capacity`, both fit `int32_t`
(so no operation, successful or failing, leaves a state from which memory outside the storage could be reached) -/
theorem arr_inv_reachable (ops : List AOp) (a : Arr) (xs : List Val) (h : a.Abs xs) :
    ∃ ys, (ops.foldl astep a).Abs ys := by
  induction ops generalizing a xs with
  | nil => exact ⟨xs, h⟩
  | cons op rest ih =>
    obtain ⟨zs, hz⟩ := astep_abs a xs h op
    exact ih _ zs hz

/-- `array/ensure` with well-typed 32-bit arguments raises an error or succeeds — it never ends the process with
"janet out of memory" (goes through only for sources that validate `growth ≥ 1`) -/
theorem aensure_never_exits (a : Arr) (xs : List Val) (h : a.Abs xs) (c g : Arg)
    (hc : ∀ n, c = .int n → n ≤ i32max) : (a.cfunEnsure c g).2 ≠ .oom := by
  unfold Arr.cfunEnsure
  cases hcg : getInteger c with
  | none => simp
  | some cn =>
    cases hgg : getInteger g with
    | none => simp
    | some gn =>
      simp only []
      have hcn : cn ≤ i32max := by
        cases c with
        | int m => simp [getInteger] at hcg; rw [← hcg]; exact hc m rfl
        | nil => cases hcg
        | bad => cases hcg
      by_cases c1 : cn < 1
      · rw [if_pos c1]; simp
      · rw [if_neg c1]
        simp only [ensureChecksGrowth, Bool.true_and]
        by_cases c2 : gn < 1
        · simp [c2]
        · have hd : decide (gn < 1) = false := by simp [c2]
          rw [hd]
          simp only [Bool.false_eq_true, if_false]
          obtain ⟨a', he, _⟩ := Arr.ensure_abs h cn gn (by omega) (by omega) hcn
          rw [he]; simp

/-- non-vacuity: a concrete array state is represented -/
example : (Arr.new 2).Abs [] := Arr.new_abs 2 (by decide)

/-- `array/remove` (shape of the clamp read off the current source, Gen/Seq.lean): never undefined behaviour.
Goes through only for the overflow-safe clamp `n > array->count - at`. -/
theorem aremove_no_ub (a : Arr) (pos : Arg) (n : Option Arg) : (a.remove pos n).2 ≠ .ub := by
  unfold Arr.remove Arr.removeWith
  simp only [removeClampNoOverflow]
  cases getInteger pos with
  | none => simp
  | some p =>
    simp only []
    by_cases c1 : (if p < 0 then (a.count : Int) + p else p) < 0 ∨ (if p < 0 then (a.count : Int) + p else p) > a.count
    · rw [if_pos c1]; simp
    · rw [if_neg c1]
      cases removeCount n with
      | none => simp
      | some m => simp

/-- the other recognised shape `at + n > array->count` overflows: witness -/
theorem aremove_overflow_ub :
    (Arr.removeWith false { count := 3, capacity := 3, cells := #[some 1, some 2, some 3] } (.int 1) (some (.int 2147483647))).2 = .ub := by decide

/-- `janet_putindex` (shape read off the current source): the gap between the old count and the index is filled -/
theorem putindex_fills_gap : putindexFillsArrayGap = true ∧ putindexFillsBufferGap = true := by decide

/-- without the fill, cells below `count` are never written: witness -/
theorem putindex_gap_uninit : (Arr.putindexWith false (Arr.new 0) 2 5).1.items = [none, none, some 5] := by decide

example : (Arr.putindexWith true (Arr.new 0) 2 5).1.items = [some 0, some 0, some 5] := by decide


/-! ## Session 3 — buffers: every function of buffer.c that changes a buffer, `janet_put` / `janet_putindex` on
buffers, and the bit functions.

Shape of every statement: from a buffer representing the byte list `xs` (`b.Abs xs`), the operation either returns the
error constructor with the buffer **unchanged** (`= (b, .err)`), or succeeds in a state representing the list-level
result.  The push loops are the exception the C really has: an ill-typed argument / overflow in the middle raises the
error *after* the earlier arguments were pushed — the list-level semantics `specPush*` says exactly which bytes are
there then.  Since the result state satisfies `Abs` — all cells below `count` initialised, storage size = `capacity`,
`0 < capacity ≤ INT32_MAX` — and writes outside the storage are dropped by the model's `writeAt` / `setIfInBounds`
(so a dropped write would break `Rep`), each `abs_buf_*` theorem implies that the op's memory accesses were inside
the storage; the `no_oob_*` theorems state the ranges explicitly. -/

/-- **no_oob, push family**: after a successful `janet_buffer_extra(n)` the `n` cells from `count` on are inside the
storage — the range `janet_buffer_push_bytes/u8/u16/u32/u64` then write -/
theorem no_oob_push (b : Buf) (xs : List Nat) (h : b.Abs xs) (n : Int) (hn : 0 ≤ n) (hok : (b.extra n).2 = .ok) :
    (b.count : Int) + n ≤ (b.extra n).1.cells.size ∧ (b.extra n).1.count = b.count := by
  rcases Buf.extra_abs h n hn with ⟨_, he⟩ | ⟨_, _, hA, hroom, hcnt⟩
  · rw [he] at hok; cases hok
  · have := hA.cap; have := hA.pos
    exact ⟨by omega, hcnt⟩

theorem abs_buf_push_u8 (b : Buf) (xs : List Nat) (h : b.Abs xs) (v : Nat) :
    ((xs.length : Int) + 1 > i32max ∧ b.pushU8 v = (b, .err)) ∨
    ((b.pushU8 v).2 = .ok ∧ (b.pushU8 v).1.Abs (xs ++ [v])) := by
  rcases Buf.pushU8_absT h.toT v with ⟨hgt, he⟩ | ⟨_, hok, hA⟩
  · left; exact ⟨by simpa using hgt, he⟩
  · right; exact ⟨hok, hA.toAbs⟩

/-- `janet_buffer_push_u32`: four bytes, little endian -/
theorem abs_buf_push_u32 (b : Buf) (xs : List Nat) (h : b.Abs xs) (w : Nat) :
    ((xs.length : Int) + 4 > i32max ∧ b.pushU32 w = (b, .err)) ∨
    ((b.pushU32 w).2 = .ok ∧ (b.pushU32 w).1.Abs (xs ++ [w % 256, w / 256 % 256, w / 65536 % 256, w / 16777216 % 256])) := by
  rcases Buf.pushU32_absT h.toT w with ⟨hgt, he⟩ | ⟨_, hok, hA⟩
  · left; exact ⟨by simpa [wordBytes] using hgt, he⟩
  · right; exact ⟨hok, hA.toAbs⟩

/-- a buffer pushed onto itself (goes through only for the overflow-safe source shape): "buffer overflow" with the
buffer unchanged when twice the length exceeds INT32_MAX, else the contents doubled -/
theorem abs_buf_push_self (b : Buf) (xs : List Nat) (h : b.Abs xs) :
    ((xs.length : Int) + xs.length > i32max ∧ b.pushSelf = (b, .err)) ∨
    (b.pushSelf.2 = .ok ∧ b.pushSelf.1.Abs (xs ++ xs)) := by
  rcases Buf.pushSelf_absT h.toT with ⟨hgt, he⟩ | ⟨_, hok, hA⟩
  · left; exact ⟨hgt, he⟩
  · right; exact ⟨hok, hA.toAbs⟩

/-- shape obligation: the self-alias branch of `buffer_push_impl` / `cfun_buffer_chars` tests the new length in 64 bits -/
theorem bpush_self_no_ub : pushSelfNoOverflow = true := by decide

/-- the other recognised shape (`janet_buffer_ensure(buffer, buffer->count + view.len, 2)`) adds in `int32_t`: witness
(a buffer of 2^30 bytes pushed onto itself) -/
theorem bpush_self_overflow_ub :
    (Buf.pushSelfWith false { count := 1073741824, capacity := 1073741824, cells := #[] }).2 = .ub := by decide

/-- **buffer/push dispatch** (`buffer_push_impl`): outcome and contents are `specPush` — integers push their low byte,
byte sequences are appended, the buffer itself contributes its contents at that moment; the first ill-typed argument
or overflow stops the loop with the error, the earlier arguments stay pushed -/
theorem abs_buf_push_dispatch (b : Buf) (xs : List Nat) (h : b.Abs xs) (args : List BArg) :
    (b.pushImpl args).2 = (if (specPush xs args).2 then .ok else .err) ∧ (b.pushImpl args).1.Abs (specPush xs args).1 :=
  (Buf.pushImpl_absT args b xs [] h.toT).abs

theorem abs_buf_push_byte (b : Buf) (xs : List Nat) (h : b.Abs xs) (args : List BArg) :
    (b.pushByteArgs args).2 = (if (specPushByte xs args).2 then .ok else .err) ∧
      (b.pushByteArgs args).1.Abs (specPushByte xs args).1 :=
  (Buf.pushByteArgs_absT args b xs [] h.toT).abs

theorem abs_buf_push_string (b : Buf) (xs : List Nat) (h : b.Abs xs) (args : List BArg) :
    (b.pushStringArgs args).2 = (if (specPushStr xs args).2 then .ok else .err) ∧
      (b.pushStringArgs args).1.Abs (specPushStr xs args).1 :=
  (Buf.pushStringArgs_absT args b xs [] h.toT).abs

theorem abs_buf_push_word (b : Buf) (xs : List Nat) (h : b.Abs xs) (args : List WArg) :
    (b.pushWordArgs args).2 = (if (specPushWord xs args).2 then .ok else .err) ∧
      (b.pushWordArgs args).1.Abs (specPushWord xs args).1 :=
  (Buf.pushWordArgs_absT args b xs [] h.toT).abs

/-- all arguments well typed and the final length within `int32_t`: buffer/push succeeds and appends everything -/
example : specPush [1, 2] [.int 259, .bytes [7, 8], .self] = ([1, 2, 3, 7, 8, 1, 2, 3, 7, 8], true) := by decide
example : specPush [1, 2] [.int 5, .bad, .int 6] = ([1, 2, 5], false) := by decide

/-- **buffer/push-at**: index error ⇒ buffer unchanged; otherwise `specPushAt` (overwrite from the index, keep what
lies beyond the pushed bytes; on a failing argument the buffer ends after the last pushed byte) -/
theorem abs_buf_push_at (b : Buf) (xs : List Nat) (h : b.Abs xs) (index : Arg) (args : List BArg) :
    (b.pushAt index args = (b, .err) ∧ ∀ i : Int, index = .int i → i < 0 ∨ i > xs.length) ∨
    ∃ i : Int, index = .int i ∧ 0 ≤ i ∧ i ≤ xs.length ∧
      (b.pushAt index args).2 = (if (specPushAt xs i.toNat args).2 then .ok else .err) ∧
      (b.pushAt index args).1.Abs (specPushAt xs i.toNat args).1 := Buf.pushAt_abs h index args

example : specPushAt [1, 2, 3, 4, 5] 1 [.int 9, .bytes [8]] = ([1, 9, 8, 4, 5], true) := by decide
example : specPushAt [1, 2, 3] 2 [.bytes [7, 7, 7]] = ([1, 2, 7, 7, 7], true) := by decide
/-- observation (kept as a theorem about the model, confirmed on the implementation by the correspondence): a failing
argument of buffer/push-at leaves the buffer truncated after the last pushed byte -/
theorem pushat_error_truncates : specPushAt [1, 2, 3, 4, 5] 1 [.int 9, .bad] = ([1, 9], false) := by decide

theorem abs_buf_put (b : Buf) (xs : List Nat) (h : b.Abs xs) (key value : Arg) :
    (b.put key value = (b, .err)) ∨
    ∃ i v : Int, key = .int i ∧ value = .int v ∧ 0 ≤ i ∧ i < i32max - 1 ∧ (b.put key value).2 = .ok ∧
      (b.put key value).1.Abs
        ((if i ≥ xs.length then xs ++ List.replicate (i.toNat + 1 - xs.length) 0 else xs).set i.toNat (lowByte v)) :=
  Buf.put_abs h key value

theorem abs_buf_putindex (b : Buf) (xs : List Nat) (h : b.Abs xs) (index : Int) (value : Arg)
    (h0 : 0 ≤ index) (h1 : index < i32max) :
    (b.putindex index value = (b, .err) ∧ getInteger value = none) ∨
    ∃ v : Int, value = .int v ∧ (b.putindex index value).2 = .ok ∧
      (b.putindex index value).1.Abs (if index ≥ xs.length then xs ++ List.replicate (index.toNat - xs.length) 0 ++ [lowByte v]
                                       else xs.set index.toNat (lowByte v)) := Buf.putindex_abs h index value h0 h1

theorem abs_buf_trim (b : Buf) (xs : List Nat) (h : b.Abs xs) :
    (b.trim).2 = .ok ∧ (b.trim).1.Abs xs ∧
      (b.trim).1.capacity = (if (b.count : Int) < b.capacity then max (b.count : Int) bufferTrimMin else b.capacity) :=
  Buf.trim_abs h

theorem abs_buf_clear (b : Buf) (xs : List Nat) (h : b.Abs xs) : (b.clear).2 = .ok ∧ (b.clear).1.Abs [] := Buf.clear_abs h

theorem abs_buf_fill_all (b : Buf) (xs : List Nat) (h : b.Abs xs) (byte : Option Arg) :
    (byteArg byte = none ∧ b.fill byte = (b, .err)) ∨
    ∃ v, byteArg byte = some v ∧ (b.fill byte).2 = .ok ∧ (b.fill byte).1.Abs (List.replicate xs.length v) :=
  Buf.fill_abs_all h byte

theorem abs_buf_new_filled (count : Arg) (byte : Option Arg) (hc : ∀ n, count = .int n → n ≤ i32max) :
    (Buf.newFilled count byte = none ∧ (getInteger count = none ∨ byteArg byte = none)) ∨
    ∃ n v r, count = .int n ∧ byteArg byte = some v ∧ Buf.newFilled count byte = some r ∧
      r.Abs (List.replicate (max n 0).toNat v) := Buf.newFilled_abs count byte hc

theorem abs_buf_from_bytes (args : List Arg) (hl : (args.length : Int) ≤ i32max) :
    (Buf.fromBytes args = none ∧ getIntegers args = none) ∨
    ∃ ns r, getIntegers args = some ns ∧ ns.length = args.length ∧ Buf.fromBytes args = some r ∧ r.Abs (ns.map lowByte) :=
  Buf.fromBytes_abs args hl

theorem abs_buf_slice (xs : List Nat) (hx : (xs.length : Int) ≤ i32max) (s e : Option Arg) :
    (bsliceOf (xs.map some) s e = none ∧ getSlice xs.length s e = none) ∨
    ∃ st en r, getSlice xs.length s e = some (st, en) ∧ 0 ≤ st ∧ st ≤ en ∧ en ≤ xs.length ∧
      bsliceOf (xs.map some) s e = some r ∧ r.Abs ((xs.drop st.toNat).take (en - st).toNat) := bsliceOf_abs xs hx s e

/-- **no_oob, buffer/blit decoding**: whatever the three range arguments are, the decoded source range lies inside
the source and the destination offset inside `[0, count]` -/
theorem no_oob_blit_decode (dlen slen : Int) (hd : 0 ≤ dlen) (hs : 0 ≤ slen) (ds ss : Option Arg) (argc4 : Bool)
    (se : Option Arg) (od os ls : Int) (h : blitDecode dlen slen ds ss argc4 se = some (od, os, ls)) :
    0 ≤ od ∧ od ≤ dlen ∧ 0 ≤ os ∧ 0 ≤ ls ∧ os + ls ≤ slen := blitDecode_bounds dlen slen hd hs ds ss argc4 se od os ls h

/-- ... and after `janet_buffer_ensure(dest, last32, 2)` the destination range `[od, od + ls)` is inside the storage -/
theorem no_oob_blit_dest (d : Buf) (xs : List Nat) (h : d.Abs xs) (od ls : Int)
    (hfit : od + ls ≤ i32max) : ∃ d', d.ensure (od + ls) 2 = some d' ∧ od + ls ≤ d'.cells.size ∧ d'.Abs xs := by
  obtain ⟨d', he, hd', hcc, _⟩ := Buf.ensure_abs h (od + ls) 2 (by omega) hfit
  have := hd'.cap; have := hd'.pos
  exact ⟨d', he, by omega, hd'⟩

/-- **buffer/blit, complete** (decoding + alias guard + copy; `src = none` is the destination itself) -/
theorem abs_buf_blit_full (d : Buf) (xs : List Nat) (h : d.Abs xs) (src : Option (List Nat)) (ds ss : Option Arg)
    (argc4 : Bool) (se : Option Arg) :
    (d.blit (src.map (·.map some)) ds ss argc4 se = (d, .err)) ∨
    ∃ od os ls : Int, blitDecode xs.length (src.getD xs).length ds ss argc4 se = some (od, os, ls) ∧
      0 ≤ od ∧ od ≤ xs.length ∧ 0 ≤ os ∧ 0 ≤ ls ∧ os + ls ≤ (src.getD xs).length ∧ od + ls ≤ i32max ∧
      (d.blit (src.map (·.map some)) ds ss argc4 se).2 = .ok ∧
      (d.blit (src.map (·.map some)) ds ss argc4 se).1.Abs
        (xs.take od.toNat ++ ((src.getD xs).drop os.toNat).take ls.toNat ++
          xs.drop (od.toNat + (((src.getD xs).drop os.toNat).take ls.toNat).length)) := Buf.blit_abs h src ds ss argc4 se

/-- **no_oob, bit functions**: an accepted bit index addresses an initialised byte inside the storage -/
theorem no_oob_bitloc (b : Buf) (xs : List Nat) (h : b.Abs xs) (x : BitArg) (i bit : Nat) (hl : b.bitloc x = some (i, bit)) :
    i < b.count ∧ i < b.cells.size ∧ bit < 8 ∧ ∃ n : Int, x = .idx n ∧ 0 ≤ n ∧ n = 8 * (i : Int) + bit := by
  have hb := Buf.bitloc_bounds b x i bit hl
  have := h.rep.len_le; have := h.count_eq
  exact ⟨hb.1, by omega, hb.2.1, hb.2.2⟩

theorem abs_buf_bit_set (b : Buf) (xs : List Nat) (h : b.Abs xs) (x : BitArg) :
    (b.bitSet x = (b, .err) ∧ b.bitloc x = none) ∨
    ∃ i bit, b.bitloc x = some (i, bit) ∧ i < xs.length ∧ bit < 8 ∧ (b.bitSet x).2 = .ok ∧
      (b.bitSet x).1.Abs (xs.set i (xs.getD i 0 ||| (1 <<< bit))) := Buf.bitSet_abs h x

theorem abs_buf_bit_clear (b : Buf) (xs : List Nat) (h : b.Abs xs) (x : BitArg) :
    (b.bitClear x = (b, .err) ∧ b.bitloc x = none) ∨
    ∃ i bit, b.bitloc x = some (i, bit) ∧ i < xs.length ∧ bit < 8 ∧ (b.bitClear x).2 = .ok ∧
      (b.bitClear x).1.Abs (xs.set i (xs.getD i 0 &&& (255 ^^^ (1 <<< bit)))) := Buf.bitClear_abs h x

theorem abs_buf_bit_toggle (b : Buf) (xs : List Nat) (h : b.Abs xs) (x : BitArg) :
    (b.bitToggle x = (b, .err) ∧ b.bitloc x = none) ∨
    ∃ i bit, b.bitloc x = some (i, bit) ∧ i < xs.length ∧ bit < 8 ∧ (b.bitToggle x).2 = .ok ∧
      (b.bitToggle x).1.Abs (xs.set i (xs.getD i 0 ^^^ (1 <<< bit))) := Buf.bitToggle_abs h x

theorem abs_buf_bit_get (b : Buf) (xs : List Nat) (h : b.Abs xs) (x : BitArg) :
    (b.bitGet x = .err ∧ b.bitloc x = none) ∨
    ∃ i bit, b.bitloc x = some (i, bit) ∧ i < xs.length ∧ bit < 8 ∧
      b.bitGet x = .num (if xs.getD i 0 &&& (1 <<< bit) ≠ 0 then 1 else 0) := Buf.bitGet_abs h x

/-- buffer operations of a history; arguments arbitrary (ill-typed, out of range, negative, huge).  The two C-API
entries carry what their C types guarantee: `janet_buffer_setcount` takes an `int32_t`, `janet_putindex` is called
by the VM with a non-negative `int32_t` index below INT32_MAX -/
inductive BOp where
  | push (args : List BArg) | pushByte (args : List BArg) | pushString (args : List BArg) | pushWord (args : List WArg)
  | pushAt (index : Arg) (args : List BArg) | popn (n : Arg) | fill (byte : Option Arg) | trim | clear
  | put (key value : Arg) | blit (src : Option (List Nat)) (ds ss : Option Arg) (argc4 : Bool) (se : Option Arg)
  | bitSet (x : BitArg) | bitClear (x : BitArg) | bitToggle (x : BitArg)
  | setcount (c : Int) (hc : c ≤ i32max) | putindex (i : Int) (v : Arg) (h0 : 0 ≤ i) (h1 : i < i32max)

def bstep (b : Buf) : BOp → Buf × Outcome Nat
  | .push args => b.pushImpl args
  | .pushByte args => b.pushByteArgs args
  | .pushString args => b.pushStringArgs args
  | .pushWord args => b.pushWordArgs args
  | .pushAt index args => b.pushAt index args
  | .popn n => b.popn n
  | .fill byte => b.fill byte
  | .trim => b.trim
  | .clear => b.clear
  | .put key value => b.put key value
  | .blit src ds ss argc4 se => b.blit (src.map (·.map some)) ds ss argc4 se
  | .bitSet x => b.bitSet x
  | .bitClear x => b.bitClear x
  | .bitToggle x => b.bitToggle x
  | .setcount c _ => b.setcount c
  | .putindex i v _ _ => b.putindex i v

theorem bstep_case_err {b : Buf} {xs : List Nat} (h : b.Abs xs) {r : Buf × Outcome Nat} (e : r = (b, .err)) :
    ∃ zs, r.1.Abs zs ∧ (r.2 = .ok ∨ r.2 = .err) := by
  subst e; exact ⟨xs, h, Or.inr rfl⟩

theorem bstep_case_ok {r : Buf × Outcome Nat} {zs : List Nat} (hA : r.1.Abs zs) (ho : r.2 = .ok) :
    ∃ zs, r.1.Abs zs ∧ (r.2 = .ok ∨ r.2 = .err) := ⟨zs, hA, Or.inl ho⟩

theorem bstep_case_if {r : Buf × Outcome Nat} {zs : List Nat} {c : Bool} (hA : r.1.Abs zs)
    (ho : r.2 = if c then .ok else .err) : ∃ zs, r.1.Abs zs ∧ (r.2 = .ok ∨ r.2 = .err) := by
  refine ⟨zs, hA, ?_⟩
  cases c with
  | true => left; simpa using ho
  | false => right; simpa using ho

/-- one step: the result is again a represented byte sequence, and the outcome is success or a raised error — never
the out-of-memory exit and never undefined behaviour -/
theorem bstep_abs (b : Buf) (xs : List Nat) (h : b.Abs xs) (op : BOp) :
    ∃ zs, (bstep b op).1.Abs zs ∧ ((bstep b op).2 = .ok ∨ (bstep b op).2 = .err) := by
  cases op with
  | push args => have := abs_buf_push_dispatch b xs h args; exact bstep_case_if this.2 this.1
  | pushByte args => have := abs_buf_push_byte b xs h args; exact bstep_case_if this.2 this.1
  | pushString args => have := abs_buf_push_string b xs h args; exact bstep_case_if this.2 this.1
  | pushWord args => have := abs_buf_push_word b xs h args; exact bstep_case_if this.2 this.1
  | pushAt index args =>
    rcases Buf.pushAt_abs h index args with ⟨e, _⟩ | ⟨i, _, _, _, ho, hA⟩
    · exact bstep_case_err h e
    · exact bstep_case_if hA ho
  | popn n =>
    rcases Buf.popn_abs h n with e | ⟨m, _, _, ho, hA⟩
    · exact bstep_case_err h e
    · exact bstep_case_ok hA ho
  | fill byte =>
    rcases Buf.fill_abs_all h byte with ⟨_, e⟩ | ⟨v, _, ho, hA⟩
    · exact bstep_case_err h e
    · exact bstep_case_ok hA ho
  | trim => exact bstep_case_ok (Buf.trim_abs h).2.1 (Buf.trim_abs h).1
  | clear => exact bstep_case_ok (Buf.clear_abs h).2 (Buf.clear_abs h).1
  | put key value =>
    rcases Buf.put_abs h key value with e | ⟨i, v, _, _, _, _, ho, hA⟩
    · exact bstep_case_err h e
    · exact bstep_case_ok hA ho
  | blit src ds ss argc4 se =>
    rcases Buf.blit_abs h src ds ss argc4 se with e | ⟨od, os, ls, _, _, _, _, _, _, _, ho, hA⟩
    · exact bstep_case_err h e
    · exact bstep_case_ok hA ho
  | bitSet x =>
    rcases Buf.bitSet_abs h x with ⟨e, _⟩ | ⟨i, bit, _, _, _, ho, hA⟩
    · exact bstep_case_err h e
    · exact bstep_case_ok hA ho
  | bitClear x =>
    rcases Buf.bitClear_abs h x with ⟨e, _⟩ | ⟨i, bit, _, _, _, ho, hA⟩
    · exact bstep_case_err h e
    · exact bstep_case_ok hA ho
  | bitToggle x =>
    rcases Buf.bitToggle_abs h x with ⟨e, _⟩ | ⟨i, bit, _, _, _, ho, hA⟩
    · exact bstep_case_err h e
    · exact bstep_case_ok hA ho
  | setcount c hc => exact bstep_case_ok (Buf.setcount_abs h c hc).2 (Buf.setcount_abs h c hc).1
  | putindex i v h0 h1 =>
    rcases Buf.putindex_abs h i v h0 h1 with ⟨e, _⟩ | ⟨w, _, ho, hA⟩
    · exact bstep_case_err h e
    · exact bstep_case_ok hA ho

/-- **for all operation sequences on a buffer** — whatever the arguments — the state stays a well-formed byte
sequence (`count ≤ capacity`, storage of `capacity` cells, every byte below `count` initialised, both fields within
`int32_t`), and no operation of the sequence ended the process or executed undefined behaviour -/
theorem buf_inv_reachable (ops : List BOp) (b : Buf) (xs : List Nat) (h : b.Abs xs) :
    (∃ ys, (ops.foldl (fun b op => (bstep b op).1) b).Abs ys) ∧
    ∀ (pre : List BOp) (op : BOp) (post : List BOp), ops = pre ++ op :: post →
      (bstep (pre.foldl (fun b op => (bstep b op).1) b) op).2 = .ok ∨
      (bstep (pre.foldl (fun b op => (bstep b op).1) b) op).2 = .err := by
  have reach : ∀ (l : List BOp) (b : Buf) (xs : List Nat), b.Abs xs → ∃ ys, (l.foldl (fun b op => (bstep b op).1) b).Abs ys := by
    intro l
    induction l with
    | nil => intro b xs h; exact ⟨xs, h⟩
    | cons op rest ih =>
      intro b xs h
      obtain ⟨zs, hz, _⟩ := bstep_abs b xs h op
      exact ih _ zs hz
  refine ⟨reach ops b xs h, ?_⟩
  intro pre op post _
  obtain ⟨ys, hy⟩ := reach pre b xs h
  obtain ⟨_, _, ho⟩ := bstep_abs _ ys hy op
  exact ho

/-- non-vacuity: a fresh buffer is represented, and a history with failing ops keeps it so -/
example : (Buf.new 0).Abs [] := Buf.new_abs 0 (by decide)
example : ((bstep (bstep (Buf.new 0) (.push [.bytes [1, 2, 3]])).1 (.pushAt (.int 1) [.int 9, .bad])).1.items,
           (bstep (bstep (Buf.new 0) (.push [.bytes [1, 2, 3]])).1 (.pushAt (.int 1) [.int 9, .bad])).2) =
    ([some 1, some 9], .err) := by decide

/-! ## Session 3 — arrays: array/new-filled, array/peek, array/clear -/

theorem abs_new_filled (count : Arg) (x : Val) (hc : ∀ n, count = .int n → n ≤ i32max) :
    (Arr.newFilled count x = none ∧ ∀ n, count = .int n → n < 0) ∨
    ∃ n r, count = .int n ∧ 0 ≤ n ∧ Arr.newFilled count x = some r ∧ r.Abs (List.replicate n.toNat x) := by
  unfold Arr.newFilled
  cases count with
  | nil => left; exact ⟨rfl, fun n hn => by cases hn⟩
  | bad => left; exact ⟨rfl, fun n hn => by cases hn⟩
  | int n =>
    simp only []
    by_cases c : n < 0
    · left; rw [if_pos c]; exact ⟨rfl, fun m hm => by cases hm; exact c⟩
    · right
      rw [if_neg c]
      refine ⟨n, _, rfl, by omega, rfl, ⟨by simp, ?_, by simp, hc n rfl⟩⟩
      have := rep_toArray_map (List.replicate n.toNat x)
      simpa using this

theorem abs_peek (a : Arr) (xs : List Val) (h : a.Abs xs) :
    (a.peek).1 = a ∧ (a.peek).2 = .val (some (xs.getLast?.getD vNil)) := by
  have hp := Arr.pop_abs h
  unfold Arr.pop at hp
  unfold Arr.peek
  by_cases h0 : a.count ≠ 0
  · rw [if_pos h0] at hp ⊢; exact ⟨rfl, hp.2⟩
  · rw [if_neg h0] at hp ⊢; exact ⟨rfl, hp.2⟩

/-- **array/remove, exact decoding**: a negative index counts from the end (`-1` is the last element), the count
defaults to 1 and is clamped to what is left; everything else raises the error with the array unchanged -/
theorem abs_remove_exact (a : Arr) (xs : List Val) (h : a.Abs xs) (q : Int) (n : Option Arg) :
    let p : Int := if q < 0 then (xs.length : Int) + q else q
    (((p < 0 ∨ p > xs.length) ∨ removeCount n = none) ∧ a.remove (.int q) n = (a, .err)) ∨
    ∃ m0 : Int, 0 ≤ p ∧ p ≤ xs.length ∧ removeCount n = some m0 ∧ 0 ≤ m0 ∧ (a.remove (.int q) n).2 = .ok ∧
      (a.remove (.int q) n).1.Abs (xs.take p.toNat ++ xs.drop (p.toNat + (min m0 ((xs.length : Int) - p)).toNat)) :=
  Arr.remove_exact h q n

theorem abs_clear_seq (a : Arr) (xs : List Val) (h : a.Abs xs) : (a.clear).2 = .ok ∧ (a.clear).1.Abs [] :=
  ⟨rfl, Arr.clear_abs h⟩

/-- **array/join**: on arrays / tuples (an array passed to itself included) it appends every part in order, exactly as
array/concat; a part that is not indexed raises the error -/
theorem abs_join (ps : List SPart) (hno : ∀ p ∈ ps, ∀ v, p ≠ SPart.one v) (a : Arr) (xs : List Val) (h : a.Abs xs)
    (hb : ((specConcat xs ps).length : Int) ≤ i32max) :
    (a.join (ps.map SPart.toPart)).2 = .ok ∧ (a.join (ps.map SPart.toPart)).1.Abs (specConcat xs ps) :=
  Arr.join_abs ps hno h hb

theorem ajoin_not_indexed_err (a : Arr) (v : Val) (ps : List Part) : a.join (.one v :: ps) = (a, .err) := Arr.join_err a v ps

end JanetModel.Props.C04
