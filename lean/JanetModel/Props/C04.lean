/-
C04 — tables, structs, arrays and buffers behave as maps and sequences.  Property theorems only.
-/
import JanetModel.Table.Model
import JanetModel.Seq.Model

namespace JanetModel.Props.C04
end JanetModel.Props.C04
