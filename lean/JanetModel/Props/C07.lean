import JanetModel.Wait.EpochCount
import JanetModel.Wait.RoundRN
import JanetModel.Gen.Wait
import JanetModel.Gen.WaitCb
import JanetModel.Gen.WaitBoot
import JanetModel.Wait.GatherRef
/-
C07 — a suspended fiber is resumed only by what it is currently waiting for.

All theorems are about the model `JanetModel.Wait` (Wait/Model.lean), for ALL sequences of steps (`Op`): actions of any
fiber, of the kernel (stream readiness, process exit), of the clock, and the loop phases, in any order.
The model is parameterised by `Cfg` = which generation / status checks the C source has at which site; the check
regenerates `Gen.Wait.cfg` from the current source and kernel-checks `Gen.Wait.cfg.allChecked = true` separately
(on the originally pinned tree it was false: `popSkipsStale` and `closeChecks` are missing, see the two `*_unchecked` witnesses below).
-/
namespace JanetModel.Props.C07
open JanetModel.Wait

/-- ★ Every run-queue task that is executed for a fiber carries the fiber's current generation
(`expected_sched_id = sched_id`), and it was created by the completion / timeout / cancel of a registration whose recorded
generation was the fiber's generation at that moment (`regGen + 1 = expected`): between the creation of that registration
and this resume the fiber was scheduled exactly once — by this task.  So the registration belongs to the wait the fiber is
currently in. -/
theorem resume_only_by_current_wait (cfg : Cfg) (hc : cfg.allChecked = true) (ops : List Op) :
    ∀ e ∈ (run cfg init ops).log, e.task.expected = e.schedIdAtRun ∧ e.task.regGen + 1 = e.task.expected := by
  intro e he
  have := (run_inv cfg hc ops init_inv).l e he
  exact ⟨this.cur, this.gen⟩

/-- generation counter: never decreases, whatever happens and whichever checks are present … -/
theorem generation_monotone (cfg : Cfg) (w : World) (ops : List Op) (f : Nat) :
    (w.fibers f).schedId ≤ ((run cfg w ops).fibers f).schedId := run_Mono cfg ops w f

/-- … and strictly increases at every schedule (unless the CANCELED guard swallows the call entirely). -/
theorem generation_strictly_increases (cfg : Cfg) (hb : cfg.scheduleBumps = true) (w : World) (f : Nat) (v : Val) (e : Bool)
    (rg nb : Nat) (src : Src) (re : Nat) :
    schedule cfg w f v e rg nb src re = w ∨ ((schedule cfg w f v e rg nb src re).fibers f).schedId = (w.fibers f).schedId + 1 := by
  rcases schedule_bumps cfg hb w f v e rg nb src re with h | h
  · exact Or.inl h
  · exact Or.inr h.1

/-- registrations store the generation current at their creation -/
theorem registration_records_generation (cfg : Cfg) (w : World) (f c k d : Nat) (ch : Bool) (kind : TKind) :
    ((w.chans c).items = [] → ∃ p ∈ ((chanPop cfg w f c ch).1.chans c).rp,
        p.fiber = f ∧ p.schedId = (w.fibers f).schedId ∧ p.epoch = (w.fibers f).epoch) ∧
    (∃ t ∈ (addTimer cfg w f kind d).timers, t.fiber = f ∧ t.schedId = (w.fibers f).schedId ∧ t.start = w.now ∧
        t.epoch = (w.fibers f).epoch) ∧
    ((procWait w f k).procs k = some (f, (w.fibers f).schedId) ∧ (procWait w f k).procEpoch k = (w.fibers f).epoch) := by
  refine ⟨?_, ?_, ?_⟩
  · intro hi
    refine ⟨{ fiber := f, schedId := (w.fibers f).schedId, choice := ch, epoch := (w.fibers f).epoch }, ?_, rfl, rfl, rfl⟩
    simp [chanPop, hi]
  · refine ⟨_, (mem_insertTimer _ _ _).mpr (Or.inl rfl), rfl, rfl, rfl, rfl⟩
  · simp [procWait]

/-- once a registration of generation `g` is stale it stays stale: forever, under any configuration -/
theorem stale_forever (cfg : Cfg) (w : World) (f g : Nat) (h : g < (w.fibers f).schedId) (ops : List Op) :
    live (run cfg w ops) f g = false := by
  have := run_Mono cfg ops w f
  simp [live]
  omega

/-- ★ stale_inert.  A stale channel entry, timer, process-wait record or detached listener changes nothing:
(1) give: a stale reader at the head of `read_pending` is equivalent to its absence;
(2) take: a stale writer at the head of `write_pending` is equivalent to its absence;
(3) close: a stale entry is skipped;  (4) an expired stale sleep / timeout timer does nothing;
(5) exit of a process whose waiter moved on changes no fiber and no task;
(6) after a fiber was resumed (for whatever reason) it has no listener, and readiness of a stream whose fiber has no
    listener does nothing. -/
theorem stale_inert (cfg : Cfg) (hc : cfg.allChecked = true) (w : World) :
    (∀ f c x ch e rest, (w.chans c).rp = e :: rest → live w e.fiber e.schedId = false →
        chanPush cfg w f c x ch = chanPush cfg { w with chans := set w.chans c { (w.chans c) with rp := rest } } f c x ch) ∧
    (∀ c items e rest, (w.chans c).wp = e :: rest → live w e.fiber e.schedId = false →
        chanPopWake cfg w c items = chanPopWake cfg { w with chans := set w.chans c { (w.chans c) with wp := rest } } c items) ∧
    (∀ c e, live w e.fiber e.schedId = false → closeOne cfg c w e = w) ∧
    (∀ tm : Timer, (∀ b, tm.kind ≠ .deadline b) → live w tm.fiber tm.schedId = false → fireTimer cfg w tm = w) ∧
    (∀ k st f g, w.procs k = some (f, g) → live w f g = false →
        (procExit cfg w k st).fibers = w.fibers ∧ (procExit cfg w k st).queue = w.queue) ∧
    (∀ s r v e f, (if r then (w.streams s).readFiber else (w.streams s).writeFiber) = some f → (w.fibers f).listener = none →
        streamEvent cfg w s r v e = w) := by
  obtain ⟨-, htc, hps, hpp, hcl, hpc, -, -, -, -, -⟩ := allChecked_fields hc
  refine ⟨?_, ?_, ?_, ?_, ?_, ?_⟩
  · intro f c x ch e rest hrp hst
    unfold chanPush
    simp only [hps, hrp, popLive_stale_head w e rest hst, set_same, set_set]
    rw [popLive_congr true { w with chans := set w.chans c { (w.chans c) with rp := rest } } w rfl]
  · intro c items e rest hwp hst
    unfold chanPopWake
    simp only [hpp, hwp, popLive_stale_head w e rest hst, set_same, set_set]
    rw [popLive_congr true { w with chans := set w.chans c { (w.chans c) with wp := rest } } w rfl]
  · intro c e hst
    simp [closeOne, hcl, hst]
  · intro tm hk hst
    unfold fireTimer
    cases hkind : tm.kind with
    | deadline b => exact absurd hkind (hk b)
    | timeout => simp [htc, hst]
    | sleep => simp [htc, hst]
  · intro k st f g hp hst
    have hpe := allChecked_procErrCheck hc
    simp only [procExit, hp, hpc, hpe, hst]
    split <;> (try split) <;> simp
  · intro s r v e f hs hl
    simp [streamEvent, hs, hl]

/-- listeners are detached when their fiber is resumed by anything (janet_fiber_did_resume) -/
theorem listener_detached_on_resume (cfg : Cfg) (hc : cfg.allChecked = true) (w : World) (t : Task) (q : List Task)
    (hq : w.queue = t :: q) (hcur : t.expected = (w.fibers t.fiber).schedId) :
    ((runTask cfg w).fibers t.fiber).listener = none := by
  obtain ⟨hrf, -, -, -, -, -, -, hdr, -, -, -⟩ := allChecked_fields hc
  have hdf := allChecked_didResumeFirst hc
  simp [runTask, hq, hrf, hdr, hdf, hcur, asyncEnd_listener]

/-- ★ an item offered on a channel is not consumed by waiters that are no longer there: if every pending reader is stale,
the give behaves as on a channel without readers — the item is appended to `items`, nobody is scheduled, no fiber changes. -/
theorem item_not_consumed_by_absent_waiter (cfg : Cfg) (hc : cfg.allChecked = true) (w : World) (f c : Nat) (x : Val) (ch : Bool)
    (hall : ∀ e ∈ (w.chans c).rp, live w e.fiber e.schedId = false) :
    (((chanPush cfg w f c x ch).1.chans c).items = (w.chans c).items ++ [x]) ∧
    (chanPush cfg w f c x ch).1.queue = w.queue ∧ (chanPush cfg w f c x ch).1.fibers = w.fibers := by
  obtain ⟨-, -, hps, -, -, -, -, -, -, -, -⟩ := allChecked_fields hc
  unfold chanPush
  rw [hps, popLive_all_stale w _ hall]
  simp only
  by_cases hlen : ((w.chans c).items ++ [x]).length > (w.chans c).limit
  · rw [if_pos hlen]; simp
  · rw [if_neg hlen]; simp

/-- ★ the same for the event the loop pushes on a supervisor channel when a supervised task ends (`ev/go f v chan`): it is an item
on a channel — if every pending reader of that channel has left, the event is queued, nobody is scheduled, no fiber changes and (mode 2)
nobody is registered as a pending writer either. -/
theorem supervisor_event_not_consumed_by_absent_waiter (cfg : Cfg) (hc : cfg.allChecked = true) (w : World) (c : Nat) (x : Val)
    (hopen : (w.chans c).closed = false) (hall : ∀ e ∈ (w.chans c).rp, live w e.fiber e.schedId = false) :
    ((superPush cfg w c x).chans c).items = (w.chans c).items ++ [x] ∧ ((superPush cfg w c x).chans c).wp = (w.chans c).wp ∧
    (superPush cfg w c x).queue = w.queue ∧ (superPush cfg w c x).fibers = w.fibers := by
  obtain ⟨-, -, hps, -, -, -, -, -, -, -, -⟩ := allChecked_fields hc
  unfold superPush
  rw [hps, popLive_all_stale w _ hall]
  simp [hopen]

/-- a LIVE reader of the supervisor channel does receive the event -/
example :
    ((run Cfg.full init [.spawn 1, .run, .take 1 0 false, .superPush 0 (.sup 0 2), .run]).log.map
      (fun e => (e.fiber, e.task.value))) = [(1, .sup 0 2), (1, .nil)] := by decide

/-- ★ ev/sleep never returns early: a task created by the timer of `(ev/sleep d)` started at tick `s` is executed at a tick
`≥ s + round(1000·d)` (d given in microseconds; ticks are the code's own millisecond granularity). -/
theorem sleep_not_early (cfg : Cfg) (hc : cfg.allChecked = true) (ops : List Op) :
    ∀ e ∈ (run cfg init ops).log, ∀ s d, e.task.src = .sleep s d → s + (d + 500) / 1000 ≤ e.tick := by
  intro e he s d hs
  exact ((run_inv cfg hc ops init_inv).l e he).sl s d hs

/-- ★ a deadline fires only while the guarded body is resumable, and touches only the task it guards -/
theorem deadline_scoped (cfg : Cfg) (hc : cfg.allChecked = true) (w : World) (tm : Timer) (b : Nat) (hk : tm.kind = .deadline b) :
    (w.bodies b = false → fireTimer cfg w tm = w) ∧
    (∀ f, f ≠ tm.fiber → (fireTimer cfg w tm).fibers f = w.fibers f ∧
        ∀ t ∈ (fireTimer cfg w tm).queue, t.fiber = f → t ∈ w.queue) := by
  obtain ⟨-, -, -, -, -, -, hdc, -, -, -, -⟩ := allChecked_fields hc
  refine ⟨?_, ?_⟩
  · intro hb
    simp [fireTimer, hk, hdc, hb]
  · intro f hf
    unfold fireTimer
    rw [hk]
    simp only
    split
    · unfold schedule
      split
      · exact ⟨rfl, fun t ht _ => ht⟩
      · refine ⟨set_other _ _ _ _ hf, ?_⟩
        intro t ht htf
        simp only [List.mem_append, List.mem_singleton] at ht
        rcases ht with ht | ht
        · exact ht
        · subst ht; exact absurd htf (Ne.symm hf)
    · exact ⟨rfl, fun t ht _ => ht⟩

theorem popLive_of_any_live (w : World) (l : List Pending) (h : l.any (fun e => live w e.fiber e.schedId) = true) :
    ∃ e rest, popLive true w l = (some e, rest) := by
  induction l with
  | nil => simp at h
  | cons x xs ih =>
    by_cases hl : live w x.fiber x.schedId = true
    · exact ⟨x, xs, by simp [popLive, hl]⟩
    · have hx : xs.any (fun e => live w e.fiber e.schedId) = true := by simpa [hl] using h
      obtain ⟨e, rest, he⟩ := ih hx
      exact ⟨e, rest, by simp [popLive, hl, he]⟩

/-- ★ a select whose give clause is judged "ready" (room in the channel, or a LIVE pending reader) completes at once and
registers nothing: the fiber does not stay behind as a pending writer.  (With `hasReaderChecks = false` — any queued reader
entry counts — this fails: see `select_give_on_stale_readers_registers_when_unchecked`.) -/
theorem immediate_select_give_registers_nothing (cfg : Cfg) (hc : cfg.allChecked = true) (w : World) (f c : Nat) (x : Val)
    (hready : selectGiveReady cfg w c = true) :
    (chanPush cfg w f c x true).2 = false ∧ ((chanPush cfg w f c x true).1.chans c).wp = (w.chans c).wp := by
  have hps : cfg.pushSkipsStale = true := (allChecked_fields hc).2.2.1
  have hhr := allChecked_hasReader hc
  unfold chanPush
  rw [hps]
  cases hp : popLive true w (w.chans c).rp with
  | mk o rest =>
    cases o with
    | some r =>
      simp only
      refine ⟨trivial, ?_⟩
      unfold schedule
      split <;> simp
    | none =>
      simp only
      have hroom : (w.chans c).items.length < (w.chans c).limit := by
        simp only [selectGiveReady, hasReader, hhr, if_true, Bool.or_eq_true, decide_eq_true_eq] at hready
        rcases hready with h | h
        · exact h
        · obtain ⟨e, rest', he⟩ := popLive_of_any_live w _ h
          rw [he] at hp
          cases hp
      have : ¬ (((w.chans c).items ++ [x]).length > (w.chans c).limit) := by
        simp only [List.length_append, List.length_singleton]; omega
      rw [if_neg this]
      simp

/-- witness for a tree whose `janet_channel_has_reader` does not test staleness: channel 0 (unbuffered) holds one abandoned
reader entry; the select give of fiber 2 is judged ready, "completes", and yet fiber 2 stays registered as pending writer -/
theorem select_give_on_stale_readers_registers_when_unchecked :
    let cfg := { Cfg.full with hasReaderChecks := false }
    let w := run cfg init [.take 1 0 true, .cancel 1 (.err 2), .run]
    selectGiveReady cfg w 0 = true ∧ (chanPush cfg w 2 0 (.kw 7) true).2 = true ∧
      ((chanPush cfg w 2 0 (.kw 7) true).1.chans 0).wp.length = 1 := by decide

/-- ★ deadline_scoped at full strength: once the body guarded by a deadline has finished (`bodyDone`, i.e. its fiber reached
a dead / error status), the deadline is inert at EVERY later moment of EVERY continuation: firing it changes nothing.
That a finished fiber never becomes resumable again is the status monotonicity of fibers (Props/C05 `status_monotone`,
`finished_is_forever`); in this model it is part of the step relation (`bodyStart` on a finished body is a no-op). -/
theorem deadline_inert_after_body_finished (cfg : Cfg) (hc : cfg.allChecked = true) (ops1 ops2 : List Op) (b : Nat) (tm : Timer)
    (hk : tm.kind = .deadline b) (hdone : (run cfg init ops1).bodyDead b = true) :
    (run cfg (run cfg init ops1) ops2).bodies b = false ∧
    fireTimer cfg (run cfg (run cfg init ops1) ops2) tm = run cfg (run cfg init ops1) ops2 := by
  have h1 := (run_body cfg ops1 init init_BInv).1
  obtain ⟨h2, h3⟩ := run_body cfg ops2 _ h1
  have hb := h2 b (h3 b hdone)
  exact ⟨hb, (deadline_scoped cfg hc _ tm b hk).1 hb⟩

/-- the end of a with-deadline body marks it finished -/
theorem body_done_marks (cfg : Cfg) (w : World) (b : Nat) : (step cfg w (.bodyDone b)).bodyDead b = true := by
  simp [step]

/-- ★ sleep_not_early for the exact C expression `ts += (int64_t) round(delta * 1000)` on doubles.  `(ev/sleep δ)` with the
double `δ` sets its timer `cMs fl δ` ms ahead (`sleepOp`), where `fl` is the rounding of the double product; assuming only that
`fl` is monotone and leaves representable half-integers alone, the sleeper is resumed at a tick
`≥ start + round(1000·δ)` for the REAL value of δ — in particular `≥ start + ⌊1000·δ⌋`: no whole millisecond is lost. -/
theorem sleep_not_early_ieee (fl : ℚ → ℚ) (hmono : Monotone fl)
    (hfix : ∀ k : ℤ, |k| ≤ 2 ^ 53 → fl ((k : ℚ) / 2) = (k : ℚ) / 2)
    (δ : ℚ) (hrange : |2 * roundHalfUp (δ * 1000) - 1| ≤ 2 ^ 53)
    (cfg : Cfg) (hc : cfg.allChecked = true) (ops : List Op) :
    ∀ e ∈ (run cfg init ops).log, ∀ s, e.task.src = .sleep s (1000 * (cMs fl δ).toNat) →
      (s : ℤ) + roundHalfUp (δ * 1000) ≤ e.tick ∧ (s : ℤ) + ⌊δ * 1000⌋ ≤ e.tick := by
  intro e he s hs
  have h := sleep_not_early cfg hc ops e he s _ hs
  have hm : (1000 * (cMs fl δ).toNat + 500) / 1000 = (cMs fl δ).toNat := by omega
  rw [hm] at h
  have h1 := cMs_ge_exact fl hmono hfix δ hrange
  have h2 := cMs_ge_floor fl hmono hfix δ hrange
  have h3 : cMs fl δ ≤ ((cMs fl δ).toNat : ℤ) := Int.self_le_toNat _
  have h4 : ((s + (cMs fl δ).toNat : ℕ) : ℤ) ≤ (e.tick : ℤ) := by exact_mod_cast h
  push_cast at h4
  constructor <;> omega

/-- literal durations with microsecond digits: the double computation is at least the executable model's `deltaMs` -/
theorem cMs_ge_model (fl : ℚ → ℚ) (hmono : Monotone fl)
    (hfix : ∀ k : ℤ, |k| ≤ 2 ^ 53 → fl ((k : ℚ) / 2) = (k : ℚ) / 2) (us : ℕ) (hus : us ≤ 2 ^ 52) (cfg : Cfg)
    (hr : cfg.sleepRounds = true) : ((deltaMs cfg us : ℕ) : ℤ) ≤ cMs fl ((us : ℚ) / 1000000) := by
  have hrange : |2 * roundHalfUp ((us : ℚ) / 1000000 * 1000) - 1| ≤ 2 ^ 53 := by
    rw [roundHalfUp_us, abs_le]
    have : (us + 500) / 1000 ≤ 2 ^ 52 := by omega
    constructor <;> push_cast <;> omega
  have := cMs_ge_exact fl hmono hfix _ hrange
  rw [roundHalfUp_us] at this
  simpa [deltaMs, hr] using this

/-- ★ sleep_not_early on doubles with NO assumption about the rounding beyond the IEEE-754 definition of round-to-nearest:
`fl x` is a binary64 number nearest to `x` (any tie rule).  Monotonicity and exactness on representable half-integers — the two
hypotheses of `sleep_not_early_ieee` — are proved from that (`Wait/RoundRN.lean`: `IsRoundNearest.monotone`, `.fixes`,
`halfInt_isBinary64`), and such an `fl` exists (`exists_roundNearest`). -/
theorem sleep_not_early_rn (fl : ℚ → ℚ) (hfl : IsRoundNearest fl)
    (δ : ℚ) (hrange : |2 * roundHalfUp (δ * 1000) - 1| ≤ 2 ^ 53)
    (cfg : Cfg) (hc : cfg.allChecked = true) (ops : List Op) :
    ∀ e ∈ (run cfg init ops).log, ∀ s, e.task.src = .sleep s (1000 * (cMs fl δ).toNat) →
      (s : ℤ) + roundHalfUp (δ * 1000) ≤ e.tick ∧ (s : ℤ) + ⌊δ * 1000⌋ ≤ e.tick :=
  sleep_not_early_ieee fl hfl.monotone (fun k hk => hfl.fixes (halfInt_isBinary64 k hk)) δ hrange cfg hc ops

/-- the hypothesis of `sleep_not_early_rn` is satisfiable -/
theorem round_nearest_exists : ∃ fl : ℚ → ℚ, IsRoundNearest fl := exists_roundNearest

/-! ### The pinned tree: two sites lack the generation check — witnesses (replayed on the implementation by the check) -/

/-- configuration of the pinned tree: take does not skip stale writers, close does not compare generations -/
def cfgPinned : Cfg := { Cfg.full with popSkipsStale := false, closeChecks := false }

/-- fiber 1 gives on channel 0 (blocks), is cancelled, resumes, blocks taking from channel 1; fiber 2 takes from channel 0 -/
def witnessTake : List Op :=
  [.give 1 0 (.kw 7) false, .cancel 1 (.err 2), .run, .take 1 1 false, .take 2 0 false, .run]

/-- Without the check in `janet_channel_pop_with_lock` the invariant fails: fiber 1, blocked in `(ev/take ch1)`, is resumed
by its ABANDONED give on channel 0 (registration of generation 0, fiber already at generation 1) and receives channel 0. -/
theorem stale_writer_resumed_when_unchecked :
    ∃ e ∈ (run cfgPinned init witnessTake).log, e.fiber = 1 ∧ e.task.value = .chan 0 ∧ e.task.src = .chanWrite 0 ∧
      e.task.regGen + 1 ≠ e.task.expected := by
  decide

/-- with the check the same history resumes fiber 1 only for the cancellation -/
example : ∀ e ∈ (run Cfg.full init witnessTake).log, e.fiber = 1 → e.task.src = .cancel := by decide

/-- fiber 1 takes from channel 0 (blocks), is cancelled, resumes, blocks taking from channel 1; then channel 0 is closed -/
def witnessClose : List Op :=
  [.take 1 0 false, .cancel 1 (.err 2), .run, .take 1 1 false, .close 0, .run]

theorem stale_reader_resumed_by_close_when_unchecked :
    ∃ e ∈ (run cfgPinned init witnessClose).log, e.fiber = 1 ∧ e.task.value = .nil ∧ e.task.src = .chanClose 0 ∧
      e.task.regGen + 1 ≠ e.task.expected := by
  decide

example : ∀ e ∈ (run Cfg.full init witnessClose).log, e.fiber = 1 → e.task.src = .cancel := by decide

/-! ### "Current wait" in the property's own terms: epochs (Wait/Epoch.lean) -/

/-- ★ Every task that is executed for a fiber stems from a registration (pending channel entry, sleep / timeout timer,
process-wait record, stream listener) or request (cancel, spawn, deadline) that was made in the fiber's CURRENT epoch — after the
previous resume of that fiber — for all step sequences.  `epoch` counts the resumes of the fiber (ghost); each registration stores the
epoch of its fiber at its creation (`registration_records_generation`), each task inherits it (`regEpoch`).  Hence nothing a fiber
registered in a wait it has left — cancelled, timed out, satisfied through another select clause, or aborted by a schedule the fiber
issued on itself while running — ever resumes it again or supplies the value of a later wait.  Needs the generation bump at resume
(`resumeBumps`); without it `self_scheduled_wait_stays_live_without_resume_bump` is a counterexample. -/
theorem resumed_only_by_registration_of_current_wait (cfg : Cfg) (hc : cfg.allChecked = true) (ops : List Op) :
    ∀ e ∈ (run cfg init ops).log, e.task.regEpoch = e.epochAtRun :=
  fun e he => (run_E cfg hc ops init_EInv).lg e he

/-- the ghost epoch is what its name says — under ANY configuration and step sequence `epoch f` is the number of events of fiber `f`
in the log (resumes so far), and each event's `epochAtRun` is the number of earlier events of its fiber (Wait/EpochCount.lean) -/
theorem epoch_counts_resumes (cfg : Cfg) (ops : List Op) :
    (∀ f, ((run cfg init ops).fibers f).epoch = resumesOf f (run cfg init ops).log) ∧ LogOk (run cfg init ops).log :=
  ⟨(run_CInv cfg ops init_CInv).ep, (run_CInv cfg ops init_CInv).lg⟩

/-- ★ the two together, without ghost vocabulary in the conclusion: split the log (newest first) at any executed task `e`; the
registration or request `e` stems from was made when its fiber had been resumed exactly as often as it had been before `e` ran —
that is, after the fiber's previous resume and before this one. -/
theorem registration_made_since_previous_resume (cfg : Cfg) (hc : cfg.allChecked = true) (ops : List Op)
    (pre : List Event) (e : Event) (rest : List Event) (hsplit : (run cfg init ops).log = pre ++ e :: rest) :
    e.task.regEpoch = resumesOf e.fiber rest := by
  have h1 := resumed_only_by_registration_of_current_wait cfg hc ops e (by rw [hsplit]; simp)
  have h2 : LogOk (pre ++ e :: rest) := by rw [← hsplit]; exact (epoch_counts_resumes cfg ops).2
  rw [h1]; exact h2.at

/-- … and the records behind it: in every reachable world, a pending entry / timer / process-wait record whose generation is still
the fiber's current one was made in the fiber's current epoch, and so was any listener that is still attached. -/
theorem live_registration_is_of_current_epoch (cfg : Cfg) (hc : cfg.allChecked = true) (ops : List Op) :
    let w := run cfg init ops
    (∀ c, ∀ p ∈ (w.chans c).rp ++ (w.chans c).wp, live w p.fiber p.schedId = true → p.epoch = (w.fibers p.fiber).epoch) ∧
    (∀ tmr ∈ w.timers, live w tmr.fiber tmr.schedId = true → tmr.epoch = (w.fibers tmr.fiber).epoch) ∧
    (∀ k f g, w.procs k = some (f, g) → live w f g = true → w.procEpoch k = (w.fibers f).epoch) ∧
    (∀ k f g, w.thr k = some (f, g) → live w f g = true → w.thrEpoch k = (w.fibers f).epoch) ∧
    (∀ f, (w.fibers f).listener ≠ none → (w.fibers f).listenEpoch = (w.fibers f).epoch) := by
  intro w
  have h := run_E cfg hc ops init_EInv
  refine ⟨?_, ?_, ?_, ?_, h.ls⟩
  · intro c p hp hl
    have hl' : p.schedId = (w.fibers p.fiber).schedId := by simp [live] at hl; exact hl.symm
    rcases List.mem_append.mp hp with hp | hp
    · exact (h.rp c p hp).2 hl'
    · exact (h.wp c p hp).2 hl'
  · intro tmr hto hl
    have hl' : tmr.schedId = (w.fibers tmr.fiber).schedId := by simp [live] at hl; exact hl.symm
    exact (h.tm tmr hto).2 hl'
  · intro k f g hk hl
    have hl' : g = (w.fibers f).schedId := by simp [live] at hl; exact hl.symm
    exact (h.pr k f g hk).2 hl'
  · intro k f g hk hl
    have hl' : g = (w.fibers f).schedId := by simp [live] at hl; exact hl.symm
    exact (h.th k f g hk).2 hl'

/-- the completion of a worker thread (os/shell, ev/thread, ev/do-thread) whose waiter has moved on changes no fiber and no task -/
theorem stale_thread_completion_inert (cfg : Cfg) (hc : cfg.allChecked = true) (w : World) (k f g : Nat) (v : Val) (e : Bool)
    (hk : w.thr k = some (f, g)) (hst : live w f g = false) :
    (thrDone cfg w k v e).fibers = w.fibers ∧ (thrDone cfg w k v e).queue = w.queue := by
  have htc := allChecked_threadCheck hc
  simp [thrDone, hk, htc, hst]

/-- Witness (unfixed tree, found through the epoch theorem): fiber 1 awaits a threaded call, is cancelled, blocks on channel 1;
without a generation test in `janet_ev_default_threaded_callback` the worker's completion resumes it out of that take. -/
theorem abandoned_threaded_await_resumes_when_unchecked :
    ∃ e ∈ (run { Cfg.full with threadCheck := false } init
            [.spawn 1, .run, .thrWait 1 0, .cancel 1 (.err 5), .run, .take 1 1 false, .thrDone 0 (.int 0) false, .run]).log,
      e.fiber = 1 ∧ e.task.src = .thread 0 ∧ e.task.value = .int 0 ∧ e.task.regGen + 1 ≠ e.task.expected ∧
      e.task.regEpoch ≠ e.epochAtRun := by
  decide

example : ∀ e ∈ (run Cfg.full init
            [.spawn 1, .run, .thrWait 1 0, .cancel 1 (.err 5), .run, .take 1 1 false, .thrDone 0 (.int 0) false, .run]).log,
      e.fiber = 1 → e.task.src = .spawn ∨ e.task.src = .cancel := by decide

/-- a live threaded await does get its result -/
example : ((run Cfg.full init [.spawn 1, .run, .thrWait 1 0, .thrDone 0 (.int 0) false, .run]).log.map
      (fun e => (e.fiber, e.task.src, e.task.value))) = [(1, .thread 0, .int 0), (1, .spawn, .nil)] := by decide

/-- ★ stream completions, in the property's terms (replaces the bare "detach discipline"): in every reachable world a fiber that has
been resumed since it attached a listener has no listener any more (a surviving listener is of the current epoch), and readiness of a
stream whose registered fiber has no listener changes NOTHING — no fiber, no queue entry, no stream slot: later activity on the
abandoned stream neither resumes the fiber nor alters what it receives from its next wait. -/
theorem abandoned_stream_activity_inert (cfg : Cfg) (hc : cfg.allChecked = true) (ops : List Op) (f s : Nat) (r : Bool) (v : Val) (e : Bool) :
    let w := run cfg init ops
    ((w.fibers f).listenEpoch ≠ (w.fibers f).epoch → (w.fibers f).listener = none) ∧
    ((if r then (w.streams s).readFiber else (w.streams s).writeFiber) = some f → (w.fibers f).listener = none →
        streamEvent cfg w s r v e = w) := by
  intro w
  refine ⟨?_, ?_⟩
  · intro hne
    by_cases hl : (w.fibers f).listener = none
    · exact hl
    · exact absurd ((run_E cfg hc ops init_EInv).ls f hl) hne
  · intro hs hl
    simp [streamEvent, hs, hl]

/-- ★ `(ev/read s n buf timeout)`, `(ev/write s data timeout)`, `(net/accept s timeout)`: two wake-up sources, the stream listener
and the timeout timer (`janet_addtimeout`), both registered in the same generation.  Whichever fires first disarms the other:
(1) the stream completes first — the timer of that wait, found later in the timer phase, does nothing;
(2) the timeout fires first and its task runs — the fiber no longer listens, and any later readiness of the stream does nothing. -/
theorem timed_stream_wait_sources_disarm_each_other (cfg : Cfg) (hc : cfg.allChecked = true) (w : World) (f s : Nat) (r : Bool)
    (tm : Timer) (hk : tm.kind = .timeout) (hf : tm.fiber = f) (hlive : tm.schedId = (w.fibers f).schedId)
    (hl : (w.fibers f).listener = some (s, r))
    (hs : (if r then (w.streams s).readFiber else (w.streams s).writeFiber) = some f) (hnc : (w.fibers f).canceled = false) :
    (∀ v e, fireTimer cfg (streamEvent cfg w s r v e) tm = streamEvent cfg w s r v e) ∧
    (w.queue = [] →
      ((runTask cfg (fireTimer cfg w tm)).fibers f).listener = none ∧
      ∀ s' r' v e, (if r' then ((runTask cfg (fireTimer cfg w tm)).streams s').readFiber
                     else ((runTask cfg (fireTimer cfg w tm)).streams s').writeFiber) = some f →
        streamEvent cfg (runTask cfg (fireTimer cfg w tm)) s' r' v e = runTask cfg (fireTimer cfg w tm)) := by
  have hb : cfg.scheduleBumps = true := (allChecked_fields hc).2.2.2.2.2.2.2.2.1
  have htc : cfg.timerCheck = true := (allChecked_fields hc).2.1
  refine ⟨?_, ?_⟩
  · intro v e
    apply (stale_inert cfg hc _).2.2.2.1 tm (by intro b hb'; rw [hk] at hb'; cases hb')
    -- after the completion the fiber's generation has moved on
    have hse : streamEvent cfg w s r v e =
        asyncEnd (schedule cfg w f v e (w.fibers f).schedId w.now (.stream s) (w.fibers f).listenEpoch) f := by
      simp [streamEvent, hs, hl]
    rw [hse, hf]
    have hsid := (asyncEnd_frame (schedule cfg w f v e (w.fibers f).schedId w.now (.stream s) (w.fibers f).listenEpoch) f).2.2.2.2 f
    rcases schedule_bumps cfg hb w f v e (w.fibers f).schedId w.now (.stream s) (w.fibers f).listenEpoch with heq | ⟨hbump, -⟩
    · -- the schedule cannot have been swallowed: the fiber is not flagged CANCELED
      exfalso
      have : (schedule cfg w f v e (w.fibers f).schedId w.now (.stream s) (w.fibers f).listenEpoch).queue ≠ w.queue := by
        unfold schedule
        simp [hnc]
      exact this (by rw [heq])
    · simp only [live, hsid, hbump, hlive]
      simp
  · intro hq
    have hft : fireTimer cfg w tm = schedule cfg w f (.err 0) true tm.schedId tm.when .timeout tm.epoch := by
      unfold fireTimer
      rw [hk]
      simp [htc, live, hf, hlive]
    rcases schedule_bumps cfg hb w f (.err 0) true tm.schedId tm.when .timeout tm.epoch with heq | ⟨hbump, hqq⟩
    · exfalso
      have : (schedule cfg w f (.err 0) true tm.schedId tm.when .timeout tm.epoch).queue ≠ w.queue := by
        unfold schedule
        simp [hnc]
      exact this (by rw [heq])
    · have hdet := listener_detached_on_resume cfg hc (fireTimer cfg w tm)
        { fiber := f, value := .err 0, isErr := true, expected := (w.fibers f).schedId + 1, regGen := tm.schedId,
          notBefore := tm.when, src := .timeout, regEpoch := tm.epoch } []
        (by rw [hft, hqq, hq]; rfl) (by rw [hft]; exact hbump.symm)
      refine ⟨hdet, ?_⟩
      intro s' r' v e hs'
      exact (stale_inert cfg hc _).2.2.2.2.2 s' r' v e f hs' hdet

/-- the hypotheses of `timed_stream_wait_sources_disarm_each_other` are met right after `(ev/read s n buf timeout)` suspended -/
example :
    let w := run Cfg.full init [.spawn 1, .run, .timeout 1 5000, .asyncStart 1 0 true]
    (w.fibers 1).listener = some (0, true) ∧ (w.streams 0).readFiber = some 1 ∧ (w.fibers 1).canceled = false ∧ w.queue = [] ∧
    (w.timers.map (fun t => (t.fiber, t.kind, t.schedId == (w.fibers 1).schedId))) = [(1, .timeout, true)] := by decide

/-- a resume detaches the listener whatever the depth of the child-fiber chain below the task (try / defer / coro / with-deadline
bodies that stay suspended across the wait) -/
theorem listener_detached_on_resume_any_depth (cfg : Cfg) (hc : cfg.allChecked = true) (w : World) (t : Task) (q : List Task) (d : Nat)
    (hq : w.queue = t :: q) (hcur : t.expected = (w.fibers t.fiber).schedId) (_hd : (w.fibers t.fiber).depth = d) :
    ((runTask cfg w).fibers t.fiber).listener = none :=
  listener_detached_on_resume cfg hc w t q hq hcur

/-- Witness (unfixed tree, found through this theorem): fiber 1 cancels ITSELF while running, then takes from channel 0 (the
registration carries the generation of that cancel), is resumed by the cancel, and blocks taking from channel 1.  Without the bump at
resume the entry on channel 0 is still live: the give of fiber 2 on channel 0 resumes fiber 1 in its NEXT wait. -/
theorem self_scheduled_wait_stays_live_without_resume_bump :
    ∃ e ∈ (run { Cfg.full with resumeBumps := false } init
            [.spawn 1, .run, .cancel 1 (.err 5), .take 1 0 false, .run, .take 1 1 false, .give 2 0 (.kw 7) false, .run]).log,
      e.fiber = 1 ∧ e.task.src = .chanRead 0 ∧ e.task.value = .kw 7 ∧ e.task.regEpoch ≠ e.epochAtRun := by
  decide

example : ∀ e ∈ (run Cfg.full init
            [.spawn 1, .run, .cancel 1 (.err 5), .take 1 0 false, .run, .take 1 1 false, .give 2 0 (.kw 7) false, .run]).log,
      e.fiber = 1 → e.task.src = .spawn ∨ e.task.src = .cancel := by decide

/-- Witness: `janet_fiber_did_resume` after the child block.  Fiber 1 runs inside a child fiber (depth 1), reads from stream 0, is
cancelled and handles that inside the child, blocks on channel 1; the listener survived the resume and a later stream event resumes
the fiber out of its take with the stream's buffer. -/
theorem nested_listener_survives_when_did_resume_late :
    ∃ e ∈ (run { Cfg.full with didResumeFirst := false } init
            [.spawn 1, .run, .childEnter 1, .asyncStart 1 0 true, .cancel 1 (.err 5), .run, .take 1 1 false,
             .streamEvent 0 true (.buf 0) false, .run]).log,
      e.fiber = 1 ∧ e.task.src = .stream 0 ∧ e.task.regEpoch ≠ e.epochAtRun := by
  decide

example : ∀ e ∈ (run Cfg.full init
            [.spawn 1, .run, .childEnter 1, .asyncStart 1 0 true, .cancel 1 (.err 5), .run, .take 1 1 false,
             .streamEvent 0 true (.buf 0) false, .run]).log,
      e.fiber = 1 → e.task.src = .spawn ∨ e.task.src = .cancel := by decide

/-- Witness: the generation test of `janet_proc_wait_cb` guarding only the normal-result branch.  Process 0 was spawned with :x;
fiber 1 abandons its wait and blocks on channel 1; the non-zero exit then CANCELS fiber 1 in that unrelated wait. -/
theorem abandoned_x_procwait_cancels_when_err_branch_unchecked :
    ∃ e ∈ (run { Cfg.full with procErrCheck := false } init
            [.procFlag 0 true, .spawn 1, .run, .procWait 1 0, .cancel 1 (.err 5), .run, .take 1 1 false, .procExit 0 7, .run]).log,
      e.fiber = 1 ∧ e.task.src = .proc 0 ∧ e.task.value = procErrVal 7 ∧ e.task.isErr = true ∧ e.task.regEpoch ≠ e.epochAtRun := by
  decide

example : ∀ e ∈ (run Cfg.full init
            [.procFlag 0 true, .spawn 1, .run, .procWait 1 0, .cancel 1 (.err 5), .run, .take 1 1 false, .procExit 0 7, .run]).log,
      e.fiber = 1 → e.task.src = .spawn ∨ e.task.src = .cancel := by decide

/-- non-vacuity of the epoch theorem: a live :x process wait does deliver its error, in epoch 1 -/
example :
    ((run Cfg.full init [.procFlag 0 true, .spawn 1, .run, .procWait 1 0, .procExit 0 7, .run]).log.map
      (fun e => (e.fiber, e.epochAtRun, e.task.regEpoch, e.task.value))) = [(1, 1, 1, procErrVal 7), (1, 0, 0, .nil)] := by decide

/-! ### Listener callbacks as regenerated case tables (Wait/Callback.lean, Gen/WaitCb.lean)

`Gen.WaitCb.callbacks` holds one case table per function of src/core/*.c with the signature `(JanetFiber *, JanetAsyncEvent)`
(ev_callback_read, ev_callback_write, net_callback_connect, net_callback_accept, filewatch's watcher_callback_read), regenerated
from the preprocessed source on every run.  An invocation `cb(fiber, e)` performs some sequence of the calls in `cb.reach e`. -/
section Callbacks
open JanetModel.Wait.Callback JanetModel.Gen.WaitCb

/-- the certificate all callback theorems rest on, re-checked by the kernel on every regeneration: the visited sets are closed, and
the only calls reachable from `case JANET_ASYNC_EVENT_MARK` / `_DEINIT` are janet_mark* -/
theorem callback_tables_closed : ∀ cb ∈ callbacks, ∀ e ∈ Ev.all, cb.closedFor e = true := by decide

/-- ★ A mark visit resumes nobody.  The collector calls `fiber->ev_callback(fiber, JANET_ASYNC_EVENT_MARK)` for every suspended
fiber that listens on a stream (gc.c janet_mark_fiber — the only delivery of MARK, first conjunct).  For every listener callback
of the tree and every execution of it on MARK, the world is unchanged: no fiber is scheduled or cancelled, no generation moves, no
listener is detached, no task is queued — a garbage collection during a wait neither completes nor abandons the wait.
(Before e480e68 net_callback_connect had MARK fall to `default:` and ran its SO_ERROR check: `decide` fails on that tree.) -/
theorem mark_visit_resumes_nobody :
    (∀ d ∈ deliveries, d.2.2 = Ev.mark → d.1 = "gc.c" ∧ d.2.1 = "janet_mark_fiber") ∧
    ∀ cb ∈ callbacks, ∀ xs : List (Act × Inst), (∀ x ∈ xs, x.1 ∈ cb.reach .mark) →
      ∀ (cfg : Cfg) (w : World) (f : Nat), applyActs cfg w f xs = w := by
  refine ⟨by decide, ?_⟩
  intro cb hcb xs hxs cfg w f
  have hq : ∀ cb ∈ callbacks, ∀ a ∈ cb.reach .mark, a.quiet = true := by decide
  exact applyActs_quiet cfg f xs (fun x hx => hq cb hcb x.1 (hxs x hx)) w

/-- ★ Tearing a listener down resumes nobody.  `janet_async_end` (reached from janet_fiber_did_resume when the fiber was resumed by
something else: timeout, deadline, cancel) delivers JANET_ASYNC_EVENT_DEINIT to the callback of the abandoned wait — the only
delivery of DEINIT; no callback schedules, cancels or ends anything on it. -/
theorem deinit_resumes_nobody :
    (∀ d ∈ deliveries, d.2.2 = Ev.deinit → d.1 = "ev.c" ∧ d.2.1 = "janet_async_end") ∧
    ∀ cb ∈ callbacks, ∀ xs : List (Act × Inst), (∀ x ∈ xs, x.1 ∈ cb.reach .deinit) →
      ∀ (cfg : Cfg) (w : World) (f : Nat), applyActs cfg w f xs = w := by
  refine ⟨by decide, ?_⟩
  intro cb hcb xs hxs cfg w f
  have hq : ∀ cb ∈ callbacks, ∀ a ∈ cb.reach .deinit, a.quiet = true := by decide
  exact applyActs_quiet cfg f xs (fun x hx => hq cb hcb x.1 (hxs x hx)) w

/-- ★ A listener callback wakes only the fiber that listens.  Every callback that is ever registered is one of the tables
(`registrations`), every wake-relevant call in every table is one the model knows (no call with a foreign fiber, no call of an
unanalysed function that wakes), and for every event and every execution: a fiber `h` other than the listener `f` and the handler
fibers the callback has just created (net/accept-loop) keeps its generation, flags and listener, and its tasks in the run queue
are exactly what they were.  The one call that reaches other fibers is filewatch's `janet_channel_give` = `superPush`, the give
covered by `supervisor_event_not_consumed_by_absent_waiter` / `stale_inert (1)`. -/
theorem listener_callback_wakes_only_its_fiber :
    (∀ r ∈ registrations, (r.2.1 = "janet_async_start" ∧ r.2.2 = "callback") ∨ ∃ cb ∈ callbacks, cb.name = r.2.2) ∧
    (∀ cb ∈ callbacks, ∀ e ∈ Ev.all, ∀ a ∈ cb.reach e, a.known = true) ∧
    (∀ cb ∈ callbacks, ∀ e : Ev, ∀ xs : List (Act × Inst), (∀ x ∈ xs, x.1 ∈ cb.reach e) → (∀ x ∈ xs, x.1 ≠ .chanGive) →
      ∀ (cfg : Cfg) (w : World) (f h : Nat), h ≠ f → (∀ x ∈ xs, x.2.fresh ≠ h) →
        (applyActs cfg w f xs).fibers h = w.fibers h ∧ tasksOf (applyActs cfg w f xs) h = tasksOf w h) ∧
    (∀ (cfg : Cfg) (w : World) (f : Nat) (i : Inst), applyAct cfg w f .chanGive i = superPush cfg w i.chan i.val) := by
  refine ⟨by decide, by decide, ?_, fun _ _ _ _ => rfl⟩
  intro cb hcb e xs hxs hng cfg w f h hne hfresh
  have hk : ∀ cb ∈ callbacks, ∀ e ∈ Ev.all, ∀ a ∈ cb.reach e, a.known = true := by decide
  refine applyActs_own_frame cfg f h hne xs ?_ hfresh w
  intro x hx
  have h1 := hk cb hcb e (Ev.mem_all e) x.1 (hxs x hx)
  have h2 := hng x hx
  cases hxa : x.1 with
  | schedule t => cases t <;> simp [Act.known, Act.own, hxa] at h1 ⊢
  | cancel t => cases t <;> simp [Act.known, Act.own, hxa] at h1 ⊢
  | asyncEnd t => cases t <;> simp [Act.known, Act.own, hxa] at h1 ⊢
  | mark => rfl
  | chanGive => exact absurd hxa h2
  | callsWaker => simp [Act.known, hxa] at h1

/-- non-vacuity: the tables are not empty — a readable pipe does complete ev_callback_read's wait (schedule + detach), accept
schedules a handler fiber, and the MARK group of every callback is reached and marks -/
example : (Act.schedule .self) ∈ cb_ev_callback_read.reach .read ∧ (Act.asyncEnd .self) ∈ cb_ev_callback_read.reach .read ∧
    (Act.schedule .fresh) ∈ cb_net_callback_accept.reach .read ∧ (Act.schedule .self) ∈ cb_net_callback_connect.reach .write ∧
    Act.mark ∈ cb_ev_callback_read.reach .mark ∧ cb_net_callback_connect.reach .mark = [] ∧ callbacks.length = 5 := by decide

/-- non-vacuity of the frame: an execution of accept's READ group that schedules handler fiber 9 and completes listener 1 leaves
fiber 2 (blocked elsewhere) untouched but does queue tasks for 9 and 1 -/
example :
    let w0 := run Cfg.full init [.spawn 1, .spawn 2, .run, .run, .asyncStart 1 0 true, .take 2 0 false]
    let w := applyActs Cfg.full w0 1 [(.schedule .fresh, { fresh := 9 }), (.schedule .self, { val := .int 5 }), (.asyncEnd .self, {})]
    w.fibers 2 = w0.fibers 2 ∧ (w.queue.map (·.fiber)) = [9, 1] ∧ (w.fibers 1).listener = none := by decide

/-- ★ wake-up site completeness, as a kernel-checked certificate.  `Gen.WaitCb.sites` lists every janet_schedule /
janet_schedule_soon / janet_schedule_signal / janet_cancel call of ev.c, net.c, os.c, filewatch.c and io.c (all #ifdef branches)
with its enclosing function; `classify` (Lean, Wait/Callback.lean) maps each to a `SiteClass` — an unclassified site makes this
theorem fail.  What the model proves about each class is `siteCoverage` / `every_site_class_covered` below. -/
theorem every_wake_site_classified : ∀ s ∈ sites, (classify s).isSome = true := by decide

/-- what is proved about a class of wake-up sites -/
inductive Coverage where
  | proved (p : Prop)            -- the class is a wake-up source of a WAIT: `p` is what makes its stale registrations inert
  | notAWait (why : String)      -- the class does not complete a wait

def siteCoverage (cfg : Cfg) : SiteClass → Coverage
  | .chanGive => .proved (∀ w f c x ch e rest, (w.chans c).rp = e :: rest → live w e.fiber e.schedId = false →
        chanPush cfg w f c x ch = chanPush cfg { w with chans := set w.chans c { (w.chans c) with rp := rest } } f c x ch)
  | .chanTake => .proved (∀ w c items e rest, (w.chans c).wp = e :: rest → live w e.fiber e.schedId = false →
        chanPopWake cfg w c items = chanPopWake cfg { w with chans := set w.chans c { (w.chans c) with wp := rest } } c items)
  | .chanClose => .proved (∀ w c e, live w e.fiber e.schedId = false → closeOne cfg c w e = w)
  | .timers => .proved ((∀ w (tm : Timer), (∀ b, tm.kind ≠ .deadline b) → live w tm.fiber tm.schedId = false → fireTimer cfg w tm = w) ∧
        (∀ w (tm : Timer) b, tm.kind = .deadline b → w.bodies b = false → fireTimer cfg w tm = w))
  | .procWait => .proved (∀ w k st f g, w.procs k = some (f, g) → live w f g = false →
        (procExit cfg w k st).fibers = w.fibers ∧ (procExit cfg w k st).queue = w.queue)
  | .threadedAwait => .proved (∀ w k f g v e, w.thr k = some (f, g) → live w f g = false →
        (thrDone cfg w k v e).fibers = w.fibers ∧ (thrDone cfg w k v e).queue = w.queue)
  | .listenerCallback => .proved ((∀ w s r v e f, (if r then (w.streams s).readFiber else (w.streams s).writeFiber) = some f →
        (w.fibers f).listener = none → streamEvent cfg w s r v e = w) ∧
        (∀ cb ∈ callbacks, ∀ e ∈ Ev.all, ∀ a ∈ cb.reach e, a.known = true))
  | .chanImmediate => .notAWait "janet_channel_pop / cfun_channel_pop: the running fiber schedules ITSELF with an item that is already there"
  | .threadChan => .notAWait "threaded channels: property C08 (janet_thread_chan_cb compares the generation carried in the message)"
  | .rescheduleInterrupted => .notAWait "janet_loop puts an interrupted task back: no wait is completed"
  | .request => .notAWait "ev/go, ev/cancel, ev/thread: an explicit request of the program (ops `spawn` / `cancel` of the model: cancellation is a permitted cause)"
  | .signalHandler => .notAWait "os/sigaction: the handler runs in a fresh fiber, no suspended fiber is resumed"

def Coverage.holds : Coverage → Prop
  | .proved p => p
  | .notAWait _ => True

/-- ★ every class of wake-up site is covered: for each class that completes a wait, a stale registration of that class is inert -/
theorem every_site_class_covered (cfg : Cfg) (hc : cfg.allChecked = true) : ∀ c : SiteClass, (siteCoverage cfg c).holds := by
  intro c
  cases c with
  | chanGive => intro w; exact (stale_inert cfg hc w).1
  | chanTake => intro w; exact (stale_inert cfg hc w).2.1
  | chanClose => intro w; exact (stale_inert cfg hc w).2.2.1
  | timers =>
    exact ⟨fun w => (stale_inert cfg hc w).2.2.2.1, fun w tm b hk hb => (deadline_scoped cfg hc w tm b hk).1 hb⟩
  | procWait => intro w; exact (stale_inert cfg hc w).2.2.2.2.1
  | threadedAwait => intro w k f g v e hk hst; exact stale_thread_completion_inert cfg hc w k f g v e hk hst
  | listenerCallback => exact ⟨fun w => (stale_inert cfg hc w).2.2.2.2.2, listener_callback_wakes_only_its_fiber.2.1⟩
  | chanImmediate => trivial
  | threadChan => trivial
  | rescheduleInterrupted => trivial
  | request => trivial
  | signalHandler => trivial

/-- non-vacuity: the site list is the tree's (≥ 60 calls), every class that completes a wait occurs in it -/
example : sites.length ≥ 60 ∧ (∀ c ∈ [SiteClass.listenerCallback, .chanGive, .chanTake, .chanClose, .timers, .threadedAwait, .procWait],
    ∃ s ∈ sites, classify s = some c) := by decide

end Callbacks

/-! ### ev/gather sibling cancellation and ev/with-deadline (boot.janet), mirrored in Wait/Gather.lean -/
section Gather
open JanetModel.Wait.Callback JanetModel.Wait.Gather

/-- tie: the four boot.janet forms, regenerated on every run (docstring dropped, locals renamed in order of binding), are the forms the
mirrors were written from -/
theorem boot_forms_are_the_mirrored_ones :
    Sexp.beq Gen.WaitBoot.cancelAllForm GatherRef.cancelAllForm = true ∧
    Sexp.beq Gen.WaitBoot.waitForFibersForm GatherRef.waitForFibersForm = true ∧
    Sexp.beq Gen.WaitBoot.gatherForm GatherRef.gatherForm = true ∧
    Sexp.beq Gen.WaitBoot.withDeadlineForm GatherRef.withDeadlineForm = true := by decide

/-- ★ ev/gather cancels only its own fibers.  Whatever wait-for-fibers does with an event taken from the gather channel — drop the
finished fiber from the set, or cancel-all with "sibling canceled" — and whatever its `defer` does on the way out ("parent
canceled"), for the set in ANY iteration order: a fiber `h` that is not in the set keeps its generation, flags and listener, and
its tasks in the run queue are exactly what they were; in particular the parent and unrelated tasks are not resumed by it. -/
theorem gather_cancels_only_its_fibers (cfg : Cfg) (w : World) (fibers : List Nat) (h : Nat) (hn : h ∉ fibers)
    (sigOk : Bool) (fiber : Nat) (r1 r2 : Val) :
    ((gatherEvent cfg w fibers sigOk fiber r1).1.fibers h = w.fibers h ∧ tasksOf (gatherEvent cfg w fibers sigOk fiber r1).1 h = tasksOf w h) ∧
    ((gatherEnd cfg w fibers r2).fibers h = w.fibers h ∧ tasksOf (gatherEnd cfg w fibers r2) h = tasksOf w h) ∧
    (∀ g ∈ (gatherEvent cfg w fibers sigOk fiber r1).2.1, g ∈ fibers) := by
  refine ⟨?_, cancelAll_other cfg fibers h hn r2 w, ?_⟩
  · unfold gatherEvent
    cases sigOk
    · exact cancelAll_other cfg fibers h hn r1 w
    · exact ⟨rfl, rfl⟩
  · intro g hg
    unfold gatherEvent at hg
    cases sigOk
    · simp at hg
    · simp only [if_true] at hg
      exact (List.mem_filter.mp hg).1

/-- ★ a cancelled sibling leaves the wait it was in for good.  After cancel-all (any order, duplicates allowed) every fiber `f` of
the set that was not already cancelled in this round has a higher generation: every registration it made for the wait it was
blocked in (channel entry, timer, process-wait record, threaded await: all record the old generation) is stale — and by
`stale_forever` stays stale for every continuation, so later activity on what the sibling waited for cannot reach it, even if
it catches the "sibling canceled" error and blocks on something else. -/
theorem gather_cancel_abandons_sibling_waits (cfg : Cfg) (hc : cfg.allChecked = true) (w : World) (fibers : List Nat) (reason : Val)
    (f : Nat) (hf : f ∈ fibers) (hcan : (w.fibers f).canceled = false) (ops : List Op) :
    live (run cfg (cancelAll cfg w fibers reason) ops) f (w.fibers f).schedId = false := by
  obtain ⟨-, -, -, -, -, -, -, -, hb, -, -⟩ := allChecked_fields hc
  have hlt : (w.fibers f).schedId < ((cancelAll cfg w fibers reason).fibers f).schedId := by
    induction fibers generalizing w with
    | nil => exact absurd hf (List.not_mem_nil)
    | cons g gs ih =>
      simp only [cancelAll, List.foldl_cons]
      by_cases hg : g = f
      · subst hg
        have h1 := (cancel_live cfg hb w g reason hcan).1
        have h2 := cancelAll_mono cfg gs reason (evCancel cfg w g reason) g
        simp only [cancelAll, evCancel] at h2 ⊢
        omega
      · have hf' : f ∈ gs := by
          rcases List.mem_cons.mp hf with h | h
          · exact absurd h.symm hg
          · exact h
        have ho := cancel_other cfg w g f (fun e => hg e.symm) reason
        have := ih (evCancel cfg w g reason) hf' (by simp only [evCancel]; rw [ho.1]; exact hcan)
        simp only [cancelAll, evCancel] at this ⊢
        rw [ho.1] at this
        exact this
  exact stale_forever cfg (cancelAll cfg w fibers reason) f (w.fibers f).schedId hlt ops

/-- ★ ev/with-deadline guards exactly its task and its body.  The timer armed by the macro names the ROOT fiber of the caller as
the fiber to cancel and the body coroutine as the fiber to check; when it expires while the body is resumable the task is
cancelled with "deadline expired" in its current generation, no other fiber is touched; once the body has finished the timer is
inert whatever happens afterwards (`deadline_inert_after_body_finished`). -/
theorem with_deadline_guards_its_task_only (cfg : Cfg) (hc : cfg.allChecked = true) (w : World) (task body us : Nat) :
    (∃ tm ∈ (withDeadline cfg w task body us).timers, tm.fiber = task ∧ tm.kind = .deadline body ∧ tm.when = w.now + deltaMs cfg us) ∧
    (w.bodyDead body = false → (withDeadline cfg w task body us).bodies body = true) ∧
    (withDeadline cfg w task body us).fibers = w.fibers ∧ (withDeadline cfg w task body us).queue = w.queue ∧
    (∀ (w' : World) (tm : Timer), tm.fiber = task → tm.kind = .deadline body →
      (w'.bodies body = false → fireTimer cfg w' tm = w') ∧
      (∀ h, h ≠ task → (fireTimer cfg w' tm).fibers h = w'.fibers h ∧ ∀ t ∈ (fireTimer cfg w' tm).queue, t.fiber = h → t ∈ w'.queue)) := by
  refine ⟨?_, ?_, ?_, ?_, ?_⟩
  · refine ⟨{ when := w.now + deltaMs cfg us, fiber := task, schedId := (w.fibers task).schedId, kind := .deadline body,
              start := w.now, durUs := us, epoch := (w.fibers task).epoch }, ?_, rfl, rfl, rfl⟩
    unfold withDeadline addTimer step
    by_cases hd : w.bodyDead body = true <;> simp [hd, mem_insertTimer]
  · intro hd
    simp [withDeadline, addTimer, step, hd]
  · unfold withDeadline addTimer step
    by_cases hd : w.bodyDead body = true <;> simp [hd]
  · unfold withDeadline addTimer step
    by_cases hd : w.bodyDead body = true <;> simp [hd]
  · intro w' tm hf hk
    have := deadline_scoped cfg hc w' tm body hk
    exact ⟨this.1, fun h hne => this.2 h (hf ▸ hne)⟩

/-- non-vacuity: gather with siblings 2 (blocked in a take on channel 0) and 3 (finished with an error): cancel-all cancels both, fiber 2
gets the error in its current generation and its pending-reader entry is stale; bystander 4, blocked on the same channel, stays live -/
example :
    let w0 := run Cfg.full init [.spawn 2, .spawn 3, .spawn 4, .run, .run, .run, .take 2 0 false, .take 4 0 false, .fiberDead 3]
    let w := (gatherEvent Cfg.full w0 [3, 2] false 3 (.err 5)).1
    (w.queue.map (fun t => (t.fiber, t.isErr, t.expected))) = [(3, true, 3), (2, true, 3)] ∧
    ((w.chans 0).rp.map (fun p => (p.fiber, live w p.fiber p.schedId))) = [(2, false), (4, true)] := by decide

/-- non-vacuity: the with-deadline timer does fire while the body runs -/
example :
    let w := withDeadline Cfg.full (run Cfg.full init [.spawn 1, .run]) 1 7 3000
    (w.timers.map (fun t => (t.when, t.fiber))) = [(3, 1)] ∧
    ((fireTimer Cfg.full w (w.timers.head!)).queue.map (fun t => (t.fiber, t.value))) = [(1, .err 1)] := by decide

end Gather

/-! ### Non-vacuity -/

example : Cfg.full.allChecked = true := by decide

/-- a history with a sleep, a stale timer, a give to a stale reader and a legitimate wake-up: the log is non-empty,
the sleep is executed at tick 2 = 0 + round(1.5 ms), and the item given to the stale reader stays in the channel -/
example :
    let w := run Cfg.full init [.sleep 1 1500, .take 2 0 false, .cancel 2 (.err 2), .run, .give 3 0 (.kw 5) false,
                                 .advance 1, .timers, .run, .advance 1, .timers, .run]
    (w.log.map (fun e => (e.fiber, e.tick))) = [(1, 2), (2, 0)] ∧ (w.chans 0).items = [.kw 5] := by decide

end JanetModel.Props.C07
