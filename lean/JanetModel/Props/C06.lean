/- C06 - channels conserve values, keep order, respect capacity and lose no wake-ups.
   Theorems about the model `JanetModel.Ev` instantiated with `currentCfg`, the configuration that tools/gen/ev.py reads
   off the CURRENT ev.c (Gen/Ev.lean).  A `by decide` on a configuration bit is a proof obligation on the source: it
   fails when the source does not have the corresponding test. -/
import JanetModel.Ev.Lemmas
import JanetModel.Ev.QueueLemmas
import JanetModel.Ev.Current
namespace JanetModel.Props.C06
open JanetModel.Ev

/-! ## capacity / blocking rule (all states) -/

/-- A give on an open channel completes without waiting exactly when a taker is already waiting (a pending reader whose
    sched_id is current) or the channel is below capacity.  Obligation on the source: the test is `count > limit`. -/
theorem give_blocks_iff (w : World) (f c x : Nat) (w' : World) (b : Bool)
    (h : chanPush currentCfg w f c x 0 = .ok w' b) :
    b = false ↔ (hasLiveReader w.fibers (w.chans c).readPending = true ∨
                 (w.chans c).items.length < (w.chans c).limit) :=
  Ev.give_blocks_iff currentCfg (by decide) w f c x 0 w' b h

/-- A take on an open channel waits exactly when the channel is empty. -/
theorem take_blocks_iff (w : World) (f c : Nat) (ho : (w.chans c).closed = false) :
    (∃ w', chanPop currentCfg w f c 0 = .blocked w') ↔ (w.chans c).items = [] :=
  Ev.take_blocks_iff currentCfg w f c 0 ho

/-- FIFO use of the item queue (any state): a take that does not wait returns the head of `items` and leaves the tail; a
    give that finds no waiting taker appends at the tail.  (`fifo_per_channel` proper additionally needs the reachable-state
    invariant "a live pending reader implies `items = []`", so that the direct hand-over in push cannot overtake queued
    items; that invariant is NOT proved here - it is checked on every implementation state by the direct oracle,
    failure kind `waiting-reader-with-items`.) -/
theorem fifo_per_channel_partial (w : World) (f c : Nat) :
    (∀ w' r, (w.chans c).closed = false → chanPop currentCfg w f c 0 = .got w' r →
        ∃ x rest, (w.chans c).items = x :: rest ∧ r = some x ∧ (w'.chans c).items = rest) ∧
    (∀ x w' b, hasLiveReader w.fibers (w.chans c).readPending = false → chanPush currentCfg w f c x 0 = .ok w' b →
        (w'.chans c).items = (w.chans c).items ++ [x]) :=
  ⟨fun w' r ho h => Ev.chanPop_head currentCfg w f c 0 w' r ho h,
   fun x w' b hr h => Ev.chanPush_tail currentCfg w f c x 0 w' b hr h⟩

/-! ## select -/

/-- When `ev/select` returns without suspending, its result is the result of exactly one of its clauses and no channel
    other than that clause's channel has changed (any state, any clause list). -/
theorem select_exactly_one (w w' : World) (f : Nat) (cls : List Clause) (v : Val)
    (h : choiceImmediate currentCfg w f cls = some (w', v)) :
    ∃ cl ∈ cls, v.ofClause cl ∧ ∀ c', c' ≠ cl.chan → w'.chans c' = w.chans c' :=
  Ev.choiceImmediate_one currentCfg f cls w w' v h

/-! ## close -/

/-- Closing an open channel (any state) empties both pending queues, marks it closed and schedules every waiter whose
    registration is current and whose fiber can be resumed (its sched_id is bumped = a wake-up task was appended). -/
theorem close_wakes_all (w : World) (c : Nat) (ho : (w.chans c).closed = false) (p : Pending)
    (hp : p ∈ (w.chans c).writePending ∨ p ∈ (w.chans c).readPending)
    (hl : p.sched = (w.fibers p.fiber).sched) (hr : fiberCanResume (w.fibers p.fiber) = true)
    (hcn : (w.fibers p.fiber).canceled = false) :
    ((chanClose currentCfg w c).chans c).closed = true ∧ ((chanClose currentCfg w c).chans c).readPending = [] ∧
    ((chanClose currentCfg w c).chans c).writePending = [] ∧
    (w.fibers p.fiber).sched < ((chanClose currentCfg w c).fibers p.fiber).sched :=
  Ev.chanClose_wakes_all currentCfg w c ho p hp hl hr hcn

/-! ## conservation, for every sequence of actions (any interleaving, any program) -/

/-- For every action sequence from the start state, every channel `c` and every value `x`:
    #times `x` was pushed into `c` = #times `c` handed `x` out + #copies still queued in `c`.
    `pushed` is every value accepted by janet_channel_push_with_lock - INCLUDING a value that the registration loop of a
    select enqueued for a give clause whose select then completed through another clause: such a value counts as given
    here, stays queued and is handed to a later taker (`select_losing_give_value_delivered` below; on the implementation
    this is the known finding `select-losing-give-clause-value-delivered`). -/
theorem conservation (limits : Nat → Nat) (as : List Action) (c x : Nat) :
    let w := run currentCfg (World.start limits) as
    (onChan w.ghost.pushed c).count x = (onChan w.ghost.handed c).count x + (w.chans c).items.count x :=
  Ev.run_conserved currentCfg as _ (Ev.start_conserved limits) c x

/-- nothing is handed out that was not given, and nothing twice: a value pushed at most once into `c` is handed out by
    `c` at most once, and only if it was pushed. -/
theorem nothing_twice (limits : Nat → Nat) (as : List Action) (c x : Nat) :
    let w := run currentCfg (World.start limits) as
    (onChan w.ghost.handed c).count x ≤ (onChan w.ghost.pushed c).count x := by
  have := conservation limits as c x
  simp only at this ⊢
  omega

/-- non-vacuity: a run in which a value is pushed, handed out and received -/
example : let w := run Cfg.good (World.start fun _ => 0)
            [.timers, .runTask, .go 1, .take 0, .runTask, .give 0 7, .finish false, .runTask, .finish false]
          w.ghost.pushed = [(0, 7)] ∧ w.ghost.handed = [(0, 7)] ∧ w.ghost.received = [(0, 7)] := by decide

/-! ## the janet_q_* ring buffers refine lists -/

/-- **queue_refines_list**: for a well-formed JanetQueue (model `RingQ`, capacity bound `JANET_MAX_Q_CAPACITY` from the
    current source), with `toList` the abstract content (head first):
    push appends, push_head prepends, pop removes the head (and fails exactly on the empty list), janet_q_maybe_resize -
    including the memmove of a wrapped first segment - changes nothing, every operation keeps the representation
    invariant, and the index walk `for (i = head; i != tail; i = i + 1 < capacity ? i + 1 : 0)` of
    janet_channel_has_reader / the mark functions visits exactly `toList`. -/
theorem queue_refines_list {α : Type} (q : RingQ α) (h : q.WF) :
    (∀ x q', q.push maxQCapacity x = some q' → q'.toList = q.toList ++ [x] ∧ q'.WF) ∧
    (∀ x q', q.pushHead maxQCapacity x = some q' → q'.toList = x :: q.toList ∧ q'.WF) ∧
    (q.pop = none ↔ q.toList = []) ∧
    (∀ x q', q.pop = some (x, q') → q.toList = x :: q'.toList ∧ q'.WF) ∧
    (∀ q', q.maybeResize maxQCapacity = some q' → q'.toList = q.toList ∧ q'.WF) ∧
    q.walk = q.toList :=
  ⟨fun x q' hp => RingQ.push_spec _ q h x q' hp, fun x q' hp => RingQ.pushHead_spec _ q h x q' hp,
   RingQ.pop_none q h, fun x q' hp => RingQ.pop_some q h x q' hp,
   fun q' hr => ⟨(RingQ.maybeResize_spec _ q h q' hr).1, (RingQ.maybeResize_spec _ q h q' hr).2.1⟩,
   RingQ.walk_eq_toList q h⟩

/-- non-vacuity: the initial queue is well-formed and empty; a wrapped queue that is full is moved correctly -/
example : (RingQ.init (0 : Nat)).WF ∧ (RingQ.init (0 : Nat)).toList = [] := ⟨Or.inl ⟨rfl, rfl, rfl⟩, rfl⟩
example : let q : RingQ Nat := { data := fun i => i, head := 3, tail := 2, cap := 4 }
          q.toList = [3, 0, 1] ∧ ((q.push 100 9).map RingQ.toList) = some [3, 0, 1, 9] := by decide

/-! ## the three defects of the pinned tree, as theorems about the model with the pinned configuration -/

/-- DESIGN §4-1 on a 2-fiber world: main spawns a taker, sleeps, then `(ev/select [ch 11])`.  With the pinned
    configuration the value is handed over in the registration loop and the selecting fiber is then suspended with no
    registration, task or timer left: it can never be resumed. -/
def hangActs : List Action :=
  [.timers, .runTask, .go 1, .sleep 0, .runTask, .take 0, .timers, .runTask, .select [.give 0 11], .runTask, .finish false]

theorem select_give_to_waiting_taker_sticks :
    lostWakeup (run Cfg.pinned (World.start fun _ => 0) hangActs) 0 1 = true
    ∧ (run Cfg.pinned (World.start fun _ => 0) hangActs).ghost.received = [(1, 11)] := by decide

/-- the same actions with every check present: the select returns at once, nobody is stuck -/
example : lostWakeup (run Cfg.good (World.start fun _ => 0) hangActs) 0 1 = false := by decide

/-- A: `(ev/select [c0 1001] c1)`, B: `(ev/give c1 2001)`, T: `(ev/take c0)`.  A is resumed through c1; T then pops A's
    stale writer entry on c0 and schedules A a second time, the first task (carrying 2001) is dropped by the stale-task
    filter and A's select yields `[:give c0]`: 2001 was handed over and is received by nobody. -/
def staleWriterActs : List Action :=
  [.timers, .runTask, .go 1, .go 2, .go 3, .finish false, .runTask, .select [.give 0 1001, .take 1], .runTask,
   .give 1 2001, .finish false, .runTask, .take 0, .runTask, .runTask, .finish false, .runTask, .finish false]

theorem take_wakes_stale_select_writer :
    let w := run Cfg.pinned (World.start fun _ => 0) staleWriterActs
    w.ghost.dropped.map (·.value) = [Val.take 1 2001] ∧ w.ghost.received = [(3, 1001)] := by decide

example : (run Cfg.good (World.start fun _ => 0) staleWriterActs).ghost.dropped = [] := by decide

/-- Not repaired in the source, present with every check (`Cfg.good`): A `(ev/select [c0 1001] c1)` suspends having
    enqueued 1001 on c0; B `(ev/give c1 2001)` completes A's select through its take clause (A receives 2001, its select
    yields `[:take c1 2001]`); T `(ev/take c0)` then receives 1001, the value of A's LOSING give clause.  The stale-writer
    skip of pop keeps A from being woken a second time (nothing is dropped), but the value itself was pushed and is
    handed out. -/
theorem select_losing_give_value_delivered :
    let w := run Cfg.good (World.start fun _ => 0) staleWriterActs
    w.ghost.received = [(1, 2001), (3, 1001)] ∧ w.ghost.pushed = [(0, 1001), (1, 2001)] ∧
    w.ghost.handed = [(1, 2001), (0, 1001)] ∧ w.ghost.dropped = [] := by decide


/-- A: `(ev/select c0 c1)`, B: `(ev/give c1 2001)`, T: `(ev/chan-close c0)`: closing c0 schedules A through its stale
    entry; the task carrying 2001 is dropped and A's select yields `[:close c0]`. -/
def staleCloseActs : List Action :=
  [.timers, .runTask, .go 1, .go 2, .go 3, .finish false, .runTask, .select [.take 0, .take 1], .runTask,
   .give 1 2001, .finish false, .runTask, .close 0, .finish false, .runTask, .runTask, .finish false]

theorem close_wakes_stale_select_waiter :
    let w := run Cfg.pinned (World.start fun _ => 0) staleCloseActs
    w.ghost.dropped.map (·.value) = [Val.take 1 2001] ∧ w.ghost.received = [] := by decide

example : (run Cfg.good (World.start fun _ => 0) staleCloseActs).ghost.received = [(1, 2001)] := by decide

/-! The obligations on the current source (`no_lost_wakeup_partial`, `current_source_checks`) are in
    `JanetModel/Ev/SourceObligations.lean` (same namespace): they fail to check on a tree that lacks one of the three
    tests, and are kept in a module of their own so that the theorems above are still checked on such a tree. -/

end JanetModel.Props.C06
