/- C06 - channels conserve values, keep order, respect capacity and lose no wake-ups.
   Theorems about the model `JanetModel.Ev` instantiated with `currentCfg`, the configuration that tools/gen/ev.py reads
   off the CURRENT ev.c (Gen/Ev.lean).  A `by decide` on a configuration bit is a proof obligation on the source: it
   fails when the source does not have the corresponding test. -/
import JanetModel.Ev.Lemmas
import JanetModel.Ev.Current
namespace JanetModel.Props.C06
open JanetModel.Ev

/-! ## capacity / blocking rule (all states) -/

/-- A give on an open channel completes without waiting exactly when a taker is already waiting (a pending reader whose
    sched_id is current) or the channel is below capacity.  Obligation on the source: the test is `count > limit`. -/
theorem give_blocks_iff (w : World) (f c x : Nat) (w' : World) (b : Bool)
    (h : chanPush currentCfg w f c x 0 = .ok w' b) :
    b = false ↔ (hasLiveReader w.fibers (w.chans c).readPending = true ∨
                 (w.chans c).items.length < (w.chans c).limit) :=
  Ev.give_blocks_iff currentCfg (by decide) w f c x 0 w' b h

/-- A take on an open channel waits exactly when the channel is empty. -/
theorem take_blocks_iff (w : World) (f c : Nat) (ho : (w.chans c).closed = false) :
    (∃ w', chanPop currentCfg w f c 0 = .blocked w') ↔ (w.chans c).items = [] :=
  Ev.take_blocks_iff currentCfg w f c 0 ho

/-! ## the three defects of the pinned tree, as theorems about the model with the pinned configuration -/

/-- DESIGN §4-1 on a 2-fiber world: main spawns a taker, sleeps, then `(ev/select [ch 11])`.  With the pinned
    configuration the value is handed over in the registration loop and the selecting fiber is then suspended with no
    registration, task or timer left: it can never be resumed. -/
def hangActs : List Action :=
  [.timers, .runTask, .go 1, .sleep0, .runTask, .take 0, .timers, .runTask, .select [.give 0 11], .runTask, .finish false]

theorem select_give_to_waiting_taker_sticks :
    lostWakeup (run Cfg.pinned (World.start fun _ => 0) hangActs) 0 1 = true
    ∧ (run Cfg.pinned (World.start fun _ => 0) hangActs).ghost.received = [(1, 11)] := by decide

/-- the same actions with every check present: the select returns at once, nobody is stuck -/
example : lostWakeup (run Cfg.good (World.start fun _ => 0) hangActs) 0 1 = false := by decide

/-- A: `(ev/select [c0 1001] c1)`, B: `(ev/give c1 2001)`, T: `(ev/take c0)`.  A is resumed through c1; T then pops A's
    stale writer entry on c0 and schedules A a second time, the first task (carrying 2001) is dropped by the stale-task
    filter and A's select yields `[:give c0]`: 2001 was handed over and is received by nobody. -/
def staleWriterActs : List Action :=
  [.timers, .runTask, .go 1, .go 2, .go 3, .finish false, .runTask, .select [.give 0 1001, .take 1], .runTask,
   .give 1 2001, .finish false, .runTask, .take 0, .runTask, .runTask, .finish false, .runTask, .finish false]

theorem take_wakes_stale_select_writer :
    let w := run Cfg.pinned (World.start fun _ => 0) staleWriterActs
    w.ghost.dropped.map (·.value) = [Val.take 1 2001] ∧ w.ghost.received = [(3, 1001)] := by decide

example : (run Cfg.good (World.start fun _ => 0) staleWriterActs).ghost.dropped = [] := by decide

/-- A: `(ev/select c0 c1)`, B: `(ev/give c1 2001)`, T: `(ev/chan-close c0)`: closing c0 schedules A through its stale
    entry; the task carrying 2001 is dropped and A's select yields `[:close c0]`. -/
def staleCloseActs : List Action :=
  [.timers, .runTask, .go 1, .go 2, .go 3, .finish false, .runTask, .select [.take 0, .take 1], .runTask,
   .give 1 2001, .finish false, .runTask, .close 0, .finish false, .runTask, .runTask, .finish false]

theorem close_wakes_stale_select_waiter :
    let w := run Cfg.pinned (World.start fun _ => 0) staleCloseActs
    w.ghost.dropped.map (·.value) = [Val.take 1 2001] ∧ w.ghost.received = [] := by decide

example : (run Cfg.good (World.start fun _ => 0) staleCloseActs).ghost.received = [(1, 2001)] := by decide

end JanetModel.Props.C06
