/- C19: arbitrarily deep nesting or recursion yields an error, not a crash.

   Proved here:  (1) soundness of the call-graph certificate for EVERY graph (`bounded_depth*`), completeness of a
   failing certificate (`unguarded_cycle_refutes_every_rank`);  (2) the per-run obligation on the graph regenerated
   from the current source (`cg_rank_ok`, kernel evaluation);  (3) the non-recursive designs (compare/equals traversal
   stack, parser state stack, marker spill) and tail-call frame reuse, on hand models.
   (4) native stack BYTES (session 3): `chain_bytes_le` / `segments_bytes_le_limits` for every graph and frame table,
   per-run `cg_pot_ok`, `cg_units_ok`, `cg_stack_budget_ok` on the frame sizes gcc reports for the current source
   (`Gen/DepthStack.lean`), giving `stack_bytes_bounded`; (5) nested counter instances: `nest_frames_le` (2·L live guard
   frames when every re-entry site hands its depth on), `nest_unshared_reaches` (L·L without), per-run `cg_reentry_shared`.
   Tested, not proved (checks/C19.py): that every guard really counts on the recursive path, and that the hand models
   follow the C (driver jm_c19 vs fiber.c).  Assumed in (4): the per-class counts of live guard frames (`hcount`) - for the
   pool classes that is what `Nest.lean` models; for `marsh` / `funcdef-nesting` one live counter instance per chain. -/
import JanetModel.Depth.Lemmas
import JanetModel.Depth.TailLemmas
import JanetModel.Depth.Iterative
import JanetModel.Depth.StackLemmas
import JanetModel.Depth.Nest
import JanetModel.Depth.StackDag
import JanetModel.Gen.Depth
import JanetModel.Depth.GuardCert
import JanetModel.Depth.FiberStackLemmas
import JanetModel.Gen.DepthGuard
import JanetModel.Gen.DepthBalance
import JanetModel.Gen.DepthStack
namespace JanetModel.Props.C19
open JanetModel.Depth

/-- ★ every run of consecutive non-guard frames of a call chain is at most |V| long -/
theorem bounded_depth_runs (G : CG) (rank : List Nat) (hok : rankOK G rank = true)
    (pre run post : List Nat) (hc : IsChain G (pre ++ run ++ post))
    (hng : ∀ v ∈ run, isGuard G v = false) (hin : ∀ v ∈ run, v < G.n) : run.length ≤ G.n := by
  have h1 : IsChain G (pre ++ run) := IsChain.of_append_left (pre ++ run) post hc
  exact nonguard_run_le hok run (IsChain.of_append_right pre run h1) hng hin

/-- ★ `bounded_depth`: with a valid rank certificate, a call chain that holds at most `L` guard frames (a guard
    refuses to recurse once its counter reaches the limit) is at most `(L+1)·(|V|+1)` frames deep. -/
theorem bounded_depth (G : CG) (rank : List Nat) (hok : rankOK G rank = true) (L : Nat)
    (chain : List Nat) (hc : IsChain G chain) (hin : ∀ v ∈ chain, v < G.n) (hL : guardCount G chain ≤ L) :
    chain.length ≤ (L + 1) * (G.n + 1) := by
  cases chain with
  | nil => simp
  | cons a l =>
    have h := chain_length_aux hok a l hc
    have ha := rankOK_node hok (hin a List.mem_cons_self)
    have hmono : guardCount G (a :: l) * (G.n + 1) ≤ L * (G.n + 1) := Nat.mul_le_mul_right _ hL
    have hslack : (if isGuard G a = true then 0 else rk rank a + 1) ≤ G.n := by
      by_cases ga : isGuard G a = true
      · simp [ga]
      · rcases ha with ha | ha
        · exact absurd ha ga
        · simp [ga]; omega
    rw [Nat.add_mul]
    omega

/-- completeness of a failing check: a closed chain of non-guard functions refutes every rank -/
theorem unguarded_cycle_refutes_every_rank (G : CG) (a : Nat) (mid : List Nat)
    (hc : IsChain G (a :: (mid ++ [a]))) (hng : ∀ v ∈ a :: (mid ++ [a]), isGuard G v = false) :
    ∀ rank : List Nat, rankOK G rank = false :=
  unguarded_cycle_no_rank a mid hc hng

/-- ★ compare/equals: the work-list loop decides structural equality for ALL values (any nesting depth); each turn is
    the non-recursive `eqStep`, the only unbounded storage is the work list (heap) -/
theorem traversal_uses_heap_stack (a b : V) : eqLoop (a.size) [(a, b)] = some (decide (a = b)) := by
  have h := eqLoop_correct a.size [(a, b)] (by simp [workSize])
  simpa using h

/-- ★ parser: `n+1` opening delimiters put `n+1` entries on the explicit state stack, and closing them yields the
    value nested `n+1` deep - every input token is one non-recursive `pstep` -/
theorem parser_stack_heap (n k : Nat) (root : List V) :
    (pconsume (some [root]) (List.replicate (n + 1) Tok.open_)) = some (List.replicate (n + 1) [] ++ [root]) ∧
    pconsume (some [root]) (List.replicate (n + 1) Tok.open_ ++ [Tok.atom k] ++ List.replicate (n + 1) Tok.close)
      = some [root ++ [wrapL n [V.atom k]]] := by
  refine ⟨pconsume_opens (n + 1) [root], ?_⟩
  rw [pconsume_append, pconsume_append, pconsume_opens]
  have : pconsume (some (List.replicate (n + 1) [] ++ [root])) [Tok.atom k]
      = some ([V.atom k] :: (List.replicate n [] ++ [root])) := by
    simp [pconsume, pstep, List.replicate_succ]
  rw [this]
  exact pconsume_closes n [V.atom k] root

/-- ★ marker: recursion is on the depth counter (C depth ≤ JANET_RECURSION_GUARD by construction); when it runs
    out the value is kept on the root list, never dropped -/
theorem gc_spill_keeps (succ : Nat → List Nat) (d x : Nat) (s : MarkState) :
    x ∈ (markD succ d x s).marked ∨ x ∈ (markD succ d x s).spill :=
  markD_marks_or_spills succ d x s

/-- ★ tail calls of any depth run in constant fiber stack -/
theorem tailcall_constant_stack (fr0 S A cap0 : Nat) (calls : List (Nat × Fn)) (f f' : Fiber)
    (hinv : TailInv fr0 S A cap0 f) (hall : ∀ c ∈ calls, c.1 ≤ A ∧ c.2.slotcount ≤ S ∧ c.2.arity ≤ S)
    (h : tailLoop f calls = some f') :
    f'.frame = fr0 ∧ f'.stacktop ≤ fr0 + S + FRAME ∧
      (f'.capacity ≤ cap0 ∨ f'.capacity ≤ 2 * (fr0 + 2 * S + A + FRAME + 1)) := by
  have r := tailLoop_inv calls f f' hinv hall h
  exact ⟨r.frame_eq, r.top_le, r.cap_le⟩

/-- contrast: `d` nested NON-tail calls need at least `FRAME·d` more fiber slots -/
theorem nontail_calls_grow (calls : List (Nat × Fn)) (f f' : Fiber) (h : callLoop f calls = some f') :
    f.stackstart + FRAME * calls.length ≤ f'.stackstart :=
  callLoop_grows calls f f' h

/-- non-vacuity: a tail loop of 3 calls from a concrete fiber satisfies the hypotheses -/
example : ∃ f', tailLoop ⟨10, 20, 20, 64⟩
    [(2, ⟨6, 2, 2, 2, false⟩), (1, ⟨9, 1, 1, 1, false⟩), (3, ⟨4, 1, 1, 100, true⟩)] = some f' ∧ f'.frame = 10 := by
  exact ⟨_, rfl, rfl⟩

example : TailInv 10 10 3 64 ⟨10, 20, 20, 64⟩ := ⟨rfl, rfl, by decide, Or.inl (Nat.le_refl _)⟩

/-- non-vacuity of `bounded_depth`: a 3-node graph with one guard has a valid rank, and an unguarded 2-cycle has none -/
example : rankOK { n := 3, edges := [(0, 1), (1, 2), (2, 0)], guard := [true, false, false] } [0, 1, 0] = true := by decide
example : rankOK { n := 2, edges := [(0, 1), (1, 0)], guard := [false, false] } [1, 0] = false := by decide

/-- ★ per-run obligation: on the call graph regenerated from the current source, every call cycle passes through a
    guard (the translator's rank certificate is valid).  Kernel evaluation. -/
theorem cg_rank_ok : rankOK JanetModel.Gen.Depth.cg JanetModel.Gen.Depth.rank = true := by decide +kernel

/-- ★ per-run obligation: every path through the functions that charge / release a depth counter (peg down1/up1,
    peg builder depth, compiler recursion_guard, gc depth, janet_vm.stackn) releases no more than it charged, and exactly
    what it charged when it ends normally.  Kernel evaluation over the path classes regenerated from the source. -/
theorem cg_counters_balanced : balanced JanetModel.Gen.Depth.balancePaths = true := by decide +kernel

/-- ★ per-run obligation: marshal / unmarshal charge their depth argument (`flags + 1`) on every call cycle - the
    graph of NON-charging calls among the (un)marshal functions is acyclic (rank certificate, no guards).  The depth is
    followed through the `flags` field of the context handed to abstract-type hooks; a call whose depth operand is not
    derived from the caller's own depth (the count restarts) is a self-loop of the caller in this graph. -/
theorem cg_depth_arg_charged :
    rankOK JanetModel.Gen.Depth.depthArgCg JanetModel.Gen.Depth.depthArgRank = true := by decide +kernel

/-- consequence for every sequence of completed paths: never more given back than taken (for all lists) -/
theorem counters_no_excess_release (ps : List PathCount) (h : balanced ps = true) :
    (ps.map (·.releases)).sum ≤ (ps.map (·.charges)).sum :=
  balanced_no_excess_release ps h

example : balanced [⟨"peg", "peg_rule", "RULE_IFNOT:goto", false, 1, 2⟩] = false := by decide
example : balanced [⟨"peg", "peg_rule", "RULE_IFNOT:goto", false, 1, 1⟩, ⟨"c", "janetc_value", "entry:error", true, 1, 0⟩] = true := by decide

/-- the generated tables are consistent -/
theorem cg_tables_consistent :
    JanetModel.Gen.Depth.names.length = JanetModel.Gen.Depth.nV ∧
    JanetModel.Gen.Depth.guard.length = JanetModel.Gen.Depth.nV ∧
    JanetModel.Gen.Depth.rank.length = JanetModel.Gen.Depth.nV := by decide +kernel


/-! ### guards recognised on the IR control-flow graph (session 4) -/

/-- ★ every certificate, every path: with a valid certificate each live CFG path from the function's entry to a block
    with a recursive call takes the pass edge of a check (a conditional branch on `icmp PRED counter, K` whose other
    side refuses) - the recursive call is dominated by the depth test. -/
theorem guard_dominates_recursive_calls (c : GuardCert) (hok : certOK c = true) (p : List Nat) (t : Nat)
    (hlive : LivePath c (0 :: p)) (hlast : t ∈ 0 :: p) (ht : t ∈ c.targets) :
    ∃ e ∈ pairs (0 :: p), e ∈ passEdges c ∧
      ∃ ch ∈ c.checks, e.1 = ch.block ∧ (refuseOnTrue c.kind ch.pred ch.k).isSome := by
  obtain ⟨e, he, hpe⟩ := guard_dominates c hok p t hlive hlast ht
  exact ⟨e, he, hpe, passEdge_from_check c e hpe⟩

/-- non-vacuity: `if (depth == 0) panic; rec(depth - 1)` - block 0 tests, 1 refuses, 2 recurses; without the test
    (no checks) the same CFG has no valid certificate whatever `safe` says -/
def exCert (checks : List GCheck) (safe : Nat) : GuardCert :=
  { fn := "f", kind := "counter", counter := "param0", charge := "arg-1", countdown := false, inits := [], n := 3,
    cfg := [(0, 1), (0, 2)], checks := checks, targets := [2], stops := 0, stopCallees := [], safe := safe }
example : certOK (exCert [⟨0, "eq", 0, 1, 2⟩] 0b011) = true := by decide
example : certOK (exCert [] 0b011) = false := by decide
example : certOK (exCert [] 0b001) = false := by decide
example : certOK (exCert [⟨0, "eq", 0, 1, 2⟩] 0b111) = false := by decide
/-- a compare that is not a limit test (`depth == 7`) gives no pass edge -/
example : refuseOnTrue "counter" "eq" 7 = none := by decide
example : refuseOnTrue "counter" "sge" 1024 = some true := by decide

/-- functions of the current tree whose guard certificate is valid (CFG claim, limit, stops justified, helper) -/
def certifiedGuards : List String :=
  certified JanetModel.Gen.DepthGuard.recursionGuard JanetModel.Gen.DepthGuard.noreturnAttr
    JanetModel.Gen.DepthGuard.noreturnCerts JanetModel.Gen.DepthGuard.certs

/-- ★ per-run obligation: every guard mark of the call graph (`Gen.Depth.guard`, proposed by source idiom) is borne
    out by a valid control-flow certificate extracted from the IR of the current tree, or is one of the written
    exemptions; the compare constants / initial values are within JANET_RECURSION_GUARD. -/
theorem cg_guards_certified :
    guardsCertified JanetModel.Gen.Depth.names JanetModel.Gen.Depth.guard certifiedGuards
      JanetModel.Gen.DepthGuard.bounded = true ∧
    JanetModel.Gen.DepthGuard.recursionGuard = JanetModel.Gen.Depth.recursionGuard := by decide +kernel

/-- what the obligation gives for each certified function (consequence, all paths) -/
theorem cg_certified_dominates (c : GuardCert) (_hc : c ∈ JanetModel.Gen.DepthGuard.certs)
    (hg : guardOK JanetModel.Gen.DepthGuard.recursionGuard JanetModel.Gen.DepthGuard.noreturnAttr
      JanetModel.Gen.DepthGuard.noreturnCerts JanetModel.Gen.DepthGuard.certs c = true)
    (p : List Nat) (t : Nat) (hlive : LivePath c (0 :: p)) (hlast : t ∈ 0 :: p) (ht : t ∈ c.targets) :
    ∃ e ∈ pairs (0 :: p), e ∈ passEdges c := by
  have hok : certOK c = true := by
    simp only [guardOK, Bool.and_eq_true] at hg
    exact hg.1.1.1.1.1
  exact guard_dominates c hok p t hlive hlast ht

/-- the functions allowed to assign `def->defs` (the reason janet_mark_funcdef / janet_disasm_defs are bounded):
    the three creators of nested funcdefs, each under a depth guard, and the allocator (stores NULL) -/
def defsWritersAllowed : List String := ["janet_asm1", "janet_funcdef_alloc", "janetc_pop_funcdef", "unmarshal_one_def"]

/-- ★ per-run obligation: the domination facts behind three written exemptions hold on the IR of the current tree:
    (1) in EVERY caller of janet_continue_no_check the call is dominated by the pass edge of a check of
        janet_check_can_resume's result, and that helper cannot return 0 without passing the stackn test;
    (2) doarg_1's self call is dominated by `argtype == T` and passes constants S ≠ T (depth ≤ 2);
    (3) only the allowed functions store to JanetFuncDef.defs, and the three creators are certified guards. -/
theorem cg_exemptions_certified :
    (JanetModel.Gen.DepthGuard.noCheckCallers.all (fun nm =>
      JanetModel.Gen.DepthGuard.noCheckCerts.any (fun c => c.fn == nm && c.kind == "via" && certOK c &&
        !c.checks.isEmpty && !c.targets.isEmpty &&
        stopsJustified JanetModel.Gen.DepthGuard.noreturnAttr JanetModel.Gen.DepthGuard.noreturnCerts c)) &&
     !JanetModel.Gen.DepthGuard.noCheckCallers.isEmpty &&
     JanetModel.Gen.DepthGuard.certs.any (fun h => h.fn == "janet_check_can_resume" && h.kind == "helper" && certOK h &&
        limitOK JanetModel.Gen.DepthGuard.recursionGuard h && !h.checks.isEmpty && !h.targets.isEmpty)) = true ∧
    (!JanetModel.Gen.DepthGuard.doargCerts.isEmpty &&
     JanetModel.Gen.DepthGuard.doargCerts.all (fun c => c.fn == "doarg_1" && c.kind == "argconst" && certOK c &&
        !c.targets.isEmpty &&
        c.checks.all (fun ch => JanetModel.Gen.DepthGuard.doargSelfConsts.all (fun s => s != ch.k))) &&
     !JanetModel.Gen.DepthGuard.doargSelfConsts.isEmpty) = true ∧
    (JanetModel.Gen.DepthGuard.defsWriters.all (fun w => defsWritersAllowed.contains w) &&
     ["janet_asm1", "unmarshal_one_def", "janetc_value"].all (fun w => certifiedGuards.contains w)) = true := by
  decide +kernel



/-! ### counter balance on the IR control-flow graph (session 4) -/

/-- ★ every balance certificate, EVERY live path from the function's entry (loops included): the label at the end of
    the path is at most the net number of charges taken on it and never negative - on no path, at no point, has the
    counter been released more often than it was charged; a path that reaches a `ret` block (label 0, checked) without
    a charge-keeping edge has released exactly what it charged -/
theorem counter_balanced_on_every_path (c : BalCert) (hok : balOK c = true) (p : List Nat) (hn : 0 < c.n)
    (hlive : LiveB c (0 :: p)) :
    lvl c (lastOf 0 p) ≤ pathDelta c (0 :: p) ∧ 0 ≤ lvl c (lastOf 0 p) := by
  have h0 : inMask c.live 0 = true ∧ lvl c 0 = 0 := by
    simp only [balOK, Bool.and_eq_true, decide_eq_true_eq] at hok
    exact ⟨hok.1.1.1.1, hok.1.1.1.2⟩
  have h := bal_path_le c hok p 0 hn h0.1 hlive
  rw [h0.2] at h
  exact ⟨by have := h.1; omega, h.2.1⟩

/-- charge-keeping exits that are accepted: janetc_value returns early on a recorded compile error / "recursed too
    deeply" / macro-expansion failure with `recursion_guard` still decremented (janet_compile re-initialises it; a kept
    charge can only make the guard fire earlier) -/
def leaksAllowed : List (String × Nat) := [("janetc_value", 4)]

/-- recursive calls made without a charge of the function's own counter that are accepted: peg_rule calls the function /
    C function of `cmt`, `replace` with the depth it has used handed to janet_vm.stackn instead (obligation
    `cg_reentry_shared`; janet_call tests stackn itself) -/
def unchargedAllowed : List (String × Nat) := [("peg_rule", 2)]

/-- ★ per-run obligation: for every guard of the current tree whose counter is a memory location changed by ±1 stores
    (janet_call, janetc_value, destructure_nested, janet_mark, peg_rule, peg_compile1, janet_pretty_one) the block
    labelling extracted from the IR is consistent on every edge, every recursive call is made with a charge taken except
    the written `unchargedAllowed`, the number of charge-keeping exits is within `leaksAllowed`, and no such guard lacks
    a certificate -/
theorem cg_counters_balanced_ir :
    JanetModel.Gen.DepthBalance.certs.all (fun c => balOK c &&
      Nat.ble (leakCount c) ((leaksAllowed.find? (fun p => p.1 == c.fn)).map (·.2) |>.getD 0) &&
      Nat.ble (unchargedCount c) ((unchargedAllowed.find? (fun p => p.1 == c.fn)).map (·.2) |>.getD 0)) = true ∧
    (JanetModel.Gen.DepthGuard.certs.filter (fun c => c.kind == "counter" && c.charge.startsWith "store" &&
        !c.counter.startsWith "param")).all
      (fun c => JanetModel.Gen.DepthBalance.certs.any (fun b => b.fn == c.fn && b.counter == c.counter && !b.calls.isEmpty)) = true := by
  decide +kernel

/-- non-vacuity: `depth--; rec(); depth++` balances; `depth--; rec(); depth++; depth++` (C19-4's double release) has no
    consistent labelling: the return block would be entered at level -1 -/
def exBal (level delta : List Int) (calls : List (Nat × Int)) : BalCert :=
  { fn := "f", counter := "d", n := 3, cfg := [(0, 1), (1, 2)], level := level, delta := delta,
    live := 7, stops := 0, rets := [2], calls := calls }
example : balOK (exBal [0, 1, 0] [1, -1, 0] [(1, 1)]) = true := by decide
example : balOK (exBal [0, 1, -1] [1, -2, 0] [(1, 1)]) = false := by decide
example : balOK (exBal [0, 1, 0] [1, -2, 0] [(1, 1)]) = false := by decide
example : unchargedCount (exBal [0, 0, 0] [0, 0, 0] [(1, 0)]) = 1 := by decide

/-! ### the fiber stack: `maxstack` bounds janet-level recursion with a catchable error (session 4) -/

/-- ★ every sequence of VM operations (push / call / tail call / return, any length, any functions with at most `S`
    slots) on a fresh fiber with `maxstack = M`: as long as no error has been raised, at most `max M 4 / 4` frames are
    live, the stack start is within one frame of `max M 4`, the stack top is a valid int32 and the capacity never
    exceeds max(initial, INT32_MAX) -/
theorem fiber_stack_bounded (cap M S : Nat) (fn0 : Fn) (v0 v : VFiber) (ops : List VOp)
    (hfit : Fits M S) (hs0 : fn0.slotcount ≤ S) (hnew : fiberNew cap fn0 M = some v0)
    (hops : ∀ op ∈ ops, opFits S op) (hrun : vrun v0 ops = .ok v) :
    FRAME * v.prev.length ≤ B M ∧ v.f.stackstart ≤ B M + S + FRAME ∧ v.f.stacktop ≤ INT32_MAX ∧
      v.f.capacity ≤ max (if cap < 32 then 32 else cap) INT32_MAX := by
  have hinv := vrun_inv hfit ops v0 v (fiberNew_inv hfit hs0 hnew) hops hrun
  have hl := chain_len v.prev v.f.frame hinv.chain
  have hfr := hinv.fr
  refine ⟨Nat.le_trans hl hfr, ?_, ?_, ?_⟩
  · simp only [FRAME]; exact hinv.ssb
  · simp only [INT32_MAX]; exact hinv.t32
  · simp only [INT32_MAX]; exact hinv.capb

/-- ★ non-tail recursion deeper than `max M 4 / 4` frames cannot go on: every return-free operation sequence with
    that many calls ends in one of the two catchable errors (`janet_panic("stack overflow")`, arity mismatch) -/
theorem deep_recursion_raises (cap M S : Nat) (fn0 : Fn) (v0 : VFiber) (ops : List VOp)
    (hfit : Fits M S) (hs0 : fn0.slotcount ≤ S) (hnew : fiberNew cap fn0 M = some v0)
    (hops : ∀ op ∈ ops, opFits S op) (hnr : noRet ops) (hdeep : B M < FRAME * (nCalls ops + 1)) :
    ∃ e, vrun v0 ops = .error e ∧ (e = "stack overflow" ∨ e = "arity") := by
  cases hr : vrun v0 ops with
  | error e => exact ⟨e, rfl, vrun_error_kinds ops v0 e hr⟩
  | ok v =>
    exfalso
    have h1 := (fiber_stack_bounded cap M S fn0 v0 v ops hfit hs0 hnew hops hr).1
    have h2 := vrun_frames_noRet ops v0 v hnr hr
    have h3 : v0.prev.length = 1 := by
      unfold fiberNew at hnew
      simp only at hnew
      cases hf : funcframe ⟨0, FRAME, FRAME, if cap < 32 then 32 else cap⟩ fn0 with
      | none => rw [hf] at hnew; cases hnew
      | some f' => rw [hf] at hnew; rw [← Option.some.inj hnew]; rfl
    rw [h2, h3] at h1
    simp only [FRAME] at h1 hdeep
    omega

/-- ★ no int32 overflow in the frame functions: in every state a run can reach, a call that passes the `maxstack`
    test computes only quantities ≤ INT32_MAX (next stack top, doubled capacities, vararg tuple head) - provided
    2·(max M 4 + 2S + 5) ≤ INT32_MAX.  (The DEFAULT maxstack INT32_MAX does not satisfy this: see notes.) -/
theorem fiber_no_int32_overflow (cap M S : Nat) (fn0 fn : Fn) (v0 v : VFiber) (ops : List VOp)
    (hfit : Fits M S) (hs0 : fn0.slotcount ≤ S) (hnew : fiberNew cap fn0 M = some v0)
    (hops : ∀ op ∈ ops, opFits S op) (hrun : vrun v0 ops = .ok v)
    (hchk : ¬ v.f.stacktop > v.maxstack) (hfn : fn.slotcount ≤ S ∧ fn.arity ≤ S) :
    ∀ t ∈ callTemps v.f fn, t ≤ INT32_MAX := by
  have hinv := vrun_inv hfit ops v0 v (fiberNew_inv hfit hs0 hnew) hops hrun
  obtain ⟨ms, _, ss, top, fr, ssb, _, _⟩ := hinv
  have hB1 := le_B M
  unfold Fits at hfit
  rw [ms] at hchk
  intro t ht
  simp only [callTemps, FRAME, List.mem_cons, List.mem_nil_iff, or_false] at ht
  simp only [INT32_MAX]
  rcases ht with ht | ht | ht | ht | ht | ht <;> subst ht <;> omega

/-- non-vacuity: maxstack 1000, functions of up to 50 slots fit; a fresh fiber exists; the 4-slot self recursion with
    one argument gets 123 frames deep on it and then raises "stack overflow"; with the default maxstack nothing fits -/
example : Fits 1000 50 := by unfold Fits B FRAME; decide
example : ¬ Fits 2147483647 0 := by unfold Fits B FRAME; decide
example : (fiberNew 64 ⟨10, 0, 0, 0, false⟩ 1000).isSome = true := by decide
example : (fiberNew 64 ⟨10, 0, 0, 0, false⟩ 1000).map (fun v => overflowDepth 2000 v 1 ⟨4, 1, 1, 1, false⟩)
    = some (123, "stack overflow") := by decide +kernel

/-! ### native stack bytes (session 3) -/

open JanetModel.Gen in
/-- ★ every graph, every frame table: with a valid potential certificate a chain costs at most the potential of its
    head plus the potentials of the guard frames after it -/
theorem chain_bytes_le (G : CG) (frame pot : List Nat) (hok : potOK G frame pot = true) (a : Nat) (l : List Nat)
    (hc : IsChain G (a :: l)) (hin : ∀ v ∈ a :: l, v < G.n) :
    chainBytes frame (a :: l) ≤ pt pot a + guardPot G pot l :=
  JanetModel.Depth.chain_bytes_le hok a l hc hin

/-- ★ every graph: a stack made of chain segments (one per SCC it passes through) whose live guard frames of class `c`
    number at most `N c` uses at most `#segments · maxHead + Σ_c N c · unit c` bytes -/
theorem segments_bytes_le_limits (G : CG) (frame pot cls unit N : List Nat) (k mh : Nat)
    (hok : potOK G frame pot = true) (hu : unitsOK G pot cls unit k mh = true) (segs : List (List Nat))
    (hseg : ∀ s ∈ segs, IsChain G s ∧ ∀ v ∈ s, v < G.n)
    (hcount : ∀ c, c < k → classCount G cls c segs.flatten ≤ N.getD c 0) :
    (segs.map (chainBytes frame)).sum ≤ segs.length * mh + limitSum N unit k :=
  JanetModel.Depth.segments_bytes_le_limits hok hu segs hseg hcount

/-- non-vacuity: 3 functions, guard 0 with a 100-byte frame calling 1 (40) calling 2 (8) calling 0 -/
example : potOK { n := 3, edges := [(0, 1), (1, 2), (2, 0)], guard := [true, false, false] } [100, 40, 8] [148, 48, 8] = true := by decide
example : potOK { n := 3, edges := [(0, 1), (1, 2), (2, 0)], guard := [true, false, false] } [100, 40, 8] [148, 47, 8] = false := by decide
example : chainBytes [100, 40, 8] [0, 1, 2, 0, 1] = 288 := by decide

/-- ★ per-run obligation: the potential certificate is valid for the frame sizes gcc reports for the current source
    (both build variants) on the stack graph -/
theorem cg_pot_ok : potOK JanetModel.Gen.DepthStack.cgS JanetModel.Gen.DepthStack.frame JanetModel.Gen.DepthStack.pot = true := by
  decide +kernel

/-- ★ per-run obligation: every guard's potential is within the unit of its class, every other function's within `maxHead` -/
theorem cg_units_ok : unitsOK JanetModel.Gen.DepthStack.cgS JanetModel.Gen.DepthStack.pot JanetModel.Gen.DepthStack.cls
    JanetModel.Gen.DepthStack.unit JanetModel.Gen.DepthStack.nClasses JanetModel.Gen.DepthStack.maxHead = true := by
  decide +kernel

/-- the stack tables fit the call graph of `Gen/Depth.lean`: same functions, edges a subset, charging guards a subset -/
theorem cg_stack_tables_consistent :
    JanetModel.Gen.DepthStack.nV = JanetModel.Gen.Depth.nV ∧
    JanetModel.Gen.DepthStack.frame.length = JanetModel.Gen.Depth.nV ∧
    JanetModel.Gen.DepthStack.pot.length = JanetModel.Gen.Depth.nV ∧
    JanetModel.Gen.DepthStack.cls.length = JanetModel.Gen.Depth.nV ∧
    JanetModel.Gen.DepthStack.guard.length = JanetModel.Gen.Depth.nV ∧
    JanetModel.Gen.DepthStack.unit.length = JanetModel.Gen.DepthStack.nClasses ∧
    JanetModel.Gen.DepthStack.recursionGuard = JanetModel.Gen.Depth.recursionGuard ∧
    JanetModel.Gen.DepthStack.edges.all (fun e => JanetModel.Gen.Depth.edges.contains e) = true ∧
    (List.zip JanetModel.Gen.DepthStack.guard JanetModel.Gen.Depth.guard).all (fun p => !p.1 || p.2) = true := by
  decide +kernel

/-- the whole budget: functions outside the cycles (each at most once), libc allowance, one head per SCC, and per
    counter class (live frames its protocol allows) × (bytes per charged level) -/
def budgetTotal : Nat :=
  JanetModel.Gen.DepthStack.transitBytes + JanetModel.Gen.DepthStack.libcAllowance +
  JanetModel.Gen.DepthStack.nSCC * JanetModel.Gen.DepthStack.maxHead +
  limitSum (limitsOf JanetModel.Gen.DepthStack.classes JanetModel.Gen.DepthStack.nClasses)
    JanetModel.Gen.DepthStack.unit JanetModel.Gen.DepthStack.nClasses

/-- ★ per-run obligation: the budget is below the default 8 MiB stack -/
theorem cg_stack_budget_ok : budgetTotal < JanetModel.Gen.DepthStack.stackLimit := by decide +kernel

/-- ★ per-run obligation: every site where a locally counted recursion can start another counter instance hands on
    the depth it has used (otherwise the class limit is `L·L`, see `classLimit`, and the budget cannot hold) -/
theorem cg_reentry_shared : JanetModel.Gen.DepthStack.reentry.all (fun r => r.2.2) = true := by decide +kernel

/-- ★ `stack_bytes_bounded`: on the graph and frame sizes of the current source, a native stack made of call-chain
    segments (at most one per SCC) whose live guard frames per counter class stay within what the class's protocol
    allows, plus everything outside the cycles and the libc allowance, is below 8 MiB -/
theorem stack_bytes_bounded (segs : List (List Nat))
    (hseg : ∀ s ∈ segs, IsChain JanetModel.Gen.DepthStack.cgS s ∧ ∀ v ∈ s, v < JanetModel.Gen.DepthStack.cgS.n)
    (hlen : segs.length ≤ JanetModel.Gen.DepthStack.nSCC)
    (hcount : ∀ c, c < JanetModel.Gen.DepthStack.nClasses →
      classCount JanetModel.Gen.DepthStack.cgS JanetModel.Gen.DepthStack.cls c segs.flatten ≤
        (limitsOf JanetModel.Gen.DepthStack.classes JanetModel.Gen.DepthStack.nClasses).getD c 0) :
    (segs.map (chainBytes JanetModel.Gen.DepthStack.frame)).sum + JanetModel.Gen.DepthStack.transitBytes +
      JanetModel.Gen.DepthStack.libcAllowance < JanetModel.Gen.DepthStack.stackLimit := by
  have h1 := JanetModel.Depth.segments_bytes_le_limits cg_pot_ok cg_units_ok segs hseg hcount
  have h2 : segs.length * JanetModel.Gen.DepthStack.maxHead ≤
      JanetModel.Gen.DepthStack.nSCC * JanetModel.Gen.DepthStack.maxHead := Nat.mul_le_mul_right _ hlen
  have h3 := cg_stack_budget_ok
  unfold budgetTotal at h3
  omega

/-- non-vacuity of `stack_bytes_bounded`: the empty stack and a one-frame stack satisfy the hypotheses -/
example : (([] : List (List Nat)).map (chainBytes JanetModel.Gen.DepthStack.frame)).sum = 0 := rfl
example : IsChain JanetModel.Gen.DepthStack.cgS [0] := trivial


/-! ### budgets composed along the SCC DAG (session 4) -/

/-- ★ every reachability certificate: a call chain over ALL call edges of the module that starts in SCC `i` and contains
    a function of SCC `j ≠ i` makes `(i, j)` a claimed pair (so the SCCs a native stack passes through form a path of
    claimed pairs) -/
theorem scc_reach_sound (c : ReachCert) (hok : reachOK c = true) (i j : Nat) (hi : i < c.members.length)
    (hj : j < c.members.length) (hne : i ≠ j) (a : Nat) (l : List Nat) (ha : a ∈ membersOf c i)
    (hc : ChainE c.edges (a :: l)) (b : Nat) (hb : b ∈ a :: l) (hbj : b ∈ membersOf c j) : (i, j) ∈ c.claimed :=
  reach_sound c hok i j hi hj hne a l ha hc b hb hbj

/-- ★ per-run obligation: the reachability sets of the 13 recursive SCCs are closed under every call edge of the
    current module (8 000+ edges, 1 500 functions, bit masks) and unclaimed pairs are unreachable -/
theorem cg_reach_ok : reachOK JanetModel.Gen.DepthStack.reachCert = true := by decide +kernel

/-- ★ per-run obligation: the potential over the SCC DAG is valid, the per-SCC budgets are what the class limits and units
    give, every guard's class is budgeted in its own SCC, and the SCC table fits the call graph -/
theorem cg_scc_pot_ok :
    sccPotOK JanetModel.Gen.DepthStack.sccBudget JanetModel.Gen.DepthStack.sccSpot
      JanetModel.Gen.DepthStack.reachCert.claimed = true ∧
    JanetModel.Gen.DepthStack.sccBudget.length = JanetModel.Gen.DepthStack.nSCC ∧
    JanetModel.Gen.DepthStack.reachCert.members.length = JanetModel.Gen.DepthStack.nSCC ∧
    JanetModel.Gen.DepthStack.sccOfNode.length = JanetModel.Gen.DepthStack.nV ∧
    (List.range JanetModel.Gen.DepthStack.nSCC).all (fun i =>
      JanetModel.Gen.DepthStack.sccBudget.getD i 0 == JanetModel.Gen.DepthStack.maxHead +
        limitSum (JanetModel.Gen.DepthStack.sccLimits.getD i []) JanetModel.Gen.DepthStack.unit
          JanetModel.Gen.DepthStack.nClasses) = true ∧
    (List.range JanetModel.Gen.DepthStack.nV).all (fun v =>
      !(isGuard JanetModel.Gen.DepthStack.cgS v) ||
      ((JanetModel.Gen.DepthStack.sccLimits.getD (JanetModel.Gen.DepthStack.sccOfNode.getD v 0) []).getD
          (clsOf JanetModel.Gen.DepthStack.cls v) 0 ==
        (limitsOf JanetModel.Gen.DepthStack.classes JanetModel.Gen.DepthStack.nClasses).getD
          (clsOf JanetModel.Gen.DepthStack.cls v) 0)) = true ∧
    JanetModel.Gen.DepthStack.edges.all (fun e =>
      JanetModel.Gen.DepthStack.sccOfNode.getD e.1 0 == JanetModel.Gen.DepthStack.sccOfNode.getD e.2 0) = true := by
  decide +kernel

/-- the budget along the heaviest path of the SCC DAG -/
def dagBudgetTotal : Nat :=
  JanetModel.Gen.DepthStack.transitBytes + JanetModel.Gen.DepthStack.libcAllowance +
    listMax JanetModel.Gen.DepthStack.sccSpot

/-- ★ per-run obligation: that budget is below the default 8 MiB stack -/
theorem cg_dag_budget_ok : dagBudgetTotal < JanetModel.Gen.DepthStack.stackLimit := by decide +kernel

/-- bytes of the segments of a stack, one `(SCC id, chain inside that SCC)` per SCC it passes through -/
def segsBytes : List (Nat × List Nat) → Nat
  | [] => 0
  | s :: rest => chainBytes JanetModel.Gen.DepthStack.frame s.2 + segsBytes rest

/-- ★ `stack_bytes_bounded_dag`: on the graph and frame sizes of the current source, a native stack whose segments lie in
    SCCs along ONE path of the SCC DAG (`PathIn claimed`, which `scc_reach_sound` shows is how SCCs can follow each other)
    and whose live guard frames per class stay within the class's limit in each segment, plus everything outside the
    cycles and the libc allowance, is below 8 MiB.  Unlike `stack_bytes_bounded` the SCC budgets are not all added. -/
theorem stack_bytes_bounded_dag (segs : List (Nat × List Nat))
    (hseg : ∀ s ∈ segs, IsChain JanetModel.Gen.DepthStack.cgS s.2 ∧ ∀ v ∈ s.2, v < JanetModel.Gen.DepthStack.cgS.n)
    (hid : ∀ s ∈ segs, s.1 < JanetModel.Gen.DepthStack.nSCC)
    (hpath : PathIn JanetModel.Gen.DepthStack.reachCert.claimed (segs.map (·.1)))
    (hcount : ∀ s ∈ segs, ∀ c, c < JanetModel.Gen.DepthStack.nClasses →
      classCount JanetModel.Gen.DepthStack.cgS JanetModel.Gen.DepthStack.cls c s.2 ≤
        (JanetModel.Gen.DepthStack.sccLimits.getD s.1 []).getD c 0) :
    segsBytes segs + JanetModel.Gen.DepthStack.transitBytes + JanetModel.Gen.DepthStack.libcAllowance <
      JanetModel.Gen.DepthStack.stackLimit := by
  obtain ⟨hpot, hlen, _, _, hbud, _, _⟩ := cg_scc_pot_ok
  -- each segment is within the budget of its SCC
  have hone : ∀ s ∈ segs, chainBytes JanetModel.Gen.DepthStack.frame s.2 ≤ bud JanetModel.Gen.DepthStack.sccBudget s.1 := by
    intro s hs
    have h1 := JanetModel.Depth.segments_bytes_le_limits cg_pot_ok cg_units_ok [s.2]
      (fun x hx => by simp at hx; subst hx; exact hseg s hs)
      (fun c hc => by
        have := hcount s hs c hc
        simp only [List.flatten_cons, List.flatten_nil, List.append_nil]
        exact this)
    have h2 := (List.all_eq_true.mp hbud) s.1 (List.mem_range.mpr (hid s hs))
    have h3 : JanetModel.Gen.DepthStack.sccBudget.getD s.1 0 = JanetModel.Gen.DepthStack.maxHead +
        limitSum (JanetModel.Gen.DepthStack.sccLimits.getD s.1 []) JanetModel.Gen.DepthStack.unit
          JanetModel.Gen.DepthStack.nClasses := eq_of_beq h2
    simp only [List.map_cons, List.map_nil, List.sum_cons, List.sum_nil, List.length_cons, List.length_nil] at h1
    unfold bud
    rw [h3]
    omega
  have hsum : ∀ (l : List (Nat × List Nat)), (∀ s ∈ l, s ∈ segs) →
      segsBytes l ≤ pathBudget JanetModel.Gen.DepthStack.sccBudget (l.map (·.1)) := by
    intro l
    induction l with
    | nil => intro _; simp [segsBytes, pathBudget]
    | cons s rest ih =>
      intro hl
      have h1 := hone s (hl s List.mem_cons_self)
      have h2 := ih (fun x hx => hl x (List.mem_cons_of_mem _ hx))
      simp only [segsBytes, List.map_cons, pathBudget]
      omega
  have htot : segsBytes segs ≤ listMax JanetModel.Gen.DepthStack.sccSpot := by
    cases hs : segs with
    | nil => simp [segsBytes]
    | cons s rest =>
      have h1 := hsum segs (fun _ h => h)
      rw [hs] at h1 hpath hid
      simp only [List.map_cons] at h1 hpath
      have hr : ∀ i ∈ s.1 :: rest.map (·.1), i < JanetModel.Gen.DepthStack.sccBudget.length := by
        intro i hi
        rw [hlen]
        rcases List.mem_cons.mp hi with hi | hi
        · exact hi ▸ hid s List.mem_cons_self
        · obtain ⟨x, hx, hxi⟩ := List.mem_map.mp hi
          exact hxi ▸ hid x (List.mem_cons_of_mem _ hx)
      have h2 := path_budget_le _ _ _ hpot (rest.map (·.1)) s.1 hr hpath
      exact Nat.le_trans h1 (Nat.le_trans h2 (getD_le_listMax _ _))
  have h3 := cg_dag_budget_ok
  unfold dagBudgetTotal at h3
  omega

/-- non-vacuity: the claimed pairs are not empty and the empty stack satisfies the hypotheses; a two-SCC DAG example -/
example : JanetModel.Gen.DepthStack.reachCert.claimed ≠ [] := by decide
example : sccPotOK [100, 40] [140, 40] [(0, 1)] = true := by decide
example : sccPotOK [100, 40] [139, 40] [(0, 1)] = false := by decide
example : pathBudget [100, 40] [0, 1] = 140 := by decide

/-! ### nested counter instances (session 3) -/

/-- ★ every nesting of interpreter entries and local counter instances (all event sequences): when every re-entry
    site hands its depth on, at most `2·L` guard frames of the pool are live -/
theorem nest_frames_le (L : Nat) (evs : List NEv) (s' : NState) (h : nrun true L ⟨0, 0, 0⟩ evs = some s') :
    s'.frames ≤ 2 * L :=
  JanetModel.Depth.nest_frames_le L evs s' h

/-- ★ without handing the depth on the same guards accept `k·L` live guard frames for every `k ≤ L` (a product) -/
theorem nest_unshared_reaches (L : Nat) (hL : 0 < L) (k : Nat) (hk : k ≤ L) :
    nrun false L ⟨0, 0, 0⟩ (List.flatten (List.replicate k (nestBlock L))) = some ⟨k, 0, k * L⟩ :=
  JanetModel.Depth.nest_unshared_reaches L hL k hk

/-- the shared protocol refuses the multiplying pattern at its second level -/
theorem nest_shared_refuses (L : Nat) (hL : 2 ≤ L) : nrun true L ⟨0, 0, 0⟩ (nestBlock L ++ nestBlock L) = none :=
  JanetModel.Depth.nest_shared_refuses L hL

/-- non-vacuity: a nest the shared protocol accepts (compile 3 deep, macro, compile 2 deep, macro, peg 1 deep) -/
example : nrun true 1024 ⟨0, 0, 0⟩ [.vm, .fresh, .loc, .loc, .loc, .vm, .fresh, .loc, .loc, .vm, .fresh, .loc]
    = some ⟨8, 1, 9⟩ := by decide
/-- what the product means at the real limit: 12 levels of 900 (corpus/C19/nested-macro-compile.janet) -/
example : nrun false 1024 ⟨0, 0, 0⟩ (List.flatten (List.replicate 12 (nestBlock 1024))) = some ⟨12, 0, 12 * 1024⟩ :=
  JanetModel.Depth.nest_unshared_reaches 1024 (by decide) 12 (by decide)

end JanetModel.Props.C19
