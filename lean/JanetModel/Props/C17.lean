/- C17 — string, buffer and sequence library functions match their reference definitions.

   Property theorems (statements only refer to Lib/Spec.lean, Lib/BufMem.lean, Lib/Kmp.lean, Lib/Sort.lean; the proofs
   are in the *Laws / *Proofs files).  The constants of the range decoder, the trim set, the case-conversion bounds and
   the presence of the self-alias guards are regenerated from the C source (Gen/Lib.lean) on every run. -/
import JanetModel.Lib.SpecLaws
import JanetModel.Lib.BufMemProofs
import JanetModel.Lib.KmpProofs
import JanetModel.Lib.SortProofs
import JanetModel.Lib.RangeProofs
import JanetModel.Lib.FormatProofs
namespace JanetModel.Props.C17
open JanetModel.Lib JanetModel.Gen.Lib

/-! ### ★ range decoding: a decoded index is always inside `[0, len]`, or the call is an error -/

/-- `janet_gethalfrange`: accepted exactly for `-len-1 ≤ raw ≤ len`; non-negative indices are themselves, negative ones
    count from one past the end (`-1 ↦ len`); the result never leaves `[0, len]`. -/
theorem halfrange_spec (raw : Int) (len : Nat) :
    (halfrange raw len = none ↔ ¬ (-(len : Int) - 1 ≤ raw ∧ raw ≤ len)) ∧
    (∀ k, halfrange raw len = some k →
        k ≤ len ∧ (0 ≤ raw → (k : Int) = raw) ∧ (raw < 0 → (k : Int) = raw + len + 1)) :=
  ⟨halfrange_none_iff raw len, fun _ h => halfrange_some h⟩

/-- `janet_getargindex` (array/insert-style indices): result in `[0, len]`, negative indices count from the end. -/
theorem argindex_spec (raw : Int) (len k : Nat) (h : argindex raw len = some k) :
    k ≤ len ∧ (0 ≤ raw → (k : Int) = raw) ∧ (raw < 0 → (k : Int) = raw + len) :=
  argindex_some h

/-- `janet_getslice` + every `*/slice`: the decoded range satisfies `start ≤ end ≤ len`, and the result is exactly the
    `end - start` elements from `start` on — a contiguous part of the input. -/
theorem slice_spec {α : Type} (l : List α) (s e : Option Int) (r : List α) (h : slice l s e = some r) :
    ∃ a b, getslice s e l.length = some (a, b) ∧ a ≤ b ∧ b ≤ l.length ∧
      r = (l.drop a).take (b - a) ∧ r.length = b - a ∧ l = l.take a ++ r ++ l.drop b := by
  unfold slice at h
  cases hg : getslice s e l.length with
  | none => rw [hg] at h; simp at h
  | some ab =>
    obtain ⟨a, b⟩ := ab
    rw [hg] at h
    simp only [Option.some.injEq] at h
    obtain ⟨hab, hbl⟩ := getslice_some hg
    refine ⟨a, b, rfl, hab, hbl, h.symm, ?_, ?_⟩
    · rw [← h]; simp [List.length_take, List.length_drop]; omega
    · rw [← h]
      have h1 : l.drop a = (l.drop a).take (b - a) ++ (l.drop a).drop (b - a) := (List.take_append_drop _ _).symm
      rw [List.drop_drop] at h1
      have : a + (b - a) = b := by omega
      rw [this] at h1
      rw [List.append_assoc, ← h1, List.take_append_drop]

example : halfrange (-1) 5 = some 5 ∧ halfrange (-6) 5 = some 0 ∧ halfrange (-7) 5 = none ∧ halfrange 6 5 = none := by decide
example : slice [10, 20, 30, 40] (some (-3)) (some (-1)) = some [30, 40] := by decide

/-! ### ★ self-aliasing -/

/-- `(buffer/push b b)` / `(buffer/push-string b b)`: with the C's order ensure → re-fetch pointer → extra → memcpy, the
    call is defined (no read through a dangling pointer, no overlapping memcpy, no indeterminate byte) and appends the
    contents the buffer had *before* it grew.  `pushSelfGuard` is extracted from buffer.c: if the guard disappears this
    theorem no longer type-checks (see the `example` below for what then happens). -/
theorem buffer_push_self_alias_safe (b : BufMem.Buf) (bs : List Nat) (h : BufMem.contents b = some bs) :
    ∃ b', BufMem.pushSelf pushSelfGuard b = some b' ∧ BufMem.contents b' = some (bs ++ bs)
          ∧ bufferPush bs [PushArg.self] = some (bs ++ bs) := by
  obtain ⟨b', h1, h2⟩ := BufMem.pushSelf_guard_safe (BufMem.holds_of_contents h)
  exact ⟨b', h1, BufMem.contents_of_holds h2, bufferPush_self bs⟩

/-- `(buffer/blit b b od os oe)`: defined, and equal to the list-level definition evaluated on the old contents. -/
theorem buffer_blit_self_alias_safe (b : BufMem.Buf) (bs : List Nat) (h : BufMem.contents b = some bs)
    (od os len : Nat) (hod : od ≤ bs.length) (hsrc : os + len ≤ bs.length) :
    ∃ b', BufMem.blitSelf blitSelfGuard b od os len = some b' ∧
      BufMem.contents b' = some (bs.take od ++ (bs.drop os).take len ++ bs.drop (od + len)) := by
  obtain ⟨b', h1, h2⟩ := BufMem.blitSelf_guard_safe (BufMem.holds_of_contents h) od os len hod hsrc
  exact ⟨b', h1, BufMem.contents_of_holds h2⟩

/-- non-vacuity / necessity: a full 4-byte buffer pushed into itself *without* the guard reads freed memory -/
example : BufMem.pushSelf false ⟨[some 1, some 2, some 3, some 4], 4, 0⟩ = none := by decide
example : (BufMem.pushSelf true ⟨[some 1, some 2, some 3, some 4], 4, 0⟩).bind BufMem.contents = some [1, 2, 3, 4, 1, 2, 3, 4] := by decide
example : (BufMem.blitSelf true ⟨[some 1, some 2, some 3, none], 3, 0⟩ 1 0 3).bind BufMem.contents = some [1, 1, 2, 3] := by decide

/-! ### ★ algebraic laws that keep the reference definitions honest -/

/-- `(string/join (string/split sep s start limit) sep) = s` for every non-empty separator, start and limit. -/
theorem join_split (sep s : Bytes) (start : Nat) (limit : Int) (parts : List Bytes)
    (h : split sep s start limit = some parts) : join parts sep = s := by
  unfold split at h
  by_cases hp : sep = []
  · simp [hp] at h
  · rw [if_neg hp] at h
    simp only [Option.some.injEq] at h
    rw [← h, join_splitAux _ _ _ _ _ _ (Nat.zero_le _)]
    simp

/-- replacing every occurrence of `pat` by `pat` itself changes nothing -/
theorem replaceAll_self (pat s : Bytes) (start : Nat) (hp : pat ≠ []) : replaceAll pat pat s start = some s := by
  unfold replaceAll
  rw [if_neg hp, replaceAllAux_self _ _ _ _ _ (Nat.zero_le _)]
  simp

/-- `replace-all` is driven by `find`: without an occurrence at or after `start` the text is returned unchanged, and
    the first rewritten position is the one `string/find` reports. -/
theorem replaceAll_via_find (pat subst s : Bytes) (start : Nat) (hp : pat ≠ []) :
    (findFrom pat s start = none → replaceAll pat subst s start = some s) ∧
    (∀ r, findFrom pat s start = some r →
        replaceAll pat subst s start =
          some (s.take r ++ subst ++ replaceAllAux pat subst s s.length (r + pat.length) (r + pat.length))) := by
  unfold replaceAll
  rw [if_neg hp]
  constructor
  · intro h
    rw [replaceAllAux_no_match _ _ _ _ _ _ h]; simp
  · intro r h
    simp [replaceAllAux, h]

/-- `string/find` returns the least index `≥ start` at which the pattern occurs, or nil when there is none. -/
theorem find_least (pat s : Bytes) (start : Nat) :
    (∀ r, findFrom pat s start = some r →
        start ≤ r ∧ matchAt pat s r = true ∧ ∀ k, start ≤ k → k < r → matchAt pat s k = false) ∧
    (findFrom pat s start = none → ∀ k, start ≤ k → matchAt pat s k = false) :=
  ⟨fun _ h => findFrom_some h, findFrom_none⟩

theorem take_drop (n : Int) {α : Type} (l : List α) :
    (0 ≤ n → takeN n l ++ dropN n l = l) ∧ (n < 0 → dropN n l ++ takeN n l = l) :=
  ⟨takeN_dropN_nonneg n l, dropN_takeN_neg n l⟩

theorem partition_concat {α : Type} (n : Nat) (hn : 1 ≤ n) (l : List α) :
    (partition n l).flatten = l ∧ ∀ c ∈ partition n l, c.length ≤ n :=
  ⟨partition_flatten n hn l, partitionAux_chunk_le n _ l⟩

theorem trim_edges (s set : Bytes) :
    triml s set = s.drop (leftEdge s set) ∧ trimr s set = s.take (rightEdge s set) :=
  ⟨triml_eq_drop s set, trimr_eq_take s set⟩

theorem reverse_involutive (s : Bytes) : s.reverse.reverse = s := List.reverse_reverse s

theorem prefix_checkset (p s set : Bytes) :
    (hasPrefix p s = true ↔ ∃ t, s = p ++ t) ∧ (checkSet set s = true ↔ ∀ c ∈ s, c ∈ set) :=
  ⟨hasPrefix_iff p s, checkSet_iff set s⟩

theorem insert_remove {α : Type} (a xs : List α) (i : Nat) (hi : i ≤ a.length)
    (h32 : (a.length : Int) + xs.length ≤ int32Max) :
    (arrayInsert a i xs).bind (fun r => arrayRemove r i xs.length) = some a :=
  arrayInsert_remove a xs i hi h32

/-! ### printf-style formatter, modelled subset (Lib/Format.lean: %% %d %i %x %X %o %c %s with flags / width / precision) -/

/-- laws that keep the formatter definition honest: a format without directives is copied verbatim (arguments ignored);
    `%<w>.<p>s` emits `max w (min p len)` bytes; a numeric conversion is never shorter than its field width.
    Conformance of the definition to the C implementation is *tested* (correspondence on generated formats). -/
theorem format_laws :
    (∀ (s : Bytes) (args : List Format.FArg), (∀ c ∈ s, c ≠ 37 ∧ c ≠ 0) → Format.format s args = .ok s) ∧
    (∀ f w p s, (Format.fmtString f w p s).length = max w (match p with | some p => min p s.length | none => s.length)) ∧
    (∀ f w p n, w ≤ (Format.fmtSigned f w p n).length) :=
  ⟨Format.format_plain, Format.fmtString_length, Format.fmtSigned_width⟩

example : Format.format [37, 43, 48, 53, 100, 124, 37, 35, 120, 124, 37, 45, 52, 115, 124, 37, 46, 50, 115]
    [.int 42, .int 255, .bytes [97, 98], .bytes [97, 98, 99]]
    = .ok [43, 48, 48, 52, 50, 124, 48, 120, 102, 102, 124, 97, 98, 32, 32, 124, 97, 98] := by decide

/-! ### `range` (corelib.c janet_core_range) -/

/-- ★ `range_spec`: the mirror of the C code of the current tree over exact numbers (integers, and dyadic fractions scaled
    to integers) NEVER aborts (`rangeC … = some l`) — the Gen facts say the aborting assertion is gone and the correcting
    loops are there — and `l` has `max 0 ⌈(stop-start)/step⌉` elements (none for step 0), element `i` is `start + i*step`,
    every element lies in `[start, stop)` (resp. `(stop, start]` for a negative step) and the next one would not.
    `Range.rangeCOld_aborts`: the code of the pinned tree aborted on `(range 1 0 0)`. -/
theorem range_spec (start stop step : Int) :
    ∃ l, Range.rangeC start stop step = some l ∧
      (step > 0 → (l.length : Int) = (if Range.ceilDiv (stop - start) step > 0 then Range.ceilDiv (stop - start) step else 0)) ∧
      (step < 0 → (l.length : Int) = (if Range.ceilDiv (stop - start) step > 0 then Range.ceilDiv (stop - start) step else 0)) ∧
      (step = 0 → l = []) ∧
      (∀ i (h : i < l.length), l[i] = start + (i : Int) * step) ∧
      (step > 0 → (∀ x ∈ l, start ≤ x ∧ x < stop) ∧ start + (l.length : Int) * step ≥ stop) ∧
      (step < 0 → (∀ x ∈ l, stop < x ∧ x ≤ start) ∧ start + (l.length : Int) * step ≤ stop) :=
  Range.rangeC_spec start stop step

theorem range_ceilDiv_spec (x y : Int) (hy : 0 < y) :
    Range.ceilDiv x y * y - y < x ∧ x ≤ Range.ceilDiv x y * y := Range.ceilDiv_pos_spec x y hy

example : Range.rangeC 0 10 3 = some [0, 3, 6, 9] ∧ Range.rangeC 5 0 (-2) = some [5, 3, 1] ∧ Range.rangeC 1 0 0 = some [] := by decide
example : Range.rangeCOld 1 0 0 = none := Range.rangeCOld_aborts

/-! ### ☆ KMP (string.c kmp_init / kmp_next / kmp_seti) computes the naive definitions -/

/-- `kmp_eq_naive`: for every non-empty pattern, text, start index and limit, the mirror of the C state machine
    (failure table = longest proper border of each prefix, proved in `Kmp.lookupTable_spec`; search loop invariant in
    `Kmp.next_spec`) returns exactly what the naive reference definitions of Lib/Spec.lean return: the least match for
    `string/find`, all (overlapping) matches for `string/find-all`, and the same rewritten text / pieces for
    `string/replace-all` and `string/split`, whose loops restart the machine after each match. -/
theorem kmp_eq_naive (pat text : Bytes) (start : Nat) (hp : pat ≠ []) :
    Kmp.find pat text start = findFrom pat text start ∧
    Kmp.findAll pat text start = findAll pat text start ∧
    (∀ subst, some (Kmp.replaceAll pat subst text start) = replaceAll pat subst text start) ∧
    (∀ limit, some (Kmp.split pat text start limit) = split pat text start limit) :=
  ⟨Kmp.find_eq_naive pat text start hp, Kmp.findAll_eq_naive pat text start hp,
   fun subst => Kmp.replaceAll_eq_naive pat subst text start hp,
   fun limit => Kmp.split_eq_naive pat text start limit hp⟩

/-- the failure table built by `kmp_init` holds, for every prefix, the length of its longest proper border -/
theorem kmp_table_spec (pat : Array Nat) (hne : 0 < pat.size) :
    (Kmp.lookupTable pat).size = pat.size ∧
    ∀ m, 1 ≤ m → m ≤ pat.size → Kmp.IsLPB (fun k => pat.getD k 0) m ((Kmp.lookupTable pat).getD (m - 1) 0) :=
  Kmp.lookupTable_spec pat hne

example : Kmp.lookupTable #[97, 97, 98, 97, 97, 97] = #[0, 1, 0, 1, 2, 2] := by decide
example : Kmp.findAll [97, 97] [97, 97, 97, 97] 0 = [0, 1, 2] := by decide

/-! ### sort (boot.janet sort-help: median-of-three with `<=`, Hoare partition with `before?`) -/

/-- ☆ `sort_perm_sorted` (full strength): for EVERY strict weak order `before?` (irreflexive, asymmetric, negatively
    transitive) and whatever `<=` picks the median, the mirror of `(sort ind before?)`
      * returns `ok` with the model's fuel `length + 1` for the recursion, `size + 2` for each partition loop and `size + 1`
        for each scan — i.e. the janet code terminates (recursion depth ≤ length) and no `(in a k)` is ever out of range,
      * returns a permutation of the input of the same size,
      * and the result is ordered: no element is `before?` an earlier one.
    Proof: `Sort.partitionLoop_spec` (Hoare invariant with sentinels) and `Sort.sortHelp_spec` (range permutations as
    injective index maps; the overlapping case `left' = right'` uses injectivity as the counting argument).
    Non-strict comparators are outside the hypothesis — and outside the property ("for every strict ordering function"):
    e.g. for `>=` on `#[2, 8, -8]` the recursion does not make progress (see the `example` below: the model runs out of any
    fuel; the real interpreter grows its fiber stack until memory is exhausted), for others `in` raises an index error. -/
theorem sort_perm_sorted {α : Type} (le before : α → α → Bool) (hswo : Sort.SWO before) (a : Array α) :
    ∃ r, Sort.sort le before a = .ok r ∧ Array.Perm r a ∧ r.size = a.size ∧
      ∀ i j (hij : i < j) (hj : j < r.size), before r[j] (r[i]'(by omega)) = false :=
  Sort.sort_sorted le before hswo a

/-- for ANY comparator (strict or not): whenever `sort` returns, nothing was lost or duplicated -/
theorem sort_perm_any_comparator {α : Type} (le before : α → α → Bool) (a r : Array α)
    (h : Sort.sort le before a = .ok r) : Array.Perm r a ∧ r.size = a.size := by
  have hp := Sort.sort_perm le before a r h
  exact ⟨hp, by simpa using hp.toList.length_eq⟩

/-- partition step: the left scan stops at the first element that is not `before?` the pivot; with a sentinel at or after
    `left` it neither indexes outside the array nor exhausts its fuel. -/
theorem partition_scan_left {α : Type} (before : α → α → Bool) (a : Array α) (pivot : α) (left s : Nat) (x : α)
    (hs : left ≤ s) (hx : a[s]? = some x) (hnb : before x pivot = false) :
    ∃ k, Sort.scanLeft before a pivot (a.size + 1) left = .ok k ∧ left ≤ k ∧ k ≤ s ∧
      (∃ y, a[k]? = some y ∧ before y pivot = false) ∧
      ∀ i, left ≤ i → i < k → ∃ y, a[i]? = some y ∧ before y pivot = true := by
  have hsz : s < a.size := by
    rcases Nat.lt_or_ge s a.size with h | h
    · exact h
    · rw [Array.getElem?_eq_none h] at hx; simp at hx
  obtain ⟨k, hk, hks⟩ := Sort.scanLeft_sentinel before a pivot (a.size + 1) left s x hs hx hnb (by omega)
  obtain ⟨h1, h2, h3⟩ := Sort.scanLeft_ok before a pivot _ left k hk
  exact ⟨k, hk, h1, hks, h2, h3⟩

/-- ☆ partition step of `sort-help` for every strict weak order `before?` (and any `<=` used for the median): started as
    in the janet code it returns `ok`, i.e. no `in` out of range and no fuel exhaustion; only `[lo,hi]` is permuted;
    afterwards everything left of `left'` is not after the pivot, everything right of `right'` is not before it,
    `right' ≤ left'`, `lo < left'` and `right' < hi`. -/
theorem partition_step {α : Type} (le before : α → α → Bool) (hswo : Sort.SWO before) (a : Array α) (lo hi : Nat)
    (hlt : lo < hi) (hsz : hi < a.size) :
    let pivot := Sort.medianOfThree le a[lo] (a[(lo + hi) / 2]'(by omega)) a[hi]
    ∃ a' l' r', Sort.partitionLoop before pivot (a.size + 2) a lo hi = .ok (a', l', r') ∧
      Sort.PPost before pivot lo hi a a' l' r' :=
  Sort.partition_step le before hswo a lo hi hlt hsz

example : Sort.SWO (fun (a b : Int) => decide (a % 4 < b % 4)) :=
  ⟨fun x => by simp, fun x y h => by simp at h ⊢; omega, fun x y z h1 h2 => by simp at h1 h2 ⊢; omega⟩

example : Sort.sort (fun a b => decide (a ≤ b)) (fun a b => decide (a % 4 < b % 4)) #[3, 1, 2, 5, 4, 1]
    = .ok #[4, 5, 1, 1, 2, 3] := by decide
/-- a non-strict comparator makes the real code recurse without bound; the model reports fuel exhaustion -/
example : Sort.sort (fun a b => decide (a ≤ b)) (fun a b => decide (a ≥ b)) #[2, 8, -8] = .fuel := by decide

end JanetModel.Props.C17
