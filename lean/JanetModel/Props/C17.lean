/- C17 — string, buffer and sequence library functions match their reference definitions.

   Property theorems (statements only refer to Lib/Spec.lean, Lib/BufMem.lean, Lib/Kmp.lean, Lib/Sort.lean; the proofs
   are in the *Laws / *Proofs files).  The constants of the range decoder, the trim set, the case-conversion bounds and
   the presence of the self-alias guards are regenerated from the C source (Gen/Lib.lean) on every run. -/
import JanetModel.Lib.SpecLaws
import JanetModel.Lib.BufMemProofs
import JanetModel.Lib.KmpProofs
import JanetModel.Lib.SortProofs
import JanetModel.Lib.RangeProofs
import JanetModel.Lib.FormatProofs
import JanetModel.Lib.StrKmpCProofs
import JanetModel.Lib.StrJoinCProofs
import JanetModel.Lib.StrMiscCProofs
import JanetModel.Lib.ArrCProofs
import JanetModel.Lib.BufCProofs
import JanetModel.Lib.BootProofs
import JanetModel.Lib.Boot2Proofs
import JanetModel.Lib.TupleJoinCProofs
import JanetModel.Lib.ConcatCProofs
import JanetModel.Lib.BufPushCProofs
import JanetModel.Lib.StrReplCProofs
import JanetModel.Lib.Boot3Proofs
import JanetModel.Lib.Boot4Proofs
import JanetModel.Lib.Boot5Proofs
import JanetModel.Lib.MiscCProofs
import JanetModel.Lib.Boot6Proofs
import JanetModel.Lib.Boot7Proofs
import JanetModel.Lib.Boot8Proofs
import JanetModel.Lib.MiscC2Proofs
import JanetModel.Lib.Boot9Proofs
import JanetModel.Lib.Boot10Proofs
import JanetModel.Lib.Boot11Proofs
import JanetModel.Lib.Boot12Proofs
import JanetModel.Lib.FormatCProofs
namespace JanetModel.Props.C17
open JanetModel.Lib JanetModel.Gen.Lib

/-! ### ★ range decoding: a decoded index is always inside `[0, len]`, or the call is an error -/

/-- `janet_gethalfrange`: accepted exactly for `-len-1 ≤ raw ≤ len`; non-negative indices are themselves, negative ones
    count from one past the end (`-1 ↦ len`); the result never leaves `[0, len]`. -/
theorem halfrange_spec (raw : Int) (len : Nat) :
    (halfrange raw len = none ↔ ¬ (-(len : Int) - 1 ≤ raw ∧ raw ≤ len)) ∧
    (∀ k, halfrange raw len = some k →
        k ≤ len ∧ (0 ≤ raw → (k : Int) = raw) ∧ (raw < 0 → (k : Int) = raw + len + 1)) :=
  ⟨halfrange_none_iff raw len, fun _ h => halfrange_some h⟩

/-- `janet_getargindex` (array/insert-style indices): result in `[0, len]`, negative indices count from the end. -/
theorem argindex_spec (raw : Int) (len k : Nat) (h : argindex raw len = some k) :
    k ≤ len ∧ (0 ≤ raw → (k : Int) = raw) ∧ (raw < 0 → (k : Int) = raw + len) :=
  argindex_some h

/-- `janet_getslice` + every `*/slice`: the decoded range satisfies `start ≤ end ≤ len`, and the result is exactly the
    `end - start` elements from `start` on — a contiguous part of the input. -/
theorem slice_spec {α : Type} (l : List α) (s e : Option Int) (r : List α) (h : slice l s e = some r) :
    ∃ a b, getslice s e l.length = some (a, b) ∧ a ≤ b ∧ b ≤ l.length ∧
      r = (l.drop a).take (b - a) ∧ r.length = b - a ∧ l = l.take a ++ r ++ l.drop b := by
  unfold slice at h
  cases hg : getslice s e l.length with
  | none => rw [hg] at h; simp at h
  | some ab =>
    obtain ⟨a, b⟩ := ab
    rw [hg] at h
    simp only [Option.some.injEq] at h
    obtain ⟨hab, hbl⟩ := getslice_some hg
    refine ⟨a, b, rfl, hab, hbl, h.symm, ?_, ?_⟩
    · rw [← h]; simp [List.length_take, List.length_drop]; omega
    · rw [← h]
      have h1 : l.drop a = (l.drop a).take (b - a) ++ (l.drop a).drop (b - a) := (List.take_append_drop _ _).symm
      rw [List.drop_drop] at h1
      have : a + (b - a) = b := by omega
      rw [this] at h1
      rw [List.append_assoc, ← h1, List.take_append_drop]

example : halfrange (-1) 5 = some 5 ∧ halfrange (-6) 5 = some 0 ∧ halfrange (-7) 5 = none ∧ halfrange 6 5 = none := by decide
example : slice [10, 20, 30, 40] (some (-3)) (some (-1)) = some [30, 40] := by decide

/-! ### ★ self-aliasing -/

/-- `(buffer/push b b)` / `(buffer/push-string b b)`: with the C's order ensure → re-fetch pointer → extra → memcpy, the
    call is defined (no read through a dangling pointer, no overlapping memcpy, no indeterminate byte) and appends the
    contents the buffer had *before* it grew.  `pushSelfGuard` is extracted from buffer.c: if the guard disappears this
    theorem no longer type-checks (see the `example` below for what then happens). -/
theorem buffer_push_self_alias_safe (b : BufMem.Buf) (bs : List Nat) (h : BufMem.contents b = some bs) :
    ∃ b', BufMem.pushSelf pushSelfGuard b pushSelfViaExtra = some b' ∧ BufMem.contents b' = some (bs ++ bs)
          ∧ bufferPush bs [PushArg.self] = some (bs ++ bs) := by
  -- `pushSelfViaExtra` (Gen): which of the two accepted guard shapes the current buffer.c uses
  obtain ⟨b', h1, h2⟩ := BufMem.pushSelf_guard_safe_any pushSelfViaExtra (BufMem.holds_of_contents h)
  exact ⟨b', h1, BufMem.contents_of_holds h2, bufferPush_self bs⟩

/-- `(buffer/blit b b od os oe)`: defined, and equal to the list-level definition evaluated on the old contents. -/
theorem buffer_blit_self_alias_safe (b : BufMem.Buf) (bs : List Nat) (h : BufMem.contents b = some bs)
    (od os len : Nat) (hod : od ≤ bs.length) (hsrc : os + len ≤ bs.length) :
    ∃ b', BufMem.blitSelf blitSelfGuard b od os len = some b' ∧
      BufMem.contents b' = some (bs.take od ++ (bs.drop os).take len ++ bs.drop (od + len)) := by
  obtain ⟨b', h1, h2⟩ := BufMem.blitSelf_guard_safe (BufMem.holds_of_contents h) od os len hod hsrc
  exact ⟨b', h1, BufMem.contents_of_holds h2⟩

/-- non-vacuity / necessity: a full 4-byte buffer pushed into itself *without* the guard reads freed memory -/
example : BufMem.pushSelf false ⟨[some 1, some 2, some 3, some 4], 4, 0⟩ = none := by decide
example : (BufMem.pushSelf true ⟨[some 1, some 2, some 3, some 4], 4, 0⟩).bind BufMem.contents = some [1, 2, 3, 4, 1, 2, 3, 4] := by decide
example : (BufMem.blitSelf true ⟨[some 1, some 2, some 3, none], 3, 0⟩ 1 0 3).bind BufMem.contents = some [1, 1, 2, 3] := by decide

/-! ### ★ algebraic laws that keep the reference definitions honest -/

/-- `(string/join (string/split sep s start limit) sep) = s` for every non-empty separator, start and limit. -/
theorem join_split (sep s : Bytes) (start : Nat) (limit : Int) (parts : List Bytes)
    (h : split sep s start limit = some parts) : join parts sep = s := by
  unfold split at h
  by_cases hp : sep = []
  · simp [hp] at h
  · rw [if_neg hp] at h
    simp only [Option.some.injEq] at h
    rw [← h, join_splitAux _ _ _ _ _ _ (Nat.zero_le _)]
    simp

/-- replacing every occurrence of `pat` by `pat` itself changes nothing -/
theorem replaceAll_self (pat s : Bytes) (start : Nat) (hp : pat ≠ []) : replaceAll pat pat s start = some s := by
  unfold replaceAll
  rw [if_neg hp, replaceAllAux_self _ _ _ _ _ (Nat.zero_le _)]
  simp

/-- `replace-all` is driven by `find`: without an occurrence at or after `start` the text is returned unchanged, and
    the first rewritten position is the one `string/find` reports. -/
theorem replaceAll_via_find (pat subst s : Bytes) (start : Nat) (hp : pat ≠ []) :
    (findFrom pat s start = none → replaceAll pat subst s start = some s) ∧
    (∀ r, findFrom pat s start = some r →
        replaceAll pat subst s start =
          some (s.take r ++ subst ++ replaceAllAux pat subst s s.length (r + pat.length) (r + pat.length))) := by
  unfold replaceAll
  rw [if_neg hp]
  constructor
  · intro h
    rw [replaceAllAux_no_match _ _ _ _ _ _ h]; simp
  · intro r h
    simp [replaceAllAux, h]

/-- `string/find` returns the least index `≥ start` at which the pattern occurs, or nil when there is none. -/
theorem find_least (pat s : Bytes) (start : Nat) :
    (∀ r, findFrom pat s start = some r →
        start ≤ r ∧ matchAt pat s r = true ∧ ∀ k, start ≤ k → k < r → matchAt pat s k = false) ∧
    (findFrom pat s start = none → ∀ k, start ≤ k → matchAt pat s k = false) :=
  ⟨fun _ h => findFrom_some h, findFrom_none⟩

theorem take_drop (n : Int) {α : Type} (l : List α) :
    (0 ≤ n → takeN n l ++ dropN n l = l) ∧ (n < 0 → dropN n l ++ takeN n l = l) :=
  ⟨takeN_dropN_nonneg n l, dropN_takeN_neg n l⟩

theorem partition_concat {α : Type} (n : Nat) (hn : 1 ≤ n) (l : List α) :
    (partition n l).flatten = l ∧ ∀ c ∈ partition n l, c.length ≤ n :=
  ⟨partition_flatten n hn l, partitionAux_chunk_le n _ l⟩

theorem trim_edges (s set : Bytes) :
    triml s set = s.drop (leftEdge s set) ∧ trimr s set = s.take (rightEdge s set) :=
  ⟨triml_eq_drop s set, trimr_eq_take s set⟩

theorem reverse_involutive (s : Bytes) : s.reverse.reverse = s := List.reverse_reverse s

theorem prefix_checkset (p s set : Bytes) :
    (hasPrefix p s = true ↔ ∃ t, s = p ++ t) ∧ (checkSet set s = true ↔ ∀ c ∈ s, c ∈ set) :=
  ⟨hasPrefix_iff p s, checkSet_iff set s⟩

theorem insert_remove {α : Type} (a xs : List α) (i : Nat) (hi : i ≤ a.length)
    (h32 : (a.length : Int) + xs.length ≤ int32Max) :
    (arrayInsert a i xs).bind (fun r => arrayRemove r i xs.length) = some a :=
  arrayInsert_remove a xs i hi h32

/-! ### printf-style formatter, modelled subset (Lib/Format.lean: %% %d %i %x %X %o %c %s with flags / width / precision) -/

/-- laws that keep the formatter definition honest: a format without directives is copied verbatim (arguments ignored);
    `%<w>.<p>s` emits `max w (min p len)` bytes; a numeric conversion is never shorter than its field width.
    Conformance of the definition to the C implementation is *tested* (correspondence on generated formats). -/
theorem format_laws :
    (∀ (s : Bytes) (args : List Format.FArg), (∀ c ∈ s, c ≠ 37 ∧ c ≠ 0) → Format.format s args = .ok s) ∧
    (∀ f w p s, (Format.fmtString f w p s).length = max w (match p with | some p => min p s.length | none => s.length)) ∧
    (∀ f w p n, w ≤ (Format.fmtSigned f w p n).length) :=
  ⟨Format.format_plain, Format.fmtString_length, Format.fmtSigned_width⟩

example : Format.format [37, 43, 48, 53, 100, 124, 37, 35, 120, 124, 37, 45, 52, 115, 124, 37, 46, 50, 115]
    [.int 42, .int 255, .bytes [97, 98], .bytes [97, 98, 99]]
    = .ok [43, 48, 48, 52, 50, 124, 48, 120, 102, 102, 124, 97, 98, 32, 32, 124, 97, 98] := by decide

/-! ### `range` (corelib.c janet_core_range) -/

/-- ★ `range_spec`: the mirror of the C code of the current tree over exact numbers (integers, and dyadic fractions scaled
    to integers) NEVER aborts (`rangeC … = some l`) — the Gen facts say the aborting assertion is gone and the correcting
    loops are there — and `l` has `max 0 ⌈(stop-start)/step⌉` elements (none for step 0), element `i` is `start + i*step`,
    every element lies in `[start, stop)` (resp. `(stop, start]` for a negative step) and the next one would not.
    `Range.rangeCOld_aborts`: the code of the pinned tree aborted on `(range 1 0 0)`. -/
theorem range_spec (start stop step : Int) :
    ∃ l, Range.rangeC start stop step = some l ∧
      (step > 0 → (l.length : Int) = (if Range.ceilDiv (stop - start) step > 0 then Range.ceilDiv (stop - start) step else 0)) ∧
      (step < 0 → (l.length : Int) = (if Range.ceilDiv (stop - start) step > 0 then Range.ceilDiv (stop - start) step else 0)) ∧
      (step = 0 → l = []) ∧
      (∀ i (h : i < l.length), l[i] = start + (i : Int) * step) ∧
      (step > 0 → (∀ x ∈ l, start ≤ x ∧ x < stop) ∧ start + (l.length : Int) * step ≥ stop) ∧
      (step < 0 → (∀ x ∈ l, stop < x ∧ x ≤ start) ∧ start + (l.length : Int) * step ≤ stop) :=
  Range.rangeC_spec start stop step

theorem range_ceilDiv_spec (x y : Int) (hy : 0 < y) :
    Range.ceilDiv x y * y - y < x ∧ x ≤ Range.ceilDiv x y * y := Range.ceilDiv_pos_spec x y hy

example : Range.rangeC 0 10 3 = some [0, 3, 6, 9] ∧ Range.rangeC 5 0 (-2) = some [5, 3, 1] ∧ Range.rangeC 1 0 0 = some [] := by decide
example : Range.rangeCOld 1 0 0 = none := Range.rangeCOld_aborts

/-! ### ☆ KMP (string.c kmp_init / kmp_next / kmp_seti) computes the naive definitions -/

/-- `kmp_eq_naive`: for every non-empty pattern, text, start index and limit, the mirror of the C state machine
    (failure table = longest proper border of each prefix, proved in `Kmp.lookupTable_spec`; search loop invariant in
    `Kmp.next_spec`) returns exactly what the naive reference definitions of Lib/Spec.lean return: the least match for
    `string/find`, all (overlapping) matches for `string/find-all`, and the same rewritten text / pieces for
    `string/replace-all` and `string/split`, whose loops restart the machine after each match. -/
theorem kmp_eq_naive (pat text : Bytes) (start : Nat) (hp : pat ≠ []) :
    Kmp.find pat text start = findFrom pat text start ∧
    Kmp.findAll pat text start = findAll pat text start ∧
    (∀ subst, some (Kmp.replaceAll pat subst text start) = replaceAll pat subst text start) ∧
    (∀ limit, some (Kmp.split pat text start limit) = split pat text start limit) :=
  ⟨Kmp.find_eq_naive pat text start hp, Kmp.findAll_eq_naive pat text start hp,
   fun subst => Kmp.replaceAll_eq_naive pat subst text start hp,
   fun limit => Kmp.split_eq_naive pat text start limit hp⟩

/-- the failure table built by `kmp_init` holds, for every prefix, the length of its longest proper border -/
theorem kmp_table_spec (pat : Array Nat) (hne : 0 < pat.size) :
    (Kmp.lookupTable pat).size = pat.size ∧
    ∀ m, 1 ≤ m → m ≤ pat.size → Kmp.IsLPB (fun k => pat.getD k 0) m ((Kmp.lookupTable pat).getD (m - 1) 0) :=
  Kmp.lookupTable_spec pat hne

example : Kmp.lookupTable #[97, 97, 98, 97, 97, 97] = #[0, 1, 0, 1, 2, 2] := by decide
example : Kmp.findAll [97, 97] [97, 97, 97, 97] 0 = [0, 1, 2] := by decide

/-! ### sort (boot.janet sort-help: median-of-three with `<=`, Hoare partition with `before?`) -/

/-- ☆ `sort_perm_sorted` (full strength): for EVERY strict weak order `before?` (irreflexive, asymmetric, negatively
    transitive) and whatever `<=` picks the median, the mirror of `(sort ind before?)`
      * returns `ok` with the model's fuel `length + 1` for the recursion, `size + 2` for each partition loop and `size + 1`
        for each scan — i.e. the janet code terminates (recursion depth ≤ length) and no `(in a k)` is ever out of range,
      * returns a permutation of the input of the same size,
      * and the result is ordered: no element is `before?` an earlier one.
    Proof: `Sort.partitionLoop_spec` (Hoare invariant with sentinels) and `Sort.sortHelp_spec` (range permutations as
    injective index maps; the overlapping case `left' = right'` uses injectivity as the counting argument).
    Non-strict comparators are outside the hypothesis — and outside the property ("for every strict ordering function"):
    e.g. for `>=` on `#[2, 8, -8]` the recursion does not make progress (see the `example` below: the model runs out of any
    fuel; the real interpreter grows its fiber stack until memory is exhausted), for others `in` raises an index error. -/
theorem sort_perm_sorted {α : Type} (le before : α → α → Bool) (hswo : Sort.SWO before) (a : Array α) :
    ∃ r, Sort.sort le before a = .ok r ∧ Array.Perm r a ∧ r.size = a.size ∧
      ∀ i j (hij : i < j) (hj : j < r.size), before r[j] (r[i]'(by omega)) = false :=
  Sort.sort_sorted le before hswo a

/-- for ANY comparator (strict or not): whenever `sort` returns, nothing was lost or duplicated -/
theorem sort_perm_any_comparator {α : Type} (le before : α → α → Bool) (a r : Array α)
    (h : Sort.sort le before a = .ok r) : Array.Perm r a ∧ r.size = a.size := by
  have hp := Sort.sort_perm le before a r h
  exact ⟨hp, by simpa using hp.toList.length_eq⟩

/-- partition step: the left scan stops at the first element that is not `before?` the pivot; with a sentinel at or after
    `left` it neither indexes outside the array nor exhausts its fuel. -/
theorem partition_scan_left {α : Type} (before : α → α → Bool) (a : Array α) (pivot : α) (left s : Nat) (x : α)
    (hs : left ≤ s) (hx : a[s]? = some x) (hnb : before x pivot = false) :
    ∃ k, Sort.scanLeft before a pivot (a.size + 1) left = .ok k ∧ left ≤ k ∧ k ≤ s ∧
      (∃ y, a[k]? = some y ∧ before y pivot = false) ∧
      ∀ i, left ≤ i → i < k → ∃ y, a[i]? = some y ∧ before y pivot = true := by
  have hsz : s < a.size := by
    rcases Nat.lt_or_ge s a.size with h | h
    · exact h
    · rw [Array.getElem?_eq_none h] at hx; simp at hx
  obtain ⟨k, hk, hks⟩ := Sort.scanLeft_sentinel before a pivot (a.size + 1) left s x hs hx hnb (by omega)
  obtain ⟨h1, h2, h3⟩ := Sort.scanLeft_ok before a pivot _ left k hk
  exact ⟨k, hk, h1, hks, h2, h3⟩

/-- ☆ partition step of `sort-help` for every strict weak order `before?` (and any `<=` used for the median): started as
    in the janet code it returns `ok`, i.e. no `in` out of range and no fuel exhaustion; only `[lo,hi]` is permuted;
    afterwards everything left of `left'` is not after the pivot, everything right of `right'` is not before it,
    `right' ≤ left'`, `lo < left'` and `right' < hi`. -/
theorem partition_step {α : Type} (le before : α → α → Bool) (hswo : Sort.SWO before) (a : Array α) (lo hi : Nat)
    (hlt : lo < hi) (hsz : hi < a.size) :
    let pivot := Sort.medianOfThree le a[lo] (a[(lo + hi) / 2]'(by omega)) a[hi]
    ∃ a' l' r', Sort.partitionLoop before pivot (a.size + 2) a lo hi = .ok (a', l', r') ∧
      Sort.PPost before pivot lo hi a a' l' r' :=
  Sort.partition_step le before hswo a lo hi hlt hsz

example : Sort.SWO (fun (a b : Int) => decide (a % 4 < b % 4)) :=
  ⟨fun x => by simp, fun x y h => by simp at h ⊢; omega, fun x y z h1 h2 => by simp at h1 h2 ⊢; omega⟩

example : Sort.sort (fun a b => decide (a ≤ b)) (fun a b => decide (a % 4 < b % 4)) #[3, 1, 2, 5, 4, 1]
    = .ok #[4, 5, 1, 1, 2, 3] := by decide
/-- a non-strict comparator makes the real code recurse without bound; the model reports fuel exhaustion -/
example : Sort.sort (fun a b => decide (a ≤ b)) (fun a b => decide (a ≥ b)) #[2, 8, -8] = .fuel := by decide

/-! ### ★★ the C code itself: mirrors of string.c (Lib/StrC.lean, loop by loop) compute the reference definitions

   Each mirror returns `R.ok v` / `R.panic` (janet error) / `R.ub` (the C would execute undefined behaviour: out-of-range
   index, signed overflow, negative copy size, shift ≥ width).  An equation `mirror = .ok (Spec …)` / `= R.ofOption (Spec …)`
   therefore says: same value for ALL inputs, an error exactly where the C raises, and never UB.  The source text each
   mirror was transcribed from is compared with the current tree by the theorems of Lib/SrcTie.lean on every run. -/

/-- `trim_help_checkset` / `trim_help_leftedge` / `trim_help_rightedge` (early-return scans, the right one downwards) -/
theorem mirror_trim_edges (s set : Bytes) (x : Nat) :
    StrC.checkset set x = .ok (inSet set x) ∧
    StrC.leftedge s set = .ok ((leftEdge s set : Nat) : Int) ∧
    StrC.rightedge s set = .ok ((rightEdge s set : Nat) : Int) :=
  ⟨StrC.checkset_spec set x, StrC.leftedge_spec s set, StrC.rightedge_spec s set⟩

/-- `string/trim`, `string/triml`, `string/trimr` for every string and every (default or custom) set -/
theorem mirror_trim (s set : Bytes) :
    StrC.trim s set = .ok (trim s set) ∧ StrC.triml s set = .ok (triml s set) ∧ StrC.trimr s set = .ok (trimr s set) :=
  ⟨StrC.trim_eq_spec s set, StrC.triml_eq_spec s set, StrC.trimr_eq_spec s set⟩

/-- `string/reverse` (two counters), `string/ascii-lower/upper` (the uint8 store does not wrap), `string/bytes` -/
theorem mirror_reverse_case_bytes (s : Bytes) :
    StrC.reverse s = .ok s.reverse ∧ StrC.asciiLower s = .ok (asciiLower s) ∧ StrC.asciiUpper s = .ok (asciiUpper s) ∧
    StrC.bytes s = .ok (s.map (fun (c : Nat) => (c : Int))) :=
  ⟨StrC.reverse_eq_spec s, StrC.asciiLower_eq_spec s, StrC.asciiUpper_eq_spec s, StrC.bytes_eq_spec s⟩

/-- `string/has-prefix?` / `string/has-suffix?` (length guard + `memcmp` as a byte loop that never reads outside) -/
theorem mirror_prefix_suffix (p s : Bytes) :
    StrC.hasPrefix p s = .ok (hasPrefix p s) ∧ StrC.hasSuffix p s = .ok (hasSuffix p s) :=
  ⟨StrC.hasPrefix_eq_spec p s, StrC.hasSuffix_eq_spec p s⟩

/-- `string/slice` = `janet_getslice` decode + `janet_stringv` copy: error iff the decode fails, never out of bounds -/
theorem mirror_string_slice (s : Bytes) (st en : Option Int) : StrC.slice s st en = R.ofOption (slice s st en) :=
  StrC.slice_eq_spec s st en

/-- `string/repeat`: errors for `n < 0` and `n * len > INT32_MAX` (int64 product cannot overflow), else `n` copies -/
theorem mirror_repeat (s : Bytes) (rep : Int) (hs : Len32 s) (hr : in32 rep = true) :
    StrC.repeatStr s rep = R.ofOption (repeatBytes s rep) := StrC.repeat_eq_spec s rep hs hr

/-- `string/check-set` through the real `uint32_t bitset[8]` (`>> 5`, `& 0x1F`, `(uint32_t)1 << k`) -/
theorem mirror_checkset (set s : Bytes) (hset : ∀ c ∈ set, c < 256) (hs : ∀ c ∈ s, c < 256) :
    StrC.checkSet set s = .ok (checkSet set s) := StrC.checkSet_eq_spec set s hset hs

/-- `string/find` and `string/find-all` at cfun level (`findsetup`: negative start / empty pattern raise; a start beyond the
    end gives nil / @[]; the find-all loop terminates within `textlen + 2` calls of `kmp_next`) -/
theorem mirror_find (pat text : Bytes) (start : Option Int) :
    (StrC.find pat text start = match StrC.startNat start with
      | none => .panic
      | some st => R.ofOption (find pat text st)) ∧
    (StrC.findAll pat text start = match StrC.startNat start with
      | none => .panic
      | some st => if pat = [] then .panic else .ok (findAll pat text st)) :=
  ⟨StrC.find_eq_spec pat text start, StrC.findAll_eq_spec pat text start⟩

/-- `string/split` with start and limit, for EVERY int32 limit: the short-circuit `(limit < 0 || --limit)` never
    decrements a negative limit, so no signed overflow (`.ub`) — with the unguarded `--limit` of the pinned tree the
    mirror is `.ub` for `limit = -2147483648` and this theorem cannot be proved. -/
theorem mirror_split (pat text : Bytes) (start limit : Option Int) (h32 : in32 (limit.getD (-1)) = true) :
    StrC.split pat text start limit = match StrC.startNat start with
      | none => .panic
      | some st => R.ofOption (split pat text st (limit.getD (-1))) :=
  StrC.split_eq_spec pat text start limit h32

/-- `string/join`: separator placement, the int64 length accumulator (never overflows) and its INT32_MAX check (raises
    iff the result would be too long), the moving output pointer (every memcpy inside the result buffer) -/
theorem mirror_join (parts : List Bytes) (sep : Bytes) (hsep : Len32 sep) (hp : ∀ p ∈ parts, Len32 p) :
    StrC.join parts sep = if ((join parts sep).length : Int) ≤ int32Max then .ok (join parts sep) else .panic :=
  StrC.join_eq_spec parts sep hsep hp

example : StrC.split [44] [97, 44, 98, 44, 99] none (some 2) = .ok [[97], [98, 44, 99]] := by decide
example : StrC.join [[97], [98]] [45, 45] = .ok [97, 45, 45, 98] ∧ StrC.trim [32, 97, 32] trimSet = .ok [97] := by decide

/-! ### ★★ mirrors of array.c / tuple.c (Lib/ArrC.lean) and buffer.c (Lib/BufC.lean) -/

/-- `array/insert` for every `at` (non-int32, negative, out of range) when the new length fits an int32 -/
theorem mirror_array_insert {α : Type} [Inhabited α] (a : List α) (at_ : Int) (xs : List α)
    (hlen : (a.length : Int) + (xs.length : Int) ≤ int32Max) :
    ArrC.insert a at_ xs = R.ofOption (arrayInsert a at_ xs) := ArrC.insert_eq_spec a at_ xs hlen

/-- `array/remove` for every int32 `at` and `n`: the clamp `if (n > count - at) n = count - at` keeps `at + n` and
    `count - at - n` inside int32 (the pinned tree's `at + n` overflowed for `n = 2147483647`) and the memmove inside the array -/
theorem mirror_array_remove {α : Type} (a : List α) (at_ : Int) (n : Option Int) (hL : Len32 a) :
    ArrC.remove a at_ n = R.ofOption (arrayRemove a at_ (n.getD 1)) := ArrC.remove_eq_spec a at_ n hL

/-- `array/slice`, `tuple/slice` -/
theorem mirror_array_slice {α : Type} [Inhabited α] (l : List α) (st en : Option Int) :
    ArrC.slice l st en = R.ofOption (slice l st en) := ArrC.slice_eq_spec l st en

/-- `bitloc` and `buffer/bit`, `bit-set`, `bit-clear`, `bit-toggle` with the C's `|=`, `&= ~`, `^=`, `&` on the byte -/
theorem mirror_bitops (b : Bytes) (x : Int) (hx : in64 x = true) (hb : ∀ c ∈ b, c < 256) :
    BufC.bitloc b x = R.ofOption (bitloc b x) ∧
    BufC.bitGet b x = R.ofOption (bitGet b x) ∧ BufC.bitSet b x = R.ofOption (bitSet b x) ∧
    BufC.bitClear b x = R.ofOption (bitClear b x) ∧ BufC.bitToggle b x = R.ofOption (bitToggle b x) :=
  ⟨BufC.bitloc_eq_spec b x hx, BufC.bitops_eq_spec b x hx hb⟩

/-- `buffer/fill` (memset) and `buffer/popn` -/
theorem mirror_buffer_fill_popn (b : Bytes) (v : Int) (hL : Len32 b) :
    BufC.fill b v = .ok (bufferFill b v) ∧ BufC.popn b v = R.ofOption (bufferPopn b v) :=
  ⟨BufC.fill_eq_spec b v, BufC.popn_eq_spec b v hL⟩

/-- `buffer/blit`, also of a buffer into itself: offsets, the `length_src < 0` clamp, the INT32_MAX check, growth, copy -/
theorem mirror_buffer_blit (dest : Bytes) (src : Option Bytes) (ds ss : Option Int) (se : Option (Option Int))
    (hd : Len32 dest) (hs : ∀ l, src = some l → Len32 l) :
    BufC.blit dest src ds ss se = R.ofOption (bufferBlit dest src ds ss se) := BufC.blit_eq_spec dest src ds ss se hd hs

/-! ### ★★ boot.janet sequence functions (Lib/Boot.lean: the macro-expanded `next` / `in` loops) -/

/-- `each`-based combinators: `reduce`, `filter`, `map` and `count` over one sequence, `sum`, `product` -/
theorem boot_each_family {α β : Type} (f : β → α → β) (init : β) (g : α → β) (pred : α → Bool) (ind : List α) (xs : List Int) :
    Boot.reduce f init ind = .ok (reduce f init ind) ∧ Boot.filter pred ind = .ok (ind.filter pred) ∧
    Boot.map1 g ind = .ok (ind.map g) ∧ Boot.count1 pred ind = .ok (ind.countP pred) ∧
    Boot.sum xs = .ok (sumI xs) ∧ Boot.product xs = .ok (productI xs) :=
  ⟨Boot.reduce_eq_spec f init ind, Boot.filter_eq_spec pred ind, Boot.map1_eq_spec g ind, Boot.count1_eq_spec pred ind,
   Boot.sum_eq_spec xs, Boot.product_eq_spec xs⟩

/-- `(map f ind ind0)` (map-template branch `map-n 1`) stops at the shorter sequence -/
theorem boot_map2 {α β γ : Type} (f : α → β → γ) (ind : List α) (ind0 : List β) :
    Boot.map2 f ind ind0 = .ok (List.zipWith f ind ind0) ∧ (List.zipWith f ind ind0).length = min ind.length ind0.length :=
  ⟨Boot.map2_eq_spec f ind ind0, by simp⟩

/-- `find-index`, and `take-until` / `take-while` / `drop-until` / `drop-while` built on it -/
theorem boot_find_index_family {α : Type} (pred : α → Bool) (ind : List α) :
    Boot.findIndex pred ind = .ok (ind.findIdx? pred) ∧
    Boot.takeUntil pred ind = .ok (ind.takeWhile (fun x => !pred x)) ∧ Boot.takeWhile pred ind = .ok (takeWhileL pred ind) ∧
    Boot.dropUntil pred ind = .ok (ind.dropWhile (fun x => !pred x)) ∧ Boot.dropWhile pred ind = .ok (dropWhileL pred ind) :=
  ⟨Boot.findIndex_eq_spec pred ind, Boot.takeUntil_eq_spec pred ind, Boot.takeWhile_eq_spec pred ind,
   Boot.dropUntil_eq_spec pred ind, Boot.dropWhile_eq_spec pred ind⟩

/-- `take` / `drop` on indexed and bytes values for EVERY `n`: `take-n-slice` / `drop-n-slice` never pass an out-of-range
    index to `tuple/slice` / `string/slice` -/
theorem boot_take_drop {α : Type} (n : Int) (ind : List α) :
    Boot.take n ind = .ok (takeN n ind) ∧ Boot.drop n ind = .ok (dropN n ind) :=
  ⟨Boot.take_eq_spec n ind, Boot.drop_eq_spec n ind⟩

/-- `extreme` (and `max`, `min`, `max-of`, `min-of`, all instances of the macro `do-extreme`) -/
theorem boot_extreme {α : Type} (order : α → α → Bool) (ds : List α) : Boot.extreme order ds = .ok (extreme order ds) :=
  Boot.extreme_eq_spec order ds

example : ArrC.remove [1, 2, 3] 1 (some 2147483647) = .ok [1] ∧ BufC.bitSet [0] 3 = .ok [8] := by decide
example : Boot.take (-2) [1, 2, 3] = .ok [2, 3] ∧ Boot.map2 (fun (a b : Nat) => a * b) [1, 2, 3] [4, 5] = .ok [4, 10] := by decide

/-! ### ★★ second group of mirrors: tuple/join, array/concat, the buffer push family, more boot.janet -/

/-- `tuple/join`: the int32 length accumulator is checked before every addition; raises iff the result is too long -/
theorem mirror_tuple_join {α : Type} [Inhabited α] (parts : List (List α)) (hp : ∀ p ∈ parts, Len32 p) :
    ArrC.tupleJoin parts = if (parts.flatten.length : Int) ≤ int32Max then .ok parts.flatten else .panic :=
  ArrC.tupleJoin_eq_spec parts hp

/-- `array/concat`, also of an array onto itself (`len` captured before the pushes; `vals[j]` read from the growing array) -/
theorem mirror_array_concat {α : Type} (a : List α) (parts : List (ConcatArg α))
    (h : ((arrayConcat a parts).length : Int) ≤ int32Max) : ArrC.concat a parts = .ok (arrayConcat a parts) :=
  ArrC.concat_eq_spec a parts h

/-- `buffer_push_impl` (`buffer/push`, and with byte-sequence arguments `buffer/push-string`): contents after the call —
    also after a call that raised part-way — and the error condition are those of the reference definition; stale cells
    beyond the count are untouched (invariant `BufPush.Inv`) -/
theorem mirror_buffer_push (D : List Nat) (xs : List PushArg) (b : BufPush.Buf) (hI : BufPush.Inv D b)
    (h32 : ((bufferPushSt (BufPush.contents b) xs).2.length : Int) ≤ int32Max) :
    BufPush.contents (BufPush.push b xs).1 = (bufferPushSt (BufPush.contents b) xs).2 ∧
    (BufPush.push b xs).2 = (if (bufferPushSt (BufPush.contents b) xs).1 then .ok () else .panic) ∧
    BufPush.Inv D (BufPush.push b xs).1 := BufPush.pushImpl_spec D xs b hI h32

/-- `buffer/push-at`: set count to `index`, push, restore the count if it ended smaller — the old tail bytes reappear -/
theorem mirror_buffer_push_at (bs : Bytes) (index : Int) (xs : List PushArg) (r : Bytes)
    (hspec : bufferPushAt bs index xs = some r) (h32 : (r.length : Int) ≤ int32Max) :
    BufPush.contents (BufPush.pushAt { data := bs.toArray, count := bs.length } index xs).1 = r ∧
    (BufPush.pushAt { data := bs.toArray, count := bs.length } index xs).2 = .ok () :=
  BufPush.pushAt_eq_spec bs index xs r hspec h32

/-- boot.janet `index-of`, `find`, `reverse`, `reduce2`, `zipcoll` -/
theorem boot_more {α β : Type} [BEq α] [Inhabited α] (x : α) (pred : α → Bool) (f : α → α → α) (ind : List α) (vs : List β) :
    Boot.indexOf x ind = .ok (ind.findIdx? (fun y => y == x)) ∧ Boot.find pred ind = .ok (ind.find? pred) ∧
    Boot.reverse ind = .ok ind.reverse ∧
    Boot.reduce2 f ind = .ok (match ind with | [] => none | y :: ys => some (ys.foldl f y)) ∧
    Boot.zipcoll ind vs = .ok (zipcoll ind vs) :=
  ⟨Boot.indexOf_eq_spec x ind, Boot.find_eq_spec pred ind, Boot.reverse_eq_spec ind, Boot.reduce2_eq_spec f ind,
   Boot.zipcoll_eq_spec ind vs⟩

example : BufPush.contents (BufPush.pushAt { data := #[1, 2, 3, 4, 5], count := 5 } 1 [.byte 9]).1 = [1, 9, 3, 4, 5] := by decide
example : ArrC.concat [1] [.self, .self] = .ok [1, 1, 1, 1] ∧ ArrC.tupleJoin [[1], [2, 3]] = .ok [1, 2, 3] := by decide

/-- `string/replace` and `string/replace-all` at cfun level with a string substitution: the int32 size / offset arithmetic
    and the three tiling memcpys of `replace`; the growing result buffer of `replace-all` -/
theorem mirror_replace (pat subst text : Bytes) (start : Option Int)
    (hlen : (text.length : Int) - (pat.length : Int) + (subst.length : Int) ≤ int32Max) (ht : Len32 text) (hs : Len32 subst)
    (h32 : ∀ st r, StrC.startNat start = some st → replaceAll pat subst text st = some r → (r.length : Int) ≤ int32Max) :
    (StrC.replace pat subst text start = match StrC.startNat start with
      | none => .panic
      | some st => R.ofOption (replace pat subst text st)) ∧
    (StrC.replaceAll pat subst text start = match StrC.startNat start with
      | none => .panic
      | some st => R.ofOption (replaceAll pat subst text st)) :=
  ⟨StrC.replace_eq_spec pat subst text start hlen ht hs, StrC.replaceAll_eq_spec pat subst text start h32⟩

example : StrC.replaceAll [97, 97] [120] [97, 97, 97, 97, 97] none = .ok [120, 120, 97] := by decide

/-- boot.janet `partition` (pre-sized result array, `forv` loop over the full chunks, one shorter last chunk) and
    `distinct` (`seen` table); `distinct` for a lawful equality on the elements -/
theorem boot_partition_distinct {α : Type} [BEq α] [LawfulBEq α] (n : Nat) (hn : 1 ≤ n) (ind : List α) :
    Boot.partition (n : Int) ind = .ok (partition n ind) ∧ Boot.distinct ind = .ok (distinct ind) :=
  ⟨Boot.partition_eq_spec n hn ind, Boot.distinct_eq_spec ind⟩

example : Boot.partition 2 [1, 2, 3] = .ok [[1, 2], [3]] ∧ Boot.distinct [1, 1, 2] = .ok [1, 2] := by decide

/-- `(map f ind ind0 ind1)` (map-template branch `map-n 2`), `array/fill`, `string/from-bytes` (raises at the first
    non-int32 argument) -/
theorem mirror_map3_fill_frombytes {α β γ δ : Type} (f : α → β → γ → δ) (ind : List α) (ind0 : List β) (ind1 : List γ)
    (x : α) (argv : List Int) :
    Boot.map3 f ind ind0 ind1 = .ok (List.zipWith (fun (p : α × β) z => f p.1 p.2 z) (List.zip ind ind0) ind1) ∧
    ArrC.fill ind x = .ok (arrayFill ind x) ∧
    StrC.fromBytes argv = R.ofOption ((argv.mapM getInt32).map (fun l => l.map toByte)) :=
  ⟨Boot.map3_eq_spec f ind ind0 ind1, ArrC.fill_eq_spec ind x, StrC.fromBytes_eq_spec argv⟩

/-! ### ★★ session 4: the remaining boot.janet sequence functions -/

/-- `map-template` with the aggregators `:keep`, `:mapcat`, `:count`: branch `0` (one sequence) and branch `map-n 1`
    (two sequences) for ANY aggregator that does not `(break)` — the loop folds the aggregator over the pairs up to the
    shorter sequence, and no `(in …)` is out of range -/
theorem boot_map_template {α β γ σ : Type} (pred : α → Option γ) (f : α → List γ) (agg : σ → α → β → σ) (init : σ)
    (pred2 : α → β → Option γ) (f2 : α → β → List γ) (p2 : α → β → Bool) (ind : List α) (ind0 : List β) :
    Boot.keep1 pred ind = .ok (ind.filterMap pred) ∧ Boot.mapcat1 f ind = .ok (ind.flatMap f) ∧
    Boot.mapN1 agg init ind ind0 = .ok ((List.zip ind ind0).foldl (fun s p => agg s p.1 p.2) init) ∧
    Boot.keep2 pred2 ind ind0 = .ok ((List.zip ind ind0).filterMap (fun p => pred2 p.1 p.2)) ∧
    Boot.mapcat2 f2 ind ind0 = .ok ((List.zip ind ind0).flatMap (fun p => f2 p.1 p.2)) ∧
    Boot.count2 p2 ind ind0 = .ok ((List.zip ind ind0).countP (fun p => p2 p.1 p.2)) :=
  ⟨Boot.keep1_eq_spec pred ind, Boot.mapcat1_eq_spec f ind, Boot.mapN1_eq_spec agg init ind ind0,
   Boot.keep2_eq_spec pred2 ind ind0, Boot.mapcat2_eq_spec f2 ind ind0, Boot.count2_eq_spec p2 ind ind0⟩

/-- `interleave` = `(mapcat tuple ;cols)` for one and two columns: rows up to the shorter column -/
theorem boot_interleave {α : Type} (c0 c1 : List α) :
    Boot.interleave1 c0 = .ok (interleave [c0]) ∧ Boot.interleave2 c0 c1 = .ok (interleave [c0, c1]) :=
  ⟨Boot.interleave1_eq_spec c0, Boot.interleave2_eq_spec c0 c1⟩

/-- `interpose` on an indexed / bytes value: the array pre-sized to `2·len − 1` receives element `k` at index `2k`; no
    `put` lands outside it (which would silently extend the array), `array/new-filled` never gets a negative count -/
theorem boot_interpose {α : Type} (sep : α) (ind : List α) : Boot.interpose sep ind = .ok (interpose sep ind) :=
  Boot.interpose_eq_spec sep ind

/-- `frequencies` and `group-by` (a table updated inside `each`; tables as association lists in insertion order): every
    key once, in order of first occurrence, with the exact count / exactly the elements of that key in order -/
theorem boot_frequencies_group_by {α κ : Type} [BEq α] [LawfulBEq α] [BEq κ] [LawfulBEq κ] (f : α → κ) (ind : List α) :
    Boot.frequencies ind = .ok (frequencies ind) ∧ Boot.groupBy f ind = .ok (groupBy f ind) :=
  ⟨Boot.frequencies_eq_spec ind, Boot.groupBy_eq_spec f ind⟩

/-- `sort-by`, `sorted`, `sorted-by`: for a strict weak `<` on the keys (resp. `before?`) the result is an ordered
    permutation; `sorted` / `sorted-by` sort a copy made by `(array/slice ind)` (mirror `ArrC.slice`), whatever `ind` is -/
theorem boot_sort_wrappers {α κ : Type} [Inhabited α] (le before : α → α → Bool) (lt : κ → κ → Bool) (f : α → κ)
    (hb : Sort.SWO before) (hlt : Sort.SWO lt) (a : Array α) (ind : List α) :
    (∃ r, Boot.sortBy le lt f a = .ok r ∧ Array.Perm r a ∧ r.size = a.size ∧
      ∀ i j (hij : i < j) (hj : j < r.size), lt (f r[j]) (f (r[i]'(by omega))) = false) ∧
    (∃ r, Boot.sorted le before ind = .ok r ∧ Array.Perm r ind.toArray ∧ r.size = ind.length ∧
      ∀ i j (hij : i < j) (hj : j < r.size), before r[j] (r[i]'(by omega)) = false) ∧
    (∃ r, Boot.sortedBy le lt f ind = .ok r ∧ Array.Perm r ind.toArray ∧ r.size = ind.length ∧
      ∀ i j (hij : i < j) (hj : j < r.size), lt (f r[j]) (f (r[i]'(by omega))) = false) :=
  ⟨Boot.sortBy_sorted le lt f hlt a, Boot.sorted_sorted le before hb ind, Boot.sortedBy_sorted le lt f hlt ind⟩

example : Boot.interpose 0 [1, 2, 3] = .ok [1, 0, 2, 0, 3] ∧ Boot.interleave2 [1, 2, 3] [7, 8] = .ok [1, 7, 2, 8] ∧
    Boot.frequencies [3, 1, 3] = .ok [(3, 2), (1, 1)] ∧ Boot.groupBy (fun (a : Nat) => a % 2) [3, 4, 5] = .ok [(1, [3, 5]), (0, [4])] ∧
    Boot.keep1 (fun (a : Nat) => if a % 2 == 0 then some (a + 1) else none) [1, 2, 4] = .ok [3, 5] := by decide
example : Sort.SWO (fun (a b : Int) => decide (a < b)) := Boot.int_lt_swo

/-! ### ★★ session 4: the remaining buffer.c / array.c cfuns -/

/-- `buffer/push-word` (`janet_buffer_push_u32`: four masked / shifted stores): contents after the call — also after a call
    that raised part-way — and the error condition; with `Spec.pushWord` as the all-or-nothing view of the same -/
theorem mirror_push_word (D : List Nat) (xs : List Int) (b : BufPush.Buf) (hI : BufPush.Inv D b)
    (h32 : ((BufPush.pushWordSt (BufPush.contents b) xs).2.length : Int) ≤ int32Max) :
    BufPush.contents (BufPush.pushWord b xs).1 = (BufPush.pushWordSt (BufPush.contents b) xs).2 ∧
    (BufPush.pushWord b xs).2 = (if (BufPush.pushWordSt (BufPush.contents b) xs).1 then .ok () else .panic) ∧
    BufPush.Inv D (BufPush.pushWord b xs).1 ∧
    pushWord (BufPush.contents b) xs = (if (BufPush.pushWordSt (BufPush.contents b) xs).1
      then some (BufPush.pushWordSt (BufPush.contents b) xs).2 else none) :=
  let h := BufPush.pushWord_spec D xs b hI h32
  ⟨h.1, h.2.1, h.2.2, BufPush.pushWordSt_spec _ xs⟩

/-- `buffer/push-uint16|32|64`: unknown byte order or a value outside `[0, 2^(8n))` raises; otherwise the `n` bytes are
    appended in the requested order (`reverse_u32` / `reverse_u64` as the explicit swaps of the C; little-endian target) -/
theorem mirror_push_uint (D : List Nat) (b : BufPush.Buf) (nbytes : Nat) (hn : nbytes = 2 ∨ nbytes = 4 ∨ nbytes = 8)
    (order : Bytes) (data : Int) (hI : BufPush.Inv D b) (h32 : (b.count : Int) + (nbytes : Int) ≤ int32Max) :
    (BufPush.shouldReverse order = .panic → BufPush.pushUintC b nbytes order data = .panic) ∧
    (∀ be, BufPush.shouldReverse order = .ok be →
      (pushUint (BufPush.contents b) nbytes be data = none → BufPush.pushUintC b nbytes order data = .panic) ∧
      (∀ r, pushUint (BufPush.contents b) nbytes be data = some r →
        ∃ b', BufPush.pushUintC b nbytes order data = .ok b' ∧ BufPush.contents b' = r ∧ BufPush.Inv D b')) :=
  BufPush.pushUintC_spec D b nbytes hn order data hI h32

/-- `buffer/new-filled`, `array/new-filled`, `array/push` (raises exactly when the new count would reach INT32_MAX; neither
    `INT32_MAX - argc + 1` nor `count - 1 + argc` overflows), `array/pop`, `array/peek` -/
theorem mirror_new_filled_push_pop {α : Type} [Inhabited α] (count byte : Int) (x : α) (a xs : List α) (ha : Len32 a)
    (hx : (xs.length : Int) + 1 ≤ int32Max) :
    BufPush.newFilledC count byte = .ok (newFilled count byte) ∧
    ArrC.newFilled count x = (if count < 0 then .panic else .ok (List.replicate count.toNat x)) ∧
    ArrC.pushC a xs = (if int32Max ≤ (a.length : Int) + (xs.length : Int) then .panic else .ok (a ++ xs)) ∧
    ArrC.pop a = .ok (a.getLast?, a.dropLast) ∧ ArrC.peek a = .ok a.getLast? :=
  ⟨BufPush.newFilledC_eq_spec count byte, ArrC.newFilled_eq_spec count x, ArrC.pushC_eq_spec a xs ha hx,
   (ArrC.pop_peek_eq_spec a ha).1, (ArrC.pop_peek_eq_spec a ha).2⟩

example : BufPush.contents (BufPush.pushWord { data := #[7], count := 1 } [258, -1, 3]).1 = [7, 2, 1, 0, 0] ∧
    BufPush.reverseU32 #[1, 2, 3, 4] = .ok #[4, 3, 2, 1] ∧ ArrC.pushC [1] [2, 3] = .ok [1, 2, 3] := by decide

/-- `flatten` / `flatten-into`: the leaves in left-to-right order for every nesting (the mirror's recursion fuel only has
    to exceed the nesting depth); `reverse!`: the in-place two-index swap loop `(while (< i (-- j)) …)` reverses for every
    length with no `in` / `put` outside the array; `merge` / `merge-into` over collections with distinct keys: later
    collections win, `(in c key)` always finds the key it was given by the `:keys` iteration -/
theorem boot_flatten_reverse_merge {α κ β : Type} [BEq κ] [LawfulBEq κ] (fuel : Nat) (xs : List (Boot.Nest α))
    (hf : Boot.depthList xs < fuel) (t : List α) (tab : List (κ × β)) (colls : List (List (κ × β)))
    (hnd : ∀ c ∈ colls, (c.map (·.1)).Nodup) :
    Boot.flatten fuel xs = .ok (Boot.flatList xs) ∧ Boot.reverseBang t = .ok t.reverse ∧
    Boot.mergeInto tab colls = .ok (colls.foldl (fun acc c => c.foldl (fun acc kv => assocPut acc kv.1 kv.2) acc) tab) ∧
    Boot.merge colls = .ok (merge colls) :=
  ⟨Boot.flatten_eq_spec fuel xs hf, Boot.reverseBang_eq_spec t, Boot.mergeInto_eq_spec tab colls hnd,
   Boot.merge_eq_spec colls hnd⟩

example : Boot.flatten 3 [.leaf 1, .node [.leaf 2, .node [.leaf 3]]] = .ok [1, 2, 3] ∧
    Boot.reverseBang [1, 2, 3, 4] = .ok [4, 3, 2, 1] ∧ Boot.merge [[(1, 10)], [(1, 11), (2, 20)]] = .ok [(1, 11), (2, 20)] := by decide

/-- `map-n n` for EVERY n (map-template instantiates n = 1, 2, 3) and the general branch of map-template (`iter-keys` /
    `call-buffer` arrays, `forv` with `(break)`, `done` flag), with any aggregator that does not itself `(break)` (:map,
    :mapcat, :keep, :count): both fold the aggregator over the rows `j < m`, `m` the length of the shortest of all the
    sequences — so `map` / `mapcat` / `keep` / `count` over any number of sequences stop at the shortest one, never index
    out of range and terminate; `interleave` of any number of columns is that fold with `mapcat tuple` -/
theorem boot_map_any_arity {α β γ σ : Type} (agg : σ → γ → σ) (f : α → List β → γ) (init : σ) (ind : List α)
    (inds : List (List β)) (c0 : List α) (cols : List (List α)) :
    Boot.mapN agg f init ind inds = .ok (Boot.mapRows agg f init ind inds) ∧
    Boot.mapGen agg f init ind inds = .ok (Boot.mapRows agg f init ind inds) ∧
    (Boot.mapRows (fun (res : Array α) (row : List α) => res ++ row.toArray) (fun x row => x :: row) #[] c0 cols).toList
      = interleave (c0 :: cols) :=
  ⟨Boot.mapN_eq_spec agg f init ind inds, Boot.mapGen_eq_spec agg f init ind inds, Boot.interleave_eq_mapRows c0 cols⟩

example : Boot.mapGen (fun (s : List Nat) v => s ++ [v]) (fun (x : Nat) row => x + row.foldl (· + ·) 0) [] [1, 2, 3]
    [[10, 20, 30], [100, 200], [1000, 2000, 3000], [0, 0, 0, 0]] = .ok [1111, 2222] ∧
    Boot.mapN (fun (s : List Nat) v => s ++ v) (fun (x : Nat) row => x :: row) [] [1, 2] [[3, 4], [5, 6, 7]] = .ok [1, 3, 5, 2, 4, 6] := by decide

/-- ★★ session 4d: boot.janet `some` and `all`, i.e. map-template with an aggregator that itself executes `(break)`
    (`:some ~(if (def y ,val) (do (set ,res y) (break)))`, `:all ~(if (def y ,val) nil (do (set ,res y) (break)))`), for ANY
    number of sequences — branch `0`, the `map-n` expansion for every `n`, the general branch (`iter-keys` / `call-buffer`,
    `forv`, `done` flag) and the `case ninds` dispatch between them.  `truthy` is janet truthiness of a result, `nilv` /
    `truev` the initial `(var res nil)` / `(var res true)`.  Every branch with every breaking aggregator is the stopping
    fold over the row results `(f x_j ;row_j)`, `j` below the length of the shortest sequence; hence `some` returns the
    first truthy result and nil when there is none, `all` the first falsey result and true when there is none, an empty
    sequence gives nil / true, no `(in …)` is out of range and the loops terminate (no `.panic` / `.ub` outcome). -/
theorem boot_some_all {α β γ σ : Type} (truthy : γ → Bool) (nilv truev : γ) (pred : α → List β → γ) (ind : List α)
    (inds : List (List β)) (agg : σ → γ → σ × Bool) (f : α → List β → γ) (init : σ) :
    Boot.someOf truthy nilv pred ind inds = .ok (((Boot.rowVals pred ind inds).find? truthy).getD nilv) ∧
    Boot.allOf truthy truev pred ind inds = .ok (((Boot.rowVals pred ind inds).find? (fun v => !truthy v)).getD truev) ∧
    Boot.mapNB agg f init ind inds = .ok (Boot.foldB agg init (Boot.rowVals f ind inds)) ∧
    Boot.mapGenB agg f init ind inds = .ok (Boot.foldB agg init (Boot.rowVals f ind inds)) ∧
    Boot.mapTemplateB agg f init ind inds = .ok (Boot.foldB agg init (Boot.rowVals f ind inds)) ∧
    (Boot.rowVals f ind inds).length ≤ ind.length ∧ (∀ c ∈ inds, (Boot.rowVals f ind inds).length ≤ c.length) :=
  ⟨Boot.someOf_eq_spec truthy nilv pred ind inds, Boot.allOf_eq_spec truthy truev pred ind inds,
   Boot.mapNB_eq_spec agg f init ind inds, Boot.mapGenB_eq_spec agg f init ind inds,
   Boot.mapTemplateB_eq_spec agg f init ind inds, Boot.rowVals_length_le f ind inds, Boot.rowVals_length_le_mem f ind inds⟩

example : Boot.someOf (fun (v : Option Nat) => v.isSome) none
      (fun (x : Nat) row => let t := row.foldl (· + ·) x; if t > 2000 then some t else none)
      [1, 2, 3, 4] [[10, 20, 30], [100, 200, 300], [1000, 2000, 3000], [0, 0, 0, 0], [0, 0, 0]] = .ok (some 2222) ∧
    Boot.allOf (fun (v : Bool) => v) true (fun (x : Nat) row => decide (row.foldl (· + ·) x < 2000))
      [1, 2, 3, 4] [[10, 20, 30], [100, 200, 300], [1000, 2000, 3000], [0, 0, 0, 0]] = .ok false ∧
    Boot.allOf (fun (v : Bool) => v) true (fun (x : Nat) row => decide (row.foldl (· + ·) x < 2000))
      [1, 2, 3, 4] [[10, 20, 30], [100], [1000, 2000, 3000], [0, 0, 0, 0]] = .ok true ∧
    Boot.someOf (fun (v : Option Nat) => v.isSome) none (fun (x : Nat) (_ : List Nat) => if x > 2 then some x else none)
      [1, 2, 3, 4] [] = .ok (some 3) := by decide

/-! ### ★★ session 4: the directive scanner of string/format / buffer/format -/

/-- pp.c `scanformat` (the scanner that `janet_formatbv` runs on every `%` directive): for a format without embedded NUL it
    reads exactly the directive syntax of the reference formatter (`FormatC.parse`: flags by `takeWhile isFlag`, at most two
    width digits, an optional `.` with at most two precision digits) — same offset of the conversion character, same width
    and precision digits; it raises exactly for ≥ 6 flag characters ("repeated flags") and for a third digit ("width or
    precision too long"); it never reads past the format's terminating NUL and never writes outside the caller's
    `char form[MAX_FORMAT]` (the mirror has no `.ub` outcome; the `snprintf` format it builds is shorter than 32 bytes) -/
theorem mirror_scanformat (rest : Bytes) (hz : ∀ c ∈ rest, c ≠ 0) :
    (FormatC.parse rest = none → FormatC.scanformat rest = .panic) ∧
    (∀ p w pr, FormatC.parse rest = some (p, w, pr) →
      ∃ form, FormatC.scanformat rest = .ok { p := p, width := w, precision := pr, form := form } ∧
        form.length < FormatC.maxFormat) :=
  FormatC.scanformat_spec rest hz

example : FormatC.scanformat [45, 48, 49, 50, 46, 51, 100, 65]
    = .ok { p := 6, width := [49, 50], precision := [51], form := [37, 45, 48, 49, 50, 46, 51, 108, 100] } ∧
    FormatC.scanformat [45, 45, 45, 45, 45, 45, 100] = .panic ∧ FormatC.parse [49, 50, 51, 100] = none := by decide

/-- where `scanformat` raises on a directive, the reference formatter (`Format.go`, which reads the directive with the same
    expressions) stops with an error and exactly the output produced so far — the partial output `buffer/format` leaves -/
theorem format_error_where_scan_raises (fuel : Nat) (rest : Bytes) (hz : ∀ c ∈ rest, c ≠ 0) (c0 : Nat) (r0 : Bytes)
    (hr : rest = c0 :: r0) (h37 : c0 ≠ 37) (a : Format.FArg) (args : List Format.FArg) (out : Bytes)
    (hs : FormatC.scanformat rest = .panic) :
    Format.go (fuel + 1) (37 :: rest) (a :: args) out = .err out :=
  FormatC.go_error_of_scan_panic fuel rest hz c0 r0 hr h37 a args out hs

example : Format.format [97, 37, 49, 50, 51, 100] [.int 5] = .err [97] := by decide

/-- the per-directive item step of pp.c `janet_formatbv` and `janet_buffer_format` (string/format, buffer/format, the printf
    family, error messages): for EVERY complete rendering `full` that the C library produces for the directive — `snprintf`
    returns `full.length`, stores `min(full.length, bound − 1)` bytes and a NUL in `char item[size]` — the step either raises
    "format buffer overflow" (exactly when the item does not fit in 255 bytes) or appends exactly the bytes of the item to
    the output: no truncation, no terminating NUL, no indeterminate byte of `item[]`, no read or write outside `item[]` (the
    mirror has no `.ub` outcome).  The array size, the `snprintf` bound, the limit and the comparison operator (`>=` / `>`)
    of both functions are regenerated from the current pp.c (Gen/Lib.lean) on every run. -/
theorem format_item_exact_or_error (out full : Bytes) :
    FormatC.formatbvItem out full = FormatC.itemSpec out full ∧
    FormatC.bufferFormatItem out full = FormatC.itemSpec out full ∧
    (∀ r, FormatC.bufferFormatItem out full = .ok r → r = out ++ full ∧ full.length ≤ 255 ∧ (0 ∈ r → 0 ∈ out ∨ 0 ∈ full)) := by
  have h1 : FormatC.formatbvItem out full = FormatC.itemSpec out full := FormatC.itemStep_ge 256 (by decide) out full
  have h2 : FormatC.bufferFormatItem out full = FormatC.itemSpec out full := FormatC.itemStep_ge 256 (by decide) out full
  refine ⟨h1, h2, ?_⟩
  intro r hr
  rw [h2] at hr
  unfold FormatC.itemSpec FormatC.maxItem at hr
  by_cases hL : full.length ≥ 256
  · simp [hL] at hr
  · simp only [hL, if_false, R.ok.injEq] at hr
    subst hr
    exact ⟨rfl, by omega, fun h => List.mem_append.mp h⟩

/-- why the operator matters: with the strict test `nb > MAX_ITEM` an item of exactly 256 bytes is not rejected; the 255
    bytes that `snprintf` kept AND its terminating NUL are appended -/
theorem format_item_strict_test_appends_terminator (out full : Bytes) (hL : full.length = 256) :
    FormatC.itemStep 256 256 256 false out full = .ok (out ++ full.take 255 ++ [0]) :=
  FormatC.itemStep_gt_pushes_terminator 256 (by decide) out full hL

example : FormatC.bufferFormatItem [120] [52, 50] = .ok [120, 52, 50] ∧ FormatC.formatbvItem [] [] = .ok [] := by
  rw [(format_item_exact_or_error _ _).2.1, (format_item_exact_or_error _ _).1]; decide

example : FormatC.bufferFormatItem [120] (List.replicate 255 48) = .ok (120 :: List.replicate 255 48) ∧
    FormatC.bufferFormatItem [120] (List.replicate 256 48) = .panic := by
  rw [(format_item_exact_or_error _ _).2.1, (format_item_exact_or_error _ _).2.1]
  simp only [FormatC.itemSpec, FormatC.maxItem, List.length_replicate]
  exact ⟨by rw [if_neg (by decide)]; rfl, by rw [if_pos (by decide)]⟩

end JanetModel.Props.C17
