/- The registrations of a suspended fiber are KEPT until the step that schedules it.
   Part A: a relation `Evo cur w w'` that every transition of the model satisfies (`step_Evo`):
     * sched_ids only grow;
     * an entry that is new in a pending queue, a new timer, a newly suspended fiber belongs to the running fiber `cur`;
     * a new task carries a sched_id from the future of its fiber (it comes with a bump);
     * an entry that left a pending queue was stale, or its fiber's sched_id was bumped in the same transition.
   Part B: the ghost of the pending operation (`Ev/Ghost.lean`) and the invariant `KInv` over `(world, ghost)`.  -/
import JanetModel.Ev.Wakeup
import JanetModel.Ev.Ghost
namespace JanetModel.Ev

/-! ## Part A: how a transition may change queues, timers, tasks -/

/-- queue part -/
structure EvoQ (cur : Option Nat) (w w' : World) : Prop where
  mono : ∀ f, (w.fibers f).sched ≤ (w'.fibers f).sched
  newR : ∀ c p, p ∈ (w'.chans c).readPending → p ∈ (w.chans c).readPending ∨ cur = some p.fiber
  newW : ∀ c p, p ∈ (w'.chans c).writePending → p ∈ (w.chans c).writePending ∨ cur = some p.fiber
  goneR : ∀ c p, p ∈ (w.chans c).readPending → p ∉ (w'.chans c).readPending →
    p.sched ≠ (w.fibers p.fiber).sched ∨ (w.fibers p.fiber).sched < (w'.fibers p.fiber).sched
  goneW : ∀ c p, p ∈ (w.chans c).writePending → p ∉ (w'.chans c).writePending →
    p.sched ≠ (w.fibers p.fiber).sched ∨ (w.fibers p.fiber).sched < (w'.fibers p.fiber).sched

/-- scheduler part -/
structure EvoS (cur : Option Nat) (w w' : World) : Prop where
  mono : ∀ f, (w.fibers f).sched ≤ (w'.fibers f).sched
  newTm : ∀ t ∈ w'.timers, t ∈ w.timers ∨ cur = some t.fiber
  newTask : ∀ t ∈ w'.runq, t ∈ w.runq ∨ (w.fibers t.fiber).sched < t.expected
  pend : ∀ f, (w'.fibers f).status = .pending → (w.fibers f).status = .pending ∨ cur = some f

def Evo (cur : Option Nat) (w w' : World) : Prop := EvoQ cur w w' ∧ EvoS cur w w'

theorem EvoQ.refl (cur : Option Nat) (w : World) : EvoQ cur w w :=
  ⟨fun _ => Nat.le_refl _, fun _ _ h => Or.inl h, fun _ _ h => Or.inl h, fun _ _ h hn => absurd h hn,
   fun _ _ h hn => absurd h hn⟩

theorem EvoS.refl (cur : Option Nat) (w : World) : EvoS cur w w :=
  ⟨fun _ => Nat.le_refl _, fun _ h => Or.inl h, fun _ h => Or.inl h, fun _ h => Or.inl h⟩

theorem EvoQ.trans {cur : Option Nat} {a b c : World} (h1 : EvoQ cur a b) (h2 : EvoQ cur b c) : EvoQ cur a c := by
  refine ⟨fun f => Nat.le_trans (h1.mono f) (h2.mono f), ?_, ?_, ?_, ?_⟩
  · intro ch p hp
    rcases h2.newR ch p hp with h | h
    · exact h1.newR ch p h
    · exact Or.inr h
  · intro ch p hp
    rcases h2.newW ch p hp with h | h
    · exact h1.newW ch p h
    · exact Or.inr h
  · intro ch p hp hnp
    by_cases hb : p ∈ (b.chans ch).readPending
    · rcases h2.goneR ch p hb hnp with h | h
      · by_cases e : p.sched = (a.fibers p.fiber).sched
        · right
          have := h1.mono p.fiber; have := h2.mono p.fiber
          have : (a.fibers p.fiber).sched ≠ (b.fibers p.fiber).sched := fun e' => h (e.trans e')
          omega
        · exact Or.inl e
      · right; have := h1.mono p.fiber; omega
    · rcases h1.goneR ch p hp hb with h | h
      · exact Or.inl h
      · right; have := h2.mono p.fiber; omega
  · intro ch p hp hnp
    by_cases hb : p ∈ (b.chans ch).writePending
    · rcases h2.goneW ch p hb hnp with h | h
      · by_cases e : p.sched = (a.fibers p.fiber).sched
        · right
          have := h1.mono p.fiber; have := h2.mono p.fiber
          have : (a.fibers p.fiber).sched ≠ (b.fibers p.fiber).sched := fun e' => h (e.trans e')
          omega
        · exact Or.inl e
      · right; have := h1.mono p.fiber; omega
    · rcases h1.goneW ch p hp hb with h | h
      · exact Or.inl h
      · right; have := h2.mono p.fiber; omega

theorem EvoS.trans {cur : Option Nat} {a b c : World} (h1 : EvoS cur a b) (h2 : EvoS cur b c) : EvoS cur a c := by
  refine ⟨fun f => Nat.le_trans (h1.mono f) (h2.mono f), ?_, ?_, ?_⟩
  · intro t ht
    rcases h2.newTm t ht with h | h
    · exact h1.newTm t h
    · exact Or.inr h
  · intro t ht
    rcases h2.newTask t ht with h | h
    · exact h1.newTask t h
    · right; have := h1.mono t.fiber; omega
  · intro f hf
    rcases h2.pend f hf with h | h
    · exact h1.pend f h
    · exact Or.inr h

theorem Evo.refl (cur : Option Nat) (w : World) : Evo cur w w := ⟨EvoQ.refl cur w, EvoS.refl cur w⟩
theorem Evo.trans {cur : Option Nat} {a b c : World} (h1 : Evo cur a b) (h2 : Evo cur b c) : Evo cur a c :=
  ⟨h1.1.trans h2.1, h1.2.trans h2.2⟩

/-- a transition that leaves the channels alone -/
theorem EvoQ.of_chans {cur : Option Nat} {w w' : World} (hc : w'.chans = w.chans)
    (hm : ∀ f, (w.fibers f).sched ≤ (w'.fibers f).sched) : EvoQ cur w w' := by
  refine ⟨hm, ?_, ?_, ?_, ?_⟩
  · intro c p hp; rw [hc] at hp; exact Or.inl hp
  · intro c p hp; rw [hc] at hp; exact Or.inl hp
  · intro c p hp hnp; rw [hc] at hnp; exact absurd hp hnp
  · intro c p hp hnp; rw [hc] at hnp; exact absurd hp hnp

/-- a transition that leaves fibers, run queue and timers alone -/
theorem EvoS.of_same {cur : Option Nat} {w w' : World} (hf : w'.fibers = w.fibers) (hr : w'.runq = w.runq)
    (ht : w'.timers = w.timers) : EvoS cur w w' := by
  refine ⟨fun f => by rw [hf]; exact Nat.le_refl _, ?_, ?_, ?_⟩
  · intro t h; rw [ht] at h; exact Or.inl h
  · intro t h; rw [hr] at h; exact Or.inl h
  · intro f h; rw [hf] at h; exact Or.inl h

/-- janet_schedule_general -/
theorem scheduleGeneral_Evo (cur : Option Nat) (w : World) (g : Nat) (val : Val) (sig : Sig) :
    Evo cur w (scheduleGeneral w g val sig false) := by
  obtain ⟨ht, hc, _, hcase⟩ := scheduleGeneral_props w g val sig
  have hmono := fun f => scheduleGeneral_sched_le w g val sig f
  refine ⟨EvoQ.of_chans hc hmono, hmono, ?_, ?_, ?_⟩
  · intro t h; rw [ht] at h; exact Or.inl h
  · intro t h
    rcases hcase with ⟨_, _, hr⟩ | ⟨_, _, _, _, hr⟩
    · rw [hr] at h; exact Or.inl h
    · rw [hr] at h
      rcases List.mem_append.mp h with h | h
      · exact Or.inl h
      · right; simp at h; subst h; exact Nat.lt_succ_self _
  · intro f h
    left
    rcases hcase with ⟨_, hf, _⟩ | ⟨_, _, hst, hoth, _⟩
    · rw [hf] at h; exact h
    · by_cases e : f = g
      · subst e; rw [hst] at h; exact h
      · rw [hoth f e] at h; exact h

theorem fold_Evo {α : Type} (cur : Option Nat) (act : World → α → World) (hact : IsSched act) :
    ∀ (l : List α) (u : World), Evo cur u (l.foldl act u) := by
  intro l
  induction l with
  | nil => intro u; exact Evo.refl cur u
  | cons a rest ih =>
    intro u
    simp only [List.foldl_cons]
    refine Evo.trans ?_ (ih (act u a))
    rcases hact u a with e | ⟨g, val, sig, e⟩
    · rw [e]; exact Evo.refl cur u
    · rw [e]; exact scheduleGeneral_Evo cur u g val sig

/-- no live pending entry belongs to a cancelled fiber (consequence of the wake-up invariant) -/
def NC (w : World) : Prop :=
  ∀ c p, p ∈ w.ent c → p.sched = (w.fibers p.fiber).sched → (w.fibers p.fiber).canceled = false

theorem NC_of_WM {w : World} (hm : WM w) : NC w :=
  fun c p hp hs => not_canceled_of_liveEntry hm p.fiber (Or.inl ⟨c, p, hp, rfl, hs⟩)

theorem schedule_bump_of_not_canceled (w : World) (g : Nat) (val : Val) (sig : Sig)
    (h : (w.fibers g).canceled = false) :
    (w.fibers g).sched < ((scheduleGeneral w g val sig false).fibers g).sched := by
  obtain ⟨_, _, _, hcase⟩ := scheduleGeneral_props w g val sig
  rcases hcase with ⟨hc, _⟩ | ⟨_, hs, _⟩
  · rw [h] at hc; cases hc
  · rw [hs]; exact Nat.lt_succ_self _

/-! ### push_with_lock -/

theorem chanPush_Evo {cfg : Cfg} (hs : cfg.pushBlocksStrict = true) {w : World} {f c x mode : Nat} {w' : World} {b : Bool}
    (h : chanPush cfg w f c x mode = .ok w' b)
    (hnc : ∀ p ∈ (w.chans c).readPending, p.sched = (w.fibers p.fiber).sched → (w.fibers p.fiber).canceled = false)
    (cur : Option Nat) (hc : mode ≠ 2 → cur = some f) :
    Evo cur w w' := by
  obtain ⟨htm, _⟩ := chanPush_misc cfg w f c x mode w' b h
  obtain ⟨_, _, hoth, hcase⟩ := chanPush_cases cfg hs w f c x mode w' b h
  rcases hcase with ⟨hno, hfib, hrq, _, _, hrp, _, _, _, hwp⟩ | ⟨r, rest, hq, _, _, hw'⟩
  · refine ⟨⟨fun g => by rw [hfib]; exact Nat.le_refl _, ?_, ?_, ?_, ?_⟩, EvoS.of_same hfib hrq htm⟩
    · intro c' p hp
      by_cases e : c' = c
      · subst e; rw [hrp] at hp; simp at hp
      · rw [hoth c' e] at hp; exact Or.inl hp
    · intro c' p hp
      by_cases e : c' = c
      · subst e; rw [hwp] at hp
        rcases List.mem_append.mp hp with hp | hp
        · exact Or.inl hp
        · right
          split at hp
          · rename_i hcond; simp at hp; subst hp; exact hc hcond.2
          · simp at hp
      · rw [hoth c' e] at hp; exact Or.inl hp
    · intro c' p hp hnp
      by_cases e : c' = c
      · subst e; left; exact not_live_of_hasLiveReader_false hno p hp
      · rw [hoth c' e] at hnp; exact absurd hp hnp
    · intro c' p hp hnp
      by_cases e : c' = c
      · subst e; rw [hwp] at hnp; exact absurd (List.mem_append_left _ hp) hnp
      · rw [hoth c' e] at hnp; exact absurd hp hnp
  · let w1 := addHanded (setChan (addPushed w c x) c { (w.chans c) with readPending := rest }) c x
    have hspec := popLiveReader_spec w.fibers _ _ _ hq
    obtain ⟨hrin, hrlive, _⟩ := hspec.2.2 r rfl
    have hrs := (live_iff w.fibers r).mp hrlive
    have hcan : (w.fibers r.fiber).canceled = false := hnc r hrin hrs
    have hw1 : w' = scheduleGeneral w1 r.fiber (if r.mode = .choiceRead then .take c x else .num x) .ok false := hw'
    have hE1 : Evo cur w1 w' := by rw [hw1]; exact scheduleGeneral_Evo _ _ _ _ _
    have hbump : (w.fibers r.fiber).sched < (w'.fibers r.fiber).sched := by
      rw [hw1]; exact schedule_bump_of_not_canceled w1 r.fiber _ .ok hcan
    have hch : w'.chans = w1.chans := by rw [hw1]; exact scheduleGeneral_chans _ _ _ _ _
    have hw1r : (w1.chans c).readPending = rest := by simp [w1, addHanded, setChan]
    have hw1w : (w1.chans c).writePending = (w.chans c).writePending := by simp [w1, addHanded, setChan, addPushed]
    have hw1o : ∀ c', c' ≠ c → w1.chans c' = w.chans c' := by
      intro c' hc'; simp [w1, addHanded, setChan, addPushed, hc']
    refine ⟨⟨hE1.1.mono, ?_, ?_, ?_, ?_⟩, (EvoS.of_same rfl rfl rfl : EvoS cur w w1).trans hE1.2⟩
    · intro c' p hp
      rw [hch] at hp
      by_cases e : c' = c
      · subst e; rw [hw1r] at hp; exact Or.inl (hspec.1 p hp)
      · rw [hw1o c' e] at hp; exact Or.inl hp
    · intro c' p hp
      rw [hch] at hp
      by_cases e : c' = c
      · subst e; rw [hw1w] at hp; exact Or.inl hp
      · rw [hw1o c' e] at hp; exact Or.inl hp
    · intro c' p hp hnp
      rw [hch] at hnp
      by_cases e : c' = c
      · subst e; rw [hw1r] at hnp
        rcases popLiveReader_removed w.fibers _ _ _ hq p hp hnp with hl | hl
        · left; intro e; rw [(live_iff w.fibers p).mpr e] at hl; cases hl
        · right; injection hl with hl; rw [← hl]; exact hbump
      · rw [hw1o c' e] at hnp; exact absurd hp hnp
    · intro c' p hp hnp
      rw [hch] at hnp
      by_cases e : c' = c
      · subst e; rw [hw1w] at hnp; exact absurd hp hnp
      · rw [hw1o c' e] at hnp; exact absurd hp hnp

/-! ### pop_with_lock -/

theorem chanPop_Evo {cfg : Cfg} (hk : cfg.popSkipsStaleWriter = true) {w : World} {f c mode : Nat} (hmode : mode ≠ 2) :
    (∀ w' r, chanPop cfg w f c mode = .got w' r →
      (∀ p ∈ (w.chans c).writePending, p.sched = (w.fibers p.fiber).sched → (w.fibers p.fiber).canceled = false) →
      Evo (some f) w w') ∧
    (∀ w', chanPop cfg w f c mode = .blocked w' → Evo (some f) w w') := by
  rcases chanPop_cases cfg hk w f c mode hmode with ⟨_, he⟩ | ⟨_, _, he⟩ | ⟨x, rest, o, wp', _, _, hq, he⟩
  · rw [he]
    refine ⟨?_, fun w' h => by cases h⟩
    intro w' r h _; injection h with h1 _; subst h1; exact Evo.refl _ _
  · rw [he]
    refine ⟨fun w' r h => (by cases h), ?_⟩
    intro w' h; injection h with h1; subst h1
    refine ⟨⟨fun g => Nat.le_refl _, ?_, ?_, ?_, ?_⟩, EvoS.of_same rfl rfl rfl⟩
    · intro c' p hp
      by_cases e : c' = c
      · subst e
        simp only [setChan, ↓reduceIte, List.mem_append, List.mem_singleton] at hp
        rcases hp with hp | hp
        · exact Or.inl hp
        · right; subst hp; rfl
      · simp only [setChan, e, ↓reduceIte] at hp; exact Or.inl hp
    · intro c' p hp
      by_cases e : c' = c
      · subst e; simp only [setChan, ↓reduceIte] at hp; exact Or.inl hp
      · simp only [setChan, e, ↓reduceIte] at hp; exact Or.inl hp
    · intro c' p hp hnp
      exfalso; apply hnp
      by_cases e : c' = c
      · subst e; simp only [setChan, ↓reduceIte, List.mem_append]; exact Or.inl hp
      · simp only [setChan, e, ↓reduceIte]; exact hp
    · intro c' p hp hnp
      exfalso; apply hnp
      by_cases e : c' = c
      · subst e; simp only [setChan, ↓reduceIte]; exact hp
      · simp only [setChan, e, ↓reduceIte]; exact hp
  · rw [he]
    refine ⟨?_, fun w' h => by cases h⟩
    intro w' r h hnc
    injection h with h1 _
    have hspec := popWriter_spec w.fibers _ _ _ hq
    have hrem := popWriter_removed w.fibers _ _ _ hq
    let w1 := setChan (addHanded w c x) c { (w.chans c) with items := rest, writePending := wp' }
    have hw1r : (w1.chans c).readPending = (w.chans c).readPending := by simp [w1, addHanded, setChan]
    have hw1w : (w1.chans c).writePending = wp' := by simp [w1, addHanded, setChan]
    have hw1o : ∀ c', c' ≠ c → w1.chans c' = w.chans c' := by
      intro c' hc'; simp [w1, addHanded, setChan, hc']
    -- queues of w1 against w, with the bump supplied by whoever is scheduled afterwards
    have hQ : ∀ w2 : World, w2.chans = w1.chans → (∀ g, (w.fibers g).sched ≤ (w2.fibers g).sched) →
        (∀ p, o = some p → (w.fibers p.fiber).sched < (w2.fibers p.fiber).sched) → EvoQ (some f) w w2 := by
      intro w2 hch hmono hb
      refine ⟨hmono, ?_, ?_, ?_, ?_⟩
      · intro c' p hp
        rw [hch] at hp
        by_cases e : c' = c
        · subst e; rw [hw1r] at hp; exact Or.inl hp
        · rw [hw1o c' e] at hp; exact Or.inl hp
      · intro c' p hp
        rw [hch] at hp
        by_cases e : c' = c
        · subst e; rw [hw1w] at hp; exact Or.inl (hspec.1 p hp)
        · rw [hw1o c' e] at hp; exact Or.inl hp
      · intro c' p hp hnp
        rw [hch] at hnp
        by_cases e : c' = c
        · subst e; rw [hw1r] at hnp; exact absurd hp hnp
        · rw [hw1o c' e] at hnp; exact absurd hp hnp
      · intro c' p hp hnp
        rw [hch] at hnp
        by_cases e : c' = c
        · subst e; rw [hw1w] at hnp
          rcases hrem p hp hnp with hl | hl
          · left; intro e; rw [(live_iff w.fibers p).mpr e] at hl; cases hl
          · right; exact hb p hl
        · rw [hw1o c' e] at hnp; exact absurd hp hnp
    cases o with
    | none =>
      simp only [] at h1
      subst h1
      exact ⟨hQ _ rfl (fun g => Nat.le_refl _) (fun p hp => by cases hp), EvoS.of_same rfl rfl rfl⟩
    | some p =>
      simp only [] at h1
      obtain ⟨hpin, hplive, _⟩ := hspec.2.2 p rfl
      have hps := (live_iff w.fibers p).mp hplive
      have hcan : (w.fibers p.fiber).canceled = false := hnc p hpin hps
      have hw' : w' = scheduleGeneral w1 p.fiber (if p.mode = .choiceWrite then .give c else .chan c) .ok false := h1.symm
      have hE1 : Evo (some f) w1 w' := by rw [hw']; exact scheduleGeneral_Evo _ _ _ _ _
      refine ⟨hQ w' (by rw [hw']; exact scheduleGeneral_chans _ _ _ _ _) hE1.1.mono ?_,
        (EvoS.of_same rfl rfl rfl : EvoS (some f) w w1).trans hE1.2⟩
      intro q hq'; injection hq' with hq'; subst hq'
      rw [hw']; exact schedule_bump_of_not_canceled w1 p.fiber _ .ok hcan

/-! ### select -/

theorem Evo.of_ghost {cur : Option Nat} {w w' : World} (hf : w'.fibers = w.fibers) (hr : w'.runq = w.runq)
    (ht : w'.timers = w.timers) (hc : w'.chans = w.chans) : Evo cur w w' :=
  ⟨EvoQ.of_chans hc (fun f => by rw [hf]; exact Nat.le_refl _), EvoS.of_same hf hr ht⟩

/-- first loop of select: at most one push / pop -/
theorem choiceImmediate_Evo {cfg : Cfg} (hg : CfgGood cfg) (f : Nat) (cls : List Clause) :
    ∀ (w w' : World) (v : Val), choiceImmediate cfg w f cls = some (w', v) → NC w → Evo (some f) w w' := by
  induction cls with
  | nil => intro w w' v h; simp [choiceImmediate] at h
  | cons cl rest ih =>
    intro w w' v h hnc
    cases cl with
    | give c x =>
      unfold choiceImmediate at h
      by_cases hcl : (w.chans c).closed = true
      · simp [hcl] at h; rw [← h.1]; exact Evo.refl _ _
      · simp only [hcl] at h
        by_cases hr : (choiceReady cfg (w.chans c).items.length (w.chans c).limit
            || (cfg.choiceGiveSeesReader && hasLiveReader w.fibers (w.chans c).readPending)) = true
        · simp only [hr] at h
          cases hp : chanPush cfg w f c x 1 with
          | closedErr => rw [hp] at h; simp at h; rw [← h.1]; exact Evo.refl _ _
          | ok w1 b =>
            rw [hp] at h; simp at h; rw [← h.1]
            exact chanPush_Evo hg.strict hp (fun p hp hs => hnc c p ((mem_ent w c p).mpr (Or.inl hp)) hs) _ (fun _ => rfl)
        · simp only [hr] at h
          exact ih w w' v (by simpa using h) hnc
    | take c =>
      unfold choiceImmediate at h
      by_cases hcl : (w.chans c).closed = true
      · simp [hcl] at h; rw [← h.1]; exact Evo.refl _ _
      · simp only [hcl] at h
        by_cases hi : (w.chans c).items = []
        · simp [hi] at h; exact ih w w' v h hnc
        · simp [hi] at h
          have hpe := chanPop_Evo hg.skips (w := w) (f := f) (c := c) (mode := 1) (by decide)
          have hncw : ∀ p ∈ (w.chans c).writePending, p.sched = (w.fibers p.fiber).sched →
              (w.fibers p.fiber).canceled = false :=
            fun p hp hs => hnc c p ((mem_ent w c p).mpr (Or.inr hp)) hs
          cases hp : chanPop cfg w f c 1 with
          | blocked w1 => rw [hp] at h; simp at h; rw [← h.1]; exact hpe.2 w1 hp
          | got w1 r =>
            rw [hp] at h
            have h1 := hpe.1 w1 r hp hncw
            cases r with
            | none => simp at h; rw [← h.1]; exact h1
            | some x => simp at h; rw [← h.1]; exact h1.trans (Evo.of_ghost rfl rfl rfl rfl)

theorem readChans_select_cons (cl : Clause) (rest : List Clause) (c : Nat) :
    c ∈ (Action.select (cl :: rest)).readChans ↔ cl = .take c ∨ c ∈ (Action.select rest).readChans := by
  cases cl with
  | take c0 =>
    simp only [Action.readChans, List.filterMap_cons, List.mem_cons, Clause.take.injEq]
    constructor
    · rintro (h | h)
      · exact Or.inl h.symm
      · exact Or.inr h
    · rintro (h | h)
      · exact Or.inl h.symm
      · exact Or.inr h
  | give c0 x => simp [Action.readChans, List.filterMap_cons]

theorem writeChans_select_cons (cl : Clause) (rest : List Clause) (c : Nat) :
    c ∈ (Action.select (cl :: rest)).writeChans ↔ (∃ x, cl = .give c x) ∨ c ∈ (Action.select rest).writeChans := by
  cases cl with
  | give c0 x =>
    simp only [Action.writeChans, List.filterMap_cons, List.mem_cons, Clause.give.injEq]
    constructor
    · rintro (h | h)
      · exact Or.inl ⟨x, h.symm, rfl⟩
      · exact Or.inr h
    · rintro (⟨y, h, _⟩ | h)
      · exact Or.inl h.symm
      · exact Or.inr h
  | take c0 => simp [Action.writeChans, List.filterMap_cons]

/-- second loop of select, after the first loop fell through, no channel named twice: it only registers; the fiber ends up
    registered as reader exactly on the channels of its take clauses and as writer exactly on those of its give clauses
    (in addition to what it had) -/
theorem choiceRegister_Evo {cfg : Cfg} (hg : CfgGood cfg) (f : Nat) (cls : List Clause) :
    ∀ (w : World), (∀ cl ∈ cls, Cond cfg w cl) → (cls.map Clause.chan).Nodup →
      Evo (some f) w (choiceRegister cfg w f cls) ∧ (choiceRegister cfg w f cls).fibers = w.fibers ∧
      (choiceRegister cfg w f cls).runq = w.runq ∧ (choiceRegister cfg w f cls).timers = w.timers ∧
      (∀ c, regR (choiceRegister cfg w f cls) f (w.fibers f).sched c ↔
              regR w f (w.fibers f).sched c ∨ c ∈ (Action.select cls).readChans) ∧
      (∀ c, regW (choiceRegister cfg w f cls) f (w.fibers f).sched c ↔
              regW w f (w.fibers f).sched c ∨ c ∈ (Action.select cls).writeChans) := by
  induction cls with
  | nil =>
    intro w _ _
    exact ⟨Evo.refl _ _, rfl, rfl, rfl, fun c => by simp [choiceRegister, Action.readChans],
      fun c => by simp [choiceRegister, Action.writeChans]⟩
  | cons cl rest ih =>
    intro w hcond hnd
    have hnd2 := List.nodup_cons.mp (show (cl.chan :: rest.map Clause.chan).Nodup from hnd)
    have hnotin : ∀ cl' ∈ rest, cl'.chan ≠ cl.chan := by
      intro cl' hcl' e
      exact hnd2.1 (by rw [← e]; exact List.mem_map_of_mem (f := Clause.chan) hcl')
    have hc0 := hcond cl (by simp)
    -- one clause: a world w1 in which it is registered
    have step : ∃ w1, choiceRegister cfg w f (cl :: rest) = choiceRegister cfg w1 f rest ∧
        Evo (some f) w w1 ∧ w1.fibers = w.fibers ∧ w1.runq = w.runq ∧ w1.timers = w.timers ∧
        (∀ c', c' ≠ cl.chan → w1.chans c' = w.chans c') ∧
        (∀ c, regR w1 f (w.fibers f).sched c ↔ regR w f (w.fibers f).sched c ∨ cl = .take c) ∧
        (∀ c, regW w1 f (w.fibers f).sched c ↔ regW w f (w.fibers f).sched c ∨ ∃ x, cl = .give c x) := by
      cases cl with
      | give c x =>
        simp only [Cond, Clause.chan] at hc0 ⊢
        obtain ⟨w1, b, hp⟩ := chanPush_open (cfg := cfg) w f c x 1 hc0.1
        have hstale := fun p hp => not_live_of_hasLiveReader_false hc0.2.2 p hp
        have hE := chanPush_Evo hg.strict hp (fun p hp hs => absurd hs (hstale p hp)) (some f) (fun _ => rfl)
        obtain ⟨htm, _⟩ := chanPush_misc cfg w f c x 1 w1 b hp
        obtain ⟨_, _, hoth, hcase⟩ := chanPush_cases cfg hg.strict w f c x 1 w1 b hp
        rcases hcase with ⟨_, hfib, hrq, _, hb, hrp, _, _, _, hwp⟩ | ⟨r, rest', hq, _⟩
        · have hbt : b = true := by rw [hb]; simp; omega
          refine ⟨w1, by simp [choiceRegister, hp], hE, hfib, hrq, htm, hoth, ?_, ?_⟩
          · intro c'
            by_cases e : c' = c
            · subst e
              constructor
              · rintro ⟨p, hp', _⟩; rw [hrp] at hp'; simp at hp'
              · rintro (⟨p, hp', h1, h2⟩ | h)
                · exact absurd (by rw [h1]; exact h2) (hstale p hp')
                · cases h
            · unfold regR; rw [hoth c' e]; simp
          · intro c'
            by_cases e : c' = c
            · subst e
              constructor
              · intro _; exact Or.inr ⟨x, rfl⟩
              · intro _
                refine ⟨⟨f, (w.fibers f).sched, .choiceWrite⟩, ?_, rfl, rfl⟩
                rw [hwp]; simp [hbt]
            · unfold regW; rw [hoth c' e]
              constructor
              · intro h; exact Or.inl h
              · rintro (h | ⟨y, h⟩)
                · exact h
                · injection h with h _; exact absurd h.symm e
        · have := (popLiveReader_spec w.fibers _ _ _ hq).2.2 r rfl
          rw [hc0.2.2] at this; cases this.2.2
      | take c =>
        simp only [Cond, Clause.chan] at hc0 ⊢
        have hpe := chanPop_Evo hg.skips (w := w) (f := f) (c := c) (mode := 1) (by decide)
        rcases chanPop_cases cfg hg.skips w f c 1 (by decide) with ⟨hcl, _⟩ | ⟨_, _, he⟩ | ⟨x, rest', o, wp', _, hit, _⟩
        · rw [hc0.1] at hcl; cases hcl
        · refine ⟨_, by simp [choiceRegister, he], hpe.2 _ he, rfl, rfl, rfl, fun c' hc' => by simp [setChan, hc'], ?_, ?_⟩
          · intro c'
            by_cases e : c' = c
            · subst e
              constructor
              · intro _; exact Or.inr rfl
              · intro _
                refine ⟨⟨f, (w.fibers f).sched, .choiceRead⟩, ?_, rfl, rfl⟩
                simp [setChan]
            · unfold regR; simp only [setChan, e, ↓reduceIte]
              constructor
              · intro h; exact Or.inl h
              · rintro (h | h)
                · exact h
                · injection h with h; exact absurd h.symm e
          · intro c'
            by_cases e : c' = c
            · subst e; unfold regW; simp [setChan]
            · unfold regW; simp [setChan, e]
        · rw [hc0.2] at hit; cases hit
    obtain ⟨w1, heq, hE, hfib, hrq, htm, hoth, hR, hW⟩ := step
    rw [heq]
    have hcond1 : ∀ cl' ∈ rest, Cond cfg w1 cl' := by
      intro cl' hcl'
      exact Cond_congr cl' hfib (hoth _ (hnotin cl' hcl')) (hcond cl' (List.mem_cons_of_mem _ hcl'))
    obtain ⟨iE, ifb, irq, itm, iR, iW⟩ := ih w1 hcond1 hnd2.2
    rw [hfib] at iR iW
    refine ⟨hE.trans iE, ifb.trans hfib, irq.trans hrq, itm.trans htm, ?_, ?_⟩
    · intro c; rw [iR c, hR c, readChans_select_cons]; exact or_assoc
    · intro c; rw [iW c, hW c, writeChans_select_cons]; exact or_assoc

/-! ### close -/

theorem chanClose_Evo {cfg : Cfg} (hcc : cfg.closeChecksSched = true) {w : World} {f c : Nat}
    (hm : WM w) (hcur : w.current = some f) (hq : WQuiet w f) : Evo (some f) w (chanClose cfg w c) := by
  by_cases hcl : (w.chans c).closed = true
  · have : chanClose cfg w c = w := by unfold chanClose; simp [hcl]
    rw [this]; exact Evo.refl _ _
  · have hopen : (w.chans c).closed = false := by simpa using hcl
    let w0 := setChan w c { (w.chans c) with closed := true, readPending := [], writePending := [] }
    let w1 := (w.chans c).writePending.foldl (closeWake cfg c true) w0
    let wf := (w.chans c).readPending.foldl (closeWake cfg c false) w1
    have hwf : chanClose cfg w c = wf := by unfold chanClose; simp [hcl]; rfl
    have hE0 : Evo (some f) w0 wf :=
      (fold_Evo (some f) _ (closeWake_isSched cfg c true) (w.chans c).writePending w0).trans
        (fold_Evo (some f) _ (closeWake_isSched cfg c false) (w.chans c).readPending w1)
    obtain ⟨c1, _, _, _⟩ := fold_misc _ (closeWake_isSched cfg c true) (w.chans c).writePending w0
    obtain ⟨c2, _, _, _⟩ := fold_misc _ (closeWake_isSched cfg c false) (w.chans c).readPending w1
    have hchf : wf.chans = w0.chans := c2.trans c1
    have hw0c : (w0.chans c).readPending = [] ∧ (w0.chans c).writePending = [] := by simp [w0, setChan]
    have hw0o : ∀ c', c' ≠ c → w0.chans c' = w.chans c' := by intro c' hc'; simp [w0, setChan, hc']
    unfold WM at hm
    have hbump : ∀ p, p ∈ (w.chans c).readPending ∨ p ∈ (w.chans c).writePending →
        p.sched ≠ (w.fibers p.fiber).sched ∨ (w.fibers p.fiber).sched < (wf.fibers p.fiber).sched := by
      intro p hp
      by_cases hl : p.sched = (w.fibers p.fiber).sched
      · right
        have hle : liveEntry w.fibers w.ent p.fiber := ⟨c, p, (mem_ent w c p).mpr hp, rfl, hl⟩
        have hgf : p.fiber ≠ f := fun e => hq.2.2 (e ▸ hle)
        have hpend : (w.fibers p.fiber).status = .pending := by
          cases hst : (w.fibers p.fiber).status with
          | pending => rfl
          | _ =>
            exfalso
            refine (hm.d2 p.fiber (by rw [hst]; intro c; cases c) ?_).2 hle
            rw [hcur]; intro c; exact hgf (Option.some.inj c).symm
        have hres : fiberCanResume (w.fibers p.fiber) = true := by unfold fiberCanResume; rw [hpend]
        have hcan := not_canceled_of_liveEntry hm p.fiber (Or.inl hle)
        have hw := (chanClose_wakes_all cfg w c hopen p
          (by rcases hp with h | h; exact Or.inr h; exact Or.inl h) hl hres hcan).2.2.2
        rw [hwf] at hw
        exact hw
      · exact Or.inl hl
    rw [hwf]
    refine ⟨⟨hE0.1.mono, ?_, ?_, ?_, ?_⟩, (EvoS.of_same rfl rfl rfl : EvoS (some f) w w0).trans hE0.2⟩
    · intro c' p hp
      rw [hchf] at hp
      by_cases e : c' = c
      · subst e; rw [hw0c.1] at hp; simp at hp
      · rw [hw0o c' e] at hp; exact Or.inl hp
    · intro c' p hp
      rw [hchf] at hp
      by_cases e : c' = c
      · subst e; rw [hw0c.2] at hp; simp at hp
      · rw [hw0o c' e] at hp; exact Or.inl hp
    · intro c' p hp hnp
      rw [hchf] at hnp
      by_cases e : c' = c
      · subst e; exact hbump p (Or.inl hp)
      · rw [hw0o c' e] at hnp; exact absurd hp hnp
    · intro c' p hp hnp
      rw [hchf] at hnp
      by_cases e : c' = c
      · subst e; exact hbump p (Or.inr hp)
      · rw [hw0o c' e] at hnp; exact absurd hp hnp

/-! ### await, finish, the loop phases -/

theorem awaitFiber_Evo (w : World) (f : Nat) : Evo (some f) w (awaitFiber w f) := by
  have hs : ∀ g, ((awaitFiber w f).fibers g).sched = (w.fibers g).sched := by
    intro g; by_cases e : g = f <;> simp [awaitFiber, setFiber, e]
  refine ⟨EvoQ.of_chans rfl (fun g => by rw [hs]; exact Nat.le_refl _), fun g => by rw [hs]; exact Nat.le_refl _,
    fun t h => Or.inl h, fun t h => Or.inl h, ?_⟩
  intro g h
  by_cases e : g = f
  · right; rw [e]
  · left; simpa [awaitFiber, setFiber, e] using h

theorem finishFiber_Evo (cur : Option Nat) (w : World) (f : Nat) (err : Bool) : Evo cur w (finishFiber w f err) := by
  have hs : ∀ g, ((finishFiber w f err).fibers g).sched = (w.fibers g).sched := by
    intro g; by_cases e : g = f <;> simp [finishFiber, setFiber, e]
  refine ⟨EvoQ.of_chans rfl (fun g => by rw [hs]; exact Nat.le_refl _), fun g => by rw [hs]; exact Nat.le_refl _,
    fun t h => Or.inl h, fun t h => Or.inl h, ?_⟩
  intro g h
  by_cases e : g = f
  · subst e; cases err <;> simp [finishFiber, setFiber] at h
  · left; simpa [finishFiber, setFiber, e] using h

theorem loopRunTask_Evo (cfg : Cfg) (w : World) : Evo none w (loopRunTask cfg w).1 := by
  rcases loopRunTask_cases cfg w with ⟨_, he⟩ | ⟨t, rest, hq, hr, ht, hc, hoth, hs, _, hcase⟩
  · rw [he]; exact Evo.refl _ _
  · have hsall : ∀ h, (w.fibers h).sched ≤ ((loopRunTask cfg w).1.fibers h).sched := by
      intro h; by_cases e : h = t.fiber
      · rw [e, hs]; split <;> omega
      · rw [hoth h e]; exact Nat.le_refl _
    refine ⟨EvoQ.of_chans hc hsall, hsall,
      fun u h => by rw [ht] at h; exact Or.inl h, fun u h => by rw [hr] at h; rw [hq]; exact Or.inl (List.mem_cons_of_mem _ h), ?_⟩
    intro g h
    left
    by_cases e : g = t.fiber
    · subst e
      rcases hcase with ⟨_, _, hst⟩ | ⟨_, _, _, hst⟩
      · rw [hst] at h; exact h
      · rw [hst] at h; cases h
    · rw [hoth g e] at h; exact h

theorem Evo_timers_sub (w : World) (clk : Nat) (tm : List Timer) (h : ∀ t ∈ tm, t ∈ w.timers) :
    Evo none w { w with clock := clk, timers := tm } :=
  ⟨EvoQ.of_chans rfl (fun g => Nat.le_refl _), fun g => Nat.le_refl _, fun t ht => Or.inl (h t ht), fun t h => Or.inl h,
    fun g h => Or.inl h⟩

theorem loopTimers_Evo (w : World) : Evo none w (loopTimers w) := by
  unfold loopTimers
  exact (Evo_timers_sub w _ _ (fun t h => mem_of_mem_dropWhile' _ _ t h)).trans
    (fold_Evo none fireTimer fireTimer_isSched _ _)

theorem loopPollDrop_Evo (w : World) : Evo none w (loopPollDrop w) := by
  refine ⟨EvoQ.of_chans rfl (fun g => Nat.le_refl _), fun g => Nat.le_refl _, ?_, fun t h => Or.inl h, fun g h => Or.inl h⟩
  intro t h; exact Or.inl (mem_of_mem_dropWhile' _ _ t h)

theorem Evo_timer_insert (w : World) (f : Nat) (t : Timer) (clk : Nat) (sc : Nat → Bool) (cr : Option Nat)
    (htf : t.fiber = f) :
    Evo (some f) w { w with clock := clk, scopes := sc, current := cr, timers := insertTimer t w.timers } := by
  refine ⟨EvoQ.of_chans rfl (fun g => Nat.le_refl _), fun g => Nat.le_refl _, ?_, fun t h => Or.inl h, fun g h => Or.inl h⟩
  intro u hu
  rcases (mem_insertTimer t w.timers u).mp hu with e | e
  · right; rw [e, htf]
  · exact Or.inl e

/-! ### every transition -/

theorem step_Evo {cfg : Cfg} (hg : CfgGood cfg) (w : World) (a : Action) (hns : a.noSelfMatch) (hi : WInv w) :
    Evo w.current w (step cfg w a).1 := by
  obtain ⟨hm, hqq⟩ := hi
  have hnc : NC w := NC_of_WM hm
  unfold step
  cases hcur : w.current with
  | none =>
    cases a with
    | runTask => exact loopRunTask_Evo cfg w
    | timers => exact loopTimers_Evo w
    | poll => exact loopPollDrop_Evo w
    | scopeEnd s => exact Evo.of_ghost rfl rfl rfl rfl
    | supEvent c x =>
      simp only []
      unfold supPush
      cases hp : chanPush cfg w 0 c x 2 with
      | closedErr => exact Evo.refl _ _
      | ok w1 b =>
        exact chanPush_Evo hg.strict hp (fun p hp hs => hnc c p ((mem_ent w c p).mpr (Or.inl hp)) hs) none
          (fun h => absurd rfl h)
    | _ => exact Evo.refl _ _
  | some f =>
    have hq : WQuiet w f := hqq f hcur
    cases a with
    | runTask => exact Evo.refl _ _
    | timers => exact Evo.refl _ _
    | poll => exact Evo.refl _ _
    | supEvent c x => exact Evo.refl _ _
    | scopeEnd s => exact Evo.of_ghost rfl rfl rfl rfl
    | go g =>
      simp only []
      split
      · exact scheduleGeneral_Evo _ w g .nil .ok
      · exact Evo.refl _ _
    | cancel g =>
      simp only []
      split
      · exact Evo.refl _ _
      · exact scheduleGeneral_Evo _ w g .errCancel .error
    | deadline s ms =>
      simp only []
      exact Evo_timer_insert w f ⟨f, (w.fibers f).sched, w.clock + w.clockStep + ms, false, some s⟩ _ _ _ rfl
    | sleep ms =>
      simp only []
      exact (Evo_timer_insert w f ⟨f, (w.fibers f).sched, w.clock + w.clockStep + ms, false, none⟩ _ w.scopes _ rfl).trans
        (awaitFiber_Evo _ f)
    | finish e => exact finishFiber_Evo _ w f e
    | close c => exact chanClose_Evo hg.closeChecks hm hcur hq
    | give c x =>
      simp only []
      cases hp : chanPush cfg w f c x 0 with
      | closedErr => exact finishFiber_Evo _ w f true
      | ok w1 b =>
        have hE := chanPush_Evo hg.strict hp (fun p hp hs => hnc c p ((mem_ent w c p).mpr (Or.inl hp)) hs) (some f) (fun _ => rfl)
        cases b with
        | true => exact hE.trans (awaitFiber_Evo w1 f)
        | false => exact hE
    | take c =>
      simp only []
      have hpe := chanPop_Evo hg.skips (w := w) (f := f) (c := c) (mode := 0) (by decide)
      have hncw : ∀ p ∈ (w.chans c).writePending, p.sched = (w.fibers p.fiber).sched →
          (w.fibers p.fiber).canceled = false :=
        fun p hp hs => hnc c p ((mem_ent w c p).mpr (Or.inr hp)) hs
      cases hp : chanPop cfg w f c 0 with
      | blocked w1 => exact (hpe.2 w1 hp).trans (awaitFiber_Evo w1 f)
      | got w1 r =>
        have h1 := hpe.1 w1 r hp hncw
        cases r with
        | none => exact (h1.trans (scheduleGeneral_Evo _ w1 f .nil .ok)).trans (awaitFiber_Evo _ f)
        | some x => exact (h1.trans (scheduleGeneral_Evo _ w1 f (.num x) .ok)).trans (awaitFiber_Evo _ f)
    | select cls =>
      cases cls with
      | nil => exact Evo.refl _ _
      | cons cl0 cls0 =>
        simp only []
        have hnd : ((cl0 :: cls0).map Clause.chan).Nodup := hns
        generalize cl0 :: cls0 = cls at hnd
        cases hci : choiceImmediate cfg w f cls with
        | some r => exact choiceImmediate_Evo hg f cls w r.1 r.2 hci hnc
        | none =>
          have hcond := choiceImmediate_none hg w f cls hci
          exact (choiceRegister_Evo hg f cls w hcond hnd).1.trans (awaitFiber_Evo _ f)

/-! ## Part B: the ghost of the pending operation and the invariant -/

/-- what the ghost `op` says about the suspended fiber `f` -/
structure KOK (w : World) (f : Nat) (op : POp) : Prop where
  le : op.sched ≤ (w.fibers f).sched
  /-- not scheduled since it suspended: registered exactly as its operation says, nothing else -/
  kept : op.sched = (w.fibers f).sched →
    (∀ c, regR w f op.sched c ↔ c ∈ op.act.readChans) ∧ (∀ c, regW w f op.sched c ↔ c ∈ op.act.writeChans) ∧
    (liveTimer w.fibers w.timers f ↔ op.act.isSleep = true) ∧ LT w.fibers w.runq f = 0
  /-- scheduled since: its wake-up task is in the run queue -/
  woken : op.sched < (w.fibers f).sched → LT w.fibers w.runq f = 1

def KInv (w : World) (g : Ops) : Prop := ∀ f, (w.fibers f).status = .pending → ∃ op, g f = some op ∧ KOK w f op

theorem liveIn_iff_reg (w : World) (f c : Nat) :
    liveIn w.fibers w.ent f c ↔ regR w f (w.fibers f).sched c ∨ regW w f (w.fibers f).sched c := by
  unfold liveIn regR regW
  constructor
  · rintro ⟨p, hp, h1, h2⟩
    rcases (mem_ent w c p).mp hp with h | h
    · exact Or.inl ⟨p, h, h1, h2⟩
    · exact Or.inr ⟨p, h, h1, h2⟩
  · rintro (⟨p, hp, h1, h2⟩ | ⟨p, hp, h1, h2⟩)
    · exact ⟨p, (mem_ent w c p).mpr (Or.inl hp), h1, h2⟩
    · exact ⟨p, (mem_ent w c p).mpr (Or.inr hp), h1, h2⟩

theorem stepG_ghost_other (cfg : Cfg) (w : World) (g : Ops) (a : Action) (f : Nat) (h : w.current ≠ some f) :
    (stepG cfg w g a).2 f = g f := by
  unfold stepG
  simp only []
  cases hc : w.current with
  | none => cases (step cfg w a).2 <;> rfl
  | some f0 =>
    have hne : f ≠ f0 := fun e => h (by rw [hc, e])
    cases (step cfg w a).2 <;> simp [hne]

theorem stepG_ghost_self (cfg : Cfg) (w : World) (g : Ops) (a : Action) (f : Nat) (h : w.current = some f)
    (ho : (step cfg w a).2 = .await) : (stepG cfg w g a).2 f = some ⟨a, (w.fibers f).sched⟩ := by
  unfold stepG
  simp only [h, ho, ↓reduceIte]

theorem LT_eq_zero_iff (fb : Fibers) (rq : List Task) (f : Nat) :
    LT fb rq f = 0 ↔ ∀ t ∈ rq, ¬ (t.fiber = f ∧ t.expected = (fb f).sched) := by
  unfold LT
  rw [List.countP_eq_zero]
  constructor
  · intro h t ht hh; exact h t ht (by simp [hh.1, hh.2])
  · intro h t ht hh
    simp only [Bool.and_eq_true, beq_iff_eq] at hh
    exact h t ht hh

theorem sleep_no_chans (a : Action) (h : a.isSleep = true) : a.readChans = [] ∧ a.writeChans = [] := by
  cases a <;> simp [Action.isSleep] at h <;> exact ⟨rfl, rfl⟩

/-- a fiber that stays suspended over a transition: what its ghost says stays true -/
theorem KOK_step {cur : Option Nat} {w w' : World} {f : Nat} {op : POp} (hE : Evo cur w w') (hW : WInv w) (hW' : WInv w')
    (hcur : cur ≠ some f) (hp' : (w'.fibers f).status = .pending) (hk : KOK w f op) : KOK w' f op := by
  have hmono := hE.1.mono f
  have hnotcur : ∀ {g : Nat}, g = f → cur ≠ some g := fun e => e ▸ hcur
  have hEnt : ∀ c p, p ∈ w'.ent c → p.fiber = f → p ∈ w.ent c := by
    intro c p hp hf
    rcases (mem_ent w' c p).mp hp with h | h
    · rcases hE.1.newR c p h with h | h
      · exact (mem_ent w c p).mpr (Or.inl h)
      · exact absurd h (hnotcur hf)
    · rcases hE.1.newW c p h with h | h
      · exact (mem_ent w c p).mpr (Or.inr h)
      · exact absurd h (hnotcur hf)
  have hTm : ∀ t ∈ w'.timers, t.fiber = f → t ∈ w.timers := by
    intro t ht hf
    rcases hE.2.newTm t ht with h | h
    · exact h
    · exact absurd h (hnotcur hf)
  -- with an unchanged sched_id, live entries / timers of f in w' were there in w
  have hback : (w'.fibers f).sched = (w.fibers f).sched →
      (liveTimer w'.fibers w'.timers f → liveTimer w.fibers w.timers f) ∧
      (liveEntry w'.fibers w'.ent f → liveEntry w.fibers w.ent f) := by
    intro hs
    constructor
    · rintro ⟨t, ht, h1, h2, h3⟩; exact ⟨t, hTm t ht h2, h1, h2, by rw [h3, hs]⟩
    · rintro ⟨c, p, hp, h1, h2⟩; exact ⟨c, p, hEnt c p hp h1, h1, by rw [h2, hs]⟩
  -- after a bump nothing of f is live except its task
  have hbumped : (w.fibers f).sched < (w'.fibers f).sched → LT w'.fibers w'.runq f = 1 := by
    intro hlt
    rcases hW'.1.d1 f hp' with h | ⟨t, ht, _, h2, h3⟩ | ⟨c, p, hp, h1, h2⟩
    · exact h
    · have := hW.1.a3 t (hTm t ht h2); rw [h2] at this; omega
    · have := hW.1.a1 c p (hEnt c p hp h1); rw [h1] at this; omega
  refine ⟨Nat.le_trans hk.le hmono, ?_, ?_⟩
  · intro hs
    have hs0 : op.sched = (w.fibers f).sched := by have := hk.le; omega
    have hss : (w'.fibers f).sched = (w.fibers f).sched := by omega
    obtain ⟨kR, kW, kT, kL⟩ := hk.kept hs0
    have hR : ∀ c, regR w' f op.sched c ↔ regR w f op.sched c := by
      intro c
      constructor
      · rintro ⟨p, hp, h1, h2⟩
        rcases hE.1.newR c p hp with h | h
        · exact ⟨p, h, h1, h2⟩
        · exact absurd h (hnotcur h1)
      · rintro ⟨p, hp, h1, h2⟩
        by_cases hin : p ∈ (w'.chans c).readPending
        · exact ⟨p, hin, h1, h2⟩
        · rcases hE.1.goneR c p hp hin with h | h
          · rw [h1] at h; omega
          · rw [h1] at h; omega
    have hWr : ∀ c, regW w' f op.sched c ↔ regW w f op.sched c := by
      intro c
      constructor
      · rintro ⟨p, hp, h1, h2⟩
        rcases hE.1.newW c p hp with h | h
        · exact ⟨p, h, h1, h2⟩
        · exact absurd h (hnotcur h1)
      · rintro ⟨p, hp, h1, h2⟩
        by_cases hin : p ∈ (w'.chans c).writePending
        · exact ⟨p, hin, h1, h2⟩
        · rcases hE.1.goneW c p hp hin with h | h
          · rw [h1] at h; omega
          · rw [h1] at h; omega
    have hL : LT w'.fibers w'.runq f = 0 := by
      rw [LT_eq_zero_iff]
      intro t ht hh
      rcases hE.2.newTask t ht with h | h
      · exact (LT_eq_zero_iff _ _ _).mp kL t h ⟨hh.1, by rw [hh.2, hss]⟩
      · rw [hh.1, hh.2] at h; omega
    refine ⟨fun c => (hR c).trans (kR c), fun c => (hWr c).trans (kW c), ?_, hL⟩
    constructor
    · intro h; exact kT.mp ((hback hss).1 h)
    · intro h
      obtain ⟨e1, e2⟩ := sleep_no_chans _ h
      rcases hW'.1.d1 f hp' with h1 | h1 | ⟨c, h1⟩
      · rw [hL] at h1; cases h1
      · exact h1
      · exfalso
        rw [liveIn_iff_reg, ← hs] at h1
        rcases h1 with h1 | h1
        · have := ((hR c).trans (kR c)).mp h1; rw [e1] at this; simp at this
        · have := ((hWr c).trans (kW c)).mp h1; rw [e2] at this; simp at this
  · intro hlt
    by_cases hss : (w'.fibers f).sched = (w.fibers f).sched
    · have h1 := hk.woken (by omega)
      obtain ⟨n1, n2⟩ := hW.1.d3 f h1
      rcases hW'.1.d1 f hp' with h | h | h
      · exact h
      · exact absurd ((hback hss).1 h) n1
      · exact absurd ((hback hss).2 h) n2
    · exact hbumped (by omega)

/-- the moment of suspension -/
theorem KOK_await {w1 : World} {f : Nat} {a : Action}
    (hR : ∀ c, regR w1 f (w1.fibers f).sched c ↔ c ∈ a.readChans)
    (hWr : ∀ c, regW w1 f (w1.fibers f).sched c ↔ c ∈ a.writeChans)
    (hT : liveTimer w1.fibers w1.timers f ↔ a.isSleep = true) (hL : LT w1.fibers w1.runq f = 0) :
    KOK (awaitFiber w1 f) f ⟨a, (w1.fibers f).sched⟩ := by
  have hs : ((awaitFiber w1 f).fibers f).sched = (w1.fibers f).sched := by simp [awaitFiber, setFiber]
  refine ⟨by rw [hs]; exact Nat.le_refl _, ?_, ?_⟩
  · intro _
    refine ⟨hR, hWr, ?_, ?_⟩
    · rw [← hT]; exact liveTimer_congr w1.timers f hs
    · rw [← hL]; exact LT_congr w1.runq f hs
  · intro h; simp only [hs] at h; omega

/-- a take whose item was there: the fiber yields with its wake-up task already queued -/
theorem KOK_yield {w2 : World} {f : Nat} {a : Action} (v : Val) (hm : WM w2) (hcan : (w2.fibers f).canceled = false) :
    KOK (awaitFiber (schedule w2 f v) f) f ⟨a, (w2.fibers f).sched⟩ := by
  have hL := LT_schedule_self f v .ok hm hcan
  have hb := schedule_bump_of_not_canceled w2 f v .ok hcan
  have hs : ((awaitFiber (schedule w2 f v) f).fibers f).sched = ((schedule w2 f v).fibers f).sched := by
    simp [awaitFiber, setFiber]
  refine ⟨?_, ?_, ?_⟩
  · show (w2.fibers f).sched ≤ _; rw [hs]; exact Nat.le_of_lt hb
  · intro h
    have h' : (w2.fibers f).sched = ((awaitFiber (schedule w2 f v) f).fibers f).sched := h
    rw [hs] at h'; unfold schedule at h'; omega
  · intro _; rw [(await_view _ f 0).2]; exact hL

theorem not_pending_of_current {w' : World} {f : Nat} (hW' : WInv w') (hc : w'.current = some f)
    (hp : (w'.fibers f).status = .pending) : False := by
  have := hW'.1.d5 f hc; rw [this] at hp; cases hp

/-- the running fiber is suspended after the transition: the transition was an operation that suspends, and the fiber is
    registered exactly as that operation says -/
theorem suspend_K {cfg : Cfg} (hg : CfgGood cfg) (w : World) (a : Action) (hns : a.noSelfMatch) (hi : WInv w) (f : Nat)
    (hcur : w.current = some f) (hp' : ((step cfg w a).1.fibers f).status = .pending) :
    (step cfg w a).2 = .await ∧ KOK (step cfg w a).1 f ⟨a, (w.fibers f).sched⟩ := by
  have hW' := step_W hg w a hns hi
  obtain ⟨hm, hqq⟩ := hi
  have hq : WQuiet w f := hqq f hcur
  have hnc : ∀ c, ¬ liveIn w.fibers w.ent f c := fun c hh => hq.2.2 ⟨c, hh⟩
  have hnoR : ∀ c, ¬ regR w f (w.fibers f).sched c := fun c h => hnc c ((liveIn_iff_reg w f c).mpr (Or.inl h))
  have hnoW : ∀ c, ¬ regW w f (w.fibers f).sched c := fun c h => hnc c ((liveIn_iff_reg w f c).mpr (Or.inr h))
  have hcanf : (w.fibers f).canceled = false := by
    cases hc : (w.fibers f).canceled
    · rfl
    · have := hm.e f hc; rw [hq.1] at this; cases this
  have key : ∀ r, step cfg w a = r → WInv r.1 → (r.1.fibers f).status = .pending →
      r.2 = .await ∧ KOK r.1 f ⟨a, (w.fibers f).sched⟩ := by
    intro r hr hW' hp'
    unfold step at hr
    rw [hcur] at hr
    cases a with
    | runTask => simp only [] at hr; subst hr; exact (not_pending_of_current hW' hcur hp').elim
    | timers => simp only [] at hr; subst hr; exact (not_pending_of_current hW' hcur hp').elim
    | poll => simp only [] at hr; subst hr; exact (not_pending_of_current hW' hcur hp').elim
    | supEvent c x => simp only [] at hr; subst hr; exact (not_pending_of_current hW' hcur hp').elim
    | scopeEnd s => simp only [] at hr; subst hr; exact (not_pending_of_current hW' rfl hp').elim
    | go g =>
      simp only [] at hr
      split at hr
      · subst hr
        exact (not_pending_of_current hW' (by simp only [schedule]; rw [(scheduleGeneral_props w g .nil .ok).2.2.1]; exact hcur) hp').elim
      · subst hr; exact (not_pending_of_current hW' hcur hp').elim
    | cancel g =>
      simp only [] at hr
      split at hr
      · subst hr; exact (not_pending_of_current hW' hcur hp').elim
      · subst hr
        exact (not_pending_of_current hW' (by simp only [cancelFiber]; rw [(scheduleGeneral_props w g .errCancel .error).2.2.1]; exact hcur) hp').elim
    | deadline s ms =>
      simp only [] at hr; subst hr
      exact (not_pending_of_current hW' rfl hp').elim
    | finish e =>
      simp only [] at hr; subst hr
      cases e <;> simp [finishFiber, setFiber] at hp'
    | close c =>
      simp only [] at hr; subst hr
      exact (not_pending_of_current hW' (chanClose_W hg.closeChecks (c := c) hm hcur hq).2.1 hp').elim
    | sleep ms =>
      simp only [] at hr; subst hr
      refine ⟨rfl, ?_⟩
      apply KOK_await (a := .sleep ms)
      · intro c; simp only [Action.readChans, List.not_mem_nil, iff_false]; exact hnoR c
      · intro c; simp only [Action.writeChans, List.not_mem_nil, iff_false]; exact hnoW c
      · simp only [Action.isSleep, iff_true]
        exact ⟨_, (mem_insertTimer _ _ _).mpr (Or.inl rfl), rfl, rfl, rfl⟩
      · exact hq.1
    | give c x =>
      simp only [] at hr
      cases hp : chanPush cfg w f c x 0 with
      | closedErr => rw [hp] at hr; simp only [] at hr; subst hr; simp [finishFiber, setFiber] at hp'
      | ok w1 b =>
        rw [hp] at hr
        obtain ⟨h1, h2, h3, h4, _, _, h7⟩ := chanPush_W hg.strict hp hm hcur hq.1 hq.2.1 (hnc c) (by decide)
        cases b with
        | false => simp only [] at hr; subst hr; exact (not_pending_of_current hW' h2 hp').elim
        | true =>
          simp only [] at hr; subst hr
          refine ⟨rfl, ?_⟩
          have hsf : (w1.fibers f).sched = (w.fibers f).sched := by rw [h7]
          rw [← hsf]
          obtain ⟨_, _, hoth, hcase⟩ := chanPush_cases cfg hg.strict w f c x 0 w1 true hp
          rcases hcase with ⟨_, _, _, _, _, hrp, _, _, _, hwp⟩ | ⟨r, rest', _, hb, _⟩
          · apply KOK_await (a := .give c x)
            · intro c'
              simp only [Action.readChans, List.not_mem_nil, iff_false]
              by_cases e : c' = c
              · subst e; rintro ⟨p, hp', _⟩; rw [hrp] at hp'; simp at hp'
              · rw [hsf]; unfold regR; rw [hoth c' e]; exact hnoR c'
            · intro c'
              simp only [Action.writeChans, List.mem_singleton]
              by_cases e : c' = c
              · subst e
                simp only [iff_true]
                refine ⟨⟨f, (w.fibers f).sched, .write⟩, ?_, rfl, hsf.symm⟩
                rw [hwp]; simp
              · simp only [e, iff_false]; rw [hsf]; unfold regW; rw [hoth c' e]; exact hnoW c'
            · simp only [Action.isSleep, Bool.false_eq_true, iff_false]; exact h4
            · exact h3
          · cases hb
    | take c =>
      simp only [] at hr
      have hpw := chanPop_W hg.skips (mode := 0) hm hcur hq.1 hq.2.1 (hnc c) (by decide)
      rcases chanPop_cases cfg hg.skips w f c 0 (by decide) with ⟨_, he⟩ | ⟨_, _, he⟩ | ⟨x, rest', o, wp', _, _, _, he⟩
      · obtain ⟨h1, _, _, _, _, h6⟩ := hpw.1 _ _ he
        rw [he] at hr; simp only [] at hr; subst hr
        refine ⟨rfl, ?_⟩
        have := KOK_yield (a := .take c) .nil h1 (by rw [h6]; exact hcanf)
        rw [h6] at this; exact this
      · obtain ⟨_, _, h3, h4, _, _, h7, _, _⟩ := hpw.2 _ he
        rw [he] at hr; simp only [] at hr; subst hr
        refine ⟨rfl, ?_⟩
        apply KOK_await (a := .take c)
        · intro c'
          simp only [Action.readChans, List.mem_singleton]
          by_cases e : c' = c
          · subst e
            simp only [iff_true]
            refine ⟨⟨f, (w.fibers f).sched, .read⟩, ?_, rfl, rfl⟩
            simp [setChan]
          · simp only [e, iff_false]; unfold regR; simp only [setChan, e, ↓reduceIte]; exact hnoR c'
        · intro c'
          simp only [Action.writeChans, List.not_mem_nil, iff_false]
          by_cases e : c' = c
          · subst e; unfold regW; simp only [setChan, ↓reduceIte]; exact hnoW c'
          · unfold regW; simp only [setChan, e, ↓reduceIte]; exact hnoW c'
        · simp only [Action.isSleep, Bool.false_eq_true, iff_false]; exact h4
        · exact h3
      · obtain ⟨h1, _, _, _, _, h6⟩ := hpw.1 _ _ he
        rw [he] at hr; simp only [] at hr; subst hr
        refine ⟨rfl, ?_⟩
        have := KOK_yield (a := .take c) (.num x) h1 (by rw [h6]; exact hcanf)
        rw [h6] at this; exact this
    | select cls =>
      cases cls with
      | nil => simp only [] at hr; subst hr; exact (not_pending_of_current hW' hcur hp').elim
      | cons cl0 cls0 =>
        simp only [] at hr
        have hnd : ((cl0 :: cls0).map Clause.chan).Nodup := hns
        generalize cl0 :: cls0 = cls at hnd hr
        cases hci : choiceImmediate cfg w f cls with
        | some r0 =>
          rw [hci] at hr; simp only [] at hr; subst hr
          exact (not_pending_of_current hW' (choiceImmediate_W hg f cls w r0.1 r0.2 hci hm hcur hq).2.1 hp').elim
        | none =>
          rw [hci] at hr; simp only [] at hr; subst hr
          refine ⟨rfl, ?_⟩
          have hcond := choiceImmediate_none hg w f cls hci
          obtain ⟨_, hfib, hrq, htm, hR, hWr⟩ := choiceRegister_Evo hg f cls w hcond hnd
          have hsf : ((choiceRegister cfg w f cls).fibers f).sched = (w.fibers f).sched := by rw [hfib]
          rw [← hsf]
          apply KOK_await (a := .select cls)
          · intro c'; rw [hsf, hR c']; simp only [or_iff_right_iff_imp]; intro h; exact absurd h (hnoR c')
          · intro c'; rw [hsf, hWr c']; simp only [or_iff_right_iff_imp]; intro h; exact absurd h (hnoW c')
          · simp only [Action.isSleep, Bool.false_eq_true, iff_false]; rw [hfib, htm]; exact hq.2.1
          · rw [hfib, hrq]; exact hq.1
  exact key _ rfl hW' hp'

/-- **one transition preserves the invariant on (world, ghost)** -/
theorem stepG_K {cfg : Cfg} (hg : CfgGood cfg) (w : World) (g : Ops) (a : Action) (hns : a.noSelfMatch) (hi : WInv w)
    (hk : KInv w g) : KInv (stepG cfg w g a).1 (stepG cfg w g a).2 := by
  intro f hp'
  rw [stepG_fst] at hp' ⊢
  have hW' := step_W hg w a hns hi
  have hE := step_Evo hg w a hns hi
  by_cases hc : w.current = some f
  · obtain ⟨ho, hkok⟩ := suspend_K hg w a hns hi f hc hp'
    exact ⟨_, stepG_ghost_self cfg w g a f hc ho, hkok⟩
  · rcases hE.2.pend f hp' with h | h
    · obtain ⟨op, hop, hkop⟩ := hk f h
      exact ⟨op, by rw [stepG_ghost_other cfg w g a f hc]; exact hop, KOK_step hE hi hW' hc hp' hkop⟩
    · exact absurd h hc

theorem runG_K {cfg : Cfg} (hg : CfgGood cfg) (as : List Action) :
    ∀ (w : World) (g : Ops), (∀ a ∈ as, a.noSelfMatch) → WInv w → KInv w g →
      WInv (runG cfg w g as).1 ∧ KInv (runG cfg w g as).1 (runG cfg w g as).2 := by
  induction as with
  | nil => intro w g _ hi hk; exact ⟨hi, hk⟩
  | cons a rest ih =>
    intro w g hns hi hk
    simp only [runG]
    exact ih _ _ (fun b hb => hns b (List.mem_cons_of_mem _ hb))
      (by rw [stepG_fst]; exact step_W hg w a (hns a (by simp)) hi) (stepG_K hg w g a (hns a (by simp)) hi hk)

theorem start_K (limits : Nat → Nat) (g : Ops) : KInv (World.start limits) g := by
  intro f hp
  exfalso
  have hst := (scheduleGeneral_props (World.init limits) 0 .nil .ok).2.2.2
  unfold World.start schedule at hp
  rcases hst with ⟨_, hf, _⟩ | ⟨_, _, hst, hoth, _⟩
  · rw [hf] at hp; simp [World.init] at hp
  · by_cases e : f = 0
    · subst e; rw [hst] at hp; simp [World.init] at hp
    · rw [hoth f e] at hp; simp [World.init] at hp

end JanetModel.Ev
