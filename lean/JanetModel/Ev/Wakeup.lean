/- Wake-up invariant of the event-loop model (configuration with every check, selects without a repeated channel):
   every suspended fiber has exactly one kind of live wake-up source - one task carrying its current sched_id, or a
   timer, or registrations in channel queues - and nothing else carries its current sched_id.
   The invariant `M` is stated on the components (fibers, run queue, timers, pending entries per channel, current). -/
import JanetModel.Ev.ChanInv
namespace JanetModel.Ev

abbrev Fibers := Nat → Fiber
abbrev Ent := Nat → List Pending

/-- all pending entries of channel `c` -/
def World.ent (w : World) : Ent := fun c => (w.chans c).readPending ++ (w.chans c).writePending

/-- number of tasks in the run queue that would really resume `f` -/
def LT (fb : Fibers) (rq : List Task) (f : Nat) : Nat := rq.countP (fun t => t.fiber == f && t.expected == (fb f).sched)

/-- a sleep / timeout timer that would still wake `f` -/
def liveTimer (fb : Fibers) (tm : List Timer) (f : Nat) : Prop :=
  ∃ t ∈ tm, t.curr = none ∧ t.fiber = f ∧ t.sched = (fb f).sched

/-- `f` has a current registration in a queue of channel `c` -/
def liveIn (fb : Fibers) (en : Ent) (f c : Nat) : Prop := ∃ p ∈ en c, p.fiber = f ∧ p.sched = (fb f).sched

def liveEntry (fb : Fibers) (en : Ent) (f : Nat) : Prop := ∃ c, liveIn fb en f c

/-- the invariant; the running fiber (`cur`) is exempt from `d2` while its operation is in progress -/
structure M (fb : Fibers) (rq : List Task) (tm : List Timer) (en : Ent) (cur : Option Nat) : Prop where
  a1 : ∀ c, ∀ p ∈ en c, p.sched ≤ (fb p.fiber).sched
  a2 : ∀ t ∈ rq, t.expected ≤ (fb t.fiber).sched
  a3 : ∀ t ∈ tm, t.sched ≤ (fb t.fiber).sched
  d0 : ∀ f, LT fb rq f ≤ 1
  d1 : ∀ f, (fb f).status = .pending → LT fb rq f = 1 ∨ liveTimer fb tm f ∨ liveEntry fb en f
  d2 : ∀ f, (fb f).status ≠ .pending → cur ≠ some f → ¬ liveTimer fb tm f ∧ ¬ liveEntry fb en f
  d3 : ∀ f, LT fb rq f = 1 → ¬ liveTimer fb tm f ∧ ¬ liveEntry fb en f
  d4 : ∀ f, (fb f).status = .alive → cur = some f
  d5 : ∀ f, cur = some f → (fb f).status = .alive
  e : ∀ f, (fb f).canceled = true → LT fb rq f = 1

/-- nothing carries `f`'s current sched_id -/
def Quiet (fb : Fibers) (rq : List Task) (tm : List Timer) (en : Ent) (f : Nat) : Prop :=
  LT fb rq f = 0 ∧ ¬ liveTimer fb tm f ∧ ¬ liveEntry fb en f

/-! ### LT / liveTimer / liveIn of `f` only look at `f`'s sched_id -/

theorem LT_congr {fb fb' : Fibers} (rq : List Task) (f : Nat) (hs : (fb' f).sched = (fb f).sched) :
    LT fb' rq f = LT fb rq f := by unfold LT; rw [hs]

theorem liveTimer_congr {fb fb' : Fibers} (tm : List Timer) (f : Nat) (hs : (fb' f).sched = (fb f).sched) :
    liveTimer fb' tm f ↔ liveTimer fb tm f := by unfold liveTimer; rw [hs]

theorem liveIn_congr {fb fb' : Fibers} (en : Ent) (f c : Nat) (hs : (fb' f).sched = (fb f).sched) :
    liveIn fb' en f c ↔ liveIn fb en f c := by unfold liveIn; rw [hs]

theorem liveEntry_congr {fb fb' : Fibers} (en : Ent) (f : Nat) (hs : (fb' f).sched = (fb f).sched) :
    liveEntry fb' en f ↔ liveEntry fb en f := by
  unfold liveEntry
  constructor
  · rintro ⟨c, h⟩; exact ⟨c, (liveIn_congr en f c hs).mp h⟩
  · rintro ⟨c, h⟩; exact ⟨c, (liveIn_congr en f c hs).mpr h⟩

/-! ### scheduling a fiber -/

/-- Scheduling ANY fiber `g` (bump of its sched_id, one new task carrying the new id, everything else as before)
    preserves the invariant: the bump makes every other wake-up source of `g` stale, the new task is the only live one. -/
theorem M_bump {fb fb' : Fibers} {rq : List Task} {tm : List Timer} {en : Ent} {cur : Option Nat} (g : Nat) (t : Task)
    (hm : M fb rq tm en cur)
    (hsg : (fb' g).sched = (fb g).sched + 1) (hstg : (fb' g).status = (fb g).status)
    (hoth : ∀ h, h ≠ g → fb' h = fb h) (htf : t.fiber = g) (hte : t.expected = (fb g).sched + 1) :
    M fb' (rq ++ [t]) tm en cur := by
  have hLToth : ∀ h, h ≠ g → LT fb' (rq ++ [t]) h = LT fb rq h := by
    intro h hh
    have hgh : (g == h) = false := by simp; exact fun e => hh e.symm
    simp [LT, List.countP_append, hoth h hh, htf, hgh]
  have hLTg : LT fb' (rq ++ [t]) g = 1 := by
    simp only [LT, List.countP_append, hsg]
    have : rq.countP (fun t => t.fiber == g && t.expected == (fb g).sched + 1) = 0 := by
      rw [List.countP_eq_zero]
      intro u hu
      have := hm.a2 u hu
      simp only [Bool.and_eq_true, beq_iff_eq, not_and]
      intro hf; rw [hf] at this; omega
    rw [this]; simp [htf, hte]
  have hnoT : ¬ liveTimer fb' tm g := by
    rintro ⟨u, hu, _, h3, h4⟩
    have := hm.a3 u hu; rw [h3] at this; omega
  have hnoE : ¬ liveEntry fb' en g := by
    rintro ⟨c, p, hp, h3, h4⟩
    have := hm.a1 c p hp; rw [h3] at this; omega
  have hTo : ∀ h, h ≠ g → (liveTimer fb' tm h ↔ liveTimer fb tm h) :=
    fun h hh => liveTimer_congr tm h (by rw [hoth h hh])
  have hEo : ∀ h, h ≠ g → (liveEntry fb' en h ↔ liveEntry fb en h) :=
    fun h hh => liveEntry_congr en h (by rw [hoth h hh])
  refine ⟨?_, ?_, ?_, ?_, ?_, ?_, ?_, ?_, ?_, ?_⟩
  · intro c p hp
    have := hm.a1 c p hp
    by_cases h : p.fiber = g
    · rw [h] at this ⊢; omega
    · rw [hoth _ h]; exact this
  · intro u hu
    simp only [List.mem_append, List.mem_singleton] at hu
    rcases hu with hu | hu
    · have := hm.a2 u hu
      by_cases h : u.fiber = g
      · rw [h] at this ⊢; omega
      · rw [hoth _ h]; exact this
    · subst hu; rw [htf, hte, hsg]; exact Nat.le_refl _
  · intro u hu
    have := hm.a3 u hu
    by_cases h : u.fiber = g
    · rw [h] at this ⊢; omega
    · rw [hoth _ h]; exact this
  · intro f
    by_cases h : f = g
    · subst h; rw [hLTg]; exact Nat.le_refl 1
    · rw [hLToth f h]; exact hm.d0 f
  · intro f hst
    by_cases h : f = g
    · subst h; left; exact hLTg
    · rw [hLToth f h, hTo f h, hEo f h]; rw [hoth f h] at hst; exact hm.d1 f hst
  · intro f hst hcur
    by_cases h : f = g
    · subst h; exact ⟨hnoT, hnoE⟩
    · rw [hTo f h, hEo f h]; rw [hoth f h] at hst; exact hm.d2 f hst hcur
  · intro f hlt
    by_cases h : f = g
    · subst h; exact ⟨hnoT, hnoE⟩
    · rw [hTo f h, hEo f h]; rw [hLToth f h] at hlt; exact hm.d3 f hlt
  · intro f hst
    by_cases h : f = g
    · subst h; rw [hstg] at hst; exact hm.d4 f hst
    · rw [hoth f h] at hst; exact hm.d4 f hst
  · intro f hcur
    have := hm.d5 f hcur
    by_cases h : f = g
    · subst h; rw [hstg]; exact this
    · rw [hoth f h]; exact this
  · intro f hcan
    by_cases h : f = g
    · subst h; exact hLTg
    · rw [hLToth f h]; rw [hoth f h] at hcan; exact hm.e f hcan

/-- what janet_schedule_general (soon = 0) does, field by field -/
theorem scheduleGeneral_props (w : World) (g : Nat) (val : Val) (sig : Sig) :
    (scheduleGeneral w g val sig false).timers = w.timers ∧ (scheduleGeneral w g val sig false).chans = w.chans ∧
    (scheduleGeneral w g val sig false).current = w.current ∧
    (((w.fibers g).canceled = true ∧ (scheduleGeneral w g val sig false).fibers = w.fibers ∧
        (scheduleGeneral w g val sig false).runq = w.runq) ∨
     ((w.fibers g).canceled = false ∧
        ((scheduleGeneral w g val sig false).fibers g).sched = (w.fibers g).sched + 1 ∧
        ((scheduleGeneral w g val sig false).fibers g).status = (w.fibers g).status ∧
        (∀ h, h ≠ g → (scheduleGeneral w g val sig false).fibers h = w.fibers h) ∧
        (scheduleGeneral w g val sig false).runq = w.runq ++ [⟨g, val, sig, (w.fibers g).sched + 1⟩])) := by
  unfold scheduleGeneral
  by_cases h : (w.fibers g).canceled = true
  · simp [h]
  · have h' : (w.fibers g).canceled = false := by simpa using h
    simp only [h', Bool.false_eq_true, ↓reduceIte]
    refine ⟨rfl, rfl, rfl, Or.inr ⟨by simp, by simp [setFiber], by simp [setFiber], ?_, by simp [setFiber]⟩⟩
    intro k hk; simp [setFiber, hk]

/-- scheduling / cancelling any fiber preserves `M`, for any fixed table of pending entries and timers -/
theorem M_schedule {w : World} {tm : List Timer} {en : Ent} (g : Nat) (val : Val) (sig : Sig)
    (hm : M w.fibers w.runq tm en w.current) :
    M (scheduleGeneral w g val sig false).fibers (scheduleGeneral w g val sig false).runq tm en
      (scheduleGeneral w g val sig false).current := by
  obtain ⟨_, _, hcur, hcase⟩ := scheduleGeneral_props w g val sig
  rw [hcur]
  rcases hcase with ⟨_, hf, hr⟩ | ⟨_, hs, hst, hoth, hr⟩
  · rw [hf, hr]; exact hm
  · rw [hr]; exact M_bump g _ hm hs hst hoth rfl rfl

theorem scheduleGeneral_sched_le (w : World) (g : Nat) (val : Val) (sig : Sig) (h : Nat) :
    (w.fibers h).sched ≤ ((scheduleGeneral w g val sig false).fibers h).sched :=
  (scheduleGeneral_frame w g val sig false).sched h

/-! ### removing / adding pending entries and timers -/

/-- dropping entries that are stale changes nothing -/
theorem M_shrink {fb : Fibers} {rq : List Task} {tm : List Timer} {en en' : Ent} {cur : Option Nat}
    (hm : M fb rq tm en cur) (hsub : ∀ c p, p ∈ en' c → p ∈ en c)
    (hstale : ∀ c p, p ∈ en c → p ∉ en' c → p.sched ≠ (fb p.fiber).sched) : M fb rq tm en' cur := by
  have hiff : ∀ f, liveEntry fb en' f ↔ liveEntry fb en f := by
    intro f
    constructor
    · rintro ⟨c, p, hp, h1, h2⟩; exact ⟨c, p, hsub c p hp, h1, h2⟩
    · rintro ⟨c, p, hp, h1, h2⟩
      by_cases hin : p ∈ en' c
      · exact ⟨c, p, hin, h1, h2⟩
      · exact absurd (by rw [h1]; exact h2) (hstale c p hp hin)
  refine ⟨fun c p hp => hm.a1 c p (hsub c p hp), hm.a2, hm.a3, hm.d0, ?_, ?_, ?_, hm.d4, hm.d5, hm.e⟩
  · intro f hst; rw [hiff]; exact hm.d1 f hst
  · intro f hst hc; rw [hiff]; exact hm.d2 f hst hc
  · intro f hlt; rw [hiff]; exact hm.d3 f hlt

/-- dropping entries, all live ones among them belonging to `g`, and scheduling `g` -/
theorem M_shrink_schedule {w : World} {tm : List Timer} {en en' : Ent} (g : Nat) (val : Val) (sig : Sig)
    (hm : M w.fibers w.runq tm en w.current) (hsub : ∀ c p, p ∈ en' c → p ∈ en c)
    (hrem : ∀ c p, p ∈ en c → p ∉ en' c → p.sched ≠ (w.fibers p.fiber).sched ∨ p.fiber = g)
    (hcan : (w.fibers g).canceled = false) :
    M (scheduleGeneral w g val sig false).fibers (scheduleGeneral w g val sig false).runq tm en'
      (scheduleGeneral w g val sig false).current := by
  apply M_shrink (M_schedule g val sig hm) hsub
  intro c p hp hnp
  have hb := hm.a1 c p hp
  have hle := scheduleGeneral_sched_le w g val sig p.fiber
  obtain ⟨_, _, _, hcase⟩ := scheduleGeneral_props w g val sig
  rcases hrem c p hp hnp with h | h
  · omega
  · rcases hcase with ⟨hc, _⟩ | ⟨_, hs, _⟩
    · rw [hcan] at hc; simp at hc
    · rw [h] at hb ⊢; omega

/-- the running fiber registers itself (it has no live task) -/
theorem M_register {fb : Fibers} {rq : List Task} {tm : List Timer} {en en' : Ent} {cur : Option Nat} (f c : Nat)
    (p : Pending) (hm : M fb rq tm en cur) (hcur : cur = some f) (hpf : p.fiber = f) (hps : p.sched = (fb f).sched)
    (hlt : LT fb rq f = 0) (hmem : ∀ c' q, q ∈ en' c' ↔ q ∈ en c' ∨ (c' = c ∧ q = p)) : M fb rq tm en' cur := by
  have hmono : ∀ h, liveEntry fb en h → liveEntry fb en' h := by
    rintro h ⟨c', q, hq, h1, h2⟩; exact ⟨c', q, (hmem c' q).mpr (Or.inl hq), h1, h2⟩
  have hback : ∀ h, h ≠ f → liveEntry fb en' h → liveEntry fb en h := by
    rintro h hh ⟨c', q, hq, h1, h2⟩
    rcases (hmem c' q).mp hq with hq | ⟨_, hq⟩
    · exact ⟨c', q, hq, h1, h2⟩
    · subst hq; exact absurd (hpf.symm.trans h1).symm hh
  refine ⟨?_, hm.a2, hm.a3, hm.d0, ?_, ?_, ?_, hm.d4, hm.d5, hm.e⟩
  · intro c' q hq
    rcases (hmem c' q).mp hq with hq | ⟨_, hq⟩
    · exact hm.a1 c' q hq
    · subst hq; rw [hpf, hps]; exact Nat.le_refl _
  · intro h hst
    rcases hm.d1 h hst with h1 | h1 | h1
    · exact Or.inl h1
    · exact Or.inr (Or.inl h1)
    · exact Or.inr (Or.inr (hmono h h1))
  · intro h hst hc
    have hne : h ≠ f := fun e => hc (by rw [hcur, e])
    exact ⟨(hm.d2 h hst hc).1, fun hl => (hm.d2 h hst hc).2 (hback h hne hl)⟩
  · intro h hl
    have hne : h ≠ f := fun e => by rw [e, hlt] at hl; simp at hl
    exact ⟨(hm.d3 h hl).1, fun hle => (hm.d3 h hl).2 (hback h hne hle)⟩

/-- adding a timer: a sleep timer of the running fiber (no live task), or a deadline timer -/
theorem M_timer_add {fb : Fibers} {rq : List Task} {tm tm' : List Timer} {en : Ent} {cur : Option Nat} (f : Nat)
    (t : Timer) (hm : M fb rq tm en cur) (hcur : cur = some f) (htf : t.fiber = f) (hts : t.sched = (fb f).sched)
    (hlt : LT fb rq f = 0) (hmem : ∀ u, u ∈ tm' ↔ u = t ∨ u ∈ tm) : M fb rq tm' en cur := by
  have hmono : ∀ h, liveTimer fb tm h → liveTimer fb tm' h := by
    rintro h ⟨u, hu, h1, h2, h3⟩; exact ⟨u, (hmem u).mpr (Or.inr hu), h1, h2, h3⟩
  have hback : ∀ h, h ≠ f → liveTimer fb tm' h → liveTimer fb tm h := by
    rintro h hh ⟨u, hu, h1, h2, h3⟩
    rcases (hmem u).mp hu with hu | hu
    · subst hu; exact absurd (htf.symm.trans h2).symm hh
    · exact ⟨u, hu, h1, h2, h3⟩
  refine ⟨hm.a1, hm.a2, ?_, hm.d0, ?_, ?_, ?_, hm.d4, hm.d5, hm.e⟩
  · intro u hu
    rcases (hmem u).mp hu with hu | hu
    · subst hu; rw [htf, hts]; exact Nat.le_refl _
    · exact hm.a3 u hu
  · intro h hst
    rcases hm.d1 h hst with h1 | h1 | h1
    · exact Or.inl h1
    · exact Or.inr (Or.inl (hmono h h1))
    · exact Or.inr (Or.inr h1)
  · intro h hst hc
    have hne : h ≠ f := fun e => hc (by rw [hcur, e])
    exact ⟨fun hl => (hm.d2 h hst hc).1 (hback h hne hl), (hm.d2 h hst hc).2⟩
  · intro h hl
    have hne : h ≠ f := fun e => by rw [e, hlt] at hl; simp at hl
    exact ⟨fun hle => (hm.d3 h hl).1 (hback h hne hle), (hm.d3 h hl).2⟩

/-- dropping timers that can wake nobody (stale ones and deadlines) changes nothing -/
theorem M_timer_shrink {fb : Fibers} {rq : List Task} {tm tm' : List Timer} {en : Ent} {cur : Option Nat}
    (hm : M fb rq tm en cur) (hsub : ∀ u, u ∈ tm' → u ∈ tm)
    (hdead : ∀ u, u ∈ tm → u ∉ tm' → u.curr ≠ none ∨ u.sched ≠ (fb u.fiber).sched) : M fb rq tm' en cur := by
  have hiff : ∀ f, liveTimer fb tm' f ↔ liveTimer fb tm f := by
    intro f
    constructor
    · rintro ⟨u, hu, h1, h2, h3⟩; exact ⟨u, hsub u hu, h1, h2, h3⟩
    · rintro ⟨u, hu, h1, h2, h3⟩
      by_cases hin : u ∈ tm'
      · exact ⟨u, hin, h1, h2, h3⟩
      · rcases hdead u hu hin with h | h
        · exact absurd h1 h
        · exact absurd (by rw [h2]; exact h3) h
  refine ⟨hm.a1, hm.a2, fun u hu => hm.a3 u (hsub u hu), hm.d0, ?_, ?_, ?_, hm.d4, hm.d5, hm.e⟩
  · intro f hst; rw [hiff]; exact hm.d1 f hst
  · intro f hst hc; rw [hiff]; exact hm.d2 f hst hc
  · intro f hlt; rw [hiff]; exact hm.d3 f hlt

/-! ### status changes: await, finish, the run phase -/

/-- a change of fibers that keeps every sched_id: nothing about liveness changes -/
theorem same_sched {fb fb' : Fibers} (hs : ∀ h, (fb' h).sched = (fb h).sched) (rq : List Task) (tm : List Timer) (en : Ent) :
    (∀ h, LT fb' rq h = LT fb rq h) ∧ (∀ h, liveTimer fb' tm h ↔ liveTimer fb tm h) ∧
    (∀ h, liveEntry fb' en h ↔ liveEntry fb en h) :=
  ⟨fun h => LT_congr rq h (hs h), fun h => liveTimer_congr tm h (hs h), fun h => liveEntry_congr en h (hs h)⟩

/-- janet_await: the running fiber becomes suspended; it must have a wake-up source -/
theorem M_await {fb fb' : Fibers} {rq : List Task} {tm : List Timer} {en : Ent} (f : Nat)
    (hm : M fb rq tm en (some f)) (hs : ∀ h, (fb' h).sched = (fb h).sched) (hst : (fb' f).status = .pending)
    (hcan : ∀ h, (fb' h).canceled = (fb h).canceled) (hoth : ∀ h, h ≠ f → (fb' h).status = (fb h).status)
    (hsrc : LT fb rq f = 1 ∨ liveTimer fb tm f ∨ liveEntry fb en f) : M fb' rq tm en none := by
  obtain ⟨hL, hT, hE⟩ := same_sched hs rq tm en
  refine ⟨?_, ?_, ?_, ?_, ?_, ?_, ?_, ?_, ?_, ?_⟩
  · intro c p hp; rw [hs]; exact hm.a1 c p hp
  · intro t ht; rw [hs]; exact hm.a2 t ht
  · intro t ht; rw [hs]; exact hm.a3 t ht
  · intro h; rw [hL]; exact hm.d0 h
  · intro h hh
    rw [hL, hT, hE]
    by_cases e : h = f
    · subst e; exact hsrc
    · rw [hoth h e] at hh; exact hm.d1 h hh
  · intro h hh _
    rw [hT, hE]
    have e : h ≠ f := fun e => hh (by rw [e]; exact hst)
    rw [hoth h e] at hh
    exact hm.d2 h hh (fun c => e (Option.some.inj c).symm)
  · intro h hh; rw [hL] at hh; rw [hT, hE]; exact hm.d3 h hh
  · intro h hh
    have e : h ≠ f := fun e => by rw [e, hst] at hh; cases hh
    rw [hoth h e] at hh
    exact absurd (Option.some.inj (hm.d4 h hh)).symm e
  · intro h hh; cases hh
  · intro h hh; rw [hL]; rw [hcan] at hh; exact hm.e h hh

/-- the running fiber returns or raises: it must be quiet -/
theorem M_finish {fb fb' : Fibers} {rq : List Task} {tm : List Timer} {en : Ent} (f : Nat)
    (hm : M fb rq tm en (some f)) (hs : ∀ h, (fb' h).sched = (fb h).sched)
    (hst : (fb' f).status = .dead ∨ (fb' f).status = .error)
    (hcan : ∀ h, (fb' h).canceled = (fb h).canceled) (hoth : ∀ h, h ≠ f → (fb' h).status = (fb h).status)
    (hq : ¬ liveTimer fb tm f ∧ ¬ liveEntry fb en f) : M fb' rq tm en none := by
  obtain ⟨hL, hT, hE⟩ := same_sched hs rq tm en
  have hnp : (fb' f).status ≠ .pending := by rcases hst with h | h <;> (rw [h]; intro c; cases c)
  have hna : (fb' f).status ≠ .alive := by rcases hst with h | h <;> (rw [h]; intro c; cases c)
  refine ⟨?_, ?_, ?_, ?_, ?_, ?_, ?_, ?_, ?_, ?_⟩
  · intro c p hp; rw [hs]; exact hm.a1 c p hp
  · intro t ht; rw [hs]; exact hm.a2 t ht
  · intro t ht; rw [hs]; exact hm.a3 t ht
  · intro h; rw [hL]; exact hm.d0 h
  · intro h hh
    rw [hL, hT, hE]
    have e : h ≠ f := fun e => hnp (by rw [← e]; exact hh)
    rw [hoth h e] at hh; exact hm.d1 h hh
  · intro h hh _
    rw [hT, hE]
    by_cases e : h = f
    · subst e; exact hq
    · rw [hoth h e] at hh
      exact hm.d2 h hh (fun c => e (Option.some.inj c).symm)
  · intro h hh; rw [hL] at hh; rw [hT, hE]; exact hm.d3 h hh
  · intro h hh
    have e : h ≠ f := fun e => hna (by rw [← e]; exact hh)
    rw [hoth h e] at hh
    exact absurd (Option.some.inj (hm.d4 h hh)).symm e
  · intro h hh; cases hh
  · intro h hh; rw [hL]; rw [hcan] at hh; exact hm.e h hh

theorem LT_cons (fb : Fibers) (t : Task) (rest : List Task) (h : Nat) :
    LT fb (t :: rest) h = (if t.fiber = h ∧ t.expected = (fb h).sched then 1 else 0) + LT fb rest h := by
  unfold LT
  rw [List.countP_cons]
  by_cases c : t.fiber = h ∧ t.expected = (fb h).sched
  · simp [c.1, c.2]; omega
  · have : (t.fiber == h && t.expected == (fb h).sched) = false := by
      simp only [Bool.and_eq_false_iff, beq_eq_false_iff_ne]
      by_cases c1 : t.fiber = h
      · right; exact fun c2 => c ⟨c1, c2⟩
      · left; exact c1
    simp [this, c]

/-- run phase, a task that resumes nobody: stale, or its fiber is already finished -/
theorem M_pop {fb fb' : Fibers} {t : Task} {rest : List Task} {tm : List Timer} {en : Ent}
    (hm : M fb (t :: rest) tm en none) (hs : ∀ h, (fb' h).sched = (fb h).sched)
    (hst : ∀ h, (fb' h).status = (fb h).status) (hcan : ∀ h, h ≠ t.fiber → (fb' h).canceled = (fb h).canceled)
    (hcg : (fb' t.fiber).canceled = false)
    (hwhy : t.expected ≠ (fb t.fiber).sched ∨ (fb t.fiber).status ≠ .pending) : M fb' rest tm en none := by
  obtain ⟨hL, hT, hE⟩ := same_sched hs rest tm en
  have hle : ∀ h, LT fb rest h ≤ LT fb (t :: rest) h := by intro h; rw [LT_cons]; omega
  have heq : ∀ h, (h ≠ t.fiber ∨ t.expected ≠ (fb t.fiber).sched) → LT fb rest h = LT fb (t :: rest) h := by
    intro h hh
    rw [LT_cons]
    have : ¬ (t.fiber = h ∧ t.expected = (fb h).sched) := by
      rintro ⟨c1, c2⟩
      rcases hh with hh | hh
      · exact hh c1.symm
      · rw [← c1] at c2; exact hh c2
    simp [this]
  refine ⟨?_, ?_, ?_, ?_, ?_, ?_, ?_, ?_, ?_, ?_⟩
  · intro c p hp; rw [hs]; exact hm.a1 c p hp
  · intro u hu; rw [hs]; exact hm.a2 u (List.mem_cons_of_mem _ hu)
  · intro u hu; rw [hs]; exact hm.a3 u hu
  · intro h; rw [hL]; exact Nat.le_trans (hle h) (hm.d0 h)
  · intro h hh
    rw [hL, hT, hE]
    rw [hst] at hh
    have : h ≠ t.fiber ∨ t.expected ≠ (fb t.fiber).sched := by
      by_cases e : h = t.fiber
      · right
        rcases hwhy with hw | hw
        · exact hw
        · rw [e] at hh; exact absurd hh hw
      · left; exact e
    rw [heq h this]; exact hm.d1 h hh
  · intro h hh hc; rw [hT, hE]; rw [hst] at hh; exact hm.d2 h hh hc
  · intro h hh
    rw [hL] at hh; rw [hT, hE]
    have h1 : LT fb (t :: rest) h = 1 := by have := hle h; have := hm.d0 h; omega
    exact hm.d3 h h1
  · intro h hh; rw [hst] at hh; exact hm.d4 h hh
  · intro h hh; cases hh
  · intro h hh
    rw [hL]
    by_cases e : h = t.fiber
    · rw [e, hcg] at hh; cases hh
    · rw [hcan h e] at hh; rw [heq h (Or.inl e)]; exact hm.e h hh

/-- run phase, a live task for a fiber that can run: the fiber becomes the running one and is quiet -/
theorem M_resume {fb fb' : Fibers} {t : Task} {rest : List Task} {tm : List Timer} {en : Ent}
    (hm : M fb (t :: rest) tm en none) (hs : ∀ h, (fb' h).sched = (fb h).sched)
    (hlive : t.expected = (fb t.fiber).sched) (hstg : (fb' t.fiber).status = .alive)
    (hst : ∀ h, h ≠ t.fiber → (fb' h).status = (fb h).status)
    (hcan : ∀ h, h ≠ t.fiber → (fb' h).canceled = (fb h).canceled) (hcg : (fb' t.fiber).canceled = false) :
    M fb' rest tm en (some t.fiber) ∧ LT fb' rest t.fiber = 0 ∧ ¬ liveTimer fb' tm t.fiber ∧ ¬ liveEntry fb' en t.fiber := by
  obtain ⟨hL, hT, hE⟩ := same_sched hs rest tm en
  have hg1 : LT fb (t :: rest) t.fiber = 1 := by
    have h0 := hm.d0 t.fiber
    rw [LT_cons] at h0 ⊢
    simp only [hlive, and_self, ↓reduceIte] at h0 ⊢
    omega
  have hg0 : LT fb rest t.fiber = 0 := by
    rw [LT_cons] at hg1; simp only [hlive, and_self, ↓reduceIte] at hg1; omega
  have heq : ∀ h, h ≠ t.fiber → LT fb rest h = LT fb (t :: rest) h := by
    intro h hh
    rw [LT_cons]
    have : ¬ (t.fiber = h ∧ t.expected = (fb h).sched) := fun c => hh c.1.symm
    simp [this]
  have hq := hm.d3 t.fiber hg1
  refine ⟨⟨?_, ?_, ?_, ?_, ?_, ?_, ?_, ?_, ?_, ?_⟩, by rw [hL]; exact hg0, by rw [hT]; exact hq.1, by rw [hE]; exact hq.2⟩
  · intro c p hp; rw [hs]; exact hm.a1 c p hp
  · intro u hu; rw [hs]; exact hm.a2 u (List.mem_cons_of_mem _ hu)
  · intro u hu; rw [hs]; exact hm.a3 u hu
  · intro h; rw [hL]
    by_cases e : h = t.fiber
    · rw [e, hg0]; omega
    · rw [heq h e]; exact hm.d0 h
  · intro h hh
    have e : h ≠ t.fiber := fun e => by rw [e, hstg] at hh; cases hh
    rw [hL, hT, hE, heq h e]; rw [hst h e] at hh; exact hm.d1 h hh
  · intro h hh hc
    have e : h ≠ t.fiber := fun e => hc (by rw [e])
    rw [hT, hE]; rw [hst h e] at hh; exact hm.d2 h hh (fun c => by cases c)
  · intro h hh
    rw [hL] at hh
    have e : h ≠ t.fiber := fun e => by rw [e, hg0] at hh; cases hh
    rw [hT, hE]; rw [heq h e] at hh; exact hm.d3 h hh
  · intro h hh
    by_cases e : h = t.fiber
    · rw [e]
    · rw [hst h e] at hh; have := hm.d4 h hh; cases this
  · intro h hh; rw [← Option.some.inj hh]; exact hstg
  · intro h hh
    rw [hL]
    by_cases e : h = t.fiber
    · rw [e, hcg] at hh; cases hh
    · rw [hcan h e] at hh; rw [heq h e]; exact hm.e h hh

/-- `task.fiber->sched_id++` at resume: bumping the sched_id of a fiber that is not suspended (and not cancelled), with no
    new task, makes everything that carried its sched_id stale and keeps the invariant -/
theorem M_bump_quiet {fb fb' : Fibers} {rq : List Task} {tm : List Timer} {en : Ent} {cur : Option Nat} (g : Nat)
    (hm : M fb rq tm en cur)
    (hsg : (fb' g).sched = (fb g).sched + 1) (hstg : (fb' g).status = (fb g).status)
    (hcg : (fb' g).canceled = (fb g).canceled) (hoth : ∀ h, h ≠ g → fb' h = fb h)
    (hnp : (fb g).status ≠ .pending) (hnc : (fb g).canceled = false) :
    M fb' rq tm en cur ∧ LT fb' rq g = 0 ∧ ¬ liveTimer fb' tm g ∧ ¬ liveEntry fb' en g := by
  have hLToth : ∀ h, h ≠ g → LT fb' rq h = LT fb rq h := by
    intro h hh; unfold LT; rw [hoth h hh]
  have hLTg : LT fb' rq g = 0 := by
    simp only [LT, hsg]
    rw [List.countP_eq_zero]
    intro u hu
    have := hm.a2 u hu
    simp only [Bool.and_eq_true, beq_iff_eq, not_and]
    intro hf; rw [hf] at this; omega
  have hnoT : ¬ liveTimer fb' tm g := by
    rintro ⟨u, hu, _, h3, h4⟩
    have := hm.a3 u hu; rw [h3] at this; omega
  have hnoE : ¬ liveEntry fb' en g := by
    rintro ⟨c, p, hp, h3, h4⟩
    have := hm.a1 c p hp; rw [h3] at this; omega
  have hTo : ∀ h, h ≠ g → (liveTimer fb' tm h ↔ liveTimer fb tm h) :=
    fun h hh => liveTimer_congr tm h (by rw [hoth h hh])
  have hEo : ∀ h, h ≠ g → (liveEntry fb' en h ↔ liveEntry fb en h) :=
    fun h hh => liveEntry_congr en h (by rw [hoth h hh])
  refine ⟨⟨?_, ?_, ?_, ?_, ?_, ?_, ?_, ?_, ?_, ?_⟩, hLTg, hnoT, hnoE⟩
  · intro c p hp
    have := hm.a1 c p hp
    by_cases h : p.fiber = g
    · rw [h] at this ⊢; omega
    · rw [hoth _ h]; exact this
  · intro u hu
    have := hm.a2 u hu
    by_cases h : u.fiber = g
    · rw [h] at this ⊢; omega
    · rw [hoth _ h]; exact this
  · intro u hu
    have := hm.a3 u hu
    by_cases h : u.fiber = g
    · rw [h] at this ⊢; omega
    · rw [hoth _ h]; exact this
  · intro f
    by_cases h : f = g
    · subst h; rw [hLTg]; exact Nat.zero_le 1
    · rw [hLToth f h]; exact hm.d0 f
  · intro f hst
    by_cases h : f = g
    · subst h; rw [hstg] at hst; exact absurd hst hnp
    · rw [hLToth f h, hTo f h, hEo f h]; rw [hoth f h] at hst; exact hm.d1 f hst
  · intro f hst hcur
    by_cases h : f = g
    · subst h; exact ⟨hnoT, hnoE⟩
    · rw [hTo f h, hEo f h]; rw [hoth f h] at hst; exact hm.d2 f hst hcur
  · intro f hlt
    by_cases h : f = g
    · subst h; rw [hLTg] at hlt; cases hlt
    · rw [hTo f h, hEo f h]; rw [hLToth f h] at hlt; exact hm.d3 f hlt
  · intro f hst
    by_cases h : f = g
    · subst h; rw [hstg] at hst; exact hm.d4 f hst
    · rw [hoth f h] at hst; exact hm.d4 f hst
  · intro f hcur
    have := hm.d5 f hcur
    by_cases h : f = g
    · subst h; rw [hstg]; exact this
    · rw [hoth f h]; exact this
  · intro f hcan
    by_cases h : f = g
    · subst h; rw [hcg, hnc] at hcan; cases hcan
    · rw [hLToth f h]; rw [hoth f h] at hcan; exact hm.e f hcan

/-! ### the invariant on worlds -/

def WM (w : World) : Prop := M w.fibers w.runq w.timers w.ent w.current

def WQuiet (w : World) (f : Nat) : Prop :=
  LT w.fibers w.runq f = 0 ∧ ¬ liveTimer w.fibers w.timers f ∧ ¬ liveEntry w.fibers w.ent f

/-- between two actions: `M`, and the running fiber (if any) has no wake-up source at all -/
def WInv (w : World) : Prop := WM w ∧ ∀ f, w.current = some f → WQuiet w f

/-- all five facts about the source -/
structure CfgGood (cfg : Cfg) : Prop where
  strict : cfg.pushBlocksStrict = true
  ready : cfg.choiceReadyStrict = true
  sees : cfg.choiceGiveSeesReader = true
  skips : cfg.popSkipsStaleWriter = true
  closeChecks : cfg.closeChecksSched = true

theorem CfgGood.chan {cfg : Cfg} (h : CfgGood cfg) : CfgChan cfg := ⟨h.strict, h.skips⟩

theorem mem_ent (w : World) (c : Nat) (p : Pending) :
    p ∈ w.ent c ↔ p ∈ (w.chans c).readPending ∨ p ∈ (w.chans c).writePending := by
  unfold World.ent; exact List.mem_append

/-- a live entry's fiber is not cancelled (it has no live task) -/
theorem not_canceled_of_liveEntry {fb : Fibers} {rq : List Task} {tm : List Timer} {en : Ent} {cur : Option Nat}
    (hm : M fb rq tm en cur) (g : Nat) (h : liveEntry fb en g ∨ liveTimer fb tm g) : (fb g).canceled = false := by
  cases hc : (fb g).canceled
  · rfl
  · have := hm.d3 g (hm.e g hc)
    rcases h with h | h
    · exact absurd h this.2
    · exact absurd h this.1

/-- scheduling another fiber does not touch `f`'s wake-up sources -/
theorem schedule_other (w : World) (g : Nat) (val : Val) (sig : Sig) (f : Nat) (hne : g ≠ f) :
    LT (scheduleGeneral w g val sig false).fibers (scheduleGeneral w g val sig false).runq f = LT w.fibers w.runq f ∧
    (scheduleGeneral w g val sig false).fibers f = w.fibers f := by
  obtain ⟨_, _, _, hcase⟩ := scheduleGeneral_props w g val sig
  rcases hcase with ⟨_, hf, hr⟩ | ⟨_, _, _, hoth, hr⟩
  · rw [hf, hr]; exact ⟨rfl, rfl⟩
  · have hff := hoth f (fun e => hne e.symm)
    refine ⟨?_, hff⟩
    rw [hr]
    have hgh : (g == f) = false := by simp; exact hne
    simp [LT, List.countP_append, hff, hgh]

theorem popLiveReader_removed (fibers : Nat → Fiber) : ∀ (rp : List Pending) (o : Option Pending) (rest : List Pending),
    popLiveReader fibers rp = (o, rest) → ∀ p ∈ rp, p ∉ rest → p.live fibers = false ∨ o = some p := by
  intro rp
  induction rp with
  | nil => intro o rest _ p hp; simp at hp
  | cons q tl ih =>
    intro o rest h p hp hnp
    unfold popLiveReader at h
    by_cases hl : q.live fibers = true
    · simp [hl] at h
      rcases List.mem_cons.mp hp with e | e
      · right; rw [← h.1, e]
      · rw [← h.2] at hnp; exact absurd e hnp
    · simp [hl] at h
      rcases List.mem_cons.mp hp with e | e
      · left; rw [e]; simpa using hl
      · exact ih o rest h p e hnp

theorem popWriter_removed (fibers : Nat → Fiber) : ∀ (wp : List Pending) (o : Option Pending) (rest : List Pending),
    popWriter true fibers wp = (o, rest) → ∀ p ∈ wp, p ∉ rest → p.live fibers = false ∨ o = some p := by
  intro wp
  induction wp with
  | nil => intro o rest _ p hp; simp at hp
  | cons q tl ih =>
    intro o rest h p hp hnp
    unfold popWriter at h
    by_cases hl : q.live fibers = true
    · simp [hl] at h
      rcases List.mem_cons.mp hp with e | e
      · right; rw [← h.1, e]
      · rw [← h.2] at hnp; exact absurd e hnp
    · simp [hl] at h
      rcases List.mem_cons.mp hp with e | e
      · left; rw [e]; simpa using hl
      · exact ih o rest h p e hnp

theorem chanPush_misc (cfg : Cfg) (w : World) (f c x mode : Nat) (w' : World) (b : Bool)
    (h : chanPush cfg w f c x mode = .ok w' b) : w'.timers = w.timers ∧ w'.current = w.current := by
  unfold chanPush at h
  by_cases hcl : (w.chans c).closed = true
  · simp [hcl] at h
  · simp only [hcl] at h
    simp only [addPushed] at h
    rcases hq : popLiveReader w.fibers (w.chans c).readPending with ⟨r, rp⟩
    rw [hq] at h
    cases r with
    | none =>
      simp only [] at h
      by_cases hb : pushBlocks cfg ((w.chans c).items.length + 1) (w.chans c).limit = true
      · by_cases hm : mode = 2
        · simp [hb, hm] at h; rw [← h.1]; exact ⟨rfl, rfl⟩
        · simp [hb, hm] at h; rw [← h.1]; exact ⟨rfl, rfl⟩
      · simp [hb] at h; rw [← h.1]; exact ⟨rfl, rfl⟩
    | some r =>
      simp at h
      rw [← h.1]
      exact ⟨(scheduleGeneral_props _ _ _ _).1, (scheduleGeneral_props _ _ _ _).2.2.1⟩

theorem chanPop_cases (cfg : Cfg) (hk : cfg.popSkipsStaleWriter = true) (w : World) (f c mode : Nat) (hmode : mode ≠ 2) :
    ((w.chans c).closed = true ∧ chanPop cfg w f c mode = .got w none) ∨
    ((w.chans c).closed = false ∧ (w.chans c).items = [] ∧
      chanPop cfg w f c mode = .blocked (setChan w c { (w.chans c) with readPending := (w.chans c).readPending ++
        [Pending.mk f (w.fibers f).sched (if mode = 0 then .read else .choiceRead)] })) ∨
    (∃ x rest o wp', (w.chans c).closed = false ∧ (w.chans c).items = x :: rest ∧
      popWriter true w.fibers (w.chans c).writePending = (o, wp') ∧
      chanPop cfg w f c mode = .got
        (match o with
         | none => setChan (addHanded w c x) c { (w.chans c) with items := rest, writePending := wp' }
         | some p => schedule (setChan (addHanded w c x) c { (w.chans c) with items := rest, writePending := wp' }) p.fiber
                       (if p.mode = .choiceWrite then .give c else .chan c)) (some x)) := by
  cases hcl : (w.chans c).closed with
  | true => left; refine ⟨rfl, ?_⟩; unfold chanPop; simp [hcl]
  | false =>
    right
    cases hit : (w.chans c).items with
    | nil =>
      left; refine ⟨rfl, rfl, ?_⟩
      unfold chanPop; simp [hcl, hit, hmode]
    | cons x rest =>
      right
      rcases hq : popWriter true w.fibers (w.chans c).writePending with ⟨o, wp'⟩
      refine ⟨x, rest, o, wp', rfl, rfl, rfl, ?_⟩
      unfold chanPop
      have hq' : popWriter cfg.popSkipsStaleWriter (addHanded w c x).fibers (w.chans c).writePending = (o, wp') := by
        rw [hk]; exact hq
      simp only [hcl, Bool.false_eq_true, ↓reduceIte, hit, hq']
      cases o <;> rfl

theorem M_ent_congr {fb : Fibers} {rq : List Task} {tm : List Timer} {en en' : Ent} {cur : Option Nat}
    (hm : M fb rq tm en cur) (h : ∀ c p, p ∈ en' c ↔ p ∈ en c) : M fb rq tm en' cur :=
  M_shrink hm (fun c p hp => (h c p).mp hp) (fun c p hp hnp => absurd ((h c p).mpr hp) hnp)

theorem not_live_of_hasLiveReader_false {fibers : Nat → Fiber} {rp : List Pending}
    (h : hasLiveReader fibers rp = false) (p : Pending) (hp : p ∈ rp) : p.sched ≠ (fibers p.fiber).sched := by
  unfold hasLiveReader at h
  rw [List.any_eq_false] at h
  have := h p hp
  intro e; exact this ((live_iff fibers p).mpr e)

/-- push_with_lock by the running fiber `f` (not registered on `c`, no live task, no timer) -/
theorem chanPush_W {cfg : Cfg} (hs : cfg.pushBlocksStrict = true) {w : World} {f c x mode : Nat} {w' : World} {b : Bool}
    (h : chanPush cfg w f c x mode = .ok w' b) (hm : WM w) (hcur : w.current = some f)
    (hlt : LT w.fibers w.runq f = 0) (hnt : ¬ liveTimer w.fibers w.timers f)
    (hnc : ¬ liveIn w.fibers w.ent f c) (hmode : mode ≠ 2) :
    WM w' ∧ w'.current = some f ∧ LT w'.fibers w'.runq f = 0 ∧ ¬ liveTimer w'.fibers w'.timers f ∧
    (∀ c', c' ≠ c → (liveIn w'.fibers w'.ent f c' ↔ liveIn w.fibers w.ent f c')) ∧
    (liveIn w'.fibers w'.ent f c ↔ b = true) ∧ w'.fibers f = w.fibers f := by
  obtain ⟨htm, hcur'⟩ := chanPush_misc cfg w f c x mode w' b h
  obtain ⟨_, _, hoth, hcase⟩ := chanPush_cases cfg hs w f c x mode w' b h
  have hento : ∀ c', c' ≠ c → w'.ent c' = w.ent c' := by
    intro c' hc'; unfold World.ent; rw [hoth c' hc']
  rcases hcase with ⟨hno, hfib, hrq, _, _, hrp, _, _, _, hwp⟩ | ⟨r, rest, hq, hb, _, hw'⟩
  · -- no live reader
    have hentc : ∀ q, q ∈ w'.ent c ↔ q ∈ (w.chans c).writePending ∨
        (b = true ∧ q = Pending.mk f (w.fibers f).sched (if mode = 0 then .write else .choiceWrite)) := by
      intro q
      rw [mem_ent, hrp, hwp]
      by_cases hb : b = true
      · simp [hb, hmode]
      · simp [hb]
    let en1 : Ent := fun c' => if c' = c then (w.chans c).writePending else w.ent c'
    have hm1 : M w.fibers w.runq w.timers en1 w.current := by
      apply M_shrink hm
      · intro c' p hp
        by_cases e : c' = c
        · subst e; simp [en1] at hp; exact (mem_ent w c' p).mpr (Or.inr hp)
        · simp [en1, e] at hp; exact hp
      · intro c' p hp hnp
        by_cases e : c' = c
        · subst e
          simp [en1] at hnp
          rcases (mem_ent w c' p).mp hp with hp | hp
          · exact not_live_of_hasLiveReader_false hno p hp
          · exact absurd hp hnp
        · simp [en1, e] at hnp; exact absurd hp hnp
    have hM : M w.fibers w.runq w.timers w'.ent w.current := by
      by_cases hb : b = true
      · apply M_register f c (Pending.mk f (w.fibers f).sched (if mode = 0 then .write else .choiceWrite)) hm1 hcur rfl rfl hlt
        intro c' q
        by_cases e : c' = c
        · subst e; rw [hentc]; simp [en1, hb]
        · rw [hento c' e]; simp [en1, e]
      · apply M_ent_congr hm1
        intro c' q
        by_cases e : c' = c
        · subst e; rw [hentc]; simp [en1, hb]
        · rw [hento c' e]; simp [en1, e]
    refine ⟨?_, by rw [hcur', hcur], by rw [hfib, hrq]; exact hlt, by rw [hfib, htm]; exact hnt, ?_, ?_, by rw [hfib]⟩
    · unfold WM; rw [hfib, hrq, htm, hcur']; exact hM
    · intro c' hc'; rw [hfib]; unfold liveIn; rw [hento c' hc']
    · rw [hfib]
      constructor
      · rintro ⟨q, hq, h1, h2⟩
        rcases (hentc q).mp hq with hq | ⟨hb, _⟩
        · exact absurd ⟨q, (mem_ent w c q).mpr (Or.inr hq), h1, h2⟩ hnc
        · exact hb
      · intro hb
        exact ⟨_, (hentc _).mpr (Or.inr ⟨hb, rfl⟩), rfl, rfl⟩
  · -- hand-over to the live reader r
    have hspec := popLiveReader_spec w.fibers _ _ _ hq
    obtain ⟨hrin, hrlive, _⟩ := hspec.2.2 r rfl
    have hrs : r.sched = (w.fibers r.fiber).sched := (live_iff w.fibers r).mp hrlive
    have hrent : r ∈ w.ent c := (mem_ent w c r).mpr (Or.inl hrin)
    have hgf : r.fiber ≠ f := fun e => hnc ⟨r, hrent, e, by rw [← e]; exact hrs⟩
    have hcan : (w.fibers r.fiber).canceled = false :=
      not_canceled_of_liveEntry hm r.fiber (Or.inl ⟨c, r, hrent, rfl, hrs⟩)
    let w1 := addHanded (setChan (addPushed w c x) c { (w.chans c) with readPending := rest }) c x
    have hw1 : w' = scheduleGeneral w1 r.fiber (if r.mode = .choiceRead then .take c x else .num x) .ok false := hw'
    have hent' : w'.ent = w1.ent := by rw [hw1]; unfold World.ent; rw [scheduleGeneral_chans]
    have hw1c : ∀ p, p ∈ w1.ent c ↔ p ∈ rest ∨ p ∈ (w.chans c).writePending := by
      intro p; rw [mem_ent]; simp [w1, addHanded, setChan]
    have hw1o : ∀ c', c' ≠ c → w1.ent c' = w.ent c' := by
      intro c' hc'; unfold World.ent; simp [w1, addHanded, setChan, addPushed, hc']
    have hM : M (scheduleGeneral w1 r.fiber (if r.mode = .choiceRead then .take c x else .num x) .ok false).fibers
        (scheduleGeneral w1 r.fiber (if r.mode = .choiceRead then .take c x else .num x) .ok false).runq w.timers w1.ent
        (scheduleGeneral w1 r.fiber (if r.mode = .choiceRead then .take c x else .num x) .ok false).current := by
      apply M_shrink_schedule (w := w1) (en := w.ent) r.fiber _ .ok hm
      · intro c' p hp
        by_cases e : c' = c
        · subst e
          rcases (hw1c p).mp hp with hp | hp
          · exact (mem_ent w c' p).mpr (Or.inl (hspec.1 p hp))
          · exact (mem_ent w c' p).mpr (Or.inr hp)
        · rw [hw1o c' e] at hp; exact hp
      · intro c' p hp hnp
        by_cases e : c' = c
        · subst e
          rcases (mem_ent w c' p).mp hp with hp | hp
          · have hnr : p ∉ rest := fun hin => hnp ((hw1c p).mpr (Or.inl hin))
            rcases popLiveReader_removed w.fibers _ _ _ hq p hp hnr with hl | hl
            · left; intro e; rw [(live_iff w.fibers p).mpr e] at hl; cases hl
            · right; injection hl with hl; rw [hl]
          · exact absurd ((hw1c p).mpr (Or.inr hp)) hnp
        · rw [hw1o c' e] at hnp; exact absurd hp hnp
      · exact hcan
    obtain ⟨hLTf, hff⟩ := schedule_other w1 r.fiber (if r.mode = .choiceRead then .take c x else .num x) .ok f hgf
    refine ⟨?_, by rw [hcur', hcur], ?_, ?_, ?_, ?_, ?_⟩
    · unfold WM; rw [htm, hent', hw1]; exact hM
    · rw [hw1, hLTf]; exact hlt
    · rw [htm, hw1]; rw [liveTimer_congr w.timers f (by rw [hff])]; exact hnt
    · intro c' hc'
      rw [hw1, liveIn_congr _ f c' (by rw [hff]), ← hw1, hent']
      unfold liveIn; rw [hw1o c' hc']; exact Iff.rfl
    · rw [hb]
      constructor
      · rw [hw1, liveIn_congr _ f c (by rw [hff]), ← hw1, hent']
        rintro ⟨q, hq', h1, h2⟩
        exfalso; apply hnc
        rcases (hw1c q).mp hq' with hq' | hq'
        · exact ⟨q, (mem_ent w c q).mpr (Or.inl (hspec.1 q hq')), h1, h2⟩
        · exact ⟨q, (mem_ent w c q).mpr (Or.inr hq'), h1, h2⟩
      · intro e; cases e
    · rw [hw1]; exact hff

/-- pop_with_lock by the running fiber `f` (not registered on `c`, no live task, no timer) -/
theorem chanPop_W {cfg : Cfg} (hk : cfg.popSkipsStaleWriter = true) {w : World} {f c mode : Nat}
    (hm : WM w) (hcur : w.current = some f) (hlt : LT w.fibers w.runq f = 0)
    (hnt : ¬ liveTimer w.fibers w.timers f) (hnc : ¬ liveIn w.fibers w.ent f c) (hmode : mode ≠ 2) :
    (∀ w' r, chanPop cfg w f c mode = .got w' r →
      WM w' ∧ w'.current = some f ∧ LT w'.fibers w'.runq f = 0 ∧ ¬ liveTimer w'.fibers w'.timers f ∧
      (∀ c', liveIn w'.fibers w'.ent f c' ↔ liveIn w.fibers w.ent f c') ∧ w'.fibers f = w.fibers f) ∧
    (∀ w', chanPop cfg w f c mode = .blocked w' →
      WM w' ∧ w'.current = some f ∧ LT w'.fibers w'.runq f = 0 ∧ ¬ liveTimer w'.fibers w'.timers f ∧
      (∀ c', c' ≠ c → (liveIn w'.fibers w'.ent f c' ↔ liveIn w.fibers w.ent f c')) ∧
      liveIn w'.fibers w'.ent f c ∧ w'.fibers f = w.fibers f ∧ w'.fibers = w.fibers ∧
      (∀ c', c' ≠ c → w'.chans c' = w.chans c')) := by
  rcases chanPop_cases cfg hk w f c mode hmode with ⟨_, he⟩ | ⟨_, _, he⟩ | ⟨x, rest, o, wp', _, _, hq, he⟩
  · rw [he]
    refine ⟨?_, fun w' h => by cases h⟩
    intro w' r h
    injection h with h1 _
    subst h1
    exact ⟨hm, hcur, hlt, hnt, fun _ => Iff.rfl, rfl⟩
  · rw [he]
    refine ⟨fun w' r h => (by cases h), ?_⟩
    intro w' h
    injection h with h1
    subst h1
    have hentc : ∀ q, q ∈ (setChan w c { (w.chans c) with readPending := (w.chans c).readPending ++
        [Pending.mk f (w.fibers f).sched (if mode = 0 then .read else .choiceRead)] }).ent c ↔
        q ∈ w.ent c ∨ q = Pending.mk f (w.fibers f).sched (if mode = 0 then .read else .choiceRead) := by
      intro q; rw [mem_ent, mem_ent]
      simp only [setChan, ↓reduceIte, List.mem_append, List.mem_singleton]
      constructor
      · rintro ((h | h) | h)
        · exact Or.inl (Or.inl h)
        · exact Or.inr h
        · exact Or.inl (Or.inr h)
      · rintro ((h | h) | h)
        · exact Or.inl (Or.inl h)
        · exact Or.inr h
        · exact Or.inl (Or.inr h)
    have hento : ∀ c', c' ≠ c → (setChan w c { (w.chans c) with readPending := (w.chans c).readPending ++
        [Pending.mk f (w.fibers f).sched (if mode = 0 then .read else .choiceRead)] }).ent c' = w.ent c' := by
      intro c' hc'; unfold World.ent; simp [setChan, hc']
    refine ⟨?_, hcur, hlt, hnt, ?_, ?_, rfl, rfl, fun c' hc' => by simp [setChan, hc']⟩
    · apply M_register f c (Pending.mk f (w.fibers f).sched (if mode = 0 then .read else .choiceRead)) hm hcur rfl rfl hlt
      intro c' q
      by_cases e : c' = c
      · subst e; rw [hentc]; simp
      · rw [hento c' e]; simp [e]
    · intro c' hc'; unfold liveIn; rw [hento c' hc']; exact Iff.rfl
    · exact ⟨_, (hentc _).mpr (Or.inr rfl), rfl, rfl⟩
  · rw [he]
    refine ⟨?_, fun w' h => by cases h⟩
    intro w' r h
    injection h with h1 _
    have hspec := popWriter_spec w.fibers _ _ _ hq
    have hrem := popWriter_removed w.fibers _ _ _ hq
    let w1 := setChan (addHanded w c x) c { (w.chans c) with items := rest, writePending := wp' }
    have hw1c : ∀ p, p ∈ w1.ent c ↔ p ∈ (w.chans c).readPending ∨ p ∈ wp' := by
      intro p; rw [mem_ent]; simp [w1, addHanded, setChan]
    have hw1o : ∀ c', c' ≠ c → w1.ent c' = w.ent c' := by
      intro c' hc'; unfold World.ent; simp [w1, addHanded, setChan, hc']
    have hsub : ∀ c' p, p ∈ w1.ent c' → p ∈ w.ent c' := by
      intro c' p hp
      by_cases e : c' = c
      · subst e
        rcases (hw1c p).mp hp with hp | hp
        · exact (mem_ent w c' p).mpr (Or.inl hp)
        · exact (mem_ent w c' p).mpr (Or.inr (hspec.1 p hp))
      · rw [hw1o c' e] at hp; exact hp
    have hliveIn1 : ∀ c', liveIn w.fibers w1.ent f c' ↔ liveIn w.fibers w.ent f c' := by
      intro c'
      by_cases e : c' = c
      · subst e
        constructor
        · rintro ⟨q, hq', h1, h2⟩; exact ⟨q, hsub c' q hq', h1, h2⟩
        · intro hh; exact absurd hh hnc
      · unfold liveIn; rw [hw1o c' e]
    cases o with
    | none =>
      simp only [] at h1
      subst h1
      refine ⟨?_, hcur, hlt, hnt, hliveIn1, rfl⟩
      apply M_shrink hm hsub
      intro c' p hp hnp
      by_cases e : c' = c
      · subst e
        rcases (mem_ent w c' p).mp hp with hp | hp
        · exact absurd ((hw1c p).mpr (Or.inl hp)) hnp
        · have hnr : p ∉ wp' := fun hin => hnp ((hw1c p).mpr (Or.inr hin))
          rcases hrem p hp hnr with hl | hl
          · intro e; rw [(live_iff w.fibers p).mpr e] at hl; cases hl
          · cases hl
      · rw [hw1o c' e] at hnp; exact absurd hp hnp
    | some p =>
      simp only [] at h1
      obtain ⟨hpin, hplive, _⟩ := hspec.2.2 p rfl
      have hps : p.sched = (w.fibers p.fiber).sched := (live_iff w.fibers p).mp hplive
      have hpent : p ∈ w.ent c := (mem_ent w c p).mpr (Or.inr hpin)
      have hgf : p.fiber ≠ f := fun e => hnc ⟨p, hpent, e, by rw [← e]; exact hps⟩
      have hcan : (w.fibers p.fiber).canceled = false :=
        not_canceled_of_liveEntry hm p.fiber (Or.inl ⟨c, p, hpent, rfl, hps⟩)
      have hw' : w' = scheduleGeneral w1 p.fiber (if p.mode = .choiceWrite then .give c else .chan c) .ok false := h1.symm
      have hent' : w'.ent = w1.ent := by rw [hw']; unfold World.ent; rw [scheduleGeneral_chans]
      obtain ⟨htm, _, hcur', _⟩ := scheduleGeneral_props w1 p.fiber (if p.mode = .choiceWrite then .give c else .chan c) .ok
      have hM : M (scheduleGeneral w1 p.fiber (if p.mode = .choiceWrite then .give c else .chan c) .ok false).fibers
          (scheduleGeneral w1 p.fiber (if p.mode = .choiceWrite then .give c else .chan c) .ok false).runq w.timers w1.ent
          (scheduleGeneral w1 p.fiber (if p.mode = .choiceWrite then .give c else .chan c) .ok false).current := by
        apply M_shrink_schedule (w := w1) (en := w.ent) p.fiber _ .ok hm hsub
        · intro c' q hq' hnq
          by_cases e : c' = c
          · subst e
            rcases (mem_ent w c' q).mp hq' with hq' | hq'
            · exact absurd ((hw1c q).mpr (Or.inl hq')) hnq
            · have hnr : q ∉ wp' := fun hin => hnq ((hw1c q).mpr (Or.inr hin))
              rcases hrem q hq' hnr with hl | hl
              · left; intro e; rw [(live_iff w.fibers q).mpr e] at hl; cases hl
              · right; injection hl with hl; rw [hl]
          · rw [hw1o c' e] at hnq; exact absurd hq' hnq
        · exact hcan
      obtain ⟨hLTf, hff⟩ := schedule_other w1 p.fiber (if p.mode = .choiceWrite then .give c else .chan c) .ok f hgf
      refine ⟨?_, ?_, ?_, ?_, ?_, ?_⟩
      · unfold WM; rw [hent', hw', htm]; exact hM
      · rw [hw', hcur']; exact hcur
      · rw [hw', hLTf]; exact hlt
      · rw [hw', htm, liveTimer_congr _ f (by rw [hff])]; exact hnt
      · intro c'
        rw [hent', hw', liveIn_congr _ f c' (by rw [hff])]
        exact hliveIn1 c'
      · rw [hw']; exact hff

/-- the supervisor push of the run phase (mode 2, no running fiber): only drops stale readers, or hands the event to a
    live reader and schedules it -/
theorem supPush_W {cfg : Cfg} (hs : cfg.pushBlocksStrict = true) {w : World} {c x : Nat} (hi : WInv w)
    (hcur : w.current = none) : WInv (supPush cfg w c x).1 := by
  obtain ⟨hm, hqq⟩ := hi
  unfold supPush
  cases hp : chanPush cfg w 0 c x 2 with
  | closedErr => exact ⟨hm, hqq⟩
  | ok w' b =>
    simp only []
    obtain ⟨htm, hcur'⟩ := chanPush_misc cfg w 0 c x 2 w' b hp
    obtain ⟨_, _, hoth, hcase⟩ := chanPush_cases cfg hs w 0 c x 2 w' b hp
    refine ⟨?_, fun g hg => by rw [hcur', hcur] at hg; cases hg⟩
    have hento : ∀ c', c' ≠ c → w'.ent c' = w.ent c' := by
      intro c' hc'; unfold World.ent; rw [hoth c' hc']
    rcases hcase with ⟨hno, hfib, hrq, _, _, hrp, _, _, _, hwp⟩ | ⟨r, rest, hq, _, _, hw'⟩
    · have hentc : ∀ q, q ∈ w'.ent c ↔ q ∈ (w.chans c).writePending := by
        intro q; rw [mem_ent, hrp, hwp]; simp
      unfold WM; rw [hfib, hrq, htm, hcur']
      apply M_shrink hm
      · intro c' p hp'
        by_cases e : c' = c
        · subst e; exact (mem_ent w c' p).mpr (Or.inr ((hentc p).mp hp'))
        · rw [hento c' e] at hp'; exact hp'
      · intro c' p hp' hnp
        by_cases e : c' = c
        · subst e
          rcases (mem_ent w c' p).mp hp' with h | h
          · exact not_live_of_hasLiveReader_false hno p h
          · exact absurd ((hentc p).mpr h) hnp
        · rw [hento c' e] at hnp; exact absurd hp' hnp
    · have hspec := popLiveReader_spec w.fibers _ _ _ hq
      obtain ⟨hrin, hrlive, _⟩ := hspec.2.2 r rfl
      have hrs : r.sched = (w.fibers r.fiber).sched := (live_iff w.fibers r).mp hrlive
      have hrent : r ∈ w.ent c := (mem_ent w c r).mpr (Or.inl hrin)
      have hcan : (w.fibers r.fiber).canceled = false :=
        not_canceled_of_liveEntry hm r.fiber (Or.inl ⟨c, r, hrent, rfl, hrs⟩)
      let w1 := addHanded (setChan (addPushed w c x) c { (w.chans c) with readPending := rest }) c x
      have hw1 : w' = scheduleGeneral w1 r.fiber (if r.mode = .choiceRead then .take c x else .num x) .ok false := hw'
      have hent' : w'.ent = w1.ent := by rw [hw1]; unfold World.ent; rw [scheduleGeneral_chans]
      have hw1c : ∀ p, p ∈ w1.ent c ↔ p ∈ rest ∨ p ∈ (w.chans c).writePending := by
        intro p; rw [mem_ent]; simp [w1, addHanded, setChan]
      have hw1o : ∀ c', c' ≠ c → w1.ent c' = w.ent c' := by
        intro c' hc'; unfold World.ent; simp [w1, addHanded, setChan, addPushed, hc']
      have hM : M (scheduleGeneral w1 r.fiber (if r.mode = .choiceRead then .take c x else .num x) .ok false).fibers
          (scheduleGeneral w1 r.fiber (if r.mode = .choiceRead then .take c x else .num x) .ok false).runq w.timers w1.ent
          (scheduleGeneral w1 r.fiber (if r.mode = .choiceRead then .take c x else .num x) .ok false).current := by
        apply M_shrink_schedule (w := w1) (en := w.ent) r.fiber _ .ok hm
        · intro c' p hp'
          by_cases e : c' = c
          · subst e
            rcases (hw1c p).mp hp' with h | h
            · exact (mem_ent w c' p).mpr (Or.inl (hspec.1 p h))
            · exact (mem_ent w c' p).mpr (Or.inr h)
          · rw [hw1o c' e] at hp'; exact hp'
        · intro c' p hp' hnp
          by_cases e : c' = c
          · subst e
            rcases (mem_ent w c' p).mp hp' with h | h
            · have hnr : p ∉ rest := fun hin => hnp ((hw1c p).mpr (Or.inl hin))
              rcases popLiveReader_removed w.fibers _ _ _ hq p h hnr with hl | hl
              · left; intro e; rw [(live_iff w.fibers p).mpr e] at hl; cases hl
              · right; injection hl with hl; rw [hl]
            · exact absurd ((hw1c p).mpr (Or.inr h)) hnp
          · rw [hw1o c' e] at hnp; exact absurd hp' hnp
        · exact hcan
      unfold WM; rw [htm, hent', hw1]; exact hM

/-! ### select -/

theorem liveEntry_of_liveIn {fb : Fibers} {en : Ent} {f c : Nat} (h : liveIn fb en f c) : liveEntry fb en f := ⟨c, h⟩

theorem choiceImmediate_W {cfg : Cfg} (hg : CfgGood cfg) (f : Nat) (cls : List Clause) :
    ∀ (w w' : World) (v : Val), choiceImmediate cfg w f cls = some (w', v) →
      WM w → w.current = some f → WQuiet w f → WM w' ∧ w'.current = some f ∧ WQuiet w' f := by
  induction cls with
  | nil => intro w w' v h; simp [choiceImmediate] at h
  | cons cl rest ih =>
    intro w w' v h hm hcur hq
    have hnc : ∀ c, ¬ liveIn w.fibers w.ent f c := fun c hh => hq.2.2 ⟨c, hh⟩
    cases cl with
    | give c x =>
      unfold choiceImmediate at h
      by_cases hcl : (w.chans c).closed = true
      · simp [hcl] at h; rw [← h.1]; exact ⟨hm, hcur, hq⟩
      · simp only [hcl] at h
        by_cases hr : (choiceReady cfg (w.chans c).items.length (w.chans c).limit
            || (cfg.choiceGiveSeesReader && hasLiveReader w.fibers (w.chans c).readPending)) = true
        · simp only [hr] at h
          cases hp : chanPush cfg w f c x 1 with
          | closedErr => rw [hp] at h; simp at h; rw [← h.1]; exact ⟨hm, hcur, hq⟩
          | ok w1 b =>
            rw [hp] at h; simp at h; rw [← h.1]
            have hb : b = false := by
              rw [give_blocks_iff cfg hg.strict w f c x 1 w1 b hp]
              simp only [choiceReady, hg.ready, hg.sees, ↓reduceIte, Bool.true_and, Bool.or_eq_true,
                decide_eq_true_eq] at hr
              rcases hr with hr | hr
              · right; exact hr
              · left; exact hr
            obtain ⟨h1, h2, h3, h4, h5, h6, _⟩ := chanPush_W hg.strict hp hm hcur hq.1 hq.2.1 (hnc c) (by decide)
            refine ⟨h1, h2, h3, h4, ?_⟩
            rintro ⟨c', hl⟩
            by_cases e : c' = c
            · subst e; have := h6.mp hl; rw [hb] at this; cases this
            · exact hnc c' ((h5 c' e).mp hl)
        · simp only [hr] at h
          exact ih w w' v (by simpa using h) hm hcur hq
    | take c =>
      unfold choiceImmediate at h
      by_cases hcl : (w.chans c).closed = true
      · simp [hcl] at h; rw [← h.1]; exact ⟨hm, hcur, hq⟩
      · simp only [hcl] at h
        by_cases hi : (w.chans c).items = []
        · simp [hi] at h; exact ih w w' v h hm hcur hq
        · simp [hi] at h
          have hpw := chanPop_W hg.skips (mode := 1) hm hcur hq.1 hq.2.1 (hnc c) (by decide)
          cases hp : chanPop cfg w f c 1 with
          | blocked w1 =>
            have := (take_blocks_iff cfg w f c 1 (by simpa using hcl)).mp ⟨w1, hp⟩
            exact absurd this hi
          | got w1 r =>
            rw [hp] at h
            obtain ⟨h1, h2, h3, h4, h5, _⟩ := hpw.1 w1 r hp
            have hq1 : WQuiet w1 f := ⟨h3, h4, fun ⟨c', hl⟩ => hnc c' ((h5 c').mp hl)⟩
            cases r with
            | none => simp at h; rw [← h.1]; exact ⟨h1, h2, hq1⟩
            | some x => simp at h; rw [← h.1]; exact ⟨h1, h2, hq1⟩

/-- what the first loop of select has established when it falls through -/
def Cond (cfg : Cfg) (w : World) : Clause → Prop
  | .give c _ => (w.chans c).closed = false ∧ ¬ (w.chans c).items.length < (w.chans c).limit ∧
                 hasLiveReader w.fibers (w.chans c).readPending = false
  | .take c => (w.chans c).closed = false ∧ (w.chans c).items = []

theorem Cond_congr {cfg : Cfg} {w w' : World} (cl : Clause) (hf : w'.fibers = w.fibers)
    (hc : w'.chans cl.chan = w.chans cl.chan) (h : Cond cfg w cl) : Cond cfg w' cl := by
  cases cl with
  | give c x => simp only [Cond, Clause.chan] at h hc ⊢; rw [hf, hc]; exact h
  | take c => simp only [Cond, Clause.chan] at h hc ⊢; rw [hc]; exact h

theorem choiceImmediate_none {cfg : Cfg} (hg : CfgGood cfg) (w : World) (f : Nat) (cls : List Clause)
    (h : choiceImmediate cfg w f cls = none) : ∀ cl ∈ cls, Cond cfg w cl := by
  induction cls with
  | nil => intro cl hcl; simp at hcl
  | cons cl rest ih =>
    cases cl with
    | give c x =>
      unfold choiceImmediate at h
      by_cases hcl : (w.chans c).closed = true
      · simp [hcl] at h
      · simp only [hcl] at h
        by_cases hr : (choiceReady cfg (w.chans c).items.length (w.chans c).limit
            || (cfg.choiceGiveSeesReader && hasLiveReader w.fibers (w.chans c).readPending)) = true
        · simp only [hr] at h
          cases hp : chanPush cfg w f c x 1 <;> (rw [hp] at h; simp at h)
        · simp only [hr] at h
          intro cl' hcl'
          rcases List.mem_cons.mp hcl' with e | e
          · subst e
            simp only [choiceReady, hg.ready, hg.sees, ↓reduceIte, Bool.true_and, Bool.or_eq_true, decide_eq_true_eq,
              not_or] at hr
            exact ⟨by simpa using hcl, hr.1, by simpa using hr.2⟩
          · exact ih (by simpa using h) cl' e
    | take c =>
      unfold choiceImmediate at h
      by_cases hcl : (w.chans c).closed = true
      · simp [hcl] at h
      · simp only [hcl] at h
        by_cases hi : (w.chans c).items = []
        · simp [hi] at h
          intro cl' hcl'
          rcases List.mem_cons.mp hcl' with e | e
          · subst e; exact ⟨by simpa using hcl, hi⟩
          · exact ih h cl' e
        · simp [hi] at h
          cases hp : chanPop cfg w f c 1 with
          | blocked w1 => rw [hp] at h; simp at h
          | got w1 r => rw [hp] at h; cases r <;> simp at h

theorem chanPush_open {cfg : Cfg} (w : World) (f c x mode : Nat) (h : (w.chans c).closed = false) :
    ∃ w' b, chanPush cfg w f c x mode = .ok w' b := by
  unfold chanPush
  simp only [h, Bool.false_eq_true, ↓reduceIte]
  rcases popLiveReader (addPushed w c x).fibers (w.chans c).readPending with ⟨r, rp⟩
  cases r with
  | none =>
    simp only []
    split
    · split <;> exact ⟨_, _, rfl⟩
    · exact ⟨_, _, rfl⟩
  | some r => exact ⟨_, _, rfl⟩

/-- the registration loop of select, when the first loop fell through and no channel is named twice: it only registers -/
theorem choiceRegister_W {cfg : Cfg} (hg : CfgGood cfg) (f : Nat) (cls : List Clause) :
    ∀ (w : World), WM w → w.current = some f → LT w.fibers w.runq f = 0 → ¬ liveTimer w.fibers w.timers f →
      (∀ cl ∈ cls, Cond cfg w cl ∧ ¬ liveIn w.fibers w.ent f cl.chan) → (cls.map Clause.chan).Nodup →
      WM (choiceRegister cfg w f cls) ∧ (choiceRegister cfg w f cls).current = some f ∧
      LT (choiceRegister cfg w f cls).fibers (choiceRegister cfg w f cls).runq f = 0 ∧
      ¬ liveTimer (choiceRegister cfg w f cls).fibers (choiceRegister cfg w f cls).timers f ∧
      (∀ cl ∈ cls, liveIn (choiceRegister cfg w f cls).fibers (choiceRegister cfg w f cls).ent f cl.chan) ∧
      (∀ c, liveIn w.fibers w.ent f c → liveIn (choiceRegister cfg w f cls).fibers (choiceRegister cfg w f cls).ent f c) ∧
      (∀ c, c ∉ cls.map Clause.chan →
        liveIn (choiceRegister cfg w f cls).fibers (choiceRegister cfg w f cls).ent f c → liveIn w.fibers w.ent f c) := by
  induction cls with
  | nil => intro w hm hcur hlt hnt _ _; exact ⟨hm, hcur, hlt, hnt, fun cl h => by simp at h, fun c h => h, fun c _ h => h⟩
  | cons cl rest ih =>
    intro w hm hcur hlt hnt hcond hnd
    have hnd2 := List.nodup_cons.mp (show (cl.chan :: rest.map Clause.chan).Nodup from hnd)
    have hnd' : (rest.map Clause.chan).Nodup := hnd2.2
    have hnotin : ∀ cl' ∈ rest, cl'.chan ≠ cl.chan := by
      intro cl' hcl' e
      exact hnd2.1 (by rw [← e]; exact List.mem_map_of_mem (f := Clause.chan) hcl')
    obtain ⟨hc0, hn0⟩ := hcond cl (by simp)
    -- one step: a world w1 with the clause registered
    have step : ∃ w1, choiceRegister cfg w f (cl :: rest) = choiceRegister cfg w1 f rest ∧
        WM w1 ∧ w1.current = some f ∧ LT w1.fibers w1.runq f = 0 ∧ ¬ liveTimer w1.fibers w1.timers f ∧
        (∀ c', c' ≠ cl.chan → (liveIn w1.fibers w1.ent f c' ↔ liveIn w.fibers w.ent f c')) ∧
        liveIn w1.fibers w1.ent f cl.chan ∧ w1.fibers = w.fibers ∧ (∀ c', c' ≠ cl.chan → w1.chans c' = w.chans c') := by
      cases cl with
      | give c x =>
        simp only [Cond, Clause.chan] at hc0 hn0 ⊢
        obtain ⟨w1, b, hp⟩ := chanPush_open (cfg := cfg) w f c x 1 hc0.1
        refine ⟨w1, by simp [choiceRegister, hp], ?_⟩
        obtain ⟨h1, h2, h3, h4, h5, h6, _⟩ := chanPush_W hg.strict hp hm hcur hlt hnt hn0 (by decide)
        obtain ⟨_, _, hoth, hcase⟩ := chanPush_cases cfg hg.strict w f c x 1 w1 b hp
        rcases hcase with ⟨_, hfib, _, _, hb, _⟩ | ⟨r, rest', hq, _⟩
        · have hbt : b = true := by rw [hb]; simp; omega
          exact ⟨h1, h2, h3, h4, h5, h6.mpr hbt, hfib, hoth⟩
        · have := (popLiveReader_spec w.fibers _ _ _ hq).2.2 r rfl
          rw [hc0.2.2] at this; cases this.2.2
      | take c =>
        simp only [Cond, Clause.chan] at hc0 hn0 ⊢
        have hpw := chanPop_W hg.skips (mode := 1) hm hcur hlt hnt hn0 (by decide)
        cases hp : chanPop cfg w f c 1 with
        | got w1 r =>
          obtain ⟨w2, hb⟩ := (take_blocks_iff cfg w f c 1 hc0.1).mpr hc0.2
          rw [hp] at hb; cases hb
        | blocked w1 =>
          refine ⟨w1, by simp [choiceRegister, hp], ?_⟩
          obtain ⟨h1, h2, h3, h4, h5, h6, _, h8, h9⟩ := hpw.2 w1 hp
          exact ⟨h1, h2, h3, h4, h5, h6, h8, h9⟩
    obtain ⟨w1, heq, h1, h2, h3, h4, h5, h6, h7, h8⟩ := step
    rw [heq]
    have hcond1 : ∀ cl' ∈ rest, Cond cfg w1 cl' ∧ ¬ liveIn w1.fibers w1.ent f cl'.chan := by
      intro cl' hcl'
      obtain ⟨a, b⟩ := hcond cl' (List.mem_cons_of_mem _ hcl')
      have hne := hnotin cl' hcl'
      exact ⟨Cond_congr cl' h7 (h8 _ hne) a, fun hl => b ((h5 _ hne).mp hl)⟩
    obtain ⟨i1, i2, i3, i4, i5, i6, i7⟩ := ih w1 h1 h2 h3 h4 hcond1 hnd'
    refine ⟨i1, i2, i3, i4, ?_, ?_, ?_⟩
    · intro cl' hcl'
      rcases List.mem_cons.mp hcl' with e | e
      · subst e; exact i6 _ h6
      · exact i5 cl' e
    · intro c hl
      by_cases e : c = cl.chan
      · subst e; exact absurd hl hn0
      · exact i6 c ((h5 c e).mpr hl)
    · intro c hc hl
      have hc1 : c ≠ cl.chan := fun e => hc (by rw [e]; simp)
      have hc2 : c ∉ rest.map Clause.chan := fun e => hc (by simp only [List.map_cons, List.mem_cons]; exact Or.inr e)
      exact (h5 c hc1).mp (i7 c hc2 hl)

/-! ### await, finish, the loop -/

theorem awaitFiber_W {w : World} {f : Nat} (hm : WM w) (hcur : w.current = some f)
    (hsrc : LT w.fibers w.runq f = 1 ∨ liveTimer w.fibers w.timers f ∨ liveEntry w.fibers w.ent f) :
    WInv (awaitFiber w f) := by
  unfold WM at hm; rw [hcur] at hm
  refine ⟨?_, fun g hg => by simp [awaitFiber] at hg⟩
  show M (awaitFiber w f).fibers w.runq w.timers w.ent none
  apply M_await f hm
  · intro h; by_cases e : h = f <;> simp [awaitFiber, setFiber, e]
  · simp [awaitFiber, setFiber]
  · intro h; by_cases e : h = f <;> simp [awaitFiber, setFiber, e]
  · intro h e; simp [awaitFiber, setFiber, e]
  · exact hsrc

theorem finishFiber_W {w : World} {f : Nat} {err : Bool} (hm : WM w) (hcur : w.current = some f) (hq : WQuiet w f) :
    WInv (finishFiber w f err) := by
  unfold WM at hm; rw [hcur] at hm
  refine ⟨?_, fun g hg => by simp [finishFiber] at hg⟩
  show M (finishFiber w f err).fibers w.runq w.timers w.ent none
  apply M_finish f hm
  · intro h; by_cases e : h = f <;> simp [finishFiber, setFiber, e]
  · cases err <;> simp [finishFiber, setFiber]
  · intro h; by_cases e : h = f <;> simp [finishFiber, setFiber, e]
  · intro h e; simp [finishFiber, setFiber, e]
  · exact ⟨hq.2.1, hq.2.2⟩

/-- the run-phase iteration, field by field -/
theorem loopRunTask_cases (cfg : Cfg) (w : World) :
    (w.runq = [] ∧ (loopRunTask cfg w).1 = w) ∨
    (∃ t rest, w.runq = t :: rest ∧ (loopRunTask cfg w).1.runq = rest ∧ (loopRunTask cfg w).1.timers = w.timers ∧
      (loopRunTask cfg w).1.chans = w.chans ∧
      (∀ i, i ≠ t.fiber → (loopRunTask cfg w).1.fibers i = w.fibers i) ∧
      ((loopRunTask cfg w).1.fibers t.fiber).sched =
        (if t.expected = (w.fibers t.fiber).sched ∧ cfg.resumeBumps = true then (w.fibers t.fiber).sched + 1
         else (w.fibers t.fiber).sched) ∧
      ((loopRunTask cfg w).1.fibers t.fiber).canceled = false ∧
      (((t.expected ≠ (w.fibers t.fiber).sched ∨ fiberCanResume (w.fibers t.fiber) = false) ∧
          (loopRunTask cfg w).1.current = w.current ∧
          ((loopRunTask cfg w).1.fibers t.fiber).status = (w.fibers t.fiber).status) ∨
       (t.expected = (w.fibers t.fiber).sched ∧ fiberCanResume (w.fibers t.fiber) = true ∧
          (loopRunTask cfg w).1.current = some t.fiber ∧ ((loopRunTask cfg w).1.fibers t.fiber).status = .alive))) := by
  unfold loopRunTask
  cases hq : w.runq with
  | nil => left; exact ⟨rfl, rfl⟩
  | cons t rest =>
    right
    refine ⟨t, rest, rfl, ?_⟩
    simp only []
    by_cases hstale : t.expected ≠ (w.fibers t.fiber).sched
    · have hne : ¬ t.expected = (w.fibers t.fiber).sched := hstale
      refine ⟨by simp [setFiber, hne], by simp [setFiber, hne], by simp [setFiber, hne], fun i hi => by simp [setFiber, hi, hne], by simp [setFiber, hne],
        by simp [setFiber, hne], Or.inl ⟨Or.inl hstale, by simp [setFiber, hne], by simp [setFiber, hne]⟩⟩
    · have hlive : t.expected = (w.fibers t.fiber).sched := by simpa using hstale
      by_cases hres : fiberCanResume (w.fibers t.fiber) = true
      · cases hsig : t.sig <;>
          exact ⟨by simp [setFiber, hlive, hres, hsig], by simp [setFiber, hlive, hres, hsig], by simp [setFiber, hlive, hres, hsig],
            fun i hi => by simp [setFiber, hi, hlive, hres, hsig], by simp [setFiber, hlive, hres, hsig],
            by simp [setFiber, hlive, hres, hsig],
            Or.inr ⟨hlive, hres, by simp [setFiber, hlive, hres, hsig], by simp [setFiber, hlive, hres, hsig]⟩⟩
      · have hres' : fiberCanResume (w.fibers t.fiber) = false := by simpa using hres
        exact ⟨by simp [setFiber, hlive, hres'], by simp [setFiber, hlive, hres'], by simp [setFiber, hlive, hres'],
          fun i hi => by simp [setFiber, hi, hlive, hres'], by simp [setFiber, hlive, hres'],
          by simp [setFiber, hlive, hres'],
          Or.inl ⟨Or.inr hres', by simp [setFiber, hlive, hres'], by simp [setFiber, hlive, hres']⟩⟩

theorem ent_of_chans {w w' : World} (h : w'.chans = w.chans) : w'.ent = w.ent := by unfold World.ent; rw [h]

theorem loopRunTask_W {cfg : Cfg} {w : World} (hi : WInv w) (hcur : w.current = none) : WInv (loopRunTask cfg w).1 := by
  obtain ⟨hm, hqq⟩ := hi
  rcases loopRunTask_cases cfg w with ⟨_, he⟩ | ⟨t, rest, hq, hr, ht, hc, hoth, hs, hcan, hcase⟩
  · rw [he]; exact ⟨hm, hqq⟩
  · unfold WM at hm; rw [hcur, hq] at hm
    -- the fibers after the iteration, with the sched_id of the task's fiber put back: the iteration without the bump
    let fb' := (loopRunTask cfg w).1.fibers
    let fb1 : Fibers := fun h => if h = t.fiber then { fb' h with sched := (w.fibers h).sched } else fb' h
    have hsall : ∀ h, (fb1 h).sched = (w.fibers h).sched := by
      intro h; by_cases e : h = t.fiber
      · simp [fb1, e]
      · simp only [fb1, e, ↓reduceIte]; show ((loopRunTask cfg w).1.fibers h).sched = _; rw [hoth h e]
    have hfb1o : ∀ h, h ≠ t.fiber → fb1 h = w.fibers h := by
      intro h e; simp only [fb1, e, ↓reduceIte]; exact hoth h e
    have hfb1st : (fb1 t.fiber).status = (fb' t.fiber).status := by simp [fb1]
    have hfb1can : (fb1 t.fiber).canceled = false := by simp only [fb1, ↓reduceIte]; exact hcan
    -- from fb1 to fb': identity, or the bump of t.fiber
    have hfin : ∀ {rq : List Task} {cur : Option Nat}, M fb1 rq w.timers w.ent cur →
        (t.expected = (w.fibers t.fiber).sched → (fb1 t.fiber).status ≠ .pending) →
        M fb' rq w.timers w.ent cur ∧
        ((LT fb1 rq t.fiber = 0 ∧ ¬ liveTimer fb1 w.timers t.fiber ∧ ¬ liveEntry fb1 w.ent t.fiber) →
          (LT fb' rq t.fiber = 0 ∧ ¬ liveTimer fb' w.timers t.fiber ∧ ¬ liveEntry fb' w.ent t.fiber)) := by
      intro rq cur hM hnp
      by_cases hb : t.expected = (w.fibers t.fiber).sched ∧ cfg.resumeBumps = true
      · have hsg : (fb' t.fiber).sched = (fb1 t.fiber).sched + 1 := by
          rw [hsall]; show ((loopRunTask cfg w).1.fibers t.fiber).sched = _; rw [hs, if_pos hb]
        obtain ⟨a, b⟩ := M_bump_quiet (fb' := fb') t.fiber hM hsg hfb1st.symm (by simp [fb1])
          (fun h e => by simp [fb1, e]) (hnp hb.1) hfb1can
        exact ⟨a, fun _ => b⟩
      · have heq : fb' = fb1 := by
          funext h
          by_cases e : h = t.fiber
          · subst e
            have : (fb' t.fiber).sched = (w.fibers t.fiber).sched := by
              show ((loopRunTask cfg w).1.fibers t.fiber).sched = _; rw [hs, if_neg hb]
            simp only [fb1, ↓reduceIte, ← this]
          · simp [fb1, e]
        rw [heq]; exact ⟨hM, fun h => h⟩
    rcases hcase with ⟨hwhy, hcur', hst⟩ | ⟨hlive, hres, hcur', hst⟩
    · refine ⟨?_, fun g hg => by rw [hcur', hcur] at hg; cases hg⟩
      unfold WM; rw [hr, ht, ent_of_chans hc, hcur', hcur]
      have hM1 : M fb1 rest w.timers w.ent none := by
        apply M_pop hm hsall
        · intro h; by_cases e : h = t.fiber
          · rw [e, hfb1st]; exact hst
          · rw [hfb1o h e]
        · intro h e; rw [hfb1o h e]
        · exact hfb1can
        · rcases hwhy with h1 | h1
          · exact Or.inl h1
          · right; intro hp; unfold fiberCanResume at h1; rw [hp] at h1; cases h1
      refine (hfin hM1 ?_).1
      intro hl
      rcases hwhy with h1 | h1
      · exact absurd hl h1
      · rw [hfb1st]; show ((loopRunTask cfg w).1.fibers t.fiber).status ≠ _
        rw [hst]; intro hp; unfold fiberCanResume at h1; rw [hp] at h1; cases h1
    · obtain ⟨hM, hQ⟩ := M_resume (fb' := fb1) hm hsall hlive (by rw [hfb1st]; exact hst)
        (fun h e => by rw [hfb1o h e]) (fun h e => by rw [hfb1o h e]) hfb1can
      obtain ⟨hM', hQ'⟩ := hfin hM (fun _ => by rw [hfb1st]; show ((loopRunTask cfg w).1.fibers t.fiber).status ≠ _; rw [hst]; intro c; cases c)
      refine ⟨?_, ?_⟩
      · unfold WM; rw [hr, ht, ent_of_chans hc, hcur']; exact hM'
      · intro g hg; rw [hcur'] at hg; injection hg with hg; subst hg
        unfold WQuiet; rw [hr, ht, ent_of_chans hc]; exact hQ' hQ

/-! ### folds of wake-ups (close, timer phase) -/

/-- an action that is the identity or one call of janet_schedule_general -/
def IsSched {α : Type} (act : World → α → World) : Prop :=
  ∀ u a, act u a = u ∨ ∃ g val sig, act u a = scheduleGeneral u g val sig false

theorem closeWake_isSched (cfg : Cfg) (c : Nat) (b : Bool) : IsSched (closeWake cfg c b) := by
  intro u p
  unfold closeWake
  split
  · right; exact ⟨_, _, _, rfl⟩
  · left; rfl

theorem fireTimer_isSched : IsSched fireTimer := by
  intro u t
  unfold fireTimer
  split
  · split
    · right; exact ⟨_, _, _, rfl⟩
    · left; rfl
  · split
    · split
      · right; exact ⟨_, _, _, rfl⟩
      · right; exact ⟨_, _, _, rfl⟩
    · left; rfl

theorem fold_M {α : Type} (act : World → α → World) (hact : IsSched act) (tm : List Timer) (en : Ent) :
    ∀ (l : List α) (u : World), M u.fibers u.runq tm en u.current →
      M (l.foldl act u).fibers (l.foldl act u).runq tm en (l.foldl act u).current := by
  intro l
  induction l with
  | nil => intro u h; exact h
  | cons a rest ih =>
    intro u h
    simp only [List.foldl_cons]
    apply ih
    rcases hact u a with e | ⟨g, val, sig, e⟩
    · rw [e]; exact h
    · rw [e]; exact M_schedule g val sig h

theorem fold_misc {α : Type} (act : World → α → World) (hact : IsSched act) :
    ∀ (l : List α) (u : World), (l.foldl act u).chans = u.chans ∧ (l.foldl act u).timers = u.timers ∧
      (l.foldl act u).current = u.current ∧
      ∀ h, (u.fibers h).sched ≤ ((l.foldl act u).fibers h).sched ∧
        (((l.foldl act u).fibers h).sched = (u.fibers h).sched → (l.foldl act u).fibers h = u.fibers h) := by
  intro l
  induction l with
  | nil => intro u; exact ⟨rfl, rfl, rfl, fun h => ⟨Nat.le_refl _, fun _ => rfl⟩⟩
  | cons a rest ih =>
    intro u
    simp only [List.foldl_cons]
    obtain ⟨i1, i2, i3, i4⟩ := ih (act u a)
    have hstep : (act u a).chans = u.chans ∧ (act u a).timers = u.timers ∧ (act u a).current = u.current ∧
        ∀ h, (u.fibers h).sched ≤ ((act u a).fibers h).sched ∧
          (((act u a).fibers h).sched = (u.fibers h).sched → (act u a).fibers h = u.fibers h) := by
      rcases hact u a with e | ⟨g, val, sig, e⟩
      · rw [e]; exact ⟨rfl, rfl, rfl, fun h => ⟨Nat.le_refl _, fun _ => rfl⟩⟩
      · rw [e]
        obtain ⟨p1, p2, p3, pc⟩ := scheduleGeneral_props u g val sig
        refine ⟨p2, p1, p3, ?_⟩
        intro h
        rcases pc with ⟨_, hf, _⟩ | ⟨_, hs, _, hoth, _⟩
        · rw [hf]; exact ⟨Nat.le_refl _, fun _ => rfl⟩
        · by_cases e' : h = g
          · subst e'; rw [hs]; exact ⟨Nat.le_succ _, fun c => absurd c (Nat.succ_ne_self _)⟩
          · rw [hoth h e']; exact ⟨Nat.le_refl _, fun _ => rfl⟩
    obtain ⟨s1, s2, s3, s4⟩ := hstep
    refine ⟨i1.trans s1, i2.trans s2, i3.trans s3, ?_⟩
    intro h
    obtain ⟨a1, a2⟩ := i4 h
    obtain ⟨b1, b2⟩ := s4 h
    refine ⟨Nat.le_trans b1 a1, ?_⟩
    intro e
    have e1 : ((act u a).fibers h).sched = (u.fibers h).sched := by omega
    have e2 : ((List.foldl act (act u a) rest).fibers h).sched = ((act u a).fibers h).sched := by omega
    rw [a2 e2, b2 e1]

/-- in the timer phase every due sleep timer that is still current gets its fiber scheduled -/
theorem fireTimer_fold_wakes : ∀ (l : List Timer) (u : World) (t : Timer), t ∈ l → t.curr = none →
    t.sched = (u.fibers t.fiber).sched → (u.fibers t.fiber).canceled = false →
    (u.fibers t.fiber).sched < ((l.foldl fireTimer u).fibers t.fiber).sched := by
  intro l
  induction l with
  | nil => intro u t ht; simp at ht
  | cons q rest ih =>
    intro u t ht hc hl hcan
    simp only [List.foldl_cons]
    obtain ⟨_, _, _, hmono⟩ := fold_misc fireTimer fireTimer_isSched rest (fireTimer u q)
    obtain ⟨_, _, _, hstep⟩ := fold_misc fireTimer fireTimer_isSched [q] u
    simp only [List.foldl_cons, List.foldl_nil] at hstep
    by_cases hlt : (u.fibers t.fiber).sched < ((fireTimer u q).fibers t.fiber).sched
    · exact Nat.lt_of_lt_of_le hlt (hmono t.fiber).1
    · have heq : ((fireTimer u q).fibers t.fiber).sched = (u.fibers t.fiber).sched := by
        have := (hstep t.fiber).1; omega
      have hfe := (hstep t.fiber).2 heq
      rcases List.mem_cons.mp ht with e | e
      · subst e
        exfalso; apply hlt
        unfold fireTimer
        simp only [hc, hl, ↓reduceIte]
        obtain ⟨_, _, _, pc⟩ := scheduleGeneral_props u t.fiber (if t.isError then Val.errTimeout else Val.nil)
          (if t.isError then Sig.error else Sig.ok)
        cases hie : t.isError
        · simp only [hie, Bool.false_eq_true, ↓reduceIte] at pc ⊢
          rcases pc with ⟨hcc, _⟩ | ⟨_, hs, _⟩
          · rw [hcan] at hcc; cases hcc
          · unfold schedule; rw [hs]; exact Nat.lt_succ_self _
        · simp only [hie, ↓reduceIte] at pc ⊢
          rcases pc with ⟨hcc, _⟩ | ⟨_, hs, _⟩
          · rw [hcan] at hcc; cases hcc
          · unfold cancelFiber; rw [hs]; exact Nat.lt_succ_self _
      · have := ih (fireTimer u q) t e hc (by rw [heq]; exact hl) (by rw [hfe]; exact hcan)
        omega

theorem mem_takeWhile_or_dropWhile {α : Type} (p : α → Bool) (l : List α) (a : α) (h : a ∈ l) :
    a ∈ l.dropWhile p ∨ (a ∈ l.takeWhile p ∧ p a = true) := by
  induction l with
  | nil => simp at h
  | cons x rest ih =>
    by_cases hx : p x = true
    · rcases List.mem_cons.mp h with e | e
      · right; subst e; simp [List.takeWhile_cons, hx]
      · rcases ih e with r | ⟨r1, r2⟩
        · left; simp [List.dropWhile_cons, hx]; exact r
        · right; simp [List.takeWhile_cons, hx]; exact ⟨Or.inr r1, r2⟩
    · left; simp [List.dropWhile_cons, hx]; exact List.mem_cons.mp h

theorem mem_of_mem_dropWhile' {α : Type} (p : α → Bool) (l : List α) (a : α) (h : a ∈ l.dropWhile p) : a ∈ l := by
  induction l with
  | nil => simp at h
  | cons x rest ih =>
    by_cases hx : p x = true
    · simp [List.dropWhile_cons, hx] at h; exact List.mem_cons_of_mem _ (ih h)
    · simp [List.dropWhile_cons, hx] at h; exact List.mem_cons.mpr h

theorem loopTimers_W {w : World} (hi : WInv w) (hcur : w.current = none) : WInv (loopTimers w) := by
  obtain ⟨hm, _⟩ := hi
  unfold WM at hm
  unfold loopTimers
  let now := w.clock + w.clockStep
  let p : Timer → Bool := fun t => decide (t.when ≤ now)
  let u0 : World := { w with clock := now, timers := w.timers.dropWhile p }
  let wf := (w.timers.takeWhile p).foldl fireTimer u0
  show WInv wf
  have hM : M wf.fibers wf.runq w.timers w.ent wf.current :=
    fold_M fireTimer fireTimer_isSched w.timers w.ent _ u0 hm
  obtain ⟨hch, htm, hc, hmono⟩ := fold_misc fireTimer fireTimer_isSched (w.timers.takeWhile p) u0
  have hent : wf.ent = w.ent := ent_of_chans hch
  refine ⟨?_, fun g hg => by rw [hc] at hg; rw [show u0.current = w.current from rfl, hcur] at hg; cases hg⟩
  unfold WM
  rw [hent, htm]
  apply M_timer_shrink hM (fun u hu => mem_of_mem_dropWhile' p _ u hu)
  intro t ht hnt
  rcases mem_takeWhile_or_dropWhile p w.timers t ht with h | ⟨h, _⟩
  · exact absurd h hnt
  · by_cases hcn : t.curr = none
    · right
      have hb := hm.a3 t ht
      have hle := (hmono t.fiber).1
      by_cases hl : t.sched = (w.fibers t.fiber).sched
      · have hcan : (w.fibers t.fiber).canceled = false :=
          not_canceled_of_liveEntry hm t.fiber (Or.inr ⟨t, ht, hcn, rfl, hl⟩)
        have this' : (w.fibers t.fiber).sched < (wf.fibers t.fiber).sched :=
          fireTimer_fold_wakes (w.timers.takeWhile p) u0 t h hcn hl hcan
        omega
      · have hle' : (w.fibers t.fiber).sched ≤ (wf.fibers t.fiber).sched := hle
        omega
    · left; exact hcn

theorem mem_dropWhile_stale {α : Type} (p : α → Bool) (l : List α) (a : α) (h : a ∈ l) (hn : a ∉ l.dropWhile p) :
    p a = true := by
  rcases mem_takeWhile_or_dropWhile p l a h with r | ⟨_, r⟩
  · exact absurd r hn
  · exact r

theorem loopPollDrop_W {w : World} (hi : WInv w) (hcur : w.current = none) : WInv (loopPollDrop w) := by
  obtain ⟨hm, _⟩ := hi
  unfold WM at hm
  refine ⟨?_, fun g hg => by simp [loopPollDrop, hcur] at hg⟩
  show M w.fibers w.runq (w.timers.dropWhile (timerStale w)) w.ent w.current
  apply M_timer_shrink hm (fun u hu => mem_of_mem_dropWhile' _ _ u hu)
  intro t ht hnt
  have := mem_dropWhile_stale (timerStale w) w.timers t ht hnt
  unfold timerStale at this
  cases hcn : t.curr with
  | some s => left; intro c; cases c
  | none => right; rw [hcn] at this; intro e; simp at this; exact this e.symm

/-! ### close -/

/-- the wake loop of close never touches a fiber that has no current registration among the entries -/
theorem closeWake_fold_quiet {cfg : Cfg} (hcc : cfg.closeChecksSched = true) (c : Nat) (b : Bool) (f : Nat) (s0 : Nat) :
    ∀ (ps : List Pending) (u : World), (∀ p ∈ ps, p.fiber = f → p.sched ≠ s0) → (u.fibers f).sched = s0 →
      (ps.foldl (closeWake cfg c b) u).fibers f = u.fibers f ∧
      LT (ps.foldl (closeWake cfg c b) u).fibers (ps.foldl (closeWake cfg c b) u).runq f = LT u.fibers u.runq f := by
  intro ps
  induction ps with
  | nil => intro u _ _; exact ⟨rfl, rfl⟩
  | cons p rest ih =>
    intro u hno hs
    simp only [List.foldl_cons]
    have hstep : (closeWake cfg c b u p).fibers f = u.fibers f ∧
        LT (closeWake cfg c b u p).fibers (closeWake cfg c b u p).runq f = LT u.fibers u.runq f := by
      unfold closeWake
      split
      · rename_i hcond
        have hlive : p.live u.fibers = true := by
          simp only [hcc, Bool.not_true, Bool.false_or, Bool.and_eq_true] at hcond; exact hcond.1
        have hne : p.fiber ≠ f := by
          intro e
          have := (live_iff u.fibers p).mp hlive
          rw [e, hs] at this
          exact hno p (by simp) e this
        obtain ⟨a, b'⟩ := schedule_other u p.fiber _ .ok f hne
        exact ⟨b', a⟩
      · exact ⟨rfl, rfl⟩
    obtain ⟨i1, i2⟩ := ih (closeWake cfg c b u p) (fun q hq => hno q (List.mem_cons_of_mem _ hq)) (by rw [hstep.1]; exact hs)
    exact ⟨i1.trans hstep.1, i2.trans hstep.2⟩

theorem chanClose_W {cfg : Cfg} (hcc : cfg.closeChecksSched = true) {w : World} {f c : Nat}
    (hm : WM w) (hcur : w.current = some f) (hq : WQuiet w f) :
    WM (chanClose cfg w c) ∧ (chanClose cfg w c).current = some f ∧ WQuiet (chanClose cfg w c) f := by
  by_cases hcl : (w.chans c).closed = true
  · have : chanClose cfg w c = w := by unfold chanClose; simp [hcl]
    rw [this]; exact ⟨hm, hcur, hq⟩
  · have hopen : (w.chans c).closed = false := by simpa using hcl
    let w0 := setChan w c { (w.chans c) with closed := true, readPending := [], writePending := [] }
    let w1 := (w.chans c).writePending.foldl (closeWake cfg c true) w0
    let wf := (w.chans c).readPending.foldl (closeWake cfg c false) w1
    have hwf : chanClose cfg w c = wf := by unfold chanClose; simp [hcl]; rfl
    unfold WM at hm
    have hM1 : M w1.fibers w1.runq w.timers w.ent w1.current :=
      fold_M _ (closeWake_isSched cfg c true) w.timers w.ent _ w0 hm
    have hMf : M wf.fibers wf.runq w.timers w.ent wf.current :=
      fold_M _ (closeWake_isSched cfg c false) w.timers w.ent _ w1 hM1
    obtain ⟨c1, t1, k1, m1⟩ := fold_misc _ (closeWake_isSched cfg c true) (w.chans c).writePending w0
    obtain ⟨c2, t2, k2, m2⟩ := fold_misc _ (closeWake_isSched cfg c false) (w.chans c).readPending w1
    have hchf : wf.chans = w0.chans := c2.trans c1
    have hentc : wf.ent c = [] := by unfold World.ent; rw [hchf]; simp [w0, setChan]
    have hento : ∀ c', c' ≠ c → wf.ent c' = w.ent c' := by
      intro c' hc'; unfold World.ent; rw [hchf]; simp [w0, setChan, hc']
    have hmono : ∀ h, (w.fibers h).sched ≤ (wf.fibers h).sched :=
      fun h => Nat.le_trans (m1 h).1 (m2 h).1
    -- quiet part
    have hnof : ∀ p ∈ w.ent c, p.fiber = f → p.sched ≠ (w.fibers f).sched :=
      fun p hp e hs => hq.2.2 ⟨c, p, hp, e, hs⟩
    obtain ⟨q1a, q1b⟩ := closeWake_fold_quiet hcc c true f (w.fibers f).sched (w.chans c).writePending w0
      (fun p hp => hnof p ((mem_ent w c p).mpr (Or.inr hp))) rfl
    obtain ⟨q2a, q2b⟩ := closeWake_fold_quiet hcc c false f (w.fibers f).sched (w.chans c).readPending w1
      (fun p hp => hnof p ((mem_ent w c p).mpr (Or.inl hp))) (by rw [q1a]; rfl)
    have hff : wf.fibers f = w.fibers f := q2a.trans q1a
    have hLf : LT wf.fibers wf.runq f = LT w.fibers w.runq f := q2b.trans q1b
    rw [hwf]
    refine ⟨?_, by rw [k2, k1]; exact hcur, ?_⟩
    · unfold WM
      rw [show wf.timers = w.timers from t2.trans t1]
      apply M_shrink hMf
      · intro c' p hp
        by_cases e : c' = c
        · subst e; rw [hentc] at hp; simp at hp
        · rw [hento c' e] at hp; exact hp
      · intro c' p hp hnp
        by_cases e : c' = c
        · subst e
          have hb := hm.a1 c' p hp
          by_cases hl : p.sched = (w.fibers p.fiber).sched
          · have hle : liveEntry w.fibers w.ent p.fiber := ⟨c', p, hp, rfl, hl⟩
            have hgf : p.fiber ≠ f := fun e => hq.2.2 (e ▸ hle)
            have hpend : (w.fibers p.fiber).status = .pending := by
              cases hst : (w.fibers p.fiber).status with
              | pending => rfl
              | _ =>
                exfalso
                refine (hm.d2 p.fiber (by rw [hst]; intro c; cases c) ?_).2 hle
                rw [hcur]; intro c; exact hgf (Option.some.inj c).symm
            have hres : fiberCanResume (w.fibers p.fiber) = true := by unfold fiberCanResume; rw [hpend]
            have hcan := not_canceled_of_liveEntry hm p.fiber (Or.inl hle)
            have hw := (chanClose_wakes_all cfg w c' hopen p
              (by rcases (mem_ent w c' p).mp hp with h | h; exact Or.inr h; exact Or.inl h) hl hres hcan).2.2.2
            rw [hwf] at hw
            omega
          · have := hmono p.fiber; omega
        · rw [hento c' e] at hnp; exact absurd hp hnp
    · refine ⟨by rw [hLf]; exact hq.1, ?_, ?_⟩
      · rw [show wf.timers = w.timers from t2.trans t1, liveTimer_congr _ f (by rw [hff])]; exact hq.2.1
      · rintro ⟨c', p, hp, h1, h2⟩
        rw [hff] at h2
        by_cases e : c' = c
        · subst e; rw [hentc] at hp; simp at hp
        · rw [hento c' e] at hp; exact hq.2.2 ⟨c', p, hp, h1, h2⟩

/-! ### every action preserves the invariant -/

theorem schedule_W_other {w : World} {f g : Nat} (val : Val) (sig : Sig) (hm : WM w) (hcur : w.current = some f)
    (hq : WQuiet w f) (hne : g ≠ f) :
    WInv (scheduleGeneral w g val sig false) := by
  obtain ⟨ht, hc, hk, _⟩ := scheduleGeneral_props w g val sig
  obtain ⟨hL, hff⟩ := schedule_other w g val sig f hne
  have hent := ent_of_chans hc
  refine ⟨?_, ?_⟩
  · unfold WM; rw [ht, hent]; exact M_schedule g val sig hm
  · intro f' hf'
    rw [hk, hcur] at hf'; injection hf' with hf'; subst hf'
    refine ⟨by rw [hL]; exact hq.1, ?_, ?_⟩
    · rw [ht, liveTimer_congr _ _ (by rw [hff])]; exact hq.2.1
    · rw [hent, liveEntry_congr _ _ (by rw [hff])]; exact hq.2.2

theorem mem_insertTimer (t : Timer) : ∀ (l : List Timer) (u : Timer), u ∈ insertTimer t l ↔ u = t ∨ u ∈ l := by
  intro l
  induction l with
  | nil => intro u; simp [insertTimer]
  | cons x rest ih =>
    intro u
    unfold insertTimer
    split
    · simp
    · simp only [List.mem_cons, ih]
      constructor
      · rintro (h | h | h)
        · exact Or.inr (Or.inl h)
        · exact Or.inl h
        · exact Or.inr (Or.inr h)
      · rintro (h | h | h)
        · exact Or.inr (Or.inl h)
        · exact Or.inl h
        · exact Or.inr (Or.inr h)

theorem LT_schedule_self {w : World} {tm : List Timer} {en : Ent} (g : Nat) (val : Val) (sig : Sig)
    (hm : M w.fibers w.runq tm en w.current) (hcan : (w.fibers g).canceled = false) :
    LT (scheduleGeneral w g val sig false).fibers (scheduleGeneral w g val sig false).runq g = 1 := by
  obtain ⟨_, _, _, pc⟩ := scheduleGeneral_props w g val sig
  rcases pc with ⟨hc, _⟩ | ⟨_, hs, _, _, hr⟩
  · rw [hcan] at hc; cases hc
  · rw [hr]
    simp only [LT, List.countP_append, hs]
    have : w.runq.countP (fun t => t.fiber == g && t.expected == (w.fibers g).sched + 1) = 0 := by
      rw [List.countP_eq_zero]
      intro u hu
      have := hm.a2 u hu
      simp only [Bool.and_eq_true, beq_iff_eq, not_and]
      intro hf; rw [hf] at this; omega
    rw [this]; simp

theorem WInv_congr (w w' : World) (hf : w'.fibers = w.fibers) (hr : w'.runq = w.runq) (ht : w'.timers = w.timers)
    (hc : w'.chans = w.chans) (hk : w'.current = w.current) (hi : WInv w) : WInv w' := by
  unfold WInv WM WQuiet at hi ⊢
  rw [hf, hr, ht, ent_of_chans hc, hk]
  exact hi

theorem step_W {cfg : Cfg} (hg : CfgGood cfg) (w : World) (a : Action) (hns : a.noSelfMatch) (hi : WInv w) :
    WInv (step cfg w a).1 := by
  obtain ⟨hm, hqq⟩ := hi
  unfold step
  cases hcur : w.current with
  | none =>
    cases a with
    | runTask => exact loopRunTask_W ⟨hm, hqq⟩ hcur
    | timers => exact loopTimers_W ⟨hm, hqq⟩ hcur
    | poll => exact loopPollDrop_W ⟨hm, hqq⟩ hcur
    | scopeEnd s => exact WInv_congr w _ rfl rfl rfl rfl hcur.symm ⟨hm, hqq⟩
    | supEvent c x => exact supPush_W hg.strict ⟨hm, hqq⟩ hcur
    | _ => exact ⟨hm, hqq⟩
  | some f =>
    have hq : WQuiet w f := hqq f hcur
    have hnc : ∀ c, ¬ liveIn w.fibers w.ent f c := fun c hh => hq.2.2 ⟨c, hh⟩
    have hfa : (w.fibers f).status = .alive := hm.d5 f hcur
    have hcanf : (w.fibers f).canceled = false := by
      cases hc : (w.fibers f).canceled
      · rfl
      · have := hm.e f hc; rw [hq.1] at this; cases this
    cases a with
    | runTask => exact ⟨hm, hqq⟩
    | timers => exact ⟨hm, hqq⟩
    | poll => exact ⟨hm, hqq⟩
    | supEvent c x => exact ⟨hm, hqq⟩
    | scopeEnd s => exact WInv_congr w _ rfl rfl rfl rfl hcur.symm ⟨hm, hqq⟩
    | go g =>
      simp only []
      split
      · rename_i hcond
        have hne : g ≠ f := fun e => by rw [e, hfa] at hcond; cases hcond.1
        exact schedule_W_other .nil .ok hm hcur hq hne
      · exact ⟨hm, hqq⟩
    | cancel g =>
      simp only []
      split
      · exact ⟨hm, hqq⟩
      · rename_i hne
        exact schedule_W_other .errCancel .error hm hcur hq hne
    | deadline s ms =>
      simp only []
      refine ⟨?_, ?_⟩
      · unfold WM at hm ⊢; rw [hcur] at hm
        exact M_timer_add f ⟨f, (w.fibers f).sched, w.clock + w.clockStep + ms, false, some s⟩ hm rfl rfl rfl hq.1
          (mem_insertTimer _ _)
      · intro f' hf'
        have : f' = f := by simpa [hcur] using hf'.symm
        subst this
        refine ⟨hq.1, ?_, hq.2.2⟩
        rintro ⟨u, hu, h1, h2, h3⟩
        rcases (mem_insertTimer _ _ u).mp hu with e | e
        · subst e; cases h1
        · exact hq.2.1 ⟨u, e, h1, h2, h3⟩
    | sleep ms =>
      simp only []
      apply awaitFiber_W
      · unfold WM at hm ⊢; rw [hcur] at hm
        exact M_timer_add f ⟨f, (w.fibers f).sched, w.clock + w.clockStep + ms, false, none⟩ hm rfl rfl rfl hq.1
          (mem_insertTimer _ _)
      · rfl
      · right; left
        exact ⟨_, (mem_insertTimer _ _ _).mpr (Or.inl rfl), rfl, rfl, rfl⟩
    | finish e => exact finishFiber_W hm hcur hq
    | close c =>
      obtain ⟨h1, h2, h3⟩ := chanClose_W hg.closeChecks (c := c) hm hcur hq
      exact ⟨h1, fun f' hf' => by rw [h2] at hf'; injection hf' with hf'; subst hf'; exact h3⟩
    | give c x =>
      simp only []
      cases hp : chanPush cfg w f c x 0 with
      | closedErr => exact finishFiber_W hm hcur hq
      | ok w1 b =>
        obtain ⟨h1, h2, h3, h4, h5, h6, _⟩ := chanPush_W hg.strict hp hm hcur hq.1 hq.2.1 (hnc c) (by decide)
        cases b with
        | true => exact awaitFiber_W h1 h2 (Or.inr (Or.inr ⟨c, h6.mpr rfl⟩))
        | false =>
          refine ⟨h1, fun f' hf' => ?_⟩
          rw [h2] at hf'; injection hf' with hf'; subst hf'
          refine ⟨h3, h4, ?_⟩
          rintro ⟨c', hl⟩
          by_cases e : c' = c
          · subst e; have := h6.mp hl; cases this
          · exact hnc c' ((h5 c' e).mp hl)
    | take c =>
      simp only []
      have hpw := chanPop_W hg.skips (mode := 0) hm hcur hq.1 hq.2.1 (hnc c) (by decide)
      cases hp : chanPop cfg w f c 0 with
      | blocked w1 =>
        obtain ⟨h1, h2, _, _, _, h6, _⟩ := hpw.2 w1 hp
        exact awaitFiber_W h1 h2 (Or.inr (Or.inr ⟨c, h6⟩))
      | got w1 r =>
        obtain ⟨h1, h2, h3, _, _, h6⟩ := hpw.1 w1 r hp
        have hcan1 : (w1.fibers f).canceled = false := by rw [h6]; exact hcanf
        have key : ∀ v, WInv (awaitFiber (schedule w1 f v) f) := by
          intro v
          obtain ⟨ht, hc, hk, _⟩ := scheduleGeneral_props w1 f v .ok
          apply awaitFiber_W
          · unfold WM schedule; rw [ht, ent_of_chans hc]; exact M_schedule f v .ok h1
          · unfold schedule; rw [hk]; exact h2
          · left; exact LT_schedule_self f v .ok h1 hcan1
        cases r with
        | none => exact key .nil
        | some x => exact key (.num x)
    | select cls =>
      cases cls with
      | nil => exact ⟨hm, hqq⟩
      | cons cl0 cls0 =>
        simp only []
        have hnd : ((cl0 :: cls0).map Clause.chan).Nodup := hns
        generalize hcls : cl0 :: cls0 = cls at hnd
        cases hci : choiceImmediate cfg w f cls with
        | some r =>
          obtain ⟨h1, h2, h3⟩ := choiceImmediate_W hg f cls w r.1 r.2 hci hm hcur hq
          exact ⟨h1, fun f' hf' => by rw [h2] at hf'; injection hf' with hf'; subst hf'; exact h3⟩
        | none =>
          have hcond := choiceImmediate_none hg w f cls hci
          obtain ⟨h1, h2, _, _, h5, _, _⟩ := choiceRegister_W hg f cls w hm hcur hq.1 hq.2.1
            (fun cl hcl => ⟨hcond cl hcl, hnc cl.chan⟩) hnd
          apply awaitFiber_W h1 h2
          right; right
          exact ⟨cl0.chan, h5 cl0 (by rw [← hcls]; simp)⟩

/-- **the wake-up invariant holds after every action sequence** (source with all five checks; no select names a
    channel twice) -/
theorem run_W {cfg : Cfg} (hg : CfgGood cfg) (as : List Action) :
    ∀ w : World, (∀ a ∈ as, a.noSelfMatch) → WInv w → WInv (run cfg w as) := by
  induction as with
  | nil => intro w _ h; exact h
  | cons a rest ih =>
    intro w hns h
    unfold run
    simp only [List.foldl_cons]
    exact ih _ (fun b hb => hns b (List.mem_cons_of_mem _ hb)) (step_W hg w a (hns a (by simp)) h)

theorem start_W (limits : Nat → Nat) : WInv (World.start limits) := by
  unfold World.start schedule
  have h0 : WM (World.init limits) := by
    unfold WM World.init World.ent
    refine ⟨by simp, by simp, by simp, by simp [LT], by simp, ?_, by simp [LT], by simp, by simp, by simp⟩
    intro f _ _
    exact ⟨by simp [liveTimer], by simp [liveEntry, liveIn]⟩
  obtain ⟨ht, hc, hk, _⟩ := scheduleGeneral_props (World.init limits) 0 .nil .ok
  refine ⟨?_, fun f hf => by rw [hk] at hf; simp [World.init] at hf⟩
  unfold WM; rw [ht, ent_of_chans hc]; exact M_schedule 0 .nil .ok h0

/-! ### at the moment a fiber suspends, it is registered exactly where its operation says -/

theorem await_view (w : World) (f : Nat) (c : Nat) :
    (liveIn (awaitFiber w f).fibers (awaitFiber w f).ent f c ↔ liveIn w.fibers w.ent f c) ∧
    LT (awaitFiber w f).fibers (awaitFiber w f).runq f = LT w.fibers w.runq f := by
  have hs : ((awaitFiber w f).fibers f).sched = (w.fibers f).sched := by simp [awaitFiber, setFiber]
  exact ⟨liveIn_congr w.ent f c hs, LT_congr w.runq f hs⟩

/-- `(ev/give c x)` that suspends: no live task, registered on `c` and nowhere else -/
theorem give_suspends_exactly {cfg : Cfg} (hg : CfgGood cfg) {w : World} {f c x : Nat} (hi : WInv w)
    (hcur : w.current = some f) (w' : World) (h : step cfg w (.give c x) = (w', .await)) :
    LT w'.fibers w'.runq f = 0 ∧ ∀ c', liveIn w'.fibers w'.ent f c' ↔ c' = c := by
  obtain ⟨hm, hqq⟩ := hi
  have hq := hqq f hcur
  have hnc : ∀ c, ¬ liveIn w.fibers w.ent f c := fun c hh => hq.2.2 ⟨c, hh⟩
  unfold step at h
  rw [hcur] at h
  simp only [] at h
  cases hp : chanPush cfg w f c x 0 with
  | closedErr => rw [hp] at h; simp at h
  | ok w1 b =>
    rw [hp] at h
    obtain ⟨_, _, h3, _, h5, h6, _⟩ := chanPush_W hg.strict hp hm hcur hq.1 hq.2.1 (hnc c) (by decide)
    cases b with
    | false => simp at h
    | true =>
      simp at h
      rw [← h]
      refine ⟨by rw [(await_view w1 f c).2]; exact h3, ?_⟩
      intro c'
      rw [(await_view w1 f c').1]
      by_cases e : c' = c
      · subst e; simp [h6]
      · simp [e]; intro hl; exact hnc c' ((h5 c' e).mp hl)

/-- `(ev/take c)` that suspends: either the item was there and the fiber only yields (one live task, no
    registration), or it is registered on `c` and nowhere else -/
theorem take_suspends_exactly {cfg : Cfg} (hg : CfgGood cfg) {w : World} {f c : Nat} (hi : WInv w)
    (hcur : w.current = some f) (w' : World) (h : step cfg w (.take c) = (w', .await)) :
    (LT w'.fibers w'.runq f = 1 ∧ ∀ c', ¬ liveIn w'.fibers w'.ent f c') ∨
    (LT w'.fibers w'.runq f = 0 ∧ ∀ c', liveIn w'.fibers w'.ent f c' ↔ c' = c) := by
  have hW := step_W hg w (.take c) trivial hi
  rw [h] at hW
  obtain ⟨hm, hqq⟩ := hi
  have hq := hqq f hcur
  have hnc : ∀ c, ¬ liveIn w.fibers w.ent f c := fun c hh => hq.2.2 ⟨c, hh⟩
  unfold step at h
  rw [hcur] at h
  simp only [] at h
  have hpw := chanPop_W hg.skips (mode := 0) hm hcur hq.1 hq.2.1 (hnc c) (by decide)
  cases hp : chanPop cfg w f c 0 with
  | blocked w1 =>
    rw [hp] at h
    simp at h
    obtain ⟨_, _, h3, _, h5, h6, _⟩ := hpw.2 w1 hp
    right
    rw [← h]
    refine ⟨by rw [(await_view w1 f c).2]; exact h3, ?_⟩
    intro c'
    rw [(await_view w1 f c').1]
    by_cases e : c' = c
    · subst e; simp [h6]
    · simp [e]; intro hl; exact hnc c' ((h5 c' e).mp hl)
  | got w1 r =>
    rw [hp] at h
    obtain ⟨h1, _, h3, _, _, h6⟩ := hpw.1 w1 r hp
    left
    have hcan1 : (w1.fibers f).canceled = false := by
      rw [h6]
      cases hc : (w.fibers f).canceled
      · rfl
      · have := hm.e f hc; rw [hq.1] at this; cases this
    have key : ∀ v, w' = awaitFiber (schedule w1 f v) f →
        LT w'.fibers w'.runq f = 1 ∧ ∀ c', ¬ liveIn w'.fibers w'.ent f c' := by
      intro v hw'
      have hl1 : LT w'.fibers w'.runq f = 1 := by
        rw [hw', (await_view _ f c).2]; exact LT_schedule_self f v .ok h1 hcan1
      exact ⟨hl1, fun c' hl => (hW.1.d3 f hl1).2 ⟨c', hl⟩⟩
    cases r with
    | none => simp at h; exact key .nil h.symm
    | some x => simp at h; exact key (.num x) h.symm

/-- `(ev/select ...)` without a repeated channel that suspends: no live task, registered on the channel of every
    clause and nowhere else -/
theorem select_suspends_exactly {cfg : Cfg} (hg : CfgGood cfg) {w : World} {f : Nat} {cls : List Clause} (hi : WInv w)
    (hcur : w.current = some f) (hnd : (cls.map Clause.chan).Nodup) (w' : World)
    (h : step cfg w (.select cls) = (w', .await)) :
    LT w'.fibers w'.runq f = 0 ∧ ∀ c', liveIn w'.fibers w'.ent f c' ↔ c' ∈ cls.map Clause.chan := by
  obtain ⟨hm, hqq⟩ := hi
  have hq := hqq f hcur
  have hnc : ∀ c, ¬ liveIn w.fibers w.ent f c := fun c hh => hq.2.2 ⟨c, hh⟩
  unfold step at h
  rw [hcur] at h
  cases cls with
  | nil => simp at h
  | cons cl0 cls0 =>
    simp only [] at h
    generalize hcls : cl0 :: cls0 = cls at h hnd
    cases hci : choiceImmediate cfg w f cls with
    | some r => rw [hci] at h; simp at h
    | none =>
      rw [hci] at h
      simp at h
      have hcond := choiceImmediate_none hg w f cls hci
      obtain ⟨_, _, h3, _, h5, _, h7⟩ := choiceRegister_W hg f cls w hm hcur hq.1 hq.2.1
        (fun cl hcl => ⟨hcond cl hcl, hnc cl.chan⟩) hnd
      rw [← h]
      refine ⟨by rw [(await_view _ f 0).2]; exact h3, ?_⟩
      intro c'
      rw [(await_view _ f c').1]
      constructor
      · intro hl
        by_cases e : c' ∈ cls.map Clause.chan
        · exact e
        · exact absurd (h7 c' e hl) (hnc c')
      · intro hin
        obtain ⟨cl, hcl, e⟩ := List.mem_map.mp hin
        rw [← e]; exact h5 cl hcl

end JanetModel.Ev
