/- The `janet_q_*` calls that the channel functions of ev.c make on `channel->items`, as a TRACE read off the same
   functions as the list model (`Ev/Model.lean`), and the two ways of replaying a trace: on the lists of `World`
   (`replayL`) and on the JanetQueue ring machine of `Ev/Queue.lean` (`replayR`).  `Ev/RefineLemmas.lean` proves that
   for every action sequence both replays agree with `World.items` (simulation for whole histories); `Ev/RefineSource.lean`
   states it for the current source and joins it with the collector machine `GcChan` of `Ev/Mark.lean`.
   CORE LEAN ONLY (linked into the driver: `Ev/Exec.lean` prints the ring geometry obtained by `replayR`). -/
import JanetModel.Ev.Model
import JanetModel.Ev.Queue
import JanetModel.Ev.Mark
namespace JanetModel.Ev

/-- one call on a channel's item queue -/
inductive QOp where
  /-- `janet_q_push(&channel->items, &x, sizeof(Janet))` in janet_channel_push_with_lock -/
  | push (x : Nat)
  /-- `janet_q_pop(&channel->items, item, sizeof(Janet))` in janet_channel_pop_with_lock (called on an empty queue too:
      it then returns 1 and leaves the queue alone) -/
  | pop
  deriving Repr, DecidableEq

/-- the call on the list model -/
def QOp.onList (l : List Nat) : QOp → List Nat
  | .push x => l ++ [x]
  | .pop => l.tail

def replayL (ops : List QOp) (l : List Nat) : List Nat := ops.foldl QOp.onList l

/-- the call on the ring; `none` = janet_q_push returned 1 (JANET_MAX_Q_CAPACITY reached: "channel overflow" panic) -/
def QOp.onRing (maxCap : Nat) (q : RingQ Nat) : QOp → Option (RingQ Nat)
  | .push x => q.push maxCap x
  | .pop => match q.pop with
            | none => some q
            | some (_, q') => some q'

def replayR (maxCap : Nat) : List QOp → RingQ Nat → Option (RingQ Nat)
  | [], q => some q
  | op :: rest, q =>
    match op.onRing maxCap q with
    | none => none
    | some q' => replayR maxCap rest q'

/-- janet_channel_push_with_lock: the value goes into the ring exactly when no live reader was popped -/
def chanPushOps (w : World) (c x : Nat) : List (Nat × QOp) :=
  if (w.chans c).closed then [] else
  match (popLiveReader w.fibers (w.chans c).readPending).1 with
  | none => [(c, .push x)]
  | some _ => []

/-- janet_channel_pop_with_lock: one janet_q_pop unless the channel is closed -/
def chanPopOps (w : World) (c : Nat) : List (Nat × QOp) :=
  if (w.chans c).closed then [] else [(c, .pop)]

/-- first loop of cfun_channel_choice -/
def choiceImmediateOps (cfg : Cfg) (w : World) : List Clause → List (Nat × QOp)
  | [] => []
  | .give c x :: rest =>
    let ch := w.chans c
    if ch.closed then []
    else if choiceReady cfg ch.items.length ch.limit
            || (cfg.choiceGiveSeesReader && hasLiveReader w.fibers ch.readPending) then chanPushOps w c x
    else choiceImmediateOps cfg w rest
  | .take c :: rest =>
    let ch := w.chans c
    if ch.closed then []
    else if ch.items ≠ [] then chanPopOps w c
    else choiceImmediateOps cfg w rest

/-- second loop of cfun_channel_choice -/
def choiceRegisterOps (cfg : Cfg) (w : World) (f : Nat) : List Clause → List (Nat × QOp)
  | [] => []
  | .give c x :: rest =>
    match chanPush cfg w f c x 1 with
    | .ok w' _ => chanPushOps w c x ++ choiceRegisterOps cfg w' f rest
    | .closedErr => choiceRegisterOps cfg w f rest
  | .take c :: rest =>
    match chanPop cfg w f c 1 with
    | .got w' _ => chanPopOps w c ++ choiceRegisterOps cfg w' f rest
    | .blocked w' => chanPopOps w c ++ choiceRegisterOps cfg w' f rest

/-- the item-queue calls of one transition, tagged with the channel, in call order -/
def stepOps (cfg : Cfg) (w : World) (a : Action) : List (Nat × QOp) :=
  match w.current, a with
  | none, .supEvent c x => chanPushOps w c x
  | some _, .give c x => chanPushOps w c x
  | some _, .take c => chanPopOps w c
  | some _, .select [] => []
  | some f, .select cls =>
    match choiceImmediate cfg w f cls with
    | some _ => choiceImmediateOps cfg w cls
    | none => choiceRegisterOps cfg w f cls
  | _, _ => []

/-- the item-queue calls of a whole run -/
def runOps (cfg : Cfg) (w : World) : List Action → List (Nat × QOp)
  | [] => []
  | a :: rest => stepOps cfg w a ++ runOps cfg (step cfg w a).1 rest

/-- the calls on channel `c` -/
def opsOn (c : Nat) (t : List (Nat × QOp)) : List QOp := (t.filter (fun p => p.1 == c)).map (·.2)

/-- replay channel-tagged calls on the rings of all channels (what `Ev/Exec.lean` does after every step); stops at a
    "channel overflow" -/
def applyRings (maxCap : Nat) (rings : Nat → RingQ Nat) : List (Nat × QOp) → (Nat → RingQ Nat)
  | [] => rings
  | (c, op) :: rest =>
    match op.onRing maxCap (rings c) with
    | some q => applyRings maxCap (fun i => if i = c then q else rings i) rest
    | none => rings

/-- the rings of all channels along a run: exactly what `Exec.doStep` maintains (one `applyRings` per `step`) -/
def runRings (cfg : Cfg) (maxCap : Nat) : World → (Nat → RingQ Nat) → List Action → (Nat → RingQ Nat)
  | _, rings, [] => rings
  | w, rings, a :: rest => runRings cfg maxCap (step cfg w a).1 (applyRings maxCap rings (stepOps cfg w a)) rest

/-- a history of the collector machine `GcChan` seen as queue calls: collections make none -/
def gcProj : List GcOp → List QOp
  | [] => []
  | .give x :: rest => .push x :: gcProj rest
  | .take :: rest => .pop :: gcProj rest
  | .collect _ :: rest => gcProj rest

end JanetModel.Ev
