/- C06: the current ev.c has every test and fix the model knows about (configuration regenerated into Gen/Ev.lean):
   capacity operators, the three sched_id / waiting-reader checks, the sched_id bump at resume, the closed-supervisor guard.
   A module of its own: a tree lacking one of them breaks exactly this obligation. -/
import JanetModel.Ev.Current
namespace JanetModel.Props.C06
open JanetModel.Ev

/-- the current source has every test the model knows about, with the reference operators -/
theorem current_source_checks : currentCfg = Cfg.good := by decide

end JanetModel.Props.C06
