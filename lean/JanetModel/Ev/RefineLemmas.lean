/- Simulation for whole histories between the list model (`World.items`) and the JanetQueue ring machine: the trace of
   item-queue calls (`runOps`) replayed on lists gives `World.items` (`run_tr`), replayed on rings gives rings whose
   `toList` is `World.items` (`replay_refines`, composing `push_spec` / `pop_some` / `pop_none` of `QueueLemmas` along
   the trace), and the collector machine `GcChan` run on the same calls with collections anywhere has that ring
   (`gc_ring_is_replay`). -/
import JanetModel.Ev.Refine
import JanetModel.Ev.Lemmas
import JanetModel.Ev.QueueLemmas
import JanetModel.Ev.MarkLemmas
namespace JanetModel.Ev

theorem replayL_append (a b : List QOp) (l : List Nat) : replayL (a ++ b) l = replayL b (replayL a l) := by
  simp [replayL, List.foldl_append]

theorem opsOn_append (c : Nat) (t1 t2 : List (Nat × QOp)) : opsOn c (t1 ++ t2) = opsOn c t1 ++ opsOn c t2 := by
  simp [opsOn, List.filter_append]

/-- the trace `t` leads from the item lists of `w` to those of `w'` -/
def Tr (w w' : World) (t : List (Nat × QOp)) : Prop :=
  ∀ c, (w'.chans c).items = replayL (opsOn c t) (w.chans c).items

theorem Tr.nil {w w' : World} (h : ∀ c, (w'.chans c).items = (w.chans c).items) : Tr w w' [] := fun c => by
  simp [opsOn, replayL, h c]

theorem Tr.trans {a b c : World} {t1 t2 : List (Nat × QOp)} (h1 : Tr a b t1) (h2 : Tr b c t2) : Tr a c (t1 ++ t2) :=
  fun ch => by rw [opsOn_append, replayL_append, ← h1 ch, ← h2 ch]

theorem Tr.single {w w' : World} (c : Nat) (op : QOp) (ho : ∀ c', c' ≠ c → w'.chans c' = w.chans c')
    (hc : (w'.chans c).items = op.onList (w.chans c).items) : Tr w w' [(c, op)] := fun c' => by
  by_cases h : c' = c
  · subst h; simp [opsOn, replayL, hc]
  · have hne : ¬ c = c' := fun e => h e.symm
    simp [opsOn, replayL, hne, ho c' h]

theorem Tr.frame {w w' : World} (h : Frame w w') : Tr w w' [] := Tr.nil (fun c => by rw [h.chans])

theorem Tr.right {w w1 w2 : World} {t : List (Nat × QOp)} (h : Tr w w1 t) (e : w2.chans = w1.chans) : Tr w w2 t :=
  fun c => by rw [e]; exact h c

theorem chanPush_tr (cfg : Cfg) (w : World) (f c x mode : Nat) (w' : World) (b : Bool)
    (h : chanPush cfg w f c x mode = .ok w' b) : Tr w w' (chanPushOps w c x) := by
  have hoth := chanPush_other cfg w f c x mode w' b h
  unfold chanPushOps
  unfold chanPush at h
  by_cases hcl : (w.chans c).closed = true
  · simp [hcl] at h
  · rw [if_neg hcl]
    simp only [hcl] at h
    simp only [addPushed] at h
    rcases hq : popLiveReader w.fibers (w.chans c).readPending with ⟨r, rp⟩
    rw [hq] at h
    cases r with
    | none =>
      simp only [] at h
      refine Tr.single c (.push x) hoth ?_
      by_cases hb : pushBlocks cfg ((w.chans c).items.length + 1) (w.chans c).limit = true
      · by_cases hm : mode = 2
        · simp [hb, hm] at h; rw [← h.1]; simp [setChan, QOp.onList]
        · simp [hb, hm] at h; rw [← h.1]; simp [setChan, QOp.onList]
      · simp [hb] at h; rw [← h.1]; simp [setChan, QOp.onList]
    | some r =>
      simp at h
      refine Tr.nil ?_
      intro c'
      rw [← h.1, schedule_chans]
      by_cases hcc : c' = c
      · subst hcc; simp [addHanded, setChan]
      · simp [addHanded, setChan, hcc]

theorem chanPop_tr (cfg : Cfg) (w : World) (f c mode : Nat) :
    (∀ w' r, chanPop cfg w f c mode = .got w' r → Tr w w' (chanPopOps w c)) ∧
    (∀ w', chanPop cfg w f c mode = .blocked w' → Tr w w' (chanPopOps w c)) := by
  have hoth := fun c' hc => chanPop_other cfg w f c mode c' hc
  unfold chanPopOps
  by_cases hcl : (w.chans c).closed = true
  · rw [if_pos hcl]
    unfold chanPop
    simp only [hcl, ↓reduceIte]
    constructor
    · intro w' r h; simp at h; rw [← h.1]; exact Tr.nil (fun _ => rfl)
    · intro w' h; simp at h
  · rw [if_neg hcl]
    have key : ∀ w', (∀ c', c' ≠ c → w'.chans c' = w.chans c') →
        (w'.chans c).items = (w.chans c).items.tail → Tr w w' [(c, QOp.pop)] :=
      fun w' ho hi => Tr.single c .pop ho (by simpa [QOp.onList] using hi)
    have he := chanPop_effect cfg w f c mode
    constructor
    · intro w' r h
      refine key w' (fun c' hc => (hoth c' hc).1 w' r h) ?_
      have h0 := h
      unfold chanPop at h
      simp only [hcl] at h
      cases hi : (w.chans c).items with
      | nil =>
        rw [hi] at h
        by_cases hm : mode = 2 <;> simp [hm] at h
      | cons x rest =>
        obtain ⟨_, hcase⟩ := he.1 w' r h0
        rcases hcase with ⟨hn, _, _⟩ | ⟨x', rest', hitems, _, _, hi'⟩
        · rw [hi] at h
          simp only [] at h
          rcases hq : popWriter cfg.popSkipsStaleWriter (addHanded w c x).fibers (w.chans c).writePending with ⟨wr, wp⟩
          rw [hq] at h
          subst hn
          cases wr <;> simp at h
        · rw [hi'] ; rw [hi] at hitems; simp at hitems; simp [hitems.2]
    · intro w' h
      refine key w' (fun c' hc => (hoth c' hc).2 w' h) ?_
      obtain ⟨_, _, hi'⟩ := he.2 w' h
      rw [hi']
      unfold chanPop at h
      simp only [hcl] at h
      cases hi : (w.chans c).items with
      | nil => rfl
      | cons x rest =>
        rw [hi] at h
        simp only [] at h
        rcases hq : popWriter cfg.popSkipsStaleWriter (addHanded w c x).fibers (w.chans c).writePending with ⟨wr, wp⟩
        rw [hq] at h
        cases wr <;> simp at h

theorem choiceImmediate_tr (cfg : Cfg) (f : Nat) (cls : List Clause) :
    ∀ (w w' : World) (v : Val), choiceImmediate cfg w f cls = some (w', v) → Tr w w' (choiceImmediateOps cfg w cls) := by
  induction cls with
  | nil => intro w w' v h; simp [choiceImmediate] at h
  | cons cl rest ih =>
    intro w w' v h
    cases cl with
    | give c x =>
      unfold choiceImmediate at h
      unfold choiceImmediateOps
      by_cases hcl : (w.chans c).closed = true
      · simp [hcl] at h ⊢; rw [← h.1]; exact Tr.nil (fun _ => rfl)
      · simp only [hcl] at h ⊢
        by_cases hr : (choiceReady cfg (w.chans c).items.length (w.chans c).limit
            || (cfg.choiceGiveSeesReader && hasLiveReader w.fibers (w.chans c).readPending)) = true
        · simp only [hr] at h ⊢
          cases hp : chanPush cfg w f c x 1 with
          | closedErr =>
            exfalso
            unfold chanPush at hp
            simp [hcl] at hp
            rcases hq : popLiveReader (addPushed w c x).fibers (w.chans c).readPending with ⟨r, rp⟩
            rw [hq] at hp
            cases r <;> simp at hp <;> (repeat' split at hp) <;> simp at hp
          | ok w1 b =>
            rw [hp] at h; simp at h; rw [← h.1]
            simpa using chanPush_tr cfg w f c x 1 w1 b hp
        · simp only [hr] at h ⊢
          simpa using ih w w' v (by simpa using h)
    | take c =>
      unfold choiceImmediate at h
      unfold choiceImmediateOps
      by_cases hcl : (w.chans c).closed = true
      · simp [hcl] at h ⊢; rw [← h.1]; exact Tr.nil (fun _ => rfl)
      · simp only [hcl] at h ⊢
        by_cases hi : (w.chans c).items = []
        · simp [hi] at h ⊢; exact ih w w' v h
        · simp [hi] at h ⊢
          have hpc := chanPop_tr cfg w f c 1
          cases hp : chanPop cfg w f c 1 with
          | blocked w1 => rw [hp] at h; simp at h; rw [← h.1]; exact hpc.2 w1 hp
          | got w1 r =>
            rw [hp] at h
            cases r with
            | none => simp at h; rw [← h.1]; exact hpc.1 w1 none hp
            | some x =>
              simp at h; rw [← h.1]
              exact Tr.right (hpc.1 w1 (some x) hp) rfl

theorem choiceRegister_tr (cfg : Cfg) (f : Nat) (cls : List Clause) :
    ∀ (w : World), Tr w (choiceRegister cfg w f cls) (choiceRegisterOps cfg w f cls) := by
  induction cls with
  | nil => intro w; exact Tr.nil (fun _ => rfl)
  | cons cl rest ih =>
    intro w
    cases cl with
    | give c x =>
      unfold choiceRegister choiceRegisterOps
      cases hp : chanPush cfg w f c x 1 with
      | closedErr => exact ih w
      | ok w1 b => exact Tr.trans (chanPush_tr cfg w f c x 1 w1 b hp) (ih w1)
    | take c =>
      unfold choiceRegister choiceRegisterOps
      have hpc := chanPop_tr cfg w f c 1
      cases hp : chanPop cfg w f c 1 with
      | blocked w1 => exact Tr.trans (hpc.2 w1 hp) (ih w1)
      | got w1 r => exact Tr.trans (hpc.1 w1 r hp) (ih w1)

theorem chanClose_tr (cfg : Cfg) (w : World) (c : Nat) : Tr w (chanClose cfg w c) [] := by
  refine Tr.nil ?_
  intro c'
  unfold chanClose
  by_cases hcl : (w.chans c).closed = true
  · simp [hcl]
  · simp only [hcl]
    have h1 := closeWake_fold_view cfg c false (w.chans c).readPending
      ((w.chans c).writePending.foldl (closeWake cfg c true)
        (setChan w c { (w.chans c) with closed := true, readPending := [], writePending := [] }))
    have h2 := closeWake_fold_view cfg c true (w.chans c).writePending
      (setChan w c { (w.chans c) with closed := true, readPending := [], writePending := [] })
    simp only [Bool.false_eq_true, ↓reduceIte]; rw [h1.1, h2.1]
    by_cases hcc : c' = c
    · subst hcc; simp [setChan]
    · simp [setChan, hcc]

theorem step_tr (cfg : Cfg) (w : World) (a : Action) : Tr w (step cfg w a).1 (stepOps cfg w a) := by
  unfold step stepOps
  cases hcur : w.current with
  | none =>
    cases a <;> simp only [] <;>
      (first
        | exact Tr.nil (fun _ => rfl)
        | exact Tr.frame (loopRunTask_frame cfg w)
        | exact Tr.frame (loopTimers_frame w)
        | skip)
    case supEvent c x =>
      unfold supPush
      cases hp : chanPush cfg w 0 c x 2 with
      | closedErr =>
        have : chanPushOps w c x = [] := by
          unfold chanPushOps chanPush at *
          by_cases hcl : (w.chans c).closed = true
          · simp [hcl]
          · exfalso
            simp [hcl] at hp
            rcases hq : popLiveReader (addPushed w c x).fibers (w.chans c).readPending with ⟨r, rp⟩
            rw [hq] at hp
            cases r <;> simp at hp <;> (repeat' split at hp) <;> simp at hp
        rw [this]; exact Tr.nil (fun _ => rfl)
      | ok w1 b => exact chanPush_tr cfg w 0 c x 2 w1 b hp
  | some f =>
    cases a with
    | go g =>
      simp only []
      split
      · exact Tr.frame (schedule_frame _ _ _)
      · exact Tr.nil (fun _ => rfl)
    | cancel g =>
      simp only []
      split
      · exact Tr.nil (fun _ => rfl)
      · exact Tr.frame (cancelFiber_frame _ _ _)
    | deadline s ms => exact Tr.nil (fun _ => rfl)
    | scopeEnd s => exact Tr.nil (fun _ => rfl)
    | give c x =>
      simp only []
      cases hp : chanPush cfg w f c x 0 with
      | closedErr =>
        have : chanPushOps w c x = [] := by
          unfold chanPushOps chanPush at *
          by_cases hcl : (w.chans c).closed = true
          · simp [hcl]
          · exfalso
            simp [hcl] at hp
            rcases hq : popLiveReader (addPushed w c x).fibers (w.chans c).readPending with ⟨r, rp⟩
            rw [hq] at hp
            cases r <;> simp at hp <;> (repeat' split at hp) <;> simp at hp
        rw [this]; exact Tr.nil (fun _ => rfl)
      | ok w1 b =>
        have := chanPush_tr cfg w f c x 0 w1 b hp
        cases b
        · exact this
        · exact Tr.right this rfl
    | take c =>
      simp only []
      have hpc := chanPop_tr cfg w f c 0
      cases hp : chanPop cfg w f c 0 with
      | blocked w1 => exact Tr.right (hpc.2 w1 hp) rfl
      | got w1 r =>
        cases r with
        | none => exact Tr.right (hpc.1 w1 none hp) (by simp [awaitFiber, setFiber, schedule_chans])
        | some x => exact Tr.right (hpc.1 w1 (some x) hp) (by simp [awaitFiber, setFiber, schedule_chans])
    | select cls =>
      cases cls with
      | nil => exact Tr.nil (fun _ => rfl)
      | cons cl0 cls0 =>
      simp only []
      generalize cl0 :: cls0 = cls
      cases hi : choiceImmediate cfg w f cls with
      | none => exact Tr.right (choiceRegister_tr cfg f cls w) rfl
      | some r => exact choiceImmediate_tr cfg f cls w r.1 r.2 hi
    | close c => exact chanClose_tr cfg w c
    | sleep ms => exact Tr.nil (fun _ => rfl)
    | finish e => exact Tr.nil (fun _ => rfl)
    | runTask => exact Tr.nil (fun _ => rfl)
    | timers => exact Tr.nil (fun _ => rfl)
    | poll => exact Tr.nil (fun _ => rfl)
    | supEvent c x => exact Tr.nil (fun _ => rfl)

/-- list side of the simulation, every action sequence -/
theorem run_tr (cfg : Cfg) (as : List Action) : ∀ w : World, Tr w (run cfg w as) (runOps cfg w as) := by
  induction as with
  | nil => intro w; exact Tr.nil (fun _ => rfl)
  | cons a rest ih =>
    intro w
    have h := Tr.trans (step_tr cfg w a) (ih (step cfg w a).1)
    simpa [run, runOps] using h

/-! ### ring side -/

theorem count_eq_length (q : RingQ Nat) : q.toList.length = q.count := by simp [RingQ.toList]

/-- one call: the ring follows the list (compose `queue_refines_list`) -/
theorem onRing_refines (maxCap : Nat) (q : RingQ Nat) (h : q.WF) (op : QOp) (q' : RingQ Nat)
    (hr : op.onRing maxCap q = some q') : q'.WF ∧ q'.toList = op.onList q.toList := by
  cases op with
  | push x =>
    have := RingQ.push_spec maxCap q h x q' hr
    exact ⟨this.2, this.1⟩
  | pop =>
    simp only [QOp.onRing] at hr
    cases hp : q.pop with
    | none =>
      rw [hp] at hr; simp at hr; subst hr
      have := (RingQ.pop_none q h).mp hp
      exact ⟨h, by simp [QOp.onList, this]⟩
    | some r =>
      obtain ⟨x, q1⟩ := r
      rw [hp] at hr; simp at hr; subst hr
      have := RingQ.pop_some q h x q1 hp
      exact ⟨this.2, by simp [QOp.onList, this.1]⟩

/-- a whole trace -/
theorem replay_refines (maxCap : Nat) (ops : List QOp) :
    ∀ (q : RingQ Nat), q.WF → ∀ q', replayR maxCap ops q = some q' → q'.WF ∧ q'.toList = replayL ops q.toList := by
  induction ops with
  | nil => intro q h q' hr; simp [replayR] at hr; subst hr; exact ⟨h, rfl⟩
  | cons op rest ih =>
    intro q h q' hr
    simp only [replayR] at hr
    cases ho : op.onRing maxCap q with
    | none => rw [ho] at hr; simp at hr
    | some q1 =>
      rw [ho] at hr
      have h1 := onRing_refines maxCap q h op q1 ho
      have h2 := ih q1 h1.1 q' hr
      exact ⟨h2.1, by rw [h2.2, h1.2]; simp [replayL]⟩

/-- the collector machine makes exactly the ring calls of its history: collections do not touch the ring -/
theorem gc_ring_is_replay (m : MarkWalk) (maxCap : Nat) (gops : List GcOp) :
    ∀ (s : GcChan) (q' : RingQ Nat), replayR maxCap (gcProj gops) s.q = some q' →
      (gops.foldl (GcChan.step m maxCap) s).q = q' := by
  induction gops with
  | nil => intro s q' h; simp [gcProj, replayR] at h; simpa using h
  | cons g rest ih =>
    intro s q' h
    simp only [List.foldl_cons]
    cases g with
    | give x =>
      simp only [gcProj, replayR, QOp.onRing] at h
      cases hp : s.q.push maxCap x with
      | none => rw [hp] at h; simp at h
      | some q1 =>
        rw [hp] at h
        apply ih
        simp only [GcChan.step, hp]; exact h
    | take =>
      simp only [gcProj, replayR, QOp.onRing] at h
      cases hp : s.q.pop with
      | none =>
        rw [hp] at h
        apply ih
        simp only [GcChan.step, hp]; exact h
      | some r =>
        obtain ⟨x, q1⟩ := r
        rw [hp] at h
        apply ih
        simp only [GcChan.step, hp]; exact h
    | collect roots =>
      simp only [gcProj] at h
      apply ih
      simp only [GcChan.step]; exact h

/-- `janet_q_push` fails only at JANET_MAX_Q_CAPACITY: a replay that overflows has made at least `maxCap` calls more
    than it had room for -/
theorem replay_overflow (maxCap : Nat) (ops : List QOp) :
    ∀ (q : RingQ Nat), q.WF → replayR maxCap ops q = none → maxCap ≤ q.count + ops.length := by
  induction ops with
  | nil => intro q _ h; simp [replayR] at h
  | cons op rest ih =>
    intro q h hr
    simp only [replayR] at hr
    cases ho : op.onRing maxCap q with
    | none =>
      cases op with
      | push x =>
        simp only [QOp.onRing, RingQ.push] at ho
        cases hm : q.maybeResize maxCap with
        | some q1 => rw [hm] at ho; simp at ho
        | none =>
          unfold RingQ.maybeResize at hm
          simp only at hm
          by_cases h1 : q.count + 1 ≥ q.cap
          · by_cases h2 : q.count + 1 ≥ maxCap
            · simp only [List.length_cons]; omega
            · rw [if_pos h1, if_neg h2] at hm
              split at hm <;> simp at hm
          · rw [if_neg h1] at hm; simp at hm
      | pop =>
        simp only [QOp.onRing] at ho
        cases hp : q.pop with
        | none => rw [hp] at ho; simp at ho
        | some r => rw [hp] at ho; simp at ho
    | some q1 =>
      rw [ho] at hr
      have h1 := onRing_refines maxCap q h op q1 ho
      have h2 := ih q1 h1.1 hr
      have hl : q1.count ≤ q.count + 1 := by
        rw [← count_eq_length q1, ← count_eq_length q, h1.2]
        cases op <;> simp [QOp.onList]
        omega
      simp only [List.length_cons]; omega

theorem init_wf : (RingQ.init (0 : Nat)).WF := Or.inl ⟨rfl, rfl, rfl⟩

theorem start_items (limits : Nat → Nat) (c : Nat) : ((World.start limits).chans c).items = [] := by
  unfold World.start; rw [schedule_chans]; rfl

theorem gcProj_length (gops : List GcOp) : (gcProj gops).length ≤ gops.length := by
  induction gops with
  | nil => simp [gcProj]
  | cons g rest ih => cases g <;> simp [gcProj] <;> omega

/-! ### the rings the driver maintains step by step are the replay of the whole trace -/

theorem replayR_append (maxCap : Nat) (a b : List QOp) :
    ∀ q, replayR maxCap (a ++ b) q = (replayR maxCap a q).bind (replayR maxCap b) := by
  induction a with
  | nil => intro q; simp [replayR]
  | cons op rest ih =>
    intro q
    simp only [List.cons_append, replayR]
    cases op.onRing maxCap q with
    | none => simp
    | some q1 => simpa using ih q1

theorem opsOn_cons (c c0 : Nat) (op : QOp) (t : List (Nat × QOp)) :
    opsOn c ((c0, op) :: t) = if c0 = c then op :: opsOn c t else opsOn c t := by
  by_cases h : c0 = c <;> simp [opsOn, h]

theorem applyRings_chan (maxCap : Nat) (t : List (Nat × QOp)) :
    ∀ rings : Nat → RingQ Nat, (∀ c, ∃ q, replayR maxCap (opsOn c t) (rings c) = some q) →
      ∀ c, replayR maxCap (opsOn c t) (rings c) = some (applyRings maxCap rings t c) := by
  induction t with
  | nil => intro rings _ c; simp [opsOn, replayR, applyRings]
  | cons p rest ih =>
    obtain ⟨c0, op⟩ := p
    intro rings hall c
    obtain ⟨q0, hq0⟩ := hall c0
    rw [opsOn_cons, if_pos rfl] at hq0
    simp only [replayR] at hq0
    cases ho : op.onRing maxCap (rings c0) with
    | none => rw [ho] at hq0; simp at hq0
    | some q1 =>
      have hall' : ∀ c, ∃ q, replayR maxCap (opsOn c rest) ((fun i => if i = c0 then q1 else rings i) c) = some q := by
        intro c'
        by_cases hc : c' = c0
        · subst hc; rw [ho] at hq0; exact ⟨q0, by simpa using hq0⟩
        · obtain ⟨q, hq⟩ := hall c'
          rw [opsOn_cons, if_neg (fun e => hc e.symm)] at hq
          exact ⟨q, by simpa [hc] using hq⟩
      have := ih _ hall' c
      simp only [applyRings, ho]
      rw [← this, opsOn_cons]
      by_cases hc : c0 = c
      · subst hc; simp [replayR, ho]
      · have hc' : ¬ c = c0 := fun e => hc e.symm
        simp [hc, hc']

theorem runRings_replay (cfg : Cfg) (maxCap : Nat) (as : List Action) :
    ∀ (w : World) (rings : Nat → RingQ Nat),
      (∀ c, ∃ q, replayR maxCap (opsOn c (runOps cfg w as)) (rings c) = some q) →
      ∀ c, replayR maxCap (opsOn c (runOps cfg w as)) (rings c) = some (runRings cfg maxCap w rings as c) := by
  induction as with
  | nil => intro w rings _ c; simp [runOps, opsOn, replayR, runRings]
  | cons a rest ih =>
    intro w rings hall c
    have split : ∀ c, ∃ q1, replayR maxCap (opsOn c (stepOps cfg w a)) (rings c) = some q1 ∧
        ∃ q, replayR maxCap (opsOn c (runOps cfg (step cfg w a).1 rest)) q1 = some q := by
      intro c'
      obtain ⟨q, hq⟩ := hall c'
      simp only [runOps, opsOn_append, replayR_append] at hq
      cases h1 : replayR maxCap (opsOn c' (stepOps cfg w a)) (rings c') with
      | none => rw [h1] at hq; simp at hq
      | some q1 => rw [h1] at hq; exact ⟨q1, rfl, q, by simpa using hq⟩
    have hstep := applyRings_chan maxCap (stepOps cfg w a) rings (fun c' => ⟨(split c').choose, (split c').choose_spec.1⟩)
    have hall' : ∀ c', ∃ q, replayR maxCap (opsOn c' (runOps cfg (step cfg w a).1 rest))
        (applyRings maxCap rings (stepOps cfg w a) c') = some q := by
      intro c'
      obtain ⟨q1, h1, q, h2⟩ := split c'
      rw [hstep c'] at h1
      simp at h1; subst h1
      exact ⟨q, h2⟩
    have := ih (step cfg w a).1 (applyRings maxCap rings (stepOps cfg w a)) hall' c
    simp only [runOps, opsOn_append, replayR_append, runRings, hstep c]
    simpa using this

theorem opsOn_length (c : Nat) (t : List (Nat × QOp)) : (opsOn c t).length ≤ t.length := by
  simp [opsOn]; exact List.length_filter_le _ _

end JanetModel.Ev
