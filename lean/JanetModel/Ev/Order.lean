/- Order of receipt: for every fiber `t`, the items `t` has received (in the order its operations returned them) followed
   by the item of its live wake-up task, form a SUBLIST of the global hand-out log.  A fiber has at most one item in
   flight and receives it before it can be handed another one, so the order in which one taker receives is the order in
   which the channels handed out.  Together with `fifo_per_channel` this gives the order between one giver and one taker. -/
import JanetModel.Ev.Kept
namespace JanetModel.Ev
open List

/-- the item a resumption value carries (`receivedOf` without the fiber) -/
def itemsOf : Val → List Nat
  | .num x => [x]
  | .take _ x => [x]
  | _ => []

theorem receivedOf_eq (f : Nat) (v : Val) : receivedOf f v = (itemsOf v).map (fun x => (f, x)) := by
  cases v <;> rfl

/-- items received by fiber `t`, in order -/
def Rv (w : World) (t : Nat) : List Nat := (w.ghost.received.filter (fun p => p.1 == t)).map (·.2)

def liveT (fb : Fibers) (t : Nat) (u : Task) : Bool := u.fiber == t && u.expected == (fb t).sched

/-- items carried by the tasks in the run queue that will really resume `t` -/
def Fv (fb : Fibers) (rq : List Task) (t : Nat) : List Nat := (rq.filter (liveT fb t)).flatMap (fun u => itemsOf u.value)

/-- hand-out log, items only -/
def Hv (w : World) : List Nat := w.ghost.handed.map (·.2)

def SH (w : World) (H0 : List Nat) : Prop := ∀ t, (Rv w t ++ Fv w.fibers w.runq t) <+ H0

def A2 (w : World) : Prop := ∀ u ∈ w.runq, u.expected ≤ (w.fibers u.fiber).sched

theorem SH_congr {w w' : World} {H0 : List Nat} (hf : w'.fibers = w.fibers) (hr : w'.runq = w.runq)
    (hg : w'.ghost.received = w.ghost.received) (h : SH w H0) : SH w' H0 := by
  intro t; unfold Rv; rw [hf, hr, hg]; exact h t

theorem A2_congr {w w' : World} (hf : w'.fibers = w.fibers) (hr : w'.runq = w.runq) (h : A2 w) : A2 w' := by
  unfold A2; rw [hf, hr]; exact h

theorem SH_mono {w : World} {H0 H1 : List Nat} (h : SH w H0) (hs : H0 <+ H1) : SH w H1 := fun t => (h t).trans hs

theorem Fv_nil_of_LT {fb : Fibers} {rq : List Task} {t : Nat} (h : LT fb rq t = 0) : Fv fb rq t = [] := by
  unfold LT at h
  unfold Fv
  have : rq.filter (liveT fb t) = [] := by
    rw [List.filter_eq_nil_iff]
    intro u hu
    have := (List.countP_eq_zero.mp h) u hu
    simpa [liveT] using this
  rw [this]; rfl

/-- janet_schedule_general with a value carrying `itemsOf v` -/
theorem SH_schedule {w : World} {H0 : List Nat} (g : Nat) (v : Val) (sig : Sig) (ha : A2 w) (h : SH w H0) :
    SH (scheduleGeneral w g v sig false) (H0 ++ itemsOf v) ∧ A2 (scheduleGeneral w g v sig false) := by
  obtain ⟨_, _, _, hcase⟩ := scheduleGeneral_props w g v sig
  have hgh : (scheduleGeneral w g v sig false).ghost = w.ghost := scheduleGeneral_ghost w g v sig false
  rcases hcase with ⟨_, hf, hr⟩ | ⟨_, hs, _, hoth, hr⟩
  · exact ⟨SH_mono (SH_congr hf hr (by rw [hgh]) h) (List.sublist_append_left _ _), A2_congr hf hr ha⟩
  · constructor
    · intro t
      have hR : Rv (scheduleGeneral w g v sig false) t = Rv w t := by unfold Rv; rw [hgh]
      rw [hR, hr]
      by_cases e : t = g
      · subst e
        have hold : w.runq.filter (liveT (scheduleGeneral w t v sig false).fibers t) = [] := by
          rw [List.filter_eq_nil_iff]
          intro u hu
          have := ha u hu
          simp only [liveT, hs, Bool.and_eq_true, beq_iff_eq, not_and]
          intro e1; rw [e1] at this; omega
        have hnew : Fv (scheduleGeneral w t v sig false).fibers (w.runq ++ [⟨t, v, sig, (w.fibers t).sched + 1⟩]) t = itemsOf v := by
          unfold Fv
          rw [List.filter_append, hold]
          simp [liveT, hs]
        rw [hnew]
        exact List.Sublist.append ((List.sublist_append_left _ _).trans (h t)) (List.Sublist.refl _)
      · have hsame : Fv (scheduleGeneral w g v sig false).fibers (w.runq ++ [⟨g, v, sig, (w.fibers g).sched + 1⟩]) t =
            Fv w.fibers w.runq t := by
          unfold Fv
          have hl : liveT (scheduleGeneral w g v sig false).fibers t = liveT w.fibers t := by
            funext u; unfold liveT; rw [hoth t e]
          rw [hl, List.filter_append]
          have : (g == t) = false := by simp; exact fun e' => e e'.symm
          simp [liveT, this]
        rw [hsame]
        exact (h t).trans (List.sublist_append_left _ _)
    · intro u hu
      rw [hr] at hu
      rcases List.mem_append.mp hu with hu | hu
      · have := ha u hu
        by_cases e : u.fiber = g
        · rw [e] at this ⊢; rw [hs]; omega
        · rw [hoth _ e]; exact this
      · simp at hu; subst hu; simp [hs]

theorem fold_SH {α : Type} (act : World → α → World) (hact : ∀ u a, act u a = u ∨ ∃ g val sig, itemsOf val = [] ∧
      act u a = scheduleGeneral u g val sig false) {H0 : List Nat} :
    ∀ (l : List α) (u : World), A2 u → SH u H0 →
      SH (l.foldl act u) H0 ∧ A2 (l.foldl act u) ∧ (l.foldl act u).ghost = u.ghost := by
  intro l
  induction l with
  | nil => intro u ha h; exact ⟨h, ha, rfl⟩
  | cons a rest ih =>
    intro u ha h
    simp only [List.foldl_cons]
    rcases hact u a with e | ⟨g, val, sig, hv, e⟩
    · rw [e]; exact ih u ha h
    · rw [e]
      obtain ⟨h1, h2⟩ := SH_schedule g val sig ha h
      rw [hv, List.append_nil] at h1
      obtain ⟨i1, i2, i3⟩ := ih _ h2 h1
      exact ⟨i1, i2, i3.trans (scheduleGeneral_ghost u g val sig false)⟩

theorem closeWake_noItems (cfg : Cfg) (c : Nat) (b : Bool) (u : World) (p : Pending) :
    closeWake cfg c b u p = u ∨ ∃ g val sig, itemsOf val = [] ∧ closeWake cfg c b u p = scheduleGeneral u g val sig false := by
  unfold closeWake
  split
  · right
    refine ⟨p.fiber, (if (if b = true then p.mode = Mode.choiceWrite else p.mode = Mode.choiceRead) then Val.close c else Val.nil),
      .ok, ?_, rfl⟩
    split <;> (split <;> rfl)
  · left; rfl

theorem fireTimer_noItems (u : World) (t : Timer) :
    fireTimer u t = u ∨ ∃ g val sig, itemsOf val = [] ∧ fireTimer u t = scheduleGeneral u g val sig false := by
  unfold fireTimer
  split
  · split
    · right; exact ⟨_, _, _, rfl, rfl⟩
    · left; rfl
  · split
    · split
      · right; exact ⟨_, _, _, rfl, rfl⟩
      · right; exact ⟨_, _, _, rfl, rfl⟩
    · left; rfl

/-! ### the run phase -/

theorem loopRunTask_received (cfg : Cfg) (w : World) (t : Task) (rest : List Task) (hq : w.runq = t :: rest) :
    ∃ d, (loopRunTask cfg w).1.ghost.received = w.ghost.received ++ d ∧ (loopRunTask cfg w).1.ghost.handed = w.ghost.handed ∧
      (d = [] ∨ (t.expected = (w.fibers t.fiber).sched ∧ d = receivedOf t.fiber t.value)) := by
  unfold loopRunTask
  rw [hq]
  simp only []
  by_cases hstale : t.expected ≠ (w.fibers t.fiber).sched
  · exact ⟨[], by simp [hstale, setFiber], by simp [hstale, setFiber], Or.inl rfl⟩
  · have hlive : t.expected = (w.fibers t.fiber).sched := by simpa using hstale
    by_cases hres : fiberCanResume (w.fibers t.fiber) = true
    · cases hsig : t.sig with
      | ok => exact ⟨receivedOf t.fiber t.value, by simp [hlive, hres, hsig, setFiber], by simp [hlive, hres, hsig, setFiber], Or.inr ⟨hlive, rfl⟩⟩
      | error => exact ⟨[], by simp [hlive, hres, hsig, setFiber], by simp [hlive, hres, hsig, setFiber], Or.inl rfl⟩
    · have hres' : fiberCanResume (w.fibers t.fiber) = false := by simpa using hres
      exact ⟨[], by simp [hlive, hres', setFiber], by simp [hlive, hres', setFiber], Or.inl rfl⟩

theorem Rv_append (w w' : World) (d : List (Nat × Nat)) (h : w'.ghost.received = w.ghost.received ++ d) (t : Nat) :
    Rv w' t = Rv w t ++ (d.filter (fun p => p.1 == t)).map (·.2) := by
  unfold Rv; rw [h, List.filter_append, List.map_append]

theorem filter_receivedOf (g t : Nat) (v : Val) :
    ((receivedOf g v).filter (fun p => p.1 == t)).map (·.2) = if g = t then itemsOf v else [] := by
  rw [receivedOf_eq]
  by_cases e : g = t
  · subst e; simp [List.filter_map, Function.comp_def]
  · simp [e, List.filter_map, Function.comp_def]

theorem SH_runTask {cfg : Cfg} {w : World} {H0 : List Nat} (ha : A2 w) (h : SH w H0) :
    SH (loopRunTask cfg w).1 H0 ∧ A2 (loopRunTask cfg w).1 := by
  rcases loopRunTask_cases cfg w with ⟨_, he⟩ | ⟨t, rest, hq, hr, _, _, hoth, hs, _, _⟩
  · rw [he]; exact ⟨h, ha⟩
  · obtain ⟨d, hd, _, hdc⟩ := loopRunTask_received cfg w t rest hq
    have hmono : ∀ i, (w.fibers i).sched ≤ ((loopRunTask cfg w).1.fibers i).sched := by
      intro i; by_cases e : i = t.fiber
      · rw [e, hs]; split <;> omega
      · rw [hoth i e]; exact Nat.le_refl _
    constructor
    · intro tt
      rw [Rv_append w _ d hd tt, hr]
      have hw := h tt
      rw [hq] at hw
      by_cases e : tt = t.fiber
      · subst e
        -- live tasks of t.fiber among `rest`: the same as before, or none after the bump
        have hF : Fv (loopRunTask cfg w).1.fibers rest t.fiber <+ Fv w.fibers rest t.fiber := by
          by_cases hb : t.expected = (w.fibers t.fiber).sched ∧ cfg.resumeBumps = true
          · rw [if_pos hb] at hs
            have : rest.filter (liveT (loopRunTask cfg w).1.fibers t.fiber) = [] := by
              rw [List.filter_eq_nil_iff]
              intro u hu
              have := ha u (by rw [hq]; exact List.mem_cons_of_mem _ hu)
              simp only [liveT, hs, Bool.and_eq_true, beq_iff_eq, not_and]
              intro e1; rw [e1] at this; omega
            unfold Fv; rw [this]; exact List.nil_sublist _
          · rw [if_neg hb] at hs
            have hl : liveT (loopRunTask cfg w).1.fibers t.fiber = liveT w.fibers t.fiber := by
              funext u; unfold liveT; rw [hs]
            unfold Fv; rw [hl]; exact List.Sublist.refl _
        have hcons : Fv w.fibers (t :: rest) t.fiber =
            (if liveT w.fibers t.fiber t = true then itemsOf t.value else []) ++ Fv w.fibers rest t.fiber := by
          unfold Fv
          rw [List.filter_cons]
          split <;> simp
        rw [hcons] at hw
        refine List.Sublist.trans ?_ hw
        rw [List.append_assoc]
        refine List.Sublist.append (List.Sublist.refl _) (List.Sublist.append ?_ hF)
        rcases hdc with hd0 | ⟨hl, hd1⟩
        · rw [hd0]; exact List.nil_sublist _
        · rw [hd1, filter_receivedOf]
          simp only [↓reduceIte]
          have : liveT w.fibers t.fiber t = true := by simp [liveT, hl]
          rw [if_pos this]; exact List.Sublist.refl _
      · have hl : liveT (loopRunTask cfg w).1.fibers tt = liveT w.fibers tt := by
          funext u; unfold liveT; rw [hoth tt e]
        have hF : Fv w.fibers (t :: rest) tt = Fv w.fibers rest tt := by
          unfold Fv
          rw [List.filter_cons]
          have : liveT w.fibers tt t = false := by
            simp only [liveT, Bool.and_eq_false_iff, beq_eq_false_iff_ne]; left; exact fun e' => e e'.symm
          rw [this]; rfl
        have hdn : (d.filter (fun p => p.1 == tt)).map (·.2) = [] := by
          rcases hdc with hd0 | ⟨_, hd1⟩
          · rw [hd0]; rfl
          · rw [hd1, filter_receivedOf, if_neg (fun e' => e e'.symm)]
        rw [hdn, List.append_nil]
        unfold Fv at hF ⊢
        rw [hl, ← hF]; exact hw
    · intro u hu
      rw [hr] at hu
      exact Nat.le_trans (ha u (by rw [hq]; exact List.mem_cons_of_mem _ hu)) (hmono u.fiber)

/-! ### every transition -/

/-- a change that keeps every sched_id, the run queue and the receive log -/
theorem SH_same {w w' : World} {H0 : List Nat} (hs : ∀ i, (w'.fibers i).sched = (w.fibers i).sched) (hr : w'.runq = w.runq)
    (hg : w'.ghost.received = w.ghost.received) (h : SH w H0) : SH w' H0 := by
  intro t
  have hl : liveT w'.fibers t = liveT w.fibers t := by funext u; unfold liveT; rw [hs]
  unfold Rv Fv; rw [hl, hr, hg]; exact h t

theorem awaitFiber_SH {w : World} {H0 : List Nat} (f : Nat) (h : SH w H0) : SH (awaitFiber w f) H0 :=
  SH_same (w := w) (fun i => by by_cases e : i = f <;> simp [awaitFiber, setFiber, e]) rfl rfl h

theorem finishFiber_SH {w : World} {H0 : List Nat} (f : Nat) (e : Bool) (h : SH w H0) : SH (finishFiber w f e) H0 :=
  SH_same (w := w) (fun i => by by_cases e' : i = f <;> simp [finishFiber, setFiber, e']) rfl rfl h

theorem chanPush_received (cfg : Cfg) (w : World) (f c x mode : Nat) (w' : World) (b : Bool)
    (h : chanPush cfg w f c x mode = .ok w' b) : w'.ghost.received = w.ghost.received := by
  unfold chanPush at h
  by_cases hcl : (w.chans c).closed = true
  · simp [hcl] at h
  · simp only [hcl] at h
    simp only [addPushed] at h
    rcases hq : popLiveReader w.fibers (w.chans c).readPending with ⟨r, rp⟩
    rw [hq] at h
    cases r with
    | none =>
      simp only [] at h
      by_cases hb : pushBlocks cfg ((w.chans c).items.length + 1) (w.chans c).limit = true
      · by_cases hm : mode = 2
        · simp [hb, hm] at h; rw [← h.1]; rfl
        · simp [hb, hm] at h; rw [← h.1]; rfl
      · simp [hb] at h; rw [← h.1]; rfl
    | some r =>
      simp at h
      rw [← h.1, schedule_ghost]; rfl

/-- push_with_lock: the receive order invariant, with the hand-out log of the result -/
theorem chanPush_SH {cfg : Cfg} (hs : cfg.pushBlocksStrict = true) {w : World} {f c x mode : Nat} {w' : World} {b : Bool}
    (h : chanPush cfg w f c x mode = .ok w' b) (ha : A2 w) (hS : SH w (Hv w)) : SH w' (Hv w') ∧ A2 w' := by
  have hrec := chanPush_received cfg w f c x mode w' b h
  obtain ⟨_, _, _, hcase⟩ := chanPush_cases cfg hs w f c x mode w' b h
  rcases hcase with ⟨_, hfib, hrq, hh, _⟩ | ⟨r, rest, _, _, hh, hw'⟩
  · have : Hv w' = Hv w := by unfold Hv; rw [hh]
    rw [this]
    exact ⟨SH_same (fun i => by rw [hfib]) hrq hrec hS, A2_congr hfib hrq ha⟩
  · have hHv : Hv w' = Hv w ++ [x] := by unfold Hv; rw [hh]; simp
    rw [hHv, hw']
    let w1 := addHanded (setChan (addPushed w c x) c { (w.chans c) with readPending := rest }) c x
    have h1 : SH w1 (Hv w) := SH_same (w := w) (fun _ => rfl) rfl rfl hS
    have hv : itemsOf (if r.mode = .choiceRead then Val.take c x else Val.num x) = [x] := by split <;> rfl
    have := SH_schedule (w := w1) r.fiber (if r.mode = .choiceRead then Val.take c x else Val.num x) .ok
      (A2_congr (w := w) (w' := w1) rfl rfl ha) h1
    rw [hv] at this
    exact this

theorem Hv_addHanded (w : World) (c x : Nat) (ch : Chan) : Hv (setChan (addHanded w c x) c ch) = Hv w ++ [x] := by
  simp [Hv, setChan, addHanded]

/-- pop_with_lock that returns an item (`got`): afterwards the invariant holds with the hand-out log of `w` - the item `x`
    handed out last is not yet received nor in flight - or nothing was handed (closed); `blocked`: nothing changes -/
theorem chanPop_SH {cfg : Cfg} (hk : cfg.popSkipsStaleWriter = true) {w : World} {f c mode : Nat} (hmode : mode ≠ 2)
    (ha : A2 w) (hS : SH w (Hv w)) :
    (∀ w' r, chanPop cfg w f c mode = .got w' r →
      SH w' (Hv w) ∧ A2 w' ∧ Hv w' = Hv w ++ (match r with | some x => [x] | none => [])) ∧
    (∀ w', chanPop cfg w f c mode = .blocked w' → SH w' (Hv w') ∧ A2 w') := by
  rcases chanPop_cases cfg hk w f c mode hmode with ⟨_, he⟩ | ⟨_, _, he⟩ | ⟨x, rest, o, wp', _, _, _, he⟩
  · rw [he]
    refine ⟨?_, fun w' h => by cases h⟩
    intro w' r h; injection h with h1 h2; subst h1; subst h2
    exact ⟨hS, ha, by simp⟩
  · rw [he]
    refine ⟨fun w' r h => (by cases h), ?_⟩
    intro w' h; injection h with h1; subst h1
    exact ⟨SH_same (w := w) (fun _ => rfl) rfl rfl hS, A2_congr (w := w) rfl rfl ha⟩
  · rw [he]
    refine ⟨?_, fun w' h => by cases h⟩
    intro w' r h; injection h with h1 h2; subst h2
    let w1 := setChan (addHanded w c x) c { (w.chans c) with items := rest, writePending := wp' }
    have h0 : SH w1 (Hv w) := SH_same (w := w) (fun _ => rfl) rfl rfl hS
    cases o with
    | none =>
      simp only [] at h1; subst h1
      exact ⟨h0, A2_congr (w := w) (w' := w1) rfl rfl ha, Hv_addHanded w c x _⟩
    | some p =>
      simp only [] at h1; subst h1
      have hv : itemsOf (if p.mode = .choiceWrite then Val.give c else Val.chan c) = [] := by split <;> rfl
      have := SH_schedule (w := w1) p.fiber (if p.mode = .choiceWrite then Val.give c else Val.chan c) .ok
        (A2_congr (w := w) (w' := w1) rfl rfl ha) h0
      rw [hv, List.append_nil] at this
      refine ⟨this.1, this.2, ?_⟩
      unfold schedule Hv; rw [scheduleGeneral_ghost]; exact Hv_addHanded w c x _

/-- the running fiber receives `x` at once (take clause of a select that was ready) -/
theorem SH_receive_now {w1 : World} {H0 : List Nat} (f x : Nat) (h : SH w1 H0) (hF : Fv w1.fibers w1.runq f = []) :
    SH { w1 with ghost := { w1.ghost with received := w1.ghost.received ++ [(f, x)] } } (H0 ++ [x]) := by
  intro t
  have hR := Rv_append w1 { w1 with ghost := { w1.ghost with received := w1.ghost.received ++ [(f, x)] } } [(f, x)] rfl t
  rw [hR]
  show (Rv w1 t ++ _ ++ Fv w1.fibers w1.runq t) <+ _
  by_cases e : f = t
  · subst e
    rw [hF, List.append_nil]
    have h1 : Rv w1 f <+ H0 := (List.sublist_append_left _ _).trans (h f)
    simpa using List.Sublist.append h1 (List.Sublist.refl [x])
  · have : (List.filter (fun p : Nat × Nat => p.1 == t) [(f, x)]).map (·.2) = [] := by simp [e]
    rw [this, List.append_nil]
    exact (h t).trans (List.sublist_append_left _ _)

/-- first loop of select -/
theorem choiceImmediate_SH {cfg : Cfg} (hg : CfgGood cfg) (f : Nat) (cls : List Clause) :
    ∀ (w w' : World) (v : Val), choiceImmediate cfg w f cls = some (w', v) → A2 w → SH w (Hv w) →
      Fv w.fibers w.runq f = [] → WM w → w.current = some f → WQuiet w f → SH w' (Hv w') := by
  induction cls with
  | nil => intro w w' v h; simp [choiceImmediate] at h
  | cons cl rest ih =>
    intro w w' v h ha hS hF hm hcur hq
    cases cl with
    | give c x =>
      unfold choiceImmediate at h
      by_cases hcl : (w.chans c).closed = true
      · simp [hcl] at h; rw [← h.1]; exact hS
      · simp only [hcl] at h
        by_cases hr : (choiceReady cfg (w.chans c).items.length (w.chans c).limit
            || (cfg.choiceGiveSeesReader && hasLiveReader w.fibers (w.chans c).readPending)) = true
        · simp only [hr] at h
          cases hp : chanPush cfg w f c x 1 with
          | closedErr => rw [hp] at h; simp at h; rw [← h.1]; exact hS
          | ok w1 b => rw [hp] at h; simp at h; rw [← h.1]; exact (chanPush_SH hg.strict hp ha hS).1
        · simp only [hr] at h
          exact ih w w' v (by simpa using h) ha hS hF hm hcur hq
    | take c =>
      unfold choiceImmediate at h
      by_cases hcl : (w.chans c).closed = true
      · simp [hcl] at h; rw [← h.1]; exact hS
      · simp only [hcl] at h
        by_cases hi : (w.chans c).items = []
        · simp [hi] at h; exact ih w w' v h ha hS hF hm hcur hq
        · simp [hi] at h
          have hps := chanPop_SH hg.skips (w := w) (f := f) (c := c) (mode := 1) (by decide) ha hS
          have hnc : ¬ liveIn w.fibers w.ent f c := fun hh => hq.2.2 ⟨c, hh⟩
          have hpw := chanPop_W hg.skips (mode := 1) hm hcur hq.1 hq.2.1 hnc (by decide)
          cases hp : chanPop cfg w f c 1 with
          | blocked w1 => rw [hp] at h; simp at h; rw [← h.1]; exact (hps.2 w1 hp).1
          | got w1 r =>
            rw [hp] at h
            obtain ⟨h1, _, h3⟩ := hps.1 w1 r hp
            obtain ⟨_, _, hlt, _⟩ := hpw.1 w1 r hp
            cases r with
            | none => simp at h; rw [← h.1]; simp at h3; rw [h3]; exact h1
            | some x =>
              simp at h; rw [← h.1]
              have := SH_receive_now f x h1 (Fv_nil_of_LT hlt)
              simp only [] at h3
              have hHv : Hv { w1 with ghost := { w1.ghost with received := w1.ghost.received ++ [(f, x)] } } = Hv w ++ [x] := h3
              rw [hHv]; exact this

/-- second loop of select after the first fell through, no channel named twice: nothing is handed out or received -/
theorem choiceRegister_ghost {cfg : Cfg} (hg : CfgGood cfg) (f : Nat) (cls : List Clause) :
    ∀ (w : World), (∀ cl ∈ cls, Cond cfg w cl) → (cls.map Clause.chan).Nodup →
      (choiceRegister cfg w f cls).ghost.handed = w.ghost.handed ∧
      (choiceRegister cfg w f cls).ghost.received = w.ghost.received := by
  induction cls with
  | nil => intro w _ _; exact ⟨rfl, rfl⟩
  | cons cl rest ih =>
    intro w hcond hnd
    have hnd2 := List.nodup_cons.mp (show (cl.chan :: rest.map Clause.chan).Nodup from hnd)
    have hnotin : ∀ cl' ∈ rest, cl'.chan ≠ cl.chan := by
      intro cl' hcl' e
      exact hnd2.1 (by rw [← e]; exact List.mem_map_of_mem (f := Clause.chan) hcl')
    have hc0 := hcond cl (by simp)
    have step : ∃ w1, choiceRegister cfg w f (cl :: rest) = choiceRegister cfg w1 f rest ∧ w1.fibers = w.fibers ∧
        (∀ c', c' ≠ cl.chan → w1.chans c' = w.chans c') ∧ w1.ghost.handed = w.ghost.handed ∧
        w1.ghost.received = w.ghost.received := by
      cases cl with
      | give c x =>
        simp only [Cond, Clause.chan] at hc0 ⊢
        obtain ⟨w1, b, hp⟩ := chanPush_open (cfg := cfg) w f c x 1 hc0.1
        obtain ⟨_, _, hoth, hcase⟩ := chanPush_cases cfg hg.strict w f c x 1 w1 b hp
        rcases hcase with ⟨_, hfib, _, hh, _⟩ | ⟨r, rest', hq, _⟩
        · exact ⟨w1, by simp [choiceRegister, hp], hfib, hoth, hh, chanPush_received cfg w f c x 1 w1 b hp⟩
        · have := (popLiveReader_spec w.fibers _ _ _ hq).2.2 r rfl
          rw [hc0.2.2] at this; cases this.2.2
      | take c =>
        simp only [Cond, Clause.chan] at hc0 ⊢
        rcases chanPop_cases cfg hg.skips w f c 1 (by decide) with ⟨hcl, _⟩ | ⟨_, _, he⟩ | ⟨x, rest', o, wp', _, hit, _⟩
        · rw [hc0.1] at hcl; cases hcl
        · exact ⟨setChan w c { (w.chans c) with readPending := (w.chans c).readPending ++
              [Pending.mk f (w.fibers f).sched (if (1 : Nat) = 0 then .read else .choiceRead)] },
            by simp [choiceRegister, he], rfl, fun c' hc' => by simp [setChan, hc'], rfl, rfl⟩
        · rw [hc0.2] at hit; cases hit
    obtain ⟨w1, heq, hfib, hoth, hh, hrc⟩ := step
    rw [heq]
    have hcond1 : ∀ cl' ∈ rest, Cond cfg w1 cl' := by
      intro cl' hcl'
      exact Cond_congr cl' hfib (hoth _ (hnotin cl' hcl')) (hcond cl' (List.mem_cons_of_mem _ hcl'))
    obtain ⟨i1, i2⟩ := ih w1 hcond1 hnd2.2
    exact ⟨i1.trans hh, i2.trans hrc⟩

theorem timers_SH (w : World) (clk : Nat) (tm due : List Timer) (ha : A2 w) (hS : SH w (Hv w)) :
    SH (due.foldl fireTimer { w with clock := clk, timers := tm })
      (Hv (due.foldl fireTimer { w with clock := clk, timers := tm })) := by
  let w0 : World := { w with clock := clk, timers := tm }
  have h0 : SH w0 (Hv w) := SH_same (w := w) (fun _ => rfl) rfl rfl hS
  obtain ⟨f1, _, f3⟩ := fold_SH fireTimer fireTimer_noItems due w0 (A2_congr (w := w) (w' := w0) rfl rfl ha) h0
  have : Hv (due.foldl fireTimer w0) = Hv w := by unfold Hv; rw [f3]
  show SH (due.foldl fireTimer w0) (Hv (due.foldl fireTimer w0))
  rw [this]; exact f1

theorem A2_of_WM {w : World} (hm : WM w) : A2 w := hm.a2

/-- **every transition keeps the receive-order invariant** -/
theorem step_SH {cfg : Cfg} (hg : CfgGood cfg) (w : World) (a : Action) (hns : a.noSelfMatch) (hi : WInv w)
    (hS : SH w (Hv w)) : SH (step cfg w a).1 (Hv (step cfg w a).1) := by
  obtain ⟨hm, hqq⟩ := hi
  have ha : A2 w := A2_of_WM hm
  unfold step
  cases hcur : w.current with
  | none =>
    cases a with
    | runTask =>
      simp only []
      have hH : Hv (loopRunTask cfg w).1 = Hv w := by
        unfold Hv; rw [(loopRunTask_frame cfg w).handed]
      rw [hH]; exact (SH_runTask ha hS).1
    | timers =>
      simp only []
      unfold loopTimers
      exact timers_SH w _ _ _ ha hS
    | poll => exact SH_same (w := w) (fun _ => rfl) rfl rfl hS
    | scopeEnd s => exact SH_same (w := w) (fun _ => rfl) rfl rfl hS
    | supEvent c x =>
      simp only []
      unfold supPush
      cases hp : chanPush cfg w 0 c x 2 with
      | closedErr => exact hS
      | ok w1 b => exact (chanPush_SH hg.strict hp ha hS).1
    | _ => exact hS
  | some f =>
    have hq : WQuiet w f := hqq f hcur
    have hF : Fv w.fibers w.runq f = [] := Fv_nil_of_LT hq.1
    cases a with
    | runTask => exact hS
    | timers => exact hS
    | poll => exact hS
    | supEvent c x => exact hS
    | scopeEnd s => exact SH_same (w := w) (fun _ => rfl) rfl rfl hS
    | go g =>
      simp only []
      split
      · have := (SH_schedule g .nil .ok ha hS).1
        simp only [itemsOf, List.append_nil] at this
        unfold schedule Hv; rw [scheduleGeneral_ghost]; exact this
      · exact hS
    | cancel g =>
      simp only []
      split
      · exact hS
      · have := (SH_schedule g .errCancel .error ha hS).1
        simp only [itemsOf, List.append_nil] at this
        unfold cancelFiber Hv; rw [scheduleGeneral_ghost]; exact this
    | deadline s ms => exact SH_same (w := w) (fun _ => rfl) rfl rfl hS
    | sleep ms => exact awaitFiber_SH f (SH_same (w := w) (fun _ => rfl) rfl rfl hS)
    | finish e => exact finishFiber_SH f e hS
    | close c =>
      simp only []
      unfold chanClose
      by_cases hcl : (w.chans c).closed = true
      · simp [hcl]; exact hS
      · simp only [hcl, Bool.false_eq_true, ↓reduceIte]
        let w0 := setChan w c { (w.chans c) with closed := true, readPending := [], writePending := [] }
        have h0 : SH w0 (Hv w) := SH_same (w := w) (fun _ => rfl) rfl rfl hS
        obtain ⟨f1, f2, f3⟩ := fold_SH (closeWake cfg c true) (closeWake_noItems cfg c true) (w.chans c).writePending w0
          (A2_congr (w := w) (w' := w0) rfl rfl ha) h0
        obtain ⟨g1, _, g3⟩ := fold_SH (closeWake cfg c false) (closeWake_noItems cfg c false) (w.chans c).readPending _ f2 f1
        have : Hv (List.foldl (closeWake cfg c false) (List.foldl (closeWake cfg c true) w0
            (w.chans c).writePending) (w.chans c).readPending) = Hv w := by
          unfold Hv; rw [g3, f3]; rfl
        show SH (List.foldl (closeWake cfg c false) (List.foldl (closeWake cfg c true) w0
            (w.chans c).writePending) (w.chans c).readPending) (Hv (List.foldl (closeWake cfg c false)
            (List.foldl (closeWake cfg c true) w0 (w.chans c).writePending) (w.chans c).readPending))
        rw [this]; exact g1
    | give c x =>
      simp only []
      cases hp : chanPush cfg w f c x 0 with
      | closedErr => exact finishFiber_SH f true hS
      | ok w1 b =>
        have h1 := (chanPush_SH hg.strict hp ha hS).1
        cases b with
        | true => exact awaitFiber_SH f h1
        | false => exact h1
    | take c =>
      simp only []
      have hps := chanPop_SH hg.skips (w := w) (f := f) (c := c) (mode := 0) (by decide) ha hS
      cases hp : chanPop cfg w f c 0 with
      | blocked w1 => exact awaitFiber_SH f (hps.2 w1 hp).1
      | got w1 r =>
        obtain ⟨h1, h2, h3⟩ := hps.1 w1 r hp
        cases r with
        | none =>
          simp only []
          have := (SH_schedule f .nil .ok h2 h1).1
          simp only [itemsOf, List.append_nil] at this
          simp only [List.append_nil] at h3
          have hH : Hv (schedule w1 f .nil) = Hv w1 := by unfold schedule Hv; rw [scheduleGeneral_ghost]
          show SH (awaitFiber (schedule w1 f .nil) f) (Hv (schedule w1 f .nil))
          apply awaitFiber_SH
          rw [hH, h3]; exact this
        | some x =>
          simp only []
          have := (SH_schedule f (.num x) .ok h2 h1).1
          simp only [itemsOf] at this
          simp only [] at h3
          have hH : Hv (schedule w1 f (.num x)) = Hv w1 := by unfold schedule Hv; rw [scheduleGeneral_ghost]
          show SH (awaitFiber (schedule w1 f (.num x)) f) (Hv (schedule w1 f (.num x)))
          apply awaitFiber_SH
          rw [hH, h3]; exact this
    | select cls =>
      cases cls with
      | nil => exact hS
      | cons cl0 cls0 =>
        simp only []
        have hnd : ((cl0 :: cls0).map Clause.chan).Nodup := hns
        generalize cl0 :: cls0 = cls at hnd
        cases hci : choiceImmediate cfg w f cls with
        | some r => exact choiceImmediate_SH hg f cls w r.1 r.2 hci ha hS hF hm hcur hq
        | none =>
          have hcond := choiceImmediate_none hg w f cls hci
          obtain ⟨_, hfib, hrq, _, _, _⟩ := choiceRegister_Evo hg f cls w hcond hnd
          obtain ⟨gh, gr⟩ := choiceRegister_ghost hg f cls w hcond hnd
          have : Hv (choiceRegister cfg w f cls) = Hv w := by unfold Hv; rw [gh]
          show SH (awaitFiber (choiceRegister cfg w f cls) f) (Hv (choiceRegister cfg w f cls))
          apply awaitFiber_SH
          rw [this]
          exact SH_same (w := w) (fun i => by rw [hfib]) hrq gr hS

theorem run_SH {cfg : Cfg} (hg : CfgGood cfg) (as : List Action) :
    ∀ w : World, (∀ a ∈ as, a.noSelfMatch) → WInv w → SH w (Hv w) → SH (run cfg w as) (Hv (run cfg w as)) := by
  induction as with
  | nil => intro w _ _ h; exact h
  | cons a rest ih =>
    intro w hns hi h
    unfold run
    simp only [List.foldl_cons]
    exact ih _ (fun b hb => hns b (List.mem_cons_of_mem _ hb)) (step_W hg w a (hns a (by simp)) hi)
      (step_SH hg w a (hns a (by simp)) hi h)

theorem start_SH (limits : Nat → Nat) : SH (World.start limits) (Hv (World.start limits)) := by
  intro t
  have hg : (World.start limits).ghost = (World.init limits).ghost := scheduleGeneral_ghost _ _ _ _ _
  obtain ⟨_, _, _, hcase⟩ := scheduleGeneral_props (World.init limits) 0 .nil .ok
  have hr : Rv (World.start limits) t = [] := by unfold Rv; rw [hg]; rfl
  rw [hr, List.nil_append]
  unfold World.start schedule
  rcases hcase with ⟨_, _, hrq⟩ | ⟨_, _, _, _, hrq⟩
  · rw [hrq]; simp [Fv, World.init]
  · rw [hrq]; simp only [World.init, List.nil_append, Fv]
    rw [List.filter_cons]; split <;> simp [itemsOf]

end JanetModel.Ev
