/- Deterministic scheduler over `Ev.step`: runs a program (a list of channel operations per fiber) the way
   `janet_loop` would, and writes the same event log as harness/C06/chanrun.c.  CORE LEAN ONLY.
   Every state change goes through `Ev.step`, so the theorems over arbitrary action lists cover every run made here. -/
import JanetModel.Ev.Model
import JanetModel.Ev.Refine
namespace JanetModel.Ev

inductive Op where
  | give (c x : Nat)
  | take (c : Nat)
  | select (cls : List Clause)
  | rselect (cls : List Clause)
  | close (c : Nat)
  | sleep (ms : Nat)
  | cancel (g : Nat)
  /-- `(ev/with-deadline ms/1000 <the next n operations>)` -/
  | deadline (ms n : Nat)
  deriving Repr

structure Prog where
  limits : List Nat
  fibers : List (List Op)   -- fiber 0 is the main fiber: it first spawns 1..n-1 in order, then runs its own ops
  rng : List Nat            -- outputs of janet_rng_u32(&janet_vm.ev_rng), in order
  sups : List (Option Nat) := []   -- per fiber: the supervisor channel given to ev/go
  clockStart : Nat := 0     -- virtual clock of the harness: value before the first read, and step per read
  clockStep : Nat := 1

/-! ### canonical text (identical to the harness) -/

def showVal : Val → String
  | .nil => "nil"
  | .num n => toString n
  | .chan c => s!"ch{c}"
  | .give c => s!"give:{c}"
  | .take c x => s!"take:{c}:{x}"
  | .close c => s!"close:{c}"
  | .errClosed => "err-closed"
  | .errCancel => "err-cancel"
  | .errDeadline => "err-deadline"
  | .errTimeout => "err-timeout"

def showMode : Mode → String
  | .read => "R" | .write => "W" | .choiceRead => "r" | .choiceWrite => "w"

def showPending (p : Pending) : String := s!"{p.fiber}.{p.sched}{showMode p.mode}"

def commaSep (xs : List String) : String := String.intercalate "," xs

def showTask (t : Task) : String :=
  s!"{t.fiber}:{showVal t.value}:{match t.sig with | .ok => "ok" | .error => "sig"}:{t.expected}"

def showTimer (w : World) (t : Timer) : String :=
  s!"{t.fiber}.{t.sched}@{t.when}" ++ (match t.curr with | some s => if w.scopes s then "+" else "-" | none => "")
    ++ (if t.isError then "!" else "")

def showState (w : World) (nch nfib : Nat) (rings : Nat → RingQ Nat) : String :=
  let chans := (List.range nch).map fun c =>
    let ch := w.chans c
    let g := rings c
    s!"|c{c} i={commaSep (ch.items.map toString)} r={commaSep (ch.readPending.map showPending)} w={commaSep (ch.writePending.map showPending)} X={if ch.closed then 1 else 0} n={chanCount w c}/{if chanFull w c then 1 else 0}/{chanCapacity w c} g={g.head}/{g.tail}/{g.cap}"
  String.join chans ++ s!"|q={commaSep (w.runq.map showTask)}|t={commaSep (w.timers.map (showTimer w))}|s={commaSep ((List.range nfib).map fun f => toString (w.fibers f).sched)}"

def showStatus (fb : Fiber) (err : Val) : String :=
  match fb.status with
  | .new => "new" | .pending => "suspended" | .alive => "alive" | .dead => "dead" | .error => "error:" ++ showVal err

/-! ### fisher_yates_args -/

def swapList (xs : List Clause) (i j : Nat) : List Clause :=
  match xs[i]?, xs[j]? with
  | some a, some b => (xs.set i b).set j a
  | _, _ => xs

/-- `for (i = argc; i > 1; i--) { swap_index = rng % i; swap(argv[swap_index], argv[i-1]) }` -/
def fisherYates : Nat → List Clause → List Nat → List Clause × List Nat
  | 0, xs, rs => (xs, rs)
  | 1, xs, rs => (xs, rs)
  | i + 1, xs, rs =>
    match rs with
    | [] => (xs, [])
    | r :: rs' => fisherYates i (swapList xs (r % (i + 1)) i) rs'

/-! ### scheduler -/

structure Exec where
  w : World
  cfg : Cfg
  prog : Prog
  pc : Nat → Nat := fun _ => 0
  waiting : Nat → Option Nat := fun _ => none
  rng : List Nat
  spawned : Bool := false
  /-- open ev/with-deadline scopes per fiber: (scope id, index of the first operation after the body) -/
  scopes : Nat → List (Nat × Nat) := fun _ => []
  /-- the error a fiber died with -/
  errs : Nat → Val := fun _ => .errClosed
  log : String := ""
  /-- actions performed, newest first (lets tests replay the run through `Ev.run`) -/
  acts : List Action := []
  /-- janet_panic outside any fiber (supervisor event into a closed channel, source without the guard): the thread ended -/
  aborted : Bool := false
  /-- JANET_MAX_Q_CAPACITY -/
  maxQ : Nat := 0x7FFFFFF
  /-- `channel->items` of every channel as a JanetQueue RING (`Ev/Queue.lean`): obtained by replaying the item-queue
      calls of every step (`stepOps`, `Ev/Refine.lean`) with `janet_q_push` / `janet_q_pop`; the log prints
      head / tail / capacity next to the item list, the harness prints the real channel's -/
  rings : Nat → RingQ Nat := fun _ => RingQ.init 0

def Exec.nch (e : Exec) : Nat := e.prog.limits.length
def Exec.nfib (e : Exec) : Nat := e.prog.fibers.length

def Exec.doStep (e : Exec) (a : Action) : Exec × Outcome :=
  let (w, o) := step e.cfg e.w a
  ({ e with w := w, acts := a :: e.acts, rings := applyRings e.maxQ e.rings (stepOps e.cfg e.w a) }, o)

def Exec.say (e : Exec) (s : String) : Exec := { e with log := e.log ++ s }

def setNat {α : Type} (m : Nat → α) (k : Nat) (v : α) : Nat → α := fun i => if i = k then v else m i

/-- the bodies ending at operation index `i` of fiber `f` are done: their coroutines are dead -/
def Exec.closeScopes (e : Exec) (f i : Nat) (all : Bool) : Exec :=
  let (done, open_) := (e.scopes f).partition (fun s => all || s.2 ≤ i)
  let e := done.foldl (fun e s => (e.doStep (.scopeEnd s.1)).1) e
  { e with scopes := setNat e.scopes f open_ }

/-- the value the harness prints for the supervisor event `[:ok fiber nil]` / `[:error fiber nil]` of fiber `f` -/
def supEventId (f : Nat) (err : Bool) : Nat := 90000 + 10 * f + (if err then 1 else 0)

/-- run phase of janet_loop1 after janet_continue_signal returned OK or ERROR for a fiber that has a supervisor:
    `janet_channel_push(chan, make_supervisor_event(..), 2)`.  Closed channel: skipped by a source with the guard,
    otherwise the push panics outside any fiber and the thread ends (`aborted`). -/
def Exec.supervise (e : Exec) (f : Nat) (err : Bool) : Exec :=
  match (e.prog.sups.getD f none) with
  | none => e
  | some c =>
    if (e.w.chans c).closed && !e.cfg.supervisorSkipsClosed then { e with aborted := true }
    else (e.doStep (.supEvent c (supEventId f err))).1

/-- the fiber's code raised `v`: every open body coroutine is finished with it, then the task itself -/
def Exec.die (e : Exec) (f : Nat) (v : Val) : Exec :=
  let e := e.closeScopes f 0 true
  let e := (e.doStep (.finish true)).1
  ({ e with errs := setNat e.errs f v }).supervise f true

/-- run fiber `f` (the current root fiber) until it suspends or finishes -/
def Exec.runFiber (e : Exec) (f : Nat) : Nat → Exec
  | 0 => e
  | fuel + 1 =>
    let ops := e.prog.fibers.getD f []
    let i := e.pc f
    let e := e.closeScopes f i false
    match ops[i]? with
    | none => ((e.doStep (.finish false)).1).supervise f false
    | some op =>
      let e := e.say s!";B {f} {i}{showState e.w e.nch e.nfib e.rings}"
      let e := { e with pc := setNat e.pc f (i + 1) }
      match op with
      | .deadline ms n =>
        let sid := f * 100 + i
        let e := (e.doStep (.deadline sid ms)).1
        ({ e with scopes := setNat e.scopes f ((sid, i + 1 + n) :: e.scopes f) }).runFiber f fuel
      | _ =>
      let (act, e) : Action × Exec :=
        match op with
        | .give c x => (.give c x, e)
        | .take c => (.take c, e)
        | .select cls => (.select cls, e)
        | .rselect cls =>
          let (cls', rng') := fisherYates cls.length cls e.rng
          (.select cls', { e with rng := rng' })
        | .close c => (.close c, e)
        | .sleep ms => (.sleep ms, e)
        | .cancel g => (.cancel g, e)
        | .deadline _ _ => (.runTask, e)
      let (e, o) := e.doStep act
      match o with
      | .ret v => (e.say s!";E {f} {i} {showVal v}").runFiber f fuel
      | .await => { e with waiting := setNat e.waiting f (some i) }
      | .err v => ({ (e.closeScopes f 0 true) with errs := setNat e.errs f v }).supervise f true
      | _ => e

/-- run phase of janet_loop1: `while (spawn.head != spawn.tail)` -/
def Exec.runPhase (e : Exec) : Nat → Exec
  | 0 => e
  | fuel + 1 =>
    if e.w.runq.isEmpty || e.aborted then e
    else
      let (e, o) := e.doStep .runTask
      match o with
      | .resumed f v =>
        let e :=
          if f = 0 ∧ !e.spawned then
            -- first activation of the main fiber: spawn fibers 1..n-1 (ev/go) before its own operations
            (List.range (e.nfib - 1)).foldl (fun e k => (e.doStep (.go (k + 1))).1) { e with spawned := true }
          else e
        let e := match e.waiting f with
          | some i => { e.say s!";E {f} {i} {showVal v}" with waiting := setNat e.waiting f none }
          | none => e
        (e.runFiber f 64).runPhase fuel
      | .resumedErr f v => ({ (e.die f v) with waiting := setNat e.waiting f none }).runPhase fuel
      -- a task for a fiber that is already finished: janet_continue_signal returns an error signal for it
      | .resumedDead f => (e.supervise f true).runPhase fuel
      | _ => e.runPhase fuel

/-- `while (!janet_loop_done()) janet_loop1();` with the harness's idle detection in the poll phase -/
def Exec.loop (e : Exec) (first : Bool) : Nat → Exec × String
  | 0 => (e, "livelock")
  | fuel + 1 =>
    if loopDone e.w then (e, "ok")
    else
      let e := e.say (";L" ++ (if first then showState e.w 0 1 e.rings else showState e.w e.nch e.nfib e.rings))
      let e := (e.doStep .timers).1
      let e := e.runPhase 4096
      if e.aborted then (e, "top-level-signal") else
      let e := (e.doStep .poll).1
      -- poll phase: nothing but suspended fibers left => epoll_wait would never return
      if e.w.runq.isEmpty ∧ e.w.timers.isEmpty ∧ e.w.listeners > 0 then (e, "idle-forever")
      else e.loop false fuel

def Prog.start (cfg : Cfg) (p : Prog) (maxQ : Nat := 0x7FFFFFF) : Exec :=
  let w := { World.init (fun c => p.limits.getD c 0) with clock := p.clockStart, clockStep := p.clockStep }
  -- the harness creates the main fiber and calls janet_schedule(main, nil) from outside the loop
  let w := schedule w 0 .nil
  { w := w, cfg := cfg, prog := p, rng := p.rng, maxQ := maxQ }

def Prog.exec (cfg : Cfg) (p : Prog) (maxQ : Nat := 0x7FFFFFF) : Exec × String := (p.start cfg maxQ).loop true 5000

/-- verdict and log, as printed by the harness -/
def Prog.render (cfg : Cfg) (p : Prog) (maxQ : Nat := 0x7FFFFFF) : String :=
  let (e, verdict) := p.exec cfg maxQ
  let st := commaSep ((List.range e.nfib).map fun f => showStatus (e.w.fibers f) (e.errs f))
  s!"{verdict} {e.log};F{showState e.w e.nch e.nfib e.rings}|st={st}|lc={e.w.listeners}"

end JanetModel.Ev
