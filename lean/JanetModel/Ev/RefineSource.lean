/- C06, the simulation between the list model and the JanetQueue ring machine for WHOLE HISTORIES, on the current
   source (`currentCfg`, `maxQCapacity`, `currentMarkItems` from Gen/Ev.lean).  `runOps` is the trace of
   janet_q_push / janet_q_pop calls on `channel->items` that the channel functions make during a run (`Ev/Refine.lean`);
   the scheduler of the driver replays it on rings after every step and prints head / tail / capacity, which the harness
   compares with the real channel's ring at every log point. -/
import JanetModel.Ev.RefineLemmas
import JanetModel.Ev.MarkSource
namespace JanetModel.Props.C06
open JanetModel.Ev

/-- **items_are_ring_contents** (refinement for whole histories): for EVERY action sequence from the start state and
    every channel `c`, with `ops` the item-queue calls the run makes on `c`:
    the item list of the list model is `ops` replayed on lists (push = append, pop = drop the head); replayed on the
    ring machine from `janet_q_init` - janet_q_push with its resizes and the memmove of a wrapped segment, janet_q_pop -
    the replay keeps the representation invariant and the ring's content (`toList`, head first) IS the model's item
    list; and the ring replay can fail ("channel overflow") only after at least JANET_MAX_Q_CAPACITY calls. -/
theorem items_are_ring_contents (limits : Nat → Nat) (as : List Action) (c : Nat) :
    let w := run currentCfg (World.start limits) as
    let ops := opsOn c (runOps currentCfg (World.start limits) as)
    (w.chans c).items = replayL ops [] ∧
    (∀ q, replayR maxQCapacity ops (RingQ.init 0) = some q → q.WF ∧ q.toList = (w.chans c).items) ∧
    (replayR maxQCapacity ops (RingQ.init 0) = none → maxQCapacity ≤ ops.length) := by
  intro w ops
  have hl : (w.chans c).items = replayL ops [] := by
    have := run_tr currentCfg as (World.start limits) c
    rw [start_items] at this; exact this
  refine ⟨hl, ?_, ?_⟩
  · intro q hq
    have := replay_refines maxQCapacity ops (RingQ.init 0) init_wf q hq
    exact ⟨this.1, by rw [this.2, hl]; rfl⟩
  · intro hn
    have := replay_overflow maxQCapacity ops (RingQ.init 0) init_wf hn
    simpa [RingQ.init, RingQ.count] using this

/-- **world_items_never_dangling** (`take_never_dangling` and the channel theorems speak about ONE object): take any
    action sequence, a channel `c`, and any history `gops` of the collector machine whose ring calls are exactly the
    calls the run makes on `c` - i.e. the run's gives / takes on `c` with collections inserted ANYWHERE, each with ANY
    set of outside roots (fewer than JANET_MAX_Q_CAPACITY calls).  Then the machine's ring holds exactly the item list
    of `World` (the list `conservation`, `fifo_per_channel`, `chan_invariant` are about), every item queued in `World`
    is still allocated, everything handed out was allocated when handed out, and handed-out ++ `World` items = given. -/
theorem world_items_never_dangling (limits : Nat → Nat) (as : List Action) (c : Nat) (gops : List GcOp)
    (hg : gcProj gops = opsOn c (runOps currentCfg (World.start limits) as))
    (hn : (gcProj gops).length < maxQCapacity) :
    let w := run currentCfg (World.start limits) as
    let s := GcChan.run currentMarkItems maxQCapacity gops
    s.q.toList = (w.chans c).items ∧ (∀ x ∈ (w.chans c).items, s.live x = true) ∧
    (∀ p ∈ s.taken, p.2 = true) ∧ s.taken.map Prod.fst ++ (w.chans c).items = s.given := by
  intro w s
  have hr := items_are_ring_contents limits as c
  simp only at hr
  rw [← hg] at hr
  cases hq : replayR maxQCapacity (gcProj gops) (RingQ.init 0) with
  | none => have := hr.2.2 hq; omega
  | some q =>
    have hsq : s.q = q := gc_ring_is_replay currentMarkItems maxQCapacity gops {} q hq
    have hlist : s.q.toList = (w.chans c).items := by rw [hsq]; exact (hr.2.1 q hq).2
    have ht := take_never_dangling gops
    simp only at ht
    refine ⟨hlist, ?_, ht.1, ?_⟩
    · intro x hx; exact ht.2.1 x (by rw [hlist]; exact hx)
    · rw [← hlist]; exact ht.2.2

/-- non-vacuity: one fiber pumps a channel of capacity 3 (give 1, give 2, take, take, give 3, give 4, take, give 5):
    the run's calls replayed on the ring leave it WRAPPED (head 3, tail 1, capacity 4) with content [4, 5] - the item
    list of `World` -, and the collector machine on these calls with a root-less collection before every take hands out
    1..5 all allocated -/
def pumpActs : List Action :=
  [.timers, .runTask, .give 0 1, .give 0 2, .take 0, .runTask, .take 0, .runTask, .give 0 3, .give 0 4,
   .take 0, .runTask, .give 0 5]

example : opsOn 0 (runOps currentCfg (World.start fun _ => 3) pumpActs)
          = [.push 1, .push 2, .pop, .pop, .push 3, .push 4, .pop, .push 5] := by decide
example : ((replayR maxQCapacity (opsOn 0 (runOps currentCfg (World.start fun _ => 3) pumpActs)) (RingQ.init 0)).map
            fun q => (q.head, q.tail, q.cap, q.toList)) = some (3, 1, 4, [4, 5])
          ∧ ((run currentCfg (World.start fun _ => 3) pumpActs).chans 0).items = [4, 5] := by decide
example : gcProj [.give 1, .give 2, .collect [], .take, .collect [], .take, .give 3, .give 4, .collect [], .take, .give 5]
          = opsOn 0 (runOps currentCfg (World.start fun _ => 3) pumpActs) := by decide

/-- **driver_rings_are_world_items** (what the correspondence run compares): the scheduler of the driver keeps one ring
    per channel and after every `step` applies that step's item-queue calls to it (`runRings` = `Exec.doStep`'s
    `applyRings`); for every action sequence making fewer than JANET_MAX_Q_CAPACITY item-queue calls, that ring is
    well-formed, it is the replay of the whole trace, and its content is the item list of `World` - so the
    head / tail / capacity printed in every logged state (and found equal to the real channel's ring) belong to a ring
    whose content is the list all other C06 theorems speak about. -/
theorem driver_rings_are_world_items (limits : Nat → Nat) (as : List Action)
    (hn : (runOps currentCfg (World.start limits) as).length < maxQCapacity) (c : Nat) :
    let w := run currentCfg (World.start limits) as
    let r := runRings currentCfg maxQCapacity (World.start limits) (fun _ => RingQ.init 0) as c
    r.WF ∧ r.toList = (w.chans c).items ∧
    replayR maxQCapacity (opsOn c (runOps currentCfg (World.start limits) as)) (RingQ.init 0) = some r := by
  intro w r
  have hall : ∀ c, ∃ q, replayR maxQCapacity (opsOn c (runOps currentCfg (World.start limits) as)) (RingQ.init 0) = some q := by
    intro c'
    cases hq : replayR maxQCapacity (opsOn c' (runOps currentCfg (World.start limits) as)) (RingQ.init 0) with
    | some q => exact ⟨q, rfl⟩
    | none =>
      have h1 := (items_are_ring_contents limits as c').2.2 hq
      have h2 := opsOn_length c' (runOps currentCfg (World.start limits) as)
      omega
  have hr := runRings_replay currentCfg maxQCapacity as (World.start limits) (fun _ => RingQ.init 0) hall c
  have := (items_are_ring_contents limits as c).2.1 r hr
  exact ⟨this.1, this.2, hr⟩

example : ((runRings currentCfg maxQCapacity (World.start fun _ => 3) (fun _ => RingQ.init 0) pumpActs 0).head,
           (runRings currentCfg maxQCapacity (World.start fun _ => 3) (fun _ => RingQ.init 0) pumpActs 0).tail,
           (runRings currentCfg maxQCapacity (World.start fun _ => 3) (fun _ => RingQ.init 0) pumpActs 0).cap) = (3, 1, 4) := by
  decide

end JanetModel.Props.C06
