/- C06: proof obligations on the CURRENT ev.c (configuration regenerated into Gen/Ev.lean).  Same namespace as
   Props/C06.lean; separate module so that a tree lacking one of the tests breaks exactly these obligations. -/
import JanetModel.Props.C06
import JanetModel.Ev.Wakeup
namespace JanetModel.Props.C06
open JanetModel.Ev

/-! ## obligations on the current source -/

/-- `no_lost_wakeup`, proved part: on the three witness schedules the CURRENT source (configuration from Gen/Ev.lean)
    neither strands a fiber nor drops a task.  Fails to check on a tree that lacks any of the three tests.
    NOT proved: the invariant for all action sequences (a suspended fiber always has a task, timer or live registration
    carrying its current sched_id; a live pending reader implies `items = []`; #live pending writers ≤ count - limit)
    and its corollary `terminates_when_matchable`.  Both are checked on every explored implementation state by the
    direct oracle (failure kinds `lost-wakeup`, `waiting-reader-with-items`, `reader-and-writer-both-waiting`). -/
theorem no_lost_wakeup_partial :
    lostWakeup (run currentCfg (World.start fun _ => 0) hangActs) 0 1 = false
    ∧ (run currentCfg (World.start fun _ => 0) staleWriterActs).ghost.dropped = []
    ∧ (run currentCfg (World.start fun _ => 0) staleCloseActs).ghost.dropped = [] := by decide

/-- the current source has every test the model knows about, with the reference operators -/
theorem current_source_checks : currentCfg = Cfg.good := by decide

/-! ## invariants over ALL action sequences, for the configuration of the current source -/

theorem current_good : CfgGood currentCfg := ⟨by decide, by decide, by decide, by decide, by decide⟩

/-- **channel invariant**, every action sequence, every channel:
    * a pending reader whose sched_id is current ⇒ the channel holds no item;
    * (number of pending writers whose sched_id is current) = 0, or that number + limit ≤ number of items - in
      particular a live pending writer ⇒ count > limit, the code's own blocking condition;
    * a closed channel has no pending entries; no entry carries a sched_id from the future. -/
theorem chan_invariant (limits : Nat → Nat) (as : List Action) (c : Nat) :
    ChanOK (run currentCfg (World.start limits) as).fibers ((run currentCfg (World.start limits) as).chans c) :=
  (Ev.run_good current_good.chan as _ (Ev.start_good limits)).1 c

/-- **fifo_per_channel** (full): after every action sequence, for every channel, the values pushed into it, in push
    order, are exactly the values it has handed out, in hand-out order, followed by the values still queued. -/
theorem fifo_per_channel (limits : Nat → Nat) (as : List Action) (c : Nat) :
    let w := run currentCfg (World.start limits) as
    onChan w.ghost.pushed c = onChan w.ghost.handed c ++ (w.chans c).items :=
  (Ev.run_good current_good.chan as _ (Ev.start_good limits)).2 c

/-- **no_lost_wakeup**: after every action sequence in which no select names a channel twice,
    * every suspended fiber has a live wake-up source: a task carrying its current sched_id, or a sleep timer, or a
      registration in a channel queue (`d1`);
    * these are exclusive: a live task excludes live timers and registrations (`d3`), there is at most one live task
      (`d0`), and a fiber that is not suspended (new, running between operations, finished) has none (`d2`, `WQuiet`);
    * a cancelled fiber still has its task (`e`).
    Together with `chan_invariant` (a live reader never coexists with an item or a live writer on its channel) no fiber
    stays suspended once its operation has been matched or could be matched by a waiting counterpart. -/
theorem no_lost_wakeup (limits : Nat → Nat) (as : List Action) (hns : ∀ a ∈ as, a.noSelfMatch) :
    WInv (run currentCfg (World.start limits) as) :=
  Ev.run_W current_good as _ hns (Ev.start_W limits)

/-- **terminates_when_matchable**, as the statement about the only way the loop can go idle: if after some action
    sequence nothing is runnable (no task, no timer, no running fiber), then every suspended fiber `f` is registered on
    some channel `c` on which its operation cannot be matched: as a reader, `c` holds no item and has no live writer; as a
    writer, `c` is above capacity and has no live reader.  (Contrapositive: if the remaining operations could be matched
    with each other, the loop is not idle - the program runs on.) -/
theorem terminates_when_matchable (limits : Nat → Nat) (as : List Action) (hns : ∀ a ∈ as, a.noSelfMatch) (f : Nat)
    (w : World) (hw : w = run currentCfg (World.start limits) as) :
    w.runq = [] → w.timers = [] → (w.fibers f).status = .pending →
    ∃ c p, p.fiber = f ∧ p.sched = (w.fibers f).sched ∧
      ((p ∈ (w.chans c).readPending ∧ (w.chans c).items = [] ∧ liveCount w.fibers (w.chans c).writePending = 0) ∨
       (p ∈ (w.chans c).writePending ∧ (w.chans c).limit < (w.chans c).items.length ∧
          hasLiveReader w.fibers (w.chans c).readPending = false)) := by
  subst hw
  intro hrq htm hst
  have hW := no_lost_wakeup limits as hns
  have hC := chan_invariant limits as
  generalize run currentCfg (World.start limits) as = w at *
  rcases hW.1.d1 f hst with h | h | h
  · simp [Ev.LT, hrq] at h
  · obtain ⟨t, ht, _⟩ := h; rw [htm] at ht; simp at ht
  · obtain ⟨c, p, hp, hpf, hps⟩ := h
    have hc := hC c
    have hplive : p.live w.fibers = true := by rw [live_iff, hpf]; exact hps
    refine ⟨c, p, hpf, hps, ?_⟩
    rcases (mem_ent w c p).mp hp with hp | hp
    · left
      have hr : hasLiveReader w.fibers (w.chans c).readPending = true := by
        unfold hasLiveReader; rw [List.any_eq_true]; exact ⟨p, hp, hplive⟩
      have hit := hc.reader hr
      refine ⟨hp, hit, ?_⟩
      rcases hc.writer with h0 | hw
      · exact h0
      · rw [hit] at hw; simp at hw; exact hw.1
    · right
      have hpos : 0 < liveCount w.fibers (w.chans c).writePending := by
        unfold liveCount; exact List.countP_pos_iff.mpr ⟨p, hp, hplive⟩
      have hlim : (w.chans c).limit < (w.chans c).items.length := by
        rcases hc.writer with h0 | hw <;> omega
      refine ⟨hp, hlim, ?_⟩
      cases hr : hasLiveReader w.fibers (w.chans c).readPending
      · rfl
      · have := hc.reader hr; rw [this] at hlim; simp at hlim

/-- **registered exactly where the operation says, with the current sched_id** - at the moment a fiber suspends, from
    any state satisfying the invariant `WInv` (hence from every reachable state, by `no_lost_wakeup`):
    a give that suspends is registered on its channel and nowhere else; a take that suspends either only yields (the item
    was there: one live task, no registration) or is registered on its channel and nowhere else; a select that suspends
    is registered on the channel of every clause and nowhere else; in the registered cases there is no live task.
    (`liveIn fb ent f c` = some pending entry of channel `c` has fiber `f` and `f`'s current sched_id.)
    That this stays so until the fiber is scheduled is NOT stated as an invariant: the model keeps no record of the
    operation a fiber is suspended in; `no_lost_wakeup` only says that *some* live registration remains. -/
theorem suspends_registered_exactly (w : World) (f : Nat) (hi : WInv w) (hcur : w.current = some f) :
    (∀ c x w', step currentCfg w (.give c x) = (w', .await) →
      Ev.LT w'.fibers w'.runq f = 0 ∧ ∀ c', liveIn w'.fibers w'.ent f c' ↔ c' = c) ∧
    (∀ c w', step currentCfg w (.take c) = (w', .await) →
      (Ev.LT w'.fibers w'.runq f = 1 ∧ ∀ c', ¬ liveIn w'.fibers w'.ent f c') ∨
      (Ev.LT w'.fibers w'.runq f = 0 ∧ ∀ c', liveIn w'.fibers w'.ent f c' ↔ c' = c)) ∧
    (∀ cls w', (cls.map Clause.chan).Nodup → step currentCfg w (.select cls) = (w', .await) →
      Ev.LT w'.fibers w'.runq f = 0 ∧ ∀ c', liveIn w'.fibers w'.ent f c' ↔ c' ∈ cls.map Clause.chan) :=
  ⟨fun _ _ w' h => Ev.give_suspends_exactly current_good hi hcur w' h,
   fun _ w' h => Ev.take_suspends_exactly current_good hi hcur w' h,
   fun _ w' hnd h => Ev.select_suspends_exactly current_good hi hcur hnd w' h⟩

/-- `noSelfMatch` is needed: `(ev/select c0 [c0 5] c0)` alone in a fiber is matched with itself in the registration
    loop; when the fiber runs again - its select has returned `[:take c0 5]` - it still has a current registration in
    c0's read queue, which `no_lost_wakeup` (`WQuiet`) excludes.  (Configuration with every check.) -/
def selfMatchActs : List Action :=
  [.timers, .runTask, .go 1, .finish false, .runTask, .select [.take 0, .give 0 5, .take 0], .runTask]

theorem noSelfMatch_needed :
    let w := run Cfg.good (World.start fun _ => 0) selfMatchActs
    w.current = some 1 ∧ (w.chans 0).readPending.any (fun p => p.fiber == 1 && p.live w.fibers) = true ∧
    w.ghost.received = [(1, 5)] := by decide

end JanetModel.Props.C06
