/- C06: proof obligations on the CURRENT ev.c (configuration regenerated into Gen/Ev.lean).  Same namespace as
   Props/C06.lean; separate module so that a tree lacking one of the tests breaks exactly these obligations. -/
import JanetModel.Props.C06
import JanetModel.Ev.Wakeup
import JanetModel.Ev.Kept
import JanetModel.Ev.Order
namespace JanetModel.Props.C06
open JanetModel.Ev

/-! ## obligations on the current source -/

/-- `no_lost_wakeup`, proved part: on the three witness schedules the CURRENT source (configuration from Gen/Ev.lean)
    neither strands a fiber nor drops a task.  Fails to check on a tree that lacks any of the three tests.
    NOT proved: the invariant for all action sequences (a suspended fiber always has a task, timer or live registration
    carrying its current sched_id; a live pending reader implies `items = []`; #live pending writers ≤ count - limit)
    and its corollary `terminates_when_matchable`.  Both are checked on every explored implementation state by the
    direct oracle (failure kinds `lost-wakeup`, `waiting-reader-with-items`, `reader-and-writer-both-waiting`). -/
theorem no_lost_wakeup_partial :
    lostWakeup (run currentCfg (World.start fun _ => 0) hangActs) 0 1 = false
    ∧ (run currentCfg (World.start fun _ => 0) staleWriterActs).ghost.dropped = []
    ∧ (run currentCfg (World.start fun _ => 0) staleCloseActs).ghost.dropped = [] := by decide

/- `current_source_checks : currentCfg = Cfg.good` (every test / fix the model knows about is present in the current
   source) is in `Ev/SourceChecks.lean`: a tree lacking one fix breaks that module only. -/

/-! ## invariants over ALL action sequences, for the configuration of the current source -/

theorem current_good : CfgGood currentCfg := ⟨by decide, by decide, by decide, by decide, by decide⟩

/-- **channel invariant**, every action sequence, every channel:
    * a pending reader whose sched_id is current ⇒ the channel holds no item;
    * (number of pending writers whose sched_id is current) = 0, or that number + limit ≤ number of items - in
      particular a live pending writer ⇒ count > limit, the code's own blocking condition;
    * a closed channel has no pending entries; no entry carries a sched_id from the future. -/
theorem chan_invariant (limits : Nat → Nat) (as : List Action) (c : Nat) :
    ChanOK (run currentCfg (World.start limits) as).fibers ((run currentCfg (World.start limits) as).chans c) :=
  (Ev.run_good current_good.chan as _ (Ev.start_good limits)).1 c

/-- **fifo_per_channel** (full): after every action sequence, for every channel, the values pushed into it, in push
    order, are exactly the values it has handed out, in hand-out order, followed by the values still queued. -/
theorem fifo_per_channel (limits : Nat → Nat) (as : List Action) (c : Nat) :
    let w := run currentCfg (World.start limits) as
    onChan w.ghost.pushed c = onChan w.ghost.handed c ++ (w.chans c).items :=
  (Ev.run_good current_good.chan as _ (Ev.start_good limits)).2 c

/-- **no_lost_wakeup**: after every action sequence in which no select names a channel twice,
    * every suspended fiber has a live wake-up source: a task carrying its current sched_id, or a sleep timer, or a
      registration in a channel queue (`d1`);
    * these are exclusive: a live task excludes live timers and registrations (`d3`), there is at most one live task
      (`d0`), and a fiber that is not suspended (new, running between operations, finished) has none (`d2`, `WQuiet`);
    * a cancelled fiber still has its task (`e`).
    Together with `chan_invariant` (a live reader never coexists with an item or a live writer on its channel) no fiber
    stays suspended once its operation has been matched or could be matched by a waiting counterpart. -/
theorem no_lost_wakeup (limits : Nat → Nat) (as : List Action) (hns : ∀ a ∈ as, a.noSelfMatch) :
    WInv (run currentCfg (World.start limits) as) :=
  Ev.run_W current_good as _ hns (Ev.start_W limits)

/-- **terminates_when_matchable**, as the statement about the only way the loop can go idle: if after some action
    sequence nothing is runnable (no task, no timer, no running fiber), then every suspended fiber `f` is registered on
    some channel `c` on which its operation cannot be matched: as a reader, `c` holds no item and has no live writer; as a
    writer, `c` is above capacity and has no live reader.  (Contrapositive: if the remaining operations could be matched
    with each other, the loop is not idle - the program runs on.) -/
theorem terminates_when_matchable (limits : Nat → Nat) (as : List Action) (hns : ∀ a ∈ as, a.noSelfMatch) (f : Nat)
    (w : World) (hw : w = run currentCfg (World.start limits) as) :
    w.runq = [] → w.timers = [] → (w.fibers f).status = .pending →
    ∃ c p, p.fiber = f ∧ p.sched = (w.fibers f).sched ∧
      ((p ∈ (w.chans c).readPending ∧ (w.chans c).items = [] ∧ liveCount w.fibers (w.chans c).writePending = 0) ∨
       (p ∈ (w.chans c).writePending ∧ (w.chans c).limit < (w.chans c).items.length ∧
          hasLiveReader w.fibers (w.chans c).readPending = false)) := by
  subst hw
  intro hrq htm hst
  have hW := no_lost_wakeup limits as hns
  have hC := chan_invariant limits as
  generalize run currentCfg (World.start limits) as = w at *
  rcases hW.1.d1 f hst with h | h | h
  · simp [Ev.LT, hrq] at h
  · obtain ⟨t, ht, _⟩ := h; rw [htm] at ht; simp at ht
  · obtain ⟨c, p, hp, hpf, hps⟩ := h
    have hc := hC c
    have hplive : p.live w.fibers = true := by rw [live_iff, hpf]; exact hps
    refine ⟨c, p, hpf, hps, ?_⟩
    rcases (mem_ent w c p).mp hp with hp | hp
    · left
      have hr : hasLiveReader w.fibers (w.chans c).readPending = true := by
        unfold hasLiveReader; rw [List.any_eq_true]; exact ⟨p, hp, hplive⟩
      have hit := hc.reader hr
      refine ⟨hp, hit, ?_⟩
      rcases hc.writer with h0 | hw
      · exact h0
      · rw [hit] at hw; simp at hw; exact hw.1
    · right
      have hpos : 0 < liveCount w.fibers (w.chans c).writePending := by
        unfold liveCount; exact List.countP_pos_iff.mpr ⟨p, hp, hplive⟩
      have hlim : (w.chans c).limit < (w.chans c).items.length := by
        rcases hc.writer with h0 | hw <;> omega
      refine ⟨hp, hlim, ?_⟩
      cases hr : hasLiveReader w.fibers (w.chans c).readPending
      · rfl
      · have := hc.reader hr; rw [this] at hlim; simp at hlim

/-- **registered exactly where the operation says, with the current sched_id** - at the moment a fiber suspends, from
    any state satisfying the invariant `WInv` (hence from every reachable state, by `no_lost_wakeup`):
    a give that suspends is registered on its channel and nowhere else; a take that suspends either only yields (the item
    was there: one live task, no registration) or is registered on its channel and nowhere else; a select that suspends
    is registered on the channel of every clause and nowhere else; in the registered cases there is no live task.
    (`liveIn fb ent f c` = some pending entry of channel `c` has fiber `f` and `f`'s current sched_id.)
    That this stays so until the fiber is scheduled is NOT stated as an invariant: the model keeps no record of the
    operation a fiber is suspended in; `no_lost_wakeup` only says that *some* live registration remains. -/
theorem suspends_registered_exactly (w : World) (f : Nat) (hi : WInv w) (hcur : w.current = some f) :
    (∀ c x w', step currentCfg w (.give c x) = (w', .await) →
      Ev.LT w'.fibers w'.runq f = 0 ∧ ∀ c', liveIn w'.fibers w'.ent f c' ↔ c' = c) ∧
    (∀ c w', step currentCfg w (.take c) = (w', .await) →
      (Ev.LT w'.fibers w'.runq f = 1 ∧ ∀ c', ¬ liveIn w'.fibers w'.ent f c') ∨
      (Ev.LT w'.fibers w'.runq f = 0 ∧ ∀ c', liveIn w'.fibers w'.ent f c' ↔ c' = c)) ∧
    (∀ cls w', (cls.map Clause.chan).Nodup → step currentCfg w (.select cls) = (w', .await) →
      Ev.LT w'.fibers w'.runq f = 0 ∧ ∀ c', liveIn w'.fibers w'.ent f c' ↔ c' ∈ cls.map Clause.chan) :=
  ⟨fun _ _ w' h => Ev.give_suspends_exactly current_good hi hcur w' h,
   fun _ w' h => Ev.take_suspends_exactly current_good hi hcur w' h,
   fun _ w' hnd h => Ev.select_suspends_exactly current_good hi hcur hnd w' h⟩

/-! ## the registrations of a suspended fiber are KEPT until it is scheduled (ghost of the pending operation)

`runG` runs the unchanged model (`runG_is_run`) and records beside it, for every fiber, the last action in which it
suspended and the sched_id it had when that action began (`Ev/Ghost.lean`; nothing else ever writes the ghost). -/

/-- the ghost run IS the run of the model: its first component is `run` on the same actions -/
theorem runG_is_run (limits : Nat → Nat) (as : List Action) (g : Ops) :
    (runG currentCfg (World.start limits) g as).1 = run currentCfg (World.start limits) as :=
  Ev.runG_fst currentCfg as _ g

/-- **registration_kept**: after EVERY action sequence from the start state (no select naming a channel twice), every
    suspended fiber `f` has a recorded pending operation `op` (the action it suspended in, with the sched_id it had then), and
    * as long as `f` has not been scheduled since (`op.sched` is still `f`'s sched_id): `f` is registered as a pending
      READER with its current sched_id on exactly the channels of the take / take-clauses of `op`, as a pending WRITER on
      exactly the channels of its give / give-clauses, has a live sleep timer exactly when `op` is a sleep, and has no
      task in the run queue - nothing was lost, nothing was added, on any channel;
    * once it has been scheduled (`op.sched <` its sched_id) exactly one live wake-up task for it is in the run queue.
    This strengthens `suspends_registered_exactly` (exact registration at the moment of suspension, per queue now) to an
    invariant over all later transitions of all other fibers and loop phases, and `no_lost_wakeup` (SOME live source)
    to the exact set. -/
theorem registration_kept (limits : Nat → Nat) (as : List Action) (hns : ∀ a ∈ as, a.noSelfMatch) (f : Nat) :
    let r := runG currentCfg (World.start limits) (fun _ => none) as
    (r.1.fibers f).status = .pending →
    ∃ op, r.2 f = some op ∧ op.sched ≤ (r.1.fibers f).sched ∧
      (op.sched = (r.1.fibers f).sched →
        (∀ c, regR r.1 f op.sched c ↔ c ∈ op.act.readChans) ∧ (∀ c, regW r.1 f op.sched c ↔ c ∈ op.act.writeChans) ∧
        (liveTimer r.1.fibers r.1.timers f ↔ op.act.isSleep = true) ∧ Ev.LT r.1.fibers r.1.runq f = 0) ∧
      (op.sched < (r.1.fibers f).sched → Ev.LT r.1.fibers r.1.runq f = 1) := by
  intro r hp
  obtain ⟨op, hop, hk⟩ :=
    (Ev.runG_K current_good as _ _ hns (Ev.start_W limits) (Ev.start_K limits _)).2 f hp
  exact ⟨op, hop, hk.le, hk.kept, hk.woken⟩

/-- a pending operation of a suspended fiber "could be matched" in state `w`: one of its take channels holds an item, is
    closed or has a suspended, not yet scheduled giver; or one of its give channels is below capacity, is closed or has a
    suspended, not yet scheduled taker -/
def Matchable (w : World) (g : Ops) (f : Nat) (op : POp) : Prop :=
  (∃ c ∈ op.act.readChans, (w.chans c).items ≠ [] ∨ (w.chans c).closed = true ∨
      ∃ f2 op2, (w.fibers f2).status = .pending ∧ g f2 = some op2 ∧ op2.sched = (w.fibers f2).sched ∧
        c ∈ op2.act.writeChans) ∨
  (∃ c ∈ op.act.writeChans, (w.chans c).items.length ≤ (w.chans c).limit ∨ (w.chans c).closed = true ∨
      ∃ f2 op2, (w.fibers f2).status = .pending ∧ g f2 = some op2 ∧ op2.sched = (w.fibers f2).sched ∧
        c ∈ op2.act.readChans)

/-- **no_suspended_matchable** (last clause of the property, first half, at full strength): in EVERY reachable state -
    not only when the loop is idle - a suspended fiber that has not been scheduled since it suspended has a pending
    operation NONE of whose clauses could be matched: every channel it takes from is open, empty and has no suspended
    unscheduled giver; every channel it gives to is open, above capacity and has no suspended unscheduled taker.
    Contrapositive: as soon as its operation is matched or could be matched by a waiting counterpart, the fiber has
    been scheduled (its sched_id is bumped and, by `registration_kept`, its wake-up task is in the run queue). -/
theorem no_suspended_matchable (limits : Nat → Nat) (as : List Action) (hns : ∀ a ∈ as, a.noSelfMatch) (f : Nat) (op : POp) :
    let r := runG currentCfg (World.start limits) (fun _ => none) as
    (r.1.fibers f).status = .pending → r.2 f = some op → op.sched = (r.1.fibers f).sched →
    ¬ Matchable r.1 r.2 f op := by
  intro r hp hop hs
  have hK := (Ev.runG_K current_good as _ _ hns (Ev.start_W limits) (Ev.start_K limits (fun _ => none))).2
  have hC : ∀ c, ChanOK r.1.fibers (r.1.chans c) := by
    intro c
    have := chan_invariant limits as c
    rw [← runG_is_run limits as (fun _ => none)] at this
    exact this
  -- facts about a suspended, unscheduled fiber
  have facts : ∀ f1 op1, (r.1.fibers f1).status = .pending → r.2 f1 = some op1 → op1.sched = (r.1.fibers f1).sched →
      (∀ c ∈ op1.act.readChans, hasLiveReader r.1.fibers (r.1.chans c).readPending = true) ∧
      (∀ c ∈ op1.act.writeChans, 0 < liveCount r.1.fibers (r.1.chans c).writePending) := by
    intro f1 op1 hp1 hop1 hs1
    obtain ⟨op', hop', hk⟩ := hK f1 hp1
    rw [hop1] at hop'; injection hop' with hop'; subst hop'
    obtain ⟨kR, kW, _, _⟩ := hk.kept hs1
    constructor
    · intro c hc
      obtain ⟨p, hpin, h1, h2⟩ := (kR c).mpr hc
      unfold hasLiveReader; rw [List.any_eq_true]
      exact ⟨p, hpin, (live_iff _ p).mpr (by rw [h1, h2, hs1])⟩
    · intro c hc
      obtain ⟨p, hpin, h1, h2⟩ := (kW c).mpr hc
      unfold liveCount
      exact List.countP_pos_iff.mpr ⟨p, hpin, (live_iff _ p).mpr (by rw [h1, h2, hs1])⟩
  obtain ⟨fR, fW⟩ := facts f op hp hop hs
  rintro (⟨c, hc, hm⟩ | ⟨c, hc, hm⟩)
  · have hr := fR c hc
    have hit := (hC c).reader hr
    rcases hm with h | h | ⟨f2, op2, hp2, hop2, hs2, hc2⟩
    · exact h hit
    · have := ((hC c).closed h).1
      unfold hasLiveReader at hr; rw [this] at hr; simp at hr
    · have hpos := (facts f2 op2 hp2 hop2 hs2).2 c hc2
      rcases (hC c).writer with h0 | hw
      · omega
      · rw [hit] at hw; simp at hw; omega
  · have hpos := fW c hc
    have hlim : (r.1.chans c).limit < (r.1.chans c).items.length := by
      rcases (hC c).writer with h0 | hw <;> omega
    rcases hm with h | h | ⟨f2, op2, hp2, hop2, hs2, hc2⟩
    · omega
    · have := ((hC c).closed h).2
      unfold liveCount at hpos; rw [this] at hpos; simp at hpos
    · have hr := (facts f2 op2 hp2 hop2 hs2).1 c hc2
      have := (hC c).reader hr
      rw [this] at hlim; simp at hlim

/-- **terminates_when_matchable_full** (last clause, second half): if after some action sequence the loop has nothing to
    run (no task, no timer), then every suspended fiber is still in its recorded pending operation (never scheduled
    since), that operation is a channel operation, and NO clause of it can be matched - not by a queued item, not by
    spare capacity, not by a closed channel, not by the pending operation of any other suspended fiber.  So the loop
    only goes idle in a genuine deadlock of the recorded operations: whenever the operations can all be matched (indeed
    whenever any single one can) the program runs on.
    Stronger than `terminates_when_matchable`, which gave only SOME registration of the fiber on SOME unmatchable
    channel: a fiber suspended in a select whose other clause could be matched was not excluded there. -/
theorem terminates_when_matchable_full (limits : Nat → Nat) (as : List Action) (hns : ∀ a ∈ as, a.noSelfMatch) (f : Nat) :
    let r := runG currentCfg (World.start limits) (fun _ => none) as
    r.1.runq = [] → r.1.timers = [] → (r.1.fibers f).status = .pending →
    ∃ op, r.2 f = some op ∧ op.sched = (r.1.fibers f).sched ∧ op.act.isSleep = false ∧
      (op.act.readChans ≠ [] ∨ op.act.writeChans ≠ []) ∧ ¬ Matchable r.1 r.2 f op := by
  have hk := registration_kept limits as hns f
  have hnm := fun op => no_suspended_matchable limits as hns f op
  have hW := no_lost_wakeup limits as hns
  rw [← runG_is_run limits as (fun _ => none)] at hW
  dsimp only at hk hnm ⊢
  generalize runG currentCfg (World.start limits) (fun _ => none) as = r at *
  intro hrq htm hp
  obtain ⟨op, hop, hle, hkept, hwoken⟩ := hk hp
  have hs : op.sched = (r.1.fibers f).sched := by
    rcases Nat.lt_or_ge op.sched (r.1.fibers f).sched with h | h
    · have := hwoken h; simp [Ev.LT, hrq] at this
    · exact Nat.le_antisymm hle h
  obtain ⟨kR, kW, kT, _⟩ := hkept hs
  have hns' : op.act.isSleep = false := by
    cases hsl : op.act.isSleep
    · rfl
    · obtain ⟨t, ht, _⟩ := kT.mpr hsl; rw [htm] at ht; simp at ht
  refine ⟨op, hop, hs, hns', ?_, hnm op hp hop hs⟩
  -- it is registered somewhere (no_lost_wakeup): so its operation has a channel
  rcases hW.1.d1 f hp with h | h | ⟨c, h⟩
  · simp [Ev.LT, hrq] at h
  · obtain ⟨t, ht, _⟩ := h; rw [htm] at ht; simp at ht
  · rw [liveIn_iff_reg, ← hs] at h
    rcases h with h | h
    · left; intro e; have := (kR c).mp h; rw [e] at this; simp at this
    · right; intro e; have := (kW c).mp h; rw [e] at this; simp at this

/-- non-vacuity / the ghost at work: A `(ev/select [c0 1001] c1)` suspends registered as writer on c0 and reader on c1 and
    nowhere else; after B `(ev/give c1 2001)` A has been scheduled (sched_id bumped, one live task); the recorded
    operation is the select with the sched_id A had when it began (2: scheduled once by ev/go, resumed once). -/
example :
    let r := runG Cfg.good (World.start fun _ => 0) (fun _ => none)
      [.timers, .runTask, .go 1, .go 2, .finish false, .runTask, .select [.give 0 1001, .take 1]]
    (r.1.fibers 1).status = .pending ∧ r.2 1 = some ⟨.select [.give 0 1001, .take 1], 2⟩ ∧ (r.1.fibers 1).sched = 2 ∧
    regWb r.1 1 2 0 = true ∧ regRb r.1 1 2 1 = true ∧ regRb r.1 1 2 0 = false ∧ regWb r.1 1 2 1 = false := by decide

example :
    let r := runG Cfg.good (World.start fun _ => 0) (fun _ => none)
      [.timers, .runTask, .go 1, .go 2, .finish false, .runTask, .select [.give 0 1001, .take 1], .runTask, .give 1 2001]
    (r.1.fibers 1).status = .pending ∧ r.2 1 = some ⟨.select [.give 0 1001, .take 1], 2⟩ ∧ (r.1.fibers 1).sched = 3 ∧
    r.1.runq.map (·.fiber) = [1] := by decide

/-! ## order between one giver and one taker -/

theorem sublist_pair_mem {α : Type} {x y : α} {l : List α} (h : List.Sublist [x, y] l) : x ∈ l ∧ y ∈ l :=
  ⟨h.subset (by simp), h.subset (by simp)⟩

/-- in a list without repetition two elements occur in one order only -/
theorem nodup_pair_order {α : Type} {x y : α} :
    ∀ {l : List α}, l.Nodup → List.Sublist [x, y] l → List.Sublist [y, x] l → False := by
  intro l
  induction l with
  | nil => intro _ h _; cases h
  | cons a t ih =>
    intro hnd h1 h2
    have hnd' := (List.nodup_cons.mp hnd)
    cases h1 with
    | cons _ h1' =>
      cases h2 with
      | cons _ h2' => exact ih hnd'.2 h1' h2'
      | cons_cons _ h2' => exact hnd'.1 (sublist_pair_mem h1').2
    | cons_cons _ h1' =>
      cases h2 with
      | cons _ h2' => exact hnd'.1 (sublist_pair_mem h2').2
      | cons_cons _ h2' => exact hnd'.1 (h1'.subset (by simp))

/-- **order_per_giver_handout** (corollary of `fifo_per_channel`): after every action sequence, if `x` was pushed into
    channel `c` before `y` (`[x, y]` is a sublist of c's push log - in particular when one giver `g` gave `x` and later
    `y` on `c`: the give events of `g` on `c` are a sublist of c's push log, pushes being appended in call order) and
    values are not repeated on `c`, then `c` never hands `y` out before `x` - to whichever taker. -/
theorem order_per_giver_handout (limits : Nat → Nat) (as : List Action) (c x y : Nat) :
    let w := run currentCfg (World.start limits) as
    (onChan w.ghost.pushed c).Nodup → List.Sublist [x, y] (onChan w.ghost.pushed c) →
    ¬ List.Sublist [y, x] (onChan w.ghost.handed c) := by
  intro w hnd hxy hyx
  have hf := fifo_per_channel limits as c
  have hpre : List.Sublist (onChan w.ghost.handed c) (onChan w.ghost.pushed c) := by
    show List.Sublist _ (onChan (run currentCfg (World.start limits) as).ghost.pushed c)
    rw [hf]; exact List.sublist_append_left _ _
  exact nodup_pair_order hnd hxy (hyx.trans hpre)

theorem pair_sublist_total {α : Type} {x y : α} (hne : x ≠ y) :
    ∀ {l : List α}, x ∈ l → y ∈ l → List.Sublist [x, y] l ∨ List.Sublist [y, x] l := by
  intro l
  induction l with
  | nil => intro h; cases h
  | cons a t ih =>
    intro hx hy
    rcases List.mem_cons.mp hx with ex | hx'
    · rcases List.mem_cons.mp hy with ey | hy'
      · exact absurd (ex.trans ey.symm) hne
      · left; subst ex; exact List.Sublist.cons_cons _ (List.singleton_sublist.mpr hy')
    · rcases List.mem_cons.mp hy with ey | hy'
      · right; subst ey; exact List.Sublist.cons_cons _ (List.singleton_sublist.mpr hx')
      · rcases ih hx' hy' with h | h
        · exact Or.inl (List.Sublist.cons _ h)
        · exact Or.inr (List.Sublist.cons _ h)

theorem mem_onChan (l : List (Nat × Nat)) (c x : Nat) : x ∈ onChan l c ↔ (c, x) ∈ l := by
  unfold onChan
  simp only [List.mem_map, List.mem_filter, beq_iff_eq]
  constructor
  · rintro ⟨⟨a, b⟩, ⟨hm, h1⟩, h2⟩; simp only at h1 h2; subst h1; subst h2; exact hm
  · intro h; exact ⟨(c, x), ⟨h, rfl⟩, rfl⟩

theorem chan_unique {l : List (Nat × Nat)} (hnd : (l.map (·.2)).Nodup) {a b v : Nat} (ha : (a, v) ∈ l) (hb : (b, v) ∈ l) :
    a = b := by
  induction l with
  | nil => cases ha
  | cons p t ih =>
    simp only [List.map_cons, List.nodup_cons, List.mem_map, not_exists, not_and] at hnd
    rcases List.mem_cons.mp ha with ea | ha'
    · rcases List.mem_cons.mp hb with eb | hb'
      · have := ea.trans eb.symm; injection this
      · exact absurd (show (b, v).2 = p.2 by rw [← ea]) (hnd.1 (b, v) hb')
    · rcases List.mem_cons.mp hb with eb | hb'
      · exact absurd (show (a, v).2 = p.2 by rw [← eb]) (hnd.1 (a, v) ha')
      · exact ih hnd.2 ha' hb'

/-- **order_per_giver_taker** - "values exchanged between one giver and one taker on a channel arrive in the order
    given", on the event log of the model: `pushed` is the log of give events per channel (a value is logged when
    janet_channel_push_with_lock accepts it, in call order; the give events of ONE giver on `c` are a sublist of c's
    log), `received` is the log of take results per fiber (a value is logged when an operation of the fiber returns it:
    `(ev/take c)`, a `[:take c x]` select result).  For EVERY action sequence from the start state (no select naming a
    channel twice) in which every given value is distinct: if `x` was given on `c` before `y`, and fiber `t` has
    received both, then `t` received `x` before `y`.
    Proof: `fifo_per_channel` (c hands out in push order) + `Ev.run_SH` (what one fiber receives, in order, is a sublist
    of the global hand-out log: a fiber has at most one item in flight and receives it before it can be handed another). -/
theorem order_per_giver_taker (limits : Nat → Nat) (as : List Action) (hns : ∀ a ∈ as, a.noSelfMatch) (c t x y : Nat) :
    let w := run currentCfg (World.start limits) as
    (w.ghost.pushed.map (·.2)).Nodup → List.Sublist [x, y] (onChan w.ghost.pushed c) →
    x ∈ Rv w t → y ∈ Rv w t → List.Sublist [x, y] (Rv w t) := by
  intro w hnd hxy hx hy
  have hS := Ev.run_SH current_good as _ hns (Ev.start_W limits) (Ev.start_SH limits) t
  have hRH : List.Sublist (Rv w t) (Hv w) := (List.sublist_append_left _ _).trans hS
  have hPc : (onChan w.ghost.pushed c).Nodup := by
    unfold onChan
    exact List.Nodup.sublist (List.Sublist.map _ List.filter_sublist) hnd
  have hne : x ≠ y := by
    intro e; subst e
    have := List.Sublist.nodup hxy hPc
    simp at this
  rcases pair_sublist_total hne hx hy with h | h
  · exact h
  · exfalso
    -- [y, x] in t's receipts, hence in the hand-out log, hence in c's hand-out log
    have hH : List.Sublist [y, x] (w.ghost.handed.map (·.2)) := h.trans hRH
    obtain ⟨l', hl', hmap⟩ := List.sublist_map_iff.mp hH
    have hfifo := fun c' => fifo_per_channel limits as c'
    have hpushedOf : ∀ c' v, (c', v) ∈ w.ghost.handed → (c', v) ∈ w.ghost.pushed := by
      intro c' v hm
      have h1 : v ∈ onChan w.ghost.handed c' := (mem_onChan _ _ _).mpr hm
      have h2 : v ∈ onChan w.ghost.pushed c' := by
        show v ∈ onChan (run currentCfg (World.start limits) as).ghost.pushed c'
        rw [hfifo c']; exact List.mem_append_left _ h1
      exact (mem_onChan _ _ _).mp h2
    have hxc : (c, x) ∈ w.ghost.pushed := (mem_onChan _ _ _).mp (sublist_pair_mem hxy).1
    have hyc : (c, y) ∈ w.ghost.pushed := (mem_onChan _ _ _).mp (sublist_pair_mem hxy).2
    match l', hl', hmap with
    | [(c1, y'), (c2, x')], hl', hmap =>
      simp only [List.map_cons, List.map_nil, List.cons.injEq, and_true] at hmap
      obtain ⟨e1, e2⟩ := hmap
      subst e1; subst e2
      have hm1 : (c1, y) ∈ w.ghost.handed := hl'.subset (by simp)
      have hm2 : (c2, x) ∈ w.ghost.handed := hl'.subset (by simp)
      have ec1 : c1 = c := chan_unique hnd (hpushedOf _ _ hm1) hyc
      have ec2 : c2 = c := chan_unique hnd (hpushedOf _ _ hm2) hxc
      rw [ec1, ec2] at hl'
      have : List.Sublist [y, x] (onChan w.ghost.handed c) := by
        unfold onChan
        have := List.Sublist.map (·.2) (List.Sublist.filter (fun p : Nat × Nat => p.1 == c) hl')
        simpa using this
      exact order_per_giver_handout limits as c x y hPc hxy this

/-- non-vacuity: two values from one giver to one taker (capacity 2, both buffered, then taken) -/
example :
    let w := run Cfg.good (World.start fun _ => 2)
      [.timers, .runTask, .go 1, .give 0 7, .give 0 8, .finish false, .runTask, .take 0, .runTask, .take 0, .runTask]
    onChan w.ghost.pushed 0 = [7, 8] ∧ Rv w 1 = [7, 8] := by decide

/-- `noSelfMatch` is needed: `(ev/select c0 [c0 5] c0)` alone in a fiber is matched with itself in the registration
    loop.  The fiber is then suspended WITH a live wake-up task AND a current registration in c0's read queue (made after
    it scheduled itself), which `no_lost_wakeup` (`d3`) excludes; a giver on c0 arriving before the fiber runs would
    schedule it a second time and the first task - carrying the 5 it gave itself - would be dropped.
    (Configuration with every check.)  On a source WITHOUT the bump at resume the registration even stays current after
    the select has returned `[:take c0 5]` (`WQuiet` fails; second part); with the bump it is stale from then on. -/
def selfMatchActs : List Action :=
  [.timers, .runTask, .go 1, .finish false, .runTask, .select [.take 0, .give 0 5, .take 0]]

theorem noSelfMatch_needed :
    (let w := run Cfg.good (World.start fun _ => 0) selfMatchActs
     (w.fibers 1).status = .pending ∧ Ev.LT w.fibers w.runq 1 = 1 ∧
     (w.chans 0).readPending.any (fun p => p.fiber == 1 && p.live w.fibers) = true) ∧
    (let w := run { Cfg.good with resumeBumps := false } (World.start fun _ => 0) (selfMatchActs ++ [.runTask])
     w.current = some 1 ∧ (w.chans 0).readPending.any (fun p => p.fiber == 1 && p.live w.fibers) = true ∧
     w.ghost.received = [(1, 5)]) ∧
    (let w := run Cfg.good (World.start fun _ => 0) (selfMatchActs ++ [.runTask])
     w.current = some 1 ∧ (w.chans 0).readPending.any (fun p => p.fiber == 1 && p.live w.fibers) = false) := by decide

/-- what the self-matched select costs on the CURRENT source (every check, bump at resume): A `(ev/select c0 [c0 5] c1)`
    gives 5 to itself (first task: `[:take c0 5]`), is still registered on c1, B `(ev/give c1 7)` matches that registration
    before A runs: A is scheduled a second time, its first task is dropped by the stale-task filter and the 5 - pushed and
    handed out - is received by nobody; A's select returns `[:take c1 7]`: two clauses took effect, one result.
    So `noSelfMatch` cannot be dropped from `no_lost_wakeup` / `registration_kept` / `order_per_giver_taker` even with
    the bump at resume; the bump only makes the leftover registration stale once the fiber has run. -/
def selfMatchTwiceActs : List Action :=
  [.timers, .runTask, .go 1, .go 2, .finish false, .runTask, .select [.take 0, .give 0 5, .take 1], .runTask, .give 1 7,
   .finish false, .runTask, .runTask]

theorem selfMatch_drops_value :
    let w := run Cfg.good (World.start fun _ => 0) selfMatchTwiceActs
    w.current = some 1 ∧ w.ghost.dropped.map (·.value) = [Val.take 0 5] ∧ w.ghost.received = [(1, 7)] ∧
    w.ghost.handed = [(0, 5), (1, 7)] ∧ w.ghost.pushed = [(0, 5), (1, 7)] := by decide

/-! ## supervisor events, rselect, close with buffered items -/

/-- the supervisor event of a finished fiber (`janet_channel_push(chan, event, 2)` from the run phase) on an OPEN channel
    is never dropped and never waits, whatever the capacity: it is logged as pushed and is either appended to the items
    or handed to a waiting taker; no pending-writer entry is added (mode 2: there is no root fiber to register). -/
theorem supervisor_event_delivered (w : World) (c x : Nat) (ho : (w.chans c).closed = false) :
    let w' := (supPush currentCfg w c x).1
    w'.ghost.pushed = w.ghost.pushed ++ [(c, x)] ∧
    ((w'.ghost.handed = w.ghost.handed ∧ (w'.chans c).items = (w.chans c).items ++ [x] ∧
        (w'.chans c).writePending = (w.chans c).writePending) ∨
     (w'.ghost.handed = w.ghost.handed ++ [(c, x)] ∧ (w'.chans c).items = (w.chans c).items)) := by
  intro w'
  obtain ⟨w1, b, hp⟩ := Ev.chanPush_open (cfg := currentCfg) w 0 c x 2 ho
  have hw' : w' = w1 := by show (supPush currentCfg w c x).1 = w1; unfold supPush; rw [hp]
  rw [hw']
  obtain ⟨_, hpu, _, hcase⟩ := Ev.chanPush_cases currentCfg (by decide) w 0 c x 2 w1 b hp
  refine ⟨hpu, ?_⟩
  rcases hcase with ⟨_, _, _, hh, _, _, hit, _, _, hwp⟩ | ⟨r, rest, _, _, hh, hw1⟩
  · left; refine ⟨hh, hit, ?_⟩; rw [hwp]; simp
  · right; refine ⟨hh, ?_⟩
    rw [hw1, Ev.schedule_chans]; simp [addHanded, setChan, addPushed]

/-- ... and into a CLOSED supervisor channel nothing is pushed and nothing else changes (source with the guard; without it
    janet_panic outside any fiber ended the thread: defect fixed by 046c08b) -/
theorem closed_supervisor_event_skipped (w : World) (c x : Nat) (hc : (w.chans c).closed = true) :
    supPush currentCfg w c x = (w, .done) := by
  unfold supPush chanPush; simp [hc]

/-- `ev/rselect` = `ev/select` after a shuffle of the clauses: whatever permutation the shuffle produces, the select
    names the same channels (so `noSelfMatch` is unaffected) and registers the fiber as reader / writer on the same
    channels - every theorem above, being stated for an arbitrary clause list, holds for every permutation. -/
theorem rselect_any_order (cls cls' : List Clause) (hp : cls'.Perm cls) :
    ((Action.select cls').noSelfMatch ↔ (Action.select cls).noSelfMatch) ∧
    (∀ c, c ∈ (Action.select cls').readChans ↔ c ∈ (Action.select cls).readChans) ∧
    (∀ c, c ∈ (Action.select cls').writeChans ↔ c ∈ (Action.select cls).writeChans) := by
  refine ⟨?_, ?_, ?_⟩
  · exact (hp.map Clause.chan).nodup_iff
  · intro c; exact (hp.filterMap _).mem_iff
  · intro c; exact (hp.filterMap _).mem_iff

/-- `ev/chan-close` on a channel with buffered items: the items stay in the queue, and every later take returns nil at
    once without touching them (janet_channel_pop_with_lock tests `closed` first) - buffered items of a closed channel are
    never delivered (conservation counts them as still queued). -/
theorem close_keeps_items_take_gets_nil (w : World) (f c : Nat) :
    ((chanClose currentCfg w c).chans c).items = (w.chans c).items ∧
    ((chanClose currentCfg w c).chans c).closed = true ∧
    chanPop currentCfg (chanClose currentCfg w c) f c 0 = .got (chanClose currentCfg w c) none := by
  have hcl : ((chanClose currentCfg w c).chans c).closed = true ∧ ((chanClose currentCfg w c).chans c).items = (w.chans c).items := by
    unfold chanClose
    by_cases h : (w.chans c).closed = true
    · simp [h]
    · simp only [h, Bool.false_eq_true, ↓reduceIte]
      rw [(Ev.closeWake_fold_view currentCfg c false _ _).1, (Ev.closeWake_fold_view currentCfg c true _ _).1]
      simp [setChan]
  refine ⟨hcl.2, hcl.1, ?_⟩
  unfold chanPop; simp [hcl.1]

example : let w := (supPush Cfg.good (World.start fun _ => 0) 0 90010).1
          (w.chans 0).items = [90010] ∧ (w.chans 0).writePending = [] ∧ w.ghost.pushed = [(0, 90010)] := by decide

/-- `(ev/full c)` tells what a give would do: with no taker waiting, `(ev/give c x)` on an open channel waits exactly when
    `ev/full` is true (`count >= limit` there, `count + 1 > limit` in push_with_lock). -/
theorem full_iff_give_waits (w : World) (f c x : Nat) (w' : World) (b : Bool)
    (h : chanPush currentCfg w f c x 0 = .ok w' b) (hr : hasLiveReader w.fibers (w.chans c).readPending = false) :
    b = true ↔ chanFull w c = true := by
  have hb := give_blocks_iff w f c x w' b h
  rw [hr] at hb
  simp only [Bool.false_eq_true, false_or] at hb
  unfold chanFull
  simp only [ge_iff_le, decide_eq_true_eq]
  cases b
  · have := hb.mp rfl; simp; omega
  · simp only [true_iff]
    have : ¬ (w.chans c).items.length < (w.chans c).limit := fun hl => by have := hb.mpr hl; cases this
    omega

/-- `(ev/count c)` after any action sequence = number of values pushed into `c` minus number handed out by it;
    `(ev/capacity c)` never changes. -/
theorem count_capacity_law (limits : Nat → Nat) (as : List Action) (c : Nat) :
    let w := run currentCfg (World.start limits) as
    (onChan w.ghost.pushed c).length = (onChan w.ghost.handed c).length + chanCount w c := by
  intro w
  have := fifo_per_channel limits as c
  show (onChan (run currentCfg (World.start limits) as).ghost.pushed c).length = _
  rw [this, List.length_append]; rfl

end JanetModel.Props.C06
