/- C06: proof obligations on the CURRENT ev.c (configuration regenerated into Gen/Ev.lean).  Same namespace as
   Props/C06.lean; separate module so that a tree lacking one of the tests breaks exactly these obligations. -/
import JanetModel.Props.C06
namespace JanetModel.Props.C06
open JanetModel.Ev

/-! ## obligations on the current source -/

/-- `no_lost_wakeup`, proved part: on the three witness schedules the CURRENT source (configuration from Gen/Ev.lean)
    neither strands a fiber nor drops a task.  Fails to check on a tree that lacks any of the three tests.
    NOT proved: the invariant for all action sequences (a suspended fiber always has a task, timer or live registration
    carrying its current sched_id; a live pending reader implies `items = []`; #live pending writers ≤ count - limit)
    and its corollary `terminates_when_matchable`.  Both are checked on every explored implementation state by the
    direct oracle (failure kinds `lost-wakeup`, `waiting-reader-with-items`, `reader-and-writer-both-waiting`). -/
theorem no_lost_wakeup_partial :
    lostWakeup (run currentCfg (World.start fun _ => 0) hangActs) 0 1 = false
    ∧ (run currentCfg (World.start fun _ => 0) staleWriterActs).ghost.dropped = []
    ∧ (run currentCfg (World.start fun _ => 0) staleCloseActs).ghost.dropped = [] := by decide

/-- the current source has every test the model knows about, with the reference operators -/
theorem current_source_checks : currentCfg = Cfg.good := by decide

end JanetModel.Props.C06
