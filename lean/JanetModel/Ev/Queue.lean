/- Model of the `janet_q_*` ring buffers of ev.c (JanetQueue: data, head, tail, capacity), operation by operation.
   CORE LEAN ONLY.  `Ev/QueueLemmas.lean` proves that it refines a list (`RingQ.toList`). -/
namespace JanetModel.Ev

/-- JanetQueue.  `data` is the allocated block viewed as a total map from slot index to element (slots outside
    `[0, cap)` are never read). -/
structure RingQ (α : Type) where
  data : Nat → α
  head : Nat := 0
  tail : Nat := 0
  cap : Nat := 0

namespace RingQ
variable {α : Type}

/-- janet_q_init -/
def init (d : α) : RingQ α := { data := fun _ => d }

/-- janet_q_count -/
def count (q : RingQ α) : Nat :=
  if q.head > q.tail then q.tail + q.cap - q.head else q.tail - q.head

/-- the abstract content, head first -/
def toList (q : RingQ α) : List α :=
  (List.range q.count).map (fun i => q.data ((q.head + i) % q.cap))

/-- janet_q_maybe_resize; `none` = returns 1 (queue at JANET_MAX_Q_CAPACITY).
    realloc keeps slots `[0, cap)`; the memmove of the first segment reads the old block. -/
def maybeResize (maxCap : Nat) (q : RingQ α) : Option (RingQ α) :=
  let count := q.count
  if count + 1 ≥ q.cap then
    if count + 1 ≥ maxCap then none
    else
      let newcap := if (count + 2) * 2 > maxCap then maxCap else (count + 2) * 2
      if q.head > q.tail then
        let newhead := q.head + (newcap - q.cap)
        let seg1 := q.cap - q.head
        some { data := fun i => if newhead ≤ i ∧ i < newhead + seg1 then q.data (i - (newcap - q.cap)) else q.data i,
               head := newhead, tail := q.tail, cap := newcap }
      else some { q with cap := newcap }
  else some q

/-- janet_q_push -/
def push (maxCap : Nat) (q : RingQ α) (x : α) : Option (RingQ α) :=
  match maybeResize maxCap q with
  | none => none
  | some q =>
    some { q with data := fun i => if i = q.tail then x else q.data i,
                  tail := if q.tail + 1 < q.cap then q.tail + 1 else 0 }

/-- janet_q_push_head -/
def pushHead (maxCap : Nat) (q : RingQ α) (x : α) : Option (RingQ α) :=
  match maybeResize maxCap q with
  | none => none
  | some q =>
    let newhead := if q.head = 0 then q.cap - 1 else q.head - 1
    some { q with data := fun i => if i = newhead then x else q.data i, head := newhead }

/-- janet_q_pop -/
def pop (q : RingQ α) : Option (α × RingQ α) :=
  if q.head = q.tail then none
  else some (q.data q.head, { q with head := if q.head + 1 < q.cap then q.head + 1 else 0 })

/-- representation invariant -/
def WF (q : RingQ α) : Prop := (q.cap = 0 ∧ q.head = 0 ∧ q.tail = 0) ∨ (q.head < q.cap ∧ q.tail < q.cap)

end RingQ
end JanetModel.Ev
